(* C06 — the interpolant of a phase sub-table is Lipschitz, hence continuous, on the set where it answers. *)
From Coq Require Import List Reals Lra Lia Bool Arith.
From AV Require Import lib.Num model.C06_Model proofs.C06_Lists proofs.C06_Proofs.
Import ListNotations.
Local Open Scope R_scope.

Definition lip (d c : R) : Prop := - c <= d <= c.

Lemma lip_abs d c : lip d c <-> Rabs d <= c.
Proof. unfold lip, Rabs. destruct (Rcase_abs d); split; intros; lra. Qed.

(* ---------- one dimension: piecewise-linear interpolation through the nodes (xs, W) ---------- *)
Section OneDim.
  Variable W : R -> R.
  Variable L : R.
  Variable xs : list R.
  Hypothesis Hs : ssorted xs.
  Hypothesis HL : 0 <= L.
  Hypothesis HW : forall p q, In p xs -> In q xs -> p <= q -> lip (W q - W p) (L * (q - p)).

  Let val (b : R * R * R) : R := @lin RNum W b.

  Lemma val_eq a b y : val (a, b, y) = W a + y * (W b - W a).
  Proof. unfold val, lin. rnum. ring. Qed.

  Lemma seg_left x a b y :
    @bracket RNum xs x = Some (a, b, y) -> lip (val (a, b, y) - W a) (L * (x - a)).
  Proof.
    intros E. pose proof (bracket_weight _ _ _ _ _ Hs E) as Wy.
    apply bracket_spec in E as (Ha & Hb & Hx & Hy & _); auto.
    rewrite val_eq. pose proof (HW a b Ha Hb ltac:(lra)) as Hl. unfold lip in *.
    destruct Hy as [[Hab ->]|[<- ->]].
    - assert (E : x - a = (x - a) / (b - a) * (b - a)) by (field; lra).
      set (y := (x - a) / (b - a)) in *. rewrite E. split; nra.
    - split; nra.
  Qed.

  Lemma seg_right x a b y :
    @bracket RNum xs x = Some (a, b, y) -> lip (W b - val (a, b, y)) (L * (b - x)).
  Proof.
    intros E. pose proof (bracket_weight _ _ _ _ _ Hs E) as Wy.
    apply bracket_spec in E as (Ha & Hb & Hx & Hy & _); auto.
    rewrite val_eq. pose proof (HW a b Ha Hb ltac:(lra)) as Hl. unfold lip in *.
    destruct Hy as [[Hab ->]|[<- ->]].
    - assert (E : b - x = (1 - (x - a) / (b - a)) * (b - a)) by (field; lra).
      set (y := (x - a) / (b - a)) in *. rewrite E. split; nra.
    - split; nra.
  Qed.

  Lemma pl_lipschitz_le x x' bx bx' :
    @bracket RNum xs x = Some bx -> @bracket RNum xs x' = Some bx' -> x <= x' ->
    lip (val bx' - val bx) (L * (x' - x)).
  Proof.
    intros E E' Hle. destruct (Req_dec x x') as [->|Hne].
    { rewrite E in E'. inversion E'; subst. unfold lip. split; nra. }
    assert (Hlt : x < x') by lra. clear Hle Hne.
    destruct bx as [[a b] y], bx' as [[a' b'] y'].
    pose proof (seg_left _ _ _ _ E) as L1. pose proof (seg_right _ _ _ _ E) as R1.
    pose proof (seg_left _ _ _ _ E') as L2. pose proof (seg_right _ _ _ _ E') as R2.
    pose proof E as S1. pose proof E' as S2.
    apply bracket_spec in S1 as (Ha & Hb & Hx & Hy & Adj1); auto.
    apply bracket_spec in S2 as (Ha' & Hb' & Hx' & Hy' & Adj2); auto.
    destruct (Adj1 a' Ha') as [C1|C1].
    - (* a' <= a *)
      destruct (Adj2 a Ha) as [C2|C2]; [|lra].
      assert (a = a') by lra. subst a'.
      destruct (Adj1 b' Hb') as [C3|C3]; [lra|].
      destruct (Adj2 b Hb) as [C4|C4].
      + (* b <= a : first cell degenerate, x = a *)
        assert (x = a) by lra. subst x.
        assert (Eb : b = a) by lra. subst b.
        assert (Hv : val (a, a, y) = W a) by (rewrite val_eq; ring).
        rewrite Hv. exact L2.
      + assert (b = b') by lra. subst b'.
        destruct Hy as [[Hab ->]|[Hab ->]]; [|lra].
        destruct Hy' as [[_ ->]|[Hab' _]]; [|lra].
        rewrite !val_eq. pose proof (HW a b Ha Hb ltac:(lra)) as Hl. unfold lip in *.
        assert (Ed : (x' - a) / (b - a) * (W b - W a) - (x - a) / (b - a) * (W b - W a)
                     = (x' - x) / (b - a) * (W b - W a)) by (field; lra).
        assert (Ex : x' - x = (x' - x) / (b - a) * (b - a)) by (field; lra).
        assert (Hpos : 0 <= (x' - x) / (b - a)).
        { apply Rmult_le_pos; [lra|]. apply Rlt_le, Rinv_0_lt_compat. lra. }
        set (k := (x' - x) / (b - a)) in *.
        replace (W a + (x' - a) / (b - a) * (W b - W a) - (W a + (x - a) / (b - a) * (W b - W a)))
          with (k * (W b - W a)) by lra.
        rewrite Ex. split; nra.
    - (* b <= a' : different cells, go through the nodes b and a' *)
      pose proof (HW b a' Hb Ha' C1) as Hm. unfold lip in *.
      replace (val (a', b', y') - val (a, b, y))
        with ((val (a', b', y') - W a') + (W a' - W b) + (W b - val (a, b, y))) by ring.
      split; nra.
  Qed.

  Lemma pl_lipschitz x x' bx bx' :
    @bracket RNum xs x = Some bx -> @bracket RNum xs x' = Some bx' ->
    Rabs (val bx' - val bx) <= L * Rabs (x' - x).
  Proof.
    intros E E'. destruct (Rle_or_lt x x') as [H|H].
    - rewrite (Rabs_right (x' - x)) by lra. apply (proj1 (lip_abs _ _)). apply pl_lipschitz_le; auto.
    - rewrite (Rabs_left (x' - x)) by lra. rewrite Rabs_minus_sym. apply (proj1 (lip_abs _ _)).
      replace (- (x' - x)) with (x - x') by ring. apply pl_lipschitz_le; auto. lra.
  Qed.
End OneDim.

(* ---------- a Lipschitz constant exists for every finite grid ---------- *)
Fixpoint rsum (l : list R) : R := match l with [] => 0 | x :: r => x + rsum r end.

Lemma rsum_ge l z : (forall u, In u l -> 0 <= u) -> In z l -> z <= rsum l.
Proof.
  induction l as [|a l IH]; cbn; [tauto|]. intros Hp [->|Hin].
  - assert (0 <= rsum l). { clear IH. induction l as [|b l IHl]; cbn; [lra|].
      assert (0 <= b) by (apply Hp; cbn; auto). assert (0 <= rsum l) by (apply IHl; intros; apply Hp; cbn in *; tauto). lra. }
    lra.
  - assert (0 <= a) by (apply Hp; auto). assert (z <= rsum l) by (apply IH; auto). lra.
Qed.

Lemma rsum_nonneg l : (forall u, In u l -> 0 <= u) -> 0 <= rsum l.
Proof.
  induction l as [|b l IHl]; cbn; [lra|]. intros Hp.
  assert (0 <= b) by (apply Hp; auto). assert (0 <= rsum l) by (apply IHl; intros; apply Hp; auto). lra.
Qed.

Lemma exists_lipschitz (V : R -> R -> R) (xs ms : list R) :
  exists L, 0 <= L /\
    forall mu p q, In mu ms -> In p xs -> In q xs -> p <= q -> lip (V q mu - V p mu) (L * (q - p)).
Proof.
  set (terms := flat_map (fun mu => flat_map (fun p => map (fun q => Rabs ((V q mu - V p mu) / (q - p))) xs) xs) ms).
  assert (Hpos : forall u, In u terms -> 0 <= u).
  { intros u Hu. unfold terms in Hu. apply in_flat_map in Hu as [mu [_ Hu]].
    apply in_flat_map in Hu as [p [_ Hu]]. apply in_map_iff in Hu as [q [<- _]]. apply Rabs_pos. }
  exists (rsum terms). split; [apply rsum_nonneg; auto|].
  intros mu p q Hmu Hp Hq Hle. destruct (Req_dec p q) as [->|Hne].
  - unfold lip. replace (V q mu - V q mu) with 0 by ring. replace (rsum terms * (q - q)) with 0 by ring. lra.
  - assert (Hlt : 0 < q - p) by lra.
    assert (Hin : In (Rabs ((V q mu - V p mu) / (q - p))) terms).
    { unfold terms. apply in_flat_map. exists mu. split; auto. apply in_flat_map. exists p. split; auto.
      apply in_map_iff. exists q. auto. }
    pose proof (rsum_ge terms _ Hpos Hin) as Hge. apply (proj2 (lip_abs _ _)).
    assert (E : V q mu - V p mu = (V q mu - V p mu) / (q - p) * (q - p)) by (field; lra).
    rewrite E, Rabs_mult, (Rabs_right (q - p)) by lra.
    apply Rmult_le_compat_r; lra.
Qed.

(* ---------- two dimensions ---------- *)
Lemma bil_as_lin (V : R -> R -> R) bf bm :
  @bil RNum V bf bm = @lin RNum (fun f => @lin RNum (fun mu => V f mu) bm) bf.
Proof. destruct bf as [[f0 f1] yf], bm as [[m0 m1] ym]. unfold bil, lin. rnum. ring. Qed.

Lemma bil_as_lin' (V : R -> R -> R) bf bm :
  @bil RNum V bf bm = @lin RNum (fun mu => @lin RNum (fun f => V f mu) bf) bm.
Proof. destruct bf as [[f0 f1] yf], bm as [[m0 m1] ym]. unfold bil, lin. rnum. ring. Qed.

Lemma lin_lip (W1 W2 : R -> R) xs x a b y c :
  ssorted xs -> @bracket RNum xs x = Some (a, b, y) ->
  (forall p, In p xs -> lip (W1 p - W2 p) c) ->
  lip (@lin RNum W1 (a, b, y) - @lin RNum W2 (a, b, y)) c.
Proof.
  intros Hs E H. pose proof (bracket_weight _ _ _ _ _ Hs E) as Wy.
  apply bracket_spec in E as (Ha & Hb & _); auto.
  pose proof (H a Ha) as H1. pose proof (H b Hb) as H2. unfold lip, lin in *. rnum.
  replace (0 + W1 a * (1 * (1 - y)) + W1 b * (1 * y) - (0 + W2 a * (1 * (1 - y)) + W2 b * (1 * y)))
    with ((1 - y) * (W1 a - W2 a) + y * (W1 b - W2 b)) by ring.
  split; nra.
Qed.

Section TwoDim.
  Variable V : R -> R -> R.
  Variables xs ms : list R.
  Hypothesis Hxs : ssorted xs.
  Hypothesis Hms : ssorted ms.

  Theorem bil_lipschitz :
    exists Lf Lm, 0 <= Lf /\ 0 <= Lm /\
      forall x m x' m' bf bm bf' bm',
        @bracket RNum xs x = Some bf -> @bracket RNum ms m = Some bm ->
        @bracket RNum xs x' = Some bf' -> @bracket RNum ms m' = Some bm' ->
        Rabs (@bil RNum V bf' bm' - @bil RNum V bf bm) <= Lf * Rabs (x' - x) + Lm * Rabs (m' - m).
  Proof.
    destruct (exists_lipschitz V xs ms) as (Lf & HLf & Hf).
    destruct (exists_lipschitz (fun mu f => V f mu) ms xs) as (Lm & HLm & Hm).
    exists Lf, Lm. repeat split; auto.
    intros x m x' m' bf bm bf' bm' Ef Em Ef' Em'.
    replace (@bil RNum V bf' bm' - @bil RNum V bf bm)
      with ((@bil RNum V bf' bm' - @bil RNum V bf bm') + (@bil RNum V bf bm' - @bil RNum V bf bm)) by ring.
    eapply Rle_trans; [apply Rabs_triang|]. apply Rplus_le_compat.
    - (* move in flight level, mass bracket bm' fixed *)
      rewrite !bil_as_lin. destruct bm' as [[m0 m1] ym].
      apply (pl_lipschitz (fun f => @lin RNum (fun mu => V f mu) (m0, m1, ym)) Lf xs Hxs HLf) with (x := x) (x' := x'); auto.
      intros p q Hp Hq Hpq.
      apply (lin_lip (fun mu => V q mu) (fun mu => V p mu) ms m' m0 m1 ym); auto.
    - (* move in mass, level bracket bf fixed *)
      rewrite !bil_as_lin'. destruct bf as [[f0 f1] yf].
      apply (pl_lipschitz (fun mu => @lin RNum (fun f => V f mu) (f0, f1, yf)) Lm ms Hms HLm) with (x := m) (x' := m'); auto.
      intros p q Hp Hq Hpq.
      apply (lin_lip (fun f => V f q) (fun f => V f p) xs x f0 f1 yf); auto.
  Qed.
End TwoDim.

Theorem lin_lipschitz (W : R -> R) xs :
  ssorted xs ->
  exists L, 0 <= L /\ forall x x' b b',
    @bracket RNum xs x = Some b -> @bracket RNum xs x' = Some b' ->
    Rabs (@lin RNum W b' - @lin RNum W b) <= L * Rabs (x' - x).
Proof.
  intros Hs. destruct (exists_lipschitz (fun f _ => W f) xs [0]) as (L & HL & H).
  exists L. split; auto. intros x x' b b' E E'.
  apply (pl_lipschitz W L xs Hs HL) with (x := x) (x' := x'); auto.
  intros p q Hp Hq Hpq. apply (H 0 p q); cbn; auto.
Qed.

(* ---------- the phase interpolant ---------- *)
Notation Row := (row RNum).

(* every output of interp_phase is Lipschitz in (flight level, mass) on the set of points where a value is returned *)
Theorem interp_phase_lipschitz sw (sub : list Row) :
  exists Lf Lm, 0 <= Lf /\ 0 <= Lm /\
    forall v x m x' m' t rc ff t' rc' ff',
      @interp_phase RNum sw sub x m = @Ok RNum t rc ff ->
      @interp_phase RNum sw sub x' m' = @Ok RNum t' rc' ff' ->
      Rabs (out v (@Ok RNum t' rc' ff') - out v (@Ok RNum t rc ff)) <= Lf * Rabs (x' - x) + Lm * Rabs (m' - m).
Proof.
  unfold interp_phase.
  destruct (Nat.ltb 1 (length (@masses RNum sub))) eqn:El.
  - destruct (bil_lipschitz (@node_val RNum VTas sub) (@fls RNum sub) (@masses RNum sub)
                            (uniq_sorted_sorted _) (uniq_sorted_sorted _)) as (A1 & B1 & HA1 & HB1 & H1).
    destruct (bil_lipschitz (@node_val RNum VRocd sub) (@fls RNum sub) (@masses RNum sub)
                            (uniq_sorted_sorted _) (uniq_sorted_sorted _)) as (A2 & B2 & HA2 & HB2 & H2).
    destruct (bil_lipschitz (@node_val RNum VFf sub) (@fls RNum sub) (@masses RNum sub)
                            (uniq_sorted_sorted _) (uniq_sorted_sorted _)) as (A3 & B3 & HA3 & HB3 & H3).
    exists (A1 + A2 + A3), (B1 + B2 + B3). split; [lra|]. split; [lra|].
    intros v x m x' m' t rc ff t' rc' ff'.
    destruct (@bracket RNum (@fls RNum sub) x) as [bf|] eqn:Ef; [|discriminate].
    destruct (@bracket RNum (@masses RNum sub) m) as [bm|] eqn:Em; [|discriminate].
    destruct (@bracket RNum (@fls RNum sub) x') as [bf'|] eqn:Ef'; [|discriminate].
    destruct (@bracket RNum (@masses RNum sub) m') as [bm'|] eqn:Em'; [|discriminate].
    intros E E'. inversion E; inversion E'; subst.
    pose proof (Rabs_pos (x' - x)). pose proof (Rabs_pos (m' - m)).
    pose proof (H1 _ _ _ _ _ _ _ _ Ef Em Ef' Em'). pose proof (H2 _ _ _ _ _ _ _ _ Ef Em Ef' Em').
    pose proof (H3 _ _ _ _ _ _ _ _ Ef Em Ef' Em').
    destruct v; cbn [out]; nra.
  - destruct (lin_lipschitz (@node_val1 RNum sw VTas sub) (@fls RNum sub) (uniq_sorted_sorted _)) as (A1 & HA1 & H1).
    destruct (lin_lipschitz (@node_val1 RNum sw VRocd sub) (@fls RNum sub) (uniq_sorted_sorted _)) as (A2 & HA2 & H2).
    destruct (lin_lipschitz (@node_val1 RNum sw VFf sub) (@fls RNum sub) (uniq_sorted_sorted _)) as (A3 & HA3 & H3).
    exists (A1 + A2 + A3), 0. split; [lra|]. split; [lra|].
    intros v x m x' m' t rc ff t' rc' ff'.
    destruct (@bracket RNum (@fls RNum sub) x) as [bf|] eqn:Ef; [|discriminate].
    destruct (@bracket RNum (@fls RNum sub) x') as [bf'|] eqn:Ef'; [|discriminate].
    intros E E'. inversion E; inversion E'; subst.
    pose proof (Rabs_pos (x' - x)). pose proof (Rabs_pos (m' - m)).
    pose proof (H1 _ _ _ _ Ef Ef'). pose proof (H2 _ _ _ _ Ef Ef'). pose proof (H3 _ _ _ _ Ef Ef').
    destruct v; cbn [out]; nra.
Qed.

(* epsilon-delta continuity of what evaluate returns, jointly in altitude (through a Lipschitz conversion) and mass *)
Theorem evaluate_continuous sw (conv : R -> R) (K : R) rows p :
  0 <= K -> (forall a a', Rabs (conv a' - conv a) <= K * Rabs (a' - a)) ->
  forall v alt m t rc ff,
    @evaluate RNum sw conv rows p alt (@MVal RNum m) = @Ok RNum t rc ff ->
    forall eps, 0 < eps ->
    exists delta, 0 < delta /\
      forall alt' m' t' rc' ff',
        Rabs (alt' - alt) < delta -> Rabs (m' - m) < delta ->
        @evaluate RNum sw conv rows p alt' (@MVal RNum m') = @Ok RNum t' rc' ff' ->
        Rabs (out v (@Ok RNum t' rc' ff') - out v (@Ok RNum t rc ff)) < eps.
Proof.
  intros HK Hconv v alt m t rc ff E eps Heps.
  destruct (interp_phase_lipschitz sw (@subset RNum p rows)) as (Lf & Lm & HLf & HLm & HL).
  exists (eps / (Lf * K + Lm + 1)).
  assert (Hden : 0 < Lf * K + Lm + 1) by nra.
  split; [apply Rdiv_lt_0_compat; lra|].
  intros alt' m' t' rc' ff' Ha Hm E'.
  unfold evaluate in E, E'. cbn [resolve_mass] in E, E'.
  destruct (@validate RNum sw (@subset RNum p rows)); [discriminate|].
  pose proof (HL v _ _ _ _ _ _ _ _ _ _ E E') as Hb.
  pose proof (Hconv alt alt') as Hc.
  pose proof (Rabs_pos (conv alt' - conv alt)). pose proof (Rabs_pos (alt' - alt)). pose proof (Rabs_pos (m' - m)).
  set (d := eps / (Lf * K + Lm + 1)) in *.
  assert (Hd : d * (Lf * K + Lm + 1) = eps) by (unfold d; field; lra).
  assert (Hd0 : 0 < d) by (unfold d; apply Rdiv_lt_0_compat; lra).
  eapply Rle_lt_trans; [exact Hb|].
  assert (I1 : Lf * Rabs (conv alt' - conv alt) <= Lf * (K * Rabs (alt' - alt))) by (apply Rmult_le_compat_l; auto).
  assert (I2 : K * Rabs (alt' - alt) <= K * d) by (apply Rmult_le_compat_l; lra).
  assert (I3 : Lf * (K * Rabs (alt' - alt)) <= Lf * (K * d)) by (apply Rmult_le_compat_l; auto).
  assert (I4 : Lm * Rabs (m' - m) <= Lm * d) by (apply Rmult_le_compat_l; lra).
  assert (I5 : Lf * (K * d) + Lm * d < d * (Lf * K + Lm + 1)) by nra.
  lra.
Qed.

(* C13 — lemmas about the schedule-import model.  Axiom-free. *)
From Coq Require Import ZArith List String Bool Ascii Lia Sorted.
From AV Require Import lib.Dates model.C13_Model.
Import ListNotations.
Open Scope Z_scope.

(* ------------------------------------------------------------------------- *)
(* expansion of a date range by weekday                                       *)
(* ------------------------------------------------------------------------- *)

Lemma in_days_spec : forall days d, in_days days d = true <-> In (weekday d) days.
Proof.
  intros days d. unfold in_days. rewrite existsb_exists. split.
  - intros [x [Hx He]]. apply Z.eqb_eq in He. subst. exact Hx.
  - intros H. exists (weekday d). split; [exact H | apply Z.eqb_refl].
Qed.

Lemma expand_from_In : forall n a days d,
  In d (expand_from a n days) <-> (a <= d < a + Z.of_nat n /\ in_days days d = true).
Proof.
  induction n as [|k IH]; intros a days d; simpl expand_from.
  - simpl. lia.
  - rewrite in_app_iff, IH. destruct (in_days days a) eqn:Ea; simpl In.
    + split.
      * intros [[H|[]]|[H1 H2]]; [subst; split; [lia|exact Ea] | split; [lia|exact H2]].
      * intros [H1 H2]. destruct (Z.eq_dec a d) as [->|Hne]; [left; left; reflexivity | right; split; [lia|exact H2]].
    + split.
      * intros [[]|[H1 H2]]. split; [lia|exact H2].
      * intros [H1 H2]. right. split; [|exact H2].
        destruct (Z.eq_dec a d) as [->|Hne]; [congruence | lia].
Qed.

Lemma expand_In : forall from to days d,
  In d (expand from to days) <-> (from <= d <= to /\ In (weekday d) days).
Proof.
  intros from to days d. unfold expand. rewrite expand_from_In, in_days_spec.
  destruct (Z_le_gt_dec from to) as [H|H].
  - rewrite Z2Nat.id by lia. split; intros [H1 H2]; (split; [lia | exact H2]).
  - replace (Z.to_nat (to - from + 1)) with O by lia. simpl. split; intros [H1 H2]; exfalso; lia.
Qed.

Lemma expand_from_lower : forall n a days d, In d (expand_from a n days) -> a <= d.
Proof. intros n a days d H. apply expand_from_In in H. lia. Qed.

Lemma expand_from_sorted : forall n a days, StronglySorted Z.lt (expand_from a n days).
Proof.
  induction n as [|k IH]; intros a days; simpl expand_from.
  - constructor.
  - destruct (in_days days a); simpl app.
    + constructor; [apply IH|]. apply Forall_forall. intros x Hx.
      apply expand_from_lower in Hx. lia.
    + apply IH.
Qed.

Lemma expand_sorted : forall from to days, StronglySorted Z.lt (expand from to days).
Proof. intros. apply expand_from_sorted. Qed.

Lemma sorted_lt_NoDup : forall l, StronglySorted Z.lt l -> NoDup l.
Proof.
  induction l as [|x l IH]; intros H; [constructor|].
  inversion H as [|? ? Hs Hf]; subst. constructor; [|apply IH; exact Hs].
  intros Hin. rewrite Forall_forall in Hf. specialize (Hf x Hin). lia.
Qed.

Lemma expand_NoDup : forall from to days, NoDup (expand from to days).
Proof. intros. apply sorted_lt_NoDup, expand_sorted. Qed.

(* a single-day range yields that day or nothing *)
Lemma expand_single_day : forall d days,
  expand d d days = if in_days days d then [d] else [].
Proof.
  intros d days. unfold expand. replace (d - d + 1) with 1 by lia. simpl.
  destruct (in_days days d); reflexivity.
Qed.

Lemma expand_empty_range : forall from to days, to < from -> expand from to days = [].
Proof. intros. unfold expand. replace (Z.to_nat (to - from + 1)) with O by lia. reflexivity. Qed.

(* ------------------------------------------------------------------------- *)
(* weekday mask                                                               *)
(* ------------------------------------------------------------------------- *)

Fixpoint sublists {A} (l : list A) : list (list A) :=
  match l with
  | [] => [[]]
  | x :: r => map (cons x) (sublists r) ++ sublists r
  end.

Definition week : list Z := [1; 2; 3; 4; 5; 6; 7].

Definition mask_ok (days : list Z) : bool :=
  forallb (fun k => Bool.eqb (Z.testbit (dow_mask days) (k - 1)) (existsb (Z.eqb k) days)) week
  && (0 <=? dow_mask days) && (dow_mask days <? 128).

Lemma mask_sweep : forallb mask_ok (sublists week) = true.
Proof. vm_compute. reflexivity. Qed.

Lemma dow_mask_bits : forall days, In days (sublists week) ->
  forall k, 1 <= k <= 7 -> (Z.testbit (dow_mask days) (k - 1) = true <-> In k days).
Proof.
  intros days Hd k Hk. pose proof mask_sweep as H. rewrite forallb_forall in H.
  specialize (H days Hd). unfold mask_ok in H. repeat rewrite andb_true_iff in H.
  destruct H as [[H _] _]. rewrite forallb_forall in H.
  assert (Hin : In k week) by (unfold week; simpl; lia).
  specialize (H k Hin). apply Bool.eqb_prop in H. rewrite H. rewrite existsb_exists. split.
  - intros [x [Hx He]]. apply Z.eqb_eq in He. subst. exact Hx.
  - intros Hx. exists k. split; [exact Hx | apply Z.eqb_refl].
Qed.

Lemma dow_mask_range : forall days, In days (sublists week) -> 0 <= dow_mask days < 128.
Proof.
  intros days Hd. pose proof mask_sweep as H. rewrite forallb_forall in H.
  specialize (H days Hd). unfold mask_ok in H. repeat rewrite andb_true_iff in H.
  destruct H as [[_ H1] H2]. apply Z.leb_le in H1. apply Z.ltb_lt in H2. lia.
Qed.

(* every strictly increasing list of weekdays is one of the 128 swept lists *)
Lemma sublists_In_cons : forall (x : Z) r l, In l (sublists r) -> In (x :: l) (sublists (x :: r)).
Proof. intros. simpl. apply in_or_app. left. apply in_map. assumption. Qed.

Lemma sublists_In_skip : forall (x : Z) r l, In l (sublists r) -> In l (sublists (x :: r)).
Proof. intros. simpl. apply in_or_app. right. assumption. Qed.

Lemma sorted_in_sublists : forall (u l : list Z),
  StronglySorted Z.lt u -> StronglySorted Z.lt l -> (forall d, In d l -> In d u) -> In l (sublists u).
Proof.
  induction u as [|x u IH]; intros l Hu Hl Hsub.
  - destruct l as [|y l]; [simpl; auto | exfalso; apply (Hsub y); left; reflexivity].
  - inversion Hu as [|? ? Hu' Hfx]; subst. rewrite Forall_forall in Hfx.
    destruct l as [|y l].
    + apply sublists_In_skip. apply IH; [assumption | constructor | intros d []].
    + inversion Hl as [|? ? Hl' Hfy]; subst. rewrite Forall_forall in Hfy.
      destruct (Z.eq_dec y x) as [->|Hne].
      * apply sublists_In_cons. apply IH; [assumption|assumption|].
        intros d Hd. destruct (Hsub d (or_intror Hd)) as [He|Hin]; [|exact Hin].
        subst. specialize (Hfy d Hd). lia.
      * apply sublists_In_skip. apply IH; [assumption|assumption|].
        intros d Hd. destruct (Hsub d Hd) as [He|Hin]; [|exact Hin].
        subst d. destruct Hd as [He|Hd]; [congruence|].
        (* x occurs later in l, hence y < x; but y itself must be in u, hence x < y *)
        specialize (Hfy x Hd).
        destruct (Hsub y (or_introl eq_refl)) as [He|Hin]; [congruence|].
        specialize (Hfx y Hin). lia.
Qed.

Lemma week_sorted : StronglySorted Z.lt week.
Proof. unfold week. repeat (constructor; [|repeat constructor; lia]). constructor. Qed.

Lemma dow_mask_spec : forall days, StronglySorted Z.lt days -> (forall d, In d days -> 1 <= d <= 7) ->
  (0 <= dow_mask days < 128) /\
  forall k, 1 <= k <= 7 -> (Z.testbit (dow_mask days) (k - 1) = true <-> In k days).
Proof.
  intros days Hs Hr.
  assert (Hin : In days (sublists week)).
  { apply sorted_in_sublists; [apply week_sorted | exact Hs |].
    intros d Hd. specialize (Hr d Hd). unfold week. simpl. lia. }
  split; [apply dow_mask_range; exact Hin | apply dow_mask_bits; exact Hin].
Qed.

(* ------------------------------------------------------------------------- *)
(* instances                                                                  *)
(* ------------------------------------------------------------------------- *)

Section Inst.
  Variable offO offD : Z -> Z.
  Variable geod : Z -> Z -> Z -> Z -> option Z.

  Notation instance := (instance offO offD).
  Notation schedule := (schedule offO offD).
  Notation misordered := (misordered offO offD).
  Notation all_instances := (all_instances offO offD).
  Notation import_row := (import_row offO offD geod).

  Definition dep_utc (s : sched) (d : Z) : Z := (d * 1440 + s_dep s) * 60 - offO (d * 1440 + s_dep s).
  Definition arr_utc (s : sched) (d : Z) : Z :=
    ((d + s_arrday s) * 1440 + s_arr s) * 60 - offD ((d + s_arrday s) * 1440 + s_arr s).

  Lemma instance_unfold : forall s d, instance s d = (dep_utc s d, arr_utc s d, dep_utc s d / 86400).
  Proof. reflexivity. Qed.

  Lemma schedule_In : forall year s i,
    In i (schedule year s) <->
    exists d, (effective_from year s <= d <= effective_to year s /\ In (weekday d) (s_days s))
              /\ i = (dep_utc s d, arr_utc s d, dep_utc s d / 86400) /\ dep_utc s d <= arr_utc s d.
  Proof.
    intros year s i. unfold C13_Model.schedule, C13_Model.all_instances.
    rewrite filter_In, in_map_iff. split.
    - intros [[d [Hi Hd]] Ho]. exists d. apply expand_In in Hd. subst i.
      rewrite instance_unfold in *. split; [exact Hd|]. split; [reflexivity|].
      unfold ordered in Ho. apply Z.leb_le in Ho. exact Ho.
    - intros [d [Hd [Hi Ho]]]. subst i. split.
      + exists d. split; [apply instance_unfold | apply expand_In; exact Hd].
      + unfold ordered. apply Z.leb_le. exact Ho.
  Qed.

  Lemma misordered_iff : forall year s,
    misordered year s = true <->
    exists d, (effective_from year s <= d <= effective_to year s /\ In (weekday d) (s_days s))
              /\ arr_utc s d < dep_utc s d.
  Proof.
    intros year s. unfold C13_Model.misordered, C13_Model.all_instances. rewrite existsb_exists. split.
    - intros [i [Hi Ho]]. apply in_map_iff in Hi. destruct Hi as [d [Hi Hd]]. subst i.
      exists d. apply expand_In in Hd. split; [exact Hd|].
      rewrite instance_unfold in Ho. unfold ordered in Ho. apply negb_true_iff in Ho.
      apply Z.leb_gt in Ho. exact Ho.
    - intros [d [Hd Ho]]. exists (instance s d). split.
      + apply in_map. apply expand_In. exact Hd.
      + rewrite instance_unfold. unfold ordered. apply negb_true_iff. apply Z.leb_gt. exact Ho.
  Qed.

  (* the kept instances are in date order: one per date, no duplicates of a date *)
  Lemma schedule_is_filtered_map : forall year s,
    schedule year s = filter ordered (map (instance s) (expand (effective_from year s) (effective_to year s) (s_days s))).
  Proof. reflexivity. Qed.

  Lemma schedule_length_le : forall year s,
    (List.length (schedule year s) <= List.length (expand (effective_from year s) (effective_to year s) (s_days s)))%nat.
  Proof.
    intros. rewrite schedule_is_filtered_map.
    rewrite <- (map_length (instance s) (expand _ _ _)). generalize (map (instance s) (expand (effective_from year s) (effective_to year s) (s_days s))).
    induction l as [|x l IH]; simpl; [lia|]. destruct (ordered x); simpl; lia.
  Qed.

  (* nothing is dropped when no instance is misordered: one instance per expanded date *)
  Lemma schedule_all_when_ordered : forall year s,
    misordered year s = false ->
    schedule year s = map (instance s) (expand (effective_from year s) (effective_to year s) (s_days s)).
  Proof.
    intros year s H. unfold C13_Model.schedule, C13_Model.misordered, C13_Model.all_instances in *.
    generalize dependent (map (instance s) (expand (effective_from year s) (effective_to year s) (s_days s))).
    induction l as [|x l IH]; intros H; simpl in *; [reflexivity|].
    apply orb_false_iff in H. destruct H as [H1 H2]. apply negb_false_iff in H1. rewrite H1.
    f_equal. apply IH. exact H2.
  Qed.


  Lemma misordered_dropped_only : forall year s,
    (misordered year s = true <->
       exists d, (effective_from year s <= d <= effective_to year s /\ In (weekday d) (s_days s))
                 /\ arr_utc s d < dep_utc s d)
    /\ (misordered year s = false ->
        schedule year s = map (instance s) (expand (effective_from year s) (effective_to year s) (s_days s))).
  Proof. intros. split; [apply misordered_iff | apply schedule_all_when_ordered]. Qed.

  (* ----------------------------------------------------------------------- *)
  (* the importer                                                              *)
  (* ----------------------------------------------------------------------- *)

  Definition given_mm (miles : Z) : Z := miles * miles_to_mm.

  (* the documented reasons, each as a plain condition on the row *)
  Definition reason_holds (fl : flags) (excl : list string) (r : csvrow) (ko kd : bool) (o d : Z * Z) (miles : Z)
             (k : skip) : Prop :=
    match k with
    | SkipEOF => c_carrier r = eof_marker
    | SkipService => c_service r = "V"%string \/ c_service r = "U"%string
    | SkipStops => c_stops r <> 0
    | SkipOperating => c_operating r = "N"%string
    | SkipEquipment => In (c_genacft r) excl
    | SkipUnknownAirport => ko = false \/ kd = false
    | SkipZeroDistance => exists g, gc_distance geod fl o d = Some g /\ g < 1000000
    | SkipSuspiciousDistance =>
        exists g, gc_distance geod fl o d = Some g /\ 1000000 <= g /\ 0 < given_mm miles
                  /\ 50000000 < Z.abs (given_mm miles - g) /\ 10 * g < 100 * Z.abs (given_mm miles - g)
    end.

  Lemma str_in_spec : forall s l, str_in s l = true <-> In s l.
  Proof.
    intros s l. unfold str_in. rewrite existsb_exists. split.
    - intros [x [Hx He]]. apply String.eqb_eq in He. subst. exact Hx.
    - intros H. exists s. split; [exact H | apply String.eqb_refl].
  Qed.

  Lemma row_skip_reason_sound : forall fl excl r ko kd o d miles k,
    row_skip_reason excl r = Some k -> reason_holds fl excl r ko kd o d miles k.
  Proof.
    intros fl excl r ko kd o d miles k. unfold row_skip_reason.
    destruct (String.eqb (c_carrier r) eof_marker) eqn:E1.
    { intros H; inversion H; subst. apply String.eqb_eq in E1. exact E1. }
    destruct (str_in (c_service r) ["V"%string; "U"%string]) eqn:E2.
    { intros H; inversion H; subst. apply str_in_spec in E2. simpl in E2. simpl. intuition. }
    destruct (negb (c_stops r =? 0)) eqn:E3.
    { intros H; inversion H; subst. apply negb_true_iff in E3. apply Z.eqb_neq in E3. exact E3. }
    destruct (String.eqb (c_operating r) "N") eqn:E4.
    { intros H; inversion H; subst. apply String.eqb_eq in E4. exact E4. }
    destruct (str_in (c_genacft r) excl) eqn:E5.
    { intros H; inversion H; subst. apply str_in_spec in E5. exact E5. }
    discriminate.
  Qed.

  Lemma row_skip_reason_none : forall excl r,
    row_skip_reason excl r = None <->
    (c_carrier r <> eof_marker /\ c_service r <> "V"%string /\ c_service r <> "U"%string
     /\ c_stops r = 0 /\ c_operating r <> "N"%string /\ ~ In (c_genacft r) excl).
  Proof.
    intros excl r. unfold row_skip_reason.
    destruct (String.eqb_spec (c_carrier r) eof_marker) as [E1|E1]; [split; [discriminate | tauto]|].
    destruct (str_in (c_service r) ["V"%string; "U"%string]) eqn:E2.
    { apply str_in_spec in E2. simpl in E2. split; [discriminate|]. intros H. exfalso. intuition congruence. }
    assert (E2' : c_service r <> "V"%string /\ c_service r <> "U"%string).
    { split; intros He; assert (Hin : str_in (c_service r) ["V"%string; "U"%string] = true)
        by (apply str_in_spec; simpl; auto); congruence. }
    destruct (Z.eqb_spec (c_stops r) 0) as [E3|E3]; cbn [negb]; [|split; [discriminate | tauto]].
    destruct (String.eqb_spec (c_operating r) "N") as [E4|E4]; [split; [discriminate | tauto]|].
    destruct (str_in (c_genacft r) excl) eqn:E5.
    { apply str_in_spec in E5. split; [discriminate | tauto]. }
    assert (E5' : ~ In (c_genacft r) excl).
    { intros Hin. apply str_in_spec in Hin. congruence. }
    split; [tauto | reflexivity].
  Qed.

  Lemma distance_verdict_zero : forall gc given,
    distance_verdict gc given = DZero <-> exists g, gc = Some g /\ g < 1000000.
  Proof.
    intros gc given. unfold distance_verdict, distance_verdict_gen. destruct gc as [g|].
    - destruct (Z.ltb_spec g 1000000) as [H|H].
      + split; [intros _; exists g; split; [reflexivity|exact H] | reflexivity].
      + destruct ((0 <? given) && _); split; try discriminate; intros [g' [He Hg]]; inversion He; subst; lia.
    - split; [discriminate | intros [g [He _]]; discriminate].
  Qed.

  Lemma distance_verdict_suspicious : forall gc given,
    distance_verdict gc given = DSuspicious <->
    exists g, gc = Some g /\ 1000000 <= g /\ 0 < given /\ 50000000 < Z.abs (given - g)
              /\ 10 * g < 100 * Z.abs (given - g).
  Proof.
    intros gc given. unfold distance_verdict, distance_verdict_gen. destruct gc as [g|].
    - destruct (Z.ltb_spec g 1000000) as [H|H].
      + split; [discriminate | intros [g' [He Hg]]; inversion He; subst; lia].
      + destruct (Z.ltb_spec 0 given) as [H1|H1]; cbn [andb].
        * destruct (Z.ltb_spec 50000000 (Z.abs (given - g))) as [H2|H2]; cbn [andb].
          -- destruct (Z.ltb_spec (10 * g) (100 * Z.abs (given - g) * 1)) as [H3|H3].
             ++ split; [intros _; exists g; repeat split; try assumption; lia | reflexivity].
             ++ split; [discriminate | intros [g' [He Hg]]; inversion He; subst; lia].
          -- split; [discriminate | intros [g' [He Hg]]; inversion He; subst; lia].
        * split; [discriminate | intros [g' [He Hg]]; inversion He; subst; lia].
    - split; [discriminate | intros [g [He _]]; discriminate].
  Qed.

  (* which reason a skipped row reports is one that really holds *)
  Lemma skipped_reason_holds : forall fl excl year r ko kd o d miles s k,
    import_row fl excl year r ko kd o d miles s = Skipped k -> reason_holds fl excl r ko kd o d miles k.
  Proof.
    intros fl excl year r ko kd o d miles s k. unfold C13_Model.import_row.
    destruct (row_skip_reason excl r) as [k0|] eqn:Er.
    { intros H; inversion H; subst. eapply row_skip_reason_sound; eassumption. }
    destruct (negb (ko && kd)) eqn:Ek.
    { intros H; inversion H; subst. simpl. apply negb_true_iff in Ek. apply andb_false_iff in Ek. exact Ek. }
    destruct (distance_verdict (gc_distance geod fl o d) (miles * miles_to_mm)) eqn:Ed.
    - destruct (fl_raw_dates fl && _); discriminate.
    - intros H; inversion H; subst. simpl. apply distance_verdict_zero in Ed. exact Ed.
    - intros H; inversion H; subst. simpl. apply distance_verdict_suspicious in Ed. exact Ed.
  Qed.

  (* a row is skipped exactly when one of the documented reasons holds *)
  Lemma skipped_iff_reason : forall fl excl year r ko kd o d miles s,
    (exists k, import_row fl excl year r ko kd o d miles s = Skipped k)
    <-> (exists k, reason_holds fl excl r ko kd o d miles k).
  Proof.
    intros fl excl year r ko kd o d miles s. split.
    - intros [k H]. exists k. eapply skipped_reason_holds; eassumption.
    - intros [k H]. unfold C13_Model.import_row.
      destruct (row_skip_reason excl r) as [k0|] eqn:Er; [eexists; reflexivity|].
      destruct (negb (ko && kd)) eqn:Ek; [eexists; reflexivity|].
      destruct (distance_verdict (gc_distance geod fl o d) (miles * miles_to_mm)) eqn:Ed;
        [|eexists; reflexivity|eexists; reflexivity].
      exfalso. apply row_skip_reason_none in Er. apply negb_false_iff in Ek. apply andb_true_iff in Ek.
      destruct k; simpl in H.
      + tauto.
      + tauto.
      + tauto.
      + tauto.
      + tauto.
      + destruct Ek; destruct H; congruence.
      + assert (Hz : distance_verdict (gc_distance geod fl o d) (miles * miles_to_mm) = DZero)
          by (apply distance_verdict_zero; exact H). congruence.
      + assert (Hz : distance_verdict (gc_distance geod fl o d) (miles * miles_to_mm) = DSuspicious)
          by (apply distance_verdict_suspicious; exact H). congruence.
  Qed.


  Lemma skip_iff_documented_reason : forall fl excl year r ko kd o d miles s,
    ((exists k, import_row fl excl year r ko kd o d miles s = Skipped k)
     <-> (exists k, reason_holds fl excl r ko kd o d miles k))
    /\ (forall k, import_row fl excl year r ko kd o d miles s = Skipped k ->
                  reason_holds fl excl r ko kd o d miles k).
  Proof. intros. split; [apply skipped_iff_reason | intros k; apply skipped_reason_holds]. Qed.

  (* a row none of whose reasons holds is imported (specification) *)
  Lemma plausible_imported : forall excl year r o d miles s g,
    row_skip_reason excl r = None ->
    geod (snd o) (fst o) (snd d) (fst d) = Some g ->            (* called with (lon, lat, lon, lat) *)
    1000000 <= g ->
    (given_mm miles <= 0 \/ Z.abs (given_mm miles - g) <= 50000000 \/ 10 * Z.abs (given_mm miles - g) <= g) ->
    exists f, import_row spec_flags excl year r true true o d miles s
              = Imported f (schedule year s) (misordered year s).
  Proof.
    intros excl year r [olat olon] [dlat dlon] miles s g Hr Hg H1 Hp. simpl in Hg.
    unfold C13_Model.import_row. rewrite Hr. cbn [negb]. cbv iota.
    assert (Hv : distance_verdict (gc_distance geod spec_flags (olat, olon) (dlat, dlon)) (miles * miles_to_mm) = DPlausible).
    { unfold gc_distance, spec_flags. simpl fl_swap_latlon. cbv iota. rewrite Hg.
      unfold distance_verdict, distance_verdict_gen.
      destruct (Z.ltb_spec g 1000000) as [H|H]; [lia|].
      unfold given_mm in Hp.
      destruct (Z.ltb_spec 0 (miles * miles_to_mm)) as [H2|H2]; cbn [andb]; [|reflexivity].
      destruct (Z.ltb_spec 50000000 (Z.abs (miles * miles_to_mm - g))) as [H3|H3]; cbn [andb]; [|reflexivity].
      destruct (Z.ltb_spec (10 * g) (100 * Z.abs (miles * miles_to_mm - g) * 1)) as [H4|H4]; [|reflexivity].
      exfalso. lia. }
    rewrite Hv. simpl. eexists. reflexivity.
  Qed.

  Lemma imported_count : forall fl excl year r ko kd o d miles s f insts w,
    import_row fl excl year r ko kd o d miles s = Imported f insts w ->
    insts = schedule year s /\ w = misordered year s /\
    f = (dow_mask (s_days s), s_dep s, s_arr s, s_arrday s,
         civil_from_days (effective_from year s), civil_from_days (effective_to year s),
         Z.of_nat (List.length insts)).
  Proof.
    intros fl excl year r ko kd o d miles s f insts w. unfold C13_Model.import_row.
    destruct (row_skip_reason excl r); [discriminate|].
    destruct (negb (ko && kd)); [discriminate|].
    destruct (distance_verdict _ _); try discriminate.
    destruct (fl_raw_dates fl && _); [discriminate|].
    intros H. inversion H; subst. auto.
  Qed.

  (* with the repaired switches the importer never crashes *)
  Lemma spec_never_crashes : forall excl year r ko kd o d miles s sw,
    import_row (Flags sw false) excl year r ko kd o d miles s <> Crashed.
  Proof.
    intros. unfold C13_Model.import_row.
    destruct (row_skip_reason excl r); [discriminate|].
    destruct (negb (ko && kd)); [discriminate|].
    destruct (distance_verdict _ _); try discriminate.
  Qed.
End Inst.

(* ------------------------------------------------------------------------- *)
(* the property's reading: reasons evaluated with the geodesic called (lon, lat) *)
(* ------------------------------------------------------------------------- *)

(* The documented reasons of the PROPERTY: [reason_holds] at the specification switches, i.e. the distance
   reasons are computed from geod (lon, lat, lon, lat).  ([reason_holds] at other switches describes what the
   code as found computes — with exchanged coordinates — and certifies nothing about the property.) *)
Definition documented_reason (geod : Z -> Z -> Z -> Z -> option Z) (excl : list string) (r : csvrow) (ko kd : bool)
           (o d : Z * Z) (miles : Z) (k : skip) : Prop :=
  reason_holds geod spec_flags excl r ko kd o d miles k.

Lemma skip_iff_documented_reason_spec : forall offO offD geod excl year r ko kd o d miles s,
  ((exists k, import_row offO offD geod spec_flags excl year r ko kd o d miles s = Skipped k)
   <-> (exists k, documented_reason geod excl r ko kd o d miles k))
  /\ (forall k, import_row offO offD geod spec_flags excl year r ko kd o d miles s = Skipped k ->
                documented_reason geod excl r ko kd o d miles k).
Proof. intros. apply skip_iff_documented_reason. Qed.

(* the recorded effective dates are the row's own dates (or 1 Jan / 31 Dec of the data year), 1970-2099 *)
Definition date_in_calendar (c : Z * Z * Z) : Prop :=
  let '(y, m, d) := c in sweep_first_year <= y <= sweep_last_year /\ valid_date y m d = true.

Lemma recorded_effective_dates : forall year s,
  sweep_first_year <= year <= sweep_last_year ->
  (forall c, s_from s = Some c -> date_in_calendar c) -> (forall c, s_to s = Some c -> date_in_calendar c) ->
  civil_from_days (effective_from year s) = match s_from s with Some c => c | None => (year, 1, 1) end
  /\ civil_from_days (effective_to year s) = match s_to s with Some c => c | None => (year, 12, 31) end.
Proof.
  intros year s Hy Hf Ht. unfold effective_from, effective_to. split.
  - destruct (s_from s) as [[[y m] d]|].
    + destruct (Hf _ eq_refl) as [H1 H2]. simpl. apply civil_roundtrip_date; assumption.
    + unfold jan1. apply civil_roundtrip_date; [exact Hy | reflexivity].
  - destruct (s_to s) as [[[y m] d]|].
    + destruct (Ht _ eq_refl) as [H1 H2]. simpl. apply civil_roundtrip_date; assumption.
    + unfold dec31. apply civil_roundtrip_date; [exact Hy | reflexivity].
Qed.

Lemma imported_flight_dates : forall offO offD geod fl excl year r ko kd o d miles s mask dep arr ad efrom eto cnt insts w,
  import_row offO offD geod fl excl year r ko kd o d miles s = Imported (mask, dep, arr, ad, efrom, eto, cnt) insts w ->
  sweep_first_year <= year <= sweep_last_year ->
  (forall c, s_from s = Some c -> date_in_calendar c) -> (forall c, s_to s = Some c -> date_in_calendar c) ->
  efrom = match s_from s with Some c => c | None => (year, 1, 1) end
  /\ eto = match s_to s with Some c => c | None => (year, 12, 31) end.
Proof.
  intros until w. intros H Hy Hf Ht. apply imported_count in H. destruct H as [_ [_ H]].
  inversion H; subst. apply recorded_effective_dates; assumption.
Qed.

Lemma weekday_follows_calendar :
  civil_from_days 0 = (1970, 1, 1) /\ weekday 0 = 4
  /\ (forall z, 0 <= z < sweep_last_day ->
        civil_from_days (z + 1) = next_date (civil_from_days z)
        /\ weekday (z + 1) = (if weekday z =? 7 then 1 else weekday z + 1)).
Proof. split; [reflexivity | split; [reflexivity | exact weekday_of_next_date]]. Qed.

(* ------------------------------------------------------------------------- *)
(* open-ended ranges                                                          *)
(* ------------------------------------------------------------------------- *)

Lemma open_ended_defaults : forall year s,
  (s_from s = None -> effective_from year s = jan1 year) /\
  (s_to s = None -> effective_to year s = dec31 year) /\
  (forall c, s_from s = Some c -> effective_from year s = civil_day c) /\
  (forall c, s_to s = Some c -> effective_to year s = civil_day c).
Proof.
  intros year s. unfold effective_from, effective_to.
  repeat split; intros; try (rewrite H; reflexivity).
Qed.

Lemma open_ended_is_data_year : forall year s d,
  s_from s = None -> s_to s = None ->
  sweep_first_year <= year <= sweep_last_year -> 0 <= d <= sweep_last_day ->
  (effective_from year s <= d <= effective_to year s <-> year_of d = year).
Proof.
  intros year s d Hf Ht Hy Hd. unfold effective_from, effective_to. rewrite Hf, Ht.
  apply year_bounds; assumption.
Qed.

(* ------------------------------------------------------------------------- *)
(* the two findings, as witnesses against the code as found                   *)
(* ------------------------------------------------------------------------- *)

(* LHR (51.4706 N, 0.461941 W) -> JFK (40.639801 N, 73.7789 W); stated 3451 statute miles = 5553.8 km.
   WGS-84 inverse: 5 554.5 km when called with (lon, lat); 8 172.8 km with the arguments exchanged. *)
Definition lhr : Z * Z := (51470600, -461941).
Definition jfk : Z * Z := (40639801, -73778900).
Definition witness_geod : Z -> Z -> Z -> Z -> option Z :=
  geod_lookup [((-461941, 51470600, -73778900, 40639801), Some 5554539940);
               ((51470600, -461941, 40639801, -73778900), Some 8172828089)].
Definition good_row : csvrow := CsvRow "BA" "J" 0 "" "744".
Definition march_sched : sched := Sched (Some (2019, 3, 1)) (Some (2019, 3, 31)) [1; 3] 600 780 0.
Definition open_sched : sched := Sched None None [1; 3] 600 780 0.
Definition utc0 : Z -> Z := fun _ => 0.

Lemma distance_args_witness :
  row_skip_reason ["BUS"%string] good_row = None /\
  witness_geod (snd lhr) (fst lhr) (snd jfk) (fst jfk) = Some 5554539940 /\
  Z.abs (given_mm 3451 - 5554539940) <= 50000000 /\
  import_row utc0 utc0 witness_geod (Flags true false) ["BUS"%string] 2019 good_row true true lhr jfk 3451 march_sched
    = Skipped SkipSuspiciousDistance /\
  exists f i w, import_row utc0 utc0 witness_geod spec_flags ["BUS"%string] 2019 good_row true true lhr jfk 3451 march_sched
    = Imported f i w /\ List.length i = 8%nat.
Proof.
  repeat split; try (vm_compute; reflexivity).
  - vm_compute. discriminate.
  - eexists. eexists. eexists. split; vm_compute; reflexivity.
Qed.

Lemma open_ended_witness :
  import_row utc0 utc0 witness_geod (Flags false true) ["BUS"%string] 2019 good_row true true lhr jfk 3451 open_sched = Crashed /\
  exists f i w, import_row utc0 utc0 witness_geod spec_flags ["BUS"%string] 2019 good_row true true lhr jfk 3451 open_sched
    = Imported f i w /\ List.length i = 104%nat /\ w = false.
Proof.
  split; [vm_compute; reflexivity|].
  eexists. eexists. eexists. repeat split; vm_compute; reflexivity.
Qed.

(* non-vacuity of the hypotheses of the main lemmas *)
Example expand_nonvacuous :
  expand 17956 17986 [1; 3] = [17959; 17961; 17966; 17968; 17973; 17975; 17980; 17982]
  /\ expand 18261 18263 [2; 3; 4] = [18261; 18262; 18263]       (* crosses 2019-12-31 / 2020-01-01 *)
  /\ expand 17965 17965 [7] = [17965] /\ expand 17965 17965 [1] = [].
Proof. repeat split; reflexivity. Qed.

(* a misordered instance: departure 23:00 at UTC+0, arrival 00:30 the same day at UTC+0 *)
Example misordered_nonvacuous :
  let s := Sched (Some (2019, 3, 4)) (Some (2019, 3, 4)) [1] 1380 30 0 in
  misordered utc0 utc0 2019 s = true /\ schedule utc0 utc0 2019 s = [].
Proof. split; vm_compute; reflexivity. Qed.

(* C06 — lemmas about the table-based performance model (real-number instance of model/C06_Model.v). *)
From Coq Require Import List Reals Lra Lia Bool Arith.
From AV Require Import lib.Num model.C06_Model proofs.C06_Lists.
Import ListNotations.
Local Open Scope R_scope.

Notation Row := (row RNum).
Notation Result := (result RNum).

(* the repaired behaviour: single-mass values by flight level, coverage test sees duplicates *)
Definition swF : switches := mkSw true true.

Definition keys (sub : list Row) : list (R * R) := map (@key RNum) sub.

(* a phase sub-table is a complete flight-level x mass grid: no (FL, mass) pair twice, every combination of a
   flight level and a mass occurring in the sub-table is a row *)
Definition full_grid (sub : list Row) : Prop :=
  NoDup (keys sub) /\
  forall f m, In f (map (@r_fl RNum) sub) -> In m (map (@r_mass RNum) sub) -> In (f, m) (keys sub).

(* column [v] is a function of the flight level alone *)
Definition fl_only (v : var) (sub : list Row) : Prop :=
  forall r r', In r sub -> In r' sub -> r_fl r = r_fl r' -> @sel RNum v r = @sel RNum v r'.

(* ---------------------------------------------------------------------------------------------- *)
(* phase sub-tables *)

Lemma subset_In p rows (r : Row) : In r (@subset RNum p rows) <-> In r rows /\ @in_phase RNum p r = true.
Proof. unfold subset. apply filter_In. Qed.

Lemma subset_idem p (rows : list Row) : @subset RNum p (@subset RNum p rows) = @subset RNum p rows.
Proof.
  unfold subset. induction rows as [|r rows IH]; cbn; auto.
  destruct (@in_phase RNum p r) eqn:E; cbn; rewrite ?E, IH; auto.
Qed.

Lemma tol_pos : 0 < @tol RNum.
Proof. unfold tol. rnum. lra. Qed.

Lemma phases_disjoint p q (r : Row) : @in_phase RNum p r = true -> @in_phase RNum q r = true -> p = q.
Proof.
  pose proof tol_pos as Ht.
  destruct p, q; auto; cbn [in_phase]; rn; rewrite ?andb_true_iff, ?Rltb_true, ?Rleb_true;
    change (@opp RNum (@tol RNum)) with (- @tol RNum); intros; exfalso; lra.
Qed.

Lemma subset_other p q (rows : list Row) : p <> q -> @subset RNum q (@subset RNum p rows) = [].
Proof.
  intros Hpq. unfold subset. induction rows as [|r rows IH]; cbn; auto.
  destruct (@in_phase RNum p r) eqn:E; cbn; auto.
  destruct (@in_phase RNum q r) eqn:E'; auto. exfalso. apply Hpq. eapply phases_disjoint; eauto.
Qed.

(* ---------------------------------------------------------------------------------------------- *)
(* validation as a conjunction *)

Definition checks (sw : switches) (rows : list Row) : Prop :=
  length (@masses RNum rows) = @required_masses RNum rows /\
  @coverage_ok RNum sw (@subset RNum Cruise rows) = true /\
  @coverage_ok RNum sw (@subset RNum Climb rows) = true /\
  @coverage_ok RNum sw (@subset RNum Descent rows) = true /\
  @fl_only_ok RNum VTas (@subset RNum Cruise rows) = true /\
  @fl_only_ok RNum VTas (@subset RNum Climb rows) = true /\
  @fl_only_ok RNum VFf (@subset RNum Climb rows) = true /\
  @fl_only_ok RNum VTas (@subset RNum Descent rows) = true /\
  @fl_only_ok RNum VFf (@subset RNum Descent rows) = true /\
  @fl_only_ok RNum VRocd (@subset RNum Descent rows) = true.

Lemma validate_none sw rows : @validate RNum sw rows = None <-> checks sw rows.
Proof.
  unfold validate, checks.
  destruct (Nat.eqb (length (@masses RNum rows)) (@required_masses RNum rows)) eqn:E0; cbn [negb].
  2:{ apply Nat.eqb_neq in E0. split; [discriminate|tauto]. }
  apply Nat.eqb_eq in E0.
  repeat match goal with
         | |- context [negb ?b] =>
           lazymatch b with
           | Nat.eqb _ _ => fail
           | _ => destruct b eqn:?; cbn [negb]; [| split; [discriminate | intros H; decompose [and] H; discriminate]]
           end
         end.
  split; auto. intros _. repeat split; auto.
Qed.

Lemma validate_phase_coverage sw p rows :
  @validate RNum sw (@subset RNum p rows) = None -> @coverage_ok RNum sw (@subset RNum p rows) = true.
Proof.
  intros H. apply validate_none in H. unfold checks in H. rewrite <- (subset_idem p rows).
  destruct p; tauto.
Qed.

Lemma validate_phase_fl_only sw p rows :
  @validate RNum sw (@subset RNum p rows) = None -> @fl_only_ok RNum VTas (@subset RNum p rows) = true.
Proof.
  intros H. apply validate_none in H. unfold checks in H. rewrite <- (subset_idem p rows).
  destruct p; tauto.
Qed.

(* ---------------------------------------------------------------------------------------------- *)
(* the coverage test *)

Lemma keys_length sub : length (keys sub) = length sub.
Proof. unfold keys. apply map_length. Qed.

Lemma key_in_prod (sub : list Row) : incl (keys sub) (list_prod (@fls RNum sub) (@masses RNum sub)).
Proof.
  intros [f m] Hin. unfold keys in Hin. apply in_map_iff in Hin as [r [Hk Hr]]. inversion Hk; subst.
  apply in_prod_iff. unfold fls, masses. rewrite !uniq_sorted_In. split; apply in_map; auto.
Qed.

Lemma coverage_full_grid sw sub : sw_set sw = true -> (@coverage_ok RNum sw sub = true <-> full_grid sub).
Proof.
  intros Hsw. unfold coverage_ok. rewrite Hsw, andb_true_iff, !Nat.eqb_eq. split.
  - intros [Hcnt Hdd]. fold (keys sub) in Hdd.
    assert (Hnd : NoDup (keys sub)) by (apply dedup_full_NoDup; rewrite Hdd, keys_length; auto).
    split; auto. intros f m Hf Hm.
    apply (NoDup_length_incl Hnd (l' := list_prod (@fls RNum sub) (@masses RNum sub))).
    + rewrite prod_length, keys_length. lia.
    + apply key_in_prod.
    + apply in_prod_iff. unfold fls, masses. rewrite !uniq_sorted_In. auto.
  - intros [Hnd Hall]. fold (keys sub). split.
    + rewrite <- keys_length, <- prod_length. apply Nat.le_antisymm.
      * apply NoDup_incl_length.
        -- apply NoDup_list_prod; apply uniq_sorted_NoDup.
        -- intros [f m] Hin. apply in_prod_iff in Hin. unfold fls, masses in Hin.
           rewrite !uniq_sorted_In in Hin. apply Hall; tauto.
      * apply NoDup_incl_length; auto. apply key_in_prod.
    + rewrite NoDup_dedup_id; auto. apply keys_length.
Qed.

(* the count test alone (behaviour before the repair of FC06c) is implied by, but does not imply, a full grid *)
Lemma coverage_count_only sw sub :
  sw_set sw = false ->
  (@coverage_ok RNum sw sub = true <-> (length (@fls RNum sub) * length (@masses RNum sub) = length sub)%nat).
Proof. intros Hsw. unfold coverage_ok. rewrite Hsw, andb_true_r, Nat.eqb_eq. tauto. Qed.

(* ---------------------------------------------------------------------------------------------- *)
(* the FL-only test *)

Lemma fl_only_ok_iff v sub : @fl_only_ok RNum v sub = true <-> fl_only v sub.
Proof.
  unfold fl_only_ok. rewrite Nat.eqb_eq.
  set (prs := map (fun r : Row => (r_fl r, @sel RNum v r)) sub).
  set (P := @dedup_pairs RNum prs).
  assert (HP : NoDup P) by apply dedup_NoDup.
  assert (HF : NoDup (@fls RNum sub)) by apply uniq_sorted_NoDup.
  assert (Hinc1 : incl (@fls RNum sub) (map fst P)).
  { intros f Hf. unfold fls in Hf. rewrite uniq_sorted_In in Hf. apply in_map_iff in Hf as [r [<- Hr]].
    apply in_map_iff. exists (r_fl r, @sel RNum v r). split; auto.
    unfold P; rewrite dedup_In. unfold prs. apply in_map_iff. eauto. }
  assert (Hinc2 : incl (map fst P) (@fls RNum sub)).
  { intros f Hf. apply in_map_iff in Hf as [[f' x] [<- Hp]]. unfold P in Hp; rewrite dedup_In in Hp. unfold prs in Hp.
    apply in_map_iff in Hp as [r [E Hr]]. inversion E; subst. cbn [fst]. unfold fls. rewrite uniq_sorted_In; apply in_map; auto. }
  split.
  - intros Hlen r r' Hr Hr' Efl.
    assert (Hnd : NoDup (map fst P)).
    { apply (NoDup_incl_NoDup HF); auto. rewrite map_length. lia. }
    assert (E : (r_fl r, @sel RNum v r) = (r_fl r', @sel RNum v r')).
    { apply (NoDup_map_eq fst P); auto.
      - unfold P; rewrite dedup_In. unfold prs. apply in_map_iff. eauto.
      - unfold P; rewrite dedup_In. unfold prs. apply in_map_iff. eauto. }
    now inversion E.
  - intros Hfun.
    assert (Hnd : NoDup (map fst P)).
    { apply NoDup_map_on; auto. intros [f x] [f' x'] Ha Hb E. cbn in E. subst f'.
      unfold P in Ha, Hb; rewrite dedup_In in Ha, Hb. unfold prs in Ha, Hb.
      apply in_map_iff in Ha as [r [Ea Hr]]. apply in_map_iff in Hb as [r' [Eb Hr']].
      inversion Ea; inversion Eb; subst. f_equal. apply Hfun; auto; congruence. }
    rewrite <- (map_length fst P). apply Nat.le_antisymm; apply NoDup_incl_length; auto.
Qed.

(* ---------------------------------------------------------------------------------------------- *)
(* node look-up *)

Lemma node_val_at v (sub : list Row) r :
  NoDup (keys sub) -> In r sub -> @node_val RNum v sub (r_fl r) (r_mass r) = @sel RNum v r.
Proof.
  intros Hnd Hin. unfold node_val.
  rewrite (find_unique _ (rev sub) r); auto.
  - apply in_rev in Hin. auto.
  - rn. rewrite andb_true_iff, !Reqb_true. auto.
  - intros r' Hr'. rn. rewrite andb_true_iff, !Reqb_true. intros [E1 E2].
    apply (NoDup_map_eq (@key RNum) sub); auto.
    + apply in_rev; auto.
    + unfold key. congruence.
Qed.

Lemma node_val1_at sw v (sub : list Row) r :
  sw_sort sw = true -> NoDup (keys sub) -> (length (@masses RNum sub) <= 1)%nat -> In r sub ->
  @node_val1 RNum sw v sub (r_fl r) = @sel RNum v r.
Proof.
  intros Hsw Hnd Hlen Hin. unfold node_val1. rewrite Hsw.
  rewrite (find_unique _ sub r); auto.
  - rn. apply Reqb_true. auto.
  - intros r' Hr'. rn. rewrite Reqb_true. intros E.
    apply (NoDup_map_eq (@key RNum) sub); auto. unfold key. f_equal; auto.
    apply (length_le1_all_eq (@masses RNum sub)); auto; unfold masses; rewrite uniq_sorted_In; apply in_map; auto.
Qed.

(* ---------------------------------------------------------------------------------------------- *)
(* the multilinear formula *)

Definition at_node (b : R * R * R) (f : R) : Prop :=
  let '(f0, f1, y) := b in (f0 = f /\ y = 0) \/ (f1 = f /\ y = 1).

Lemma bil_node (V : R -> R -> R) bf bm f m : at_node bf f -> at_node bm m -> @bil RNum V bf bm = V f m.
Proof.
  destruct bf as [[f0 f1] yf], bm as [[m0 m1] ym]. unfold at_node, bil. rnum.
  intros [[-> ->]|[-> ->]] [[-> ->]|[-> ->]]; ring.
Qed.

Lemma lin_node (V : R -> R) bf f : at_node bf f -> @lin RNum V bf = V f.
Proof.
  destruct bf as [[f0 f1] yf]. unfold at_node, lin. rnum. intros [[-> ->]|[-> ->]]; ring.
Qed.

Lemma bracket_at_node xs (f : R) :
  ssorted xs -> In f xs -> exists b, @bracket RNum xs f = Some b /\ at_node b f.
Proof.
  intros Hs Hin. destruct (bracket_node xs f Hs Hin) as (a & b & y & E & H).
  exists (a, b, y). split; auto. unfold at_node. tauto.
Qed.

(* weights in [0,1]: the value lies between the smallest and the largest corner *)
Lemma convex2 v0 v1 y lo hi :
  0 <= y <= 1 -> lo <= v0 <= hi -> lo <= v1 <= hi -> lo <= 0 + v0 * (1 * (1 - y)) + v1 * (1 * y) <= hi.
Proof. intros Hy H0 H1. split; nra. Qed.

Lemma convex4 v00 v01 v10 v11 y s lo hi :
  0 <= y <= 1 -> 0 <= s <= 1 ->
  lo <= v00 <= hi -> lo <= v01 <= hi -> lo <= v10 <= hi -> lo <= v11 <= hi ->
  lo <= 0 + v00 * ((1 * (1 - y)) * (1 - s)) + v01 * ((1 * (1 - y)) * s)
          + v10 * ((1 * y) * (1 - s)) + v11 * ((1 * y) * s) <= hi.
Proof.
  intros Hy Hs H00 H01 H10 H11.
  assert (A : forall v, lo <= v <= hi ->
              forall w, 0 <= w -> lo * w <= v * w <= hi * w) by (intros; split; nra).
  assert (W1 : 0 <= (1 - y) * (1 - s)) by nra. assert (W2 : 0 <= (1 - y) * s) by nra.
  assert (W3 : 0 <= y * (1 - s)) by nra. assert (W4 : 0 <= y * s) by nra.
  pose proof (A _ H00 _ W1). pose proof (A _ H01 _ W2). pose proof (A _ H10 _ W3). pose proof (A _ H11 _ W4).
  split; nra.
Qed.

Lemma bracket_weight xs (x a b y : R) :
  ssorted xs -> @bracket RNum xs x = Some (a, b, y) -> 0 <= y <= 1.
Proof.
  intros Hs E. apply bracket_spec in E as (_ & _ & Hx & [[Hab ->]|[_ ->]] & _); auto; [|lra].
  split.
  - apply Rmult_le_pos; [lra|]. apply Rlt_le, Rinv_0_lt_compat. lra.
  - apply (Rmult_le_reg_r (b - a)); [lra|]. unfold Rdiv. rewrite Rmult_assoc, Rinv_l by lra. lra.
Qed.

(* ---------------------------------------------------------------------------------------------- *)
(* node exactness *)

Lemma validate_nonempty sw (sub : list Row) : @validate RNum sw sub = None -> sub <> [].
Proof. intros H ->. cbn in H. discriminate. Qed.

Lemma fls_In (sub : list Row) f : In f (@fls RNum sub) <-> exists r, In r sub /\ r_fl r = f.
Proof.
  unfold fls. rewrite uniq_sorted_In, in_map_iff. split; intros [r [A B]]; exists r; auto.
Qed.

Lemma masses_In (sub : list Row) m : In m (@masses RNum sub) <-> exists r, In r sub /\ r_mass r = m.
Proof.
  unfold masses. rewrite uniq_sorted_In, in_map_iff. split; intros [r [A B]]; exists r; auto.
Qed.

Theorem node_exact sw (conv : R -> R) rows p (r : Row) alt :
  sw_sort sw = true -> sw_set sw = true ->
  @validate RNum sw (@subset RNum p rows) = None ->
  In r (@subset RNum p rows) -> conv alt = r_fl r ->
  @evaluate RNum sw conv rows p alt (@MVal RNum (r_mass r)) = @Ok RNum (r_tas r) (r_rocd r) (r_ff r).
Proof.
  intros Hsort Hset Hval Hin Hconv.
  unfold evaluate. rewrite Hval. cbn [resolve_mass]. rewrite Hconv.
  set (sub := @subset RNum p rows) in *.
  assert (Hg : full_grid sub) by (apply (coverage_full_grid sw); auto; apply validate_phase_coverage; auto).
  destruct Hg as [Hnd _].
  destruct (bracket_at_node (@fls RNum sub) (r_fl r)) as [bf [Ef Hbf]];
    [apply uniq_sorted_sorted | apply fls_In; eauto |].
  unfold interp_phase. rewrite Ef.
  destruct (Nat.ltb 1 (length (@masses RNum sub))) eqn:El.
  - destruct (bracket_at_node (@masses RNum sub) (r_mass r)) as [bm [Em Hbm]];
      [apply uniq_sorted_sorted | apply masses_In; eauto |].
    rewrite Em. f_equal; rewrite (bil_node _ _ _ _ _ Hbf Hbm); apply node_val_at; auto.
  - apply Nat.ltb_ge in El. f_equal; rewrite (lin_node _ _ _ Hbf); apply node_val1_at; auto.
Qed.

(* also when the tabulated level is expressed in metres with the factor [c] of which [conv] is the inverse *)
Theorem node_exact_in_metres sw (conv : R -> R) (c : R) rows p (r : Row) :
  sw_sort sw = true -> sw_set sw = true ->
  (forall f, conv (f * c) = f) ->
  @validate RNum sw (@subset RNum p rows) = None ->
  In r (@subset RNum p rows) ->
  @evaluate RNum sw conv rows p (r_fl r * c) (@MVal RNum (r_mass r)) = @Ok RNum (r_tas r) (r_rocd r) (r_ff r).
Proof. intros. apply node_exact; auto. Qed.

(* ---------------------------------------------------------------------------------------------- *)
(* boundedness by the surrounding table values *)

Definition out (v : var) (res : Result) : R :=
  match res with
  | Ok t rc ff => match v with VTas => t | VRocd => rc | VFf => ff end
  | Rej _ => 0
  end.

(* [cs] are rows of the sub-table at the grid lines enclosing (x, m): flight levels f0 <= x <= f1 adjacent in the
   sub-table's level set, and (when the sub-table has several masses) masses m0 <= m <= m1 adjacent in its mass set *)
Definition surrounding (sub : list Row) (x m : R) (cs : list Row) : Prop :=
  exists f0 f1, In f0 (@fls RNum sub) /\ In f1 (@fls RNum sub) /\ f0 <= x <= f1 /\
    (forall c, In c (@fls RNum sub) -> c <= f0 \/ f1 <= c) /\
    (forall c, In c cs -> r_fl c = f0 \/ r_fl c = f1) /\
    ((1 < length (@masses RNum sub))%nat ->
     exists m0 m1, In m0 (@masses RNum sub) /\ In m1 (@masses RNum sub) /\ m0 <= m <= m1 /\
       (forall c, In c (@masses RNum sub) -> c <= m0 \/ m1 <= c) /\
       (forall c, In c cs -> r_mass c = m0 \/ r_mass c = m1)).

Lemma grid_row (sub : list Row) f m :
  full_grid sub -> In f (@fls RNum sub) -> In m (@masses RNum sub) ->
  exists r, In r sub /\ r_fl r = f /\ r_mass r = m.
Proof.
  intros [_ Hall] Hf Hm. unfold fls, masses in *. rewrite uniq_sorted_In in Hf, Hm.
  specialize (Hall f m Hf Hm). unfold keys in Hall. apply in_map_iff in Hall as [r [E Hr]].
  inversion E. eauto.
Qed.

Theorem bounded_by_corners sw (conv : R -> R) rows p alt q t rc ff :
  sw_sort sw = true -> sw_set sw = true ->
  @evaluate RNum sw conv rows p alt q = @Ok RNum t rc ff ->
  exists cs : list Row, cs <> [] /\
    (forall c, In c cs -> In c (@subset RNum p rows)) /\
    surrounding (@subset RNum p rows) (conv alt) (@resolve_mass RNum rows q) cs /\
    forall v lo hi, (forall c, In c cs -> lo <= @sel RNum v c <= hi) -> lo <= out v (@Ok RNum t rc ff) <= hi.
Proof.
  intros Hsort Hset. unfold evaluate.
  set (sub := @subset RNum p rows). set (x := conv alt). set (m := @resolve_mass RNum rows q).
  destruct (@validate RNum sw sub) eqn:Hval; [discriminate|].
  assert (Hg : full_grid sub) by (apply (coverage_full_grid sw); auto; apply validate_phase_coverage; auto).
  pose proof Hg as [Hnd _].
  unfold interp_phase.
  destruct (Nat.ltb 1 (length (@masses RNum sub))) eqn:El.
  - destruct (@bracket RNum (@fls RNum sub) x) as [[[f0 f1] yf]|] eqn:Ef; [|discriminate].
    destruct (@bracket RNum (@masses RNum sub) m) as [[[m0 m1] ym]|] eqn:Em; [|discriminate].
    intros E.
    pose proof (bracket_weight _ _ _ _ _ (uniq_sorted_sorted _) Ef) as Wf.
    pose proof (bracket_weight _ _ _ _ _ (uniq_sorted_sorted _) Em) as Wm.
    apply bracket_spec in Ef as (Hf0 & Hf1 & Hx & _ & Hadjf); [|apply uniq_sorted_sorted].
    apply bracket_spec in Em as (Hm0 & Hm1 & Hm & _ & Hadjm); [|apply uniq_sorted_sorted].
    destruct (grid_row sub f0 m0 Hg Hf0 Hm0) as (r00 & I00 & F00 & M00).
    destruct (grid_row sub f0 m1 Hg Hf0 Hm1) as (r01 & I01 & F01 & M01).
    destruct (grid_row sub f1 m0 Hg Hf1 Hm0) as (r10 & I10 & F10 & M10).
    destruct (grid_row sub f1 m1 Hg Hf1 Hm1) as (r11 & I11 & F11 & M11).
    exists [r00; r01; r10; r11]. split; [discriminate|]. split; [|split].
    + intros c [<-|[<-|[<-|[<-|[]]]]]; auto.
    + exists f0, f1. repeat split; auto; try tauto.
      * intros c [<-|[<-|[<-|[<-|[]]]]]; auto.
      * intros _. exists m0, m1. repeat split; auto; try tauto.
        intros c [<-|[<-|[<-|[<-|[]]]]]; auto.
    + intros v lo hi Hb.
      assert (B00 := Hb r00 (or_introl eq_refl)).
      assert (B01 := Hb r01 (or_intror (or_introl eq_refl))).
      assert (B10 := Hb r10 (or_intror (or_intror (or_introl eq_refl)))).
      assert (B11 := Hb r11 (or_intror (or_intror (or_intror (or_introl eq_refl))))).
      rewrite <- (node_val_at v sub r00 Hnd I00), F00, M00 in B00.
      rewrite <- (node_val_at v sub r01 Hnd I01), F01, M01 in B01.
      rewrite <- (node_val_at v sub r10 Hnd I10), F10, M10 in B10.
      rewrite <- (node_val_at v sub r11 Hnd I11), F11, M11 in B11.
      inversion E; subst t rc ff. destruct v; cbn [out]; unfold bil; rnum; apply convex4; auto.
  - apply Nat.ltb_ge in El.
    destruct (@bracket RNum (@fls RNum sub) x) as [[[f0 f1] yf]|] eqn:Ef; [|discriminate].
    intros E.
    pose proof (bracket_weight _ _ _ _ _ (uniq_sorted_sorted _) Ef) as Wf.
    apply bracket_spec in Ef as (Hf0 & Hf1 & Hx & _ & Hadjf); [|apply uniq_sorted_sorted].
    destruct (proj1 (fls_In sub f0) Hf0) as (r0 & I0 & F0).
    destruct (proj1 (fls_In sub f1) Hf1) as (r1 & I1 & F1).
    exists [r0; r1]. split; [discriminate|]. split; [|split].
    + intros c [<-|[<-|[]]]; auto.
    + exists f0, f1. repeat split; auto; try tauto.
      * intros c [<-|[<-|[]]]; auto.
      * intros Hl. lia.
    + intros v lo hi Hb.
      assert (B0 := Hb r0 (or_introl eq_refl)).
      assert (B1 := Hb r1 (or_intror (or_introl eq_refl))).
      rewrite <- (node_val1_at sw v sub r0 Hsort Hnd El I0), F0 in B0.
      rewrite <- (node_val1_at sw v sub r1 Hsort Hnd El I1), F1 in B1.
      inversion E; subst t rc ff. destruct v; cbn [out]; unfold lin; rnum; apply convex2; auto.
Qed.

(* ---------------------------------------------------------------------------------------------- *)
(* no extrapolation *)

Definition outside (sub : list Row) (coord : Row -> R) (x : R) : Prop :=
  (forall r, In r sub -> x < coord r) \/ (forall r, In r sub -> coord r < x).

Lemma outside_fls (sub : list Row) x :
  ((forall c, In c (@fls RNum sub) -> x < c) \/ (forall c, In c (@fls RNum sub) -> c < x))
  <-> outside sub (@r_fl RNum) x.
Proof.
  unfold outside. split; intros [H|H]; [left|right|left|right]; intros.
  - apply H, fls_In; eauto.
  - apply H, fls_In; eauto.
  - apply fls_In in H0 as [r [Hr <-]]; auto.
  - apply fls_In in H0 as [r [Hr <-]]; auto.
Qed.

Lemma outside_masses (sub : list Row) x :
  ((forall c, In c (@masses RNum sub) -> x < c) \/ (forall c, In c (@masses RNum sub) -> c < x))
  <-> outside sub (@r_mass RNum) x.
Proof.
  unfold outside. split; intros [H|H]; [left|right|left|right]; intros.
  - apply H, masses_In; eauto.
  - apply H, masses_In; eauto.
  - apply masses_In in H0 as [r [Hr <-]]; auto.
  - apply masses_In in H0 as [r [Hr <-]]; auto.
Qed.

Lemma fls_nonempty (sub : list Row) : sub <> [] -> @fls RNum sub <> [].
Proof. intros H E. apply uniq_sorted_nil in E. destruct sub; [congruence|discriminate]. Qed.
Lemma masses_nonempty (sub : list Row) : sub <> [] -> @masses RNum sub <> [].
Proof. intros H E. apply uniq_sorted_nil in E. destruct sub; [congruence|discriminate]. Qed.

Theorem outside_rejected sw (conv : R -> R) rows p alt q :
  @validate RNum sw (@subset RNum p rows) = None ->
  let sub := @subset RNum p rows in
  let x := conv alt in
  let m := @resolve_mass RNum rows q in
  let res := @evaluate RNum sw conv rows p alt q in
  (res = @Rej RNum (EBounds 0) <-> outside sub (@r_fl RNum) x) /\
  (res = @Rej RNum (EBounds 1) <->
     ~ outside sub (@r_fl RNum) x /\ (1 < length (@masses RNum sub))%nat /\ outside sub (@r_mass RNum) m) /\
  ((exists t rc ff, res = @Ok RNum t rc ff) <->
     ~ outside sub (@r_fl RNum) x /\ ((1 < length (@masses RNum sub))%nat -> ~ outside sub (@r_mass RNum) m)).
Proof.
  intros Hval sub x m res. subst res. unfold evaluate. rewrite Hval. fold sub x m.
  pose proof (validate_nonempty _ _ Hval) as Hne.
  pose proof (bracket_none (@fls RNum sub) x (uniq_sorted_sorted _) (fls_nonempty _ Hne)) as Bf.
  pose proof (bracket_none (@masses RNum sub) m (uniq_sorted_sorted _) (masses_nonempty _ Hne)) as Bm.
  rewrite outside_fls in Bf. rewrite outside_masses in Bm.
  unfold interp_phase.
  destruct (Nat.ltb 1 (length (@masses RNum sub))) eqn:El;
    [apply Nat.ltb_lt in El | apply Nat.ltb_ge in El];
    (destruct (@bracket RNum (@fls RNum sub) x) as [bf|] eqn:Ef;
     [assert (Hin : ~ outside sub (@r_fl RNum) x) by (intros H; apply Bf in H; discriminate)
     |assert (Hof : outside sub (@r_fl RNum) x) by (apply Bf; auto)]);
    try (destruct (@bracket RNum (@masses RNum sub) m) as [bm|] eqn:Em;
         [assert (Hinm : ~ outside sub (@r_mass RNum) m) by (intros H; apply Bm in H; discriminate)
         |assert (Hom : outside sub (@r_mass RNum) m) by (apply Bm; auto)]);
    (repeat split; intros;
     repeat match goal with
            | H : exists _, _ |- _ => destruct H
            | H : _ /\ _ |- _ => destruct H
            end;
     try discriminate; try tauto; try lia; eauto).
Qed.

(* ---------------------------------------------------------------------------------------------- *)
(* symbolic masses *)

Theorem minmax_mass_are_extremes (rows : list Row) :
  rows <> [] ->
  (exists r, In r rows /\ r_mass r = @resolve_mass RNum rows (@MMin RNum)) /\
  (forall r, In r rows -> @resolve_mass RNum rows (@MMin RNum) <= r_mass r) /\
  (exists r, In r rows /\ r_mass r = @resolve_mass RNum rows (@MMax RNum)) /\
  (forall r, In r rows -> r_mass r <= @resolve_mass RNum rows (@MMax RNum)).
Proof.
  intros Hne. cbn [resolve_mass]. pose proof (masses_nonempty rows Hne) as Hm.
  destruct (@masses RNum rows) as [|x l] eqn:E; [congruence|]. cbn [list_min list_max].
  pose proof (fold_nmin_spec l x) as (A1 & A2 & A3). pose proof (fold_nmax_spec l x) as (B1 & B2 & B3).
  cbn zeta in *.
  assert (Hmem : forall y, y = x \/ In y l -> exists r, In r rows /\ r_mass r = y).
  { intros y Hy. apply masses_In. rewrite E. cbn. destruct Hy; auto. }
  assert (Hall : forall r, In r rows -> r_mass r = x \/ In (r_mass r) l).
  { intros r Hr. assert (H : In (r_mass r) (@masses RNum rows)) by (apply masses_In; eauto).
    rewrite E in H. cbn in H. destruct H; auto. }
  repeat split.
  - apply Hmem. auto.
  - intros r Hr. destruct (Hall r Hr) as [->|H]; auto.
  - apply Hmem. auto.
  - intros r Hr. destruct (Hall r Hr) as [->|H]; auto.
Qed.

Theorem symbolic_mass_is_that_mass sw (conv : R -> R) rows p alt :
  @evaluate RNum sw conv rows p alt (@MMin RNum)
    = @evaluate RNum sw conv rows p alt (@MVal RNum (@resolve_mass RNum rows (@MMin RNum))) /\
  @evaluate RNum sw conv rows p alt (@MMax RNum)
    = @evaluate RNum sw conv rows p alt (@MVal RNum (@resolve_mass RNum rows (@MMax RNum))).
Proof. split; reflexivity. Qed.

(* ---------------------------------------------------------------------------------------------- *)
(* the result is the cell formula; adjacent cells agree on their common edge *)

Definition cell_value (V : R -> R -> R) (f0 f1 m0 m1 x m : R) : R :=
  @bil RNum V (f0, f1, (x - f0) / (f1 - f0)) (m0, m1, (m - m0) / (m1 - m0)).
Definition seg_value (V : R -> R) (f0 f1 x : R) : R := @lin RNum V (f0, f1, (x - f0) / (f1 - f0)).

Lemma edge_agreement_fl V f0 f1 f2 m0 m1 m :
  f0 < f1 -> f1 < f2 -> cell_value V f0 f1 m0 m1 f1 m = cell_value V f1 f2 m0 m1 f1 m.
Proof.
  intros. unfold cell_value. generalize ((m - m0) / (m1 - m0)). intros ym.
  unfold bil. rnum. field. split; lra.
Qed.

Lemma edge_agreement_mass V f0 f1 m0 m1 m2 x :
  m0 < m1 -> m1 < m2 -> cell_value V f0 f1 m0 m1 x m1 = cell_value V f0 f1 m1 m2 x m1.
Proof.
  intros. unfold cell_value. generalize ((x - f0) / (f1 - f0)). intros yf.
  unfold bil. rnum. field. split; lra.
Qed.

Lemma edge_agreement_seg V f0 f1 f2 : f0 < f1 -> f1 < f2 -> seg_value V f0 f1 f1 = seg_value V f1 f2 f1.
Proof. intros. unfold seg_value, lin. rnum. field. split; lra. Qed.

(* inside one cell the value is an affine function of each coordinate separately (so it is continuous there;
   together with the agreement on shared edges the piecewise function has no jumps) *)
Lemma cell_value_affine_fl V f0 f1 m0 m1 x x' m :
  f0 < f1 ->
  cell_value V f0 f1 m0 m1 x' m - cell_value V f0 f1 m0 m1 x m
  = (x' - x) * ((cell_value V f0 f1 m0 m1 f1 m - cell_value V f0 f1 m0 m1 f0 m) / (f1 - f0)).
Proof.
  intros. unfold cell_value. generalize ((m - m0) / (m1 - m0)). intros ym.
  unfold bil. rnum. field. lra.
Qed.

Lemma cell_value_affine_mass V f0 f1 m0 m1 x m m' :
  m0 < m1 ->
  cell_value V f0 f1 m0 m1 x m' - cell_value V f0 f1 m0 m1 x m
  = (m' - m) * ((cell_value V f0 f1 m0 m1 x m1 - cell_value V f0 f1 m0 m1 x m0) / (m1 - m0)).
Proof.
  intros. unfold cell_value. generalize ((x - f0) / (f1 - f0)). intros yf.
  unfold bil. rnum. field. lra.
Qed.

(* what evaluate returns in a phase with several masses is the cell formula of the enclosing cell *)
Theorem evaluate_is_cell_value sw (conv : R -> R) rows p alt q t rc ff :
  @evaluate RNum sw conv rows p alt q = @Ok RNum t rc ff ->
  let sub := @subset RNum p rows in
  (1 < length (@masses RNum sub))%nat ->
  exists f0 f1 m0 m1 yf ym,
    @bracket RNum (@fls RNum sub) (conv alt) = Some (f0, f1, yf) /\
    @bracket RNum (@masses RNum sub) (@resolve_mass RNum rows q) = Some (m0, m1, ym) /\
    forall v, out v (@Ok RNum t rc ff) = @bil RNum (@node_val RNum v sub) (f0, f1, yf) (m0, m1, ym).
Proof.
  intros E sub Hl. unfold evaluate in E. fold sub in E.
  destruct (@validate RNum sw sub); [discriminate|]. unfold interp_phase in E.
  apply Nat.ltb_lt in Hl. rewrite Hl in E.
  destruct (@bracket RNum (@fls RNum sub) (conv alt)) as [[[f0 f1] yf]|]; [|discriminate].
  destruct (@bracket RNum (@masses RNum sub) (@resolve_mass RNum rows q)) as [[[m0 m1] ym]|]; [|discriminate].
  exists f0, f1, m0, m1, yf, ym. repeat split; auto. inversion E; subst. intros []; reflexivity.
Qed.

(* the outcome depends on the altitude only through the flight level, and on nothing but table, phase, level, mass *)
Theorem depends_only_on_alt_mass_phase sw (conv conv' : R -> R) rows p alt alt' q :
  conv alt = conv' alt' ->
  @evaluate RNum sw conv rows p alt q = @evaluate RNum sw conv' rows p alt' q.
Proof. intros E. unfold evaluate. rewrite E. reflexivity. Qed.

(* ---------------------------------------------------------------------------------------------- *)
(* refusal of incomplete grids *)

Theorem incomplete_grid_refused sw rows :
  sw_set sw = true ->
  (@load RNum sw rows = None <->
   length (@masses RNum rows) = @required_masses RNum rows /\
   (forall p, full_grid (@subset RNum p rows)) /\
   fl_only VTas (@subset RNum Cruise rows) /\
   fl_only VTas (@subset RNum Climb rows) /\ fl_only VFf (@subset RNum Climb rows) /\
   fl_only VTas (@subset RNum Descent rows) /\ fl_only VFf (@subset RNum Descent rows) /\
   fl_only VRocd (@subset RNum Descent rows)).
Proof.
  intros Hsw. unfold load. rewrite validate_none. unfold checks.
  rewrite !(coverage_full_grid sw) by auto. rewrite !fl_only_ok_iff.
  split.
  - intros (H0 & G1 & G2 & G3 & H). split; [auto|]. split; [intros []; auto | exact H].
  - intros (H0 & Hg & H). split; [auto|]. split; [apply Hg|]. split; [apply Hg|]. split; [apply Hg|]. exact H.
Qed.

Corollary incomplete_grid_is_refused sw rows p :
  sw_set sw = true -> ~ full_grid (@subset RNum p rows) -> exists e, @load RNum sw rows = Some e.
Proof.
  intros Hsw Hn. destruct (@load RNum sw rows) eqn:E; eauto.
  exfalso. apply Hn. apply (incomplete_grid_refused sw rows Hsw) in E. apply E.
Qed.

(* at evaluation time the sub-table must in addition carry the masses of its phase: three, or one in descent *)
Lemma required_masses_phase p (rows : list Row) :
  @subset RNum p rows <> [] ->
  @required_masses RNum (@subset RNum p rows) = match p with Descent => 1%nat | _ => 3%nat end.
Proof.
  intros Hne. pose proof tol_pos as Ht. unfold required_masses.
  assert (Hall : forall q, forallb (fun r : Row => @in_phase RNum q r) (@subset RNum p rows) = true -> q = p).
  { intros q H. destruct (@subset RNum p rows) as [|r l] eqn:E; [congruence|].
    cbn in H. apply andb_true_iff in H as [H _].
    assert (Hr : In r (@subset RNum p rows)) by (rewrite E; cbn; auto).
    apply subset_In in Hr as [_ Hr]. eapply phases_disjoint; eauto. }
  assert (Hp : forallb (fun r : Row => @in_phase RNum p r) (@subset RNum p rows) = true).
  { apply forallb_forall. intros r Hr. apply subset_In in Hr. tauto. }
  assert (Hcr : forall l : list Row, forallb (fun r : Row => @leb RNum (@nabs RNum (r_rocd r)) (@tol RNum)) l
                       = forallb (fun r : Row => @in_phase RNum Cruise r) l).
  { induction l as [|r l IH]; cbn [forallb]; auto. rewrite IH. f_equal. cbn [in_phase]. rn.
    change (@nabs RNum (r_rocd r)) with (Rabs (r_rocd r)). change (@opp RNum (@tol RNum)) with (- @tol RNum).
    destruct (Rleb_case (Rabs (r_rocd r)) (@tol RNum)) as [[-> H]|[-> H]].
    - symmetry. apply andb_true_iff. rewrite !Rleb_true. unfold Rabs in H. destruct (Rcase_abs (r_rocd r)); lra.
    - symmetry. apply andb_false_iff. rewrite !Rleb_false. unfold Rabs in H. destruct (Rcase_abs (r_rocd r)); lra. }
  change (forallb (fun r : Row => @ltb RNum (@tol RNum) (r_rocd r)) (@subset RNum p rows))
    with (forallb (fun r : Row => @in_phase RNum Climb r) (@subset RNum p rows)).
  change (forallb (fun r : Row => @ltb RNum (r_rocd r) (@opp RNum (@tol RNum))) (@subset RNum p rows))
    with (forallb (fun r : Row => @in_phase RNum Descent r) (@subset RNum p rows)).
  rewrite Hcr.
  destruct p.
  - rewrite Hp. auto.
  - destruct (forallb (fun r : Row => @in_phase RNum Climb r) (@subset RNum Cruise rows)) eqn:E1;
      [apply Hall in E1; discriminate|]. rewrite Hp. auto.
  - destruct (forallb (fun r : Row => @in_phase RNum Climb r) (@subset RNum Descent rows)) eqn:E1;
      [apply Hall in E1; discriminate|].
    destruct (forallb (fun r : Row => @in_phase RNum Cruise r) (@subset RNum Descent rows)) eqn:E2;
      [apply Hall in E2; discriminate|]. rewrite Hp. auto.
Qed.

Theorem evaluated_phase_has_its_masses sw (conv : R -> R) rows p alt q t rc ff :
  @evaluate RNum sw conv rows p alt q = @Ok RNum t rc ff ->
  length (@masses RNum (@subset RNum p rows)) = match p with Descent => 1%nat | _ => 3%nat end.
Proof.
  unfold evaluate. destruct (@validate RNum sw (@subset RNum p rows)) eqn:Hval; [discriminate|]. intros _.
  pose proof (validate_nonempty _ _ Hval) as Hne.
  apply validate_none in Hval. destruct Hval as [H _]. rewrite H. apply required_masses_phase; auto.
Qed.

(* ---------------------------------------------------------------------------------------------- *)
(* PTF rows are reproduced *)

Lemma insert_row_In (x : Row) l y : In y (@insert_row RNum x l) <-> y = x \/ In y l.
Proof.
  induction l as [|a l IH]; cbn; [intuition|].
  destruct (@key_le RNum x a); cbn; [intuition | rewrite IH; intuition].
Qed.

Lemma sort_rows_In (l : list Row) y : In y (@sort_rows RNum l) <-> In y l.
Proof.
  induction l as [|a l IH]; cbn; [tauto|].
  change (fold_right (@insert_row RNum) [] l) with (@sort_rows RNum l).
  rewrite insert_row_In, IH. intuition.
Qed.

Section PTF.
  Variables (KN FPM M2S : R) (conv : R -> R) (P : ptf RNum).
  Let rows := @build_table RNum KN FPM M2S P.

  Lemma build_table_In r : In r rows <-> In r (@build_rows RNum KN FPM M2S P).
  Proof. unfold rows, build_table. apply sort_rows_In. Qed.

  Theorem ptf_climb_rows_reproduced c alt :
    @validate RNum swF (@subset RNum Climb rows) = None ->
    In c (p_climb P) ->
    @tol RNum < pc_lo c * FPM -> @tol RNum < pc_nom c * FPM -> @tol RNum < pc_hi c * FPM ->
    conv alt = pc_fl c ->
    @evaluate RNum swF conv rows Climb alt (@MVal RNum (p_low P))
      = @Ok RNum (pc_tas c * KN) (pc_lo c * FPM) (pc_ff c / M2S) /\
    @evaluate RNum swF conv rows Climb alt (@MVal RNum (p_nom P))
      = @Ok RNum (pc_tas c * KN) (pc_nom c * FPM) (pc_ff c / M2S) /\
    @evaluate RNum swF conv rows Climb alt (@MVal RNum (p_high P))
      = @Ok RNum (pc_tas c * KN) (pc_hi c * FPM) (pc_ff c / M2S).
  Proof.
    intros Hval Hc Hlo Hnom Hhi Hconv.
    assert (Hin : forall r, In r (@climb_rows RNum KN FPM M2S (p_low P) (p_nom P) (p_high P) c) ->
                       @tol RNum < r_rocd r -> In r (@subset RNum Climb rows)).
    { intros r Hr Hroc. apply subset_In. split.
      - apply build_table_In. unfold build_rows. apply in_or_app. left. apply in_flat_map. eauto.
      - cbn [in_phase]. rn. apply Rltb_true. auto. }
    repeat split.
    - apply (node_exact swF conv rows Climb
               (@mkRow RNum (pc_fl c) (p_low P) (pc_tas c * KN) (pc_lo c * FPM) (pc_ff c / M2S))); auto.
      apply Hin; cbn; auto.
    - apply (node_exact swF conv rows Climb
               (@mkRow RNum (pc_fl c) (p_nom P) (pc_tas c * KN) (pc_nom c * FPM) (pc_ff c / M2S))); auto.
      apply Hin; cbn; auto.
    - apply (node_exact swF conv rows Climb
               (@mkRow RNum (pc_fl c) (p_high P) (pc_tas c * KN) (pc_hi c * FPM) (pc_ff c / M2S))); auto.
      apply Hin; cbn; auto.
  Qed.

  Theorem ptf_cruise_rows_reproduced c alt :
    @validate RNum swF (@subset RNum Cruise rows) = None ->
    In c (p_cruise P) ->
    conv alt = pr_fl c ->
    @evaluate RNum swF conv rows Cruise alt (@MVal RNum (p_low P)) = @Ok RNum (pr_tas c * KN) 0 (pr_lo c / M2S) /\
    @evaluate RNum swF conv rows Cruise alt (@MVal RNum (p_nom P)) = @Ok RNum (pr_tas c * KN) 0 (pr_nom c / M2S) /\
    @evaluate RNum swF conv rows Cruise alt (@MVal RNum (p_high P)) = @Ok RNum (pr_tas c * KN) 0 (pr_hi c / M2S).
  Proof.
    intros Hval Hc Hconv. pose proof tol_pos as Ht.
    assert (Hin : forall r, In r (@cruise_rows RNum KN M2S (p_low P) (p_nom P) (p_high P) c) ->
                       r_rocd r = 0 -> In r (@subset RNum Cruise rows)).
    { intros r Hr Hroc. apply subset_In. split.
      - apply build_table_In. unfold build_rows. apply in_or_app. right. apply in_or_app. left.
        apply in_flat_map. eauto.
      - cbn [in_phase]. rn. rewrite Hroc. apply andb_true_iff. rewrite !Rleb_true.
        change (@opp RNum (@tol RNum)) with (- @tol RNum). lra. }
    repeat split.
    - apply (node_exact swF conv rows Cruise
               (@mkRow RNum (pr_fl c) (p_low P) (pr_tas c * KN) 0 (pr_lo c / M2S))); auto.
      apply Hin; cbn; auto.
    - apply (node_exact swF conv rows Cruise
               (@mkRow RNum (pr_fl c) (p_nom P) (pr_tas c * KN) 0 (pr_nom c / M2S))); auto.
      apply Hin; cbn; auto.
    - apply (node_exact swF conv rows Cruise
               (@mkRow RNum (pr_fl c) (p_high P) (pr_tas c * KN) 0 (pr_hi c / M2S))); auto.
      apply Hin; cbn; auto.
  Qed.

  (* in the descent phase the mass plays no role: any queried mass gives the row *)
  Theorem ptf_descent_rows_reproduced d alt :
    @validate RNum swF (@subset RNum Descent rows) = None ->
    In d (p_descent P) ->
    (- pd_rocd d) * FPM < - @tol RNum ->
    conv alt = pd_fl d ->
    @evaluate RNum swF conv rows Descent alt (@MVal RNum (p_nom P))
      = @Ok RNum (pd_tas d * KN) ((- pd_rocd d) * FPM) (pd_ff d / M2S).
  Proof.
    intros Hval Hd Hroc Hconv.
    apply (node_exact swF conv rows Descent
             (@mkRow RNum (pd_fl d) (p_nom P) (pd_tas d * KN) ((- pd_rocd d) * FPM) (pd_ff d / M2S))); auto.
    apply subset_In. split.
    - apply build_table_In. unfold build_rows. apply in_or_app. right. apply in_or_app. right.
      apply in_map_iff. exists d. split; auto.
    - cbn [in_phase r_rocd]. rn. apply Rltb_true. exact Hroc.
  Qed.
End PTF.

(* in a single-mass phase the queried mass is irrelevant *)
Theorem single_mass_phase_ignores_mass sw (conv : R -> R) rows p alt q q' :
  (length (@masses RNum (@subset RNum p rows)) <= 1)%nat ->
  @evaluate RNum sw conv rows p alt q = @evaluate RNum sw conv rows p alt q'.
Proof.
  intros Hl. unfold evaluate. destruct (@validate RNum sw (@subset RNum p rows)); auto.
  unfold interp_phase. apply Nat.ltb_ge in Hl. rewrite Hl. reflexivity.
Qed.

(* C15 — lemmas, over the real instance of the model text; pyproj enters as Section oracles. *)
From Coq Require Import ZArith Reals List Bool Arith Lra Lia.
From AV Require Import lib.Num model.C15_Model.
Import ListNotations.
Local Open Scope R_scope.

Notation trackR := (track RNum).
Notation indexR := (@index RNum).
Notation totalR := (@total RNum).
Notation idxR := (@idx RNum).
Notation containsR := (@contains RNum).
Notation bisectR := (@bisect_left RNum).
Notation locationR := (@location RNum).
Notation stepR := (@step RNum).
Notation overstepR := (@overstep RNum).
Notation accR := (@accumulate RNum).

(* expose the real operations without unfolding [RNum] where it occurs as a type index *)
Ltac rn := change (@leb RNum) with Rleb in *; change (@ltb RNum) with Rltb in *;
           change (@add RNum) with Rplus in *; change (@sub RNum) with Rminus in *;
           change (@zero RNum) with 0 in *; change (T RNum) with R in *.

(* ------------------------------------------------------------------ *)
(* cumulative index                                                    *)
(* ------------------------------------------------------------------ *)

Fixpoint rsum (l : list R) : R := match l with [] => 0 | x :: r => x + rsum r end.

Lemma acc_length (a : R) (ds : list R) : length (accR a ds) = S (length ds).
Proof. revert a; induction ds as [|d r IH]; intros a; simpl; [reflexivity|]. rewrite IH. reflexivity. Qed.

Lemma acc_hd (a : R) (ds : list R) : nth 0 (accR a ds) 0 = a.
Proof. destruct ds; reflexivity. Qed.

Lemma acc_last (a : R) (ds : list R) : last (accR a ds) 0 = a + rsum ds.
Proof.
  revert a; induction ds as [|d r IH]; intros a.
  - simpl. lra.
  - change (accR a (d :: r)) with (a :: accR (@add RNum a d) r).
    assert (Hne : accR (@add RNum a d) r <> []) by (destruct r; discriminate).
    destruct (accR (@add RNum a d) r) as [|y ys] eqn:E; [contradiction|].
    change (last (a :: y :: ys) 0) with (last (y :: ys) 0). rewrite <- E, IH. simpl. rn. lra.
Qed.

(* nth element = start + sum of the first k steps *)
Lemma acc_nth (a : R) (ds : list R) k : (k <= length ds)%nat -> nth k (accR a ds) 0 = a + rsum (firstn k ds).
Proof.
  revert a k; induction ds as [|d r IH]; intros a k Hk.
  - assert (k = 0)%nat by (simpl in Hk; lia). subst. simpl. lra.
  - destruct k as [|k]; [simpl; lra|].
    change (nth (S k) (accR a (d :: r)) 0) with (nth k (accR (@add RNum a d) r) 0).
    rewrite IH by (simpl in Hk; lia). simpl. rn. lra.
Qed.

Lemma acc_nth_S (a : R) (ds : list R) k : (k < length ds)%nat ->
  nth (S k) (accR a ds) 0 = nth k (accR a ds) 0 + nth k ds 0.
Proof.
  revert a k; induction ds as [|d r IH]; intros a k Hk; [simpl in Hk; lia|].
  destruct k as [|k].
  - simpl. destruct r; simpl; rn; lra.
  - change (nth (S (S k)) (accR a (d :: r)) 0) with (nth (S k) (accR (@add RNum a d) r) 0).
    change (nth (S k) (accR a (d :: r)) 0) with (nth k (accR (@add RNum a d) r) 0).
    rewrite IH by (simpl in Hk; lia). reflexivity.
Qed.

Lemma total_is_sum (g : trackR) : totalR g = rsum (@dists RNum g).
Proof. unfold total, index. rewrite acc_last. rn. lra. Qed.

Lemma index_length (g : trackR) : length (indexR g) = S (@nlegs RNum g).
Proof. unfold index, nlegs, dists. rewrite acc_length, map_length. reflexivity. Qed.

Lemma nth_idx (g : trackR) i : nth i (indexR g) 0 = idxR g i.
Proof. reflexivity. Qed.

Lemma idx_0 (g : trackR) : idxR g 0 = 0.
Proof. unfold idx, index. rewrite acc_hd. reflexivity. Qed.

Lemma idx_S (g : trackR) k : (k < @nlegs RNum g)%nat -> idxR g (S k) = idxR g k + nth k (@dists RNum g) 0.
Proof. intros H. unfold idx, index. apply acc_nth_S. unfold dists. rewrite map_length. exact H. Qed.

Lemma idx_last (g : trackR) : idxR g (@nlegs RNum g) = totalR g.
Proof.
  unfold idx, total, index. rewrite acc_last, acc_nth.
  - unfold nlegs, dists. rewrite <- (map_length snd (legs g)), firstn_all. reflexivity.
  - unfold nlegs, dists. rewrite map_length. lia.
Qed.

(* ------------------------------------------------------------------ *)
(* bisect_left                                                         *)
(* ------------------------------------------------------------------ *)

Lemma bisect_before (xs : list R) (d : R) i : (i < bisectR xs d)%nat -> nth i xs 0 < d.
Proof.
  revert i; induction xs as [|x r IH]; intros i H; simpl in H; [lia|].
  rn. destruct (Rltb x d) eqn:E; [|lia].
  destruct i as [|i]; simpl; [apply Rltb_true; exact E|apply IH; lia].
Qed.

Lemma bisect_at (xs : list R) (d : R) : (bisectR xs d < length xs)%nat -> d <= nth (bisectR xs d) xs 0.
Proof.
  induction xs as [|x r IH]; intros H; simpl in H |- *; [lia|].
  rn. destruct (Rltb x d) eqn:E.
  - simpl. apply IH. simpl in H. lia.
  - apply Rltb_false in E. simpl. exact E.
Qed.

Lemma bisect_le_length (xs : list R) (d : R) : (bisectR xs d <= length xs)%nat.
Proof. induction xs as [|x r IH]; simpl; [lia|]. rn. destruct (Rltb x d); simpl; lia. Qed.

(* if some element at position j is >= d, bisect stops at or before j *)
Lemma bisect_le_pos (xs : list R) (d : R) j : (j < length xs)%nat -> d <= nth j xs 0 -> (bisectR xs d <= j)%nat.
Proof.
  revert j; induction xs as [|x r IH]; intros j Hj Hd; simpl in Hj; [lia|].
  simpl. rn. destruct (Rltb x d) eqn:E; [|lia].
  destruct j as [|j]; simpl in Hd.
  - apply Rltb_true in E. lra.
  - specialize (IH j ltac:(lia) Hd). lia.
Qed.

(* ------------------------------------------------------------------ *)
(* location                                                            *)
(* ------------------------------------------------------------------ *)

Lemma contains_iff (g : trackR) (d : R) : containsR g d = true <-> 0 <= d <= totalR g.
Proof.
  unfold contains. rewrite idx_0. rn. rewrite andb_true_iff, !Rleb_true. tauto.
Qed.

Lemma contains_false (g : trackR) (d : R) : containsR g d = false <-> (d < 0 \/ totalR g < d).
Proof.
  unfold contains. rewrite idx_0. rn. rewrite andb_false_iff, !Rleb_false. tauto.
Qed.

Lemma location_refused_outside (g : trackR) (d : R) : d < 0 \/ totalR g < d -> locationR g d = Refuse RRange.
Proof. intros H. unfold location. apply contains_false in H. rewrite H. reflexivity. Qed.

Lemma location_start (g : trackR) : 0 <= totalR g -> locationR g 0 = At (PWp 0) (ALeg 0).
Proof.
  intros Ht. unfold location.
  assert (Hc : containsR g 0 = true) by (apply contains_iff; lra). rewrite Hc. simpl negb. cbv iota.
  assert (Hb : bisectR (indexR g) 0 = O).
  { unfold index. destruct (@dists RNum g); simpl; rn;
    (replace (Rltb 0 0) with false; [reflexivity|symmetry; apply Rltb_false; lra]). }
  rewrite Hb. reflexivity.
Qed.

Lemma location_end (g : trackR) : 0 < totalR g ->
  locationR g (totalR g) = At (PWp (@nlegs RNum g)) (ALeg (@nlegs RNum g - 1)).
Proof.
  intros Ht. unfold location.
  assert (Hc : containsR g (totalR g) = true) by (apply contains_iff; lra). rewrite Hc. simpl negb. cbv iota.
  destruct (bisectR (indexR g) (totalR g)) as [|k] eqn:Eb.
  - exfalso. assert (H := bisect_at (indexR g) (totalR g)). rewrite Eb in H.
    rewrite index_length in H. specialize (H ltac:(lia)). rewrite nth_idx in H. rewrite idx_0 in H. lra.
  - rn. replace (Rleb (totalR g) (totalR g)) with true; [reflexivity|symmetry; apply Rleb_true; lra].
Qed.

(* strictly inside: the forward solution from the waypoint before, along that leg's azimuth, at the offset
   into the leg; the leg is the one whose cumulative range contains d *)
Lemma location_inside (g : trackR) (d : R) : 0 < d < totalR g ->
  exists k, (k < @nlegs RNum g)%nat /\ idxR g k < d <= idxR g (S k) /\
    locationR g d = let p := PFwd k (@leg_az RNum g k) (d - idxR g k) in At p (AInvFrom p (S k)).
Proof.
  intros [H0 H1]. unfold location.
  assert (Hc : containsR g d = true) by (apply contains_iff; lra). rewrite Hc. simpl negb. cbv iota.
  destruct (bisectR (indexR g) d) as [|k] eqn:Eb.
  - exfalso. assert (H := bisect_at (indexR g) d). rewrite Eb, index_length in H.
    specialize (H ltac:(lia)). rewrite nth_idx in H. rewrite idx_0 in H. lra.
  - assert (Hle : (S k <= @nlegs RNum g)%nat).
    { rewrite <- Eb. apply bisect_le_pos; [rewrite index_length; lia|].
      rewrite nth_idx. rewrite idx_last. lra. }
    exists k. split; [lia|]. split.
    + split.
      * apply (bisect_before (indexR g) d k). rewrite Eb. lia.
      * assert (H := bisect_at (indexR g) d). rewrite Eb, index_length in H. apply H. lia.
    + rn. replace (Rleb (totalR g) d) with false; [reflexivity|symmetry; apply Rleb_false; lra].
Qed.

(* ------------------------------------------------------------------ *)
(* step                                                                *)
(* ------------------------------------------------------------------ *)

Lemma step_is_location (g : trackR) (a b : R) p z :
  containsR g a && containsR g (a + b) = true -> stepR g a b = At p z -> locationR g (a + b) = At p z.
Proof.
  intros Hc. unfold step. destruct (_ || _); [discriminate|].
  change (@add RNum a b) with (a + b). rewrite Hc.
  destruct (negb (allow g) && _ && _); [discriminate|]. auto.
Qed.

Lemma step_in_range_allowed (g : trackR) (a b : R) :
  allow g = true -> 0 <= a -> 0 <= b -> a + b <= totalR g -> stepR g a b = locationR g (a + b).
Proof.
  intros Ha H0 Hb Ht. unfold step. rn.
  replace (Rltb a 0) with false by (symmetry; apply Rltb_false; lra).
  replace (Rltb b 0) with false by (symmetry; apply Rltb_false; lra). simpl orb. cbv iota.
  assert (C1 : containsR g a = true) by (apply contains_iff; lra).
  assert (C2 : containsR g (a + b) = true) by (apply contains_iff; lra).
  rewrite C1, C2, Ha. reflexivity.
Qed.

(* a great-circle track (one leg): in-range steps are never refused, whatever allow_overstep is *)
Lemma step_single_leg (g : trackR) (az dd a b : R) :
  legs g = [(az, dd)] -> 0 <= a -> 0 <= b -> a + b <= totalR g -> stepR g a b = locationR g (a + b).
Proof.
  intros Hl H0 Hb Ht. unfold step. rn.
  replace (Rltb a 0) with false by (symmetry; apply Rltb_false; lra).
  replace (Rltb b 0) with false by (symmetry; apply Rltb_false; lra). simpl orb. cbv iota.
  assert (C1 : containsR g a = true) by (apply contains_iff; lra).
  assert (C2 : containsR g (a + b) = true) by (apply contains_iff; lra).
  rewrite C1, C2. simpl andb. cbv iota.
  assert (Htot : totalR g = dd) by (rewrite total_is_sum; unfold dists; rewrite Hl; simpl; lra).
  assert (Hi : indexR g = [0; 0 + dd]) by (unfold index, dists; rewrite Hl; reflexivity).
  unfold idx. rewrite Hi. simpl. rn.
  destruct (Rltb 0 a) eqn:E0.
  - apply Rltb_true in E0.
    replace (Rltb (0 + dd) a) with false by (symmetry; apply Rltb_false; lra).
    replace (Rltb 0 (a + b)) with true by (symmetry; apply Rltb_true; lra).
    replace (Rltb (0 + dd) (a + b)) with false by (symmetry; apply Rltb_false; lra).
    simpl. rewrite andb_false_r. reflexivity.
  - apply Rltb_false in E0. simpl.
    replace (Rltb a 0) with false by (symmetry; apply Rltb_false; lra).
    rewrite andb_false_r. reflexivity.
Qed.

Lemma step_overstep (g : trackR) (a b : R) :
  allow g = true -> 0 <= a -> 0 <= b -> totalR g < a + b ->
  stepR g a b = let k := (@nlegs RNum g - 1)%nat in
                let p := PFwd k (@leg_az RNum g k) (a + b - idxR g k) in At p (AInvTo (@nlegs RNum g) p).
Proof.
  intros Ha H0 Hb Ht. unfold step. rn.
  replace (Rltb a 0) with false by (symmetry; apply Rltb_false; lra).
  replace (Rltb b 0) with false by (symmetry; apply Rltb_false; lra). simpl orb. cbv iota.
  assert (C2 : containsR g (a + b) = false) by (apply contains_false; lra).
  rewrite C2, andb_false_r, Ha. reflexivity.
Qed.

(* the point expression of an overstep is the same function of the distance as on the last leg *)
Lemma overstep_same_curve (g : trackR) (d : R) : (0 < @nlegs RNum g)%nat ->
  idxR g (@nlegs RNum g - 1) < d < totalR g -> 0 <= idxR g (@nlegs RNum g - 1) ->
  (forall i j, (i <= j <= @nlegs RNum g)%nat -> idxR g i <= idxR g j) ->
  exists z z', locationR g d = At (PFwd (@nlegs RNum g - 1) (@leg_az RNum g (@nlegs RNum g - 1)) (d - idxR g (@nlegs RNum g - 1))) z
            /\ overstepR g d = At (PFwd (@nlegs RNum g - 1) (@leg_az RNum g (@nlegs RNum g - 1)) (d - idxR g (@nlegs RNum g - 1))) z'.
Proof.
  intros Hn [H1 H2] H0 Hmono.
  destruct (location_inside g d ltac:(lra)) as (k & Hk & [Hk1 Hk2] & Hloc).
  assert (k = (@nlegs RNum g - 1))%nat.
  { destruct (Nat.eq_dec k (@nlegs RNum g - 1)) as [|Hne]; [assumption|exfalso].
    assert (Hle : idxR g (S k) <= idxR g (@nlegs RNum g - 1)) by (apply Hmono; lia). lra. }
  subst k. eexists. eexists. split; [exact Hloc|reflexivity].
Qed.

Lemma step_refused_outside (g : trackR) (a b : R) :
  allow g = false -> 0 <= a -> 0 <= b -> totalR g < a + b -> stepR g a b = Refuse ROutside.
Proof.
  intros Ha H0 Hb Ht. unfold step. rn.
  replace (Rltb a 0) with false by (symmetry; apply Rltb_false; lra).
  replace (Rltb b 0) with false by (symmetry; apply Rltb_false; lra). simpl orb. cbv iota.
  assert (C2 : containsR g (a + b) = false) by (apply contains_false; lra).
  rewrite C2, andb_false_r, Ha. reflexivity.
Qed.

Lemma step_refused_negative (g : trackR) (a b : R) : a < 0 \/ b < 0 -> stepR g a b = Refuse RNeg.
Proof.
  intros H. unfold step. rn.
  replace (Rltb a 0 || Rltb b 0) with true; [reflexivity|].
  symmetry. apply orb_true_iff. destruct H; [left|right]; apply Rltb_true; assumption.
Qed.

(* ---- the waypoint-crossing refusal (not a clause of the property; characterised here) ---- *)

Lemma bisect_mono (xs : list R) (d1 d2 : R) : d1 <= d2 -> (bisectR xs d1 <= bisectR xs d2)%nat.
Proof.
  intros H. induction xs as [|x r IH]; simpl; [lia|]. rn.
  destruct (Rltb x d1) eqn:E1.
  - apply Rltb_true in E1. replace (Rltb x d2) with true by (symmetry; apply Rltb_true; lra). lia.
  - lia.
Qed.

Lemma location_never_cross (g : trackR) (d : R) : locationR g d <> Refuse RCross.
Proof.
  unfold location. destruct (negb _); [discriminate|]. destruct (bisectR _ _); [discriminate|].
  destruct (_ <=? _)%num; discriminate.
Qed.

(* sound: a step is refused as "crossing" only if some waypoint lies strictly inside it *)
Lemma step_cross_sound (g : trackR) (a b : R) :
  stepR g a b = Refuse RCross -> exists k, a < idxR g k < a + b.
Proof.
  unfold step. destruct (_ || _) eqn:En; [discriminate|].
  apply orb_false_iff in En. destruct En as [_ En]. rn. apply Rltb_false in En.
  destruct (containsR g a && containsR g (a + b)) eqn:Ec.
  - destruct (negb (allow g) && negb (Nat.eqb (bisectR (indexR g) a) (bisectR (indexR g) (a + b)))
              && Rltb a (idxR g (bisectR (indexR g) a))) eqn:Ex.
    + intros _. apply andb_true_iff in Ex. destruct Ex as [Ex E3]. apply andb_true_iff in Ex. destruct Ex as [_ E2].
      apply Rltb_true in E3. apply negb_true_iff in E2. apply Nat.eqb_neq in E2.
      exists (bisectR (indexR g) a). split; [exact E3|].
      assert (Hm := bisect_mono (indexR g) a (a + b) ltac:(lra)).
      apply (bisect_before (indexR g) (a + b)). lia.
    + intros H. exfalso. exact (location_never_cross g (a + b) H).
  - destruct (negb (allow g)); discriminate.
Qed.

(* not complete: a step that STARTS exactly on a waypoint is never refused as crossing, however many
   waypoints lie strictly inside it (the code's "degenerate case" clause) — in particular every step from 0 *)
Lemma step_from_waypoint_not_cross_refused (g : trackR) (a b : R) :
  containsR g a && containsR g (a + b) = true -> 0 <= a -> 0 <= b ->
  a = idxR g (bisectR (indexR g) a) -> stepR g a b = locationR g (a + b).
Proof.
  intros Hc Ha Hb He. unfold step. rn.
  replace (Rltb a 0) with false by (symmetry; apply Rltb_false; lra).
  replace (Rltb b 0) with false by (symmetry; apply Rltb_false; lra). simpl orb. cbv iota.
  rewrite Hc. rewrite <- He.
  replace (Rltb a a) with false by (symmetry; apply Rltb_false; lra). rewrite andb_false_r. reflexivity.
Qed.

Lemma bisect_index_0 (g : trackR) : bisectR (indexR g) 0 = O.
Proof.
  unfold index. destruct (@dists RNum g); simpl; rn;
  (replace (Rltb 0 0) with false; [reflexivity|symmetry; apply Rltb_false; lra]).
Qed.

Lemma step_from_start_is_location (g : trackR) (b : R) :
  0 <= b <= totalR g -> stepR g 0 b = locationR g (0 + b).
Proof.
  intros Hb. apply step_from_waypoint_not_cross_refused; try lra.
  - assert (C1 : containsR g 0 = true) by (apply contains_iff; lra).
    assert (C2 : containsR g (0 + b) = true) by (apply contains_iff; lra). rewrite C1, C2. reflexivity.
  - rewrite bisect_index_0, idx_0. reflexivity.
Qed.

(* ------------------------------------------------------------------ *)
(* azimuth convention                                                  *)
(* ------------------------------------------------------------------ *)

Lemma norm360_range (a : R) : -360 <= a < 360 -> 0 <= @norm360 RNum a < 360.
Proof.
  intros H. unfold norm360, c_360. rnum. destruct (Rltb a 0) eqn:E.
  - apply Rltb_true in E. lra.
  - apply Rltb_false in E. lra.
Qed.

Lemma norm360_congruent (a : R) : @norm360 RNum a = a \/ @norm360 RNum a = a + 360.
Proof. unfold norm360, c_360. rnum. destruct (Rltb a 0); [right; lra|left; reflexivity]. Qed.

(* ------------------------------------------------------------------ *)
(* interpretation of the scripts over geodesic oracles                  *)
(* ------------------------------------------------------------------ *)

Section Oracle.
  Variable P : Type.
  Variable inv : P -> P -> R * R.          (* (forward azimuth at the first point, geodesic distance) *)
  Variable fwd : P -> R -> R -> P.         (* point reached from p along azimuth az after distance d *)
  Variable dflt : P.

  Fixpoint legs_of (wps : list P) : list (R * R) :=
    match wps with
    | a :: ((b :: _) as r) => inv a b :: legs_of r
    | _ => []
    end.

  Definition track_of (wps : list P) (al : bool) : trackR := @Build_track RNum (legs_of wps) al.

  Definition evalp (wps : list P) (e : pexp RNum) : P :=
    match e with
    | PWp i => nth i wps dflt
    | PFwd i az d => fwd (nth i wps dflt) az d
    end.

  Definition res_point (wps : list P) (r : res RNum) : option P :=
    match r with At p _ => Some (evalp wps p) | Refuse _ => None end.

  (* --- a great-circle track: total length is the geodesic distance between its end points --- *)
  Lemma great_circle_total a b al : totalR (track_of [a; b] al) = snd (inv a b).
  Proof. rewrite total_is_sum. simpl. lra. Qed.

  Lemma track_total_is_sum_of_legs wps al :
    totalR (track_of wps al) = rsum (map snd (legs_of wps)).
  Proof. rewrite total_is_sum. reflexivity. Qed.

  (* geodesic laws used (pyproj, trusted; spot-checked by the harness):
     the direct problem run over distance d ends at geodesic distance d (up to the range [dmax] in which
     geodesics are shortest paths), and direct and inverse problems are consistent *)
  Variable dmax : R.
  Hypothesis fwd_dist : forall p az d, 0 <= d <= dmax -> snd (inv p (fwd p az d)) = d.
  Hypothesis inv_fwd : forall p q, fwd p (fst (inv p q)) (snd (inv p q)) = q.
  Hypothesis dist_sym : forall p q, snd (inv p q) = snd (inv q p).

  (* the location returned for a distance d lies on the geodesic from a towards b exactly d from the start *)
  Lemma great_circle_location a b al d :
    0 < d < snd (inv a b) -> snd (inv a b) <= dmax ->
    exists p z, locationR (track_of [a; b] al) d = At p z /\
      evalp [a; b] p = fwd a (fst (inv a b)) d /\ snd (inv a (evalp [a; b] p)) = d.
  Proof.
    intros Hd Hm. set (g := track_of [a; b] al).
    assert (Ht : totalR g = snd (inv a b)) by apply great_circle_total.
    destruct (location_inside g d ltac:(lra)) as (k & Hk & [Hk1 Hk2] & Hloc).
    assert (k = 0)%nat by (unfold nlegs in Hk; simpl in Hk; lia). subst k.
    eexists. eexists. split; [exact Hloc|].
    rewrite idx_0. replace (d - 0) with d by lra.
    unfold leg_az. simpl. split; [reflexivity|]. apply fwd_dist. lra.
  Qed.

  (* …and the far end of that geodesic is b *)
  Lemma great_circle_reaches_end a b : fwd a (fst (inv a b)) (snd (inv a b)) = b.
  Proof. apply inv_fwd. Qed.

  (* multi-waypoint: on leg k the point is the forward solution from waypoint k along the azimuth towards
     waypoint k+1, and lies d - idx k from waypoint k *)
  Lemma nth_legs_of : forall wps k, (S k < length wps)%nat ->
    nth k (legs_of wps) (0, 0) = inv (nth k wps dflt) (nth (S k) wps dflt).
  Proof.
    induction wps as [|a r IH]; intros k Hk; [simpl in Hk; lia|].
    destruct r as [|b r']; [simpl in Hk; lia|].
    change (legs_of (a :: b :: r')) with (inv a b :: legs_of (b :: r')).
    destruct k as [|k]; [reflexivity|].
    change (nth (S k) (inv a b :: legs_of (b :: r')) (0, 0)) with (nth k (legs_of (b :: r')) (0, 0)).
    rewrite IH by (simpl in Hk |- *; lia). reflexivity.
  Qed.

  Lemma leg_az_is_inv : forall wps k al, (S k < length wps)%nat ->
    @leg_az RNum (track_of wps al) k = fst (inv (nth k wps dflt) (nth (S k) wps dflt)).
  Proof.
    intros wps k al Hk. unfold leg_az, track_of. simpl legs.
    change (@zero RNum) with (fst ((0, 0) : R * R)). rewrite map_nth, nth_legs_of by exact Hk. reflexivity.
  Qed.

  Lemma legs_of_length wps : length (legs_of wps) = (length wps - 1)%nat.
  Proof.
    induction wps as [|a r IH]; [reflexivity|]. destruct r as [|b r']; [reflexivity|].
    change (legs_of (a :: b :: r')) with (inv a b :: legs_of (b :: r')). simpl length in *. lia.
  Qed.

  Lemma track_location_on_leg wps al d :
    0 < d < totalR (track_of wps al) -> totalR (track_of wps al) <= dmax ->
    (forall i, 0 <= idxR (track_of wps al) i) ->
    exists k p z, (S k < length wps)%nat /\ locationR (track_of wps al) d = At p z /\
      idxR (track_of wps al) k < d <= idxR (track_of wps al) (S k) /\
      evalp wps p = fwd (nth k wps dflt) (fst (inv (nth k wps dflt) (nth (S k) wps dflt))) (d - idxR (track_of wps al) k) /\
      snd (inv (nth k wps dflt) (evalp wps p)) = d - idxR (track_of wps al) k.
  Proof.
    intros Hd Hm Hpos. set (g := track_of wps al) in *.
    destruct (location_inside g d Hd) as (k & Hk & [Hk1 Hk2] & Hloc).
    assert (Hlen : (S k < length wps)%nat).
    { unfold nlegs, g in Hk. simpl in Hk. rewrite legs_of_length in Hk. lia. }
    exists k. eexists. eexists. split; [exact Hlen|]. split; [exact Hloc|]. split; [split; assumption|].
    unfold g at 1 2. rewrite leg_az_is_inv by exact Hlen. simpl evalp. split; [reflexivity|].
    apply fwd_dist. specialize (Hpos k). fold g in Hpos. lra.
  Qed.

  (* --- mission distance --- *)
  Variable inv4 : R -> R -> R -> R -> R.          (* GEOD.inv(x1, y1, x2, y2)[2] *)
  Definition evald (e : dexp RNum) : R := match e with DInv x1 y1 x2 y2 => inv4 x1 y1 x2 y2 end.

  Lemma mission_distance_is_track_length olon olat dlon dlat :
    evald (@gc_distance RNum false olon olat dlon dlat) = evald (@great_circle_leg RNum olon olat dlon dlat).
  Proof. reflexivity. Qed.

  Hypothesis inv4_sym : forall x1 y1 x2 y2, inv4 x1 y1 x2 y2 = inv4 x2 y2 x1 y1.

  Lemma mission_distance_symmetric b olon olat dlon dlat :
    evald (@gc_distance RNum b olon olat dlon dlat) = evald (@gc_distance RNum b dlon dlat olon olat).
  Proof. destruct b; simpl; apply inv4_sym. Qed.

  (* as coded before F13: whenever the oracle distinguishes the two argument orders for a pair of airports,
     the coded mission distance is not the track length *)
  Lemma mission_distance_args_exchanged_differs olon olat dlon dlat :
    inv4 olat olon dlat dlon <> inv4 olon olat dlon dlat ->
    evald (@gc_distance RNum true olon olat dlon dlat) <> evald (@great_circle_leg RNum olon olat dlon dlat).
  Proof. intros H. exact H. Qed.
End Oracle.

(* ------------------------------------------------------------------ *)
(* bridges: mission distance <-> track length; reported azimuths        *)
(* ------------------------------------------------------------------ *)

Section Bridge.
  (* points are (longitude, latitude) pairs; [inv] is pyproj's inverse problem on points, [inv4] the same call with
     the four coordinates spelled out as Mission.gc_distance does *)
  Variable inv : (R * R) -> (R * R) -> R * R.
  Variable inv4 : R -> R -> R -> R -> R.
  Hypothesis same_call : forall a b : R * R, inv4 (fst a) (snd a) (fst b) (snd b) = snd (inv a b).

  (* the mission distance (pyproj order) IS the total length of the great-circle ground track between the airports *)
  Lemma mission_distance_is_ground_track_total (olon olat dlon dlat : R) al :
    evald inv4 (@gc_distance RNum false olon olat dlon dlat)
    = totalR (track_of (R * R) inv [(olon, olat); (dlon, dlat)] al).
  Proof. rewrite great_circle_total. simpl. apply (same_call (olon, olat) (dlon, dlat)). Qed.

  (* symmetry of the mission distance is exactly the symmetry of the geodesic distance (an oracle law of pyproj) *)
  Lemma mission_distance_symmetric_from_geodesic (olon olat dlon dlat : R) :
    (forall p q, snd (inv p q) = snd (inv q p)) ->
    evald inv4 (@gc_distance RNum false olon olat dlon dlat) = evald inv4 (@gc_distance RNum false dlon dlat olon olat).
  Proof.
    intros Hs. simpl.
    generalize (same_call (olon, olat) (dlon, dlat)), (same_call (dlon, dlat) (olon, olat)). simpl.
    intros -> ->. apply Hs.
  Qed.
End Bridge.

Section Azimuths.
  Variable P : Type.
  Variable inv : P -> P -> R * R.
  Variable fwd : P -> R -> R -> P.
  Variable dflt : P.

  (* the raw (pyproj) value behind an azimuth expression of the model *)
  Definition evala (wps : list P) (al : bool) (a : aexp RNum) : R :=
    match a with
    | ALeg i => @leg_az RNum (track_of P inv wps al) i
    | AInvFrom p j => fst (inv (evalp P fwd dflt wps p) (nth j wps dflt))
    | AInvTo j p => fst (inv (nth j wps dflt) (evalp P fwd dflt wps p))
    end.

  (* what GroundTrack.Point reports *)
  Definition reported_azimuth (wps : list P) (al : bool) (a : aexp RNum) : R := @norm360 RNum (evala wps al a).

  Lemma legs_of_az_in wps x : In x (map fst (legs_of P inv wps)) -> exists a b, x = fst (inv a b).
  Proof.
    induction wps as [|a r IH]; [intros []|]. destruct r as [|b r']; [intros []|].
    change (legs_of P inv (a :: b :: r')) with (inv a b :: legs_of P inv (b :: r')). simpl map.
    intros [<-|H]; [eauto|apply IH; exact H].
  Qed.

  (* every azimuth expression evaluates to a forward azimuth of some inverse problem (or to the default 0 for a
     leg that does not exist) *)
  Lemma evala_is_oracle_value wps al a : evala wps al a = 0 \/ exists p q, evala wps al a = fst (inv p q).
  Proof.
    destruct a as [i|p j|j p]; simpl; [|right; eauto|right; eauto].
    unfold leg_az, track_of. simpl legs.
    destruct (nth_in_or_default i (map fst (legs_of P inv wps)) (@zero RNum)) as [H|H].
    - right. apply legs_of_az_in in H. exact H.
    - left. exact H.
  Qed.

  (* with pyproj's azimuth range as a hypothesis, every azimuth a ground track reports is in [0, 360) and is
     congruent to the oracle's value *)
  Lemma reported_azimuth_range wps al a :
    (forall p q, -360 <= fst (inv p q) < 360) ->
    0 <= reported_azimuth wps al a < 360 /\
    (reported_azimuth wps al a = evala wps al a \/ reported_azimuth wps al a = evala wps al a + 360).
  Proof.
    intros Hr. unfold reported_azimuth. split; [|apply norm360_congruent].
    apply norm360_range. destruct (evala_is_oracle_value wps al a) as [->|(p & q & ->)]; [lra|apply Hr].
  Qed.
End Azimuths.

(* a concrete oracle separating the two argument orders exists (any metric that is not invariant under
   exchanging the two coordinates; here a weighted taxicab distance), so the exchanged form is refuted *)
Definition toy_inv4 (x1 y1 x2 y2 : R) : R := Rabs (x1 - x2) + 2 * Rabs (y1 - y2).

Lemma toy_inv4_sym x1 y1 x2 y2 : toy_inv4 x1 y1 x2 y2 = toy_inv4 x2 y2 x1 y1.
Proof. unfold toy_inv4. rewrite (Rabs_minus_sym x1 x2), (Rabs_minus_sym y1 y2). reflexivity. Qed.

Lemma mission_distance_args_refuted :
  exists inv4, (forall x1 y1 x2 y2, inv4 x1 y1 x2 y2 = inv4 x2 y2 x1 y1) /\
    exists olon olat dlon dlat,
      evald inv4 (@gc_distance RNum true olon olat dlon dlat) <> evald inv4 (@great_circle_leg RNum olon olat dlon dlat).
Proof.
  exists toy_inv4. split; [exact toy_inv4_sym|].
  exists 0, 0, 1, 0. simpl. unfold toy_inv4.
  replace (0 - 0) with 0 by lra.
  rewrite Rabs_R0. unfold Rabs. destruct (Rcase_abs (0 - 1)); lra.
Qed.

(* ---- non-vacuity ---- *)
Definition demo_track : trackR := @Build_track RNum [(60, 1000); (15, 2500)] true.

Example demo_total : totalR demo_track = 3500.
Proof. rewrite total_is_sum. simpl. lra. Qed.

Example location_inside_nonvacuous : 0 < 1200 < totalR demo_track.
Proof. rewrite demo_total. lra. Qed.

Example step_overstep_nonvacuous : allow demo_track = true /\ totalR demo_track < 3000 + 700.
Proof. rewrite demo_total. split; [reflexivity|lra]. Qed.

(* C13 — lemmas about the CSV-convention layer (model/C13_Parse.v).  Axiom-free. *)
From Coq Require Import ZArith List String Bool Ascii Lia.
From AV Require Import lib.Dates model.C13_Model model.C13_Parse proofs.C13_Proofs.
Import ListNotations.
Open Scope Z_scope.

Fixpoint only_digits (s : string) : bool :=
  match s with EmptyString => true | String c r => is_digit c && only_digits r end.

Lemma digit_facts : forall c, is_digit c = true ->
  is_space c = false /\ Ascii.eqb c "+"%char = false /\ Ascii.eqb c "-"%char = false /\ 0 <= digit_val c <= 9.
Proof.
  intros c. destruct c as [[] [] [] [] [] [] [] []]; vm_compute; intros H; try discriminate;
    repeat split; try reflexivity; try discriminate.
Qed.

Lemma digits_val_only : forall s acc, only_digits s = true -> 0 <= acc ->
  exists n, digits_val acc s = Some n /\ 0 <= n.
Proof.
  induction s as [|c r IH]; intros acc H Ha; simpl in *.
  - exists acc. auto.
  - apply andb_true_iff in H. destruct H as [Hc Hr]. rewrite Hc.
    destruct (digit_facts c Hc) as [_ [_ [_ Hd]]]. apply IH; [exact Hr | lia].
Qed.

Lemma digits_val_some_only : forall s acc n, digits_val acc s = Some n -> only_digits s = true.
Proof.
  induction s as [|c r IH]; intros acc n H; simpl in *; [reflexivity|].
  destruct (is_digit c); [|discriminate]. simpl. eapply IH; exact H.
Qed.

Lemma all_digits_only : forall s, all_digits s = true -> s <> EmptyString /\ only_digits s = true.
Proof.
  intros s H. unfold all_digits, nonempty_digits in H. destruct s as [|c r]; [discriminate|].
  split; [discriminate|]. destruct (digits_val 0 (String c r)) eqn:E; [|discriminate].
  eapply digits_val_some_only; exact E.
Qed.

Lemma rstrip_only_digits : forall s, only_digits s = true -> rstrip s = s.
Proof.
  induction s as [|c r IH]; intros H; simpl in *; [reflexivity|].
  apply andb_true_iff in H. destruct H as [Hc Hr]. rewrite (IH Hr).
  destruct (digit_facts c Hc) as [Hs _]. destruct r; [rewrite Hs|]; reflexivity.
Qed.

Lemma lstrip_only_digits : forall s, only_digits s = true -> lstrip s = s.
Proof.
  intros [|c r] H; simpl in *; [reflexivity|].
  apply andb_true_iff in H. destruct H as [Hc _]. destruct (digit_facts c Hc) as [Hs _]. rewrite Hs. reflexivity.
Qed.

(* int() of a non-empty string of decimal digits succeeds with a non-negative value *)
Lemma py_int_all_digits : forall s, all_digits s = true -> exists n, py_int s = Some n /\ 0 <= n.
Proof.
  intros s H. destruct (all_digits_only s H) as [Hne Ho].
  unfold py_int. rewrite (lstrip_only_digits s Ho), (rstrip_only_digits s Ho).
  destruct s as [|c r]; [congruence|].
  simpl in Ho. apply andb_true_iff in Ho. destruct Ho as [Hc Hr].
  destruct (digit_facts c Hc) as [_ [Hp [Hm _]]]. rewrite Hp, Hm.
  unfold nonempty_digits. apply digits_val_only; [simpl; rewrite Hc, Hr; reflexivity | lia].
Qed.

(* a row in the plain grammar is never dropped as unparsable: it is either skipped for a documented
   row-level reason or handed to the importer *)
Lemma plain_row_parses : forall excl w, plain_row w = true -> parse_raw excl w <> PMalformed.
Proof.
  intros excl w H. unfold plain_row in H. repeat rewrite andb_true_iff in H.
  destruct H as [[[[[[[[H1 H2] H3] H4] H5] H6] H7] H8] H9].
  unfold parse_raw.
  destruct (py_int_all_digits _ H1) as [st [E1 _]]. rewrite E1.
  destruct (row_skip_reason excl _); [discriminate|].
  assert (F : exists fl, parse_fltno (w_fltno w) = Some fl).
  { unfold parse_fltno. destruct (String.eqb (w_fltno w) "") eqn:E; [eexists; reflexivity|].
    simpl in H2. destruct (py_int_all_digits _ H2) as [n [En _]]. exists n. exact En. }
  destruct F as [fl F]. rewrite F.
  destruct (py_int_all_digits _ H3) as [dep [E3 _]]. unfold parse_time, parse_time_gen. rewrite E3.
  destruct (py_int_all_digits _ H4) as [arr [E4 _]]. rewrite E4.
  assert (A : exists ad, parse_arrday (w_arrday w) = Some ad).
  { unfold parse_arrday, parse_arrday_gen.
    destruct (String.eqb (w_arrday w) "P"); [eexists; reflexivity|].
    destruct (str_in (w_arrday w) [" "%string; ""%string]); [eexists; reflexivity|].
    simpl in H5. destruct (py_int_all_digits _ H5) as [n [En _]]. exists n. exact En. }
  destruct A as [ad A]. rewrite A.
  destruct (py_int_all_digits _ H6) as [mi [E6 _]]. rewrite E6.
  destruct (py_int_all_digits _ H7) as [se [E7 _]]. rewrite E7.
  unfold date_ok in H8, H9.
  destruct (parse_date (w_efffrom w)); [|discriminate].
  destruct (parse_date (w_effto w)); [|discriminate].
  discriminate.
Qed.

Section Raw.
  Variable offO offD : Z -> Z.
  Variable geod : Z -> Z -> Z -> Z -> option Z.

  Lemma plain_row_never_malformed : forall fl excl year w ko kd o d,
    plain_row w = true -> import_raw offO offD geod fl excl year w ko kd o d <> RMalformed.
  Proof.
    intros fl excl year w ko kd o d H. unfold import_raw.
    pose proof (plain_row_parses excl w H) as Hp.
    destruct (parse_raw excl w); [congruence | discriminate | discriminate].
  Qed.

  (* whatever the importer model says about a parsed row, it says about the raw row *)
  Lemma import_raw_of_parsed : forall fl excl year w ko kd o d r fltno miles seats s,
    parse_raw excl w = POk r fltno miles seats s ->
    import_raw offO offD geod fl excl year w ko kd o d =
    ROutcome fltno seats (import_row offO offD geod fl excl year r ko kd o d miles s).
  Proof. intros. unfold import_raw. rewrite H. reflexivity. Qed.

  (* a raw row is skipped only for a documented reason *)
  Lemma raw_skipped_reason_holds : forall fl excl year w ko kd o d fltno seats k,
    import_raw offO offD geod fl excl year w ko kd o d = ROutcome fltno seats (Skipped k) ->
    exists r miles, reason_holds geod fl excl r ko kd o d miles k
                    /\ c_carrier r = w_carrier w /\ c_service r = w_service w
                    /\ c_operating r = w_operating w /\ c_genacft r = w_genacft w
                    /\ py_int (w_stops w) = Some (c_stops r).
  Proof.
    intros fl excl year w ko kd o d fltno seats k H. unfold import_raw in H.
    destruct (parse_raw excl w) as [|k0|r fl0 mi se s] eqn:Ep; [discriminate| |].
    - inversion H; subst. unfold parse_raw in Ep.
      destruct (py_int (w_stops w)) as [st|] eqn:Es; [|discriminate].
      destruct (row_skip_reason excl _) as [k1|] eqn:Er.
      + inversion Ep; subst. eexists. exists 0. split; [apply (row_skip_reason_sound offO offD); exact Er|].
        simpl. auto.
      + destruct (parse_fltno (w_fltno w)), (parse_time (w_deptim w)), (parse_time (w_arrtim w)), (parse_arrday (w_arrday w));
          try discriminate;
          destruct (py_int (w_distance w)), (py_int (w_seats w)), (parse_date (w_efffrom w)), (parse_date (w_effto w));
          discriminate.
    - inversion H; subst. exists r, mi. split; [eapply skipped_reason_holds; eassumption|].
      unfold parse_raw in Ep.
      destruct (py_int (w_stops w)) as [st|] eqn:Es; [|discriminate].
      destruct (row_skip_reason excl _); [discriminate|].
      destruct (parse_fltno (w_fltno w)), (parse_time (w_deptim w)), (parse_time (w_arrtim w)), (parse_arrday (w_arrday w));
        try discriminate;
        destruct (py_int (w_distance w)), (py_int (w_seats w)), (parse_date (w_efffrom w)), (parse_date (w_effto w));
        try discriminate.
      inversion Ep; subst. simpl. auto.
  Qed.
End Raw.

(* the property's reading of the raw-row statement: reasons at the specification switches *)
Lemma raw_skipped_documented_reason_spec : forall offO offD geod excl year w ko kd o d fltno seats k,
  import_raw offO offD geod spec_flags excl year w ko kd o d = ROutcome fltno seats (Skipped k) ->
  exists r miles, documented_reason geod excl r ko kd o d miles k
                  /\ c_carrier r = w_carrier w /\ c_service r = w_service w
                  /\ c_operating r = w_operating w /\ c_genacft r = w_genacft w
                  /\ py_int (w_stops w) = Some (c_stops r).
Proof. intros. eapply raw_skipped_reason_holds; eassumption. Qed.

(* the conventions on concrete strings *)
Example parse_examples :
  parse_date "00000000" = Some None /\ parse_date "99999999" = Some None
  /\ parse_date "20190115" = Some (Some (2019, 1, 15)) /\ parse_date "20190230" = None
  /\ parse_date "20200229" = Some (Some (2020, 2, 29)) /\ parse_date "2019011" = None /\ parse_date "" = None
  /\ parse_time "1730" = Some 1050 /\ parse_time "0000" = Some 0 /\ parse_time "17h0" = None
  /\ parse_arrday "P" = Some (-1) /\ parse_arrday " " = Some 0 /\ parse_arrday "" = Some 0
  /\ parse_arrday "2" = Some 2 /\ parse_arrday "X" = None
  /\ parse_days " 2  5 7" = [2; 5; 7] /\ parse_days "" = [] /\ parse_days "1234567" = [1; 2; 3; 4; 5; 6; 7]
  /\ py_int " 42 " = Some 42 /\ py_int "-7" = Some (-7) /\ py_int "+7" = Some 7 /\ py_int "" = None
  /\ py_int "4 2" = None /\ py_int "0000235" = Some 235.
Proof. repeat split; vm_compute; reflexivity. Qed.

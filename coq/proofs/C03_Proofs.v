(* C03 — proofs, part 1: cells, patches, and the round trip of one field for every shape and kind
   (repaired writer / reader, [fixed = true]). *)
From Coq Require Import ZArith List String Bool Arith Lia.
From AV Require Import model.C03_Model.
Import ListNotations.
Local Open Scope list_scope.

(* ------------------------------------------------------------------------------------------- *)
(* keys and cells                                                                                *)
(* ------------------------------------------------------------------------------------------- *)

Lemma prefix_eqb_eq : forall p q, prefix_eqb p q = true <-> p = q.
Proof.
  intros [[a b] c] [[a' b'] c']. simpl. rewrite !andb_true_iff, !Nat.eqb_eq.
  split; [intros [[-> ->] ->]; reflexivity | intros H; inversion H; auto].
Qed.

Lemma prefix_eqb_refl : forall p, prefix_eqb p p = true.
Proof. intro p. now apply prefix_eqb_eq. Qed.

Lemma key_eqb_eq : forall k l, key_eqb k l = true <-> k = l.
Proof.
  intros [[p s] m] [[p' s'] m']. simpl. rewrite !andb_true_iff, !Nat.eqb_eq, prefix_eqb_eq.
  split; [intros [[-> ->] ->]; reflexivity | intros H; inversion H; auto].
Qed.

Lemma key_eqb_refl : forall k, key_eqb k k = true.
Proof. intro k. now apply key_eqb_eq. Qed.

Lemma key_eqb_neq : forall k l, k <> l -> key_eqb k l = false.
Proof. intros k l H. destruct (key_eqb k l) eqn:E; auto. apply key_eqb_eq in E. contradiction. Qed.

Lemma get_put_same : forall k v c, get k (put k v c) = Some v.
Proof. intros. simpl. now rewrite key_eqb_refl. Qed.

Lemma get_put_other : forall k l v c, k <> l -> get k (put l v c) = get k c.
Proof. intros. simpl. now rewrite key_eqb_neq. Qed.

(* the patch that wins for (slot, mode): the last one in the list *)
Fixpoint plast (s mo : nat) (ps : list patch) (acc : option cell) : option cell :=
  match ps with
  | [] => acc
  | (s', mo', c) :: r => plast s mo r (if Nat.eqb s s' && Nat.eqb mo mo' then Some c else acc)
  end.

Lemma plast_some : forall s mo ps x, exists y, plast s mo ps (Some x) = Some y.
Proof.
  induction ps as [| [[s' mo'] c] r IH]; intro x; simpl; eauto.
  destruct (Nat.eqb s s' && Nat.eqb mo mo'); apply IH.
Qed.

Lemma get_apply_patches_gen : forall p ps c s mo,
  get (p, s, mo) (apply_patches p ps c) =
  match plast s mo ps None with Some x => Some x | None => get (p, s, mo) c end.
Proof.
  intros p ps. unfold apply_patches.
  assert (G : forall c s mo acc,
             (forall x, acc = Some x -> get (p, s, mo) c = Some x) ->
             get (p, s, mo) (fold_left (fun a q => put (p, fst (fst q), snd (fst q)) (snd q) a) ps c) =
             match plast s mo ps acc with Some x => Some x | None => get (p, s, mo) c end).
  { induction ps as [| [[s' mo'] x] r IH]; intros c s mo acc Hacc; simpl.
    - destruct acc; auto.
    - rewrite (IH _ s mo (if Nat.eqb s s' && Nat.eqb mo mo' then Some x else acc)).
      + destruct (Nat.eqb s s' && Nat.eqb mo mo') eqn:E.
        * destruct (plast_some s mo r x) as [y Hy]. now rewrite Hy.
        * destruct (plast s mo r acc); auto. simpl.
          rewrite prefix_eqb_refl. simpl. now rewrite E.
      + intros y Hy. destruct (Nat.eqb s s' && Nat.eqb mo mo') eqn:E.
        * inversion Hy; subst. simpl. rewrite prefix_eqb_refl. simpl. now rewrite E.
        * simpl. rewrite prefix_eqb_refl. simpl. rewrite E. now apply Hacc. }
  intros c s mo. apply G. intros x Hx; discriminate.
Qed.

Lemma get_apply_patches_other : forall p q ps c s mo, q <> p ->
  get (q, s, mo) (apply_patches p ps c) = get (q, s, mo) c.
Proof.
  intros p q ps c s mo Hne. unfold apply_patches. revert c.
  induction ps as [| [[s' mo'] x] r IH]; intro c; simpl; auto.
  rewrite IH. apply get_put_other. intro H. inversion H. contradiction.
Qed.

(* a prefix nothing has been written under *)
Definition fresh_prefix (p : prefix) (c : cells) : Prop := forall s mo, get (p, s, mo) c = None.

Lemma rd_after_write : forall p ps c m s mo, fresh_prefix p c ->
  rd (apply_patches p ps c) m p s mo =
  match plast s mo ps None with Some x => x | None => fill_cell m end.
Proof.
  intros p ps c m s mo Hf. unfold rd. rewrite get_apply_patches_gen, Hf.
  destruct (plast s mo ps None); reflexivity.
Qed.

Lemma rd_other_prefix : forall p q ps c m s mo, q <> p ->
  rd (apply_patches p ps c) m q s mo = rd c m q s mo.
Proof. intros. unfold rd. now rewrite get_apply_patches_other. Qed.

(* ------------------------------------------------------------------------------------------- *)
(* read_field only looks at the cells it is given                                                *)
(* ------------------------------------------------------------------------------------------- *)

Lemma flat_map_ext_in : forall {A B} (f g : A -> list B) l,
  (forall x, In x l -> f x = g x) -> flat_map f l = flat_map g l.
Proof.
  induction l as [| a l IH]; intro H; simpl; auto.
  rewrite H by (now left). rewrite IH; auto. intros; apply H; now right.
Qed.

Lemma existsb_ext' : forall {A} (f g : A -> bool) l, (forall x, f x = g x) -> existsb f l = existsb g l.
Proof. induction l; simpl; intros; auto. now rewrite H, IHl. Qed.

Lemma read_modes_ext : forall fixed d (g g' : nat -> cell),
  (forall ti, g ti = g' ti) -> read_modes fixed d g = read_modes fixed d g'.
Proof. intros. unfold read_modes. apply map_ext. intros; now rewrite H. Qed.

Lemma any_written_ext : forall d (g g' : nat -> cell),
  (forall ti, g ti = g' ti) -> any_written d g = any_written d g'.
Proof. intros. unfold any_written. apply existsb_ext'. intros; now rewrite H. Qed.

Ltac same_flat_map :=
  match goal with
  | |- context [flat_map ?F ?l] =>
      match goal with
      | |- context [flat_map ?F' l] =>
          tryif constr_eq F F' then fail else
            (let E := fresh "E" in
             assert (E : flat_map F l = flat_map F' l);
             [apply flat_map_ext_in; intros | rewrite E; reflexivity])
      end
  end.

Ltac same_map :=
  match goal with
  | |- context [map ?F ?l] =>
      match goal with
      | |- context [map ?F' l] =>
          tryif constr_eq F F' then fail else
            (let E := fresh "E" in
             assert (E : map F l = map F' l);
             [apply map_ext; intros | rewrite E; reflexivity])
      end
  end.

Lemma read_field_ext : forall fixed fsp m g g',
  (forall s mo, g s mo = g' s mo) -> read_field fixed fsp m g = read_field fixed fsp m g'.
Proof.
  intros fixed fsp m g g' H. unfold read_field.
  destruct (fm_shape m); rewrite ?H; try reflexivity.
  - destruct fixed; [same_flat_map | same_map]; now rewrite H.
  - destruct fixed; [same_flat_map | same_map]; now rewrite H.
  - rewrite (any_written_ext _ (g 0) (g' 0)) by (intro; apply H).
    rewrite (read_modes_ext true _ (g 0) (g' 0)) by (intro; apply H).
    rewrite (read_modes_ext false _ (g 0) (g' 0)) by (intro; apply H). reflexivity.
  - destruct fixed; [same_flat_map | same_map].
    + rewrite (any_written_ext _ (g (fst x)) (g' (fst x))) by (intro; apply H).
      rewrite (read_modes_ext true _ (g (fst x)) (g' (fst x))) by (intro; apply H). reflexivity.
    + rewrite (read_modes_ext false _ (g (fst a)) (g' (fst a))) by (intro; apply H). reflexivity.
Qed.

(* ------------------------------------------------------------------------------------------- *)
(* patches of a species-indexed value                                                            *)
(* ------------------------------------------------------------------------------------------- *)

Lemma plast_app : forall s mo ps qs acc, plast s mo (ps ++ qs) acc = plast s mo qs (plast s mo ps acc).
Proof.
  induction ps as [| [[s' mo'] c] r IH]; intros qs acc; simpl; auto.
Qed.

Lemma plast_noslot : forall s mo ps acc,
  (forall q, In q ps -> fst (fst q) <> s) -> plast s mo ps acc = acc.
Proof.
  induction ps as [| [[s' mo'] c] r IH]; intros acc H; simpl; auto.
  assert (s' <> s) by (apply (H (s', mo', c)); now left).
  replace (Nat.eqb s s') with false by (symmetry; apply Nat.eqb_neq; auto). simpl.
  apply IH. intros q Hq. apply H. now right.
Qed.

Lemma enum_from_bounds : forall {A} (l : list A) k slot x,
  In (slot, x) (enum_from k l) -> k <= slot < k + List.length l.
Proof.
  induction l as [| y r IH]; intros k slot x H; simpl in *; [contradiction |].
  destruct H as [H | H]; [inversion H; lia |]. apply IH in H. lia.
Qed.

Lemma enum_from_snd : forall {A} (l : list A) k, map snd (enum_from k l) = l.
Proof. induction l; intro k; simpl; auto. now rewrite IHl. Qed.

(* the patches the repaired writer produces for a species-indexed value *)
Definition sp_flat {A} (mk : nat -> A -> list patch) (mp : list (nat * A)) (e : list (nat * nat)) : list patch :=
  flat_map (fun p => match lookup (snd p) mp with Some x => mk (fst p) x | None => [] end) e.

Lemma sp_patches_fixed : forall {A} (mk : nat -> A -> list patch) mp bound L k,
  k + List.length L <= bound ->
  sp_patches mk bound (enum_from k L) mp = inl (sp_flat mk mp (enum_from k L)).
Proof.
  intros A mk mp bound. induction L as [| sp r IH]; intros k Hb; simpl; auto.
  simpl in Hb. unfold sp_flat. simpl.
  destruct (lookup sp mp) as [x |] eqn:E.
  - replace (Nat.ltb k bound) with true by (symmetry; apply Nat.ltb_lt; lia).
    rewrite IH by lia. reflexivity.
  - rewrite IH by lia. reflexivity.
Qed.

(* every patch made for slot [slot] sits at that slot *)
Definition slot_local {A} (mk : nat -> A -> list patch) : Prop :=
  forall slot x q, In q (mk slot x) -> fst (fst q) = slot.

Lemma plast_sp_flat : forall {A} (mk : nat -> A -> list patch) mp, slot_local mk ->
  forall L k slot sp mo acc,
  In (slot, sp) (enum_from k L) -> NoDup L ->
  plast slot mo (sp_flat mk mp (enum_from k L)) acc =
  match lookup sp mp with Some x => plast slot mo (mk slot x) acc | None => acc end.
Proof.
  intros A mk mp Hloc. induction L as [| y r IH]; intros k slot sp mo acc Hin Hnd; simpl in *; [contradiction |].
  inversion Hnd as [| ? ? Hy Hr]; subst.
  unfold sp_flat. simpl. rewrite plast_app. fold (sp_flat mk mp (enum_from (S k) r)).
  destruct Hin as [Hin | Hin].
  - inversion Hin; subst. clear Hin.
    rewrite plast_noslot.
    + destruct (lookup sp mp); reflexivity.
    + intros q Hq. unfold sp_flat in Hq. apply in_flat_map in Hq. destruct Hq as [[s' sp'] [Hp Hq]].
      apply enum_from_bounds in Hp. simpl in Hq.
      destruct (lookup sp' mp); [| contradiction]. apply Hloc in Hq. lia.
  - assert (Hb := enum_from_bounds _ _ _ _ Hin).
    rewrite (plast_noslot slot mo (match lookup y mp with Some x => mk k x | None => [] end)).
    + now apply IH.
    + intros q Hq. destruct (lookup y mp); [| contradiction]. apply Hloc in Hq. lia.
Qed.

Lemma plast_sp_flat_noslot : forall {A} (mk : nat -> A -> list patch) mp, slot_local mk ->
  forall L k slot mo acc, (slot < k \/ k + List.length L <= slot) ->
  plast slot mo (sp_flat mk mp (enum_from k L)) acc = acc.
Proof.
  intros A mk mp Hloc L k slot mo acc Hout. apply plast_noslot.
  intros q Hq. unfold sp_flat in Hq. apply in_flat_map in Hq. destruct Hq as [[s' sp'] [Hp Hq]].
  apply enum_from_bounds in Hp. simpl in Hq. destruct (lookup sp' mp); [| contradiction].
  apply Hloc in Hq. lia.
Qed.

(* the species kept by a file whose species dimension is L, in the order of L *)
Definition restrict {A} (L : list nat) (mp : list (nat * A)) : list (nat * A) :=
  flat_map (fun sp => match lookup sp mp with Some x => [(sp, x)] | None => [] end) L.

Lemma flat_map_enum_snd : forall {A B} (f : A -> list B) (l : list A) k,
  flat_map (fun p => f (snd p)) (enum_from k l) = flat_map f l.
Proof. induction l; intro k; simpl; auto. now rewrite IHl. Qed.

(* ------------------------------------------------------------------------------------------- *)
(* values that fit a field, and their normal form                                                *)
(* ------------------------------------------------------------------------------------------- *)

Definition not_fill (d : dtype) (s : scalar) : Prop := scalar_eqb s (fill_of d) = false.

Definition keys_in {A} (L : list nat) (mp : list (nat * A)) : Prop := unknown_species L mp = false.

Definition fits (n : Z) (L : list nat) (m : fmeta) (v : fval) : Prop :=
  let d := fm_dtype m in
  match v with
  | FNone => fm_req m = false /\ (fm_shape m = ShT -> d <> Str)
  | FScal s => fm_shape m = ShT /\ scalar_missing d s = false
  | FArr a => fm_shape m = ShTP /\ alen a = n /\ n <> 0%Z /\ d <> Str
  | FSp mp => fm_shape m = ShTS /\ keys_in L mp /\ Forall (fun p => not_fill d (snd p)) mp
  | FSpArr mp => fm_shape m = ShTSP /\ keys_in L mp /\ Forall (fun p => alen (snd p) = n) mp /\ n <> 0%Z
  | FTm l => fm_shape m = ShTM /\ List.length l = 4 /\ Forall (not_fill d) l
  | FSpTm mp => fm_shape m = ShTSM /\ keys_in L mp /\
                Forall (fun p => List.length (snd p) = 4 /\ Forall (not_fill d) (snd p)) mp
  end.

(* what is expected back: the species in the order of the file's species dimension; an optional
   species-indexed field without any species is unset *)
Definition canon (L : list nat) (m : fmeta) (v : fval) : fval :=
  match v with
  | FSp mp => opt_none m (is_nil (restrict L mp)) (FSp (restrict L mp))
  | FSpArr mp => opt_none m (is_nil (restrict L mp)) (FSpArr (restrict L mp))
  | FSpTm mp => opt_none m (is_nil (restrict L mp)) (FSpTm (restrict L mp))
  | _ => v
  end.

Lemma lookup_in : forall {A} sp (mp : list (nat * A)) x, lookup sp mp = Some x -> In (sp, x) mp.
Proof.
  induction mp as [| [k v] r IH]; intros x H; simpl in *; [discriminate |].
  destruct (Nat.eqb sp k) eqn:E.
  - apply Nat.eqb_eq in E. inversion H; subst. now left.
  - right. now apply IH.
Qed.

Lemma four : forall {A} (l : list A), List.length l = 4 -> exists a b c d, l = [a; b; c; d].
Proof.
  intros A l H. do 4 (destruct l as [| ? l]; [discriminate |]). destruct l; [| discriminate]. eauto.
Qed.

Lemma mode_patches_local : slot_local mode_patches.
Proof.
  intros slot l q Hq. unfold mode_patches in Hq. apply in_map_iff in Hq.
  destruct Hq as [p [Hp _]]. subst. reflexivity.
Qed.

(* ------------------------------------------------------------------------------------------- *)
(* the round trip of one field, every shape and kind                                             *)
(* ------------------------------------------------------------------------------------------- *)

Lemma flat_map_nil : forall {A B} (l : list A), flat_map (fun _ : A => @nil B) l = [].
Proof. induction l; simpl; auto. Qed.

Definition reads_patches (m : fmeta) (ps : list patch) (g : nat -> nat -> cell) : Prop :=
  forall s mo, g s mo = match plast s mo ps None with Some x => x | None => fill_cell m end.

Lemma not_fill_written : forall d s, not_fill d s -> written d (CScal s) = true.
Proof. intros d s H. unfold written. now rewrite H. Qed.

Lemma fill_not_written : forall m, written (fm_dtype m) (fill_cell m) = false.
Proof.
  intro m. unfold fill_cell. destruct (has_point (fm_shape m)); simpl; auto.
  destruct (fm_dtype m); reflexivity.
Qed.

Theorem roundtrip_field : forall n L m v, NoDup L -> fits n L m v ->
  exists ps, field_patches true L m v = inl ps /\
             forall g, reads_patches m ps g -> read_field true L m g = canon L m v.
Proof.
  intros n L m v HL Hfit. destruct v as [| s | a | mp | mp | l | mp]; simpl in Hfit.
  - (* unset optional field *)
    destruct Hfit as [Hreq Hstr]. exists []. unfold field_patches. rewrite Hreq. split; auto.
    intros g Hg. unfold read_field.
    assert (G : forall s mo, g s mo = fill_cell m) by (intros; now rewrite Hg).
    destruct (fm_shape m) eqn:Hs; simpl.
    + rewrite G. unfold fill_cell. rewrite Hs. simpl.
      destruct (fm_dtype m) eqn:Hd; simpl; auto. now elim Hstr.
    + rewrite G. unfold fill_cell. rewrite Hs. simpl. reflexivity.
    + erewrite flat_map_ext_in with (g := fun _ => []).
      * rewrite flat_map_nil. unfold opt_none. now rewrite Hreq.
      * intros p _. rewrite G. now rewrite fill_not_written.
    + erewrite flat_map_ext_in with (g := fun _ => []).
      * rewrite flat_map_nil. unfold opt_none. now rewrite Hreq.
      * intros p _. rewrite G. now rewrite fill_not_written.
    + unfold any_written. simpl. rewrite !G, fill_not_written. simpl. unfold opt_none. now rewrite Hreq.
    + erewrite flat_map_ext_in with (g := fun _ => []).
      * rewrite flat_map_nil. unfold opt_none. now rewrite Hreq.
      * intros p _. unfold any_written. simpl. rewrite !G, fill_not_written. reflexivity.
  - (* T *)
    destruct Hfit as [Hs Hm]. exists [(0, 0, CScal s)]. unfold field_patches. rewrite Hs. split; auto.
    intros g Hg. unfold read_field. rewrite Hs. cbv zeta. rewrite !Hg. simpl. now rewrite Hm.
  - (* TP *)
    destruct Hfit as (Hs & Hn & Hn0 & Hd). exists [(0, 0, CArr a)]. unfold field_patches. rewrite Hs.
    split; [destruct (fm_dtype m); auto; now elim Hd |].
    intros g Hg. unfold read_field. rewrite Hs. cbv zeta. rewrite !Hg. simpl.
    replace (Z.eqb (alen a) 0) with false by (symmetry; apply Z.eqb_neq; lia). reflexivity.
  - (* TS *)
    destruct Hfit as (Hs & Hk & Hok).
    set (mk := fun (slot : nat) (x : scalar) => [(slot, 0, CScal x)]).
    assert (Hloc : slot_local mk) by (intros slot x q [Hq | []]; subst; reflexivity).
    exists (sp_flat mk mp (enum_from 0 L)). unfold field_patches. rewrite Hs. simpl.
    unfold keys_in in Hk. rewrite Hk. split; [apply sp_patches_fixed; lia |].
    intros g Hg. unfold read_field. rewrite Hs. simpl. unfold restrict.
    rewrite <- (flat_map_enum_snd (fun sp => match lookup sp mp with Some x => [(sp, x)] | None => [] end) L 0).
    assert (E : flat_map (fun p : nat * nat => if written (fm_dtype m) (g (fst p) 0)
                                               then [(snd p, cell_scalar (g (fst p) 0))] else [])
                         (enum_from 0 L) =
                flat_map (fun p : nat * nat => match lookup (snd p) mp with Some x => [(snd p, x)] | None => [] end)
                         (enum_from 0 L)).
    { apply flat_map_ext_in. intros [slot sp] Hin. simpl.
      assert (G0 : g slot 0 = match lookup sp mp with Some x => CScal x | None => fill_cell m end).
      { rewrite Hg, (plast_sp_flat mk mp Hloc L 0 slot sp 0 None Hin HL).
        destruct (lookup sp mp); simpl; [rewrite Nat.eqb_refl |]; reflexivity. }
      rewrite !G0.
      destruct (lookup sp mp) as [x |] eqn:El; simpl.
      - assert (Hx : not_fill (fm_dtype m) x).
        { apply lookup_in in El. rewrite Forall_forall in Hok. exact (Hok _ El). }
        unfold not_fill in Hx. now rewrite Hx.
      - now rewrite fill_not_written. }
    rewrite E. reflexivity.
  - (* TSP *)
    destruct Hfit as (Hs & Hk & Hok & Hn0).
    set (mk := fun (slot : nat) (x : arr) => [(slot, 0, CArr x)]).
    assert (Hloc : slot_local mk) by (intros slot x q [Hq | []]; subst; reflexivity).
    exists (sp_flat mk mp (enum_from 0 L)). unfold field_patches. rewrite Hs. simpl.
    unfold keys_in in Hk. rewrite Hk. split; [apply sp_patches_fixed; lia |].
    intros g Hg. unfold read_field. rewrite Hs. simpl. unfold restrict.
    rewrite <- (flat_map_enum_snd (fun sp => match lookup sp mp with Some x => [(sp, x)] | None => [] end) L 0).
    assert (E : flat_map (fun p : nat * nat => if written (fm_dtype m) (g (fst p) 0)
                                               then [(snd p, cell_arr (g (fst p) 0))] else [])
                         (enum_from 0 L) =
                flat_map (fun p : nat * nat => match lookup (snd p) mp with Some x => [(snd p, x)] | None => [] end)
                         (enum_from 0 L)).
    { apply flat_map_ext_in. intros [slot sp] Hin. simpl.
      assert (G0 : g slot 0 = match lookup sp mp with Some x => CArr x | None => fill_cell m end).
      { rewrite Hg, (plast_sp_flat mk mp Hloc L 0 slot sp 0 None Hin HL).
        destruct (lookup sp mp); simpl; [rewrite Nat.eqb_refl |]; reflexivity. }
      rewrite !G0.
      destruct (lookup sp mp) as [x |] eqn:El; simpl.
      - assert (Hx : alen x = n).
        { apply lookup_in in El. rewrite Forall_forall in Hok. exact (Hok _ El). }
        replace (Z.eqb (alen x) 0) with false by (symmetry; apply Z.eqb_neq; lia). reflexivity.
      - now rewrite fill_not_written. }
    rewrite E. reflexivity.
  - (* TM *)
    destruct Hfit as (Hs & Hl & Hok). destruct (four l Hl) as (a & b & c & d & ->).
    exists (mode_patches 0 [a; b; c; d]). unfold field_patches. rewrite Hs. split; auto.
    intros g Hg. unfold read_field. rewrite Hs. simpl.
    inversion Hok as [| ? ? Ha Hok1]; subst. inversion Hok1 as [| ? ? Hb Hok2]; subst.
    inversion Hok2 as [| ? ? Hc Hok3]; subst. inversion Hok3 as [| ? ? Hd _]; subst.
    unfold any_written, read_modes. simpl. rewrite !Hg. simpl.
    unfold not_fill in Ha, Hb, Hc, Hd. rewrite Ha, Hb, Hc, Hd. simpl. unfold opt_none. simpl. reflexivity.
  - (* TSM *)
    destruct Hfit as (Hs & Hk & Hok).
    exists (sp_flat mode_patches mp (enum_from 0 L)). unfold field_patches. rewrite Hs. simpl.
    unfold keys_in in Hk. rewrite Hk. split; [apply sp_patches_fixed; lia |].
    intros g Hg. unfold read_field. rewrite Hs. simpl. unfold restrict.
    rewrite <- (flat_map_enum_snd (fun sp => match lookup sp mp with Some x => [(sp, x)] | None => [] end) L 0).
    assert (E : flat_map (fun p : nat * nat => if any_written (fm_dtype m) (g (fst p))
                                               then [(snd p, read_modes true (fm_dtype m) (g (fst p)))] else [])
                         (enum_from 0 L) =
                flat_map (fun p : nat * nat => match lookup (snd p) mp with Some x => [(snd p, x)] | None => [] end)
                         (enum_from 0 L)).
    { apply flat_map_ext_in. intros [slot sp] Hin. simpl.
      assert (G : forall ti, g slot ti =
                  match lookup sp mp with
                  | Some x => match plast slot ti (mode_patches slot x) None with
                              | Some y => y | None => fill_cell m end
                  | None => fill_cell m end).
      { intro ti. rewrite Hg, (plast_sp_flat mode_patches mp mode_patches_local L 0 slot sp ti None Hin HL).
        destruct (lookup sp mp); reflexivity. }
      destruct (lookup sp mp) as [x |] eqn:El.
      - assert (Hx : List.length x = 4 /\ Forall (not_fill (fm_dtype m)) x).
        { apply lookup_in in El. rewrite Forall_forall in Hok. exact (Hok _ El). }
        destruct Hx as [Hl Hx]. destruct (four x Hl) as (a & b & c & d & ->).
        inversion Hx as [| ? ? Ha Hx1]; subst. inversion Hx1 as [| ? ? Hb Hx2]; subst.
        inversion Hx2 as [| ? ? Hc Hx3]; subst. inversion Hx3 as [| ? ? Hd _]; subst.
        unfold any_written, read_modes. simpl. rewrite !G. unfold mode_patches. simpl.
        rewrite !Nat.eqb_refl. simpl.
        unfold not_fill in Ha, Hb, Hc, Hd. rewrite Ha, Hb, Hc, Hd. simpl. reflexivity.
      - unfold any_written. simpl. rewrite !G, fill_not_written. reflexivity. }
    rewrite E. reflexivity.
Qed.

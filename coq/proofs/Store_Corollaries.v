(* Store_Corollaries — property-sized consequences of the refinement and merge theorems, and the
   witnesses that the as-found code falsifies them. *)
From Coq Require Import ZArith List Bool Arith Lia ZifyBool Permutation.
From AV Require Import model.Store_Model proofs.Store_Proofs proofs.Store_Refine
                       proofs.Store_MergeProofs proofs.Store_MergedReads.
Import ListNotations.

(* ------------------------------------------------------------------------------------------- *)
(* the specification read back as statements about plain lists                                  *)
(* ------------------------------------------------------------------------------------------- *)
Lemma spec_get s h i : s_h s = Some h ->
  spec_step s (Get i) = (s, match nth_error (s_items s h) i with Some (t, _) => OItem t | None => OErr EIndex end).
Proof. intros E. unfold spec_step. now rewrite E. Qed.

Lemma spec_len s h : s_h s = Some h -> spec_step s Len = (s, OLen (length (s_items s h))).
Proof. intros E. unfold spec_step. now rewrite E. Qed.

Lemma spec_iter s h k : s_h s = Some h -> spec_step s (Iter k) = (s, OItems (map fst (s_items s h)) None).
Proof. intros E. unfold spec_step. now rewrite E. Qed.

Lemma spec_evict s h k : s_h s = Some h -> spec_step s (Evict k) = (s, OUnit).
Proof. intros E. unfold spec_step. now rewrite E. Qed.

(* a successful addition appends: it returns the old length and afterwards the list is the old one
   followed by the new item *)
Lemma spec_add_appends s h t s' n : s_h s = Some h -> spec_step s (Add t) = (s', OIdx n) ->
  n = length (s_items s h) /\
  exists h', s_h s' = Some h' /\ s_items s' h' = s_items s h ++ [(t_tag t, t_fid t)].
Proof.
  intros E. unfold spec_step. rewrite E. destruct (sh_mode h) eqn:Md; [discriminate| |].
  all: destruct (acceptable (s_def s h) t); [|discriminate].
  all: unfold s_items; destruct (sh_loc h) as [items cap def used|p] eqn:El.
  1,3: destruct (cap <? t_size t); [discriminate|]; destruct (cap <? used + t_size t); [discriminate|];
       intros H; injection H as <- <-; split; auto; eexists; split; reflexivity.
  all: intros H; injection H as <- <-; cbn [s_h s_fs sh_loc].
  all: unfold slookup, supd; destruct (alookup path_eqb p (s_fs s)) as [st|] eqn:L; cbn [ss_items app length];
       (split; [reflexivity|]); exists h; (split; [reflexivity|]); rewrite El;
       now rewrite (alookup_aupd_eq path_eqb path_eqb_eq).
Qed.

(* anything else the specification answers to an addition leaves every list as it was *)
Lemma spec_add_rejected s t s' e : spec_step s (Add t) = (s', OErr e) -> s' = s.
Proof.
  unfold spec_step. destruct (s_h s) as [h|]; [|now intros H; injection H as <-].
  destruct (sh_mode h); [now intros H; injection H as <-| |].
  all: destruct (acceptable (s_def s h) t); [|now intros H; injection H as <-].
  all: destruct (sh_loc h) as [items cap def used|p];
       [destruct (cap <? t_size t); [|destruct (cap <? used + t_size t)]|]; intros H;
       try discriminate; now injection H as <-.
Qed.

(* lookup by identifier in a list without repeated identifiers *)
Lemma sfind_some_in id l t : sfind id l = Some t -> In (t, Some id) l.
Proof.
  induction l as [|[t' [i|]] r IH]; cbn; try discriminate.
  - destruct (i =? id)%Z eqn:E; [apply Z.eqb_eq in E; subst; intros H; injection H as <-; now left|].
    intros H. right. auto.
  - intros H. right. auto.
Qed.

Lemma sids_in t id l : In (t, Some id) l -> In id (sids l).
Proof.
  induction l as [|[t' [i|]] r IH]; cbn; [tauto| |].
  - intros [H|H]; [injection H as <- <-; now left|right; auto].
  - intros [H|H]; [discriminate|auto].
Qed.

Lemma sfind_in_nodup id l t : NoDup (sids l) -> In (t, Some id) l -> sfind id l = Some t.
Proof.
  induction l as [|[t' [i|]] r IH]; cbn; [tauto| |].
  - intros N [H|H].
    + injection H as <- <-. now rewrite Z.eqb_refl.
    + inversion N as [|? ? Ni N']; subst. destruct (i =? id)%Z eqn:E; [|auto].
      apply Z.eqb_eq in E; subst. exfalso. apply Ni. eapply sids_in; eauto.
  - intros N [H|H]; [discriminate|auto].
Qed.

Lemma sfind_none_iff id l : sfind id l = None <-> ~ In id (sids l).
Proof.
  induction l as [|[t' [i|]] r IH]; cbn; [tauto| |auto].
  destruct (i =? id)%Z eqn:E.
  - apply Z.eqb_eq in E; subst. split; [discriminate|tauto].
  - apply Z.eqb_neq in E. rewrite IH. tauto.
Qed.

Theorem spec_lookup_is_map id l : NoDup (sids l) ->
  (forall t, sfind id l = Some t <-> In (t, Some id) l) /\ (sfind id l = None <-> ~ In id (sids l)).
Proof.
  intros N. split; [|apply sfind_none_iff].
  intros t. split; [apply sfind_some_in|now apply sfind_in_nodup].
Qed.

(* ------------------------------------------------------------------------------------------- *)
(* C10: an addition that is answered with an error changes nothing, not even inside the machine  *)
(* ------------------------------------------------------------------------------------------- *)
Theorem add_error_noop w t w' e : step fixed_cfg w (Add t) = (w', OErr e) -> w' = w.
Proof.
  destruct w as [fs [h|]]; cbn [step w_h w_fs]; [|now intros H; injection H as <-].
  unfold add. cbn [fix_C10a fix_F6 fix_C07b fixed_cfg].
  destruct (h_mode h); [now intros H; injection H as <-| |].
  all: destruct (match store_sig fs h with Some s => true && negb (s =? t_sig t)%Z | None => false end);
       [now intros H; injection H as <-|].
  all: destruct (match h_indexable h with Some b => negb (Bool.eqb b (has_id t)) | None => false end);
       [now intros H; injection H as <-|].
  all: destruct (t_kind t); [|now intros H; injection H as <-].
  all: destruct (match h_src h with SrcMem cap => cap <? t_size t | _ => false end);
       [now intros H; injection H as <-|].
  all: destruct (match h_src h with SrcMem cap => cap <? h_used h + t_size t | _ => false end);
       [now intros H; injection H as <-|].
  all: destruct (insert fs h t true); discriminate.
Qed.

(* every kind of invalid trajectory is answered with an error *)
Theorem invalid_add_is_rejected w h t : Inv w -> w_h w = Some h -> h_mode h <> MRead ->
  acceptable (model_def (w_fs w) h) t = false ->
  exists e, step fixed_cfg w (Add t) = (w, OErr e) /\ coarse (OErr e) = OErr EReject.
Proof.
  intros I Hh Mr A. destruct w as [fs oh]; cbn in *; subst oh.
  pose proof (inv_handle _ I _ eq_refl) as Hi; cbn in Hi.
  destruct (add_eq fs h t Hi Mr) as [(_ & e & Ea & Ec)|(A' & _)]; [|congruence].
  exists e. cbn [step w_h w_fs]. now rewrite Ea.
Qed.

(* an in-memory store that is full refuses a valid addition, and keeps what it has *)
Theorem inmemory_refuses_when_full w h cap t : Inv w -> w_h w = Some h -> h_src h = SrcMem cap ->
  t_size t <= cap -> cap < h_used h + t_size t -> acceptable (model_def (w_fs w) h) t = true ->
  step fixed_cfg w (Add t) = (w, OErr EFull).
Proof.
  intros I Hh Es Hfit Hc A. destruct w as [fs oh]; cbn in *; subst oh.
  pose proof (inv_handle _ I _ eq_refl) as Hi; cbn in Hi.
  assert (Mr : h_mode h <> MRead).
  { unfold hinv in Hi. rewrite Es in Hi. destruct Hi as (-> & _). discriminate. }
  destruct (add_eq fs h t Hi Mr) as [(A' & _)|(_ & Ea)]; [congruence|].
  cbn [step w_h w_fs]. rewrite Ea. unfold is_full, too_large. rewrite Es.
  assert (E1 : (cap <? t_size t) = false) by (apply Nat.ltb_ge; lia).
  assert (E2 : (cap <? h_used h + t_size t) = true) by (apply Nat.ltb_lt; lia). now rewrite E1, E2.
Qed.

(* ------------------------------------------------------------------------------------------- *)
(* C08: every file of every reachable world is identified completely or not at all              *)
(* ------------------------------------------------------------------------------------------- *)
Lemma file_ok_uniform f : file_ok f ->
  (f_hasidx f = true /\ forall x, In x (f_items f) -> fid x <> None) \/
  (f_hasidx f = false /\ forall x, In x (f_items f) -> fid x = None).
Proof.
  unfold file_ok. intros H. rewrite forallb_forall in H.
  destruct (f_hasidx f); [left|right]; split; auto; intros x Hx; specialize (H x Hx);
    unfold item_ok in H; apply andb_true_iff in H as [_ H]; apply eqb_prop in H;
    destruct (fid x); cbn in H; congruence.
Qed.

Theorem identified_all_or_none w ops : Inv w -> hist_ok (abs w) ops ->
  forall p f, flookup p (w_fs (fst (run fixed_cfg w ops))) = Some (NFile f) ->
    (forall x, In x (f_items f) -> fid x <> None) \/ (forall x, In x (f_items f) -> fid x = None).
Proof.
  intros I H p f L. destruct (run_refines ops w I H) as (I' & _).
  pose proof (Inv_files_ok _ I' p f L) as Ok.
  destruct (file_ok_uniform f Ok) as [(_ & A)|(_ & A)]; auto.
Qed.

(* ------------------------------------------------------------------------------------------- *)
(* C10: refused merges can be retried                                                          *)
(* ------------------------------------------------------------------------------------------- *)
Theorem refused_merge_retryable fs0 outp ins fs' e ins2 outp2 :
  merge_run fixed_cfg fs0 outp ins None = (fs', OErr e) ->
  merge_run fixed_cfg fs' outp2 ins2 None = merge_run fixed_cfg fs0 outp2 ins2 None.
Proof. intros E. now rewrite (merge_refused_unchanged _ _ _ _ _ E). Qed.

(* ------------------------------------------------------------------------------------------- *)
(* witnesses: the behaviour as found                                                           *)
(* ------------------------------------------------------------------------------------------- *)
Definition P0 := mkPath 0 0 XNc.
Definition P1 := mkPath 0 1 XNc.
Definition Q0 := mkPath 1 0 XNc.
Definition OUT := mkPath 0 9 XStore.
Definition TJ (k : Z) (i : option Z) := mkTraj k i 0 TOk 1.
Definition TBad (k : Z) (i : option Z) := mkTraj k i 0 TMissingReq 1.
Definition TSig (k : Z) (i : option Z) := mkTraj k i 1 TOk 1.
Definition TBig (k : Z) (sz : nat) := mkTraj k None 0 TOk sz.

Definition only (f5 f6 f7 f8 c08a c09a c10a : bool) := mkCfg f5 f6 f7 f8 c08a c09a c10a true true.
Definition cfg_C07a := mkCfg true true true true true true true false true.
Definition cfg_C07b := mkCfg true true true true true true true true false.
Definition cfg_F5 := only false true true true true true true.
Definition cfg_F6 := only true false true true true true true.
Definition cfg_F7 := only true true false true true true true.
Definition cfg_F8 := only true true true false true true true.
Definition cfg_C08a := only true true true true false true true.
Definition cfg_C09a := only true true true true true false true.
Definition cfg_C10a := only true true true true true true false.

Definition hist_F5 : list op :=
  [Create P0 None; Add (TJ 0 None); Add (TJ 1 None); Add (TJ 2 None); Add (TJ 3 None); Close;
   OpenA P0 None; Add (TJ 4 None); Add (TJ 5 None); Evict []; Get 0; Get 4].

Lemma append_session_read_refuted :
  snd (run cfg_F5 empty_world hist_F5) <> snd (spec_run (abs empty_world) hist_F5) /\
  nth 10 (snd (run cfg_F5 empty_world hist_F5)) OUnit = OItem 2 /\
  nth 11 (snd (run cfg_F5 empty_world hist_F5)) OUnit = OErr EIndex /\
  snd (run fixed_cfg empty_world hist_F5) = snd (spec_run (abs empty_world) hist_F5).
Proof. vm_compute. repeat split; congruence. Qed.

Definition hist_F6 : list op :=
  [Create P0 None; Add (TJ 0 None); Add (TBad 1 None); Len; Add (TJ 2 None); Evict []; Get 1; Close; OpenR P0 None; Len].

Lemma rejected_add_refuted :
  map coarse (snd (run cfg_F6 empty_world hist_F6)) <> snd (spec_run (abs empty_world) hist_F6) /\
  nth 3 (snd (run cfg_F6 empty_world hist_F6)) OUnit = OLen 2 /\
  nth 4 (snd (run cfg_F6 empty_world hist_F6)) OUnit = OIdx 2 /\
  nth 6 (snd (run cfg_F6 empty_world hist_F6)) OUnit = OErr ECorrupt /\
  nth 9 (snd (run cfg_F6 empty_world hist_F6)) OUnit = OLen 3 /\
  map coarse (snd (run fixed_cfg empty_world hist_F6)) = snd (spec_run (abs empty_world) hist_F6).
Proof. vm_compute. repeat split; congruence. Qed.

Definition fs_two : fsys :=
  [(P0, NFile (mkNc [mkItem 0 (Some 7%Z) true 1] 0 true [(7%Z, 0%nat)]));
   (P1, NFile (mkNc [mkItem 1 None true 1; mkItem 2 None true 1] 0 false []))].

Lemma refused_merge_leaves_dir_refuted :
  exists fs', merge_run cfg_F7 fs_two OUT [P0; P1] None = (fs', OErr EIdMix) /\
              flookup OUT fs' = Some (NDir empty_dir) /\
              merge_run cfg_F7 fs' OUT [P0] None = (fs', OErr EExists) /\
              merge_run fixed_cfg fs_two OUT [P0; P1] None = (fs_two, OErr EIdMix) /\
              snd (merge_run fixed_cfg fs_two OUT [P0] None) = OUnit.
Proof. eexists. vm_compute. repeat split. Qed.

Definition hist_F8 : list op := [CreateMem 4; Add (TJ 0 (Some 5%Z)); GetFlight 5; Close].

Lemma inmemory_lookup_refuted :
  snd (run cfg_F8 empty_world hist_F8) = [OUnit; OIdx 0; OErr EKeyBase; OErr EKeyBase] /\
  snd (run fixed_cfg empty_world hist_F8) = [OUnit; OIdx 0; OItem 0; OUnit] /\
  snd (spec_run (abs empty_world) hist_F8) = [OUnit; OIdx 0; OItem 0; OUnit].
Proof. vm_compute. repeat split. Qed.

Definition hist_C08a : list op :=
  [Create P0 None; Add (TJ 0 None); Add (TJ 1 None); Close; OpenA P0 None; Add (TJ 2 (Some 9%Z)); Close].

Lemma append_mixed_ids_refuted :
  nth 5 (snd (run cfg_C08a empty_world hist_C08a)) OUnit = OIdx 2 /\
  nth 6 (snd (run cfg_C08a empty_world hist_C08a)) OUnit = OErr EAssert /\
  (exists f, flookup P0 (w_fs (fst (run cfg_C08a empty_world hist_C08a))) = Some (NFile f) /\
             map fid (f_items f) = [None; None; Some 9%Z]) /\
  nth 5 (snd (run fixed_cfg empty_world hist_C08a)) OUnit = OErr EIdUse.
Proof. vm_compute. repeat split. eexists. split; reflexivity. Qed.

Definition fs_dup : fsys :=
  [(P0, NFile (mkNc [mkItem 0 None true 1; mkItem 1 None true 1] 0 false []));
   (Q0, NFile (mkNc [mkItem 2 None true 1; mkItem 3 None true 1; mkItem 4 None true 1] 0 false []))].

Lemma merge_same_name_loses_data_refuted :
  snd (merge_run cfg_C09a fs_dup OUT [P0; Q0] None) = OUnit /\
  snd (run cfg_C09a (mkW (fst (merge_run cfg_C09a fs_dup OUT [P0; Q0] None)) None) [OpenR OUT None; Len; Iter []])
  = [OUnit; OLen 6; OItems [2; 3; 4; 2; 3; 4]%Z None] /\
  merge_run fixed_cfg fs_dup OUT [P0; Q0] None = (fs_dup, OErr EDupNames).
Proof. vm_compute. repeat split. Qed.

Definition hist_C10a : list op :=
  [Create P0 None; Add (TJ 0 None); Close; OpenA P0 None; Add (TSig 1 None); Len].

Lemma append_schema_check_skipped_refuted :
  nth 4 (snd (run cfg_C10a empty_world hist_C10a)) OUnit = OIdx 1 /\
  nth 4 (snd (run fixed_cfg empty_world hist_C10a)) OUnit = OErr ESchema /\
  nth 4 (snd (spec_run (abs empty_world) hist_C10a)) OUnit = OErr EReject.
Proof. vm_compute. repeat split. Qed.

(* ------------------------------------------------------------------------------------------- *)
(* non-vacuity                                                                                 *)
(* ------------------------------------------------------------------------------------------- *)
Definition hist_demo : list op :=
  [Create P0 None; Add (TJ 0 (Some 30%Z)); Add (TJ 1 (Some 10%Z)); GetFlight 10; Add (TBad 9 (Some 1%Z)); Add (TJ 2 (Some 20%Z));
   Evict []; Get 0; Iter [[]; [0]]; Close; OpenA P0 None; Add (TJ 3 (Some 5%Z)); Evict []; Get 1; GetFlight 30;
   Add (TJ 4 None); Len; Close; OpenR P0 None; Get 4; GetFlight 5; GetFlight 6; Iter []; Close;
   CreateMem 2; Add (TJ 7 (Some 1%Z)); Add (TJ 8 (Some 2%Z)); Add (TJ 9 (Some 3%Z)); GetFlight 2; Len; Close].

Fixpoint nodupb (l : list Z) : bool :=
  match l with [] => true | x :: r => negb (existsb (Z.eqb x) r) && nodupb r end.

Lemma nodupb_NoDup l : nodupb l = true -> NoDup l.
Proof.
  induction l as [|x r IH]; [constructor|]. cbn. intros H. apply andb_true_iff in H as [H1 H2].
  constructor; auto. intros Hin. apply negb_true_iff in H1.
  assert (existsb (Z.eqb x) r = true) by (apply existsb_exists; exists x; split; auto; apply Z.eqb_refl).
  congruence.
Qed.

(* the side condition of the refinement theorem, as a computable test (also run by the harness on
   every generated history) *)
Definition sop_okb (s : sworld) (o : op) : bool :=
  match o, s_h s with
  | GetFlight _, Some h => nodupb (sids (s_items s h))
  | _, _ => true
  end.
Definition no_mergeb (o : op) : bool :=
  match o with Merge _ _ _ | Inject _ _ | GetA _ _ => false | _ => true end.
Fixpoint hist_okb (s : sworld) (ops : list op) : bool :=
  match ops with
  | [] => true
  | o :: r => no_mergeb o && sop_okb s o && hist_okb (fst (spec_step s o)) r
  end.

Lemma hist_okb_sound ops : forall s, hist_okb s ops = true -> hist_ok s ops.
Proof.
  induction ops as [|o r IH]; intros s; cbn [hist_okb hist_ok]; auto.
  intros H. apply andb_true_iff in H as [H H3]. apply andb_true_iff in H as [H1 H2].
  split; [|split; [|now apply IH]].
  - destruct o; cbn in *; auto; discriminate.
  - unfold sop_ok, sop_okb in *. destruct o; auto. destruct (s_h s); auto. now apply nodupb_NoDup.
Qed.

Lemma hist_demo_ok : hist_ok (abs empty_world) hist_demo.
Proof. apply hist_okb_sound. vm_compute. reflexivity. Qed.

Lemma hist_demo_outputs :
  snd (spec_run (abs empty_world) hist_demo) =
  [OUnit; OIdx 0; OIdx 1; OItem 1; OErr EReject; OIdx 2; OUnit; OItem 0; OItems [0; 1; 2]%Z None; OUnit;
   OUnit; OIdx 3; OUnit; OItem 1; OItem 0; OErr EReject; OLen 4; OUnit; OUnit; OErr EIndex; OItem 3; ONone;
   OItems [0; 1; 2; 3]%Z None; OUnit;
   OUnit; OIdx 0; OIdx 1; OErr EFull; OItem 8; OLen 2; OUnit].
Proof. vm_compute. reflexivity. Qed.

Definition fs_three : fsys :=
  [(P0, NFile (mkNc [mkItem 0 (Some 30%Z) true 1] 0 true (mk_table [mkItem 0 (Some 30%Z) true 1])));
   (P1, NFile (mkNc [mkItem 1 (Some 10%Z) true 1; mkItem 2 (Some 50%Z) true 1] 0 true
                    (mk_table [mkItem 1 (Some 10%Z) true 1; mkItem 2 (Some 50%Z) true 1])))].

Lemma merge_demo :
  snd (merge_run fixed_cfg fs_three OUT [P0; P1] None) = OUnit /\
  snd (run fixed_cfg (mkW (fst (merge_run fixed_cfg fs_three OUT [P0; P1] None)) None)
           [OpenR OUT None; Len; Get 0; Get 1; Get 2; Get 3; GetFlight 50; GetFlight 30; GetFlight 7; Iter []])
  = [OUnit; OLen 3; OItem 0; OItem 1; OItem 2; OErr EIndex; OItem 2; OItem 0; ONone; OItems [0; 1; 2]%Z None].
Proof. vm_compute. repeat split. Qed.

Lemma crash_demo :
  map (fun k => snd (merge_run fixed_cfg fs_three OUT [P0; P1] (Some k))) (seq 0 12)
  = [OErr ECrash; OErr ECrash; OErr ECrash; OErr ECrash; OErr ECrash; OErr ECrash; OErr ECrash; OErr ECrash;
     OErr ECrash; OErr ECrash; OUnit; OUnit].
Proof. vm_compute. reflexivity. Qed.

(* ------------------------------------------------------------------------------------------- *)
(* refusals of the cache insertion (a value larger than the whole cache; an in-memory store that   *)
(* would have to evict) with trajectories of different sizes                                    *)
(* ------------------------------------------------------------------------------------------- *)
Definition hist_sizes : list op :=
  [CreateMem 10; Add (TBig 0 4); Add (TBig 1 4); Add (TBig 2 4); Add (TBig 3 11); Add (TBig 4 2); Len; Get 2; Get 3; Close;
   Create P0 (Some 5); Add (TBig 5 2); Add (TBig 6 9); Add (TBig 7 3); Len; Evict [1]; Get 0; Get 2; Close;
   OpenR P0 None; Len; Iter []; Close].

Lemma hist_sizes_outputs :
  hist_ok (abs empty_world) hist_sizes /\
  snd (run fixed_cfg empty_world hist_sizes) =
  [OUnit; OIdx 0; OIdx 1; OErr EFull; OErr ETooLarge; OIdx 2; OLen 3; OItem 4; OErr EIndex; OUnit;
   OUnit; OIdx 0; OIdx 1; OIdx 2; OLen 3; OUnit; OItem 5; OItem 7; OUnit;
   OUnit; OLen 3; OItems [5; 6; 7]%Z None; OUnit] /\
  snd (spec_run (abs empty_world) hist_sizes) = snd (run fixed_cfg empty_world hist_sizes).
Proof. split; [apply hist_okb_sound; vm_compute; reflexivity|]. vm_compute. split; reflexivity. Qed.

(* ------------------------------------------------------------------------------------------- *)
(* iterators: independent cursors                                                              *)
(* ------------------------------------------------------------------------------------------- *)
Definition cursor (s : sworld) (k : nat) : option nat :=
  match s_h s with Some h => @alookup nat nat Nat.eqb k (sh_iters h) | None => None end.

Lemma spec_iter_next s h k cur : s_h s = Some h -> @alookup nat nat Nat.eqb k (sh_iters h) = Some cur ->
  snd (spec_step s (IterNext k)) = match nth_error (s_items s h) cur with Some (t, _) => OItem t | None => OStop end /\
  cursor (fst (spec_step s (IterNext k))) k
  = Some (match nth_error (s_items s h) cur with Some _ => S cur | None => cur end).
Proof.
  intros E L. unfold spec_step. rewrite E, L. unfold cursor.
  destruct (nth_error (s_items s h) cur) as [[t f]|]; cbn; [|now rewrite E].
  split; auto. apply (alookup_aupd_eq Nat.eqb nat_eqb_eq).
Qed.

(* advancing (or restarting) one iterator leaves the cursor of every other iterator, and the list, alone *)
Theorem iterators_independent s h k k' : s_h s = Some h -> k <> k' ->
  (cursor (fst (spec_step s (IterNext k))) k' = cursor s k' /\
   cursor (fst (spec_step s (IterNew k))) k' = cursor s k') /\
  (forall h1, s_h (fst (spec_step s (IterNext k))) = Some h1 -> s_items (fst (spec_step s (IterNext k))) h1 = s_items s h).
Proof.
  intros E N.
  assert (A : forall v, @alookup nat nat Nat.eqb k' (aupd Nat.eqb k v (sh_iters h)) = alookup Nat.eqb k' (sh_iters h))
    by (intros v; now apply (alookup_aupd_neq Nat.eqb nat_eqb_eq)).
  split; [split|].
  - unfold spec_step, cursor. rewrite E.
    destruct (alookup Nat.eqb k (sh_iters h)) as [cur|]; [|cbn; now rewrite E].
    destruct (nth_error (s_items s h) cur) as [[t f]|]; cbn; [apply A|now rewrite E].
  - unfold spec_step, cursor. rewrite E. cbn. apply A.
  - unfold spec_step. rewrite E.
    destruct (alookup Nat.eqb k (sh_iters h)) as [cur|]; [|cbn; intros h1 H1; rewrite E in H1; now injection H1 as <-].
    destruct (nth_error (s_items s h) cur) as [[t f]|]; cbn; intros h1 H1.
    + injection H1 as <-. reflexivity.
    + rewrite E in H1. now injection H1 as <-.
Qed.

(* zip(store, store), a nested loop, a restart half-way, an addition under way *)
Definition hist_iters : list op :=
  [Create P0 None; Add (TJ 0 None); Add (TJ 1 None); Add (TJ 2 None);
   IterNew 0; IterNew 1; IterNext 0; IterNext 1; IterNext 0; IterNext 1; IterNext 0; IterNext 1; IterNext 0; IterNext 1;
   IterNew 0; IterNext 0; IterNew 1; IterNext 1; IterNext 1; IterNext 1; IterNext 1; IterNext 0;
   IterNew 2; IterNext 2; IterNew 2; IterNext 2; Add (TJ 3 None); Evict []; IterNext 0; IterNext 0; IterNext 0; Close].

Lemma hist_iters_outputs :
  hist_ok (abs empty_world) hist_iters /\
  snd (run fixed_cfg empty_world hist_iters) =
  [OUnit; OIdx 0; OIdx 1; OIdx 2;
   OUnit; OUnit; OItem 0; OItem 0; OItem 1; OItem 1; OItem 2; OItem 2; OStop; OStop;
   OUnit; OItem 0; OUnit; OItem 0; OItem 1; OItem 2; OStop; OItem 1;
   OUnit; OItem 0; OUnit; OItem 0; OIdx 3; OUnit; OItem 2; OItem 3; OStop; OUnit] /\
  snd (spec_run (abs empty_world) hist_iters) = snd (run fixed_cfg empty_world hist_iters).
Proof. split; [apply hist_okb_sound; vm_compute; reflexivity|]. vm_compute. split; reflexivity. Qed.

(* ------------------------------------------------------------------------------------------- *)
(* FC07a / FC07b: a cache smaller than one trajectory                                           *)
(* ------------------------------------------------------------------------------------------- *)
(* a store written with an unbounded cache (sizes 2, 9, 3), reopened with a cache of 5: as found, the item of size 9
   cannot be read ("value too large") and iteration stops there; repaired, every read is the list's *)
Definition hist_C07a : list op :=
  [Create P0 None; Add (TBig 5 2); Add (TBig 6 9); Add (TBig 7 3); Close;
   OpenR P0 (Some 5); Get 0; Get 1; Get 2; Iter []; Close].

Lemma oversized_read_refuted :
  snd (run cfg_C07a empty_world hist_C07a)
  = [OUnit; OIdx 0; OIdx 1; OIdx 2; OUnit; OUnit; OItem 5; OErr ETooLarge; OItem 7; OItems [5]%Z (Some ETooLarge); OUnit] /\
  snd (run fixed_cfg empty_world hist_C07a)
  = [OUnit; OIdx 0; OIdx 1; OIdx 2; OUnit; OUnit; OItem 5; OItem 6; OItem 7; OItems [5; 6; 7]%Z None; OUnit] /\
  snd (spec_run (abs empty_world) hist_C07a) = snd (run fixed_cfg empty_world hist_C07a).
Proof. vm_compute. repeat split. Qed.

(* a file-backed store with a cache of 5: as found the trajectory of size 9 is refused although the store keeps its
   trajectories in the file; repaired it is written (and simply not cached) *)
Definition hist_C07b : list op :=
  [Create P0 (Some 5); Add (TBig 5 2); Add (TBig 6 9); Add (TBig 7 3); Len; Get 1; Close; OpenR P0 None; Iter []; Close].

Lemma oversized_add_refuted :
  snd (run cfg_C07b empty_world hist_C07b)
  = [OUnit; OIdx 0; OErr ETooLarge; OIdx 1; OLen 2; OItem 7; OUnit; OUnit; OItems [5; 7]%Z None; OUnit] /\
  snd (run fixed_cfg empty_world hist_C07b)
  = [OUnit; OIdx 0; OIdx 1; OIdx 2; OLen 3; OItem 6; OUnit; OUnit; OItems [5; 6; 7]%Z None; OUnit] /\
  snd (spec_run (abs empty_world) hist_C07b) = snd (run fixed_cfg empty_world hist_C07b).
Proof. vm_compute. repeat split. Qed.

(* ------------------------------------------------------------------------------------------- *)
(* associated families: an example through Inject / Merge / OpenR / GetA                         *)
(* ------------------------------------------------------------------------------------------- *)
Definition A0 := mkPath 1 0 XNc.
Definition A1 := mkPath 1 1 XNc.
Definition OUTA := mkPath 0 8 XStore.
(* base stores [10;11;12] and [13;14]; the associated records 110..114 of the same flights, split [2;3] *)
Definition hist_assoc : list op :=
  [Create P0 None; Add (TJ 10 None); Add (TJ 11 None); Add (TJ 12 None); Close;
   Create P1 None; Add (TJ 13 None); Add (TJ 14 None); Close;
   Inject A0 [110; 111]%Z; Inject A1 [112; 113; 114]%Z;
   Merge OUT [P0; P1] None; Merge OUTA [A0; A1] None;
   OpenR OUT (Some 1); GetA 0 [OUTA]; GetA 1 [OUTA]; GetA 2 [OUTA]; GetA 3 [OUTA]; GetA 4 [OUTA]; GetA 5 [OUTA]; Len; Close].

Lemma assoc_demo :
  snd (run fixed_cfg empty_world hist_assoc) =
  [OUnit; OIdx 0; OIdx 1; OIdx 2; OUnit; OUnit; OIdx 0; OIdx 1; OUnit; OUnit; OUnit; OUnit; OUnit;
   OUnit; OItemA 10 [110%Z]; OItemA 11 [111%Z]; OItemA 12 [112%Z]; OItemA 13 [113%Z]; OItemA 14 [114%Z]; OErr EIndex;
   OLen 5; OUnit].
Proof. vm_compute. reflexivity. Qed.


(* C19 — the stop rule of the constant-final-mass driver must watch the FREE end of the profile.

   The model's backward driver ([loop_cf]) stops when the INITIAL mass moved by less than 0.01 % in the last pass.
   [loop_cf_end] is the same loop watching the FINAL mass instead — which every backward pass re-installs as prescribed
   ([update_backward_last]).  Its measured change is therefore exactly 0 in every pass: the loop returns after its
   first pass whatever [n_iter] is and however far the profile still moves — the formal content of seeded/C19-11. *)
From Coq Require Import Reals List Bool Arith Lra.
From AV Require Import lib.Num model.C19_Model proofs.C19_Proofs.
Import ListNotations.
Local Open Scope R_scope.

Section StopRule.
  Variable sgr_of : list R -> list R.
  Variable ds : list R.
  Variable bwrev : bool.

  Fixpoint loop_cf_end (mass : list R) (old_final : R) (fuel : nat) : list R :=
    match fuel with
    | O => mass
    | S k =>
        let mass' := @update_backward RNum bwrev mass (sgr_of mass) ds in
        if @ltb RNum (@pct_change RNum (last mass' 0) old_final) (@c_001 RNum) then mass'
        else loop_cf_end mass' (last mass' 0) k
    end.

  Lemma pct_change_same (x : R) : @pct_change RNum x x = 0.
  Proof. unfold pct_change. rnum. replace (x - x) with 0 by lra. rewrite Rabs_R0. unfold Rdiv. lra. Qed.

  Lemma c_001_pos : 0 < @c_001 RNum.
  Proof. unfold c_001. rnum. lra. Qed.

  (* watching the prescribed end: one pass, for every fuel >= 1 and every profile *)
  Lemma loop_cf_end_stops_at_once : forall k mass,
    loop_cf_end mass (last mass 0) (S k) = @update_backward RNum bwrev mass (sgr_of mass) ds.
  Proof.
    intros k mass. cbn [loop_cf_end]. rewrite update_backward_last, pct_change_same.
    replace (@ltb RNum 0 (@c_001 RNum)) with true; [reflexivity|].
    symmetry. change (@ltb RNum) with Rltb. apply Rltb_true. exact c_001_pos.
  Qed.

  Lemma loop_cf_end_ignores_n_iter : forall k1 k2 mass,
    loop_cf_end mass (last mass 0) (S k1) = loop_cf_end mass (last mass 0) (S k2).
  Proof. intros. now rewrite !loop_cf_end_stops_at_once. Qed.
End StopRule.

(* ... although the profile may still move a lot: a two-point flight whose specific range depends on the mass
   (sgr = mass / 10 at both points, one 1000 m segment, final mass 100).  Pass 1 gives the profile [200; 100], pass 2
   [175; 100]: the free end moves by 12.5 %, far above 0.01 %.  The end-watching loop, started after pass 1 with nine
   passes allowed, returns pass 2 — exactly what it returns with one pass allowed. *)
Definition sgr_demo (m : list R) : list R := map (fun x => x / 10) m.
Definition p1_demo : list R := @update_backward RNum false [100; 100] (sgr_demo [100; 100]) [1000].
Definition p2_demo : list R := @update_backward RNum false p1_demo (sgr_demo p1_demo) [1000].

Lemma burn_rate_ge1 (x : R) : 1 <= x -> @burn_rate RNum x = 1 / x.
Proof.
  intros H. unfold burn_rate. change (@ltb RNum) with Rltb. change (@one RNum) with 1. change (@zero RNum) with 0.
  replace (Rltb x 1) with false; [reflexivity|]. symmetry. apply Rltb_false. exact H.
Qed.

Lemma p1_demo_val : p1_demo = [200; 100].
Proof.
  unfold p1_demo, update_backward, sgr_demo. cbn [map last rev app cumtrap].
  replace (100 / 10) with 10 by lra. rewrite burn_rate_ge1 by lra.
  cbn [map rev app]. unfold c_two. rnum. repeat f_equal; lra.
Qed.

Lemma p2_demo_val : p2_demo = [175; 100].
Proof.
  unfold p2_demo. rewrite p1_demo_val. unfold update_backward, sgr_demo. cbn [map last rev app cumtrap].
  replace (200 / 10) with 20 by lra. replace (100 / 10) with 10 by lra. rewrite !burn_rate_ge1 by lra.
  cbn [map rev app]. unfold c_two. rnum. repeat f_equal; lra.
Qed.

Lemma stop_rule_demo :
  p1_demo = [200; 100] /\ p2_demo = [175; 100] /\
  loop_cf_end sgr_demo [1000] false p1_demo (last p1_demo 0) 9 = p2_demo /\
  loop_cf_end sgr_demo [1000] false p1_demo (last p1_demo 0) 1 = p2_demo /\
  0.01 < @pct_change RNum (hd 0 p2_demo) (hd 0 p1_demo).
Proof.
  split; [exact p1_demo_val|]. split; [exact p2_demo_val|].
  split; [apply loop_cf_end_stops_at_once|]. split; [apply loop_cf_end_stops_at_once|].
  rewrite p1_demo_val, p2_demo_val. cbn [hd]. unfold pct_change, c_hundred. rnum.
  assert (H : Rabs (175 - 200) = 25) by (replace (175 - 200) with (- (25)) by lra; rewrite Rabs_Ropp; apply Rabs_pos_eq; lra).
  rewrite H. lra.
Qed.

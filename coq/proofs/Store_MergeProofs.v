(* Store_MergeProofs — TrajectoryStore.merge, call by call (repaired order):
   * a merge that is refused leaves the file system exactly as it was;
   * a merge interrupted in front of ANY file-system call leaves every input store intact in exactly one
     place (its own path, or the output directory) and never leaves a metadata file that promises more
     than the directory holds;
   * a merge that completes produces the directory whose parts are the inputs in the order given. *)
From Coq Require Import ZArith List Bool Arith Lia ZifyBool Permutation.
From AV Require Import model.Store_Model proofs.Store_Proofs.
Import ListNotations.

(* ------------------------------------------------------------------------------------------- *)
(* running a prefix of the plan                                                                *)
(* ------------------------------------------------------------------------------------------- *)
Inductive phase_result :=
  | Done (fs : fsys) (budget : option nat)
  | Stopped (fs : fsys) (r : out).

Section Run.
  Variables (c : cfg) (fs0 : fsys) (outp : path) (ins : list path).

  Fixpoint run_phase (steps : list mstep) (fs : fsys) (budget : option nat) : phase_result :=
    match steps with
    | [] => Done fs budget
    | s :: r =>
        let go b := match exec_step c fs0 outp ins fs s with
                    | inl fs1 => run_phase r fs1 b
                    | inr e => Stopped fs (OErr e)
                    end in
        if is_call s then
          match budget with
          | Some 0 => Stopped fs (OErr ECrash)
          | Some (S b) => go (Some b)
          | None => go None
          end
        else go budget
    end.

  Lemma run_steps_app A B : forall fs b,
    run_steps c fs0 outp ins (A ++ B) fs b =
    match run_phase A fs b with
    | Done fs1 b1 => run_steps c fs0 outp ins B fs1 b1
    | Stopped fs1 r => (fs1, r)
    end.
  Proof.
    induction A as [|s A IH]; intros fs b; cbn [app run_steps run_phase]; auto.
    destruct (is_call s).
    - destruct b as [[|b]|]; auto; destruct (exec_step c fs0 outp ins fs s); auto.
    - destruct (exec_step c fs0 outp ins fs s); auto.
  Qed.

  Lemma run_phase_app A B : forall fs b,
    run_phase (A ++ B) fs b =
    match run_phase A fs b with
    | Done fs1 b1 => run_phase B fs1 b1
    | Stopped fs1 r => Stopped fs1 r
    end.
  Proof.
    induction A as [|s A IH]; intros fs b; cbn [app run_phase]; auto.
    destruct (is_call s).
    - destruct b as [[|b]|]; auto; destruct (exec_step c fs0 outp ins fs s); auto.
    - destruct (exec_step c fs0 outp ins fs s); auto.
  Qed.

  Lemma run_steps_phase steps fs b :
    run_steps c fs0 outp ins steps fs b =
    match run_phase steps fs b with Done fs1 _ => (fs1, OUnit) | Stopped fs1 r => (fs1, r) end.
  Proof.
    rewrite <- (app_nil_r steps) at 1. rewrite run_steps_app. destruct (run_phase steps fs b); reflexivity.
  Qed.
End Run.

(* ------------------------------------------------------------------------------------------- *)
(* a file system predicate carried through the plan                                            *)
(* ------------------------------------------------------------------------------------------- *)
Definition member (fs : fsys) (outp : path) (nm : nat) : option ncfile :=
  match flookup outp fs with Some (NDir d) => mlookup nm (d_members d) | _ => None end.

Lemma nodup_nat_NoDup l : nodup_nat l = true -> NoDup l.
Proof.
  induction l as [|x r IH]; cbn; [constructor|].
  intros H. apply andb_true_iff in H as [H1 H2]. constructor; auto.
  intros Hin. apply negb_true_iff in H1.
  assert (existsb (Nat.eqb x) r = true) by (apply existsb_exists; exists x; split; auto; apply Nat.eqb_refl).
  congruence.
Qed.

Section Merge.
  Variables (fs0 : fsys) (outp : path) (ins : list path).
  Let n := length ins.

  (* what the argument check of the repaired code establishes *)
  Hypothesis out_ext : pext outp = XStore.
  Hypothesis out_free : flookup outp fs0 = None.
  Hypothesis ins_nc : forall p, In p ins -> pext p = XNc.
  Hypothesis ins_files : forall p, In p ins -> exists f, flookup p fs0 = Some (NFile f).
  Hypothesis bases_distinct : NoDup (map pbase ins).

  Lemma out_not_in p : In p ins -> p <> outp.
  Proof. intros H E. subst. apply ins_nc in H. congruence. Qed.

  Lemma base_inj i j p q : nth_error ins i = Some p -> nth_error ins j = Some q -> pbase p = pbase q -> i = j.
  Proof.
    intros Hi Hj E.
    assert (Li : i < length (map pbase ins)) by (rewrite map_length; apply nth_error_Some; congruence).
    apply (proj1 (NoDup_nth_error _) bases_distinct i j Li).
    rewrite !nth_error_map, Hi, Hj. cbn. now rewrite E.
  Qed.

  Definition input_file (p : path) : ncfile :=
    match in_file fs0 p with Some f => f | None => mkNc [] 0 false [] end.

  Lemma input_file_lookup p : In p ins -> flookup p fs0 = Some (NFile (input_file p)).
  Proof. intros H. destruct (ins_files p H) as (f & L). unfold input_file, in_file. now rewrite L. Qed.

  (* the first k inputs have been moved into the output directory, the others are untouched *)
  Definition Moved (k : nat) (fs : fsys) : Prop :=
    (exists d, flookup outp fs = Some (NDir d)) /\
    (forall q, q <> outp -> ~ In q ins -> flookup q fs = flookup q fs0) /\
    (forall j p, nth_error ins j = Some p ->
       (j < k -> flookup p fs = None /\ member fs outp (pbase p) = Some (input_file p)) /\
       (k <= j -> flookup p fs = Some (NFile (input_file p)) /\ member fs outp (pbase p) = None)).

  Definition dir_of (fs : fsys) : mdir :=
    match flookup outp fs with Some (NDir d) => d | _ => empty_dir end.

  Lemma Moved_0 : Moved 0 (fupd outp (NDir empty_dir) fs0).
  Proof.
    split; [|split].
    - eexists. apply flookup_fupd_eq.
    - intros q N _. apply flookup_fupd_neq. intros E; now apply N.
    - intros j p Hn. split; [lia|]. intros _.
      assert (Hin : In p ins) by (eapply nth_error_In; eauto).
      split.
      + rewrite flookup_fupd_neq by (intros E; symmetry in E; revert E; now apply out_not_in).
        now apply input_file_lookup.
      + unfold member. now rewrite flookup_fupd_eq.
  Qed.

  Lemma rename_step c k fs p : Moved k fs -> nth_error ins k = Some p ->
    exists fs1, exec_step c fs0 outp ins fs (SRename k) = inl fs1 /\ Moved (S k) fs1 /\
                d_index (dir_of fs1) = d_index (dir_of fs) /\ d_meta (dir_of fs1) = d_meta (dir_of fs).
  Proof.
    intros (Hd & Ho & Hj) Hk. destruct Hd as (d & Ld).
    destruct (Hj k p Hk) as (_ & Hge). destruct (Hge (le_n k)) as (Lp & Mp).
    assert (Hin : In p ins) by (eapply nth_error_In; eauto).
    assert (Np : p <> outp) by now apply out_not_in.
    cbn [exec_step]. rewrite Hk, Lp. unfold with_dir. rewrite Ld.
    eexists. split; [reflexivity|]. split; [|split].
    - split; [|split].
      + eexists. rewrite flookup_fremove_neq by auto. apply flookup_fupd_eq.
      + intros q Nq Nin. rewrite flookup_fremove_neq by (intros E; subst; contradiction).
        rewrite flookup_fupd_neq by auto. now apply Ho.
      + intros j q Hq. assert (Hinq : In q ins) by (eapply nth_error_In; eauto).
        assert (Nq : q <> outp) by now apply out_not_in.
        destruct (Hj j q Hq) as (Hlt & Hge').
        destruct (Nat.eq_dec j k) as [->|Njk].
        * rewrite Hk in Hq. injection Hq as <-. split; [|lia]. intros _. split.
          -- apply flookup_fremove_eq.
          -- unfold member. rewrite flookup_fremove_neq by auto. rewrite flookup_fupd_eq. cbn.
             apply mlookup_mupd_eq.
        * assert (Nb : pbase p <> pbase q).
          { intros E. apply Njk. symmetry. eapply base_inj; eauto. }
          assert (Npq : p <> q) by (intros E; subst; contradiction).
          assert (Mq : member (fremove p (fupd outp (NDir (mkDir (mupd (pbase p) (input_file p) (d_members d))
                                                                  (d_index d) (d_meta d))) fs)) outp (pbase q)
                       = member fs outp (pbase q)).
          { unfold member. rewrite flookup_fremove_neq by auto. rewrite flookup_fupd_eq, Ld. cbn.
            now apply mlookup_mupd_neq. }
          split; intros Hc.
          -- destruct Hlt as (A & B); [lia|]. split.
             ++ rewrite flookup_fremove_neq by auto. rewrite flookup_fupd_neq by auto. exact A.
             ++ now rewrite Mq.
          -- destruct Hge' as (A & B); [lia|]. split.
             ++ rewrite flookup_fremove_neq by auto. rewrite flookup_fupd_neq by auto. exact A.
             ++ now rewrite Mq.
    - unfold dir_of. rewrite flookup_fremove_neq by auto. now rewrite flookup_fupd_eq, Ld.
    - unfold dir_of. rewrite flookup_fremove_neq by auto. now rewrite flookup_fupd_eq, Ld.
  Qed.

  (* a step that only rewrites the index / metadata part of the output directory *)
  Lemma Moved_dir_update k fs d' :
    Moved k fs -> d_members d' = d_members (dir_of fs) -> Moved k (fupd outp (NDir d') fs).
  Proof.
    intros (Hd & Ho & Hj) Em. destruct Hd as (d & Ld).
    assert (Ed : dir_of fs = d) by (unfold dir_of; now rewrite Ld). rewrite Ed in Em.
    split; [|split].
    - eexists. apply flookup_fupd_eq.
    - intros q N Nin. rewrite flookup_fupd_neq by auto. now apply Ho.
    - intros j p Hp. assert (Hin : In p ins) by (eapply nth_error_In; eauto).
      assert (Np : outp <> p) by (intros E; symmetry in E; revert E; now apply out_not_in).
      destruct (Hj j p Hp) as (A & B).
      assert (Mq : member (fupd outp (NDir d') fs) outp (pbase p) = member fs outp (pbase p)).
      { unfold member. now rewrite flookup_fupd_eq, Ld, Em. }
      rewrite Mq, flookup_fupd_neq by auto. auto.
  Qed.

  Lemma dir_of_fupd fs d' : dir_of (fupd outp (NDir d') fs) = d'.
  Proof. unfold dir_of. now rewrite flookup_fupd_eq. Qed.

  Lemma Moved_lookup k fs : Moved k fs -> flookup outp fs = Some (NDir (dir_of fs)).
  Proof. intros ((d & Ld) & _). unfold dir_of. now rewrite Ld. Qed.

  (* the members of the directory once everything has been moved, in input order *)
  Lemma members_all fs : Moved n fs -> members_of (dir_of fs) (map pbase ins) = Some (map input_file ins).
  Proof.
    intros M. pose proof (Moved_lookup _ _ M) as Ld. destruct M as (_ & _ & Hj).
    assert (G : forall l, (forall p, In p l -> In p ins) ->
                          members_of (dir_of fs) (map pbase l) = Some (map input_file l)).
    { induction l as [|p l IH]; intros Hsub; cbn; auto.
      assert (Hin : In p ins) by (apply Hsub; now left).
      destruct (In_nth_error _ _ Hin) as (j & Hjn).
      destruct (Hj j p Hjn) as (A & _).
      assert (Hlt : j < n) by (apply nth_error_Some; congruence).
      destruct (A Hlt) as (_ & Mm). unfold member in Mm. rewrite Ld in Mm. rewrite Mm.
      rewrite IH; auto. intros q Hq. apply Hsub. now right. }
    apply G. auto.
  Qed.

  Lemma listed_all fs : Moved n fs ->
    listed_members (dir_of fs) (map (fun p => (pbase p, length (f_items (input_file p)))) ins)
    = Some (map input_file ins).
  Proof.
    intros M. pose proof (Moved_lookup _ _ M) as Ld. destruct M as (_ & _ & Hj).
    assert (G : forall l, (forall p, In p l -> In p ins) ->
                listed_members (dir_of fs) (map (fun p => (pbase p, length (f_items (input_file p)))) l)
                = Some (map input_file l)).
    { induction l as [|p l IH]; intros Hsub; cbn; auto.
      assert (Hin : In p ins) by (apply Hsub; now left).
      destruct (In_nth_error _ _ Hin) as (j & Hjn).
      destruct (Hj j p Hjn) as (A & _).
      assert (Hlt : j < n) by (apply nth_error_Some; congruence).
      destruct (A Hlt) as (_ & Mm). unfold member in Mm. rewrite Ld in Mm. rewrite Mm.
      rewrite IH; auto. intros q Hq. apply Hsub. now right. }
    apply G. auto.
  Qed.
End Merge.

(* ------------------------------------------------------------------------------------------- *)
(* executing the plan of the repaired merge                                                    *)
(* ------------------------------------------------------------------------------------------- *)
Definition readonly (s : mstep) : bool :=
  match s with SCheckArgs | SOpen _ | SIdCheck => true | _ => false end.

Lemma exec_readonly c fs0 outp ins fs s fs1 :
  readonly s = true -> exec_step c fs0 outp ins fs s = inl fs1 -> fs1 = fs.
Proof.
  destruct s; cbn; try discriminate; intros _.
  - destruct (check_args c fs outp ins); congruence.
  - destruct (nth_error ins j); [|discriminate]. destruct (flookup p fs) as [[f|d]|]; try discriminate.
    destruct ins as [|p0 ?]; [congruence|]. destruct (in_file fs0 p0); [|congruence].
    destruct (Z.eqb _ _); congruence.
  - destruct (Bool.eqb _ _); congruence.
Qed.

Lemma ro_phase c fs0 outp ins steps : (forall s, In s steps -> readonly s = true) -> forall fs b,
  match run_phase c fs0 outp ins steps fs b with
  | Done fs1 b1 => fs1 = fs /\ (b = None -> b1 = None) /\
                   forall s, In s steps -> exec_step c fs0 outp ins fs s = inl fs
  | Stopped fs1 r => fs1 = fs /\ exists e, r = OErr e
  end.
Proof.
  induction steps as [|s r IH]; intros Hro fs b; cbn [run_phase].
  - repeat split; auto. intros s [].
  - assert (Hs : readonly s = true) by (apply Hro; now left).
    assert (Hr : forall s', In s' r -> readonly s' = true) by (intros; apply Hro; now right).
    assert (G : forall b', match (match exec_step c fs0 outp ins fs s with
                                  | inl fs1 => run_phase c fs0 outp ins r fs1 b'
                                  | inr e => Stopped fs (OErr e) end) with
                           | Done fs1 b1 => fs1 = fs /\ (b' = None -> b1 = None) /\
                               forall s', In s' (s :: r) -> exec_step c fs0 outp ins fs s' = inl fs
                           | Stopped fs1 r0 => fs1 = fs /\ exists e, r0 = OErr e end).
    { intros b'. destruct (exec_step c fs0 outp ins fs s) as [fs1|e] eqn:E; [|eauto].
      pose proof (exec_readonly _ _ _ _ _ _ _ Hs E); subst fs1.
      specialize (IH Hr fs b'). destruct (run_phase c fs0 outp ins r fs b'); auto.
      destruct IH as (A & B & C). repeat split; auto. intros s' [<-|Hin]; auto. }
    destruct (is_call s).
    + destruct b as [[|b]|].
      * split; eauto.
      * specialize (G (Some b)). destruct (match exec_step c fs0 outp ins fs s with inl _ => _ | inr _ => _ end); auto.
        destruct G as (A & B & C). repeat split; auto. discriminate.
      * apply G.
    + apply G.
Qed.

Section Plan.
  Variables (fs0 : fsys) (outp : path) (ins : list path).
  Let n := length ins.
  Let c := fixed_cfg.

  Hypothesis out_ext : pext outp = XStore.
  Hypothesis out_free : flookup outp fs0 = None.
  Hypothesis ins_nc : forall p, In p ins -> pext p = XNc.
  Hypothesis ins_files : forall p, In p ins -> exists f, flookup p fs0 = Some (NFile f).
  Hypothesis bases_distinct : NoDup (map pbase ins).

  Let Mv := Moved fs0 outp ins.
  Let dof := dir_of outp.
  Let inf := input_file fs0.

  Definition final_ix : idxstate :=
    if all_indexed fs0 ins then IxFull (isort (merged_pairs 0 (map inf ins))) else IxAbsent.
  Definition final_meta : metastate :=
    MtFull (map (fun p => (pbase p, length (f_items (inf p)))) ins).

  (* the states a merge can be stopped in once the output directory exists *)
  Inductive At (fs : fsys) : Prop :=
    | AtRen k : k <= n -> Mv k fs -> d_index (dof fs) = IxAbsent -> d_meta (dof fs) = MtAbsent -> At fs
    | AtIdx1 : Mv n fs -> d_index (dof fs) = IxEmpty -> d_meta (dof fs) = MtAbsent -> At fs
    | AtIdx2 : Mv n fs -> d_index (dof fs) = final_ix -> d_meta (dof fs) = MtAbsent -> At fs
    | AtMeta1 : Mv n fs -> d_index (dof fs) = final_ix -> d_meta (dof fs) = MtEmpty -> At fs
    | AtMeta2 : Mv n fs -> d_index (dof fs) = final_ix -> d_meta (dof fs) = final_meta -> At fs.

  Definition Complete (fs : fsys) : Prop :=
    Mv n fs /\ d_index (dof fs) = final_ix /\ d_meta (dof fs) = final_meta.

  (* the shape every phase lemma has *)
  Definition phase_ok (b : option nat) (res : phase_result) (Good : fsys -> Prop) : Prop :=
    match res with
    | Done fs1 b1 => Good fs1 /\ (b = None -> b1 = None)
    | Stopped fs1 r => At fs1 /\ r = OErr ECrash /\ b <> None
    end.

  Lemma phase_ren : forall m k fs b, k + m = n -> Mv k fs ->
    d_index (dof fs) = IxAbsent -> d_meta (dof fs) = MtAbsent ->
    phase_ok b (run_phase c fs0 outp ins (map SRename (seq k m)) fs b)
             (fun fs1 => Mv n fs1 /\ d_index (dof fs1) = IxAbsent /\ d_meta (dof fs1) = MtAbsent).
  Proof.
    induction m as [|m IH]; intros k fs b Hk M Hi Hm; cbn [seq map run_phase is_call].
    - replace k with n in M by lia. cbn. auto.
    - assert (Hlt : k < n) by lia.
      destruct (nth_error ins k) as [p|] eqn:Hp; [|apply nth_error_None in Hp; fold n in Hp; lia].
      destruct (rename_step fs0 outp ins out_ext ins_nc bases_distinct c k fs p M Hp)
        as (fs1 & E1 & M1 & I1 & T1).
      assert (Stop : At fs) by (eapply AtRen with (k := k); eauto; lia).
      assert (IHn : forall b', phase_ok b' (run_phase c fs0 outp ins (map SRename (seq (S k) m)) fs1 b')
                 (fun fs1 => Mv n fs1 /\ d_index (dof fs1) = IxAbsent /\ d_meta (dof fs1) = MtAbsent)).
      { intros b'. apply IH; [lia|exact M1| |].
        - unfold dof in *. now rewrite I1.
        - unfold dof in *. now rewrite T1. }
      destruct b as [[|b]|]; cbn [phase_ok].
      + repeat split; auto. discriminate.
      + rewrite E1. specialize (IHn (Some b)).
        destruct (run_phase c fs0 outp ins (map SRename (seq (S k) m)) fs1 (Some b)); cbn [phase_ok] in *.
        * destruct IHn as (A & B). split; auto. discriminate.
        * destruct IHn as (A & B & C). repeat split; auto. discriminate.
      + rewrite E1. apply IHn.
  Qed.

  Lemma with_dir_Moved k fs (g : mdir -> mdir + err) d' : Mv k fs -> g (dof fs) = inl d' ->
    d_members d' = d_members (dof fs) ->
    with_dir fs outp g = inl (fupd outp (NDir d') fs) /\ Mv k (fupd outp (NDir d') fs) /\
    dof (fupd outp (NDir d') fs) = d'.
  Proof.
    intros M G Em. unfold with_dir. rewrite (Moved_lookup fs0 outp ins k fs M). fold dof. rewrite G.
    split; [reflexivity|]. split.
    - now apply Moved_dir_update.
    - apply dir_of_fupd.
  Qed.

  Lemma phase_reads : forall m j fs b, j + m = n -> Mv n fs ->
    d_index (dof fs) = IxEmpty -> d_meta (dof fs) = MtAbsent ->
    phase_ok b (run_phase c fs0 outp ins (map SIndexRead (seq j m)) fs b)
             (fun fs1 => Mv n fs1 /\ d_index (dof fs1) = IxEmpty /\ d_meta (dof fs1) = MtAbsent).
  Proof.
    induction m as [|m IH]; intros j fs b Hj M Hi Hm; cbn [seq map run_phase is_call].
    - cbn. auto.
    - assert (Hlt : j < n) by lia.
      destruct (nth_error ins j) as [p|] eqn:Hp; [|apply nth_error_None in Hp; fold n in Hp; lia].
      assert (Stop : At fs) by (now apply AtIdx1).
      assert (Mm : mlookup (pbase p) (d_members (dof fs)) = Some (inf p)).
      { pose proof (Moved_lookup fs0 outp ins n fs M) as Ld. destruct M as (_ & _ & Hall).
        destruct (Hall j p Hp) as (A & _). destruct (A Hlt) as (_ & Mm). unfold member in Mm.
        now rewrite Ld in Mm. }
      assert (E1 : exists fs1, exec_step c fs0 outp ins fs (SIndexRead j) = inl fs1 /\ Mv n fs1 /\
                               dof fs1 = dof fs).
      { cbn [exec_step]. rewrite Hp.
        destruct (with_dir_Moved n fs
                    (fun d => match mlookup (pbase p) (d_members d) with Some _ => inl d | None => inr EMissing end)
                    (dof fs) M) as (A & B & C); [now rewrite Mm|reflexivity|].
        eexists. split; [exact A|]. split; auto. }
      destruct E1 as (fs1 & E1 & M1 & D1).
      assert (IHn : forall b', phase_ok b' (run_phase c fs0 outp ins (map SIndexRead (seq (S j) m)) fs1 b')
                 (fun fs1 => Mv n fs1 /\ d_index (dof fs1) = IxEmpty /\ d_meta (dof fs1) = MtAbsent)).
      { intros b'. apply IH; [lia|exact M1| |]; now rewrite D1. }
      destruct b as [[|b]|]; cbn [phase_ok].
      + repeat split; auto. discriminate.
      + rewrite E1. specialize (IHn (Some b)).
        destruct (run_phase c fs0 outp ins (map SIndexRead (seq (S j) m)) fs1 (Some b)); cbn [phase_ok] in *.
        * destruct IHn as (A & B). split; auto. discriminate.
        * destruct IHn as (A & B & C). repeat split; auto. discriminate.
      + rewrite E1. apply IHn.
  Qed.

  Definition index_steps : list mstep := [SIndexCreate] ++ map SIndexRead (seqn n) ++ [SIndexFill].

  Lemma phase_index fs b : all_indexed fs0 ins = true -> Mv n fs ->
    d_index (dof fs) = IxAbsent -> d_meta (dof fs) = MtAbsent ->
    phase_ok b (run_phase c fs0 outp ins index_steps fs b)
             (fun fs1 => Mv n fs1 /\ d_index (dof fs1) = final_ix /\ d_meta (dof fs1) = MtAbsent).
  Proof.
    intros Hall M Hi Hm. unfold index_steps. cbn [app run_phase is_call].
    assert (Stop : At fs) by (eapply AtRen with (k := n); eauto).
    destruct (with_dir_Moved n fs (fun d => inl (mkDir (d_members d) IxEmpty (d_meta d)))
                (mkDir (d_members (dof fs)) IxEmpty (d_meta (dof fs))) M eq_refl eq_refl) as (E1 & M1 & D1).
    set (fs1 := fupd outp (NDir (mkDir (d_members (dof fs)) IxEmpty (d_meta (dof fs)))) fs) in *.
    assert (Rest : forall b', phase_ok b'
              (run_phase c fs0 outp ins (map SIndexRead (seqn n) ++ [SIndexFill]) fs1 b')
              (fun fs2 => Mv n fs2 /\ d_index (dof fs2) = final_ix /\ d_meta (dof fs2) = MtAbsent)).
    { intros b'. rewrite run_phase_app.
      pose proof (phase_reads n 0 fs1 b' eq_refl M1) as R. unfold seqn.
      destruct (run_phase c fs0 outp ins (map SIndexRead (seq 0 n)) fs1 b') as [fs2 b2|fs2 r2];
        cbn [phase_ok] in *.
      - destruct R as ((M2 & I2 & T2) & Hb); [now rewrite D1|now rewrite D1|].
        cbn [run_phase is_call exec_step].
        destruct (with_dir_Moved n fs2
                    (fun d => match members_of d (map pbase ins) with
                              | Some l => inl (mkDir (d_members d) (IxFull (isort (merged_pairs 0 l))) (d_meta d))
                              | None => inr EMissing end)
                    (mkDir (d_members (dof fs2)) (IxFull (isort (merged_pairs 0 (map inf ins)))) (d_meta (dof fs2))) M2)
          as (E3 & M3 & D3).
        { unfold dof. now rewrite (members_all fs0 outp ins fs2 M2). }
        { reflexivity. }
        rewrite E3. cbn [phase_ok]. rewrite D3. cbn. unfold final_ix. rewrite Hall. auto.
      - apply R; now rewrite D1. }
    destruct b as [[|b]|]; cbn [phase_ok].
    - repeat split; auto. discriminate.
    - cbn [exec_step]. rewrite E1. specialize (Rest (Some b)).
      destruct (run_phase c fs0 outp ins (map SIndexRead (seqn n) ++ [SIndexFill]) fs1 (Some b)); cbn [phase_ok] in *.
      + destruct Rest as (A & B). split; auto. discriminate.
      + destruct Rest as (A & B & C). repeat split; auto. discriminate.
    - cbn [exec_step]. rewrite E1. apply Rest.
  Qed.

  Lemma meta_data_eq :
    map (fun p => (pbase p, match in_file fs0 p with Some f => length (f_items f) | None => 0 end)) ins
    = map (fun p => (pbase p, length (f_items (inf p)))) ins.
  Proof.
    apply map_ext. intros p. unfold inf, input_file. now destruct (in_file fs0 p).
  Qed.

  Lemma phase_meta fs b : Mv n fs -> d_index (dof fs) = final_ix -> d_meta (dof fs) = MtAbsent ->
    phase_ok b (run_phase c fs0 outp ins [SMetaOpen; SMetaDump] fs b) Complete.
  Proof.
    intros M Hi Hm. cbn [run_phase is_call].
    assert (Stop : At fs) by (now apply AtIdx2).
    destruct (with_dir_Moved n fs (fun d => inl (mkDir (d_members d) (d_index d) MtEmpty))
                (mkDir (d_members (dof fs)) (d_index (dof fs)) MtEmpty) M eq_refl eq_refl) as (E1 & M1 & D1).
    set (fs1 := fupd outp (NDir (mkDir (d_members (dof fs)) (d_index (dof fs)) MtEmpty)) fs) in *.
    assert (Stop1 : At fs1) by (apply AtMeta1; auto; rewrite D1; auto).
    destruct (with_dir_Moved n fs1
                (fun d => inl (mkDir (d_members d) (d_index d)
                   (MtFull (map (fun p => (pbase p, match in_file fs0 p with
                                                     | Some f => length (f_items f) | None => 0 end)) ins))))
                (mkDir (d_members (dof fs1)) (d_index (dof fs1)) final_meta) M1) as (E2 & M2 & D2).
    { unfold final_meta. now rewrite meta_data_eq. }
    { reflexivity. }
    assert (Fin : Complete (fupd outp (NDir (mkDir (d_members (dof fs1)) (d_index (dof fs1)) final_meta)) fs1)).
    { split; [exact M2|]. rewrite D2. cbn. rewrite D1. cbn. auto. }
    destruct b as [[|[|b]]|]; cbn [phase_ok exec_step].
    - repeat split; auto. discriminate.
    - rewrite E1. cbn [phase_ok]. repeat split; auto. discriminate.
    - rewrite E1, E2. cbn [phase_ok]. split; auto. discriminate.
    - rewrite E1, E2. cbn [phase_ok]. split; auto.
  Qed.
End Plan.

(* ------------------------------------------------------------------------------------------- *)
(* what the validation phase establishes                                                       *)
(* ------------------------------------------------------------------------------------------- *)
Lemma check_inputs_none fs ins : check_inputs fs ins = None ->
  forall p, In p ins -> (exists nd, flookup p fs = Some nd) /\ pext p = XNc.
Proof.
  induction ins as [|q r IH]; cbn; [intros _ p []|].
  destruct (flookup q fs) as [nd|] eqn:L; [|discriminate].
  destruct (pext q) eqn:X; try discriminate. intros H p [<-|Hin]; eauto.
Qed.

Lemma check_args_none fs outp ins : check_args fixed_cfg fs outp ins = None ->
  (forall p, In p ins -> (exists nd, flookup p fs = Some nd) /\ pext p = XNc) /\
  pext outp = XStore /\ flookup outp fs = None /\ NoDup (map pbase ins).
Proof.
  unfold check_args. destruct (check_inputs fs ins) eqn:Ci; [discriminate|].
  destruct (pext outp) eqn:X; try discriminate. destruct (flookup outp fs) eqn:L; [discriminate|].
  cbn [fix_C09a fixed_cfg andb]. destruct (nodup_nat (map pbase ins)) eqn:N; [|discriminate].
  intros _. split; [now apply check_inputs_none|]. repeat split; auto. now apply nodup_nat_NoDup.
Qed.

Record Pre (fs0 : fsys) (outp : path) (ins : list path) : Prop := mkPre {
  pre_out_ext : pext outp = XStore;
  pre_out_free : flookup outp fs0 = None;
  pre_ins_nc : forall p, In p ins -> pext p = XNc;
  pre_ins_files : forall p, In p ins -> exists f, flookup p fs0 = Some (NFile f);
  pre_bases : NoDup (map pbase ins);
  pre_sigs : forall p, In p ins -> f_sig (input_file fs0 p) = f_sig (input_file fs0 (hd p ins));
  pre_idx : all_indexed fs0 ins = any_indexed fs0 ins
}.

Definition validation (ins : list path) : list mstep :=
  [SCheckArgs] ++ map SOpen (seqn (length ins)) ++ [SIdCheck].

Lemma validation_ro ins s : In s (validation ins) -> readonly s = true.
Proof.
  unfold validation. cbn [app]. intros [<-|H]; [reflexivity|].
  apply in_app_iff in H as [H|[<-|[]]]; [|reflexivity].
  apply in_map_iff in H as (j & <- & _). reflexivity.
Qed.

Lemma validation_pre fs0 outp ins :
  (forall s, In s (validation ins) -> exec_step fixed_cfg fs0 outp ins fs0 s = inl fs0) ->
  Pre fs0 outp ins.
Proof.
  intros H.
  assert (Hc : check_args fixed_cfg fs0 outp ins = None).
  { specialize (H SCheckArgs (or_introl eq_refl)). cbn in H.
    destruct (check_args fixed_cfg fs0 outp ins); [discriminate|reflexivity]. }
  destruct (check_args_none _ _ _ Hc) as (Hin & Hx & Hf & Hn).
  assert (Hstep : forall j p, nth_error ins j = Some p ->
            exec_step fixed_cfg fs0 outp ins fs0 (SOpen j) = inl fs0).
  { intros j p Hj. apply H. unfold validation; cbn [app]. right. apply in_app_iff. left. apply in_map. unfold seqn. apply in_seq.
    assert (j < length ins) by (apply nth_error_Some; congruence). lia. }
  assert (Hfile : forall p, In p ins -> exists f, flookup p fs0 = Some (NFile f)).
  { intros p Hp. destruct (In_nth_error _ _ Hp) as (j & Hj). specialize (Hstep j p Hj). cbn in Hstep.
    rewrite Hj in Hstep. destruct (flookup p fs0) as [[f|d]|]; try discriminate. eauto. }
  split; auto.
  - intros p Hp. now apply Hin.
  - intros p Hp. destruct (In_nth_error _ _ Hp) as (j & Hj). specialize (Hstep j p Hj). cbn in Hstep.
    rewrite Hj in Hstep. destruct (Hfile p Hp) as (f & L). rewrite L in Hstep.
    destruct ins as [|p0 r]; [contradiction|]. cbn [nth_error hd] in *.
    destruct (Hfile p0 (or_introl eq_refl)) as (f0 & L0).
    unfold input_file, in_file in *. rewrite L0 in *. rewrite L.
    destruct (Z.eqb (f_sig f0) (f_sig f)) eqn:E; [apply Z.eqb_eq in E; congruence|discriminate].
  - specialize (H SIdCheck). cbn in H.
    assert (Hs : In SIdCheck (validation ins)).
    { unfold validation; cbn [app]. right. apply in_app_iff. right. now left. }
    specialize (H Hs). destruct (Bool.eqb (all_indexed fs0 ins) (any_indexed fs0 ins)) eqn:E; [|discriminate].
    now apply eqb_prop.
Qed.

(* ------------------------------------------------------------------------------------------- *)
(* the outcome of a merge, for every point at which it can be made to fail                      *)
(* ------------------------------------------------------------------------------------------- *)
Definition rest_plan (fs0 : fsys) (ins : list path) : list mstep :=
  [SMkdir] ++ map SRename (seqn (length ins))
           ++ (if all_indexed fs0 ins then index_steps ins else []) ++ [SMetaOpen; SMetaDump].

Lemma plan_split fs0 ins : merge_plan fixed_cfg fs0 ins = validation ins ++ rest_plan fs0 ins.
Proof.
  unfold merge_plan, validation, rest_plan, index_steps. cbn [fix_F7 fixed_cfg].
  rewrite <- !app_assoc. reflexivity.
Qed.

Lemma after_mkdir fs0 outp ins (b b' : option nat) :
  pext outp = XStore -> flookup outp fs0 = None -> (forall p, In p ins -> pext p = XNc) ->
  (forall p, In p ins -> exists f, flookup p fs0 = Some (NFile f)) -> NoDup (map pbase ins) ->
  (b = None -> b' = None) ->
  let fsm := fupd outp (NDir empty_dir) fs0 in
  let res := run_steps fixed_cfg fs0 outp ins
               (map SRename (seqn (length ins)) ++
                (if all_indexed fs0 ins then index_steps ins else []) ++ [SMetaOpen; SMetaDump]) fsm b' in
  (At fs0 outp ins (fst res) /\ snd res = OErr ECrash /\ b <> None) \/
  (Complete fs0 outp ins (fst res) /\ snd res = OUnit).
Proof.
  intros Px Pf Pnc Pfiles Pb. revert b'. cbv zeta.
  set (fsm := fupd outp (NDir empty_dir) fs0).
  assert (M0 : Moved fs0 outp ins 0 fsm) by (apply Moved_0; auto).
  assert (D0 : dir_of outp fsm = empty_dir) by apply dir_of_fupd.
  intros b' Hb'. cbv zeta. rewrite run_steps_app.
    assert (I0 : d_index (dir_of outp fsm) = IxAbsent) by now rewrite D0.
    assert (T0 : d_meta (dir_of outp fsm) = MtAbsent) by now rewrite D0.
    pose proof (phase_ren fs0 outp ins Px Pnc Pb (length ins) 0 fsm b' eq_refl M0 I0 T0) as R.
    unfold seqn.
    destruct (run_phase fixed_cfg fs0 outp ins (map SRename (seq 0 (length ins))) fsm b') as [fs2 b2|fs2 r2];
      cbn [phase_ok] in R.
    2:{ destruct R as (A & -> & Nb). left. cbn. repeat split; auto;
        intros E; apply Nb; auto. }
    destruct R as ((M2 & I2 & T2) & Hb2).
    assert (Meta : forall fs3 b3, (b = None -> b3 = None) -> Moved fs0 outp ins (length ins) fs3 ->
               d_index (dir_of outp fs3) = final_ix fs0 ins -> d_meta (dir_of outp fs3) = MtAbsent ->
               let res := run_steps fixed_cfg fs0 outp ins [SMetaOpen; SMetaDump] fs3 b3 in
               (At fs0 outp ins (fst res) /\ snd res = OErr ECrash /\ b <> None) \/
               (Complete fs0 outp ins (fst res) /\ snd res = OUnit)).
    { intros fs3 b3 Hb3 M3 I3 T3. cbv zeta. rewrite run_steps_phase.
      pose proof (phase_meta fs0 outp ins Px Pnc fs3 b3 M3 I3 T3) as R.
      destruct (run_phase fixed_cfg fs0 outp ins [SMetaOpen; SMetaDump] fs3 b3) as [fs4 b4|fs4 r4];
        cbn [phase_ok] in R.
      - right. cbn. tauto.
      - destruct R as (A & -> & Nb). left. cbn. repeat split; auto; intros E; apply Nb; auto. }
    destruct (all_indexed fs0 ins) eqn:Hidx.
    - rewrite run_steps_app.
      pose proof (phase_index fs0 outp ins Px Pnc fs2 b2 Hidx M2 I2 T2) as R.
      destruct (run_phase fixed_cfg fs0 outp ins (index_steps ins) fs2 b2) as [fs3 b3|fs3 r3];
        cbn [phase_ok] in R.
      + destruct R as ((M3 & I3 & T3) & Hb3). apply Meta; auto.
      + destruct R as (A & -> & Nb). left. cbn. repeat split; auto; intros E; apply Nb; auto.
    - cbn [app]. apply Meta; auto. unfold final_ix. now rewrite Hidx.
Qed.

Theorem merge_outcome fs0 outp ins b :
  let res := merge_run fixed_cfg fs0 outp ins b in
  (fst res = fs0 /\ exists e, snd res = OErr e) \/
  (Pre fs0 outp ins /\
   ((At fs0 outp ins (fst res) /\ snd res = OErr ECrash /\ b <> None) \/
    (Complete fs0 outp ins (fst res) /\ snd res = OUnit))).
Proof.
  cbv zeta. unfold merge_run. rewrite plan_split, run_steps_app.
  pose proof (ro_phase fixed_cfg fs0 outp ins (validation ins) (validation_ro ins) fs0 b) as V.
  destruct (run_phase fixed_cfg fs0 outp ins (validation ins) fs0 b) as [fs1 b1|fs1 r1].
  2:{ destruct V as (-> & e & ->). left. cbn. eauto. }
  destruct V as (-> & Hb1 & Hall).
  pose proof (validation_pre fs0 outp ins Hall) as P.
  destruct P as [Px Pf Pnc Pfiles Pb Psig Pidx].
  assert (P : Pre fs0 outp ins) by (split; auto).
  unfold rest_plan. cbn [app run_steps is_call].
  assert (Emk : exec_step fixed_cfg fs0 outp ins fs0 SMkdir = inl (fupd outp (NDir empty_dir) fs0)).
  { cbn. now rewrite Pf. }
  set (fsm := fupd outp (NDir empty_dir) fs0) in *.
  assert (M0 : Moved fs0 outp ins 0 fsm) by (apply Moved_0; auto).
  assert (D0 : dir_of outp fsm = empty_dir) by apply dir_of_fupd.
  (* everything after mkdir, for any budget *)
  assert (Rest : forall b', (b = None -> b' = None) ->
     let res := run_steps fixed_cfg fs0 outp ins
                  (map SRename (seqn (length ins)) ++
                   (if all_indexed fs0 ins then index_steps ins else []) ++ [SMetaOpen; SMetaDump]) fsm b' in
     (At fs0 outp ins (fst res) /\ snd res = OErr ECrash /\ b <> None) \/
     (Complete fs0 outp ins (fst res) /\ snd res = OUnit)).
  { intros b' Hb'. cbv zeta. rewrite run_steps_app.
    assert (I0 : d_index (dir_of outp fsm) = IxAbsent) by now rewrite D0.
    assert (T0 : d_meta (dir_of outp fsm) = MtAbsent) by now rewrite D0.
    pose proof (phase_ren fs0 outp ins Px Pnc Pb (length ins) 0 fsm b' eq_refl M0 I0 T0) as R.
    unfold seqn.
    destruct (run_phase fixed_cfg fs0 outp ins (map SRename (seq 0 (length ins))) fsm b') as [fs2 b2|fs2 r2];
      cbn [phase_ok] in R.
    2:{ destruct R as (A & -> & Nb). left. cbn. repeat split; auto;
        intros E; apply Nb; auto. }
    destruct R as ((M2 & I2 & T2) & Hb2).
    assert (Meta : forall fs3 b3, (b = None -> b3 = None) -> Moved fs0 outp ins (length ins) fs3 ->
               d_index (dir_of outp fs3) = final_ix fs0 ins -> d_meta (dir_of outp fs3) = MtAbsent ->
               let res := run_steps fixed_cfg fs0 outp ins [SMetaOpen; SMetaDump] fs3 b3 in
               (At fs0 outp ins (fst res) /\ snd res = OErr ECrash /\ b <> None) \/
               (Complete fs0 outp ins (fst res) /\ snd res = OUnit)).
    { intros fs3 b3 Hb3 M3 I3 T3. cbv zeta. rewrite run_steps_phase.
      pose proof (phase_meta fs0 outp ins Px Pnc fs3 b3 M3 I3 T3) as R.
      destruct (run_phase fixed_cfg fs0 outp ins [SMetaOpen; SMetaDump] fs3 b3) as [fs4 b4|fs4 r4];
        cbn [phase_ok] in R.
      - right. cbn. tauto.
      - destruct R as (A & -> & Nb). left. cbn. repeat split; auto; intros E; apply Nb; auto. }
    destruct (all_indexed fs0 ins) eqn:Hidx.
    - rewrite run_steps_app.
      pose proof (phase_index fs0 outp ins Px Pnc fs2 b2 Hidx M2 I2 T2) as R.
      destruct (run_phase fixed_cfg fs0 outp ins (index_steps ins) fs2 b2) as [fs3 b3|fs3 r3];
        cbn [phase_ok] in R.
      + destruct R as ((M3 & I3 & T3) & Hb3). apply Meta; auto.
      + destruct R as (A & -> & Nb). left. cbn. repeat split; auto; intros E; apply Nb; auto.
    - cbn [app]. apply Meta; auto. unfold final_ix. now rewrite Hidx. }
  destruct b1 as [[|b1]|].
  - left. cbn. eauto.
  - rewrite Emk. right. split; auto. apply Rest. intros E. specialize (Hb1 E). discriminate.
  - rewrite Emk. right. split; auto.
Qed.

(* ------------------------------------------------------------------------------------------- *)
(* corollaries: refusal, interruption, completion                                              *)
(* ------------------------------------------------------------------------------------------- *)
Theorem merge_refused_unchanged fs0 outp ins fs' e :
  merge_run fixed_cfg fs0 outp ins None = (fs', OErr e) -> fs' = fs0.
Proof.
  intros E. pose proof (merge_outcome fs0 outp ins None) as O. cbv zeta in O. rewrite E in O. cbn in O.
  destruct O as [(A & _)|(_ & [(_ & _ & N)|(_ & D)])]; auto; [congruence|discriminate].
Qed.

Theorem merge_success fs0 outp ins fs' :
  merge_run fixed_cfg fs0 outp ins None = (fs', OUnit) -> Pre fs0 outp ins /\ Complete fs0 outp ins fs'.
Proof.
  intros E. pose proof (merge_outcome fs0 outp ins None) as O. cbv zeta in O. rewrite E in O. cbn in O.
  destruct O as [(_ & e & D)|(P & [(_ & D & _)|(C & _)])]; try discriminate. auto.
Qed.

(* every input store survives, in exactly one place; nothing else is touched; a metadata file that
   lists stores lists exactly the inputs, all of them are present, and so is the index *)
Definition Safe (fs0 : fsys) (outp : path) (ins : list path) (fs' : fsys) : Prop :=
  (forall q, q <> outp -> ~ In q ins -> flookup q fs' = flookup q fs0) /\
  (forall p f, In p ins -> flookup p fs0 = Some (NFile f) ->
     (flookup p fs' = Some (NFile f) /\ member fs' outp (pbase p) = None) \/
     (flookup p fs' = None /\ member fs' outp (pbase p) = Some f)) /\
  (forall d st, flookup outp fs' = Some (NDir d) -> d_meta d = MtFull st ->
     st = map (fun p => (pbase p, length (f_items (input_file fs0 p)))) ins /\
     listed_members d st = Some (map (input_file fs0) ins) /\
     (all_indexed fs0 ins = true -> exists t, d_index d = IxFull t)).

Lemma At_Safe fs0 outp ins fs' : At fs0 outp ins fs' -> Safe fs0 outp ins fs'.
Proof.
  intros A.
  assert (G : forall k, Moved fs0 outp ins k fs' ->
     (forall q, q <> outp -> ~ In q ins -> flookup q fs' = flookup q fs0) /\
     (forall p f, In p ins -> flookup p fs0 = Some (NFile f) ->
        (flookup p fs' = Some (NFile f) /\ member fs' outp (pbase p) = None) \/
        (flookup p fs' = None /\ member fs' outp (pbase p) = Some f))).
  { intros k (_ & Ho & Hj). split; auto. intros p f Hin L.
    destruct (In_nth_error _ _ Hin) as (j & Hn). destruct (Hj j p Hn) as (Hlt & Hge).
    assert (Ef : input_file fs0 p = f) by (unfold input_file, in_file; now rewrite L).
    rewrite Ef in *. destruct (Nat.lt_ge_cases j k); [right|left]; auto. }
  assert (Absurd : forall k, Moved fs0 outp ins k fs' -> forall m, d_meta (dir_of outp fs') = m ->
            (forall st, m <> MtFull st) ->
            forall d st, flookup outp fs' = Some (NDir d) -> d_meta d = MtFull st -> False).
  { intros k M m Em Hm d st L E. rewrite (Moved_lookup _ _ _ _ _ M) in L. injection L as <-.
    rewrite Em in E. now apply (Hm st). }
  destruct A as [k Hk M I T|M I T|M I T|M I T|M I T]; destruct (G _ M) as (G1 & G2).
  1-4: split; [exact G1|split; [exact G2|]]; intros d st L E; exfalso;
       eapply (Absurd _ M _ T); eauto; intros st'; discriminate.
  split; [exact G1|split; [exact G2|]]. intros d st L E.
  rewrite (Moved_lookup _ _ _ _ _ M) in L. injection L as <-. rewrite T in E. unfold final_meta in E.
  injection E as <-. repeat split.
  - now apply listed_all.
  - intros Hall. rewrite I. unfold final_ix. rewrite Hall. eauto.
Qed.

Theorem merge_crash_safe fs0 outp ins b : flookup outp fs0 = None ->
  Safe fs0 outp ins (fst (merge_run fixed_cfg fs0 outp ins b)).
Proof.
  intros Hf. pose proof (merge_outcome fs0 outp ins b) as O. cbv zeta in O.
  destruct O as [(A & _)|(P & [(A & _)|((M & I & T) & _)])].
  - rewrite A. split; [auto|split].
    + intros p f Hin L. left. split; auto. unfold member. now rewrite Hf.
    + intros d st L. congruence.
  - now apply At_Safe.
  - apply At_Safe. now apply AtMeta2.
Qed.

(* inputs that disagree on their field sets, or of which only some carry identifiers, are refused *)
Theorem merge_refuses_mismatch fs0 outp ins fs' r :
  merge_run fixed_cfg fs0 outp ins None = (fs', r) ->
  ((exists p q f g, In p ins /\ In q ins /\ flookup p fs0 = Some (NFile f) /\ flookup q fs0 = Some (NFile g)
                    /\ f_sig f <> f_sig g) \/
   (exists p q f g, In p ins /\ In q ins /\ flookup p fs0 = Some (NFile f) /\ flookup q fs0 = Some (NFile g)
                    /\ f_hasidx f = true /\ f_hasidx g = false)) ->
  fs' = fs0 /\ exists e, r = OErr e.
Proof.
  intros E Hm. destruct r as [| | | | | |e|t vs|].
  1: { exfalso. apply merge_success in E as (P & _). destruct P as [Px Pf Pnc Pfiles Pb Psig Pidx].
       destruct Hm as [(p & q & f & g & Hp & Hq & Lp & Lq & N)|(p & q & f & g & Hp & Hq & Lp & Lq & A & B)].
       - pose proof (Psig p Hp) as S1. pose proof (Psig q Hq) as S2.
         assert (Eh : hd p ins = hd q ins) by (destruct ins; [contradiction|reflexivity]).
         unfold input_file, in_file in S1, S2. rewrite Lp in S1. rewrite Lq in S2. rewrite Eh in S1. congruence.
       - assert (Hall : all_indexed fs0 ins = false).
         { unfold all_indexed. apply not_true_is_false. intros Ht. rewrite forallb_forall in Ht.
           specialize (Ht q Hq). unfold in_file in Ht. rewrite Lq in Ht. congruence. }
         assert (Hany : any_indexed fs0 ins = true).
         { unfold any_indexed. apply existsb_exists. exists p. split; auto. unfold in_file. now rewrite Lp. }
         congruence. }
  all: try (pose proof (merge_outcome fs0 outp ins None) as O; cbv zeta in O; rewrite E in O; cbn in O;
            destruct O as [(_ & e' & D)|(_ & [(_ & D & _)|(_ & D)])]; discriminate).
  split; eauto. eapply merge_refused_unchanged; eauto.
Qed.

(* ------------------------------------------------------------------------------------------- *)
(* liveness: a merge that meets the preconditions and suffers no fault succeeds                 *)
(* ------------------------------------------------------------------------------------------- *)
Lemma NoDup_nodup_nat l : NoDup l -> nodup_nat l = true.
Proof.
  induction 1 as [|x r Hx _ IH]; cbn; auto. rewrite IH, andb_true_r. apply negb_true_iff.
  destruct (existsb (Nat.eqb x) r) eqn:E; auto. apply existsb_exists in E as (y & Hy & Ey).
  apply Nat.eqb_eq in Ey; subst. contradiction.
Qed.

Lemma ro_all_ok c fs0 outp ins steps fs :
  (forall s, In s steps -> exec_step c fs0 outp ins fs s = inl fs) ->
  run_phase c fs0 outp ins steps fs None = Done fs None.
Proof.
  induction steps as [|s r IH]; intros H; cbn [run_phase]; auto.
  rewrite (H s (or_introl eq_refl)). destruct (is_call s); apply IH; intros s' Hs; apply H; now right.
Qed.

Lemma check_inputs_ok fs ins :
  (forall p, In p ins -> (exists f, flookup p fs = Some (NFile f)) /\ pext p = XNc) -> check_inputs fs ins = None.
Proof.
  induction ins as [|p r IH]; intros H; cbn; auto.
  destruct (H p (or_introl eq_refl)) as ((f & L) & X). rewrite L, X. apply IH. intros q Hq. apply H. now right.
Qed.

Lemma validation_done fs0 outp ins : Pre fs0 outp ins ->
  run_phase fixed_cfg fs0 outp ins (validation ins) fs0 None = Done fs0 None.
Proof.
  intros [Px Pf Pnc Pfiles Pb Psig Pidx]. apply ro_all_ok. unfold validation. cbn [app].
  intros s [<-|Hs].
  - cbn [exec_step]. unfold check_args. rewrite check_inputs_ok by (intros p Hp; split; auto).
    rewrite Px, Pf. cbn [fix_C09a fixed_cfg andb]. now rewrite (NoDup_nodup_nat _ Pb).
  - apply in_app_iff in Hs as [Hs|[<-|[]]].
    + apply in_map_iff in Hs as (j & <- & Hj). unfold seqn in Hj. apply in_seq in Hj.
      destruct (nth_error ins j) as [p|] eqn:Ej; [|apply nth_error_None in Ej; lia].
      assert (Hp : In p ins) by (eapply nth_error_In; eauto).
      destruct (Pfiles p Hp) as (f & L). cbn [exec_step]. rewrite Ej, L.
      destruct ins as [|p0 r]; [contradiction|]. cbn [nth_error].
      destruct (Pfiles p0 (or_introl eq_refl)) as (f0 & L0).
      pose proof (Psig p Hp) as S. cbn [hd] in S. unfold input_file, in_file in *. rewrite L0 in *. rewrite L in S.
      now rewrite <- S, Z.eqb_refl.
    + cbn [exec_step]. rewrite Pidx. now rewrite eqb_reflx.
Qed.

Theorem merge_succeeds fs0 outp ins : Pre fs0 outp ins ->
  snd (merge_run fixed_cfg fs0 outp ins None) = OUnit /\
  Complete fs0 outp ins (fst (merge_run fixed_cfg fs0 outp ins None)).
Proof.
  intros P. pose proof (validation_done fs0 outp ins P) as V. destruct P as [Px Pf Pnc Pfiles Pb Psig Pidx].
  unfold merge_run. rewrite plan_split, run_steps_app, V. unfold rest_plan. cbn [app run_steps is_call exec_step].
  rewrite Pf.
  destruct (after_mkdir fs0 outp ins None None Px Pf Pnc Pfiles Pb (fun _ => eq_refl)) as [(_ & _ & N)|(C & R)];
    [congruence|]. split; assumption.
Qed.

(* C16 — the cache state machine always serves the slice of the queried (day, hour). *)
From Coq Require Import ZArith List Bool Lia.
From AV Require Import model.C16_CacheModel.
Import ListNotations.
Local Open Scope Z_scope.

Definition key_day (k : key) : Z := match k with KTime t => t_day t | KDay d => d end.

Lemma key_hits_day k t : key_hits k t = true -> key_day k = t_day t.
Proof.
  destruct k as [t0|d]; simpl; intros H.
  - unfold time_eqb in H. apply andb_true_iff in H. destruct H as [H _]. apply andb_true_iff in H. destruct H as [H _].
    apply Z.eqb_eq in H. exact H.
  - apply Z.eqb_eq in H. exact H.
Qed.

(* invariant of the states between queries: the open file is the key's day; a loaded slice belongs to the open
   file, carries the index the cache remembers, and is an hour slice only for files with a time axis *)
Definition inv (taxis : Z -> bool) (s : cache) : Prop :=
  (forall d, c_main s = Some d -> exists k, c_key s = Some k /\ key_day k = d) /\
  (forall d sl, c_ds s = Some (d, sl) -> c_main s = Some d /\ c_idx s = sl /\ (sl <> None -> taxis d = true)).

(* after _require_main_ds(t): the file of t's day is open, and IF the early return of _require_data can fire,
   the slice it keeps is an hour slice of that very file *)
Definition mid (taxis : Z -> bool) (s : cache) (t : time) : Prop :=
  c_main s = Some (t_day t) /\
  (exists k, c_key s = Some k /\ key_day k = t_day t) /\
  (forall d sl h, c_ds s = Some (d, sl) -> c_idx s = Some h -> d = t_day t /\ sl = Some h /\ taxis d = true).

Lemma inv_empty taxis : inv taxis empty.
Proof. split; simpl; intros; discriminate. Qed.

Lemma require_main_mid c taxis s t : cfg_ok c = true -> inv taxis s -> mid taxis (require_main c s t) t.
Proof.
  intros Hc [I1 I2]. unfold require_main.
  assert (Hmiss : mid taxis (mkC (Some (t_day t)) (Some (if key_on_path c then KDay (t_day t) else KTime t))
                               (if reset_slice c then None else c_ds s) (if reset_idx c then None else c_idx s)) t).
  { split; [reflexivity|]. split.
    - eexists. split; [reflexivity|]. destruct (key_on_path c); reflexivity.
    - simpl. intros d sl h Hd Hi. unfold cfg_ok in Hc.
      destruct (reset_slice c); [discriminate|]. simpl in Hc. rewrite Hc in Hi. discriminate. }
  destruct (c_main s) as [d0|] eqn:Em; [|exact Hmiss].
  destruct (c_key s) as [k|] eqn:Ek; [|exact Hmiss].
  destruct (key_hits k t) eqn:Eh; [|exact Hmiss].
  assert (Hday : d0 = t_day t).
  { destruct (I1 d0 eq_refl) as (k' & Hk & Hd). inversion Hk; subst k'. rewrite <- Hd. apply key_hits_day. exact Eh. }
  split; [rewrite Em, Hday; reflexivity|]. split.
  - exists k. split; [exact Ek|]. apply key_hits_day. exact Eh.
  - intros d sl h Hd Hi. destruct (I2 d sl Hd) as (Hm & Hs & Ht).
    inversion Hm as [Hdd]. split; [rewrite <- Hdd; exact Hday|].
    rewrite Hi in Hs. subst sl. split; [reflexivity|]. apply Ht. discriminate.
Qed.

Lemma require_data_spec c taxis s t : cfg_ok c = true -> inv taxis s ->
  inv taxis (require_data c taxis s t) /\ c_ds (require_data c taxis s t) = wanted taxis t.
Proof.
  intros Hc Hi. unfold require_data. cbn zeta.
  destruct (require_main_mid c taxis s t Hc Hi) as (Hm & (k & Hk & Hkd) & Hd).
  set (s1 := require_main c s t) in *.
  assert (Hnew : let s2 := if taxis (t_day t)
                           then mkC (Some (t_day t)) (c_key s1) (Some (t_day t, Some (t_hour t))) (Some (t_hour t))
                           else mkC (Some (t_day t)) (c_key s1) (Some (t_day t, None)) None in
                 inv taxis s2 /\ c_ds s2 = wanted taxis t).
  { cbn zeta. unfold wanted. destruct (taxis (t_day t)) eqn:Et; (split; [split|reflexivity]); simpl.
    - intros d H. inversion H; subst. exists k. split; assumption.
    - intros d sl H. inversion H; subst. split; [reflexivity|]. split; [reflexivity|]. intros _. exact Et.
    - intros d H. inversion H; subst. exists k. split; assumption.
    - intros d sl H. inversion H; subst. split; [reflexivity|]. split; [reflexivity|]. intros F. contradiction. }
  destruct (c_ds s1) as [[d sl]|] eqn:Eds.
  - destruct (c_idx s1) as [h|] eqn:Eix.
    + destruct (h =? t_hour t) eqn:Eh.
      * apply Z.eqb_eq in Eh. destruct (Hd d sl h eq_refl eq_refl) as (H1 & H2 & H3). subst d sl h.
        split.
        -- split.
           ++ intros d H. rewrite Hm in H. inversion H; subst. exists k. split; assumption.
           ++ intros d sl H. rewrite Eds in H. inversion H; subst. split; [exact Hm|]. split; [exact Eix|]. intros _. exact H3.
        -- rewrite Eds. unfold wanted. rewrite H3. reflexivity.
      * rewrite Hm. exact Hnew.
    + rewrite Hm. exact Hnew.
  - rewrite Hm. exact Hnew.
Qed.

(* every query of every sequence reads the slice of its own (day, hour) *)
Theorem run_correct c taxis : cfg_ok c = true ->
  forall ts s, inv taxis s -> run c taxis s ts = map (wanted taxis) ts.
Proof.
  intros Hc. induction ts as [|t r IH]; intros s Hi; [reflexivity|].
  simpl. destruct (require_data_spec c taxis s t Hc Hi) as [Hi' Hw]. rewrite Hw, (IH _ Hi'). reflexivity.
Qed.

Corollary run_correct_from_empty c taxis ts : cfg_ok c = true -> run c taxis empty ts = map (wanted taxis) ts.
Proof. intros Hc. apply run_correct; [exact Hc|apply inv_empty]. Qed.

(* keyed on the path with neither reset (seeded regression C16-1): day 1 hour 12, then day 2 hour 12 *)
Lemma stale_slice_witness :
  let c := mkCfg true false false in
  let ts := [mkT 1 12 0; mkT 2 12 0] in
  run c (fun _ => true) empty ts <> map (wanted (fun _ => true)) ts.
Proof. cbv. discriminate. Qed.

(* and the same configuration is fine as soon as either reset is kept *)
Example cfg_ok_nonvacuous : cfg_ok (mkCfg false true true) = true /\ cfg_ok (mkCfg true false true) = true.
Proof. split; reflexivity. Qed.

(* C01 — list lemmas over the real instance: fuel burn, windows, slices, telescoping. *)
From Coq Require Import List Bool ZArith Reals Lra Lia Arith.
From AV Require Import lib.Num model.C11_Model model.C01_Model.
Import ListNotations.
Local Open Scope R_scope.

Notation Rsum := (@nsum RNum).
Notation Rmap2 := (@map2 RNum).
Notation Rfuel_burn := (@fuel_burn RNum).
Notation Rdiffs := (@diffs RNum).
Notation Rzo_from := (@zero_outside_from RNum).
Notation Rzo := (@zero_outside RNum).
Notation Rslice := (@slice RNum).

Ltac rs := cbn [nsum add zero T RNum] in *.
Ltac clear_nat :=
  repeat match goal with
         | H : @eq nat _ _ |- _ => clear H
         | H : lt _ _ |- _ => clear H
         | H : le _ _ |- _ => clear H
         end.
Ltac rl := rs; rnum; clear_nat; lra.
Ltac nl := cbv [T RNum] in *; lia.

Lemma Rsum_nil : Rsum [] = 0.
Proof. reflexivity. Qed.
Lemma Rsum_cons x l : Rsum (x :: l) = x + Rsum l.
Proof. reflexivity. Qed.

Lemma Rsum_map_mul k l : Rsum (map (Rmult k) l) = k * Rsum l.
Proof. induction l as [|x l IH]; cbn [map]; rs; [rl|]. rewrite IH. rl. Qed.

Lemma Rsum_nonneg l : (forall i, 0 <= nth i l 0) -> 0 <= Rsum l.
Proof.
  induction l as [|x l IH]; intros H; rs; [rl|].
  pose proof (H 0%nat) as H0; cbn in H0.
  assert (0 <= Rsum l) by (apply IH; intros i; apply (H (S i))). rl.
Qed.

(* ---- map2 ---- *)
Lemma map2_length f a b : length a = length b -> length (Rmap2 f a b) = length a.
Proof.
  revert b; induction a as [|x a IH]; intros [|y b] H; cbn in *; try discriminate; auto.
Qed.

Lemma nth_map2_mul a b i : length a = length b ->
  nth i (Rmap2 Rmult a b) 0 = nth i a 0 * nth i b 0.
Proof.
  revert b i; induction a as [|x a IH]; intros [|y b] i H; cbn in H; try discriminate.
  - destruct i; cbn; rl.
  - destruct i; cbn; [reflexivity|]. apply IH; nl.
Qed.

Lemma map2_repeat k n l : length l = n -> Rmap2 Rmult (repeat k n) l = map (Rmult k) l.
Proof.
  revert l; induction n as [|n IH]; intros [|x l] H; cbn in *; try discriminate; auto.
  f_equal. apply IH; nl.
Qed.

(* ---- windows ---- *)
Lemma in_window_shift s e i : in_window (S s) (S e) (S i) = in_window s e i.
Proof. reflexivity. Qed.

Lemma nth_zo_from k s e l i :
  nth i (Rzo_from k s e l) 0 = if in_window s e (k + i) then nth i l 0 else 0.
Proof.
  revert k i; induction l as [|x l IH]; intros k i.
  - destruct i; cbn; destruct (in_window s e _); reflexivity.
  - destruct i; cbn [zero_outside_from nth].
    + rewrite Nat.add_0_r. reflexivity.
    + rewrite IH. rewrite Nat.add_succ_r. reflexivity.
Qed.

Lemma nth_zo s e l i : nth i (Rzo s e l) 0 = if in_window s e i then nth i l 0 else 0.
Proof. unfold zero_outside. rewrite nth_zo_from. reflexivity. Qed.

Lemma zo_from_length k s e l : length (Rzo_from k s e l) = length l.
Proof. revert k; induction l; intros; cbn; auto. Qed.

Lemma zo_from_map_mul c k s e l :
  Rzo_from k s e (map (Rmult c) l) = map (Rmult c) (Rzo_from k s e l).
Proof.
  revert k; induction l as [|x l IH]; intros k; cbn [map zero_outside_from]; [reflexivity|].
  rewrite IH. f_equal. destruct (in_window s e k); cbn; rl.
Qed.

Lemma zo_from_shift k s e l : Rzo_from (S k) (S s) (S e) l = Rzo_from k s e l.
Proof.
  revert k; induction l as [|x l IH]; intros k; cbn [zero_outside_from]; [reflexivity|].
  rewrite IH, in_window_shift. reflexivity.
Qed.

Lemma zo_from_shift0 k e l : Rzo_from (S k) 0 (S e) l = Rzo_from k 0 e l.
Proof.
  revert k; induction l as [|x l IH]; intros k; cbn [zero_outside_from]; [reflexivity|].
  rewrite IH. reflexivity.
Qed.

Lemma in_window_stop0 s i : in_window s 0 i = false.
Proof. unfold in_window. apply andb_false_r. Qed.

Lemma sum_zo_from_stop0 k s l : Rsum (Rzo_from k s 0 l) = 0.
Proof.
  revert k; induction l as [|x l IH]; intros k; cbn [zero_outside_from]; [reflexivity|].
  rewrite Rsum_cons, IH, in_window_stop0. cbn. rl.
Qed.

(* np.sum of the windowed array = np.sum of the slice *)
Lemma sum_zero_outside s e l : Rsum (Rzo s e l) = Rsum (Rslice s e l).
Proof.
  unfold zero_outside, slice.
  revert s e; induction l as [|x l IH]; intros s e.
  - cbn. destruct (e - s)%nat, s; reflexivity.
  - destruct e as [|e].
    + rewrite sum_zo_from_stop0. reflexivity.
    + destruct s as [|s].
      * cbn [zero_outside_from skipn]. rewrite zo_from_shift0, Rsum_cons, IH.
        cbn [skipn]. rewrite !Nat.sub_0_r. cbn [firstn]. rewrite Rsum_cons. reflexivity.
      * cbn [zero_outside_from skipn]. rewrite zo_from_shift, Rsum_cons, IH.
        replace (S e - S s)%nat with (e - s)%nat by nl.
        change (in_window (S s) (S e) 0) with false. cbn. rl.
Qed.

(* ---- fuel burn ---- *)
Lemma diffs_length x r : length (Rdiffs x r) = length r.
Proof. revert x; induction r; intros; cbn; auto. Qed.

Lemma fuel_burn_length fm : length (Rfuel_burn fm) = length fm.
Proof. destruct fm; cbn; [reflexivity|]. rewrite diffs_length. reflexivity. Qed.

Lemma nth_diffs x r i : (i < length r)%nat -> nth i (Rdiffs x r) 0 = nth i (x :: r) 0 - nth (S i) (x :: r) 0.
Proof.
  revert x i; induction r as [|y r IH]; intros x i H; cbn in H; [nl|].
  destruct i; cbn [diffs nth]; [reflexivity|]. rewrite IH by nl. reflexivity.
Qed.

(* the recorded burn of segment i is the drop in fuel mass between points i-1 and i; 0 at the first point *)
Lemma nth_fuel_burn fm i : (i < length fm)%nat ->
  nth i (Rfuel_burn fm) 0 = match i with O => 0 | S j => nth j fm 0 - nth i fm 0 end.
Proof.
  destruct fm as [|x r]; cbn [length]; intros H; [nl|].
  destruct i; cbn [fuel_burn nth]; [reflexivity|]. rewrite nth_diffs by nl. reflexivity.
Qed.

Lemma fuel_burn_nonneg fm :
  (forall i, (S i < length fm)%nat -> nth (S i) fm 0 <= nth i fm 0) ->
  forall i, 0 <= nth i (Rfuel_burn fm) 0.
Proof.
  intros H i. destruct (lt_dec i (length fm)) as [L|L].
  - rewrite nth_fuel_burn by exact L. destruct i; [rl|]. specialize (H i L). rl.
  - rewrite nth_overflow; [rl|]. rewrite fuel_burn_length. nl.
Qed.

(* telescoping over any slice of the differences *)
Lemma sum_slice_diffs r : forall x a b, (a <= b)%nat -> (b <= length r)%nat ->
  Rsum (Rslice a b (Rdiffs x r)) = nth a (x :: r) 0 - nth b (x :: r) 0.
Proof.
  unfold slice. induction r as [|y r IH]; intros x a b Hab Hb; cbn in Hb.
  - assert (b = 0%nat) by nl. assert (a = 0%nat) by nl. subst. cbn. rl.
  - destruct a as [|a].
    + destruct b as [|b]; [cbn; rl|].
      cbn [diffs skipn]. rewrite Nat.sub_0_r. cbn [firstn]. rewrite Rsum_cons.
      specialize (IH y 0%nat b ltac:(nl) ltac:(nl)). cbn [skipn] in IH. rewrite Nat.sub_0_r in IH.
      rewrite IH. cbn [nth]. rl.
    + destruct b as [|b]; [nl|].
      cbn [diffs skipn]. replace (S b - S a)%nat with (b - a)%nat by nl.
      rewrite (IH y a b) by nl. reflexivity.
Qed.

(* fuel burned over a window = fuel mass just before the window - fuel mass at its last point *)
Theorem window_fuel_telescopes fm a b : (a <= b)%nat -> (1 <= b)%nat -> (b <= length fm)%nat ->
  Rsum (Rslice a b (Rfuel_burn fm)) = nth (Nat.pred (Nat.max a 1)) fm 0 - nth (Nat.pred b) fm 0.
Proof.
  intros Hab H1 Hb. destruct fm as [|x r]; cbn [length] in Hb; [nl|].
  destruct b as [|b]; [nl|]. cbn [Nat.pred].
  destruct a as [|a].
  - unfold slice. cbn [fuel_burn skipn Nat.max Nat.pred]. rewrite Nat.sub_0_r. cbn [firstn]. rewrite Rsum_cons.
    pose proof (sum_slice_diffs r x 0%nat b ltac:(nl) ltac:(nl)) as E. unfold slice in E.
    cbn [skipn] in E. rewrite Nat.sub_0_r in E. rewrite E. cbn [nth]. rl.
  - replace (Nat.max (S a) 1) with (S a) by nl. cbn [Nat.pred].
    unfold slice. cbn [fuel_burn skipn]. replace (S b - S a)%nat with (b - a)%nat by nl.
    pose proof (sum_slice_diffs r x a b ltac:(nl) ltac:(nl)) as E. unfold slice in E. exact E.
Qed.

Lemma empty_window_fuel fm a b : (b <= a)%nat -> Rsum (Rslice a b (Rfuel_burn fm)) = 0.
Proof. intros H. unfold slice. replace (b - a)%nat with 0%nat by nl. reflexivity. Qed.

Lemma nth_last {A} (l : list A) d : nth (Nat.pred (length l)) l d = last l d.
Proof.
  induction l as [|x l IH]; [reflexivity|]. destruct l as [|y l]; [reflexivity|].
  change (nth (length l) (y :: l) d = last (y :: l) d). exact IH.
Qed.

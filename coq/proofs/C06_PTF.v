(* C06 — the table generated from a well-formed PTF file is valid (at load and per phase);
   a PTF file with a 0 fpm climb entry at a level that has a cruise row yields a table that is refused. *)
From Coq Require Import List Reals Lra Lia Bool Arith Permutation.
From AV Require Import lib.Num model.C06_Model proofs.C06_Lists proofs.C06_Proofs.
Import ListNotations.
Local Open Scope R_scope.

Notation Row := (row RNum).

(* ---------- generic list facts ---------- *)
Lemma filter_all {A} (f : A -> bool) l : (forall x, In x l -> f x = true) -> filter f l = l.
Proof.
  induction l as [|a l IH]; cbn; auto. intros H. rewrite (H a) by auto. f_equal. apply IH. auto.
Qed.

Lemma filter_none {A} (f : A -> bool) l : (forall x, In x l -> f x = false) -> filter f l = [].
Proof.
  induction l as [|a l IH]; cbn; auto. intros H. rewrite (H a) by auto. apply IH. auto.
Qed.

Lemma Permutation_filter {A} (f : A -> bool) l l' : Permutation l l' -> Permutation (filter f l) (filter f l').
Proof.
  induction 1; cbn; auto.
  - destruct (f x); auto.
  - destruct (f x), (f y); auto. constructor.
  - eapply Permutation_trans; eauto.
Qed.

Lemma NoDup_app_common {A} (l1 l2 : list A) x : In x l1 -> In x l2 -> ~ NoDup (l1 ++ l2).
Proof.
  induction l1 as [|a l1 IH]; cbn; [tauto|]. intros [->|H1] H2 Hn; apply NoDup_cons_iff in Hn as [Hx Hl].
  - apply Hx. apply in_or_app. auto.
  - apply IH; auto.
Qed.

Lemma NoDup_app_l {A} (l1 l2 : list A) : NoDup (l1 ++ l2) -> NoDup l1.
Proof.
  induction l1 as [|a l1 IH]; cbn; [constructor|]. intros H. apply NoDup_cons_iff in H as [Hx Hl].
  constructor; auto. intros Hin. apply Hx. apply in_or_app. auto.
Qed.

Lemma distinct_NoDup (l : list R) : @distinct RNum l = true -> NoDup l.
Proof.
  induction l as [|a l IH]; [constructor|]. cbn [distinct]. rewrite andb_true_iff, negb_true_iff. intros [H1 H2].
  constructor; auto. intros Hin. apply not_true_iff_false in H1. apply H1.
  apply existsb_exists. exists a. split; auto. rn. apply Reqb_true. auto.
Qed.

(* ---------- sorting is a permutation ---------- *)
Lemma insert_row_perm (x : Row) l : Permutation (@insert_row RNum x l) (x :: l).
Proof.
  induction l as [|a l IH]; cbn; auto. destruct (@key_le RNum x a); auto.
  eapply Permutation_trans; [apply perm_skip, IH | apply perm_swap].
Qed.

Lemma sort_rows_perm (l : list Row) : Permutation (@sort_rows RNum l) l.
Proof.
  induction l as [|a l IH]; cbn; auto.
  change (fold_right (@insert_row RNum) [] l) with (@sort_rows RNum l).
  eapply Permutation_trans; [apply insert_row_perm | auto].
Qed.

(* ---------- full_grid / fl_only / masses are insensitive to the order of the rows ---------- *)
Lemma full_grid_perm (l l' : list Row) : Permutation l l' -> full_grid l -> full_grid l'.
Proof.
  intros Hp [Hnd Hall]. split.
  - unfold keys in *. eapply Permutation_NoDup; [apply Permutation_map; eauto | auto].
  - intros f m Hf Hm. unfold keys in *.
    apply (Permutation_in _ (Permutation_map _ Hp)).
    apply Hall; eapply Permutation_in; try eassumption; apply Permutation_map, Permutation_sym; auto.
Qed.

Lemma fl_only_ext v (l l' : list Row) : (forall r, In r l' -> In r l) -> fl_only v l -> fl_only v l'.
Proof. unfold fl_only. intros H Hf r r' Hr Hr'. apply Hf; auto. Qed.

Lemma masses_length (sub : list Row) (L : list R) :
  NoDup L -> (forall m, In m (@masses RNum sub) <-> In m L) -> length (@masses RNum sub) = length L.
Proof.
  intros HL H. apply Nat.le_antisymm; apply NoDup_incl_length; auto.
  - apply uniq_sorted_NoDup.
  - intros m Hm. apply H; auto.
  - intros m Hm. apply H; auto.
Qed.

(* ---------- grids built block by block ---------- *)
Section Grid.
  Context {A : Type}.
  Variables (fl : A -> R) (mk : A -> list Row) (ms : list R).
  Hypothesis Hkeys : forall a, map (@key RNum) (mk a) = map (fun m => (fl a, m)) ms.
  Hypothesis Hms : NoDup ms.

  Lemma grid_keys l : keys (flat_map mk l) = flat_map (fun a => map (fun m => (fl a, m)) ms) l.
  Proof.
    unfold keys. induction l as [|a l IH]; [reflexivity|]. cbn [flat_map]. rewrite map_app, Hkeys. f_equal. exact IH.
  Qed.

  Lemma grid_full l : NoDup (map fl l) -> full_grid (flat_map mk l).
  Proof.
    intros Hnd. split.
    - rewrite grid_keys. induction l as [|a l IH]; cbn; [constructor|].
      inversion Hnd as [|? ? Hna Hnl]; subst. apply NoDup_app_intro; auto.
      + apply NoDup_map_on; auto. intros x y _ _ E. now inversion E.
      + intros [f m] H1 H2. apply in_map_iff in H1 as [m' [E _]]. inversion E; subst.
        apply in_flat_map in H2 as [b [Hb H2]]. apply in_map_iff in H2 as [m'' [E' _]]. inversion E'.
        apply Hna. rewrite <- H0. apply in_map; auto.
    - intros f m Hf Hm. rewrite grid_keys.
      apply in_map_iff in Hf as [r [<- Hr]]. apply in_map_iff in Hm as [r' [<- Hr']].
      apply in_flat_map in Hr as [a [Ha Hr]]. apply in_flat_map in Hr' as [a' [Ha' Hr']].
      assert (K : In (@key RNum r) (map (fun m => (fl a, m)) ms)) by (rewrite <- Hkeys; apply in_map; auto).
      assert (K' : In (@key RNum r') (map (fun m => (fl a', m)) ms)) by (rewrite <- Hkeys; apply in_map; auto).
      apply in_map_iff in K as [m1 [E1 _]]. apply in_map_iff in K' as [m2 [E2 Hm2]].
      unfold key in E1, E2. inversion E1; inversion E2; subst.
      apply in_flat_map. exists a. split; auto. apply in_map_iff. exists (r_mass r'). split; auto.
  Qed.

  Lemma grid_fl_only l v (g : A -> R) :
    (forall a r, In r (mk a) -> @sel RNum v r = g a) -> NoDup (map fl l) -> fl_only v (flat_map mk l).
  Proof.
    intros Hv Hnd r r' Hr Hr' E.
    apply in_flat_map in Hr as [a [Ha Hr]]. apply in_flat_map in Hr' as [a' [Ha' Hr']].
    assert (Fa : forall b x, In x (mk b) -> r_fl x = fl b).
    { intros b x Hx. assert (K : In (@key RNum x) (map (fun m => (fl b, m)) ms)) by (rewrite <- Hkeys; apply in_map; auto).
      apply in_map_iff in K as [m [E1 _]]. unfold key in E1. now inversion E1. }
    assert (a = a').
    { apply (NoDup_map_eq fl l); auto. rewrite <- (Fa a r Hr), <- (Fa a' r' Hr'). auto. }
    subst a'. rewrite (Hv a r Hr), (Hv a r' Hr'). auto.
  Qed.

  Lemma grid_masses l m : In m (map (@r_mass RNum) (flat_map mk l)) -> In m ms.
  Proof.
    intros H. apply in_map_iff in H as [r [<- Hr]]. apply in_flat_map in Hr as [a [_ Hr]].
    assert (K : In (@key RNum r) (map (fun m => (fl a, m)) ms)) by (rewrite <- Hkeys; apply in_map; auto).
    apply in_map_iff in K as [m1 [E1 Hm1]]. unfold key in E1. inversion E1; subst. auto.
  Qed.

  Lemma grid_masses_all l a m : In a l -> In m ms -> In m (map (@r_mass RNum) (flat_map mk l)).
  Proof.
    intros Ha Hm.
    assert (K : In (fl a, m) (map (@key RNum) (mk a))) by (rewrite Hkeys; apply in_map_iff; eauto).
    apply in_map_iff in K as [r [E Hr]]. apply in_map_iff. exists r. split.
    - unfold key in E. now inversion E.
    - apply in_flat_map. eauto.
  Qed.
End Grid.

(* ---------- the general step from load-time validity to phase validity ---------- *)
Lemma coverage_ok_nil sw : @coverage_ok RNum sw [] = true.
Proof. unfold coverage_ok. destruct (sw_set sw); reflexivity. Qed.

Lemma phase_valid_of_load sw (rows : list Row) p :
  @load RNum sw rows = None -> @subset RNum p rows <> [] ->
  length (@masses RNum (@subset RNum p rows)) = match p with Descent => 1%nat | _ => 3%nat end ->
  @validate RNum sw (@subset RNum p rows) = None.
Proof.
  unfold load. intros Hl Hne Hm. apply validate_none in Hl. apply validate_none. unfold checks in *.
  rewrite (required_masses_phase p rows Hne).
  destruct Hl as (_ & C1 & C2 & C3 & F1 & F2 & F3 & F4 & F5 & F6).
  destruct p;
    rewrite ?subset_idem, ?(subset_other Climb Cruise), ?(subset_other Climb Descent),
            ?(subset_other Cruise Climb), ?(subset_other Cruise Descent),
            ?(subset_other Descent Climb), ?(subset_other Descent Cruise) by discriminate;
    rewrite ?coverage_ok_nil; repeat split; auto.
Qed.

(* ---------- the table of a PTF file ---------- *)
Section PTFValid.
  Variables (KN FPM M2S : R) (P : ptf RNum).
  Let lo := p_low P. Let nom := p_nom P. Let hi := p_high P.
  Let cl := p_climb P. Let cr := p_cruise P. Let de := p_descent P.
  Let raw := @build_rows RNum KN FPM M2S P.
  Let rows := @build_table RNum KN FPM M2S P.
  Let mkc := @climb_rows RNum KN FPM M2S lo nom hi.
  Let mkr := @cruise_rows RNum KN M2S lo nom hi.
  Let mkd := fun d => [@descent_row RNum KN FPM M2S nom d].

  Lemma raw_eq : raw = flat_map mkc cl ++ flat_map mkr cr ++ flat_map mkd de.
  Proof.
    unfold raw, build_rows, mkc, mkr, mkd, lo, nom, hi, cl, cr, de. do 2 f_equal.
  Qed.

  Lemma rows_perm : Permutation rows raw.
  Proof. apply sort_rows_perm. Qed.

  Lemma rows_In r : In r rows <-> In r raw.
  Proof. split; apply Permutation_in; [apply rows_perm | apply Permutation_sym, rows_perm]. Qed.

  Hypothesis Hwf : @wf_ptf RNum FPM P = true.

  Lemma wf_facts :
    lo < nom /\ nom < hi /\ NoDup (map (@pc_fl RNum) cl) /\ NoDup (map (@pr_fl RNum) cr) /\
    NoDup (map (@pd_fl RNum) de) /\ (cl <> [] \/ cr <> [] \/ de <> []) /\
    (forall c, In c cl -> @tol RNum < pc_lo c * FPM /\ @tol RNum < pc_nom c * FPM /\ @tol RNum < pc_hi c * FPM) /\
    (forall d, In d de -> (- pd_rocd d) * FPM < - @tol RNum).
  Proof.
    unfold wf_ptf, ptf_shape in Hwf. rewrite !andb_true_iff in Hwf.
    destruct Hwf as [[[[[[[H1 H2] H3] H4] H5] H6] H7] H8]. revert H1 H2. rn. rewrite !Rltb_true. intros H1 H2.
    repeat split; auto using distinct_NoDup.
    - rewrite !orb_true_iff in H6. unfold cl, cr, de.
      destruct H6 as [[H|H]|H]; [left|right;left|right;right]; intros E; rewrite E in H; discriminate.
    - rewrite forallb_forall in H7. specialize (H7 c H). revert H7. rn. rewrite !andb_true_iff, !Rltb_true. tauto.
    - rewrite forallb_forall in H7. specialize (H7 c H). revert H7. rn. rewrite !andb_true_iff, !Rltb_true. tauto.
    - rewrite forallb_forall in H7. specialize (H7 c H). revert H7. rn. rewrite !andb_true_iff, !Rltb_true. tauto.
    - intros d Hd. rewrite forallb_forall in H8. specialize (H8 d Hd). revert H8. rn. rewrite Rltb_true.
      change (@opp RNum) with Ropp. auto.
  Qed.

  Lemma ms3_nodup : NoDup [lo; nom; hi].
  Proof.
    destruct wf_facts as (H1 & H2 & _). repeat constructor; cbn; intros H; intuition lra.
  Qed.

  (* phases of the three blocks *)
  Lemma climb_block_phase r : In r (flat_map mkc cl) -> forall p, @in_phase RNum p r = match p with Climb => true | _ => false end.
  Proof.
    destruct wf_facts as (_ & _ & _ & _ & _ & _ & Hc & _). pose proof tol_pos as Ht.
    intros Hr. apply in_flat_map in Hr as [c [Hc' Hr]]. destruct (Hc c Hc') as (A & B & C).
    unfold mkc, climb_rows in Hr. cbn in Hr.
    destruct Hr as [<-|[<-|[<-|[]]]]; intros []; cbn [in_phase r_rocd]; rn; change (@opp RNum) with Ropp;
      rewrite ?andb_false_iff, ?Rltb_true, ?Rltb_false, ?Rleb_false; try lra; try (right; lra).
  Qed.

  Lemma cruise_block_phase r : In r (flat_map mkr cr) -> forall p, @in_phase RNum p r = match p with Cruise => true | _ => false end.
  Proof.
    pose proof tol_pos as Ht. intros Hr. apply in_flat_map in Hr as [c [Hc' Hr]].
    unfold mkr, cruise_rows in Hr. cbn in Hr.
    destruct Hr as [<-|[<-|[<-|[]]]]; intros []; cbn [in_phase r_rocd]; rn; change (@opp RNum) with Ropp;
      change (@zero RNum) with 0;
      rewrite ?andb_true_iff, ?Rltb_true, ?Rltb_false, ?Rleb_true; try lra.
  Qed.

  Lemma descent_block_phase r : In r (flat_map mkd de) -> forall p, @in_phase RNum p r = match p with Descent => true | _ => false end.
  Proof.
    destruct wf_facts as (_ & _ & _ & _ & _ & _ & _ & Hd). pose proof tol_pos as Ht.
    intros Hr. apply in_flat_map in Hr as [d [Hd' Hr]]. specialize (Hd d Hd').
    unfold mkd, descent_row in Hr. cbn in Hr. destruct Hr as [<-|[]].
    intros []; cbn [in_phase r_rocd]; rn; change (@opp RNum) with Ropp;
      rewrite ?andb_false_iff, ?Rltb_true, ?Rltb_false, ?Rleb_false; try lra.
  Qed.

  Lemma raw_subset p :
    @subset RNum p raw = match p with Climb => flat_map mkc cl | Cruise => flat_map mkr cr | Descent => flat_map mkd de end.
  Proof.
    rewrite raw_eq. unfold subset. rewrite !filter_app.
    destruct p;
      repeat match goal with
             | |- context [filter ?f (flat_map mkc cl)] =>
               first [rewrite (filter_all f (flat_map mkc cl)) by (intros x Hx; apply (climb_block_phase x Hx))
                     |rewrite (filter_none f (flat_map mkc cl)) by (intros x Hx; apply (climb_block_phase x Hx))]
             | |- context [filter ?f (flat_map mkr cr)] =>
               first [rewrite (filter_all f (flat_map mkr cr)) by (intros x Hx; apply (cruise_block_phase x Hx))
                     |rewrite (filter_none f (flat_map mkr cr)) by (intros x Hx; apply (cruise_block_phase x Hx))]
             | |- context [filter ?f (flat_map mkd de)] =>
               first [rewrite (filter_all f (flat_map mkd de)) by (intros x Hx; apply (descent_block_phase x Hx))
                     |rewrite (filter_none f (flat_map mkd de)) by (intros x Hx; apply (descent_block_phase x Hx))]
             end; rewrite ?app_nil_r; reflexivity.
  Qed.

  Lemma rows_subset_perm p : Permutation (@subset RNum p rows) (@subset RNum p raw).
  Proof. unfold subset. apply Permutation_filter, rows_perm. Qed.

  Lemma rows_subset_In p r : In r (@subset RNum p rows) <-> In r (@subset RNum p raw).
  Proof. split; apply Permutation_in; [apply rows_subset_perm | apply Permutation_sym, rows_subset_perm]. Qed.

  (* key lists of the blocks *)
  Lemma mkc_keys c : map (@key RNum) (mkc c) = map (fun m => (pc_fl c, m)) [lo; nom; hi].
  Proof. reflexivity. Qed.
  Lemma mkr_keys c : map (@key RNum) (mkr c) = map (fun m => (pr_fl c, m)) [lo; nom; hi].
  Proof. reflexivity. Qed.
  Lemma mkd_keys d : map (@key RNum) (mkd d) = map (fun m => (pd_fl d, m)) [nom].
  Proof. reflexivity. Qed.

  Lemma nom_nodup : NoDup [nom].
  Proof. repeat constructor. cbn. tauto. Qed.

  Lemma phase_grid p : full_grid (@subset RNum p rows).
  Proof.
    destruct wf_facts as (_ & _ & N1 & N2 & N3 & _).
    apply (full_grid_perm (@subset RNum p raw)); [apply Permutation_sym, rows_subset_perm|].
    rewrite raw_subset. destruct p.
    - apply (grid_full (@pc_fl RNum) mkc [lo; nom; hi] mkc_keys ms3_nodup); auto.
    - apply (grid_full (@pr_fl RNum) mkr [lo; nom; hi] mkr_keys ms3_nodup); auto.
    - apply (grid_full (@pd_fl RNum) mkd [nom] mkd_keys nom_nodup); auto.
  Qed.

  Lemma phase_fl_only_tas p : fl_only VTas (@subset RNum p rows).
  Proof.
    destruct wf_facts as (_ & _ & N1 & N2 & N3 & _).
    apply (fl_only_ext VTas (@subset RNum p raw)); [intros r; apply rows_subset_In|].
    rewrite raw_subset. destruct p.
    - apply (grid_fl_only (@pc_fl RNum) mkc [lo; nom; hi] mkc_keys _ VTas (fun c => pc_tas c * KN)); auto.
      intros c r [<-|[<-|[<-|[]]]]; reflexivity.
    - apply (grid_fl_only (@pr_fl RNum) mkr [lo; nom; hi] mkr_keys _ VTas (fun c => pr_tas c * KN)); auto.
      intros c r [<-|[<-|[<-|[]]]]; reflexivity.
    - apply (grid_fl_only (@pd_fl RNum) mkd [nom] mkd_keys _ VTas (fun d => pd_tas d * KN)); auto.
      intros c r [<-|[]]; reflexivity.
  Qed.

  Lemma climb_fl_only_ff : fl_only VFf (@subset RNum Climb rows).
  Proof.
    destruct wf_facts as (_ & _ & N1 & _).
    apply (fl_only_ext VFf (@subset RNum Climb raw)); [intros r; apply rows_subset_In|].
    rewrite raw_subset.
    apply (grid_fl_only (@pc_fl RNum) mkc [lo; nom; hi] mkc_keys _ VFf (fun c => pc_ff c / M2S)); auto.
    intros c r [<-|[<-|[<-|[]]]]; reflexivity.
  Qed.

  Lemma descent_fl_only v : fl_only v (@subset RNum Descent rows).
  Proof.
    destruct wf_facts as (_ & _ & _ & _ & N3 & _).
    apply (fl_only_ext v (@subset RNum Descent raw)); [intros r; apply rows_subset_In|].
    rewrite raw_subset.
    apply (grid_fl_only (@pd_fl RNum) mkd [nom] mkd_keys _ v (fun d => @sel RNum v (@descent_row RNum KN FPM M2S nom d))); auto.
    intros d r [<-|[]]; reflexivity.
  Qed.

  (* masses *)
  Lemma phase_masses p :
    @subset RNum p rows <> [] ->
    length (@masses RNum (@subset RNum p rows)) = match p with Descent => 1%nat | _ => 3%nat end.
  Proof.
    intros Hne.
    assert (Hraw : @subset RNum p raw <> []).
    { intros E. apply Hne. apply Permutation_nil. rewrite <- E. apply Permutation_sym, rows_subset_perm. }
    assert (Hm : forall m, In m (@masses RNum (@subset RNum p rows)) <-> In m (map (@r_mass RNum) (@subset RNum p raw))).
    { intros m. unfold masses. rewrite uniq_sorted_In, !in_map_iff.
      split; intros [r [E Hr]]; exists r; split; auto; apply rows_subset_In; auto. }
    rewrite raw_subset in Hm, Hraw. destruct p.
    - change 3%nat with (length [lo; nom; hi]). apply masses_length; [apply ms3_nodup|]. intros m. rewrite Hm. split.
      + apply (grid_masses (@pc_fl RNum) mkc [lo; nom; hi] mkc_keys).
      + destruct cl as [|c l]; [cbn in Hraw; congruence|].
        apply (grid_masses_all (@pc_fl RNum) mkc [lo; nom; hi] mkc_keys (c :: l) c); cbn; auto.
    - change 3%nat with (length [lo; nom; hi]). apply masses_length; [apply ms3_nodup|]. intros m. rewrite Hm. split.
      + apply (grid_masses (@pr_fl RNum) mkr [lo; nom; hi] mkr_keys).
      + destruct cr as [|c l]; [cbn in Hraw; congruence|].
        apply (grid_masses_all (@pr_fl RNum) mkr [lo; nom; hi] mkr_keys (c :: l) c); cbn; auto.
    - change 1%nat with (length [nom]). apply masses_length; [apply nom_nodup|]. intros m. rewrite Hm. split.
      + apply (grid_masses (@pd_fl RNum) mkd [nom] mkd_keys).
      + destruct de as [|d l]; [cbn in Hraw; congruence|].
        apply (grid_masses_all (@pd_fl RNum) mkd [nom] mkd_keys (d :: l) d); cbn; auto.
  Qed.

  Lemma subset_nonempty_iff p :
    @subset RNum p rows <> [] <-> match p with Climb => cl <> [] | Cruise => cr <> [] | Descent => de <> [] end.
  Proof.
    assert (H : @subset RNum p rows = [] <-> @subset RNum p raw = []).
    { split; intros E; apply Permutation_nil; rewrite <- E;
        [apply rows_subset_perm | apply Permutation_sym, rows_subset_perm]. }
    rewrite H, raw_subset. destruct p.
    - destruct cl; cbn; split; congruence.
    - destruct cr; cbn; split; congruence.
    - destruct de; cbn; split; congruence.
  Qed.

  Lemma whole_masses : length (@masses RNum rows) = @required_masses RNum rows.
  Proof.
    destruct wf_facts as (_ & _ & _ & _ & _ & Hne & _).
    assert (Hcases : (cl <> [] \/ cr <> []) \/ (cl = [] /\ cr = [] /\ de <> [])).
    { destruct cl, cr; try (left; left; discriminate); try (left; right; discriminate).
      right. repeat split; auto. destruct Hne as [H|[H|H]]; auto; congruence. }
    destruct Hcases as [Hcc|(Ec & Er & Hd)].
    - (* a climb or cruise row exists: three masses, and not every row is a descent row *)
      assert (Hex : exists r, In r rows /\ @in_phase RNum Descent r = false /\
                              (forall m, In m [lo; nom; hi] -> exists r', In r' rows /\ r_mass r' = m)).
      { destruct Hcc as [H|H].
        - assert (Hc : exists c, In c cl) by (destruct cl as [|c l]; [congruence|exists c; cbn; auto]).
          destruct Hc as [c Hc].
          assert (Hblk : forall x, In x (mkc c) -> In x (flat_map mkc cl)) by (intros x Hx; apply in_flat_map; eauto).
          assert (Hb : forall x, In x (mkc c) -> In x rows).
          { intros x Hx. apply rows_In. rewrite raw_eq. apply in_or_app. left. auto. }
          exists (@mkRow RNum (pc_fl c) lo (pc_tas c * KN) (pc_lo c * FPM) (pc_ff c / M2S)).
          split; [apply Hb; cbn; auto|]. split.
          + exact (climb_block_phase _ (Hblk _ (or_introl eq_refl)) Descent).
          + intros m [<-|[<-|[<-|[]]]].
            * exists (@mkRow RNum (pc_fl c) lo (pc_tas c * KN) (pc_lo c * FPM) (pc_ff c / M2S)). split; [apply Hb; cbn; auto|reflexivity].
            * exists (@mkRow RNum (pc_fl c) nom (pc_tas c * KN) (pc_nom c * FPM) (pc_ff c / M2S)). split; [apply Hb; cbn; auto|reflexivity].
            * exists (@mkRow RNum (pc_fl c) hi (pc_tas c * KN) (pc_hi c * FPM) (pc_ff c / M2S)). split; [apply Hb; cbn; auto|reflexivity].
        - assert (Hc : exists c, In c cr) by (destruct cr as [|c l]; [congruence|exists c; cbn; auto]).
          destruct Hc as [c Hc].
          assert (Hblk : forall x, In x (mkr c) -> In x (flat_map mkr cr)) by (intros x Hx; apply in_flat_map; eauto).
          assert (Hb : forall x, In x (mkr c) -> In x rows).
          { intros x Hx. apply rows_In. rewrite raw_eq. apply in_or_app. right. apply in_or_app. left. auto. }
          exists (@mkRow RNum (pr_fl c) lo (pr_tas c * KN) 0 (pr_lo c / M2S)).
          split; [apply Hb; cbn; auto|]. split.
          + exact (cruise_block_phase _ (Hblk _ (or_introl eq_refl)) Descent).
          + intros m [<-|[<-|[<-|[]]]].
            * exists (@mkRow RNum (pr_fl c) lo (pr_tas c * KN) 0 (pr_lo c / M2S)). split; [apply Hb; cbn; auto|reflexivity].
            * exists (@mkRow RNum (pr_fl c) nom (pr_tas c * KN) 0 (pr_nom c / M2S)). split; [apply Hb; cbn; auto|reflexivity].
            * exists (@mkRow RNum (pr_fl c) hi (pr_tas c * KN) 0 (pr_hi c / M2S)). split; [apply Hb; cbn; auto|reflexivity]. }
      destruct Hex as (r0 & Hr0 & Hph & Hall).
      assert (Hreq : @required_masses RNum rows = 3%nat).
      { unfold required_masses.
        assert (F : forallb (fun r : Row => @ltb RNum (r_rocd r) (@opp RNum (@tol RNum))) rows = false).
        { apply not_true_is_false. intros F. rewrite forallb_forall in F. specialize (F r0 Hr0).
          cbn [in_phase] in Hph. congruence. }
        rewrite F.
        destruct (forallb (fun r : Row => @ltb RNum (@tol RNum) (r_rocd r)) rows); [reflexivity|].
        destruct (forallb (fun r : Row => @leb RNum (@nabs RNum (r_rocd r)) (@tol RNum)) rows); reflexivity. }
      rewrite Hreq. change 3%nat with (length [lo; nom; hi]). apply masses_length; [apply ms3_nodup|].
      intros m. unfold masses. rewrite uniq_sorted_In, in_map_iff. split.
      + intros [r [<- Hr]]. apply rows_In in Hr. rewrite raw_eq in Hr.
        apply in_app_or in Hr as [Hr|Hr]; [|apply in_app_or in Hr as [Hr|Hr]].
        * apply (grid_masses (@pc_fl RNum) mkc [lo; nom; hi] mkc_keys cl). apply in_map; auto.
        * apply (grid_masses (@pr_fl RNum) mkr [lo; nom; hi] mkr_keys cr). apply in_map; auto.
        * assert (In (r_mass r) [nom]) by (apply (grid_masses (@pd_fl RNum) mkd [nom] mkd_keys de); apply in_map; auto).
          cbn in *. tauto.
      + intros Hm. destruct (Hall m Hm) as [r' [A B]]. eauto.
    - (* only descent rows: one mass, one required *)
      assert (Hsub : @subset RNum Descent rows = rows).
      { unfold subset. apply filter_all. intros x Hx. apply rows_In in Hx. rewrite raw_eq in Hx.
        unfold cl, cr in *. rewrite Ec, Er in Hx. cbn in Hx. apply (descent_block_phase x Hx Descent). }
      assert (Hne' : @subset RNum Descent rows <> []) by (apply subset_nonempty_iff; auto).
      rewrite <- Hsub at 2. rewrite (required_masses_phase Descent rows Hne').
      rewrite <- Hsub. apply (phase_masses Descent Hne').
  Qed.

  Theorem ptf_table_loads : @load RNum swF rows = None.
  Proof.
    apply (incomplete_grid_refused swF rows eq_refl). split; [apply whole_masses|]. split; [apply phase_grid|].
    repeat split; try apply phase_fl_only_tas; try apply climb_fl_only_ff; apply descent_fl_only.
  Qed.

  Theorem ptf_phase_valid p :
    match p with Climb => cl <> [] | Cruise => cr <> [] | Descent => de <> [] end ->
    @validate RNum swF (@subset RNum p rows) = None.
  Proof.
    intros Hne. apply subset_nonempty_iff in Hne.
    apply phase_valid_of_load; auto using ptf_table_loads, phase_masses.
  Qed.
End PTFValid.

(* ---------- what is refused: a 0 fpm (within the ROCD tolerance) climb entry at a level that has a cruise row ---------- *)
Theorem ptf_zero_climb_rate_refused (KN FPM M2S : R) (P : ptf RNum) c r :
  In c (p_climb P) -> In r (p_cruise P) -> pr_fl r = pc_fl c ->
  - @tol RNum <= pc_hi c * FPM <= @tol RNum ->
  exists e, @load RNum swF (@build_table RNum KN FPM M2S P) = Some e.
Proof.
  intros Hc Hr Efl Hz. apply (incomplete_grid_is_refused swF _ Cruise eq_refl).
  intros [Hnd _]. pose proof tol_pos as Ht.
  assert (Hp : Permutation (keys (@subset RNum Cruise (@build_table RNum KN FPM M2S P)))
                           (keys (@subset RNum Cruise (@build_rows RNum KN FPM M2S P)))).
  { unfold keys. apply Permutation_map. unfold subset. apply Permutation_filter, sort_rows_perm. }
  apply (Permutation_NoDup Hp) in Hnd. revert Hnd.
  unfold build_rows, subset, keys. rewrite !filter_app, !map_app, app_assoc.
  intros Hnd. apply NoDup_app_l in Hnd. revert Hnd.
  apply (NoDup_app_common _ _ (pc_fl c, p_high P)).
  - apply in_map_iff.
    exists (@mkRow RNum (pc_fl c) (p_high P) (pc_tas c * KN) (pc_hi c * FPM) (pc_ff c / M2S)). split; auto.
    apply filter_In. split.
    + apply in_flat_map. exists c. split; auto. cbn. auto.
    + cbn [in_phase r_rocd]. rn. change (@opp RNum) with Ropp. apply andb_true_iff. rewrite !Rleb_true. lra.
  - apply in_map_iff.
    exists (@mkRow RNum (pr_fl r) (p_high P) (pr_tas r * KN) 0 (pr_hi r / M2S)). split.
    + unfold key. cbn. rewrite Efl. auto.
    + apply filter_In. split.
      * apply in_flat_map. exists r. split; auto. cbn. auto.
      * cbn [in_phase r_rocd]. rn. change (@opp RNum) with Ropp. apply andb_true_iff. rewrite !Rleb_true. lra.
Qed.

(* ---------- every row of a well-formed PTF file is reproduced (no side conditions left) ---------- *)
Section PTFReproduced.
  Variables (KN FPM M2S : R) (conv : R -> R) (P : ptf RNum).
  Hypothesis Hwf : @wf_ptf RNum FPM P = true.
  Let rows := @build_table RNum KN FPM M2S P.

  Theorem ptf_wf_climb_rows_reproduced c alt :
    In c (p_climb P) -> conv alt = pc_fl c ->
    @evaluate RNum swF conv rows Climb alt (@MVal RNum (p_low P))
      = @Ok RNum (pc_tas c * KN) (pc_lo c * FPM) (pc_ff c / M2S) /\
    @evaluate RNum swF conv rows Climb alt (@MVal RNum (p_nom P))
      = @Ok RNum (pc_tas c * KN) (pc_nom c * FPM) (pc_ff c / M2S) /\
    @evaluate RNum swF conv rows Climb alt (@MVal RNum (p_high P))
      = @Ok RNum (pc_tas c * KN) (pc_hi c * FPM) (pc_ff c / M2S).
  Proof.
    intros Hc Hconv. destruct (wf_facts KN FPM M2S P Hwf) as (_ & _ & _ & _ & _ & _ & Hr & _).
    destruct (Hr c Hc) as (A & B & C).
    apply ptf_climb_rows_reproduced; auto.
    apply (ptf_phase_valid KN FPM M2S P Hwf Climb). intros E. rewrite E in Hc. destruct Hc.
  Qed.

  Theorem ptf_wf_cruise_rows_reproduced c alt :
    In c (p_cruise P) -> conv alt = pr_fl c ->
    @evaluate RNum swF conv rows Cruise alt (@MVal RNum (p_low P)) = @Ok RNum (pr_tas c * KN) 0 (pr_lo c / M2S) /\
    @evaluate RNum swF conv rows Cruise alt (@MVal RNum (p_nom P)) = @Ok RNum (pr_tas c * KN) 0 (pr_nom c / M2S) /\
    @evaluate RNum swF conv rows Cruise alt (@MVal RNum (p_high P)) = @Ok RNum (pr_tas c * KN) 0 (pr_hi c / M2S).
  Proof.
    intros Hc Hconv. apply ptf_cruise_rows_reproduced; auto.
    apply (ptf_phase_valid KN FPM M2S P Hwf Cruise). intros E. rewrite E in Hc. destruct Hc.
  Qed.

  Theorem ptf_wf_descent_rows_reproduced d alt m :
    In d (p_descent P) -> conv alt = pd_fl d ->
    @evaluate RNum swF conv rows Descent alt (@MVal RNum m)
      = @Ok RNum (pd_tas d * KN) ((- pd_rocd d) * FPM) (pd_ff d / M2S).
  Proof.
    intros Hd Hconv. destruct (wf_facts KN FPM M2S P Hwf) as (_ & _ & _ & _ & _ & _ & _ & Hr).
    assert (Hv : @validate RNum swF (@subset RNum Descent rows) = None).
    { apply (ptf_phase_valid KN FPM M2S P Hwf Descent). intros E. rewrite E in Hd. destruct Hd. }
    rewrite (single_mass_phase_ignores_mass swF conv rows Descent alt (@MVal RNum m) (@MVal RNum (p_nom P))).
    - apply ptf_descent_rows_reproduced; auto.
    - unfold rows. rewrite (phase_masses KN FPM M2S P Hwf Descent); auto.
      apply (validate_nonempty swF). exact Hv.
  Qed.
End PTFReproduced.

From Coq Require Import ZArith List String Bool Lia.
From AV Require Import lib.Tree model.C18_Model.
Import ListNotations.
Open Scope string_scope.

(* ---------- well-formed trees: no duplicate keys at any level (Python dicts) ---------- *)
Fixpoint keys_in (k : string) (l : list kv) : bool :=
  match l with [] => false | (k', _) :: r => String.eqb k k' || keys_in k r end.

Fixpoint nodup_keys (l : list kv) : bool :=
  match l with [] => true | (k, _) :: r => negb (keys_in k r) && nodup_keys r end.

Fixpoint wf (t : tree) : bool :=
  match t with
  | Leaf _ => true
  | Node kids => nodup_keys kids &&
                 (fix all (l : list kv) : bool :=
                    match l with [] => true | (_, c) :: r => wf c && all r end) kids
  end.

Fixpoint wf_all (l : list kv) : bool :=
  match l with [] => true | (_, c) :: r => wf c && wf_all r end.

Lemma wf_node kids : wf (Node kids) = nodup_keys kids && wf_all kids.
Proof.
  reflexivity.
Qed.

Lemma keys_in_lookup k l : keys_in k l = false -> lookup k l = None.
Proof.
  induction l as [|[k' v] r IH]; cbn; auto.
  destruct (String.eqb k k'); cbn; intros H; [discriminate|auto].
Qed.

Lemma wf_all_lookup k l c : wf_all l = true -> lookup k l = Some c -> wf c = true.
Proof.
  induction l as [|[k' v] r IH]; cbn; [discriminate|].
  intros H; apply andb_true_iff in H as [Hv Hr].
  destruct (String.eqb k k'); intros E; [now inversion E; subst|auto].
Qed.

(* ---------- the inner loop of deep_update ---------- *)
Definition merge1 (b : option tree) (v : tree) : tree :=
  match b with
  | Some bb => if is_node bb && is_node v then du bb v else v
  | None => v
  end.

Definition go := (fix go (bk : list kv) (ok : list kv) {struct ok} : list kv :=
  match ok with
  | [] => bk
  | (k, v) :: rest => go (set k (merge1 (lookup k bk) v) bk) rest
  end).

Lemma du_node bk ok : du (Node bk) (Node ok) = Node (go bk ok).
Proof.
  unfold du. cbn [du_gen]. f_equal.
  revert bk. induction ok as [|[k v] rest IH]; intros bk; cbn; auto.
  rewrite <- IH. f_equal.
  unfold merge1, du. destruct (lookup k bk) as [b|]; cbn; auto.
  destruct (is_node b); cbn; auto. destruct (is_node v); cbn; auto.
Qed.

Lemma du_leaf_l v ov : du (Leaf v) ov = ov.
Proof. unfold du. destruct ov; cbn; auto. Qed.
Lemma du_leaf_r base v : du base (Leaf v) = Leaf v.
Proof. reflexivity. Qed.

Lemma go_lookup_absent k bk ok : keys_in k ok = false -> lookup k (go bk ok) = lookup k bk.
Proof.
  revert bk. induction ok as [|[k' v] rest IH]; intros bk; cbn; auto.
  intros H. apply orb_false_iff in H as [Hk Hr].
  rewrite IH by assumption. apply lookup_set_other.
  intros ->. rewrite String.eqb_refl in Hk. discriminate.
Qed.

Lemma go_lookup k bk ok :
  nodup_keys ok = true ->
  lookup k (go bk ok) =
    match lookup k ok with
    | Some v => Some (merge1 (lookup k bk) v)
    | None => lookup k bk
    end.
Proof.
  revert bk. induction ok as [|[k' v] rest IH]; intros bk Hnd; cbn; auto.
  cbn in Hnd. apply andb_true_iff in Hnd as [Hk' Hnd]. apply negb_true_iff in Hk'.
  destruct (String.eqb k k') eqn:E.
  - apply String.eqb_eq in E; subst k'.
    rewrite go_lookup_absent by assumption. now rewrite lookup_set_same.
  - rewrite IH by assumption.
    assert (Hne : k <> k') by (intros ->; rewrite String.eqb_refl in E; discriminate).
    rewrite (lookup_set_other k' k) by assumption. reflexivity.
Qed.

(* one-step characterisation of reading from a merged dictionary *)
Lemma du_get_step k r bk ok :
  nodup_keys ok = true ->
  get (k :: r) (du (Node bk) (Node ok)) =
    match lookup k ok with
    | Some v => get r (merge1 (lookup k bk) v)
    | None => match lookup k bk with Some b => get r b | None => None end
    end.
Proof.
  intros Hnd. rewrite du_node. cbn [get]. rewrite go_lookup by assumption.
  destruct (lookup k ok); auto.
Qed.

(* ---------- overlay precedence ---------- *)
Lemma overlay_leaf_wins p : forall base ov v,
  wf ov = true -> get p ov = Some (Leaf v) -> get p (du base ov) = Some (Leaf v).
Proof.
  induction p as [|k r IH]; intros base ov v Hwf Hget.
  - cbn in Hget. inversion Hget; subst. reflexivity.
  - destruct ov as [x|ok]; [cbn in Hget; discriminate|].
    destruct base as [y|bk]; [now rewrite du_leaf_l|].
    rewrite wf_node in Hwf. apply andb_true_iff in Hwf as [Hnd Hall].
    rewrite du_get_step by assumption.
    cbn [get] in Hget. destruct (lookup k ok) as [c|] eqn:Ec; [|discriminate].
    pose proof (wf_all_lookup _ _ _ Hall Ec) as Hc.
    unfold merge1. destruct (lookup k bk) as [b|]; auto.
    destruct (is_node b && is_node c); auto.
Qed.

(* the overlay is silent about path p (relative to base): along p both are dictionaries until
   the overlay lacks the next key *)
Fixpoint silent (p : list string) (base ov : tree) : Prop :=
  match p, base, ov with
  | k :: r, Node bk, Node ok =>
      match lookup k ok with
      | None => True
      | Some c => match lookup k bk with
                  | Some b => is_node b = true /\ is_node c = true /\ silent r b c
                  | None => False
                  end
      end
  | _, _, _ => False
  end.

Lemma base_kept_where_silent p : forall base ov,
  wf ov = true -> silent p base ov -> get p (du base ov) = get p base.
Proof.
  induction p as [|k r IH]; intros base ov Hwf Hs; [destruct base, ov; cbn in Hs; contradiction|].
  destruct base as [y|bk]; [cbn in Hs; contradiction|].
  destruct ov as [x|ok]; [cbn in Hs; contradiction|].
  rewrite wf_node in Hwf. apply andb_true_iff in Hwf as [Hnd Hall].
  rewrite du_get_step by assumption. cbn [silent] in Hs. cbn [get].
  destruct (lookup k ok) as [c|] eqn:Ec; auto.
  destruct (lookup k bk) as [b|] eqn:Eb; [|contradiction].
  destruct Hs as (Hb & Hc & Hs). unfold merge1. rewrite Hb, Hc. cbn.
  apply IH; auto. eapply wf_all_lookup; eauto.
Qed.

(* wf is preserved by merging *)
Lemma keys_in_set k k' v l : keys_in k (set k' v l) = keys_in k l || String.eqb k k'.
Proof.
  induction l as [|[k2 v2] r IH]; cbn.
  - now rewrite orb_false_r.
  - destruct (String.eqb k' k2) eqn:E; cbn.
    + apply String.eqb_eq in E; subst. destruct (String.eqb k k2); cbn; auto. now rewrite orb_false_r.
    + rewrite IH. now rewrite orb_assoc.
Qed.

Lemma nodup_set k v l : nodup_keys l = true -> nodup_keys (set k v l) = true.
Proof.
  induction l as [|[k2 v2] r IH]; cbn; auto.
  intros H. apply andb_true_iff in H as [H1 H2].
  destruct (String.eqb k k2) eqn:E; cbn.
  - now rewrite H1, H2.
  - rewrite keys_in_set. apply negb_true_iff in H1. rewrite H1. cbn.
    rewrite String.eqb_sym, E. cbn. auto.
Qed.

Lemma wf_all_set k v l : wf v = true -> wf_all l = true -> wf_all (set k v l) = true.
Proof.
  intros Hv. induction l as [|[k2 v2] r IH]; cbn.
  - now rewrite Hv.
  - intros H. apply andb_true_iff in H as [H1 H2].
    destruct (String.eqb k k2); cbn; rewrite ?Hv, ?H1, ?H2; auto; try now rewrite IH.
Qed.

Lemma lookup_wf k l b : wf_all l = true -> lookup k l = Some b -> wf b = true.
Proof. apply wf_all_lookup. Qed.

Lemma du_wf : forall ov base, wf base = true -> wf ov = true -> wf (du base ov) = true.
Proof.
  fix IH 1. intros ov base Hb Ho.
  destruct ov as [x|ok]; [reflexivity|].
  destruct base as [y|bk]; [now rewrite du_leaf_l|].
  rewrite du_node. rewrite wf_node in *.
  apply andb_true_iff in Hb as [Hb1 Hb2]. apply andb_true_iff in Ho as [Ho1 Ho2].
  clear Ho1. revert bk Hb1 Hb2.
  induction ok as [|[k v] rest IHl]; intros bk Hb1 Hb2; cbn.
  - now rewrite Hb1, Hb2.
  - cbn in Ho2. apply andb_true_iff in Ho2 as [Hv Hrest].
    apply IHl; auto.
    + now apply nodup_set.
    + apply wf_all_set; auto. unfold merge1.
      destruct (lookup k bk) as [b|] eqn:Eb; auto.
      destruct (is_node b && is_node v); auto.
      apply IH; auto. eapply lookup_wf; eauto.
Qed.

(* three layers: defaults, file, keyword arguments *)
Lemma kwargs_leaf_wins d f k p v :
  wf f = true -> wf k = true -> get p k = Some (Leaf v) -> get p (effective d f k) = Some (Leaf v).
Proof.
  intros Hf Hk Hg. unfold effective. apply overlay_leaf_wins.
  - apply du_wf; auto.
  - now apply overlay_leaf_wins.
Qed.

Lemma file_leaf_wins_when_kwargs_silent d f k p v :
  wf f = true -> wf k = true -> silent p f k -> get p f = Some (Leaf v) ->
  get p (effective d f k) = Some (Leaf v).
Proof.
  intros Hf Hk Hs Hg. unfold effective. apply overlay_leaf_wins.
  - apply du_wf; auto.
  - rewrite base_kept_where_silent; auto.
Qed.

Lemma defaults_kept_when_overlays_silent d f k p :
  wf f = true -> wf k = true -> silent p d (du f k) ->
  get p (effective d f k) = get p d.
Proof.
  intros Hf Hk Hs. unfold effective. apply base_kept_where_silent; auto. apply du_wf; auto.
Qed.

(* ---------- the state machine ---------- *)
Lemma step_refines_spec d s o : step d true s o = spec_step d s o.
Proof. destruct o as [f k fk| | |p|p]; destruct s; try destruct fk; reflexivity. Qed.

Lemma run_refines_spec d : forall ops s, run d true s ops = spec_run d s ops.
Proof.
  induction ops as [|o r IH]; intros s; cbn; auto.
  rewrite step_refines_spec. destruct (spec_step d s o) as [s1 x]. now rewrite IH.
Qed.

Lemma successful_load_only_when_unset d late s f k fk s' :
  step d late s (Load f k fk) = (s', OkUnit) -> s = None /\ fk = FkNone /\ s' = Some (effective d f k).
Proof.
  destruct fk, s; cbn; try destruct late; intros H; inversion H; auto.
Qed.

Lemma load_while_active_refused d late c f k fk :
  exists e, step d late (Some c) (Load f k fk) = (Some c, e) /\ e <> OkUnit.
Proof. destruct fk; cbn; eexists; split; eauto; discriminate. Qed.

Lemma mutation_refused d late c p : step d late (Some c) (Mutate p) = (Some c, ErrFrozen).
Proof. reflexivity. Qed.

Lemma read_before_load_refused d late p :
  step d late None (Read p) = (None, ErrNotSet) /\ step d late None Get = (None, ErrNotSet)
  /\ step d late None (Mutate p) = (None, ErrNotSet).
Proof. repeat split. Qed.

Lemma reset_allows_reload d late s f k :
  let (s1, _) := step d late s Reset in
  step d late s1 (Load f k FkNone) = (Some (effective d f k), OkUnit).
Proof. reflexivity. Qed.

Lemma failed_load_leaves_unset d f k fk :
  fk <> FkNone -> fst (step d true None (Load f k fk)) = None.
Proof. destruct fk; cbn; auto. contradiction. Qed.

Lemma failed_then_valid_load_succeeds d f k fk f' k' :
  fk <> FkNone ->
  step d true (fst (step d true None (Load f k fk))) (Load f' k' FkNone)
  = (Some (effective d f' k'), OkUnit).
Proof. intros H. rewrite failed_load_leaves_unset by assumption. reflexivity. Qed.

(* only Reset and a successful Load ever change the active configuration *)
Definition quiet (o : op) : bool := match o with Load _ _ _ | Reset => false | _ => true end.
Lemma config_immutable_between_loads d late : forall ops s,
  forallb quiet ops = true -> fst (run d late s ops) = s.
Proof.
  induction ops as [|o r IH]; intros s H; cbn; auto.
  cbn in H. apply andb_true_iff in H as [Ho Hr].
  destruct o; try discriminate; destruct s; cbn;
    match goal with |- fst (let (_, _) := run ?d ?l ?s ?r in _) = _ =>
      specialize (IH s Hr); destruct (run d l s r); cbn in *; auto end.
Qed.

(* the code before the fix registered the singleton before path resolution *)
Lemma path_failure_leaves_set_before_fix :
  exists d f k, fst (step d false None (Load f k FkPath)) <> None
             /\ snd (step d false (fst (step d false None (Load f k FkPath))) (Load f k FkNone)) = ErrAlready.
Proof. exists (Node []), (Node []), (Node []). cbn. split; [discriminate|reflexivity]. Qed.

(* ---------- the generalised machine: validators and frozen flags as data ---------- *)
Lemma run_validators_repaired pf s c :
  run_validators repaired_stages pf s c =
    match s with
    | Some _ => (s, ErrAlready)
    | None => if pf then (None, ErrPath) else (Some c, OkUnit)
    end.
Proof. destruct s, pf; reflexivity. Qed.

Lemma run_validators_found pf s c :
  run_validators found_stages pf s c =
    match s with
    | Some _ => (s, ErrAlready)
    | None => if pf then (Some c, ErrPath) else (Some c, OkUnit)
    end.
Proof. destruct s, pf; reflexivity. Qed.

(* with all owners frozen and the repaired / as-found stage list the general machine IS the machine the
   property theorems are about *)
Lemma step_g_is_step d (late : bool) (vs : list vstage) s o :
  vs = (if late then repaired_stages else found_stages) ->
  step_g d vs (fun _ => true) s o = step d late s (forget o).
Proof.
  intros ->. destruct o as [f k fk| | |p|p v]; cbn [step_g step forget]; try reflexivity.
  all: try (destruct fk; try reflexivity; destruct late;
            rewrite ?run_validators_repaired, ?run_validators_found; destruct s; reflexivity).
  all: try (destruct s; reflexivity).
Qed.

Lemma run_g_is_run d (late : bool) vs : vs = (if late then repaired_stages else found_stages) ->
  forall ops s, run_g d vs (fun _ => true) s ops = run d late s (map forget ops).
Proof.
  intros Hvs. induction ops as [|o r IH]; intros s; cbn [run_g run map]; auto.
  rewrite (step_g_is_step d late vs s o Hvs). destruct (step d late s (forget o)) as [s1 x].
  now rewrite IH.
Qed.

(* the general law: when no raising stage follows a registration, a failing load leaves the state as it was,
   and in particular an unconfigured system stays unconfigured — for EVERY validator list *)
Lemma failing_validators_keep_state : forall vs s c s' e,
  nothing_fails_after_register vs false = true ->
  run_validators vs true s c = (s', e) -> e <> OkUnit -> s' = s.
Proof.
  induction vs as [|v r IH]; intros s c s' e Hn Hr He; cbn in *.
  - inversion Hr; subst. contradiction.
  - destruct v.
    + destruct s; [inversion Hr; auto|]. eapply IH; eauto.
    + inversion Hr; auto.
    + (* VRegister: nothing can fail afterwards, so the run cannot end in an error *)
      exfalso. clear IH. revert Hn Hr He. generalize (Some c) as s0. clear s.
      induction r as [|v r IHr]; intros s0 Hn Hr He; cbn in *.
      * inversion Hr; subst. contradiction.
      * destruct v; cbn in Hn; try discriminate. eapply IHr; eauto.
Qed.

Lemma failed_load_leaves_unset_general d vs frozen f k fk :
  nothing_fails_after_register vs false = true ->
  snd (step_g d vs frozen None (LoadG f k fk)) <> OkUnit ->
  fst (step_g d vs frozen None (LoadG f k fk)) = None.
Proof.
  intros Hn He. destruct fk; cbn [step_g] in *; try reflexivity.
  - destruct (run_validators vs false None (effective d f k)) as [s1 e1] eqn:E. cbn in *.
    (* without a path failure the only error a run from the unset state can end in would have to come
       from a stage after a registration, which the side condition excludes *)
    revert E He. generalize (effective d f k) as c. intros c E He.
    assert (G : forall vs0 s0 s2 e2, nothing_fails_after_register vs0 (match s0 with Some _ => true | None => false end) = true ->
              run_validators vs0 false s0 c = (s2, e2) -> e2 <> OkUnit -> False).
    { clear. induction vs0 as [|v r IH]; intros s0 s2 e2 Hn Hr Hne; cbn in *.
      - inversion Hr; subst; contradiction.
      - destruct v; cbn in Hn.
        + destruct s0; cbn in Hn; [discriminate|]. eapply (IH None); eauto.
        + destruct s0; cbn in Hn; [discriminate|]. eapply (IH None); eauto.
        + eapply (IH (Some c)); eauto. }
    exfalso. eapply (G vs None); eauto.
  - destruct (run_validators vs true None (effective d f k)) as [s1 e1] eqn:E. cbn in *.
    eapply failing_validators_keep_state; eauto.
Qed.

Lemma repaired_stages_ok : nothing_fails_after_register repaired_stages false = true.
Proof. reflexivity. Qed.
Lemma found_stages_not_ok : nothing_fails_after_register found_stages false = false.
Proof. reflexivity. Qed.

(* frozen owners: a mutation is refused and changes nothing; an unfrozen owner really is mutable *)
Lemma frozen_owner_refuses d vs frozen c p v :
  frozen (owner p) = true -> step_g d vs frozen (Some c) (MutateG p v) = (Some c, ErrFrozen).
Proof. intros H. cbn. now rewrite H. Qed.

Definition quiet_g (o : opg) : bool := match o with LoadG _ _ _ | ResetG => false | _ => true end.

Lemma all_frozen_config_immutable d vs frozen :
  (forall p, frozen p = true) ->
  forall ops s, forallb quiet_g ops = true -> fst (run_g d vs frozen s ops) = s.
Proof.
  intros Hf. induction ops as [|o r IH]; intros s H; cbn [run_g]; auto.
  cbn in H. apply andb_true_iff in H as [Ho Hr].
  destruct o as [f k fk| | |p|p v]; try discriminate; cbn [step_g];
    destruct s as [c|]; rewrite ?Hf;
    match goal with |- fst (let (_, _) := run_g ?d ?vs ?fz ?s ?r in _) = _ =>
      specialize (IH s Hr); destruct (run_g d vs fz s r); cbn in *; auto end.
Qed.

Lemma unfrozen_section_is_mutable :
  exists (d : tree) (frozen : list string -> bool) (c : tree) (p : list string) (v : Z),
    frozen (owner p) = false /\
    fst (step_g d repaired_stages frozen (Some c) (MutateG p v)) <> Some c /\
    get p (match fst (step_g d repaired_stages frozen (Some c) (MutateG p v)) with Some t => t | None => c end)
      = Some (Leaf v).
Proof.
  exists (Node []), (fun p => match p with ["emissions"%string] => false | _ => true end),
         (Node [("emissions"%string, Node [("sox_enabled"%string, Leaf 1)])]),
         ["emissions"%string; "sox_enabled"%string], 0%Z.
  cbn. repeat split; try reflexivity. discriminate.
Qed.

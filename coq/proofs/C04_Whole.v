(* C04 — whole-call conservation for a trajectory that crosses the antimeridian once, and exact conservation
   under an additive (L1) metric for any segment, with a concrete four-piece instance. *)
From Coq Require Import ZArith List Bool Reals Lra Lia Permutation Sorted.
From AV Require Import lib.Num model.C04_Model proofs.C04_Proofs proofs.C05_Sorting proofs.C05_Cells proofs.C05_Proofs.
Import ListNotations.
Local Open Scope R_scope.

Lemma first_nonzero_lt (l : list Z) k : (1 <= count_nonzero l)%nat -> (first_nonzero l k < k + length l)%nat.
Proof.
  revert k. induction l as [|x l IH]; intros k H; [unfold count_nonzero in H; simpl in H; lia|].
  cbn [first_nonzero]. destruct (x =? 0)%Z eqn:E.
  - unfold count_nonzero in *. cbn [filter] in H. rewrite E in H. cbn [negb] in H.
    specialize (IH (S k) H). simpl length. lia.
  - simpl length. lia.
Qed.

Lemma firstn_nonneg n (l : list R) : Forall (fun v => 0 <= v) l -> Forall (fun v => 0 <= v) (firstn n l).
Proof. apply Forall_firstn. Qed.

Lemma nth_nonneg (l : list R) i : Forall (fun v => 0 <= v) l -> 0 <= nth i l 0.
Proof.
  intros H. destruct (Nat.lt_ge_cases i (length l)) as [L|G].
  - rewrite Forall_forall in H. apply H. apply nth_In. exact L.
  - rewrite nth_overflow by exact G. lra.
Qed.

Lemma split_val_nonneg first (v len total : R) :
  0 <= v -> 0 <= len -> 0 <= total -> 0 <= @split_val RNum true first v len total.
Proof.
  intros Hv Hl Ht. unfold split_val. cbn [eqb RNum zero mul div andb].
  destruct (Reqb total 0) eqn:E.
  - destruct first; lra.
  - apply Reqb_false in E. unfold Rdiv. apply Rmult_le_pos; [apply Rmult_le_pos; assumption|].
    left. apply Rinv_0_lt_compat. lra.
Qed.

Section CrossWhole.
  Variable dist : Rpoint -> Rpoint -> R.
  Hypothesis dist_nonneg : forall p q, 0 <= dist p q.
  Hypothesis dist_tri : forall p q r, dist p r <= dist p q + dist q r.

  Lemma attach_fst_nonneg geom : Forall (fun x => 0 <= fst x) (@attach_dists RNum dist geom).
  Proof.
    unfold attach_dists. apply Forall_forall. intros x Hx. apply in_map_iff in Hx.
    destruct Hx as [g [<- _]]. cbn [fst]. apply dist_nonneg.
  Qed.

  Lemma last_fst_nonneg (dd : list (R * list R)) :
    Forall (fun x => 0 <= fst x) dd -> 0 <= fst (last dd (0, [])).
  Proof.
    induction 1 as [|x l Hx _ IH]; [simpl; lra|]. destruct l; [exact Hx|exact IH].
  Qed.

  Lemma hd_fst_nonneg (dd : list (R * list R)) :
    Forall (fun x => 0 <= fst x) dd -> 0 <= fst (hd (0, []) dd).
  Proof. intros H. destruct H; simpl; [lra|assumption]. Qed.

  (* gridded total >= trajectory total for a trajectory that crosses the antimeridian ONCE (repaired fraction
     rule and repaired zero-length split), any pseudo-metric, any grid *)
  Theorem grid_total_ge_crossing clamp fixdl fixe glat glon (pts : list Rpoint) (var : list R) :
    count_nonzero (@crossings RNum (map snd pts)) = 1%nat ->
    length var = length (pairs pts) ->
    Forall (fun v => 0 <= v) var ->
    forall out, @grid_integrated RNum dist clamp true fixdl fixe true glat glon pts [var] = [out] ->
                Rsum var <= Rsum out.
  Proof.
    intros H Hl Hv out E. unfold grid_integrated in E.
    rewrite (crossing_parts clamp fixdl fixe glat glon [] [] pts None None [] H) in E.
    cbn [map] in E. rewrite !part_run_geom in E.
    set (cr := @crossings RNum (map snd pts)) in *.
    set (i := first_nonzero cr O) in *.
    set (sg := nth i cr 0%Z) in *.
    set (X := (@crossing_lat RNum fixdl fixe sg (nth i pts (0, 0)) (nth (S i) pts (0, 0)), @exit_lon RNum sg)) in *.
    set (X' := (@crossing_lat RNum fixdl fixe sg (nth i pts (0, 0)) (nth (S i) pts (0, 0)), @entry_lon RNum sg)) in *.
    assert (Hi : (i < length var)%nat).
    { pose proof (first_nonzero_lt cr O) as F. rewrite H in F. specialize (F (le_n 1)).
      unfold cr, crossings in F. rewrite map_length, pairs_length, map_length in F.
      rewrite Hl, pairs_length. exact F. }
    assert (Hp : length pts = S (length var)).
    { rewrite pairs_length in Hl. destruct pts; simpl in *; lia. }
    refine (values_dateline_ge true true i var _ _ Hi (or_intror eq_refl) _ _ out E).
    - (* first part *)
      unfold part_geometry. apply segs_good; try assumption; [| |left; reflexivity].
      + unfold first_vals, first_part. rewrite app_length, firstn_length, pairs_length, app_length, firstn_length.
        cbn [length]. rewrite Hp. change (T RNum) with R in *. lia.
      + unfold first_vals. rewrite Forall_app. split; [apply firstn_nonneg; exact Hv|].
        constructor; [|constructor]. apply split_val_nonneg.
        * apply nth_nonneg. exact Hv.
        * apply last_fst_nonneg, attach_fst_nonneg.
        * pose proof (last_fst_nonneg _ (attach_fst_nonneg (@part_geometry RNum clamp glat glon (first_part pts i X)))).
          pose proof (hd_fst_nonneg _ (attach_fst_nonneg (@part_geometry RNum clamp glat glon (second_part pts i X')))).
          cbn [add RNum]. unfold part_geometry in *. lra.
    - (* second part *)
      unfold part_geometry. apply segs_good; try assumption; [| |left; reflexivity].
      + unfold second_vals, second_part. cbn [length]. rewrite skipn_length, pairs_length. cbn [length].
        rewrite skipn_length, Hp. change (T RNum) with R in *. lia.
      + unfold second_vals. constructor; [|apply Forall_skipn; exact Hv]. apply split_val_nonneg.
        * apply nth_nonneg. exact Hv.
        * apply hd_fst_nonneg, attach_fst_nonneg.
        * pose proof (last_fst_nonneg _ (attach_fst_nonneg (@part_geometry RNum clamp glat glon (first_part pts i X)))).
          pose proof (hd_fst_nonneg _ (attach_fst_nonneg (@part_geometry RNum clamp glat glon (second_part pts i X')))).
          cbn [add RNum]. unfold part_geometry in *. lra.
  Qed.
End CrossWhole.

(* ---------- exact conservation under the additive L1 metric ---------- *)

Lemma sorted_le_telescope (l : list R) :
  StronglySorted Rle l ->
  Rsum (map (fun ab => Rabs (fst ab - snd ab)) (pairs l)) = last l 0 - hd 0 l \/ l = [].
Proof.
  induction 1 as [|a l S IH F]; [right; reflexivity|]. left.
  destruct l as [|b l]; [simpl; lra|]. rewrite pairs_cons2'. cbn [map Rsum fst snd hd].
  destruct IH as [IH|IH]; [|discriminate]. rewrite IH. cbn [hd].
  inversion F as [|? ? Hab _]; subst.
  rewrite Rabs_left1 by lra.
  change (last (a :: b :: l) 0) with (last (b :: l) 0). lra.
Qed.

Lemma sorted_ge_telescope (l : list R) :
  StronglySorted Rge l ->
  Rsum (map (fun ab => Rabs (fst ab - snd ab)) (pairs l)) = hd 0 l - last l 0 \/ l = [].
Proof.
  induction 1 as [|a l S IH F]; [right; reflexivity|]. left.
  destruct l as [|b l]; [simpl; lra|]. rewrite pairs_cons2'. cbn [map Rsum fst snd hd].
  destruct IH as [IH|IH]; [|discriminate]. rewrite IH. cbn [hd].
  inversion F as [|? ? Hab _]; subst.
  rewrite Rabs_right by lra.
  change (last (a :: b :: l) 0) with (last (b :: l) 0). lra.
Qed.

Lemma mono_abs_sum (x0 x1 : R) (I : list R) :
  mono (x0 :: I ++ [x1]) ->
  Rsum (map (fun ab => Rabs (fst ab - snd ab)) (pairs (x0 :: I ++ [x1]))) = Rabs (x0 - x1).
Proof.
  intros [S|S].
  - destruct (sorted_le_telescope _ S) as [E|E]; [|discriminate]. rewrite E. cbn [hd].
    change (x0 :: I ++ [x1]) with ((x0 :: I) ++ [x1]). rewrite last_last.
    inversion S as [|? ? _ F]; subst. rewrite Forall_forall in F.
    assert (x0 <= x1) by (apply F, in_or_app; right; left; reflexivity).
    rewrite Rabs_left1 by lra. lra.
  - destruct (sorted_ge_telescope _ S) as [E|E]; [|discriminate]. rewrite E. cbn [hd].
    change (x0 :: I ++ [x1]) with ((x0 :: I) ++ [x1]). rewrite last_last.
    inversion S as [|? ? _ F]; subst. rewrite Forall_forall in F.
    assert (x0 >= x1) by (apply F, in_or_app; right; left; reflexivity).
    rewrite Rabs_right by lra. lra.
Qed.

Lemma Rsum_plus {A} (f h : A -> R) (l : list A) :
  Rsum (map (fun x => f x + h x) l) = Rsum (map f l) + Rsum (map h l).
Proof. induction l as [|a l IH]; simpl; [lra|rewrite IH; lra]. Qed.

(* for EVERY admissible segment the chain of piece end points is exactly as long as the segment in the L1
   metric: gridding is then exactly conservative *)
Theorem l1_chain_exact clamp (glat glon : list R) (lat0 lon0 lat1 lon1 : R) :
  incr glat -> incr glon ->
  okx clamp glat lat0 -> okx clamp glat lat1 -> okx clamp glon lon0 -> okx clamp glon lon1 ->
  Rsum (chain_dists f3_dist (chain clamp glat glon lat0 lon0 lat1 lon1)) = f3_dist (lat0, lon0) (lat1, lon1).
Proof.
  intros Hg1 Hg2 A0 A1 B0 B1.
  unfold chain_dists, f3_dist. rewrite (Rsum_plus (fun ab : Rpoint * Rpoint => Rabs (fst (fst ab) - fst (snd ab)))
                                                  (fun ab => Rabs (snd (fst ab) - snd (snd ab)))).
  cbn [fst snd].
  pose proof (lat_chain_mono clamp glat glon lat0 lon0 lat1 lon1 Hg1 Hg2 A0 A1 B0 B1) as M1.
  pose proof (lon_chain_mono clamp glat glon lat0 lon0 lat1 lon1 Hg1 Hg2 A0 A1 B0 B1) as M2.
  rewrite <- (mono_abs_sum lat0 lat1 _ M1), <- (mono_abs_sum lon0 lon1 _ M2).
  rewrite <- (chain_lat clamp glat glon lat0 lon0 lat1 lon1), <- (chain_lon clamp glat glon lat0 lon0 lat1 lon1).
  rewrite !pairs_map, !map_map. cbn [fst snd]. reflexivity.
Qed.

(* ---------- a concrete segment with four pieces ---------- *)

Definition ex_grid : list R := [0; 1; 2; 3].
Definition ex_pts : list Rpoint := [(/2, /2); (5/2, 2)].

Lemma ex_incr : incr ex_grid.
Proof. unfold ex_grid. repeat constructor; lra. Qed.

Lemma ex_inside x : 0 < x <= 3 -> inside ex_grid x.
Proof. intros H. unfold inside, ex_grid, gn, glen. simpl. lra. Qed.

Lemma ex_no_crossing : count_nonzero (@crossings RNum (map snd ex_pts)) = O.
Proof.
  unfold ex_pts. cbn [map snd crossings pairs fst]. unfold crossing. cbn [sub RNum nabs ltb].
  assert (L : Rltb (@pi RNum) (Rabs (2 - /2)) = false).
  { apply Rltb_false. unfold pi. cbn [lit RNum]. rewrite Rabs_right by lra. lra. }
  rewrite L. reflexivity.
Qed.

Lemma ex_cells_count :
  length (cells false ex_grid ex_grid (/2) (/2) (5/2) 2) = 4%nat.
Proof.
  pose proof (chain_first_last false ex_grid ex_grid (/2) (/2) (5/2) 2) as [_ [_ Hc]].
  assert (Hl : length (chain false ex_grid ex_grid (/2) (/2) (5/2) 2) = 5%nat).
  { unfold chain. cbn [length]. rewrite app_length. cbn [length]. unfold ipts.
    rewrite combine_length, <- ilats_ilons_length, Nat.min_id, ilats_length.
    unfold a0, a1, b0, b1, cell_index, ss_left, ex_grid. cbn [ltb RNum]. rdec. reflexivity. }
  rewrite Hl in Hc. lia.
Qed.

(* 6 units carried by a segment that crosses two latitude lines and one longitude line are gridded into four
   pieces that add up to exactly 6 under the additive L1 metric *)
Lemma ex_dists :
  @attach_dists RNum f3_dist (@part_geometry RNum false ex_grid ex_grid ex_pts)
  = [(f3_dist (/2, /2) (5/2, 2), chain_dists f3_dist (chain false ex_grid ex_grid (/2) (/2) (5/2) 2))].
Proof.
  unfold ex_pts, part_geometry. cbn [pairs map fst snd].
  rewrite (seg_geometry_unfold false ex_grid ex_grid (/2) (/2) (5/2) 2).
  unfold attach_dists. cbn [map snd]. f_equal. f_equal. f_equal.
  apply (chain_first_last false ex_grid ex_grid (/2) (/2) (5/2) 2).
Qed.

Theorem ex_four_pieces_exact :
  exists out,
    @grid_integrated RNum f3_dist false true true true true ex_grid ex_grid ex_pts [[6]] = [out] /\
    length out = 4%nat /\ Rsum out = 6.
Proof.
  eexists. split; [rewrite grid_integrated_no_crossing by exact ex_no_crossing; cbn [map]; reflexivity|].
  rewrite ex_dists. unfold part_values. cbn [map2 concat fst snd]. rewrite app_nil_r. split.
  - unfold seg_values, chain_dists. rewrite !map_length, pairs_length.
    pose proof (chain_first_last false ex_grid ex_grid (/2) (/2) (5/2) 2) as [_ [_ Hc]].
    rewrite Hc, ex_cells_count. reflexivity.
  - apply seg_values_exact.
    + unfold f3_dist. cbn [fst snd]. rewrite !Rabs_left1 by lra. lra.
    + apply (l1_chain_exact false ex_grid ex_grid (/2) (/2) (5/2) 2 ex_incr ex_incr);
        left; apply ex_inside; lra.
Qed.

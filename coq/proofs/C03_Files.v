(* C03 — proofs, part 3: the files of a store taken separately (each with its own species dimension
   and its own variables) behave exactly like the merged view the round-trip theorems are about. *)
From Coq Require Import ZArith List String Bool Arith Lia.
From AV Require Import model.C03_Model proofs.C03_Proofs proofs.C03_Store.
Import ListNotations.
Local Open Scope list_scope.

Definition key_fs (k : key) : nat := fst (fst (fst (fst k))).

(* ---- lists of cells ------------------------------------------------------------------------- *)
Lemma get_app : forall k a b, get k (a ++ b) = match get k a with Some v => Some v | None => get k b end.
Proof. induction a as [| [l v] r IH]; intro b; simpl; auto. destruct (key_eqb k l); auto. Qed.

Lemma get_in : forall k c v, get k c = Some v -> In (k, v) c.
Proof.
  induction c as [| [l w] r IH]; intros v H; simpl in *; [discriminate |].
  destruct (key_eqb k l) eqn:E.
  - apply key_eqb_eq in E. inversion H; subst. now left.
  - right. now apply IH.
Qed.

Lemma in_get : forall k v c, In (k, v) c -> get k c <> None.
Proof.
  induction c as [| [l w] r IH]; intro H; simpl in *; [contradiction |].
  destruct (key_eqb k l) eqn:E; [discriminate |].
  destruct H as [H | H]; [inversion H; subst; now rewrite key_eqb_refl in E | now apply IH].
Qed.

Lemma get_none_foreign : forall k c, (forall kv, In kv c -> key_fs (fst kv) <> key_fs k) -> get k c = None.
Proof.
  intros k c H. destruct (get k c) eqn:E; auto. apply get_in in E. exfalso. exact (H _ E eq_refl).
Qed.

(* apply_patches only prepends *)
Lemma apply_patches_app : forall p ps c, apply_patches p ps c = apply_patches p ps [] ++ c.
Proof.
  intros p ps. unfold apply_patches.
  assert (G : forall c acc, fold_left (fun a q => put (p, fst (fst q), snd (fst q)) (snd q) a) ps (acc ++ c) =
                            fold_left (fun a q => put (p, fst (fst q), snd (fst q)) (snd q) a) ps acc ++ c).
  { induction ps as [| q r IH]; intros c acc; simpl; auto. unfold put at 2 4. rewrite <- IH. reflexivity. }
  intro c. exact (G c []).
Qed.

Lemma apply_patches_keys : forall p ps kv, In kv (apply_patches p ps []) -> fst (fst (fst kv)) = p.
Proof.
  intros p ps. unfold apply_patches.
  assert (G : forall acc, (forall kv, In kv acc -> fst (fst (fst kv)) = p) ->
              forall kv, In kv (fold_left (fun a q => put (p, fst (fst q), snd (fst q)) (snd q) a) ps acc) ->
                         fst (fst (fst kv)) = p).
  { induction ps as [| q r IH]; intros acc Hacc kv Hin; simpl in Hin; auto.
    apply (IH _) in Hin; auto. intros kv' [<- | H']; auto. }
  apply G. intros kv [].
Qed.

(* what write_fields does to the cells it is given does not depend on them: it prepends a block of
   cells of its own field set, or fails *)
Lemma write_fields_shape : forall fixed L fs i ms vs fld,
  (exists P, (forall c, write_fields fixed L fs i fld ms vs c = inl (P ++ c)) /\
             (forall kv, In kv P -> key_fs (fst kv) = fs))
  \/ (exists e, forall c, write_fields fixed L fs i fld ms vs c = inr e).
Proof.
  intros fixed L fs i ms. induction ms as [| m ms IH]; intros vs fld.
  - left. exists []. split; [reflexivity | intros kv []].
  - destruct vs as [| v vs]; [right; exists EOther; reflexivity |].
    simpl. unfold write_field. destruct (field_patches fixed L m v) as [ps | e] eqn:E.
    + destruct (IH vs (S fld)) as [(P & HP & HK) | (e & He)].
      * left. exists (P ++ apply_patches (fs, fld, i) ps []). split.
        -- intro c. rewrite HP, (apply_patches_app _ _ c). now rewrite app_assoc.
        -- intros kv Hin. apply in_app_or in Hin. destruct Hin as [Hin | Hin]; auto.
           apply apply_patches_keys in Hin. unfold key_fs. now rewrite Hin.
      * right. exists e. intro c. apply He.
    + right. exists e. reflexivity.
Qed.

(* ---- files ------------------------------------------------------------------------------------ *)
Definition owns (f : ncfile) : Prop := forall kv, In kv (f_cells f) -> In (key_fs (fst kv)) (f_sets f).
Definition wf (cst : cstore) : Prop := Forall owns cst /\ NoDup (flat_map f_sets cst).

Lemma memb_in : forall x l, memb x l = true <-> In x l.
Proof.
  intros x l. unfold memb. rewrite existsb_exists. split.
  - intros [y [Hy E]]. apply Nat.eqb_eq in E. now subst.
  - intro H. exists x. split; auto. apply Nat.eqb_refl.
Qed.

Lemma file_index_spec : forall fs cst j, file_index fs cst = Some j ->
  j < List.length cst /\ In fs (f_sets (nth j cst no_file)).
Proof.
  intros fs cst. induction cst as [| f r IH]; intros j H; simpl in *; [discriminate |].
  destruct (memb fs (f_sets f)) eqn:E.
  - inversion H; subst. split; [lia | now apply memb_in].
  - destruct (file_index fs r) as [k |]; [| discriminate]. inversion H; subst.
    destruct (IH k eq_refl). split; [lia | auto].
Qed.

Lemma file_index_none : forall fs cst, file_index fs cst = None -> forall f, In f cst -> ~ In fs (f_sets f).
Proof.
  intros fs cst. induction cst as [| f r IH]; intros H g Hg; simpl in *; [contradiction |].
  destruct (memb fs (f_sets f)) eqn:E; [discriminate |].
  destruct (file_index fs r); [discriminate |].
  destruct Hg as [<- | Hg]; [| now apply IH].
  intro Hin. apply memb_in in Hin. congruence.
Qed.

Lemma nodup_app_r : forall {A} (a b : list A), NoDup (a ++ b) -> NoDup b.
Proof. induction a; simpl; intros b H; auto. inversion H; auto. Qed.

Lemma nodup_app_intro : forall {A} (a b : list A), NoDup a -> NoDup b ->
  (forall x, In x a -> In x b -> False) -> NoDup (a ++ b).
Proof.
  induction a as [| y a IH]; simpl; intros b Ha Hb H; auto.
  inversion Ha; subst. constructor.
  - intro Hin. apply in_app_or in Hin. destruct Hin as [Hin | Hin]; [contradiction | apply (H y); auto].
  - apply IH; auto. intros x Hx. apply H. now right.
Qed.

Lemma nodup_app_disjoint : forall {A} (a b : list A) x, NoDup (a ++ b) -> In x a -> In x b -> False.
Proof.
  induction a as [| y a IH]; simpl; intros b x H Ha Hb; [contradiction |].
  inversion H; subst. destruct Ha as [-> | Ha]; [apply H2; apply in_or_app; now right | eauto].
Qed.

(* with disjoint field sets, the file that holds a field set is the only one that mentions it *)
Lemma file_index_unique : forall fs cst j j', NoDup (flat_map f_sets cst) ->
  file_index fs cst = Some j -> j' < List.length cst -> In fs (f_sets (nth j' cst no_file)) -> j' = j.
Proof.
  intros fs cst. induction cst as [| f r IH]; intros j j' Hnd H Hlt Hin; simpl in *; [lia |].
  pose proof (nodup_app_r _ _ Hnd) as Hndr.
  destruct (memb fs (f_sets f)) eqn:E.
  - inversion H; subst. destruct j' as [| j']; auto. exfalso.
    apply memb_in in E.
    apply (nodup_app_disjoint _ _ fs Hnd E).
    apply in_flat_map. exists (nth j' r no_file). split; auto. apply nth_In. lia.
  - destruct (file_index fs r) as [k |] eqn:Ek; [| discriminate]. inversion H; subst.
    destruct j' as [| j'].
    + exfalso. apply memb_in in Hin. congruence.
    + f_equal. apply IH; auto. lia.
Qed.

Lemma nth_update_same : forall {A} (l : list A) k x d, k < List.length l -> nth k (update_nth k x l) d = x.
Proof. induction l; intros k x d H; simpl in *; [lia |]. destruct k; simpl; auto. apply IHl. lia. Qed.

Lemma nth_update_other : forall {A} (l : list A) k k' x d, k' <> k -> nth k' (update_nth k x l) d = nth k' l d.
Proof.
  induction l; intros k k' x d H; simpl; [destruct k; reflexivity |].
  destruct k; destruct k'; simpl; auto; try congruence.
Qed.

Lemma update_nth_length : forall {A} (l : list A) k x, List.length (update_nth k x l) = List.length l.
Proof. induction l; intros k x; simpl; [destruct k; reflexivity |]. destruct k; simpl; auto. Qed.

Lemma file_index_update : forall fs cst k f', k < List.length cst -> f_sets f' = f_sets (nth k cst no_file) ->
  file_index fs (update_nth k f' cst) = file_index fs cst.
Proof.
  intros fs cst. induction cst as [| f r IH]; intros k f' Hk Hs; simpl in *; [lia |].
  destruct k; simpl.
  - now rewrite Hs.
  - rewrite IH; auto. lia.
Qed.

Lemma flat_sets_update : forall cst k f', k < List.length cst -> f_sets f' = f_sets (nth k cst no_file) ->
  flat_map f_sets (update_nth k f' cst) = flat_map f_sets cst.
Proof.
  induction cst as [| f r IH]; intros k f' Hk Hs; simpl in *; [lia |].
  destruct k; simpl; [now rewrite Hs | rewrite IH; auto; lia].
Qed.

(* ---- the merged view -------------------------------------------------------------------------- *)
Definition getc (k : key) (cst : cstore) : option cell :=
  match file_index (key_fs k) cst with
  | Some j => get k (f_cells (nth j cst no_file))
  | None => None
  end.

Record sim (cst : cstore) (st : store) : Prop := {
  sim_wf : wf cst;
  sim_species : forall fs, lookup fs (s_species st) =
                           match file_index fs cst with
                           | Some j => Some (f_species (nth j cst no_file))
                           | None => None
                           end;
  sim_cells : forall k, get k (s_cells st) = getc k cst
}.

Lemma write_traj_sim : forall fixed sc i t order cst st, sim cst st ->
  match write_traj_c fixed sc order i t cst, write_traj fixed sc order i t st with
  | inl c', inl s' => sim c' s'
  | inr e, inr e' => e = e'
  | _, _ => False
  end.
Proof.
  intros fixed sc i t. induction order as [| fs rest IH]; intros cst st Hsim; simpl; auto.
  rewrite (sim_species _ _ Hsim fs).
  destruct (file_index fs cst) as [j |] eqn:Ej; [| reflexivity].
  destruct (file_index_spec _ _ _ Ej) as [Hj Hfs].
  set (f := nth j cst no_file) in *.
  destruct (write_fields_shape fixed (f_species f) fs i (nth fs sc []) (nth fs t []) 0)
    as [(P & HP & HK) | (e & He)].
  2: { rewrite !He. reflexivity. }
  rewrite !HP. apply IH.
  destruct Hsim as [[Hown Hnd] Hsp Hc].
  assert (Hsets : f_sets (wrote f (P ++ f_cells f) i) = f_sets (nth j cst no_file)) by reflexivity.
  constructor.
  - split.
    + apply Forall_forall. intros g Hg. apply In_nth with (d := no_file) in Hg.
      destruct Hg as (k & Hk & <-). rewrite update_nth_length in Hk.
      destruct (Nat.eq_dec k j) as [-> | Hne].
      * rewrite nth_update_same by auto. intros kv Hin. simpl in Hin. apply in_app_or in Hin.
        destruct Hin as [Hin | Hin]; simpl.
        -- rewrite (HK _ Hin). exact Hfs.
        -- rewrite Forall_forall in Hown. apply (Hown f); [apply nth_In; auto | auto].
      * rewrite nth_update_other by auto. rewrite Forall_forall in Hown. apply Hown. now apply nth_In.
    + now rewrite flat_sets_update.
  - intro fs'. simpl. rewrite Hsp, file_index_update by auto.
    destruct (file_index fs' cst) as [j' |] eqn:Ej'; auto.
    destruct (Nat.eq_dec j' j) as [-> | Hne]; [now rewrite nth_update_same | now rewrite nth_update_other].
  - intro k. simpl. rewrite get_app. unfold getc. rewrite file_index_update by auto.
    destruct (file_index (key_fs k) cst) as [j' |] eqn:Ej'.
    + destruct (Nat.eq_dec j' j) as [-> | Hne].
      * rewrite nth_update_same by auto. simpl. rewrite get_app.
        specialize (Hc k). unfold getc in Hc. rewrite Ej' in Hc. fold f in Hc. now rewrite Hc.
      * rewrite nth_update_other by auto.
        rewrite (get_none_foreign k P).
        -- specialize (Hc k). unfold getc in Hc. now rewrite Ej' in Hc.
        -- intros kv Hin Heq. rewrite (HK _ Hin) in Heq. apply Hne.
           rewrite <- Heq in Ej'. congruence.
    + rewrite (get_none_foreign k P).
      * specialize (Hc k). unfold getc in Hc. now rewrite Ej' in Hc.
      * intros kv Hin Heq. rewrite (HK _ Hin) in Heq. rewrite <- Heq in Ej'. congruence.
Qed.

(* ---- reading ------------------------------------------------------------------------------------ *)
Lemma row_written_iff : forall fs fld i c,
  row_written fs fld i c = true <-> exists s mo, get ((fs, fld, i), s, mo) c <> None.
Proof.
  intros fs fld i c. unfold row_written. rewrite existsb_exists. split.
  - intros [[[[p s] mo] v] [Hin Hp]]. simpl in Hp. apply prefix_eqb_eq in Hp. subst p.
    exists s, mo. eapply in_get; eauto.
  - intros (s & mo & Hg). destruct (get (fs, fld, i, s, mo) c) as [v |] eqn:E; [| now elim Hg].
    apply get_in in E. exists ((fs, fld, i, s, mo), v). split; auto. simpl. now rewrite !Nat.eqb_refl.
Qed.

Lemma later_row_written_iff : forall fs fld i c,
  later_row_written fs fld i c = true <-> exists j s mo, i < j /\ get ((fs, fld, j), s, mo) c <> None.
Proof.
  intros fs fld i c. unfold later_row_written. rewrite existsb_exists. split.
  - intros [[[[[[a b] j] s] mo] v] [Hin Hp]]. simpl in Hp.
    apply andb_true_iff in Hp. destruct Hp as [Hp Hlt]. apply andb_true_iff in Hp. destruct Hp as [Ha Hb].
    apply Nat.eqb_eq in Ha, Hb. apply Nat.ltb_lt in Hlt. subst a b.
    exists j, s, mo. split; auto. eapply in_get; eauto.
  - intros (j & s & mo & Hlt & Hg). destruct (get (fs, fld, j, s, mo) c) as [v |] eqn:E; [| now elim Hg].
    apply get_in in E. exists ((fs, fld, j, s, mo), v). split; auto. simpl.
    rewrite !Nat.eqb_refl. simpl. now apply Nat.ltb_lt.
Qed.

Lemma bool_iff_eq : forall a b : bool, (a = true <-> b = true) -> a = b.
Proof. intros [] [] H; auto; destruct H as [H1 H2]; [symmetry; auto | auto]. Qed.

(* two cell maps that agree on the keys of a field set are read alike for that field set *)
Lemma read_fields_same : forall fixed L fs i c1 c2,
  (forall fld j s mo, get ((fs, fld, j), s, mo) c1 = get ((fs, fld, j), s, mo) c2) ->
  forall ms fld, read_fields fixed L c1 fs i fld ms = read_fields fixed L c2 fs i fld ms.
Proof.
  intros fixed L fs i c1 c2 H. induction ms as [| m ms IH]; intro fld; simpl; auto.
  rewrite IH. f_equal. f_equal.
  assert (Hh : str_hole m fs fld i c1 = str_hole m fs fld i c2).
  { unfold str_hole. destruct (fm_shape m); auto. destruct (fm_dtype m); auto. f_equal; [f_equal |].
    - apply bool_iff_eq. rewrite !row_written_iff. split; intros (s & mo & Hg); exists s, mo; [rewrite <- H | rewrite H]; auto.
    - apply bool_iff_eq. rewrite !later_row_written_iff.
      split; intros (j & s & mo & Hlt & Hg); exists j, s, mo; split; auto; [rewrite <- H | rewrite H]; auto. }
  rewrite Hh. destruct (str_hole m fs fld i c2); auto. f_equal.
  apply read_field_ext. intros s mo. unfold rd. now rewrite H.
Qed.

Lemma sim_file_cells : forall cst st fs j, sim cst st -> file_index fs cst = Some j ->
  forall fld i s mo, get ((fs, fld, i), s, mo) (f_cells (nth j cst no_file)) = get ((fs, fld, i), s, mo) (s_cells st).
Proof.
  intros cst st fs j Hsim Ej fld i s mo. rewrite (sim_cells _ _ Hsim). unfold getc. simpl.
  unfold key_fs. simpl. now rewrite Ej.
Qed.

Lemma read_raw_sim : forall fixed sc i order cst st, sim cst st ->
  read_raw_c fixed sc order i cst = read_raw fixed sc order i st.
Proof.
  intros fixed sc i. induction order as [| fs rest IH]; intros cst st Hsim; simpl; auto.
  rewrite (sim_species _ _ Hsim fs), (IH _ _ Hsim).
  destruct (file_index fs cst) as [j |] eqn:Ej; auto.
  destruct (read_raw fixed sc rest i st); auto.
  rewrite (read_fields_same fixed _ fs i _ (s_cells st)); auto.
  intros. eapply sim_file_cells; eauto.
Qed.

Lemma load_traj_sim : forall fixed sc i order cst st, sim cst st ->
  load_traj_c fixed sc order i cst = load_traj fixed sc order i st.
Proof. intros. unfold load_traj_c, load_traj. now rewrite (read_raw_sim _ _ _ _ _ _ H). Qed.

Lemma add_all_sim : forall fixed sc order ts i cst st, sim cst st ->
  sim (fst (add_all_c fixed sc order i ts cst)) (fst (add_all fixed sc order i ts st)) /\
  snd (add_all_c fixed sc order i ts cst) = snd (add_all fixed sc order i ts st).
Proof.
  intros fixed sc order ts. induction ts as [| t r IH]; intros i cst st Hsim; simpl; auto.
  pose proof (write_traj_sim fixed sc i t order cst st Hsim) as Hw.
  destruct (write_traj_c fixed sc order i t cst) as [c' | e], (write_traj fixed sc order i t st) as [s' | e'];
    try contradiction; simpl; auto.
  subst e'. auto.
Qed.

Lemma map_all_sim : forall fixed sc r1 m ts i cst st, sim cst st ->
  sim (fst (map_all_c fixed sc r1 m i ts cst)) (fst (map_all fixed sc r1 m i ts st)) /\
  snd (map_all_c fixed sc r1 m i ts cst) = snd (map_all fixed sc r1 m i ts st).
Proof.
  intros fixed sc r1 m ts. induction ts as [| t r IH]; intros i cst st Hsim; simpl; auto.
  rewrite (load_traj_sim fixed sc i r1 cst st Hsim).
  destruct (load_traj fixed sc r1 i st); simpl; auto.
  pose proof (write_traj_sim fixed sc i t m cst st Hsim) as Hw.
  destruct (write_traj_c fixed sc m i t cst) as [c' | e], (write_traj fixed sc m i t st) as [s' | e'];
    try contradiction; simpl; auto.
  subst e'. auto.
Qed.

Lemma read_all_sim : forall fixed sc order n i cst st, sim cst st ->
  read_all_c fixed sc order i n cst = read_all fixed sc order i n st.
Proof.
  intros fixed sc order. induction n as [| n IH]; intros i cst st Hsim; simpl; auto.
  now rewrite (load_traj_sim _ _ _ _ _ _ Hsim), (IH _ _ _ Hsim).
Qed.

(* ---- creation ----------------------------------------------------------------------------------- *)
Lemma lookup_with_species : forall sets sp fs,
  lookup fs (with_species sets sp) = if memb fs sets then Some sp else None.
Proof.
  intros sets sp fs. induction sets as [| x r IH]; simpl; auto.
  destruct (Nat.eqb fs x); simpl; auto.
Qed.

Lemma lookup_app : forall {A} k (l l' : list (nat * A)),
  lookup k (l ++ l') = match lookup k l with Some v => Some v | None => lookup k l' end.
Proof. intros A k l l'. induction l as [| [k' v] r IH]; simpl; auto. destruct (Nat.eqb k k'); auto. Qed.

Lemma minus_in : forall l a x, In x (minus l a) <-> In x l /\ ~ In x a.
Proof.
  intros l a x. unfold minus. rewrite filter_In. rewrite negb_true_iff.
  split; intros [H1 H2]; split; auto.
  - intro Ha. apply memb_in in Ha. congruence.
  - destruct (memb x a) eqn:E; auto. apply memb_in in E. contradiction.
Qed.

Lemma minus_nodup : forall l a, NoDup l -> NoDup (minus l a).
Proof. intros. unfold minus. now apply NoDup_filter. Qed.

(* a layout is well formed if the field sets put apart exist and are named once *)
Definition layout_ok (sc : schema) (ly : layout) : Prop :=
  match ly with
  | Single => True
  | Assoc a | Mapped a => NoDup a /\ incl a (all_sets sc)
  | AssocMany parts => NoDup (List.concat parts) /\ incl (List.concat parts) (all_sets sc)
  end.

Lemma create_sim : forall sc ly t0, layout_ok sc ly -> sim (create_files sc ly t0) (create_store sc ly t0).
Proof.
  intros sc ly t0 Hok.
  assert (Hall : NoDup (all_sets sc)) by apply seq_NoDup.
  destruct ly as [| a | a | parts]; simpl in Hok.
  4: { (* several associated files: every file has the species of the whole first trajectory *)
    destruct Hok as [Hnd Hincl].
    set (U := species_union (all_sets sc) t0).
    set (files := create_files sc (AssocMany parts) t0).
    assert (Hsets : flat_map f_sets files = minus (all_sets sc) (List.concat parts) ++ List.concat parts).
    { unfold files. simpl. f_equal. clear. induction parts as [| a r IH]; simpl; auto. now rewrite IH. }
    assert (Hsp : forall f, In f files -> f_species f = U /\ f_cells f = []).
    { unfold files. simpl. intros f [<- | Hf]; [split; reflexivity |].
      apply in_map_iff in Hf. destruct Hf as [a [<- _]]. split; reflexivity. }
    assert (Hin_all : forall fs, In fs (flat_map f_sets files) <-> In fs (all_sets sc)).
    { intro fs. rewrite Hsets, in_app_iff, minus_in. split.
      - intros [[H _] | H]; auto.
      - intro H. destruct (in_dec Nat.eq_dec fs (List.concat parts)); auto. }
    constructor.
    - split.
      + apply Forall_forall. intros f Hf kv Hkv. destruct (Hsp f Hf) as [_ Hc]. rewrite Hc in Hkv. contradiction.
      + fold files. rewrite Hsets. apply nodup_app_intro; auto; [now apply minus_nodup |].
        intros x Hx Ha. apply minus_in in Hx. tauto.
    - intro fs. unfold create_store. cbn [s_species phase1_sets]. fold U. rewrite lookup_with_species.
      destruct (file_index fs files) as [j |] eqn:Ej.
      + destruct (file_index_spec _ _ _ Ej) as [Hj Hfs].
        assert (Hf : In (nth j files no_file) files) by (apply nth_In; auto).
        destruct (Hsp _ Hf) as [-> _].
        assert (In fs (all_sets sc)).
        { apply Hin_all. apply in_flat_map. eauto. }
        apply memb_in in H. now rewrite H.
      + destruct (memb fs (all_sets sc)) eqn:E; auto. exfalso.
        apply memb_in, Hin_all, in_flat_map in E. destruct E as [f [Hf Hfs]].
        exact (file_index_none fs files Ej f Hf Hfs).
    - intro k. unfold create_store. cbn [s_cells get]. unfold getc.
      destruct (file_index (key_fs k) files) as [j |] eqn:Ej; auto.
      destruct (file_index_spec _ _ _ Ej) as [Hj _].
      assert (Hf : In (nth j files no_file) files) by (apply nth_In; auto).
      destruct (Hsp _ Hf) as [_ ->]. reflexivity. }
  - constructor; simpl.
    + split.
      * apply Forall_cons; [intros kv H; simpl in H; contradiction | apply Forall_nil].
      * simpl. now rewrite app_nil_r.
    + intro fs. rewrite lookup_with_species. simpl. destruct (memb fs (all_sets sc)); reflexivity.
    + intro k. unfold getc. simpl. destruct (memb (key_fs k) (all_sets sc)); reflexivity.
  - destruct Hok as [Hnd Hincl]. constructor; simpl.
    + split.
      { apply Forall_cons; [intros kv H; simpl in H; contradiction |].
        apply Forall_cons; [intros kv H; simpl in H; contradiction | apply Forall_nil]. }
      simpl. rewrite app_nil_r.
      apply nodup_app_intro; auto; [now apply minus_nodup |].
      intros x Hx Ha. apply minus_in in Hx. tauto.
    + intro fs. rewrite lookup_with_species. simpl.
      destruct (memb fs (minus (all_sets sc) a)) eqn:E1.
      * apply memb_in, minus_in in E1. destruct E1 as [E1 _]. apply memb_in in E1. now rewrite E1.
      * destruct (memb fs a) eqn:E2.
        -- apply memb_in in E2. apply Hincl, memb_in in E2. now rewrite E2.
        -- simpl. destruct (memb fs (all_sets sc)) eqn:E3; auto. exfalso.
           apply memb_in in E3.
           assert (In fs (minus (all_sets sc) a)).
           { apply minus_in. split; auto. intro H. apply memb_in in H. congruence. }
           apply memb_in in H. congruence.
    + intro k. unfold getc. simpl.
      destruct (memb (key_fs k) (minus (all_sets sc) a)); [reflexivity |].
      destruct (memb (key_fs k) a); reflexivity.
  - constructor; simpl.
    + split.
      * apply Forall_cons; [intros kv H; simpl in H; contradiction | apply Forall_nil].
      * simpl. rewrite app_nil_r. now apply minus_nodup.
    + intro fs. rewrite lookup_with_species. simpl. destruct (memb fs (minus (all_sets sc) a)); reflexivity.
    + intro k. unfold getc. simpl. destruct (memb (key_fs k) (minus (all_sets sc) a)); reflexivity.
Qed.

(* ---- create_associated adds one more file --------------------------------------------------------- *)
Lemma write_traj_species : forall fixed sc i t order st st',
  write_traj fixed sc order i t st = inl st' -> s_species st' = s_species st.
Proof.
  intros fixed sc i t. induction order as [| fs r IH]; intros st st' H; simpl in H.
  - now inversion H.
  - destruct (lookup fs (s_species st)); [| discriminate].
    destruct (write_fields _ _ _ _ _ _ _ _); [| discriminate]. apply IH in H. exact H.
Qed.

Lemma add_all_species : forall fixed sc order ts i st, s_species (fst (add_all fixed sc order i ts st)) = s_species st.
Proof.
  intros fixed sc order ts. induction ts as [| t r IH]; intros i st; simpl; auto.
  destruct (write_traj fixed sc order i t st) as [st' |] eqn:E; simpl; auto.
  rewrite IH. eapply write_traj_species; eauto.
Qed.

Lemma file_index_app : forall fs c f,
  file_index fs (c ++ [f]) = match file_index fs c with
                             | Some j => Some j
                             | None => if memb fs (f_sets f) then Some (List.length c) else None
                             end.
Proof.
  intros fs c f. induction c as [| g r IH]; simpl.
  - destruct (memb fs (f_sets f)); reflexivity.
  - destruct (memb fs (f_sets g)); auto. rewrite IH.
    destruct (file_index fs r); auto. destruct (memb fs (f_sets f)); reflexivity.
Qed.

Lemma add_mapped_sim : forall a t0 cst st, sim cst st -> NoDup a ->
  (forall fs, In fs a -> file_index fs cst = None) ->
  sim (add_mapped_file_c a t0 cst) (add_mapped_file a t0 st).
Proof.
  intros a t0 cst st [[Hown Hnd] Hsp Hc] Ha Hnew. unfold add_mapped_file_c, add_mapped_file.
  assert (Hnth : forall j, j < List.length cst ->
            nth j (cst ++ [new_file a (species_union a t0)]) no_file = nth j cst no_file)
    by (intros; now apply app_nth1).
  constructor; simpl.
  - split.
    + apply Forall_app. split; auto. apply Forall_cons; [intros kv H; simpl in H; contradiction | apply Forall_nil].
    + rewrite flat_map_app. simpl. rewrite app_nil_r. apply nodup_app_intro; auto.
      intros x Hx Hxa. apply in_flat_map in Hx. destruct Hx as [f [Hf Hx]].
      exact (file_index_none x cst (Hnew x Hxa) f Hf Hx).
  - intro fs. rewrite lookup_app, Hsp, file_index_app.
    destruct (file_index fs cst) as [j |] eqn:Ej.
    + destruct (file_index_spec _ _ _ Ej) as [Hj _]. now rewrite Hnth.
    + rewrite lookup_with_species. simpl. destruct (memb fs a); auto.
      rewrite app_nth2, Nat.sub_diag by lia. reflexivity.
  - intro k. rewrite Hc. unfold getc. rewrite file_index_app.
    destruct (file_index (key_fs k) cst) as [j |] eqn:Ej.
    + destruct (file_index_spec _ _ _ Ej) as [Hj _]. now rewrite Hnth.
    + simpl. destruct (memb (key_fs k) a); auto.
      rewrite app_nth2, Nat.sub_diag by lia. reflexivity.
Qed.

(* ---- a whole case: separate files = merged view ----------------------------------------------------- *)
Theorem run_case_files_eq_merged : forall fixed sc ly worder rorder1 morder rorder ts,
  layout_ok sc ly ->
  run_case_unbounded fixed sc ly worder rorder1 morder rorder ts = run_case_merged fixed sc ly worder rorder1 morder rorder ts.
Proof.
  intros fixed sc ly worder rorder1 morder rorder ts Hok.
  unfold run_case_unbounded, run_case_merged. destruct ts as [| t0 ts']; auto.
  destruct (negb fixed && unset_species_field sc (phase1_sets sc ly) t0); auto.
  set (ts := t0 :: ts').
  pose proof (create_sim sc ly t0 Hok) as H0.
  destruct (add_all_sim fixed sc worder ts 0 _ _ H0) as [H1 E1].
  pose proof (add_all_species fixed sc worder ts 0 (create_store sc ly t0)) as Hsp.
  destruct (add_all_c fixed sc worder 0 ts (create_files sc ly t0)) as [cst1 o1].
  destruct (add_all fixed sc worder 0 ts (create_store sc ly t0)) as [st1 o1'].
  simpl in H1, E1, Hsp. subst o1'.
  destruct o1 as [[k e] |]; auto.
  destruct ly as [| a | a | parts];
    try (now rewrite (read_all_sim _ _ _ _ _ _ _ H1)).
  - rewrite (load_traj_sim _ _ _ _ _ _ H1).
    destruct (load_traj fixed sc rorder1 0 st1); auto.
    destruct (negb fixed && unset_species_field sc a t0); auto.
    simpl in Hok. destruct Hok as [Hnd Hincl].
    assert (H2 : sim (add_mapped_file_c a t0 cst1) (add_mapped_file a t0 st1)).
    { apply add_mapped_sim; auto. intros fs Hfs.
      pose proof (sim_species _ _ H1 fs) as Hl. rewrite Hsp in Hl. simpl in Hl.
      rewrite lookup_with_species in Hl.
      replace (memb fs (minus (all_sets sc) a)) with false in Hl.
      - destruct (file_index fs cst1); [discriminate | reflexivity].
      - symmetry. destruct (memb fs (minus (all_sets sc) a)) eqn:E; auto.
        apply memb_in, minus_in in E. tauto. }
    destruct (map_all_sim fixed sc rorder1 morder ts 0 _ _ H2) as [H3 E3].
    destruct (map_all_c fixed sc rorder1 morder 0 ts (add_mapped_file_c a t0 cst1)) as [cst2 o2].
    destruct (map_all fixed sc rorder1 morder 0 ts (add_mapped_file a t0 st1)) as [st2 o2'].
    simpl in H3, E3. subst o2'.
    destruct o2 as [[k e] |]; auto.
    now rewrite (read_all_sim _ _ _ _ _ _ _ H3).
Qed.

(* ---- base + associated file in one CREATE = single file, for every input ------------------------------ *)
Theorem assoc_reads_as_single : forall fixed sc a worder rorder1 morder rorder ts,
  layout_ok sc (Assoc a) ->
  run_case_unbounded fixed sc (Assoc a) worder rorder1 morder rorder ts
  = run_case_unbounded fixed sc Single worder rorder1 morder rorder ts.
Proof.
  intros. rewrite (run_case_files_eq_merged _ _ (Assoc a)) by auto.
  rewrite (run_case_files_eq_merged _ _ Single) by exact I. reflexivity.
Qed.

(* the same for any number of associated files *)
Theorem assoc_many_reads_as_single : forall fixed sc parts worder rorder1 morder rorder ts,
  layout_ok sc (AssocMany parts) ->
  run_case_unbounded fixed sc (AssocMany parts) worder rorder1 morder rorder ts
  = run_case_unbounded fixed sc Single worder rorder1 morder rorder ts.
Proof.
  intros. rewrite (run_case_files_eq_merged _ _ (AssocMany parts)) by auto.
  rewrite (run_case_files_eq_merged _ _ Single) by exact I. reflexivity.
Qed.

(* ---- a mapped associated file (its own species dimension) = single file ------------------------------- *)
Definition species_ascending (sp : list (nat * list nat)) : Prop := forall fs L, lookup fs sp = Some L -> ascending L.
Definition traj_keys_ascending (t : traj) : Prop :=
  forall fs j v, nth_error (nth fs t []) j = Some v -> keys_ascending v.

Lemma expect_set_indep : forall n L L' ms vs,
  Forall2 (fits n L) ms vs -> Forall2 (fits n L') ms vs -> ascending L -> ascending L' ->
  (forall j v, nth_error vs j = Some v -> keys_ascending v) ->
  expect_set L ms vs = expect_set L' ms vs.
Proof.
  intros n L L' ms vs H. revert L'. induction H as [| m v ms vs Hf HF IH]; intros L' H' HL HL' Hk; auto.
  inversion H' as [| ? ? ? ? Hf' HF']; subst. unfold expect_set. simpl. f_equal.
  - f_equal. eapply canon_layout_independent; eauto. exact (Hk 0 v eq_refl).
  - apply IH; auto. intros j w Hj. exact (Hk (S j) w Hj).
Qed.

Lemma expect_indep : forall n sc sp sp' t order,
  (forall fs, In fs order -> set_fits n sc sp t fs) -> (forall fs, In fs order -> set_fits n sc sp' t fs) ->
  species_ascending sp -> species_ascending sp' -> traj_keys_ascending t ->
  expect sc sp order t = expect sc sp' order t.
Proof.
  intros n sc sp sp' t. induction order as [| fs r IH]; intros H H' Ha Ha' Hk; simpl; auto.
  destruct (H fs (or_introl eq_refl)) as (L & HL & _ & HF).
  destruct (H' fs (or_introl eq_refl)) as (L' & HL' & _ & HF').
  rewrite HL, HL'. f_equal.
  - eapply expect_set_indep; eauto; intros j v Hj; exact (Hk fs j v Hj).
  - apply IH; auto; intros; [apply H | apply H']; now right.
Qed.

Definition no_string_species_fields (sc : schema) (order : list nat) : Prop :=
  forall fs m, In fs order -> In m (nth fs sc []) -> ~ (fm_shape m = ShTS /\ fm_dtype m = Str).

Lemma no_string_no_holes : forall sc order c i, no_string_species_fields sc order ->
  forall fs, In fs order -> no_holes c fs i 0 (nth fs sc []).
Proof.
  intros sc order c i H fs Hin j m Hm. unfold str_hole.
  destruct (fm_shape m) eqn:Es; auto. destruct (fm_dtype m) eqn:Ed; auto.
  exfalso. apply (H fs m Hin); auto. eapply nth_error_In; eauto.
Qed.

Definition single_species (sc : schema) (t0 : traj) := with_species (all_sets sc) (species_union (all_sets sc) t0).
Definition mapped_species (sc : schema) (a : list nat) (t0 : traj) :=
  with_species (minus (all_sets sc) a) (species_union (minus (all_sets sc) a) t0)
  ++ with_species a (species_union a t0).

Lemma single_species_ascending : forall sc t0, species_ascending (single_species sc t0).
Proof.
  intros sc t0 fs L H. unfold single_species in H. rewrite lookup_with_species in H.
  destruct (memb fs (all_sets sc)); inversion H. apply species_union_ascending.
Qed.

Lemma mapped_species_ascending : forall sc a t0, species_ascending (mapped_species sc a t0).
Proof.
  intros sc a t0 fs L H. unfold mapped_species in H. rewrite lookup_app, !lookup_with_species in H.
  destruct (memb fs (minus (all_sets sc) a)); [inversion H; apply species_union_ascending |].
  destruct (memb fs a); inversion H. apply species_union_ascending.
Qed.

(* A store whose field sets [a] are produced afterwards by create_associated — a second file with the
   species of the mapped results, in general different from the base file's — reads back exactly like
   the store that holds everything in one file. *)
Theorem mapped_reads_as_single : forall sc a t0 rest o1 o2 wS rorder,
  let ts := t0 :: rest in
  NoDup a -> incl a (all_sets sc) ->
  NoDup o1 -> NoDup o2 -> incl o1 (minus (all_sets sc) a) -> incl o2 a ->
  NoDup wS -> incl wS (all_sets sc) -> incl rorder (o1 ++ o2) -> incl rorder wS ->
  no_string_species_fields sc rorder ->
  (forall t, In t ts -> traj_keys_ascending t /\
     exists n, (forall fs, In fs (o1 ++ o2) -> set_fits n sc (mapped_species sc a t0) t fs) /\
               (forall fs, In fs wS -> set_fits n sc (single_species sc t0) t fs)) ->
  exists cS cM1 cM,
    add_all_c true sc wS 0 ts (create_files sc Single t0) = (cS, None) /\
    add_all_c true sc o1 0 ts (create_files sc (Mapped a) t0) = (cM1, None) /\
    add_all_c true sc o2 0 ts (add_mapped_file_c a t0 cM1) = (cM, None) /\
    forall i t, nth_error ts i = Some t -> has_array sc rorder t ->
      load_traj_c true sc rorder i cM = load_traj_c true sc rorder i cS /\
      load_traj_c true sc rorder i cS = inl (map snd (expect sc (single_species sc t0) rorder t)).
Proof.
  intros sc a t0 rest o1 o2 wS rorder ts Ha Hainc Ho1 Ho2 Hi1 Hi2 HwS HwSinc Hr12 HrS Hnostr Hfit.
  clearbody ts.
  (* the single file *)
  pose proof (create_sim sc Single t0 I) as HS0.
  destruct (store_roundtrip sc wS rorder ts (create_store sc Single t0) HwS HrS eq_refl) as (stS & HaS & HspS & HloadS).
  { intros t Hin. destruct (Hfit t Hin) as [_ (n & _ & Hn)]. exists n. exact Hn. }
  destruct (add_all_sim true sc wS ts 0 _ _ HS0) as [HsimS EoS]. rewrite HaS in HsimS, EoS. cbn [fst snd] in HsimS, EoS.
  (* the base file of the mapped store, then the mapped file *)
  pose proof (create_sim sc (Mapped a) t0 (conj Ha Hainc)) as HM0.
  set (st0 := create_store sc (Mapped a) t0) in *.
  set (extra := with_species a (species_union a t0)).
  assert (Hdisj : forall fs, In fs o1 -> ~ In fs o2).
  { intros fs H1 H2. apply Hi1, minus_in in H1. apply Hi2 in H2. tauto. }
  assert (Hknown : forall fs, In fs o1 -> lookup fs (s_species st0) <> None).
  { intros fs H1. simpl. rewrite lookup_with_species.
    apply Hi1 in H1. apply memb_in in H1. rewrite H1. discriminate. }
  destruct (store_roundtrip_mapped sc o1 o2 rorder ts st0 extra Ho1 Ho2 Hdisj Hr12 eq_refl Hknown)
    as (st1 & st2 & Ha1 & Ha2 & Hsp2 & HloadM).
  { intros t Hin. destruct (Hfit t Hin) as [_ (n & Hn & _)]. exists n. exact Hn. }
  destruct (add_all_sim true sc o1 ts 0 _ _ HM0) as [Hsim1 Eo1]. rewrite Ha1 in Hsim1, Eo1. cbn [fst snd] in Hsim1, Eo1.
  assert (Hsp1 : s_species st1 = s_species st0).
  { pose proof (add_all_species true sc o1 ts 0 st0) as H. now rewrite Ha1 in H. }
  assert (Hsim1' : sim (add_mapped_file_c a t0 (fst (add_all_c true sc o1 0 ts (create_files sc (Mapped a) t0))))
                       {| s_species := s_species st0 ++ extra; s_cells := s_cells st1 |}).
  { replace {| s_species := s_species st0 ++ extra; s_cells := s_cells st1 |} with (add_mapped_file a t0 st1)
      by (unfold add_mapped_file; now rewrite Hsp1).
    apply add_mapped_sim; auto. intros fs Hfs.
    pose proof (sim_species _ _ Hsim1 fs) as Hl. rewrite Hsp1 in Hl. simpl in Hl.
    rewrite lookup_with_species in Hl.
    replace (memb fs (minus (all_sets sc) a)) with false in Hl.
    - destruct (file_index fs _); [discriminate | reflexivity].
    - symmetry. destruct (memb fs (minus (all_sets sc) a)) eqn:E; auto. apply memb_in, minus_in in E. tauto. }
  destruct (add_all_sim true sc o2 ts 0 _ _ Hsim1') as [Hsim2 Eo2]. rewrite Ha2 in Hsim2, Eo2. cbn [fst snd] in Hsim2, Eo2.
  set (cS := fst (add_all_c true sc wS 0 ts (create_files sc Single t0))) in *.
  set (cM1 := fst (add_all_c true sc o1 0 ts (create_files sc (Mapped a) t0))) in *.
  set (cM := fst (add_all_c true sc o2 0 ts (add_mapped_file_c a t0 cM1))) in *.
  exists cS, cM1, cM.
  split; [unfold cS; rewrite <- EoS; apply surjective_pairing |].
  split; [unfold cM1; rewrite <- Eo1; apply surjective_pairing |].
  split; [unfold cM, cM1; rewrite <- Eo2; apply surjective_pairing |].
  intros i t H H0. split.
  - rewrite (load_traj_sim _ _ _ _ _ _ Hsim2), (load_traj_sim _ _ _ _ _ _ HsimS).
    destruct (Hfit t (nth_error_In _ _ H)) as [Hk (n & HnM & HnS)].
    rewrite (HloadM i t H H0), (HloadS i t H H0);
      try (intros; eapply no_string_no_holes; eauto).
    f_equal. f_equal.
    change (s_species st0 ++ extra) with (mapped_species sc a t0).
    change (s_species (create_store sc Single t0)) with (single_species sc t0).
    apply (expect_indep n).
    + intros fs Hin. apply HnM. now apply Hr12.
    + intros fs Hin. apply HnS. now apply HrS.
    + apply mapped_species_ascending.
    + apply single_species_ascending.
    + exact Hk.
  - rewrite (load_traj_sim _ _ _ _ _ _ HsimS).
    apply (HloadS i t H H0). intros; eapply no_string_no_holes; eauto.
Qed.

(* ------------------------------------------------------------------------------------------- *)
(* the trajectory dimension of every file: a record is never read beyond it                      *)
(* ------------------------------------------------------------------------------------------- *)

Lemma write_traj_c_lens : forall fixed sc i t order cst cst',
  write_traj_c fixed sc order i t cst = inl cst' ->
  List.length cst' = List.length cst /\
  (forall fs, file_index fs cst' = file_index fs cst) /\
  (forall k, f_len (nth k cst no_file) <= f_len (nth k cst' no_file)) /\
  (forall fs k, In fs order -> file_index fs cst = Some k -> S i <= f_len (nth k cst' no_file)).
Proof.
  intros fixed sc i t. induction order as [| fs rest IH]; intros cst cst' H; simpl in H.
  - inversion H; subst. repeat split; auto. intros fs k [].
  - destruct (file_index fs cst) as [j |] eqn:Ej; [| discriminate].
    destruct (file_index_spec _ _ _ Ej) as [Hj _].
    set (f := nth j cst no_file) in *.
    destruct (write_fields fixed (f_species f) fs i 0 (nth fs sc []) (nth fs t []) (f_cells f)) as [c' |]; [| discriminate].
    set (cst1 := update_nth j (wrote f c' i) cst) in *.
    destruct (IH cst1 cst' H) as (Hlen & Hidx & Hmono & Hwr).
    assert (Hidx1 : forall fs', file_index fs' cst1 = file_index fs' cst).
    { intro fs'. unfold cst1. now apply file_index_update. }
    assert (Hmono1 : forall k, f_len (nth k cst no_file) <= f_len (nth k cst1 no_file)).
    { intro k. unfold cst1. destruct (Nat.eq_dec k j) as [-> | Hne].
      - rewrite nth_update_same by auto. simpl. fold f. lia.
      - now rewrite nth_update_other. }
    repeat split.
    + rewrite Hlen. unfold cst1. apply update_nth_length.
    + intro fs'. now rewrite Hidx, Hidx1.
    + intro k. specialize (Hmono1 k). specialize (Hmono k). lia.
    + intros fs' k [<- | Hin] Hk.
      * rewrite Ej in Hk. inversion Hk; subst k.
        specialize (Hmono j). unfold cst1 in Hmono at 1. rewrite nth_update_same in Hmono by auto.
        simpl in Hmono. lia.
      * apply (Hwr fs' k Hin). now rewrite Hidx1.
Qed.

Lemma add_all_c_lens : forall fixed sc order ts i cst cst',
  add_all_c fixed sc order i ts cst = (cst', None) ->
  (forall fs, file_index fs cst' = file_index fs cst) /\
  (forall k, f_len (nth k cst no_file) <= f_len (nth k cst' no_file)) /\
  (forall fs k, In fs order -> file_index fs cst = Some k -> ts <> [] -> i + List.length ts <= f_len (nth k cst' no_file)).
Proof.
  intros fixed sc order ts. induction ts as [| t r IH]; intros i cst cst' H; simpl in H.
  - inversion H; subst. repeat split; auto. intros fs k _ _ Hne. now elim Hne.
  - destruct (write_traj_c fixed sc order i t cst) as [c1 |] eqn:E; [| discriminate].
    destruct (write_traj_c_lens _ _ _ _ _ _ _ E) as (_ & Hidx1 & Hmono1 & Hwr1).
    destruct (IH (S i) c1 cst' H) as (Hidx & Hmono & Hwr).
    repeat split.
    + intro fs. now rewrite Hidx, Hidx1.
    + intro k. specialize (Hmono1 k). specialize (Hmono k). lia.
    + intros fs k Hin Hk _. simpl. destruct r as [| t' r'].
      * simpl in H. inversion H; subst cst'. specialize (Hwr1 fs k Hin Hk). simpl. lia.
      * assert (Hk1 : file_index fs c1 = Some k) by now rewrite Hidx1.
        specialize (Hwr fs k Hin Hk1 ltac:(discriminate)). simpl in Hwr. simpl. lia.
Qed.

Lemma read_raw_b_eq : forall fixed sc i order cst,
  (forall fs k, In fs order -> file_index fs cst = Some k -> i < f_len (nth k cst no_file)) ->
  read_raw_b fixed sc order i cst = read_raw_c fixed sc order i cst.
Proof.
  intros fixed sc i. induction order as [| fs rest IH]; intros cst H; simpl; auto.
  destruct (file_index fs cst) as [k |] eqn:Ek; auto.
  rewrite IH by (intros fs' k' Hin' Hk'; apply (H fs' k'); auto; now right).
  destruct (read_raw_c fixed sc rest i cst); auto.
  replace (Nat.ltb i (f_len (nth k cst no_file))) with true; auto.
  symmetry. apply Nat.ltb_lt. apply (H fs k); auto. now left.
Qed.

Lemma load_traj_b_eq : forall fixed sc i order cst,
  (forall fs k, In fs order -> file_index fs cst = Some k -> i < f_len (nth k cst no_file)) ->
  load_traj_b fixed sc order i cst = load_traj_c fixed sc order i cst.
Proof. intros. unfold load_traj_b, load_traj_c. now rewrite read_raw_b_eq. Qed.

Lemma read_all_b_eq : forall fixed sc order n i cst,
  (forall fs k, In fs order -> file_index fs cst = Some k -> i + n <= f_len (nth k cst no_file)) ->
  read_all_b fixed sc order i n cst = read_all_c fixed sc order i n cst.
Proof.
  intros fixed sc order. induction n as [| n IH]; intros i cst H; simpl; auto.
  rewrite load_traj_b_eq, IH; auto.
  - intros fs k Hin Hk. specialize (H fs k Hin Hk). lia.
  - intros fs k Hin Hk. specialize (H fs k Hin Hk). lia.
Qed.

Lemma map_all_b_eq : forall fixed sc r1 m ts i cst,
  (forall fs k, In fs r1 -> file_index fs cst = Some k -> i + List.length ts <= f_len (nth k cst no_file)) ->
  map_all_b fixed sc r1 m i ts cst = map_all_c fixed sc r1 m i ts cst.
Proof.
  intros fixed sc r1 m ts. induction ts as [| t r IH]; intros i cst H; simpl; auto.
  rewrite load_traj_b_eq.
  - destruct (load_traj_c fixed sc r1 i cst); auto.
    destruct (write_traj_c fixed sc m i t cst) as [c1 |] eqn:E; auto.
    destruct (write_traj_c_lens _ _ _ _ _ _ _ E) as (_ & Hidx & Hmono & _).
    apply IH. intros fs k Hin Hk. rewrite Hidx in Hk. specialize (H fs k Hin Hk). specialize (Hmono k). simpl in H. lia.
  - intros fs k Hin Hk. specialize (H fs k Hin Hk). simpl in H. lia.
Qed.

Lemma map_all_c_lens : forall fixed sc r1 m ts i cst cst',
  map_all_c fixed sc r1 m i ts cst = (cst', None) ->
  (forall fs, file_index fs cst' = file_index fs cst) /\
  (forall k, f_len (nth k cst no_file) <= f_len (nth k cst' no_file)) /\
  (forall fs k, In fs m -> file_index fs cst = Some k -> ts <> [] -> i + List.length ts <= f_len (nth k cst' no_file)).
Proof.
  intros fixed sc r1 m ts. induction ts as [| t r IH]; intros i cst cst' H; simpl in H.
  - inversion H; subst. repeat split; auto. intros fs k _ _ Hne. now elim Hne.
  - destruct (load_traj_c fixed sc r1 i cst); [| discriminate].
    destruct (write_traj_c fixed sc m i t cst) as [c1 |] eqn:E; [| discriminate].
    destruct (write_traj_c_lens _ _ _ _ _ _ _ E) as (_ & Hidx1 & Hmono1 & Hwr1).
    destruct (IH (S i) c1 cst' H) as (Hidx & Hmono & Hwr).
    repeat split.
    + intro fs. now rewrite Hidx, Hidx1.
    + intro k. specialize (Hmono1 k). specialize (Hmono k). lia.
    + intros fs k Hin Hk _. simpl. destruct r as [| t' r'].
      * simpl in H. inversion H; subst cst'. specialize (Hwr1 fs k Hin Hk). simpl. lia.
      * assert (Hk1 : file_index fs c1 = Some k) by now rewrite Hidx1.
        specialize (Hwr fs k Hin Hk1 ltac:(discriminate)). simpl in Hwr. simpl. lia.
Qed.

(* Reading index i < number of trajectories never runs past the trajectory dimension of ANY file — also of a
   file in which nothing was written at i because every field there was unset: the coordinate write of
   _write_data extends each file that holds a written field set.  Hence the model with dimension lengths
   ([run_case]) and the one without ([run_case_unbounded]) agree whenever the field sets that are read are
   among those that were written. *)
Theorem reads_stay_within_every_file : forall fixed sc ly worder rorder1 morder rorder ts,
  incl rorder1 worder ->
  incl rorder (worder ++ match ly with Mapped _ => morder | _ => [] end) ->
  run_case fixed sc ly worder rorder1 morder rorder ts = run_case_unbounded fixed sc ly worder rorder1 morder rorder ts.
Proof.
  intros fixed sc ly worder rorder1 morder rorder ts Hr1 Hr.
  unfold run_case, run_case_unbounded. destruct ts as [| t0 ts']; auto.
  destruct (negb fixed && unset_species_field sc (phase1_sets sc ly) t0); auto.
  set (ts := t0 :: ts') in *.
  destruct (add_all_c fixed sc worder 0 ts (create_files sc ly t0)) as [st o] eqn:Ea.
  destruct o as [[k e] |]; auto.
  destruct (add_all_c_lens _ _ _ _ _ _ _ Ea) as (Hidx & _ & Hlen).
  assert (Hw : forall fs k, In fs worder -> file_index fs st = Some k -> List.length ts <= f_len (nth k st no_file)).
  { intros fs k Hin Hk. rewrite Hidx in Hk. specialize (Hlen fs k Hin Hk ltac:(discriminate)). lia. }
  destruct ly as [| a | a | parts].
  - rewrite read_all_b_eq; auto. intros fs k Hin Hk. simpl. apply (Hw fs k); auto.
    apply Hr in Hin. rewrite app_nil_r in Hin. exact Hin.
  - rewrite read_all_b_eq; auto. intros fs k Hin Hk. simpl. apply (Hw fs k); auto.
    apply Hr in Hin. rewrite app_nil_r in Hin. exact Hin.
  - rewrite load_traj_b_eq.
    2: { intros fs k Hin Hk. specialize (Hw fs k (Hr1 fs Hin) Hk). simpl in Hw. lia. }
    destruct (load_traj_c fixed sc rorder1 0 st); auto.
    destruct (negb fixed && unset_species_field sc a t0); auto.
    set (st2 := add_mapped_file_c a t0 st).
    assert (Hkeep : forall fs k, file_index fs st = Some k ->
              file_index fs st2 = Some k /\ nth k st2 no_file = nth k st no_file).
    { intros fs k Hk. unfold st2, add_mapped_file_c. rewrite file_index_app, Hk. split; auto.
      apply app_nth1. now destruct (file_index_spec _ _ _ Hk). }
    assert (Hw2 : forall fs k, In fs worder -> file_index fs st2 = Some k -> List.length ts <= f_len (nth k st2 no_file)).
    { intros fs k Hin Hk. destruct (file_index fs st) as [k0 |] eqn:E0.
      - destruct (Hkeep fs k0 E0) as [Hk' Hn]. rewrite Hk' in Hk. inversion Hk; subst k0. rewrite Hn. now apply (Hw fs).
      - (* a written field set has a file: otherwise the adds would have failed *)
        exfalso. rewrite Hidx in E0. clear - Ea E0 Hin. unfold ts in Ea. cbn [add_all_c] in Ea.
        assert (G : forall order cst, In fs order -> file_index fs cst = None ->
                  exists e, write_traj_c fixed sc order 0 t0 cst = inr e).
        { induction order as [| x r IH]; intros cst [] Hn.
          - subst x. simpl. rewrite Hn. eauto.
          - simpl. destruct (file_index x cst) as [j |] eqn:Ej; [| eauto].
            destruct (write_fields _ _ _ _ _ _ _ _) as [c' |]; [| eauto].
            apply IH; auto. rewrite file_index_update; auto.
            now destruct (file_index_spec _ _ _ Ej). }
        destruct (G worder _ Hin E0) as [e He]. rewrite He in Ea. discriminate. }
    rewrite map_all_b_eq.
    2: { intros fs k Hin Hk. simpl. apply (Hw2 fs k); auto. }
    destruct (map_all_c fixed sc rorder1 morder 0 ts st2) as [st3 o3] eqn:Em.
    destruct o3 as [[k e] |]; auto.
    destruct (map_all_c_lens _ _ _ _ _ _ _ _ Em) as (Hidx3 & Hmono3 & Hlen3).
    rewrite read_all_b_eq; auto.
    intros fs k Hin Hk. simpl. rewrite Hidx3 in Hk.
    apply Hr, in_app_or in Hin. destruct Hin as [Hin | Hin].
    + specialize (Hw2 fs k Hin Hk). specialize (Hmono3 k). unfold ts in *. simpl in *. lia.
    + specialize (Hlen3 fs k Hin Hk ltac:(discriminate)). unfold ts in *. simpl in *. lia.
  - rewrite read_all_b_eq; auto. intros fs k Hin Hk. simpl. apply (Hw fs k); auto.
    apply Hr in Hin. rewrite app_nil_r in Hin. exact Hin.
Qed.

Corollary run_case_eq_merged : forall fixed sc ly worder rorder1 morder rorder ts,
  layout_ok sc ly -> incl rorder1 worder ->
  incl rorder (worder ++ match ly with Mapped _ => morder | _ => [] end) ->
  run_case fixed sc ly worder rorder1 morder rorder ts = run_case_merged fixed sc ly worder rorder1 morder rorder ts.
Proof. intros. rewrite reads_stay_within_every_file by auto. now apply run_case_files_eq_merged. Qed.

(* C12_Proofs — lemmas about the emission-index models over the reals. *)
From Coq Require Import ZArith Reals Lra Lia Bool List String.
From AV Require Import lib.Num lib.FloatMath model.C12_Base model.C12_Model proofs.C12_ISA.
Import ListNotations.
Local Open Scope R_scope.

Ltac rn := cbv [q] in *; rnum.
(* name an opaque model term as a plain real variable (lra / field want atoms of syntactic type R) *)
Ltac asR t v := let H := fresh "E" in
  assert (H : exists v' : R, v' = t) by (eexists; reflexivity); destruct H as [v H]; rewrite <- ?H in *; clear H.
Ltac tuple_eq := repeat match goal with |- (_, _) = (_, _) => apply f_equal2 end.
(* decide the boolean comparisons of the real instance from the linear facts in context *)
Ltac rdec :=
  repeat match goal with
  | |- context [Rltb ?a ?b] => let H := fresh "D" in unfold Rltb at 1; destruct (Rlt_dec a b) as [H | H]; try (exfalso; lra)
  | |- context [Rleb ?a ?b] => let H := fresh "D" in unfold Rleb at 1; destruct (Rle_dec a b) as [H | H]; try (exfalso; lra)
  | |- context [Reqb ?a ?b] => let H := fresh "D" in unfold Reqb at 1; destruct (Req_EM_T a b) as [H | H]; try (exfalso; lra)
  end.

(* evaluate comparisons / absolute values of concrete rationals, innermost first *)
Ltac rsolve := repeat (match goal with
  | |- context [Rleb ?a ?b] => first [rewrite (proj2 (Rleb_true a b)) by lra | rewrite (proj2 (Rleb_false a b)) by lra]
  | |- context [Rltb ?a ?b] => first [rewrite (proj2 (Rltb_true a b)) by lra | rewrite (proj2 (Rltb_false a b)) by lra]
  | |- context [Reqb ?a ?b] => first [rewrite (proj2 (Reqb_true a b)) by lra | rewrite (proj2 (Reqb_false a b)) by lra]
  | |- context [Rabs ?a] => first [rewrite (Rabs_right a) by lra | rewrite (Rabs_left a) by lra]
  end; cbv iota).

Definition tm := @tmv RNum.
Implicit Types k e a c x y ff P Ta M z PSL TSL n f xe s blf ble h t hc sn bpr cbc bp ref : R.
Implicit Types ref_num ref_mass vmax pr hmax hp F fsc eps b fA : R.
Definition tshift (c : R) (v : tm) : tm := @tmap RNum (fun y => y + c) v.
Definition tscale (k : R) (v : tm) : tm := @tmap RNum (fun y => k * y) v.
Definition tpos (v : tm) : Prop := let '(a, b, c, d) := v in 0 < a /\ 0 < b /\ 0 < c /\ 0 < d.

(* ------------------------------------------------------------------------------------------------ *)
(* logarithms and powers of ten                                                                      *)
(* ------------------------------------------------------------------------------------------------ *)
Lemma ln_ten_pos : 0 < ln (10 / 1).
Proof. rewrite <- ln_1. apply ln_increasing; lra. Qed.

Lemma log10_mult k e : 0 < k -> 0 < e -> @log10 RNum (k * e) = @log10 RNum k + @log10 RNum e.
Proof. intros. unfold log10, ten. rn. rewrite ln_mult by assumption. pose proof ln_ten_pos. field. lra. Qed.

Lemma pow10_plus a c : @pow10 RNum (a + c) = @pow10 RNum a * @pow10 RNum c.
Proof. unfold pow10, ten. rn. rewrite <- exp_plus. f_equal. ring. Qed.

Lemma pow10_log10 k : 0 < k -> @pow10 RNum (@log10 RNum k) = k.
Proof. intros. unfold pow10, log10, ten. rn. pose proof ln_ten_pos.
  replace (ln k / ln (10 / 1) * ln (10 / 1)) with (ln k) by (field; lra). apply exp_ln; assumption. Qed.

Lemma pow10_pos y : 0 < @pow10 RNum y.
Proof. unfold pow10. rnum. apply exp_pos. Qed.

Lemma npow_pos x y : 0 < @npow RNum x y.
Proof. rnum. apply exp_pos. Qed.

Lemma tmap_log10_scale k v : 0 < k -> tpos v ->
  @tmap RNum (@log10 RNum) (tscale k v) = tshift (@log10 RNum k) (@tmap RNum (@log10 RNum) v).
Proof. destruct v as [[[a b] c] d]. intros Hk (Ha & Hb & Hc & Hd). unfold tscale, tshift, tmap.
  rewrite !log10_mult by assumption.
  apply f_equal2; [apply f_equal2; [apply f_equal2 | ] | ]; apply Rplus_comm. Qed.

(* ------------------------------------------------------------------------------------------------ *)
(* Fuel Flow Method 2                                                                                 *)
(* ------------------------------------------------------------------------------------------------ *)
Lemma ffm2_scales (k ff P Ta M z PSL TSL n : R) :
  @ffm2 RNum (k * ff) P Ta M z PSL TSL n = k * @ffm2 RNum ff P Ta M z PSL TSL n.
Proof. unfold ffm2. rn. unfold Rdiv. ring. Qed.

Lemma ffm2_additive (f1 f2 P Ta M z PSL TSL n : R) :
  @ffm2 RNum (f1 + f2) P Ta M z PSL TSL n = @ffm2 RNum f1 P Ta M z PSL TSL n + @ffm2 RNum f2 P Ta M z PSL TSL n.
Proof. unfold ffm2. rn. unfold Rdiv. ring. Qed.

Lemma ffm2_nonneg (ff P Ta M z PSL TSL n : R) :
  0 <= ff -> 0 < P -> 0 < PSL -> 0 < n -> 0 <= @ffm2 RNum ff P Ta M z PSL TSL n.
Proof. intros. unfold ffm2. rn.
  apply Rmult_le_pos; [ | left; apply exp_pos].
  apply Rmult_le_pos; [ | left; apply Rinv_0_lt_compat; apply Rdiv_lt_0_compat; assumption].
  apply Rmult_le_pos; [ | left; apply exp_pos].
  apply Rmult_le_pos; [assumption | left; apply Rinv_0_lt_compat; assumption]. Qed.

Lemma ffm2_zero_flow (P Ta M z PSL TSL n : R) : @ffm2 RNum 0 P Ta M z PSL TSL n = 0.
Proof. unfold ffm2. rn. unfold Rdiv. ring. Qed.

(* ------------------------------------------------------------------------------------------------ *)
(* thrust categories                                                                                  *)
(* ------------------------------------------------------------------------------------------------ *)
Definition in_idle (ff : R) (cal : tm) : Prop := ff <= @low_limit RNum cal.
Definition in_climb (ff : R) (cal : tm) : Prop := @low_limit RNum cal < ff /\ @approach_limit RNum cal < ff.
Definition in_approach (ff : R) (cal : tm) : Prop := @low_limit RNum cal < ff /\ ff <= @approach_limit RNum cal.

Lemma thrust_cat_spec (ff : R) (cal : tm) :
  (@thrust_cat RNum ff cal = Idle /\ in_idle ff cal) \/
  (@thrust_cat RNum ff cal = Climb /\ in_climb ff cal) \/
  (@thrust_cat RNum ff cal = Approach /\ in_approach ff cal).
Proof. unfold thrust_cat, in_idle, in_climb, in_approach. rnum. unfold Rleb, Rltb.
  destruct (Rle_dec ff _); [left; auto | ].
  destruct (Rlt_dec _ ff); [right; left | right; right]; split; auto; split; lra. Qed.

Lemma thrust_cat_exactly_one (ff : R) (cal : tm) :
  (in_idle ff cal /\ ~ in_approach ff cal /\ ~ in_climb ff cal /\ @thrust_cat RNum ff cal = Idle) \/
  (~ in_idle ff cal /\ in_approach ff cal /\ ~ in_climb ff cal /\ @thrust_cat RNum ff cal = Approach) \/
  (~ in_idle ff cal /\ ~ in_approach ff cal /\ in_climb ff cal /\ @thrust_cat RNum ff cal = Climb).
Proof. destruct (thrust_cat_spec ff cal) as [[E H] | [[E H] | [E H]]]; unfold in_idle, in_climb, in_approach in *.
  - left. repeat split; auto; lra.
  - right; right. repeat split; auto; lra.
  - right; left. repeat split; auto; lra. Qed.

Lemma thrust_cat_monotone (f1 f2 : R) (cal : tm) :
  f1 <= f2 -> (mode_rank (@thrust_cat RNum f1 cal) <= mode_rank (@thrust_cat RNum f2 cal))%Z.
Proof. intros Hle.
  destruct (thrust_cat_spec f1 cal) as [[E1 H1] | [[E1 H1] | [E1 H1]]];
  destruct (thrust_cat_spec f2 cal) as [[E2 H2] | [[E2 H2] | [E2 H2]]];
  rewrite E1, E2; simpl; try lia; unfold in_idle, in_climb, in_approach in *; exfalso; lra. Qed.

Lemma thrust_cat_never_takeoff (ff : R) (cal : tm) : @thrust_cat RNum ff cal <> Takeoff.
Proof. destruct (thrust_cat_spec ff cal) as [[E _] | [[E _] | [E _]]]; rewrite E; discriminate. Qed.

(* ------------------------------------------------------------------------------------------------ *)
(* least-squares line: shifting the ordinates by c shifts the intercept by c                          *)
(* ------------------------------------------------------------------------------------------------ *)
Lemma mean4_shift c (y : tm) : @mean4 RNum (tshift c y) = @mean4 RNum y + c.
Proof. destruct y as [[[y1 y2] y3] y4]. unfold mean4, tshift, tmap. rn. lra. Qed.

Lemma ls_fit_shift c (x y : tm) :
  @ls_fit RNum x (tshift c y) = (fst (@ls_fit RNum x y), snd (@ls_fit RNum x y) + c).
Proof. unfold ls_fit. rewrite mean4_shift.
  destruct x as [[[x1 x2] x3] x4], y as [[[y1 y2] y3] y4]. unfold tshift, tmap. simpl.
  rn. apply f_equal2; unfold Rdiv; ring. Qed.

Lemma ls_fit_flat_shift c (x y : tm) :
  @ls_fit_v RNum DegFlat x (tshift c y) = (fst (@ls_fit_v RNum DegFlat x y), snd (@ls_fit_v RNum DegFlat x y) + c).
Proof. unfold ls_fit_v. destruct x as [[[x1 x2] x3] x4].
  destruct (@isclose0 RNum _).
  - rewrite mean4_shift. reflexivity.
  - apply ls_fit_shift. Qed.

Lemma nox_line_log_shift c xe (xc yc : tm) :
  @nox_line_log RNum xe xc (tshift c yc) = @nox_line_log RNum xe xc yc + c.
Proof. unfold nox_line_log, nox_line_log_v. rewrite ls_fit_flat_shift.
  destruct (@ls_fit_v RNum DegFlat xc yc) as [s i]. simpl. rnum. ring. Qed.

(* the behaviour of the code before fix FC12a (numpy's minimum-norm solution) is NOT shift-equivariant *)
Lemma nox_line_log_minnorm_not_shift_equivariant :
  exists c xe (xc yc : tm),
    @nox_line_log_v RNum DegMinNorm xe xc (tshift c yc) <> @nox_line_log_v RNum DegMinNorm xe xc yc + c.
Proof. exists 1, 0, (1, 1, 1, 1), (0, 0, 0, 0).
  unfold nox_line_log_v, ls_fit_v, tshift, tmap, mean4. rn. rdec. simpl. lra. Qed.

(* sea-level NOx index scales with the certification indices *)
Lemma bffm2_nox_sl_scales k ff (ei cal : tm) : 0 < k -> tpos ei ->
  @bffm2_nox_sl RNum ff (tscale k ei) cal = k * @bffm2_nox_sl RNum ff ei cal.
Proof. intros Hk Hei. unfold bffm2_nox_sl, bffm2_nox_sl_v. fold (@nox_line_log RNum).
  rewrite tmap_log10_scale by assumption. rewrite nox_line_log_shift, pow10_plus, pow10_log10 by assumption.
  rnum. ring. Qed.

Lemma bffm2_nox_scales k ff (ei cal : tm) Ta P : 0 < k -> tpos ei ->
  @bffm2_nox RNum ff (tscale k ei) cal Ta P =
  let '(nox, no, no2, hono, pno, pno2, phono) := @bffm2_nox RNum ff ei cal Ta P in
  (k * nox, k * no, k * no2, k * hono, pno, pno2, phono).
Proof. intros Hk Hei. unfold bffm2_nox, bffm2_nox_v. fold (@bffm2_nox_sl RNum).
  rewrite bffm2_nox_sl_scales by assumption.
  destruct (@speciation RNum _) as [[pno pno2] phono]. rnum. tuple_eq; try reflexivity; ring. Qed.

Lemma nox_ambient_factor_pos Ta P : 0 < @nox_ambient_factor RNum Ta P.
Proof. unfold nox_ambient_factor. apply Rmult_lt_0_compat; [apply exp_pos | apply npow_pos]. Qed.

Lemma speciation_sums m :
  let '(no, no2, hono) := @speciation RNum m in no + no2 + hono = 1 /\ 0 < no /\ 0 < no2 /\ 0 < hono.
Proof. destruct m; unfold speciation; rn; repeat split; lra. Qed.

Lemma bffm2_nox_positive ff (ei cal : tm) Ta P :
  let '(nox, no, no2, hono, pno, pno2, phono) := @bffm2_nox RNum ff ei cal Ta P in
  0 < nox /\ 0 < no /\ 0 < no2 /\ 0 < hono /\ no + no2 + hono = nox /\ pno + pno2 + phono = 1.
Proof. unfold bffm2_nox, bffm2_nox_v.
  pose proof (speciation_sums (@thrust_cat RNum ff cal)) as Hs.
  destruct (@speciation RNum _) as [[pno pno2] phono]. destruct Hs as (Hsum & H1 & H2 & H3).
  set (nox := (_ * _)%num).
  assert (Hn : 0 < nox).
  { unfold nox. rnum. apply Rmult_lt_0_compat; [ | apply nox_ambient_factor_pos].
    unfold bffm2_nox_sl_v. apply pow10_pos. }
  rnum. repeat split; try (apply Rmult_lt_0_compat; assumption); try assumption.
  replace (nox * pno + nox * pno2 + nox * phono) with (nox * (pno + pno2 + phono)) by ring. rewrite Hsum; ring. Qed.

(* ------------------------------------------------------------------------------------------------ *)
(* HC / CO bilinear fit                                                                               *)
(* ------------------------------------------------------------------------------------------------ *)
Lemma hcco_fit_raw_shift c (lEI lff : tm) :
  @hcco_fit_raw RNum (tshift c lEI) lff =
  let '(s, h, x) := @hcco_fit_raw RNum lEI lff in (s, h + c, x).
Proof. destruct lEI as [[[eI eA] eC] eT], lff as [[[fI fA] fC] fT]. unfold hcco_fit_raw, tshift, tmap. rn.
  replace (eA + c - (eI + c)) with (eA - eI) by ring.
  match goal with |- context [if ?b then 0 else ?e] => set (s := if b then 0 else e) end.
  replace (IZR 2 / IZR 1 * fI * s + (eC + c) + (eT + c) - IZR 2 / IZR 1 * (eI + c))
     with (IZR 2 / IZR 1 * fI * s + eC + eT - IZR 2 / IZR 1 * eI) by lra.
  f_equal. f_equal. lra. Qed.

Lemma hcco_rule_shift c (lEI lff : tm) : @hcco_rule_of RNum (tshift c lEI) lff = @hcco_rule_of RNum lEI lff.
Proof. unfold hcco_rule_of. rewrite hcco_fit_raw_shift.
  destruct (@hcco_fit_raw RNum lEI lff) as [[s h] x]. reflexivity. Qed.

Lemma hcco_fit_log_shift c (lEI lff : tm) :
  @hcco_fit_log RNum (tshift c lEI) lff =
  let '(s, blf, ble, h, x) := @hcco_fit_log RNum lEI lff in (s, blf, ble + c, h + c, x).
Proof. unfold hcco_fit_log. rewrite hcco_rule_shift, hcco_fit_raw_shift.
  destruct (@hcco_fit_raw RNum lEI lff) as [[s h] x].
  destruct lEI as [[[eI eA] eC] eT], lff as [[[fI fA] fC] fT]. unfold tshift, tmap.
  destruct (@hcco_rule_of RNum _ _); reflexivity. Qed.

Lemma hcco_eval_shift c s blf ble h x ff :
  @hcco_eval RNum (s, blf, ble + c, h + c, x) ff = @pow10 RNum c * @hcco_eval RNum (s, blf, ble, h, x) ff.
Proof. unfold hcco_eval.
  set (lf := if @ltb RNum zero ff then @log10 RNum ff else zero).
  destruct (@leb RNum x lf).
  - rewrite pow10_plus. rnum. ring.
  - destruct (@ltb RNum zero ff).
    + replace (@add RNum (@mul RNum s (@sub RNum lf blf)) (ble + c)) with ((@add RNum (@mul RNum s (@sub RNum lf blf)) ble) + c) by (rnum; ring).
      rewrite pow10_plus. rnum. ring.
    + rnum. ring. Qed.

Lemma hcco_sl_scales k ff (ei cal : tm) : 0 < k -> tpos ei ->
  @hcco_sl RNum ff (tscale k ei) cal = k * @hcco_sl RNum ff ei cal.
Proof. intros Hk Hei. unfold hcco_sl. rewrite tmap_log10_scale by assumption. rewrite hcco_fit_log_shift.
  destruct (@hcco_fit_log RNum _ _) as [[[[s blf] ble] h] x].
  rewrite hcco_eval_shift, pow10_log10 by assumption. reflexivity. Qed.

Lemma hcco_scales k ff (ei cal : tm) Ta P : 0 < k -> tpos ei ->
  @hcco RNum ff (tscale k ei) cal Ta P = k * @hcco RNum ff ei cal Ta P.
Proof. intros Hk Hei. unfold hcco. rewrite hcco_sl_scales by assumption.
  destruct (@ltb RNum ff _); rnum; ring. Qed.

Lemma hcco_eval_nonneg fit ff : 0 <= @hcco_eval RNum fit ff.
Proof. destruct fit as [[[[s blf] ble] h] x]. unfold hcco_eval.
  destruct (@leb RNum x _); [left; apply pow10_pos | ].
  destruct (@ltb RNum zero ff); [left; apply pow10_pos | rnum; lra]. Qed.

Lemma hcco_factors ff (ei cal : tm) Ta P :
  exists sl fI cr : R, sl = @hcco_sl RNum ff ei cal /\ fI = @tget RNum cal Idle /\ 0 < cr /\
    @hcco RNum ff ei cal Ta P = (if Rlt_dec ff fI then sl * (1 + 52 * (fI - ff)) else sl) * cr.
Proof. exists (@hcco_sl RNum ff ei cal), (@tget RNum cal Idle), (@hcco_cruise RNum Ta P).
  repeat split.
  - unfold hcco_cruise. rnum. apply Rdiv_lt_0_compat; apply exp_pos.
  - unfold hcco. rn. unfold Rltb. destruct (Rlt_dec ff _); [ | reflexivity].
    f_equal. f_equal. lra. Qed.

Lemma hcco_nonneg ff (ei cal : tm) Ta P : 0 <= @hcco RNum ff ei cal Ta P.
Proof. destruct (hcco_factors ff ei cal Ta P) as (sl & fI & cr & Hsl & HfI & Hcr & E). rewrite E.
  assert (H0 : 0 <= sl) by (subst sl; apply hcco_eval_nonneg).
  destruct (Rlt_dec ff fI).
  - apply Rmult_le_pos; [ | lra]. apply Rmult_le_pos; lra.
  - apply Rmult_le_pos; lra. Qed.

(* upper segment and every positive flow under rule (c): strictly positive *)
Lemma hcco_positive_flow_positive ff (ei cal : tm) Ta P : 0 < ff -> 0 < @hcco RNum ff ei cal Ta P.
Proof. intros Hff. destruct (hcco_factors ff ei cal Ta P) as (sl & fI & cr & Hsl & HfI & Hcr & E). rewrite E.
  assert (H0 : 0 < sl).
  { subst sl. unfold hcco_sl. destruct (@hcco_fit_log RNum _ _) as [[[[s blf] ble] h] x]. unfold hcco_eval.
    destruct (@leb RNum x _); [apply pow10_pos | ].
    replace (@ltb RNum zero ff) with true; [apply pow10_pos | ]. rnum. symmetry. apply Rltb_true. assumption. }
  destruct (Rlt_dec ff fI).
  - apply Rmult_lt_0_compat; [ | lra]. apply Rmult_lt_0_compat; lra.
  - apply Rmult_lt_0_compat; lra. Qed.

(* --- the documented clamping rules, on the fit in log space (all real values of the logs) --------- *)
Lemma hcco_rule_a (lEI lff : tm) :
  let '(s, h, x) := @hcco_fit_raw RNum lEI lff in
  let '(eI, eA, eC, eT) := lEI in let '(fI, fA, fC, fT) := lff in
  fC < x -> @hcco_fit_log RNum lEI lff = (s, fI, eI, h, fC).
Proof. unfold hcco_fit_log, hcco_rule_of. destruct (@hcco_fit_raw RNum lEI lff) as [[s h] x].
  destruct lEI as [[[eI eA] eC] eT], lff as [[[fI fA] fC] fT]. intros H. rnum. rdec. reflexivity. Qed.

Lemma hcco_rule_b (lEI lff : tm) :
  let '(s, h, x) := @hcco_fit_raw RNum lEI lff in
  let '(eI, eA, eC, eT) := lEI in let '(fI, fA, fC, fT) := lff in
  x <= fC -> x < fA -> s < 0 -> @hcco_fit_log RNum lEI lff = (s, fI, eI, eA, fA).
Proof. unfold hcco_fit_log, hcco_rule_of. destruct (@hcco_fit_raw RNum lEI lff) as [[s h] x].
  destruct lEI as [[[eI eA] eC] eT], lff as [[[fI fA] fC] fT]. intros H1 H2 H3. rnum. rdec. reflexivity. Qed.

Lemma hcco_rule_c (lEI lff : tm) :
  let '(s, h, x) := @hcco_fit_raw RNum lEI lff in
  let '(eI, eA, eC, eT) := lEI in let '(fI, fA, fC, fT) := lff in
  x <= fC -> 0 <= s -> @hcco_fit_log RNum lEI lff = (0, 0, h, h, fA).
Proof. unfold hcco_fit_log, hcco_rule_of. destruct (@hcco_fit_raw RNum lEI lff) as [[s h] x].
  destruct lEI as [[[eI eA] eC] eT], lff as [[[fI fA] fC] fT]. intros H1 H2. rnum. rdec; reflexivity. Qed.

Lemma hcco_rule_none (lEI lff : tm) :
  let '(s, h, x) := @hcco_fit_raw RNum lEI lff in
  let '(eI, eA, eC, eT) := lEI in let '(fI, fA, fC, fT) := lff in
  fA <= x <= fC -> s < 0 -> @hcco_fit_log RNum lEI lff = (s, fI, eI, h, x).
Proof. unfold hcco_fit_log, hcco_rule_of. destruct (@hcco_fit_raw RNum lEI lff) as [[s h] x].
  destruct lEI as [[[eI eA] eC] eT], lff as [[[fI fA] fC] fT]. intros [H1 H2] H3. rnum. rdec. reflexivity. Qed.

(* under rule (c) every positive fuel flow gets the horizontal level *)
Lemma hcco_flat_everywhere h fA ff : 0 < ff -> @hcco_eval RNum (0, 0, h, h, fA) ff = @pow10 RNum h.
Proof. intros Hff. unfold hcco_eval. destruct (@leb RNum fA _); [reflexivity | ].
  replace (@ltb RNum zero ff) with true by (rnum; symmetry; apply Rltb_true; assumption).
  f_equal. rnum. ring. Qed.

(* when the slope is not numerically zero the raw breakpoint is where the two segments meet *)
Lemma hcco_segments_meet (lEI lff : tm) :
  let '(s, h, x) := @hcco_fit_raw RNum lEI lff in
  let '(eI, eA, eC, eT) := lEI in let '(fI, fA, fC, fT) := lff in
  @isclose0 RNum s = false -> s * (x - fI) + eI = h.
Proof. destruct lEI as [[[eI eA] eC] eT], lff as [[[fI fA] fC] fT]. unfold hcco_fit_raw.
  match goal with |- context [if @isclose0 RNum ?d then ?z else ?e] => asR (if @isclose0 RNum d then z else e) s end.
  intros Hnc. rewrite Hnc.
  assert (Hs : s <> 0).
  { intro E0. subst s. revert Hnc. unfold isclose0. rn. rewrite Rabs_R0. intro Hc. apply Rleb_false in Hc. lra. }
  rn. field. lra. Qed.

(* low-thrust (ACRP) rule *)
Lemma hcco_low_thrust ff (ei cal : tm) Ta P : ff < @tget RNum cal Idle ->
  @hcco RNum ff ei cal Ta P =
  @hcco_sl RNum ff ei cal * (1 + 52 * (@tget RNum cal Idle - ff)) * @hcco_cruise RNum Ta P.
Proof. intros H. unfold hcco. rn. unfold Rltb. destruct (Rlt_dec ff _); [ | contradiction].
  f_equal. f_equal. lra. Qed.

Lemma hcco_not_low_thrust ff (ei cal : tm) Ta P : @tget RNum cal Idle <= ff ->
  @hcco RNum ff ei cal Ta P = @hcco_sl RNum ff ei cal * @hcco_cruise RNum Ta P.
Proof. intros H. unfold hcco. rn. unfold Rltb. destruct (Rlt_dec ff _) as [Hc | Hc]; [ | reflexivity].
  exfalso. apply (Rlt_irrefl ff). eapply Rlt_le_trans; eassumption. Qed.

(* non-vacuity: each rule is reached (log10 values chosen rational) *)
Definition ex_lff : tm := (-1, 0, 1, 2).
Example hcco_rule_none_reached : @hcco_rule_of RNum (2, 1, 0, 0) ex_lff = RuleNone.
Proof. unfold hcco_rule_of, hcco_fit_raw, isclose0, ex_lff. rn. rsolve. simpl. rsolve. reflexivity. Qed.
Example hcco_rule_a_reached : @hcco_rule_of RNum (2, 1, -1, -1) ex_lff = RuleClampHigh.
Proof. unfold hcco_rule_of, hcco_fit_raw, isclose0, ex_lff. rn. rsolve. simpl. rsolve. reflexivity. Qed.
Example hcco_rule_b_reached : @hcco_rule_of RNum (2, 1, 3/2, 3/2) ex_lff = RuleNegSlopeLow.
Proof. unfold hcco_rule_of, hcco_fit_raw, isclose0, ex_lff. rn. rsolve. simpl. rsolve. reflexivity. Qed.
Example hcco_rule_c_reached : @hcco_rule_of RNum (1, 2, 0, 0) ex_lff = RuleFlat.
Proof. unfold hcco_rule_of, hcco_fit_raw, isclose0, ex_lff. rn. rsolve. simpl. rsolve. reflexivity. Qed.
(* equal idle and approach flows: slope forced to 0, hence rule (c) *)
Example hcco_equal_flows_flat : @hcco_rule_of RNum (2, 1, 0, 0) (0, 0, 1, 2) = RuleFlat.
Proof. unfold hcco_rule_of, hcco_fit_raw, isclose0. rn. rsolve. simpl. rsolve. reflexivity. Qed.

(* ------------------------------------------------------------------------------------------------ *)
(* SOx                                                                                                *)
(* ------------------------------------------------------------------------------------------------ *)
Lemma sox_conserved (fsc eps : R) :
  let '(sx, so2, so4) := @sox RNum fsc eps in
  so2 * @mw_S RNum / @mw_SO2 RNum + so4 * @mw_S RNum / @mw_SO4 RNum = fsc / 1000 /\ sx = so2 + so4.
Proof. unfold sox, mw_S, mw_SO2, mw_SO4. rn. split; [field | reflexivity]. Qed.

Lemma sox_nonneg (fsc eps : R) : 0 <= fsc -> 0 <= eps <= 1 ->
  let '(sx, so2, so4) := @sox RNum fsc eps in 0 <= sx /\ 0 <= so2 /\ 0 <= so4.
Proof. intros Hf [H0 H1]. unfold sox, mw_S, mw_SO2, mw_SO4. rn.
  assert (A : 0 <= fsc / (1000000 / 1) * (1 / 1 - eps) * (64 / 1) / (32 / 1) * (1000 / 1)).
  { replace (fsc / (1000000 / 1) * (1 / 1 - eps) * (64 / 1) / (32 / 1) * (1000 / 1)) with (fsc * (1 - eps) * (2 / 1000)) by field.
    apply Rmult_le_pos; [apply Rmult_le_pos |]; lra. }
  assert (B : 0 <= fsc / (1000000 / 1) * eps * (96 / 1) / (32 / 1) * (1000 / 1)).
  { replace (fsc / (1000000 / 1) * eps * (96 / 1) / (32 / 1) * (1000 / 1)) with (fsc * eps * (3 / 1000)) by field.
    apply Rmult_le_pos; [apply Rmult_le_pos |]; lra. }
  repeat split; lra. Qed.

Lemma sox_linear_in_sulfur (k fsc eps : R) :
  let '(sx, so2, so4) := @sox RNum fsc eps in @sox RNum (k * fsc) eps = (k * sx, k * so2, k * so4).
Proof. unfold sox, mw_S, mw_SO2, mw_SO4. rn. tuple_eq; field. Qed.

(* ------------------------------------------------------------------------------------------------ *)
(* piecewise-linear interpolation                                                                     *)
(* ------------------------------------------------------------------------------------------------ *)
Definition pts := list (R * R).
Fixpoint sorted_from (x0 : R) (l : pts) : Prop :=
  match l with [] => True | (x1, _) :: r => x0 < x1 /\ sorted_from x1 r end.
Definition ys_ge (b : R) (l : pts) : Prop := Forall (fun p => b <= snd p) l.
Definition scale_ys (k : R) (l : pts) : pts := map (fun p => (fst p, k * snd p)) l.

Lemma interp_from_scales k x x0 y0 l :
  @interp_from RNum x x0 (k * y0) (scale_ys k l) = k * @interp_from RNum x x0 y0 l.
Proof. revert x0 y0. induction l as [ | [x1 y1] r IH]; intros; simpl; [reflexivity | ].
  rnum. destruct (Rltb x x1); [unfold Rdiv; ring | apply IH]. Qed.

Lemma ninterp_scales k x l : @ninterp RNum x (scale_ys k l) = k * @ninterp RNum x l.
Proof. destruct l as [ | [x0 y0] r]; simpl; [rnum; ring | ].
  rnum. rewrite (proj2 (Reqb_true x x) eq_refl).
  destruct (Rleb x x0); [reflexivity | apply interp_from_scales]. Qed.

Lemma interp_from_ge b x x0 y0 l :
  x0 <= x -> b <= y0 -> sorted_from x0 l -> ys_ge b l -> b <= @interp_from RNum x x0 y0 l.
Proof. revert x0 y0. induction l as [ | [x1 y1] r IH]; intros x0 y0 Hx Hy Hs Hb; simpl; [assumption | ].
  destruct Hs as [H01 Hs]. inversion Hb as [ | ? ? Hb1 Hbr]; subst. simpl in Hb1.
  rnum. unfold Rltb. destruct (Rlt_dec x x1) as [Hlt | Hge].
  - (* convex combination of y0 and y1 *)
    set (t := (x - x0) / (x1 - x0)).
    assert (Ht : 0 <= t <= 1).
    { unfold t. split.
      - apply Rmult_le_pos; [lra | left; apply Rinv_0_lt_compat; lra].
      - apply (Rmult_le_reg_r (x1 - x0)); [lra | ]. replace ((x - x0) / (x1 - x0) * (x1 - x0)) with (x - x0) by (field; lra). lra. }
    replace ((y1 - y0) / (x1 - x0) * (x - x0) + y0) with (y0 + (y1 - y0) * t) by (unfold t; field; lra).
    destruct (Rle_dec y0 y1).
    + assert (0 <= (y1 - y0) * t) by (apply Rmult_le_pos; lra). lra.
    + assert ((y1 - y0) * t >= (y1 - y0) * 1).
      { apply Rle_ge. apply Rmult_le_compat_neg_l; lra. } lra.
  - apply IH; try assumption; lra. Qed.

Lemma ninterp_ge b x l : l <> [] ->
  match l with [] => True | (x0, y0) :: r => sorted_from x0 r end -> ys_ge b l -> b <= @ninterp RNum x l.
Proof. destruct l as [ | [x0 y0] r]; [congruence | ]. intros _ Hs Hb. simpl.
  inversion Hb as [ | ? ? Hb0 Hbr]; subst. simpl in Hb0.
  rnum. rewrite (proj2 (Reqb_true x x) eq_refl). unfold Rleb. destruct (Rle_dec x x0); [assumption | ].
  apply interp_from_ge; try assumption; lra. Qed.

(* ------------------------------------------------------------------------------------------------ *)
(* volatile PM                                                                                        *)
(* ------------------------------------------------------------------------------------------------ *)
Lemma foa3_delta_bounds t : 617 / 100 <= @ninterp RNum t (@foa3_nodes RNum).
Proof. apply ninterp_ge; [discriminate | | ].
  - unfold foa3_nodes. rn. simpl. repeat split; lra.
  - unfold foa3_nodes, ys_ge. rn. repeat (apply Forall_cons; [simpl; lra | ]). apply Forall_nil. Qed.

Lemma pmvol_foa3_scales k t hc :
  @pmvol_foa3 RNum t (k * hc) = (k * fst (@pmvol_foa3 RNum t hc), k * snd (@pmvol_foa3 RNum t hc)).
Proof. unfold pmvol_foa3. simpl. rn. f_equal; unfold Rdiv; ring. Qed.

Lemma pmvol_foa3_nonneg t hc : 0 <= hc -> 0 <= fst (@pmvol_foa3 RNum t hc) /\ 0 <= snd (@pmvol_foa3 RNum t hc).
Proof. intros H. pose proof (foa3_delta_bounds t) as Hd. unfold pmvol_foa3.
  asR (@ninterp RNum t (@foa3_nodes RNum)) d. simpl. rn.
  assert (0 <= d * hc / (1000 / 1)).
  { apply Rmult_le_pos; [apply Rmult_le_pos; lra | lra]. }
  split; assumption. Qed.

Lemma pmvol_fuelflow_positive m : 0 < fst (@pmvol_fuelflow RNum m) /\ 0 < snd (@pmvol_fuelflow RNum m).
Proof. destruct m; unfold pmvol_fuelflow; simpl; rn; lra. Qed.

(* ------------------------------------------------------------------------------------------------ *)
(* SCOPE11                                                                                            *)
(* ------------------------------------------------------------------------------------------------ *)
Lemma scope11_cbc_pos sn : 0 < @scope11_cbc RNum sn.
Proof. unfold scope11_cbc. rn. apply Rdiv_lt_0_compat.
  - apply Rmult_lt_0_compat; [lra | apply exp_pos].
  - pose proof (exp_pos (- (549 / 500) * (sn - 383 / 125))). lra. Qed.

Lemma scope11_kslm_pos cbc bp : 0 < cbc -> 0 <= bp -> 0 < @scope11_kslm RNum cbc bp.
Proof. intros Hc Hb. unfold scope11_kslm. rn.
  assert (Hm : 0 < cbc * (1 / 1 + bp) * (1000 / 1)).
  { apply Rmult_lt_0_compat; [apply Rmult_lt_0_compat |]; lra. }
  rewrite <- ln_1. apply ln_increasing; [lra | ].
  apply (Rmult_lt_reg_r (cbc * (1 / 1 + bp) * (1000 / 1) + 213 / 5)); [lra | ].
  replace ((3219 / 1000 * cbc * (1 / 1 + bp) * (1000 / 1) + 625 / 2) / (cbc * (1 / 1 + bp) * (1000 / 1) + 213 / 5) *
           (cbc * (1 / 1 + bp) * (1000 / 1) + 213 / 5))
     with (3219 / 1000 * (cbc * (1 / 1 + bp) * (1000 / 1)) + 625 / 2) by (field; lra).
  lra. Qed.

Lemma afr_pos m : 0 < @afr RNum m.
Proof. destruct m; unfold afr; rn; lra. Qed.

Lemma scope11_Q_nonneg m bpr et : 0 <= bpr -> 0 <= @scope11_Q RNum m bpr et.
Proof. intros Hb. pose proof (afr_pos m) as Ha. unfold scope11_Q. asR (@afr RNum m) av.
  destruct (String.eqb et "MTF"); [ | destruct (String.eqb et "TF")]; rn; try lra.
  assert (0 <= 97 / 125 * av * (1 / 1 + bpr)) by (apply Rmult_le_pos; [apply Rmult_le_pos |]; lra).
  lra. Qed.

Lemma scope11_mode_nonneg sn m bpr et : 0 <= bpr -> 0 <= @scope11_mode RNum sn m bpr et.
Proof. intros Hb. unfold scope11_mode.
  destruct (@eqb RNum sn _ || @eqb RNum sn _); [rnum; lra | ].
  set (sn' := @nmin RNum sn _).
  pose proof (scope11_cbc_pos sn') as Hc.
  assert (Hbp : 0 <= (if String.eqb et "MTF" then bpr else @zero RNum)) by (destruct (String.eqb et "MTF"); rnum; lra).
  pose proof (scope11_kslm_pos _ _ Hc Hbp) as Hk.
  pose proof (scope11_Q_nonneg m bpr et Hb) as HQ.
  asR (@scope11_cbc RNum sn') cv. asR (@scope11_Q RNum m bpr et) qv.
  rn. match goal with |- 0 <= ?t * _ * _ / _ => asR t kv end.
  apply Rmult_le_pos; [ | lra]. apply Rmult_le_pos; [ | assumption].
  apply Rmult_le_pos; lra. Qed.

(* ------------------------------------------------------------------------------------------------ *)
(* MEEM (partial)                                                                                     *)
(* ------------------------------------------------------------------------------------------------ *)
Lemma meem_adjust_scales k ref (P3 P3ref : R) : @meem_adjust RNum (k * ref) P3 P3ref = k * @meem_adjust RNum ref P3 P3ref.
Proof. unfold meem_adjust. rn. ring. Qed.

Lemma meem_adjust_pos ref (P3 P3ref : R) : 0 < ref -> 0 < @meem_adjust RNum ref P3 P3ref.
Proof. intros. unfold meem_adjust. rn.
  apply Rmult_lt_0_compat; [apply Rmult_lt_0_compat; [lra | apply exp_pos] | apply exp_pos]. Qed.

(* the number index is the reference number index times the same altitude factor, whatever the mass index *)
Lemma meem_number_index ref_num ref_mass (P3 P3ref : R) : 0 < ref_mass ->
  ref_num * @meem_adjust RNum ref_mass P3 P3ref / (@q RNum 1 1000 * ref_mass) =
  ref_num * (@npow RNum (P3 / P3ref) (@q RNum 27 20) * @npow RNum (@q RNum 11 10) (@q RNum 5 2)).
Proof. intros. unfold meem_adjust. rn. field. lra. Qed.

Lemma meem_grid_scales k v vmax kind :
  @meem_grid RNum (tscale k v) (k * vmax) kind = scale_ys k (@meem_grid RNum v vmax kind).
Proof. destruct v as [[[a0 a1] a2] a3]. destruct kind; reflexivity. Qed.

Lemma meem_grid_sorted v vmax kind :
  match @meem_grid RNum v vmax kind with [] => True | (x0, _) :: r => sorted_from x0 r end.
Proof. destruct v as [[[a0 a1] a2] a3]. destruct kind; simpl; rn; repeat split; lra. Qed.

Lemma meem_grid_ge b v vmax kind : (let '(a0, a1, a2, a3) := v in b <= a0 /\ b <= a1 /\ b <= a2 /\ b <= a3) ->
  b <= vmax -> ys_ge b (@meem_grid RNum v vmax kind).
Proof. destruct v as [[[a0 a1] a2] a3]. intros (H0 & H1 & H2 & H3) Hm.
  destruct kind; unfold ys_ge; simpl; repeat (apply Forall_cons; [simpl; assumption | ]); apply Forall_nil. Qed.

Lemma meem_reference_ge b F v vmax kind : (let '(a0, a1, a2, a3) := v in b <= a0 /\ b <= a1 /\ b <= a2 /\ b <= a3) ->
  b <= vmax -> b <= @ninterp RNum F (@meem_grid RNum v vmax kind).
Proof. intros Hv Hm. apply ninterp_ge.
  - destruct v as [[[a0 a1] a2] a3]; destruct kind; discriminate.
  - apply meem_grid_sorted.
  - apply meem_grid_ge; assumption. Qed.

(* combustor-inlet pressure ratio: positive whenever the point is not a climbing point below 3000 m *)
Lemma meem_p3_ratio_pos pr hmax hp h : 1 < pr -> (h <= hp \/ 3000 <= h) -> h <= hmax ->
  0 < @meem_p3_ratio RNum pr hmax hp h.
Proof. intros Hpr Hcase Hmax. unfold meem_p3_ratio, meem_pc, meem_pc_rate, meem_lin. rn.
  unfold Rltb at 1. destruct (Rlt_dec 0 (h - hp)) as [Hc | Hc].
  - assert (H3 : 3000 <= h) by (destruct Hcase; lra).
    set (d := if Rltb _ _ then _ else _).
    assert (Hd : 0 < d) by (unfold d, Rltb; destruct (Rlt_dec _ _); lra).
    assert (0 <= (h - 3000 / 1) / d) by (apply Rmult_le_pos; [lra | left; apply Rinv_0_lt_compat; assumption]).
    assert (0 <= (23 / 20 - 17 / 20) * ((h - 3000 / 1) / d)) by (apply Rmult_le_pos; lra).
    assert (0 <= (17 / 20 + (23 / 20 - 17 / 20) * ((h - 3000 / 1) / d)) * (pr - 1 / 1)) by (apply Rmult_le_pos; lra).
    lra.
  - unfold Reqb. destruct (Req_EM_T _ _).
    + assert (0 <= 19 / 20 * (pr - 1 / 1)) by (apply Rmult_le_pos; lra). lra.
    + assert (0 <= 3 / 25 * (pr - 1 / 1)) by (apply Rmult_le_pos; lra). lra. Qed.

(* ... and negative for a climbing point below 3000 m of a trajectory that tops out low (finding FC12b) *)
Lemma meem_low_climb_negative_pressure :
  exists pr hmax hp h, 1 < pr /\ 0 <= hp < h /\ h <= hmax /\ @meem_p3_ratio RNum pr hmax hp h < 0.
Proof. exists 25, 2500, 0, 1000. repeat split; try lra.
  unfold meem_p3_ratio, meem_pc, meem_pc_rate, meem_lin. rn. rsolve. lra. Qed.

(* ------------------------------------------------------------------------------------------------ *)
(* non-vacuity of the hypotheses used in props/C12_Props.v                                             *)
(* ------------------------------------------------------------------------------------------------ *)
Lemma ffm2_hyps_satisfiable : 0 <= (1:R) /\ 0 < (22632:R) /\ 0 < (101325:R) /\ 0 < (2:R).
Proof. repeat split; lra. Qed.
Lemma nox_hyps_satisfiable : 0 < (2:R) /\ tpos (30, 25, 20, 18).
Proof. unfold tpos. repeat split; lra. Qed.
Lemma sox_hyps_satisfiable : 0 <= (600:R) /\ 0 <= (1/50:R) <= 1.
Proof. repeat split; lra. Qed.
Lemma thrust_cat_examples :
  @thrust_cat RNum (1/10) (2/10, 6/10, 15/10, 2) = Idle /\ @thrust_cat RNum 1 (2/10, 6/10, 15/10, 2) = Approach /\
  @thrust_cat RNum 3 (2/10, 6/10, 15/10, 2) = Climb /\
  @thrust_cat RNum (1/2) (1, 1, 1/10, 2) = Idle /\ @thrust_cat RNum (3/2) (1, 1, 1/10, 2) = Climb.
Proof. unfold thrust_cat, low_limit, approach_limit, tget. rn. repeat split; rsolve; reflexivity. Qed.

(* ------------------------------------------------------------------------------------------------ *)
(* the same laws restricted to the property's domain (positive certification data, physical ambient    *)
(* state): outside it the real-number statements hold only through Coq's totalised ln and division     *)
(* ------------------------------------------------------------------------------------------------ *)
(* Eq. 44-45 are defined iff the water-vapour partial pressure at 60 % relative humidity is below the
   ambient pressure (both in psia): phi * Pv < P_psia, the denominator of the specific humidity *)
Definition humidity_defined (Ta P : R) : Prop :=
  0 < Ta /\ 0 < P /\
  3 / 5 * (1813 / 125000 * @pow10 RNum (@sat_beta RNum Ta)) < P / @c_p0 RNum * (1837 / 125).

Lemma humidity_defined_denominator Ta P : humidity_defined Ta P ->
  0 < Ta + 1 / 100 /\ 0 < P / @c_p0 RNum * @q RNum 1837 125 - @q RNum 3 5 * (@q RNum 1813 125000 * @pow10 RNum (@sat_beta RNum Ta)).
Proof. intros (HT & HP & H). asR (@pow10 RNum (@sat_beta RNum Ta)) pv. asR (P / @c_p0 RNum) d. rn. split; lra. Qed.

(* for every temperature there are pressures satisfying the hypothesis (the harness checks that every generated
   ambient state does) *)
Lemma humidity_defined_satisfiable Ta : 0 < Ta -> exists P, humidity_defined Ta P.
Proof. intros HT. pose proof (pow10_pos (@sat_beta RNum Ta)) as Hp. pose proof c_p0_pos as H0.
  exists ((3 / 5 * (1813 / 125000 * @pow10 RNum (@sat_beta RNum Ta)) + 1) * (125 / 1837) * @c_p0 RNum).
  unfold humidity_defined. asR (@pow10 RNum (@sat_beta RNum Ta)) pv. asR (@c_p0 RNum) p0.
  split; [assumption | split].
  - apply Rmult_lt_0_compat; [apply Rmult_lt_0_compat | ]; lra.
  - replace ((3 / 5 * (1813 / 125000 * pv) + 1) * (125 / 1837) * p0 / p0 * (1837 / 125))
      with (3 / 5 * (1813 / 125000 * pv) + 1) by (field; lra). lra. Qed.

Lemma ffm2_linear_physical (k f1 f2 P Ta M z PSL TSL n : R) :
  0 < P -> 0 < Ta -> 0 < PSL -> 0 < TSL -> 0 < n ->
  @ffm2 RNum (k * f1) P Ta M z PSL TSL n = k * @ffm2 RNum f1 P Ta M z PSL TSL n /\
  @ffm2 RNum (f1 + f2) P Ta M z PSL TSL n = @ffm2 RNum f1 P Ta M z PSL TSL n + @ffm2 RNum f2 P Ta M z PSL TSL n.
Proof. intros. split; [apply ffm2_scales | apply ffm2_additive]. Qed.

Lemma ffm2_nonneg_physical (ff P Ta M z PSL TSL n : R) :
  0 <= ff -> 0 < P -> 0 < Ta -> 0 < PSL -> 0 < TSL -> 0 < n -> 0 <= @ffm2 RNum ff P Ta M z PSL TSL n.
Proof. intros. apply ffm2_nonneg; assumption. Qed.

Lemma ffm2_physical_satisfiable :
  0 <= (1:R) /\ 0 < (22632:R) /\ 0 < (21665/100:R) /\ 0 < (101325:R) /\ 0 < (28815/100:R) /\ 0 < (2:R).
Proof. repeat split; lra. Qed.

Lemma bffm2_nox_scales_physical k ff (ei cal : tm) Ta P :
  0 < k -> tpos ei -> tpos cal -> humidity_defined Ta P ->
  @bffm2_nox RNum ff (tscale k ei) cal Ta P =
  let '(nox, no, no2, hono, pno, pno2, phono) := @bffm2_nox RNum ff ei cal Ta P in
  (k * nox, k * no, k * no2, k * hono, pno, pno2, phono).
Proof. intros. apply bffm2_nox_scales; assumption. Qed.

Lemma bffm2_nox_positive_physical ff (ei cal : tm) Ta P :
  tpos ei -> tpos cal -> humidity_defined Ta P ->
  let '(nox, no, no2, hono, pno, pno2, phono) := @bffm2_nox RNum ff ei cal Ta P in
  0 < nox /\ 0 < no /\ 0 < no2 /\ 0 < hono /\ no + no2 + hono = nox /\ pno + pno2 + phono = 1.
Proof. intros. apply bffm2_nox_positive. Qed.

Lemma hcco_scales_physical k ff (ei cal : tm) Ta P :
  0 < k -> tpos ei -> tpos cal -> 0 < Ta -> 0 < P ->
  @hcco RNum ff (tscale k ei) cal Ta P = k * @hcco RNum ff ei cal Ta P.
Proof. intros. apply hcco_scales; assumption. Qed.

Lemma hcco_nonneg_physical ff (ei cal : tm) Ta P :
  tpos ei -> tpos cal -> 0 < Ta -> 0 < P ->
  0 <= @hcco RNum ff ei cal Ta P /\ (0 < ff -> 0 < @hcco RNum ff ei cal Ta P).
Proof. intros. split; [apply hcco_nonneg | apply hcco_positive_flow_positive]. Qed.

Lemma cert_data_satisfiable : 0 < (2:R) /\ tpos (30, 25, 20, 18) /\ tpos (2/10, 6/10, 15/10, 2) /\ 0 < (21665/100:R) /\ 0 < (22632:R).
Proof. unfold tpos. repeat split; lra. Qed.

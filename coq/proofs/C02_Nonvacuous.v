(* C02 — non-vacuity over the reals: an oracle pair satisfying [valid_oracle], a schedule that is accepted, and
   climb / cruise / descent loops that return points for concrete real inputs (so the premises of lc_inv,
   crz_inv and of the schedule lemmas are satisfiable).  A whole flight returned by [fly] is exhibited at
   binary64 in proofs/C02_Main.v:time_order_with_last_point_handover. *)
From Coq Require Import ZArith List Bool Lia Reals Lra.
From AV Require Import lib.Num model.C02_Model proofs.C02_Container proofs.C02_Builder proofs.C02_Main.
Import ListNotations.
Local Open Scope R_scope.

Definition ex_perf : oracle := fun _ r _ _ =>
  match r with Climb => Some (5, 3, 1) | Cruise => Some (5, 0, 1) | Descend => Some (5, -3, 1) end.
Definition ex_geo : geodesic := fun _ s => (s, 0, 0).
Definition ex_inside : envelope := fun _ _ _ => true.
(* a uniform tail wind of 2 *)
Definition ex_wind : wind := fun _ t => Some (t + 2).
Lemma ex_wind_valid_on_positive : forall k t g, 0 <= t -> ex_wind k t = Some g -> 0 < g.
Proof. unfold ex_wind; intros k t g Ht H; inversion H; lra. Qed.
Definition ex_flight : flight :=
  @mkflight RNum 0 0 10000 0 0 0 1000000 1 1 100 1000000 1 2 2 2.

Lemma ex_valid : valid_oracle ex_perf ex_inside.
Proof.
  unfold valid_oracle, ex_perf, ex_inside. repeat split; intros; auto;
    try (match goal with H : Some _ = Some _ |- _ => inversion H; subst; lra end).
  destruct rl; inversion H; subst; unfold Rabs; destruct (Rcase_abs _); lra.
Qed.

Lemma sqrt16 : sqrt (5 * 5 - 3 * 3) = 4.
Proof. replace (5 * 5 - 3 * 3) with (4 * 4) by lra. apply sqrt_square. lra. Qed.
Lemma sqrt16' : sqrt (5 * 5 - -3 * -3) = 4.
Proof. replace (5 * 5 - -3 * -3) with (4 * 4) by lra. apply sqrt_square. lra. Qed.

Ltac decide_ifs :=
  repeat match goal with
  | |- context [Rltb ?a ?b] =>
      first [ replace (Rltb a b) with true by (symmetry; apply Rltb_true; lra)
            | replace (Rltb a b) with false by (symmetry; apply Rltb_false; lra) ]
  | |- context [Rleb ?a ?b] =>
      first [ replace (Rleb a b) with true by (symmetry; apply Rleb_true; lra)
            | replace (Rleb a b) with false by (symmetry; apply Rleb_false; lra) ]
  end.


Definition ex_p0 : pt := @mkpt RNum 1000 0 0 0 60000 5000 0 0 0 0 0 0 0 0.

(* one climb segment over R: the premises of lc_inv are satisfiable and lc_loop returns two points *)
Example ex_climb : exists l kp kg,
  @lc_loop RNum ex_perf ex_geo ex_wind true Climb 43 1000 6000 1000000 1 0 ex_p0 0 0 = Ok (l, kp, kg) /\ length l = 2%nat.
Proof.
  do 3 eexists.
  cbv - [Rplus Rminus Rmult Rdiv Rinv Ropp sqrt Rltb Rleb Reqb IZR Rabs length].
  rewrite ?sqrt16. decide_ifs. split; reflexivity.
Qed.

Example ex_cruise : exists l kp kg,
  @crz_loop RNum ex_perf ex_geo ex_wind true 1000 1000000 2 (@crz_entry RNum 7000 (@mkpt RNum 7000 0 5 3 59000 4000 8000 2000 4 1 0 0 0 0)) 3 1
    = Ok (l, kp, kg) /\ length l = 2%nat.
Proof.
  do 3 eexists.
  cbv - [Rplus Rminus Rmult Rdiv Rinv Ropp sqrt Rltb Rleb Reqb IZR Rabs length].
  decide_ifs. split; reflexivity.
Qed.

Example ex_descent : exists l kp kg,
  @lc_loop RNum ex_perf ex_geo ex_wind false Descend 43 7000 (-6000) 1000000 1 0 (@mkpt RNum 7000 0 5 0 58000 3000 10000 2400 5 1 0 0 0 0) 5 3
    = Ok (l, kp, kg) /\ length l = 2%nat.
Proof.
  do 3 eexists.
  cbv - [Rplus Rminus Rmult Rdiv Rinv Ropp sqrt Rltb Rleb Reqb IZR Rabs length].
  rewrite ?sqrt16'. decide_ifs. split; reflexivity.
Qed.

Example ex_schedule : exists s, @schedule RNum 0 0 10000 = Ok s.
Proof.
  eexists. unfold schedule.
  cbv - [Rplus Rminus Rmult Rdiv Rinv Ropp sqrt Rltb Rleb Reqb IZR Rabs].
  decide_ifs. reflexivity.
Qed.


Example ex_valid_wind : valid_wind (fun _ _ => Some 200).
Proof. unfold valid_wind; intros k t g H; inversion H; lra. Qed.

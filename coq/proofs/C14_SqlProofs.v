(* C14 — the expected SQL-level shape means the model's conjunct list.  Axiom-free. *)
From Coq Require Import ZArith List String Bool.
From AV Require Import lib.Dates model.C14_Model model.C14_Sql.
Import ListNotations.
Open Scope Z_scope.

Lemma expected_shape_is_own_conds : forall eo q, conds_of_shape expected_shape eo q = Some (own_conds eo q).
Proof.
  intros eo q. unfold conds_of_shape, own_conds, start_of_shape, end_of_shape, nth_of_shape, date_part, nth_part.
  simpl. destruct (q_start q) as [cs|]; destruct (q_end q) as [ce|]; simpl;
    destruct (negb (query_valid q)); try reflexivity;
    destruct (filter_part eo (q_filter q)); reflexivity.
Qed.

(* a shape that anchors every-n-th-day selection at MIN(day) even when a start date is given is NOT the model *)
Example unanchored_shape_differs :
  exists q, conds_of_shape (Shape ">=" "<" 1 "self.every_nth is not None and self.every_nth > 1" false) true q
            <> Some (own_conds true q).
Proof.
  exists (Query None (Some (2019, 3, 1)) None (Some 3) None None None). vm_compute. discriminate.
Qed.

Example closed_end_shape_has_no_reading :
  conds_of_shape (Shape ">=" "<=" 1 "self.every_nth is not None and self.every_nth > 1" true) true
                 (Query None None (Some (2019, 3, 1)) None None None None) = None.
Proof. reflexivity. Qed.

(* C06 — concrete witnesses over the reals for the behaviour before the repairs (findings FC06b, FC06c). *)
From Coq Require Import List Reals Lra Lia Bool Arith PrimFloat.
From AV Require Import lib.Num lib.FloatMath model.C06_Model proofs.C06_Lists proofs.C06_Proofs proofs.C06_PTF.
Import ListNotations.
Local Open Scope R_scope.

(* evaluation of the model on closed real terms: unfold the model, decide each comparison with lra *)
Ltac rcmp :=
  match goal with
  | |- context [Rabs ?a] => first [rewrite (Rabs_left a) by lra | rewrite (Rabs_right a) by lra]
  | |- context [Rltb ?a ?b] =>
    first [rewrite (proj2 (Rltb_true a b)) by lra | rewrite (proj2 (Rltb_false a b)) by lra]
  | |- context [Rleb ?a ?b] =>
    first [rewrite (proj2 (Rleb_true a b)) by lra | rewrite (proj2 (Rleb_false a b)) by lra]
  | |- context [Reqb ?a ?b] =>
    first [rewrite (proj2 (Reqb_true a b)) by lra | rewrite (proj2 (Reqb_false a b)) by lra]
  end.

Ltac runfold :=
  cbv beta delta [validate load evaluate interp_phase resolve_mass masses fls uniq_sorted subset
                  required_masses coverage_ok fl_only_ok pair_eqb key sel node_val node_val1 lin bil
                  list_min list_max nmin nmax Nat.ltb ptf_shape bada_ptf wf_ptf nonempty];
  cbn [fold_right insert_u map r_fl r_mass r_tas r_rocd r_ff forallb filter in_phase
       dedup_pairs mem_pair fst snd length Nat.eqb Nat.leb Nat.mul Nat.add negb andb orb
       sw_set sw_sort bracket find rev app combine fold_left distinct existsb
       p_low p_nom p_high p_climb p_cruise p_descent pc_fl pc_tas pc_lo pc_nom pc_hi pc_ff
       pr_fl pr_tas pr_lo pr_nom pr_hi pd_fl pd_tas pd_rocd pd_ff];
  change (@zero RNum) with 0; change (@mul RNum) with Rmult;
  change (@tol RNum) with (1 / 1000000);
  change (@nabs RNum) with Rabs; change (@opp RNum) with Ropp;
  change (@ltb RNum) with Rltb; change (@leb RNum) with Rleb; change (@eqb RNum) with Reqb.

Ltac rcompute := repeat (runfold; rcmp); runfold.

Definition w_desc : list (row RNum) :=
  [ @mkRow RNum 1 1 10 (-1) 1 ; @mkRow RNum 0 1 20 (-1) 1 ].

(* FC06b: with the values of a single-mass sub-table taken in row order, a descent table listed from the top level
   down passes every check and returns, at its upper tabulated level, the values tabulated for the lower one *)
Lemma row_order_before_fix :
  @validate RNum (mkSw false true) (@subset RNum Descent w_desc) = None /\
  In (@mkRow RNum 1 1 10 (-1) 1) (@subset RNum Descent w_desc) /\
  @evaluate RNum (mkSw false true) (fun x => x) w_desc Descent 1 (@MVal RNum 1) = @Ok RNum 20 (-1) 1.
Proof.
  unfold w_desc. split; [|split].
  - rcompute. reflexivity.
  - rcompute. cbn. auto.
  - rcompute. f_equal; rnum; field.
Qed.

Lemma row_order_before_fix_refuted :
  exists (rows : list (row RNum)) (r : row RNum),
    @validate RNum (mkSw false true) (@subset RNum Descent rows) = None /\
    In r (@subset RNum Descent rows) /\
    @evaluate RNum (mkSw false true) (fun x => x) rows Descent (r_fl r) (@MVal RNum (r_mass r))
      <> @Ok RNum (r_tas r) (r_rocd r) (r_ff r).
Proof.
  exists w_desc, (@mkRow RNum 1 1 10 (-1) 1).
  destruct row_order_before_fix as (A & B & C). repeat split; auto.
  cbn [r_fl r_mass r_tas r_rocd r_ff]. rewrite C. intros E. inversion E as [[H]]. revert H. apply Rgt_not_eq.
  apply Rlt_gt. apply (IZR_lt 10 20). reflexivity.
Qed.

(* after the repair the same table gives the tabulated values (instance of node_exact) *)
Lemma row_order_after_fix :
  @evaluate RNum swF (fun x => x) w_desc Descent 1 (@MVal RNum 1) = @Ok RNum 10 (-1) 1.
Proof.
  apply (node_exact swF (fun x => x) w_desc Descent (@mkRow RNum 1 1 10 (-1) 1)); auto.
  - unfold w_desc. rcompute. reflexivity.
  - unfold w_desc. rcompute. cbn. auto.
Qed.

(* FC06c: two levels x three masses in cruise, the node (1, 3) replaced by a second copy of (1, 2): six rows,
   2 * 3 = 6, airspeed a function of the level -- the count test is satisfied, the grid is not complete *)
Definition w_dup : list (row RNum) :=
  [ @mkRow RNum 0 1 5 0 1 ; @mkRow RNum 0 2 5 0 2 ; @mkRow RNum 0 3 5 0 3 ;
    @mkRow RNum 1 1 6 0 4 ; @mkRow RNum 1 2 6 0 5 ; @mkRow RNum 1 2 6 0 5 ].

Lemma w_dup_not_grid : ~ full_grid (@subset RNum Cruise w_dup).
Proof.
  intros [Hnd _]. revert Hnd. unfold w_dup, keys. rcompute. cbn [map key r_fl r_mass].
  intros H. repeat match goal with H : NoDup (_ :: _) |- _ => apply NoDup_cons_iff in H as [? ?] end.
  match goal with H : ~ In _ [_] |- _ => apply H; cbn; auto end.
Qed.

Lemma coverage_count_test_before_fix :
  @load RNum (mkSw true false) w_dup = None /\ ~ full_grid (@subset RNum Cruise w_dup).
Proof.
  split; [|apply w_dup_not_grid]. unfold w_dup. rcompute. reflexivity.
Qed.

Lemma coverage_count_test_before_fix_refuted :
  exists rows : list (row RNum),
    @load RNum (mkSw true false) rows = None /\ ~ full_grid (@subset RNum Cruise rows).
Proof. exists w_dup. exact coverage_count_test_before_fix. Qed.

Lemma coverage_after_fix : @load RNum swF w_dup = Some (ECoverage Cruise).
Proof. unfold w_dup, swF. rcompute. reflexivity. Qed.

(* ... and the accepted table then interpolates through a node that is not in the table (value 0) *)
Lemma missing_node_reads_zero_before_fix :
  @evaluate RNum (mkSw true false) (fun x => x) w_dup Cruise 1 (@MVal RNum 3) = @Ok RNum 0 0 0.
Proof. unfold w_dup. rcompute. f_equal; rnum; field. Qed.

(* ---- a small valid table (non-vacuity of the hypotheses used throughout) ----
   climb: level 0 x masses 1,2,3; cruise: levels 0,1 x masses 1,2,3; descent: level 0, mass 2 *)
Definition w_ok : list (row RNum) :=
  [ @mkRow RNum 0 1 7 3 9 ; @mkRow RNum 0 2 7 2 9 ; @mkRow RNum 0 3 7 1 9 ;
    @mkRow RNum 0 1 5 0 1 ; @mkRow RNum 0 2 5 0 2 ; @mkRow RNum 0 3 5 0 3 ;
    @mkRow RNum 1 1 6 0 4 ; @mkRow RNum 1 2 6 0 5 ; @mkRow RNum 1 3 6 0 8 ;
    @mkRow RNum 0 2 4 (-1) 1 ].

Lemma w_ok_climb : @subset RNum Climb w_ok = [ @mkRow RNum 0 1 7 3 9 ; @mkRow RNum 0 2 7 2 9 ; @mkRow RNum 0 3 7 1 9 ].
Proof. unfold w_ok. rcompute. reflexivity. Qed.
Lemma w_ok_cruise : @subset RNum Cruise w_ok =
  [ @mkRow RNum 0 1 5 0 1 ; @mkRow RNum 0 2 5 0 2 ; @mkRow RNum 0 3 5 0 3 ;
    @mkRow RNum 1 1 6 0 4 ; @mkRow RNum 1 2 6 0 5 ; @mkRow RNum 1 3 6 0 8 ].
Proof. unfold w_ok. rcompute. reflexivity. Qed.
Lemma w_ok_descent : @subset RNum Descent w_ok = [ @mkRow RNum 0 2 4 (-1) 1 ].
Proof. unfold w_ok. rcompute. reflexivity. Qed.

Lemma w_ok_masses : @masses RNum w_ok = [1; 2; 3].
Proof. unfold w_ok. rcompute. reflexivity. Qed.
Lemma w_ok_required : @required_masses RNum w_ok = 3%nat.
Proof. unfold w_ok. rcompute. reflexivity. Qed.

Lemma w_ok_loads : @load RNum swF w_ok = None.
Proof.
  unfold load. apply validate_none. unfold checks.
  rewrite w_ok_masses, w_ok_required, w_ok_climb, w_ok_cruise, w_ok_descent. unfold swF.
  repeat split; rcompute; reflexivity.
Qed.

Lemma w_ok_phases_valid : forall p, @validate RNum swF (@subset RNum p w_ok) = None.
Proof.
  intros []; [rewrite w_ok_climb | rewrite w_ok_cruise | rewrite w_ok_descent];
    apply validate_none; unfold checks, swF; repeat split; rcompute; reflexivity.
Qed.

Lemma w_ok_interior :
  @evaluate RNum swF (fun x => x) w_ok Cruise (1 / 2) (@MVal RNum (5 / 2)) = @Ok RNum (11 / 2) 0 (9 / 2).
Proof.
  unfold evaluate. rewrite (w_ok_phases_valid Cruise), w_ok_cruise. unfold swF. rcompute. f_equal; rnum; field.
Qed.

Lemma w_ok_outside :
  @evaluate RNum swF (fun x => x) w_ok Cruise 2 (@MVal RNum 2) = @Rej RNum (EBounds 0) /\
  @evaluate RNum swF (fun x => x) w_ok Cruise 1 (@MVal RNum 4) = @Rej RNum (EBounds 1) /\
  @evaluate RNum swF (fun x => x) w_ok Descent 0 (@MVal RNum 400) = @Ok RNum 4 (-1) 1.
Proof.
  unfold evaluate. rewrite (w_ok_phases_valid Cruise), (w_ok_phases_valid Descent), w_ok_cruise, w_ok_descent.
  unfold swF. repeat split; rcompute; try reflexivity. f_equal; rnum; field.
Qed.

(* ---- FC06d: a PTF content as BADA writes it (0 fpm for the high mass at a level that also has a cruise row) ---- *)
Definition w_ptf0 : ptf RNum :=
  @mkPTF RNum 1 2 3 [ @mkPC RNum 0 4 2 1 0 9 ] [ @mkPR RNum 0 5 1 2 3 ] [ @mkPD RNum 0 4 1 1 ].

Lemma w_ptf0_is_bada : @bada_ptf RNum w_ptf0 = true.
Proof. unfold w_ptf0. rcompute. reflexivity. Qed.

Lemma ptf_zero_climb_rate_refuted :
  exists P : ptf RNum, @bada_ptf RNum P = true /\ exists e, @load RNum swF (@build_table RNum 1 1 1 P) = Some e.
Proof.
  exists w_ptf0. split; [apply w_ptf0_is_bada|].
  apply (ptf_zero_climb_rate_refused 1 1 1 w_ptf0 (@mkPC RNum 0 4 2 1 0 9) (@mkPR RNum 0 5 1 2 3)); cbn; auto.
  pose proof tol_pos. rnum. lra.
Qed.

(* a well-formed one (non-vacuity of wf_ptf) *)
Definition w_ptf1 : ptf RNum :=
  @mkPTF RNum 1 2 3 [ @mkPC RNum 0 4 3 2 1 9 ; @mkPC RNum 1 5 3 2 1 8 ] [ @mkPR RNum 1 5 1 2 3 ] [ @mkPD RNum 0 4 1 1 ].
Lemma w_ptf1_wf : @wf_ptf RNum 1 w_ptf1 = true.
Proof. unfold w_ptf1. rcompute. reflexivity. Qed.

(* ---- O2: a phase that is a complete grid over the wrong number of masses (climb with two) is accepted at load and
        rejected at the first evaluation of that phase ---- *)
Definition w_o2 : list (row RNum) :=
  [ @mkRow RNum 0 1 7 3 9 ; @mkRow RNum 0 2 7 2 9 ;
    @mkRow RNum 0 1 5 0 1 ; @mkRow RNum 0 2 5 0 2 ; @mkRow RNum 0 3 5 0 3 ;
    @mkRow RNum 0 2 4 (-1) 1 ].

Lemma w_o2_climb : @subset RNum Climb w_o2 = [ @mkRow RNum 0 1 7 3 9 ; @mkRow RNum 0 2 7 2 9 ].
Proof. unfold w_o2. rcompute. reflexivity. Qed.
Lemma w_o2_cruise : @subset RNum Cruise w_o2 = [ @mkRow RNum 0 1 5 0 1 ; @mkRow RNum 0 2 5 0 2 ; @mkRow RNum 0 3 5 0 3 ].
Proof. unfold w_o2. rcompute. reflexivity. Qed.
Lemma w_o2_descent : @subset RNum Descent w_o2 = [ @mkRow RNum 0 2 4 (-1) 1 ].
Proof. unfold w_o2. rcompute. reflexivity. Qed.
Lemma w_o2_masses : @masses RNum w_o2 = [1; 2; 3].
Proof. unfold w_o2. rcompute. reflexivity. Qed.
Lemma w_o2_required : @required_masses RNum w_o2 = 3%nat.
Proof. unfold w_o2. rcompute. reflexivity. Qed.

Lemma wrong_mass_count_loads_then_rejects :
  @load RNum swF w_o2 = None /\
  @evaluate RNum swF (fun x => x) w_o2 Climb 0 (@MVal RNum 1) = @Rej RNum EMassCount.
Proof.
  split.
  - unfold load. apply validate_none. unfold checks.
    rewrite w_o2_masses, w_o2_required, w_o2_climb, w_o2_cruise, w_o2_descent. unfold swF.
    repeat split; rcompute; reflexivity.
  - unfold evaluate. rewrite w_o2_climb. unfold swF. rcompute. reflexivity.
Qed.

(* ---- FC06e: binary64.  FLM_f is units.FL_TO_METERS = 100 * 0.3048 as a double (link: equal to the regenerated one).
        Level 230 expressed in metres and divided back is one ulp above 230, so with 230 as the top tabulated level
        the tabulated state is rejected: node_exact_in_metres does not transfer to the floating-point instance. ---- *)
Definition FLM_f : float := 0x1.e7ae147ae147bp+4%float.
Definition w_f230 : list (row FNum) :=
  [ @mkRow FNum 0 1 5 0 1 ; @mkRow FNum 0 2 5 0 2 ; @mkRow FNum 0 3 5 0 3 ;
    @mkRow FNum 230 1 6 0 4 ; @mkRow FNum 230 2 6 0 5 ; @mkRow FNum 230 3 6 0 8 ]%float.

(* boolean observers, so that vm_compute only ever evaluates closed terms of type bool *)
Definition is_none {A} (o : option A) : bool := match o with None => true | Some _ => false end.
Definition is_rej_bounds0 (r : result FNum) : bool := match r with Rej (EBounds O) => true | _ => false end.
Definition is_ok_with (r : result FNum) (t rc ff : float) : bool :=
  match r with Ok a b c => PrimFloat.eqb a t && PrimFloat.eqb b rc && PrimFloat.eqb c ff | Rej _ => false end.
Definition has_row (l : list (row FNum)) (fl m t rc ff : float) : bool :=
  existsb (fun x : row FNum => PrimFloat.eqb (r_fl x) fl && PrimFloat.eqb (r_mass x) m && PrimFloat.eqb (r_tas x) t
                    && PrimFloat.eqb (r_rocd x) rc && PrimFloat.eqb (r_ff x) ff) l.

Lemma node_exact_in_metres_binary64_refuted :
  is_none (@validate FNum swF (@subset FNum Cruise w_f230)) = true /\
  has_row (@subset FNum Cruise w_f230) 230 2 6 0 5 = true /\
  PrimFloat.ltb 230 (@alt_to_fl_div FNum FLM_f (PrimFloat.mul 230 FLM_f)) = true /\
  is_rej_bounds0 (@evaluate FNum swF (@alt_to_fl_div FNum FLM_f) w_f230 Cruise (PrimFloat.mul 230 FLM_f)
                            (@MVal FNum 2%float)) = true /\
  (* where the level is handed over directly the tabulated values come back bit for bit *)
  is_ok_with (@evaluate FNum swF (fun x => x) w_f230 Cruise 230%float (@MVal FNum 2%float)) 6 0 5 = true.
Proof. repeat split; vm_compute; reflexivity. Qed.

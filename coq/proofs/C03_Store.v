(* C03 — proofs, part 2: whole trajectories and whole stores (repaired writer / reader). *)
From Coq Require Import ZArith List String Bool Arith Lia.
From AV Require Import model.C03_Model proofs.C03_Proofs.
Import ListNotations.
Local Open Scope list_scope.

(* the cells under (fs, fld + j, i) are exactly the patches of the j-th value *)
Definition cells_hold (c : cells) (L : list nat) (fs i fld : nat) (ms : list fmeta) (vs : list fval) : Prop :=
  forall j m v, nth_error ms j = Some m -> nth_error vs j = Some v ->
    exists ps, field_patches true L m v = inl ps /\
               forall s mo, get ((fs, fld + j, i), s, mo) c = plast s mo ps None.

Lemma write_fields_ok : forall n L fs i ms vs, NoDup L -> Forall2 (fits n L) ms vs ->
  forall fld c,
  (forall fld' s mo, fld <= fld' -> get ((fs, fld', i), s, mo) c = None) ->
  exists c', write_fields true L fs i fld ms vs c = inl c' /\
     (forall p s mo, (forall fld', fld <= fld' < fld + List.length ms -> p <> (fs, fld', i)) ->
                     get (p, s, mo) c' = get (p, s, mo) c) /\
     cells_hold c' L fs i fld ms vs.
Proof.
  intros n L fs i ms vs HL HF. induction HF as [| m v ms vs Hfit HF IH]; intros fld c Hfresh.
  - exists c. simpl. split; [reflexivity | split; [reflexivity |]].
    intros j m v Hm. destruct j; discriminate.
  - destruct (roundtrip_field n L m v HL Hfit) as (ps & Hps & _).
    simpl. unfold write_field. rewrite Hps.
    set (c1 := apply_patches (fs, fld, i) ps c).
    destruct (IH (S fld) c1) as (c' & Hw & Hframe & Hhold).
    { intros fld' s mo Hle. unfold c1. rewrite get_apply_patches_other.
      - apply Hfresh. lia.
      - intro H. inversion H. lia. }
    exists c'. split; [exact Hw | split].
    + intros p s mo Hp. rewrite Hframe.
      * unfold c1. apply get_apply_patches_other. apply Hp. simpl. lia.
      * intros fld' Hr. apply Hp. simpl. lia.
    + intros j m' v' Hm Hv. destruct j as [| j]; simpl in Hm, Hv.
      * inversion Hm; inversion Hv; subst. exists ps. split; auto.
        intros s mo. rewrite Nat.add_0_r. rewrite Hframe.
        -- unfold c1. rewrite get_apply_patches_gen, Hfresh by lia.
           destruct (plast s mo ps None); reflexivity.
        -- intros fld' Hr H. inversion H. lia.
      * destruct (Hhold j m' v' Hm Hv) as (ps' & Hps' & Hg). exists ps'. split; auto.
        intros s mo. replace (fld + S j) with (S fld + j) by lia. apply Hg.
Qed.

(* what a trajectory must satisfy to be stored in [st] *)
Definition set_fits (n : Z) (sc : schema) (st_species : list (nat * list nat)) (t : traj) (fs : nat) : Prop :=
  exists L, lookup fs st_species = Some L /\ NoDup L /\ Forall2 (fits n L) (nth fs sc []) (nth fs t []).

Definition index_free (order : list nat) (i : nat) (c : cells) : Prop :=
  forall fs fld s mo, In fs order -> get ((fs, fld, i), s, mo) c = None.

Lemma write_traj_ok : forall n sc t i order st, NoDup order ->
  (forall fs, In fs order -> set_fits n sc (s_species st) t fs) ->
  index_free order i (s_cells st) ->
  exists st', write_traj true sc order i t st = inl st' /\ s_species st' = s_species st /\
     (forall fs fld j s mo, ~ (In fs order /\ j = i) ->
        get ((fs, fld, j), s, mo) (s_cells st') = get ((fs, fld, j), s, mo) (s_cells st)) /\
     (forall fs L, In fs order -> lookup fs (s_species st) = Some L ->
        cells_hold (s_cells st') L fs i 0 (nth fs sc []) (nth fs t [])).
Proof.
  intros n sc t i order. induction order as [| fs rest IH]; intros st Hnd Hfit Hfree.
  - exists st. simpl. repeat split; auto. intros fs L [].
  - inversion Hnd as [| ? ? Hnotin Hnd']; subst.
    destruct (Hfit fs (or_introl eq_refl)) as (L & HL & HLnd & HF2).
    simpl. rewrite HL.
    destruct (write_fields_ok n L fs i _ _ HLnd HF2 0 (s_cells st)) as (c1 & Hw & Hframe & Hhold).
    { intros fld' s mo _. apply Hfree. now left. }
    rewrite Hw.
    set (st1 := {| s_species := s_species st; s_cells := c1 |}).
    destruct (IH st1 Hnd') as (st' & Hw' & Hsp & Hframe' & Hhold').
    { intros fs' Hin. apply Hfit. now right. }
    { intros fs' fld s mo Hin. simpl. rewrite Hframe.
      - apply Hfree. now right.
      - intros fld' _ H. inversion H; subst. contradiction. }
    exists st'. split; [exact Hw' | split; [exact Hsp | split]].
    + intros fs' fld j s mo Hno. rewrite Hframe'.
      * simpl. apply Hframe. intros fld' _ H. inversion H; subst. apply Hno. split; [now left | reflexivity].
      * intros [Hin Hj]. apply Hno. split; [now right | exact Hj].
    + intros fs' L' [Heq | Hin] HL'.
      * subst fs'. rewrite HL in HL'. inversion HL'; subst L'.
        intros j m v Hm Hv. destruct (Hhold j m v Hm Hv) as (ps & Hps & Hg). exists ps. split; auto.
        intros s mo. rewrite Hframe'; [apply Hg |].
        intros [Hin _]. contradiction.
      * apply Hhold'; auto.
Qed.

(* adding trajectories one after the other, from index [i] on *)
Lemma add_all_ok : forall sc order, NoDup order -> forall ts i st,
  (forall t, In t ts -> exists n, forall fs, In fs order -> set_fits n sc (s_species st) t fs) ->
  (forall j, i <= j -> index_free order j (s_cells st)) ->
  exists st', add_all true sc order i ts st = (st', None) /\ s_species st' = s_species st /\
     (forall fs fld j s mo, ~ (In fs order /\ i <= j < i + List.length ts) ->
        get ((fs, fld, j), s, mo) (s_cells st') = get ((fs, fld, j), s, mo) (s_cells st)) /\
     (forall k t fs L, nth_error ts k = Some t -> In fs order -> lookup fs (s_species st) = Some L ->
        cells_hold (s_cells st') L fs (i + k) 0 (nth fs sc []) (nth fs t [])).
Proof.
  intros sc order Hnd ts. induction ts as [| t r IH]; intros i st Hfit Hfree.
  - exists st. simpl. repeat split; auto. intros k t fs L Hk. destruct k; discriminate.
  - destruct (Hfit t (or_introl eq_refl)) as [n Hn].
    destruct (write_traj_ok n sc t i order st Hnd Hn (Hfree i (le_n i))) as (st1 & Hw & Hsp & Hframe & Hhold).
    simpl. rewrite Hw.
    destruct (IH (S i) st1) as (st' & Ha & Hsp' & Hframe' & Hhold').
    { intros t' Hin. destruct (Hfit t' (or_intror Hin)) as [n' Hn']. exists n'. now rewrite Hsp. }
    { intros j Hj fs fld s mo Hin. rewrite Hframe; [apply (Hfree j); auto; lia |]. intros [_ ?]. lia. }
    exists st'. split; [exact Ha | split; [congruence | split]].
    + intros fs fld j s mo Hno. rewrite Hframe'.
      * apply Hframe. intros [Hin Hj]. apply Hno. split; auto. simpl. lia.
      * intros [Hin Hj]. apply Hno. split; auto. simpl. lia.
    + intros k t' fs L Hk Hin HL. destruct k as [| k]; simpl in Hk.
      * inversion Hk; subst t'. rewrite Nat.add_0_r.
        intros j m v Hm Hv. destruct (Hhold fs L Hin HL j m v Hm Hv) as (ps & Hps & Hg).
        exists ps. split; auto. intros s mo. rewrite Hframe'; [apply Hg |]. intros [_ ?]. lia.
      * replace (i + S k) with (S i + k) by lia. apply Hhold'; auto. now rewrite Hsp.
Qed.

(* ------------------------------------------------------------------------------------------- *)
(* reading back                                                                                  *)
(* ------------------------------------------------------------------------------------------- *)

Definition no_holes (c : cells) (fs i fld : nat) (ms : list fmeta) : Prop :=
  forall j m, nth_error ms j = Some m -> str_hole m fs (fld + j) i c = false.

Definition expect_set (L : list nat) (ms : list fmeta) (vs : list fval) : list (fmeta * fval) :=
  map (fun mv => (fst mv, canon L (fst mv) (snd mv))) (combine ms vs).

Definition lift (l : list (fmeta * fval)) : list (fmeta * res fval) :=
  map (fun mv => (fst mv, inl (snd mv))) l.

Lemma read_fields_ok : forall n L c fs i ms vs, NoDup L -> Forall2 (fits n L) ms vs -> forall fld,
  cells_hold c L fs i fld ms vs -> no_holes c fs i fld ms ->
  read_fields true L c fs i fld ms = lift (expect_set L ms vs).
Proof.
  intros n L c fs i ms vs HL HF. induction HF as [| m v ms vs Hfit HF IH]; intros fld Hhold Hno; simpl; auto.
  assert (Hh : str_hole m fs fld i c = false).
  { specialize (Hno 0 m eq_refl). now rewrite Nat.add_0_r in Hno. }
  rewrite Hh. unfold lift, expect_set. simpl. f_equal.
  - f_equal. f_equal.
    destruct (roundtrip_field n L m v HL Hfit) as (ps & Hps & Hrd).
    destruct (Hhold 0 m v eq_refl eq_refl) as (ps' & Hps' & Hg).
    rewrite Hps in Hps'. inversion Hps'; subst ps'.
    apply Hrd. intros s mo. unfold rd. rewrite Nat.add_0_r in Hg. rewrite Hg.
    destruct (plast s mo ps None); reflexivity.
  - apply IH.
    + intros j m' v' Hm Hv. destruct (Hhold (S j) m' v' Hm Hv) as (ps & Hps & Hg).
      exists ps. split; auto. intros s mo. replace (S fld + j) with (fld + S j) by lia. apply Hg.
    + intros j m' Hm. replace (S fld + j) with (fld + S j) by lia. apply (Hno (S j) m' Hm).
Qed.

Fixpoint expect (sc : schema) (sp : list (nat * list nat)) (order : list nat) (t : traj) : list (fmeta * fval) :=
  match order with
  | [] => []
  | fs :: r => match lookup fs sp with
               | Some L => expect_set L (nth fs sc []) (nth fs t [])
               | None => []
               end ++ expect sc sp r t
  end.

Lemma lift_app : forall a b, lift (a ++ b) = lift a ++ lift b.
Proof. intros. unfold lift. apply map_app. Qed.

Lemma read_raw_ok : forall n sc t i st order,
  (forall fs, In fs order -> set_fits n sc (s_species st) t fs) ->
  (forall fs L, In fs order -> lookup fs (s_species st) = Some L ->
      cells_hold (s_cells st) L fs i 0 (nth fs sc []) (nth fs t []) /\
      no_holes (s_cells st) fs i 0 (nth fs sc [])) ->
  read_raw true sc order i st = inl (lift (expect sc (s_species st) order t)).
Proof.
  intros n sc t i st. induction order as [| fs r IH]; intros Hfit Hc; simpl; auto.
  destruct (Hfit fs (or_introl eq_refl)) as (L & HL & HLnd & HF2). rewrite HL.
  rewrite IH.
  - destruct (Hc fs L (or_introl eq_refl) HL) as [Hh Hn].
    rewrite (read_fields_ok n L _ fs i _ _ HLnd HF2 0 Hh Hn). now rewrite lift_app.
  - intros; apply Hfit; now right.
  - intros; apply Hc; auto; now right.
Qed.

(* every value that comes back passes Container.__setattr__ and agrees on the number of points *)
Definition entry_ok (n : Z) (mv : fmeta * fval) : Prop :=
  (npoints_of true (fst mv) (snd mv) = None \/ npoints_of true (fst mv) (snd mv) = Some (inl n)) /\
  convert_in n (fst mv) (snd mv) = inl (snd mv).
Definition decides (n : Z) (mv : fmeta * fval) : Prop := npoints_of true (fst mv) (snd mv) = Some (inl n).

Lemma scan_ok : forall n l, Forall (entry_ok n) l -> forall np,
  (np = Some n \/ (np = None /\ Exists (decides n) l)) ->
  scan true np (lift l) = inl (n, l).
Proof.
  intros n l HF. induction HF as [| [m v] l [Hnp Hcv] HF IH]; intros np Hnp0; simpl.
  - destruct Hnp0 as [-> | [_ Hex]]; [reflexivity | inversion Hex].
  - destruct Hnp0 as [-> | [-> Hex]].
    + rewrite (IH (Some n)) by (now left). reflexivity.
    + simpl in Hnp. destruct Hnp as [Hnone | Hsome].
      * rewrite Hnone. rewrite (IH None); [reflexivity |].
        right. split; auto. inversion Hex as [? ? Hd | ? ? Hd]; subst; auto.
        unfold decides in Hd. simpl in Hd. congruence.
      * rewrite Hsome. rewrite (IH (Some n)) by (now left). reflexivity.
Qed.

Lemma convert_all_ok : forall n l, Forall (entry_ok n) l -> convert_all n l = inl (map snd l).
Proof.
  intros n l HF. induction HF as [| [m v] l [_ Hcv] HF IH]; simpl; auto.
  simpl in Hcv. rewrite Hcv, IH. reflexivity.
Qed.

Lemma restrict_in : forall {A} L (mp : list (nat * A)) p, In p (restrict L mp) -> In p mp.
Proof.
  intros A L mp p H. unfold restrict in H. apply in_flat_map in H. destruct H as [sp [_ H]].
  destruct (lookup sp mp) eqn:E; [| contradiction]. destruct H as [<- | []]. now apply lookup_in.
Qed.

Lemma canon_entry_ok : forall n L m v, fits n L m v -> entry_ok n (m, canon L m v).
Proof.
  intros n L m v Hfit. unfold entry_ok. simpl.
  destruct v as [| s | a | mp | mp | l | mp]; simpl in Hfit; simpl.
  - destruct Hfit as [Hreq _]. unfold npoints_of, convert_in. rewrite Hreq.
    destruct (has_point (fm_shape m)); auto.
  - destruct Hfit as [Hs _]. unfold npoints_of. rewrite Hs. simpl. auto.
  - destruct Hfit as (Hs & Hn & _). unfold npoints_of, convert_in. rewrite Hs. simpl.
    rewrite Hn, Z.eqb_refl. auto.
  - destruct Hfit as (Hs & _). unfold opt_none, npoints_of. rewrite Hs. simpl.
    destruct (is_nil (restrict L mp) && negb (fm_req m)) eqn:E; simpl; auto.
    apply andb_true_iff in E. destruct E as [_ E]. apply negb_true_iff in E. rewrite E. auto.
  - destruct Hfit as (Hs & _ & Hok & _). unfold opt_none, npoints_of. rewrite Hs. simpl.
    destruct (is_nil (restrict L mp) && negb (fm_req m)) eqn:E; simpl.
    + apply andb_true_iff in E. destruct E as [_ E]. apply negb_true_iff in E. rewrite E. auto.
    + assert (Hall : forall p, In p (restrict L mp) -> alen (snd p) = n).
      { intros p Hp. apply restrict_in in Hp. rewrite Forall_forall in Hok. now apply Hok. }
      split.
      * destruct (restrict L mp) as [| [k a] r] eqn:Er; auto.
        right. f_equal. f_equal. apply (Hall (k, a)). now left.
      * replace (forallb (fun p => Z.eqb (alen (snd p)) n) (restrict L mp)) with true; auto.
        symmetry. apply forallb_forall. intros p Hp. apply Z.eqb_eq. now apply Hall.
  - destruct Hfit as (Hs & _). unfold npoints_of. rewrite Hs. simpl. auto.
  - destruct Hfit as (Hs & _). unfold opt_none, npoints_of. rewrite Hs. simpl.
    destruct (is_nil (restrict L mp) && negb (fm_req m)) eqn:E; simpl; auto.
    apply andb_true_iff in E. destruct E as [_ E]. apply negb_true_iff in E. rewrite E. auto.
Qed.

Lemma expect_set_ok : forall n L ms vs, Forall2 (fits n L) ms vs -> Forall (entry_ok n) (expect_set L ms vs).
Proof.
  intros n L ms vs HF. unfold expect_set. induction HF; simpl; constructor; auto.
  now apply canon_entry_ok.
Qed.

Lemma expect_ok : forall n sc sp t order,
  (forall fs, In fs order -> set_fits n sc sp t fs) -> Forall (entry_ok n) (expect sc sp order t).
Proof.
  intros n sc sp t. induction order as [| fs r IH]; intro Hfit; simpl; [constructor |].
  apply Forall_app. split.
  - destruct (Hfit fs (or_introl eq_refl)) as (L & HL & _ & HF2). rewrite HL. now apply expect_set_ok with (n := n).
  - apply IH. intros; apply Hfit; now right.
Qed.

(* the trajectory carries at least one per-point array (the base field set has fourteen) *)
Definition has_array (sc : schema) (order : list nat) (t : traj) : Prop :=
  exists fs j m a, In fs order /\ nth_error (nth fs sc []) j = Some m /\
                   nth_error (nth fs t []) j = Some (FArr a).

Lemma expect_set_in : forall L ms vs j m v, nth_error ms j = Some m -> nth_error vs j = Some v ->
  In (m, canon L m v) (expect_set L ms vs).
Proof.
  intros L ms. induction ms as [| m0 ms IH]; intros vs j m v Hm Hv; [destruct j; discriminate |].
  destruct vs as [| v0 vs]; [destruct j; discriminate |].
  unfold expect_set. simpl. destruct j as [| j]; simpl in Hm, Hv.
  - inversion Hm; inversion Hv; subst. now left.
  - right. exact (IH vs j m v Hm Hv).
Qed.

Lemma has_array_decides : forall n sc sp t order,
  (forall fs, In fs order -> set_fits n sc sp t fs) -> has_array sc order t ->
  Exists (decides n) (expect sc sp order t).
Proof.
  intros n sc sp t order Hfit (fs & j & m & a & Hin & Hm & Hv).
  apply Exists_exists. exists (m, FArr a). split.
  - induction order as [| fs' r IH]; [contradiction |]. simpl. apply in_or_app.
    destruct Hin as [-> | Hin].
    + left. destruct (Hfit fs (or_introl eq_refl)) as (L & HL & _). rewrite HL.
      exact (expect_set_in L _ _ j m (FArr a) Hm Hv).
    + right. apply IH; auto. intros; apply Hfit; now right.
  - destruct (Hfit fs Hin) as (L & HL & _ & HF2).
    assert (Hf : fits n L m (FArr a)).
    { clear - HF2 Hm Hv. revert j Hm Hv. induction HF2; intros j Hm Hv; [destruct j; discriminate |].
      destruct j; simpl in Hm, Hv; [inversion Hm; inversion Hv; subst; auto | eauto]. }
    simpl in Hf. destruct Hf as (Hs & Hn & _). unfold decides, npoints_of. simpl. rewrite Hs. simpl. now rewrite Hn.
Qed.

Theorem load_traj_ok : forall n sc t i st order,
  (forall fs, In fs order -> set_fits n sc (s_species st) t fs) ->
  (forall fs L, In fs order -> lookup fs (s_species st) = Some L ->
      cells_hold (s_cells st) L fs i 0 (nth fs sc []) (nth fs t []) /\
      no_holes (s_cells st) fs i 0 (nth fs sc [])) ->
  has_array sc order t ->
  load_traj true sc order i st = inl (map snd (expect sc (s_species st) order t)).
Proof.
  intros n sc t i st order Hfit Hc Harr. unfold load_traj.
  rewrite (read_raw_ok n sc t i st order Hfit Hc).
  pose proof (expect_ok n sc (s_species st) t order Hfit) as Hok.
  rewrite (scan_ok n _ Hok None).
  - now apply convert_all_ok.
  - right. split; auto. now apply has_array_decides.
Qed.

(* ------------------------------------------------------------------------------------------- *)
(* a whole store: add every trajectory, then read every one back                                 *)
(* ------------------------------------------------------------------------------------------- *)

Theorem store_roundtrip : forall sc order rorder ts st0,
  NoDup order -> incl rorder order -> s_cells st0 = [] ->
  (forall t, In t ts -> exists n, forall fs, In fs order -> set_fits n sc (s_species st0) t fs) ->
  exists st, add_all true sc order 0 ts st0 = (st, None) /\ s_species st = s_species st0 /\
    forall i t, nth_error ts i = Some t ->
      has_array sc rorder t ->
      (forall fs, In fs rorder -> no_holes (s_cells st) fs i 0 (nth fs sc [])) ->
      load_traj true sc rorder i st = inl (map snd (expect sc (s_species st0) rorder t)).
Proof.
  intros sc order rorder ts st0 Hnd Hincl Hempty Hfit.
  destruct (add_all_ok sc order Hnd ts 0 st0 Hfit) as (st & Ha & Hsp & _ & Hhold).
  { intros j _ fs fld s mo _. rewrite Hempty. reflexivity. }
  exists st. split; [exact Ha | split; [exact Hsp |]].
  intros i t Hi Harr Hno.
  destruct (Hfit t (nth_error_In _ _ Hi)) as [n Hn].
  rewrite <- Hsp. apply (load_traj_ok n); auto.
  - intros fs Hin. rewrite Hsp. apply Hn. now apply Hincl.
  - intros fs L Hin HL. split; [| now apply Hno].
    rewrite Hsp in HL. exact (Hhold i t fs L Hi (Hincl fs Hin) HL).
Qed.

(* ------------------------------------------------------------------------------------------- *)
(* exactly the species that were present: none lost, none invented, each with its value          *)
(* ------------------------------------------------------------------------------------------- *)

Lemma restrict_lookup_notin : forall {A} L (mp : list (nat * A)) sp, ~ In sp L -> lookup sp (restrict L mp) = None.
Proof.
  intros A L mp sp. induction L as [| x r IH]; intro H; simpl; auto.
  unfold restrict. simpl. fold (restrict r mp).
  assert (sp <> x) by (intro; subst; apply H; now left).
  destruct (lookup x mp); simpl.
  - replace (Nat.eqb sp x) with false by (symmetry; now apply Nat.eqb_neq). apply IH. intro; apply H; now right.
  - apply IH. intro; apply H; now right.
Qed.

Theorem restrict_lookup : forall {A} L (mp : list (nat * A)) sp, NoDup L -> In sp L ->
  lookup sp (restrict L mp) = lookup sp mp.
Proof.
  intros A L mp sp. induction L as [| x r IH]; intros Hnd Hin; [contradiction |].
  inversion Hnd as [| ? ? Hx Hr]; subst. unfold restrict. simpl. fold (restrict r mp).
  destruct (Nat.eq_dec sp x) as [-> | Hne].
  - destruct (lookup x mp) eqn:E; simpl.
    + now rewrite Nat.eqb_refl.
    + now apply restrict_lookup_notin.
  - destruct Hin as [-> | Hin]; [contradiction |].
    destruct (lookup x mp); simpl.
    + replace (Nat.eqb sp x) with false by (symmetry; now apply Nat.eqb_neq). now apply IH.
    + now apply IH.
Qed.

Lemma lookup_none_notin : forall {A} (mp : list (nat * A)) sp, lookup sp mp = None <-> ~ In sp (map fst mp).
Proof.
  intros A mp sp. induction mp as [| [k v] r IH]; simpl; [tauto |].
  destruct (Nat.eqb sp k) eqn:E.
  - apply Nat.eqb_eq in E. subst. split; [discriminate | intro H; elim H; now left].
  - apply Nat.eqb_neq in E. rewrite IH. split; [intros H [H1 | H1]; auto | intros H H1; apply H; now right].
Qed.

Lemma keys_in_spec : forall {A} L (mp : list (nat * A)), keys_in L mp -> forall sp, In sp (map fst mp) -> In sp L.
Proof.
  intros A L mp Hk sp Hin. unfold keys_in, unknown_species in Hk.
  apply in_map_iff in Hin. destruct Hin as [[k v] [<- Hin]]. simpl.
  destruct (memb k L) eqn:E.
  - unfold memb in E. apply existsb_exists in E. destruct E as [y [Hy Ey]]. apply Nat.eqb_eq in Ey. now subst.
  - exfalso. assert (existsb (fun p : nat * A => negb (memb (fst p) L)) mp = true).
    { apply existsb_exists. exists (k, v). split; auto. simpl. now rewrite E. }
    congruence.
Qed.

(* the species read back are exactly the species written, each with the value written *)
Theorem species_exact : forall {A} L (mp : list (nat * A)), NoDup L -> keys_in L mp ->
  forall sp, lookup sp (restrict L mp) = lookup sp mp.
Proof.
  intros A L mp Hnd Hk sp. destruct (in_dec Nat.eq_dec sp L) as [Hin | Hnot].
  - now apply restrict_lookup.
  - rewrite restrict_lookup_notin by auto. symmetry. apply lookup_none_notin.
    intro H. apply Hnot. eapply keys_in_spec; eauto.
Qed.

(* ------------------------------------------------------------------------------------------- *)
(* the value read back does not depend on the layout (on which species dimension the file has)   *)
(* ------------------------------------------------------------------------------------------- *)

Fixpoint ascending (l : list nat) : Prop :=
  match l with
  | [] => True
  | x :: r => (forall y, In y r -> x < y) /\ ascending r
  end.

Lemma lookup_above : forall {A} (mp : list (nat * A)) x, (forall k, In k (map fst mp) -> x < k) -> lookup x mp = None.
Proof.
  intros A mp x H. apply lookup_none_notin. intro Hin. specialize (H x Hin). lia.
Qed.

Theorem restrict_sorted : forall {A} L (mp : list (nat * A)),
  ascending L -> ascending (map fst mp) -> (forall k, In k (map fst mp) -> In k L) -> restrict L mp = mp.
Proof.
  intros A L. induction L as [| x r IH]; intros mp HL Hmp Hsub.
  - destruct mp as [| [k v] mp]; auto. exfalso. apply (Hsub k). now left.
  - destruct HL as [Hx Hr]. unfold restrict. simpl. fold (restrict r mp).
    destruct mp as [| [k v] mp'].
    + simpl. apply (IH []); simpl; auto. intros k [].
    + simpl in Hmp. destruct Hmp as [Hk Hmp'].
      destruct (Nat.eq_dec k x) as [-> | Hne].
      * simpl. rewrite Nat.eqb_refl. simpl. f_equal.
        assert (E : restrict r ((x, v) :: mp') = restrict r mp').
        { unfold restrict. apply flat_map_ext_in. intros sp Hsp. simpl.
          replace (Nat.eqb sp x) with false; auto. symmetry. apply Nat.eqb_neq. specialize (Hx sp Hsp). lia. }
        rewrite E. apply IH; auto.
        intros k Hin. destruct (Hsub k (or_intror Hin)) as [Heq | ?]; auto.
        subst k. specialize (Hk x Hin). lia.
      * assert (Hkr : In k r) by (destruct (Hsub k (or_introl eq_refl)) as [? | ?]; [congruence | auto]).
        assert (Hlt : x < k) by (now apply Hx).
        rewrite lookup_above.
        -- simpl. apply IH; simpl; auto.
           intros k' [<- | Hin]; auto.
           destruct (Hsub k' (or_intror Hin)) as [Heq | ?]; auto.
           subst k'. specialize (Hk x Hin). lia.
        -- intros k' [<- | Hin]; auto. specialize (Hk k' Hin). lia.
Qed.

Definition keys_ascending (v : fval) : Prop := ascending (keys_of v).

Theorem canon_layout_independent : forall n L L' m v,
  fits n L m v -> fits n L' m v -> ascending L -> ascending L' -> keys_ascending v ->
  canon L m v = canon L' m v.
Proof.
  intros n L L' m v Hf Hf' HL HL' Hv. unfold keys_ascending in Hv.
  destruct v as [| s | a | mp | mp | l | mp]; simpl in *; auto.
  - destruct Hf as (_ & Hk & _), Hf' as (_ & Hk' & _).
    rewrite !restrict_sorted; auto; intros; eapply keys_in_spec; eauto.
  - destruct Hf as (_ & Hk & _), Hf' as (_ & Hk' & _).
    rewrite !restrict_sorted; auto; intros; eapply keys_in_spec; eauto.
  - destruct Hf as (_ & Hk & _), Hf' as (_ & Hk' & _).
    rewrite !restrict_sorted; auto; intros; eapply keys_in_spec; eauto.
Qed.

(* the species dimension computed from the first trajectory is ascending and holds every species of it *)
Lemma ins_in : forall x y l, In y (ins x l) <-> y = x \/ In y l.
Proof.
  intros x y l. induction l as [| z r IH]; simpl; [intuition congruence |].
  destruct (Nat.ltb x z); simpl; [intuition congruence |].
  destruct (Nat.eqb x z) eqn:E; simpl.
  - apply Nat.eqb_eq in E. subst. intuition congruence.
  - rewrite IH. intuition congruence.
Qed.

Lemma ins_ascending : forall x l, ascending l -> ascending (ins x l).
Proof.
  intros x l. induction l as [| z r IH]; intro H; simpl; [tauto |].
  destruct H as [Hz Hr].
  destruct (Nat.ltb x z) eqn:E; simpl.
  - apply Nat.ltb_lt in E. split; [| split; auto].
    intros y [<- | Hy]; auto. specialize (Hz y Hy). lia.
  - destruct (Nat.eqb x z) eqn:E2; simpl; [tauto |].
    apply Nat.ltb_ge in E. apply Nat.eqb_neq in E2. split; [| now apply IH].
    intros y Hy. apply ins_in in Hy. destruct Hy as [-> | Hy]; [lia | now apply Hz].
Qed.

Lemma fold_ins_ascending : forall ks acc, ascending acc -> ascending (fold_left (fun a k => ins k a) ks acc).
Proof. induction ks; simpl; intros; auto. apply IHks. now apply ins_ascending. Qed.

Lemma fold_ins_in : forall ks acc y, In y (fold_left (fun a k => ins k a) ks acc) <-> In y ks \/ In y acc.
Proof.
  induction ks as [| k r IH]; intros acc y; simpl; [tauto |].
  rewrite IH, ins_in. intuition.
Qed.

Lemma species_union_ascending : forall sets t, ascending (species_union sets t).
Proof.
  intros sets t. unfold species_union.
  assert (G : forall sets acc, ascending acc ->
            ascending (fold_left (fun acc fs => fold_left (fun acc' v => fold_left (fun a k => ins k a) (keys_of v) acc')
                                                           (nth fs t []) acc) sets acc)).
  { induction sets0 as [| fs r IH]; intros acc Hacc; simpl; auto.
    apply IH. generalize (nth fs t []). intro vs. revert acc Hacc.
    induction vs as [| v vs IHv]; intros acc Hacc; simpl; auto.
    apply IHv. now apply fold_ins_ascending. }
  apply G. exact I.
Qed.

Lemma species_union_in : forall sets t fs j v sp,
  In fs sets -> nth_error (nth fs t []) j = Some v -> In sp (keys_of v) -> In sp (species_union sets t).
Proof.
  intros sets t fs j v sp Hfs Hv Hsp. unfold species_union.
  assert (Hmono_in : forall vs acc y, In y acc ->
            In y (fold_left (fun acc' v => fold_left (fun a k => ins k a) (keys_of v) acc') vs acc)).
  { induction vs as [| v0 vs IHv]; intros acc y Hy; simpl; auto. apply IHv. apply fold_ins_in. now right. }
  assert (Hmono : forall sets acc y, In y acc ->
            In y (fold_left (fun acc fs => fold_left (fun acc' v => fold_left (fun a k => ins k a) (keys_of v) acc')
                                                     (nth fs t []) acc) sets acc)).
  { induction sets0 as [| fs0 r IH]; intros acc y Hy; simpl; auto. }
  assert (Hset : forall vs acc j, nth_error vs j = Some v ->
            In sp (fold_left (fun acc' v => fold_left (fun a k => ins k a) (keys_of v) acc') vs acc)).
  { induction vs as [| v0 vs IHv]; intros acc j0 Hj; [destruct j0; discriminate |].
    simpl. destruct j0 as [| j0]; simpl in Hj.
    - inversion Hj; subst v0. apply Hmono_in. apply fold_ins_in. now left.
    - eapply IHv; eauto. }
  revert Hfs. generalize (@nil nat). induction sets as [| fs0 r IH]; intros acc Hfs; [contradiction |].
  simpl. destruct Hfs as [-> | Hfs].
  - apply Hmono. eapply Hset; eauto.
  - now apply IH.
Qed.

(* ------------------------------------------------------------------------------------------- *)
(* create_associated: a second pass of writes for further field sets, into a further file        *)
(* ------------------------------------------------------------------------------------------- *)

Lemma lookup_app_l : forall {A} k (l l' : list (nat * A)) v, lookup k l = Some v -> lookup k (l ++ l') = Some v.
Proof.
  intros A k l l' v. induction l as [| [k' v'] r IH]; simpl; [discriminate |].
  destruct (Nat.eqb k k'); auto.
Qed.

Theorem store_roundtrip_mapped : forall sc o1 o2 rorder ts st0 extra,
  NoDup o1 -> NoDup o2 -> (forall fs, In fs o1 -> ~ In fs o2) -> incl rorder (o1 ++ o2) ->
  s_cells st0 = [] ->
  (forall fs, In fs o1 -> lookup fs (s_species st0) <> None) ->
  (forall t, In t ts -> exists n, forall fs, In fs (o1 ++ o2) -> set_fits n sc (s_species st0 ++ extra) t fs) ->
  exists st1 st2,
    add_all true sc o1 0 ts st0 = (st1, None) /\
    add_all true sc o2 0 ts {| s_species := s_species st0 ++ extra; s_cells := s_cells st1 |} = (st2, None) /\
    s_species st2 = s_species st0 ++ extra /\
    forall i t, nth_error ts i = Some t -> has_array sc rorder t ->
      (forall fs, In fs rorder -> no_holes (s_cells st2) fs i 0 (nth fs sc [])) ->
      load_traj true sc rorder i st2 = inl (map snd (expect sc (s_species st0 ++ extra) rorder t)).
Proof.
  intros sc o1 o2 rorder ts st0 extra Hnd1 Hnd2 Hdisj Hincl Hempty Hknown Hfit.
  (* first pass *)
  assert (Hfit1 : forall t, In t ts -> exists n, forall fs, In fs o1 -> set_fits n sc (s_species st0) t fs).
  { intros t Hin. destruct (Hfit t Hin) as [n Hn]. exists n. intros fs Hfs.
    destruct (Hn fs (in_or_app _ _ _ (or_introl Hfs))) as (L & HL & HLnd & HF2).
    destruct (lookup fs (s_species st0)) as [L0 |] eqn:E; [| now elim (Hknown fs Hfs)].
    rewrite (lookup_app_l _ _ extra _ E) in HL. inversion HL; subst L0.
    exists L. auto. }
  destruct (add_all_ok sc o1 Hnd1 ts 0 st0 Hfit1) as (st1 & Ha1 & Hsp1 & Hframe1 & Hhold1).
  { intros j _ fs fld s mo _. rewrite Hempty. reflexivity. }
  (* second pass *)
  set (st1' := {| s_species := s_species st0 ++ extra; s_cells := s_cells st1 |}).
  assert (Hfit2 : forall t, In t ts -> exists n, forall fs, In fs o2 -> set_fits n sc (s_species st1') t fs).
  { intros t Hin. destruct (Hfit t Hin) as [n Hn]. exists n. intros fs Hfs.
    apply Hn. apply in_or_app. now right. }
  destruct (add_all_ok sc o2 Hnd2 ts 0 st1' Hfit2) as (st2 & Ha2 & Hsp2 & Hframe2 & Hhold2).
  { intros j _ fs fld s mo Hfs. simpl. rewrite Hframe1.
    - rewrite Hempty. reflexivity.
    - intros [Hin1 _]. exact (Hdisj fs Hin1 Hfs). }
  exists st1, st2. split; [exact Ha1 | split; [exact Ha2 | split; [exact Hsp2 |]]].
  intros i t Hi Harr Hno.
  destruct (Hfit t (nth_error_In _ _ Hi)) as [n Hn].
  replace (s_species st0 ++ extra) with (s_species st2) by exact Hsp2.
  apply (load_traj_ok n); auto.
  - intros fs Hin. rewrite Hsp2. apply Hn. now apply Hincl.
  - intros fs L Hin HL. split; [| now apply Hno].
    rewrite Hsp2 in HL. simpl in HL.
    destruct (in_app_or _ _ _ (Hincl fs Hin)) as [H1 | H2].
    + (* written in the first pass, untouched by the second *)
      destruct (lookup fs (s_species st0)) as [L0 |] eqn:E; [| now elim (Hknown fs H1)].
      rewrite (lookup_app_l _ _ extra _ E) in HL. inversion HL; subst L0.
      intros j m v Hm Hv. destruct (Hhold1 i t fs L Hi H1 E j m v Hm Hv) as (ps & Hps & Hg).
      exists ps. split; auto. intros s mo. rewrite Hframe2; [apply Hg |].
      intros [Hin2 _]. exact (Hdisj fs H1 Hin2).
    + exact (Hhold2 i t fs L Hi H2 HL).
Qed.

(* ------------------------------------------------------------------------------------------- *)
(* unset optional fields                                                                         *)
(* ------------------------------------------------------------------------------------------- *)

Theorem unset_optional_roundtrip : forall L m g, NoDup L -> fm_req m = false ->
  (fm_shape m = ShT -> fm_dtype m <> Str) ->
  field_patches true L m FNone = inl [] /\
  ((forall s mo, g s mo = fill_cell m) -> read_field true L m g = FNone).
Proof.
  intros L m g HL Hreq Hstr.
  destruct (roundtrip_field 1 L m FNone HL (conj Hreq Hstr)) as (ps & Hps & Hrd).
  assert (ps = []) by (unfold field_patches in Hps; rewrite Hreq in Hps; now inversion Hps). subst ps.
  split; [exact Hps |]. intro Hg. apply Hrd. intros s mo. simpl. apply Hg.
Qed.

(* ------------------------------------------------------------------------------------------- *)
(* witnesses: what the code before the repair does, and what stays open after it                 *)
(* ------------------------------------------------------------------------------------------- *)

Definition tp_req := {| fm_shape := ShTP; fm_dtype := F64; fm_req := true |}.
Definition ts_req := {| fm_shape := ShTS; fm_dtype := F64; fm_req := true |}.
Definition tm_opt := {| fm_shape := ShTM; fm_dtype := F64; fm_req := false |}.
Definition str_opt := {| fm_shape := ShT; fm_dtype := Str; fm_req := false |}.
Definition pts : fval := FArr (Arr 2 1).
Definition one := VFlt 4607182418800017408.     (* 1.0 *)
Definition two := VFlt 4611686018427387904.     (* 2.0 *)

(* species {CO2, NOx} (positions 0 and 4 of the enumeration) in one field *)
Definition gap_case := ([[tp_req]; [ts_req]], [[[pts]; [FSp [(0, one); (4, two)]]]]).

Lemma species_roundtrip_before_fix :
  run_case false (fst gap_case) Single [0; 1] [] [] [0; 1] (snd gap_case) = Refused 1 0 EIndexBound.
Proof. vm_compute. reflexivity. Qed.

Lemma species_roundtrip_after_fix :
  run_case true (fst gap_case) Single [0; 1] [] [] [0; 1] (snd gap_case)
  = Added [inl [pts; FSp [(0, one); (4, two)]]].
Proof. vm_compute. reflexivity. Qed.

(* two fields with different species: CO2 in one, H2O in the other *)
Definition differing_case := ([[tp_req]; [ts_req; ts_req]], [[[pts]; [FSp [(0, one)]; FSp [(1, two)]]]]).

Lemma species_invented_before_fix :
  run_case false (fst differing_case) Single [0; 1] [] [] [0; 1] (snd differing_case)
  = Added [inl [pts; FSp [(0, one); (1, fill_of F64)]; FSp [(0, fill_of F64); (1, two)]]].
Proof. vm_compute. reflexivity. Qed.

Lemma species_invented_after_fix :
  run_case true (fst differing_case) Single [0; 1] [] [] [0; 1] (snd differing_case)
  = Added [inl [pts; FSp [(0, one)]; FSp [(1, two)]]].
Proof. vm_compute. reflexivity. Qed.

(* an unset optional thrust-mode field *)
Lemma unset_thrust_mode_before_fix :
  run_case false [[tp_req]; [tm_opt]] Single [0; 1] [] [] [0; 1] [[[pts]; [FNone]]]
  = Added [inl [pts; FTm [fill_of F64; fill_of F64; fill_of F64; fill_of F64]]].
Proof. vm_compute. reflexivity. Qed.

Lemma unset_thrust_mode_after_fix :
  run_case true [[tp_req]; [tm_opt]] Single [0; 1] [] [] [0; 1] [[[pts]; [FNone]]]
  = Added [inl [pts; FNone]].
Proof. vm_compute. reflexivity. Qed.

(* still open after the repair: an unset optional string reads back as "" (pinned by a test of the
   repository), and a trajectory without points cannot be read back *)
Lemma unset_optional_string_reads_empty :
  run_case true [[tp_req]; [str_opt]] Single [0; 1] [] [] [0; 1] [[[pts]; [FNone]]]
  = Added [inl [pts; FScal (VStr "")]].
Proof. vm_compute. reflexivity. Qed.

Lemma zero_length_unreadable :
  run_case true [[tp_req]] Single [0] [] [] [0] [[[FArr (Arr 0 0)]]] = Added [inr EAssert].
Proof. vm_compute. reflexivity. Qed.

(* a store with gaps in three layouts gives the same values back *)
Definition layouts_case :=
  ([[tp_req]; [ts_req; tm_opt]; [ts_req]],
   [[[pts]; [FSp [(2, one); (9, two)]; FNone]; [FSp [(9, one)]]];
    [[pts]; [FSp [(9, two)]; FTm [one; two; one; two]]; [FSp []]]]).

Lemma layouts_agree :
  let sc := fst layouts_case in let ts := snd layouts_case in
  let r := run_case true sc Single [0; 1; 2] [] [] [0; 1; 2] ts in
  r = run_case true sc (Assoc [2]) [0; 1; 2] [] [] [0; 1; 2] ts /\
  r = run_case true sc (Mapped [2]) [0; 1] [0; 1] [2] [0; 1; 2] ts /\
  r = Added [inl [pts; FSp [(2, one); (9, two)]; FNone; FSp [(9, one)]];
             inl [pts; FSp [(9, two)]; FTm [one; two; one; two]; FSp []]].
Proof. vm_compute. repeat split; reflexivity. Qed.

(* C02 (c) — np.interp as used by Trajectory.interpolate_time, over the reals:
   resampling at a stored time gives the stored value back; strictly between two neighbouring times it gives
   the linear interpolation of the neighbouring values; outside the flown range it gives nan. *)
From Coq Require Import ZArith List Bool Lia Reals Lra.
From AV Require Import lib.Num model.C02_Model.
Import ListNotations.
Local Open Scope R_scope.

(* strictly increasing from x0 on *)
Fixpoint strict (x0 : R) (xs : list R) : Prop :=
  match xs with [] => True | x1 :: r => x0 < x1 /\ strict x1 r end.
Definition strictly_increasing (xs : list R) : Prop :=
  match xs with [] => True | x0 :: r => strict x0 r end.

Lemma strict_le_nth : forall xs x0 i, strict x0 xs -> (i < S (length xs))%nat -> x0 <= nth i (x0 :: xs) 0.
Proof.
  induction xs as [|x1 xs IH]; intros x0 i H Hi.
  - destruct i; simpl in *; try lia; lra.
  - destruct i as [|i]; [simpl; lra|]. destruct H as (H1 & H2).
    change (nth (S i) (x0 :: x1 :: xs) 0) with (nth i (x1 :: xs) 0).
    specialize (IH x1 i H2). simpl in Hi. assert (x1 <= nth i (x1 :: xs) 0) by (apply IH; lia). lra.
Qed.

Lemma last_cons_indep : forall (xs : list R) x1 a b, last (x1 :: xs) a = last (x1 :: xs) b.
Proof.
  induction xs as [|x2 xs IH]; intros; [reflexivity|].
  change (last (x2 :: xs) a = last (x2 :: xs) b). apply IH.
Qed.

Lemma strict_nth_le_last : forall xs x0 i, strict x0 xs -> (i < S (length xs))%nat -> nth i (x0 :: xs) 0 <= last (x0 :: xs) x0.
Proof.
  induction xs as [|x1 xs IH]; intros x0 i H Hi.
  - destruct i; simpl in *; try lia; lra.
  - destruct H as (H1 & H2). destruct i as [|i].
    + change (last (x0 :: x1 :: xs) x0) with (last (x1 :: xs) x0).
      rewrite (last_cons_indep xs x1 x0 x1). pose proof (IH x1 0%nat H2 ltac:(simpl; lia)) as H. simpl nth in *. lra.
    + change (nth (S i) (x0 :: x1 :: xs) 0) with (nth i (x1 :: xs) 0).
      change (last (x0 :: x1 :: xs) x0) with (last (x1 :: xs) x0).
      rewrite (last_cons_indep xs x1 x0 x1). apply IH; auto. simpl in Hi; lia.
Qed.

Section InterpProofs.
  Variable nan : R.
  Notation interp := (@interp RNum nan).
  Notation interp_go := (@interp_go RNum).

  Lemma interp_go_at_node : forall xs ys x0 y0 i,
    length xs = length ys -> strict x0 xs -> (i < S (length xs))%nat ->
    interp_go x0 y0 xs ys (nth i (x0 :: xs) 0) = nth i (y0 :: ys) 0.
  Proof.
    induction xs as [|x1 xs IH]; intros ys x0 y0 i Hl Hs Hi.
    - destruct i; simpl in *; try lia. reflexivity.
    - destruct ys as [|y1 ys]; simpl in Hl; try lia. destruct Hs as (H1 & H2).
      destruct i as [|i].
      + simpl nth. simpl. rnum.
        replace (Rleb x1 x0) with false by (symmetry; apply Rleb_false; lra).
        replace (Reqb x0 x0) with true by (symmetry; apply Reqb_true; reflexivity). reflexivity.
      + change (nth (S i) (x0 :: x1 :: xs) 0) with (nth i (x1 :: xs) 0).
        change (nth (S i) (y0 :: y1 :: ys) 0) with (nth i (y1 :: ys) 0).
        assert (Hx : x1 <= nth i (x1 :: xs) 0) by (apply strict_le_nth; auto; simpl in Hi; lia).
        remember (nth i (x1 :: xs) 0) as x eqn:Ex.
        simpl interp_go. rnum.
        replace (Rleb x1 x) with true by (symmetry; apply Rleb_true; auto).
        subst x. apply IH; auto. simpl in Hi; lia.
  Qed.

  (* resampling at the trajectory's own time points gives back the stored values *)
  Theorem resample_at_own_times_id : forall xs ys i,
    length xs = length ys -> strictly_increasing xs -> (i < length xs)%nat ->
    interp xs ys (nth i xs 0) = nth i ys 0.
  Proof.
    intros xs ys i Hl Hs Hi. destruct xs as [|x0 xs]; simpl in Hi; try lia.
    destruct ys as [|y0 ys]; simpl in Hl; try lia. simpl in Hs.
    unfold C02_Model.interp. rnum.
    assert (H0 : x0 <= nth i (x0 :: xs) 0) by (apply strict_le_nth; auto; lia).
    assert (H1 : nth i (x0 :: xs) 0 <= last (x0 :: xs) x0) by (apply strict_nth_le_last; auto; lia).
    replace (Rltb (nth i (x0 :: xs) 0) x0) with false by (symmetry; apply Rltb_false; auto).
    replace (Rltb (last (x0 :: xs) x0) (nth i (x0 :: xs) 0)) with false by (symmetry; apply Rltb_false; auto).
    apply interp_go_at_node; auto; lia.
  Qed.

  Lemma interp_go_between : forall xs ys x0 y0 i x,
    length xs = length ys -> strict x0 xs -> (i < length xs)%nat ->
    nth i (x0 :: xs) 0 < x < nth (S i) (x0 :: xs) 0 ->
    interp_go x0 y0 xs ys x =
      (nth (S i) (y0 :: ys) 0 - nth i (y0 :: ys) 0) / (nth (S i) (x0 :: xs) 0 - nth i (x0 :: xs) 0)
      * (x - nth i (x0 :: xs) 0) + nth i (y0 :: ys) 0.
  Proof.
    induction xs as [|x1 xs IH]; intros ys x0 y0 i x Hl Hs Hi Hx; simpl in Hi; try lia.
    destruct ys as [|y1 ys]; simpl in Hl; try lia. destruct Hs as (H1 & H2).
    destruct i as [|i].
    - simpl nth in *. simpl interp_go. rnum.
      replace (Rleb x1 x) with false by (symmetry; apply Rleb_false; lra).
      replace (Reqb x0 x) with false by (symmetry; apply Reqb_false; lra). reflexivity.
    - change (nth (S (S i)) (x0 :: x1 :: xs) 0) with (nth (S i) (x1 :: xs) 0) in *.
      change (nth (S i) (x0 :: x1 :: xs) 0) with (nth i (x1 :: xs) 0) in *.
      change (nth (S (S i)) (y0 :: y1 :: ys) 0) with (nth (S i) (y1 :: ys) 0).
      change (nth (S i) (y0 :: y1 :: ys) 0) with (nth i (y1 :: ys) 0).
      assert (Hle : x1 <= nth i (x1 :: xs) 0) by (apply strict_le_nth; auto; lia).
      simpl interp_go. rnum.
      replace (Rleb x1 x) with true by (symmetry; apply Rleb_true; lra).
      apply IH; auto; lia.
  Qed.

  (* ... and at an intermediate time the linear interpolation between the two neighbouring points *)
  Theorem resample_between_is_linear : forall xs ys i x,
    length xs = length ys -> strictly_increasing xs -> (S i < length xs)%nat ->
    nth i xs 0 < x < nth (S i) xs 0 ->
    interp xs ys x =
      (nth (S i) ys 0 - nth i ys 0) / (nth (S i) xs 0 - nth i xs 0) * (x - nth i xs 0) + nth i ys 0.
  Proof.
    intros xs ys i x Hl Hs Hi Hx. destruct xs as [|x0 xs]; simpl in Hi; try lia.
    destruct ys as [|y0 ys]; simpl in Hl; try lia. simpl in Hs.
    unfold C02_Model.interp. rnum.
    assert (H0 : x0 <= nth i (x0 :: xs) 0) by (apply strict_le_nth; auto; lia).
    assert (H1 : nth (S i) (x0 :: xs) 0 <= last (x0 :: xs) x0) by (apply strict_nth_le_last; auto; lia).
    replace (Rltb x x0) with false by (symmetry; apply Rltb_false; lra).
    replace (Rltb (last (x0 :: xs) x0) x) with false by (symmetry; apply Rltb_false; lra).
    apply interp_go_between; auto; lia.
  Qed.

  (* outside the flown time range nothing is invented *)
  Theorem resample_outside_is_nan : forall xs ys x x0 xs',
    xs = x0 :: xs' -> ys <> [] -> (x < x0 \/ last xs x0 < x) -> interp xs ys x = nan.
  Proof.
    intros xs ys x x0 xs' -> Hy Hx. destruct ys as [|y0 ys]; [congruence|].
    unfold C02_Model.interp. rnum. destruct Hx as [Hx|Hx].
    - replace (Rltb x x0) with true by (symmetry; apply Rltb_true; auto). reflexivity.
    - destruct (Rltb x x0); auto.
      replace (Rltb (last (x0 :: xs') x0) x) with true by (symmetry; apply Rltb_true; auto). reflexivity.
  Qed.

  (* the hand-over point is stored twice (same time): resampling at that time returns the later copy *)
  Theorem resample_at_duplicated_time_takes_later_point : forall x0 y0 y1 xs ys,
    interp_go x0 y0 (x0 :: xs) (y1 :: ys) x0 = interp_go x0 y1 xs ys x0.
  Proof.
    intros. simpl. rnum. replace (Rleb x0 x0) with true by (symmetry; apply Rleb_true; lra). reflexivity.
  Qed.
End InterpProofs.

Example resample_nonvacuous :
  strictly_increasing [0; 1; 3] /\
  @C02_Model.interp RNum 7 [0; 1; 3] [10; 20; 60] 1 = 20 /\
  @C02_Model.interp RNum 7 [0; 1; 3] [10; 20; 60] 2 = 40 /\
  @C02_Model.interp RNum 7 [0; 1; 3] [10; 20; 60] 4 = 7.
Proof.
  split; [simpl; lra|]. split; [|split].
  - apply (resample_at_own_times_id 7 [0; 1; 3] [10; 20; 60] 1%nat); simpl; auto; lra.
  - rewrite (resample_between_is_linear 7 [0; 1; 3] [10; 20; 60] 1%nat 2); simpl; auto; try lra; try lia.
  - apply (resample_outside_is_nan 7 [0; 1; 3] [10; 20; 60] 4 0 [1; 3]); auto; [discriminate|]. right; simpl; lra.
Qed.

(* ------------------------------------------------------------------------------------------------------------ *)
(* Weakly increasing time axes: every returned trajectory stores each hand-over point twice (same time), so its   *)
(* time axis is only non-decreasing.  np.interp then returns, at a stored time, the value of the LAST point       *)
(* carrying that time; strictly between two stored times only the local gap matters.                              *)
(* ------------------------------------------------------------------------------------------------------------ *)
Fixpoint weak (x0 : R) (xs : list R) : Prop :=
  match xs with [] => True | x1 :: r => x0 <= x1 /\ weak x1 r end.
Definition weakly_increasing (xs : list R) : Prop :=
  match xs with [] => True | x0 :: r => weak x0 r end.

Lemma strict_weak : forall xs x0, strict x0 xs -> weak x0 xs.
Proof. induction xs; simpl; intros; auto. destruct H; split; [lra|auto]. Qed.

Lemma weak_head_le_nth : forall xs x0 i, weak x0 xs -> (i < S (length xs))%nat -> x0 <= nth i (x0 :: xs) 0.
Proof.
  induction xs as [|x1 xs IH]; intros x0 i H Hi.
  - destruct i; simpl in *; try lia; lra.
  - destruct i as [|i]; [simpl; lra|]. destruct H as (H1 & H2).
    change (nth (S i) (x0 :: x1 :: xs) 0) with (nth i (x1 :: xs) 0).
    assert (x1 <= nth i (x1 :: xs) 0) by (apply IH; auto; simpl in Hi; lia). lra.
Qed.

Lemma weak_nth_mono : forall xs x0 i j, weak x0 xs -> (i <= j)%nat -> (j < S (length xs))%nat ->
  nth i (x0 :: xs) 0 <= nth j (x0 :: xs) 0.
Proof.
  induction xs as [|x1 xs IH]; intros x0 i j H Hij Hj.
  - assert (i = 0 /\ j = 0)%nat as (-> & ->) by (simpl in Hj; lia). lra.
  - destruct i as [|i].
    + apply weak_head_le_nth; auto.
    + destruct j as [|j]; [lia|]. destruct H as (H1 & H2).
      change (nth (S i) (x0 :: x1 :: xs) 0) with (nth i (x1 :: xs) 0).
      change (nth (S j) (x0 :: x1 :: xs) 0) with (nth j (x1 :: xs) 0).
      apply IH; auto; simpl in Hj; lia.
Qed.

Lemma weak_nth_le_last : forall xs x0 i, weak x0 xs -> (i < S (length xs))%nat -> nth i (x0 :: xs) 0 <= last (x0 :: xs) x0.
Proof.
  intros xs x0 i H Hi.
  assert (E : last (x0 :: xs) x0 = nth (length xs) (x0 :: xs) 0).
  { clear. revert x0. induction xs as [|x1 xs IH]; intros; [reflexivity|].
    change (last (x0 :: x1 :: xs) x0) with (last (x1 :: xs) x0). rewrite (last_cons_indep xs x1 x0 x1).
    rewrite IH. reflexivity. }
  rewrite E. apply weak_nth_mono; auto; lia.
Qed.

Section InterpWeak.
  Variable nan : R.
  Notation interp := (@interp RNum nan).
  Notation interp_go := (@interp_go RNum).

  (* the scan stops at the last stored time not after x *)
  Lemma interp_go_weak : forall xs ys x0 y0 x,
    length xs = length ys -> weak x0 xs -> x0 <= x -> x <= last (x0 :: xs) x0 ->
    exists j, (j < S (length xs))%nat /\ nth j (x0 :: xs) 0 <= x /\
      (j = length xs \/ x < nth (S j) (x0 :: xs) 0) /\
      interp_go x0 y0 xs ys x =
        if Reqb (nth j (x0 :: xs) 0) x then nth j (y0 :: ys) 0
        else (nth (S j) (y0 :: ys) 0 - nth j (y0 :: ys) 0) / (nth (S j) (x0 :: xs) 0 - nth j (x0 :: xs) 0)
             * (x - nth j (x0 :: xs) 0) + nth j (y0 :: ys) 0.
  Proof.
    induction xs as [|x1 xs IH]; intros ys x0 y0 x Hl Hw H0 H1.
    - exists 0%nat. simpl in *. assert (x = x0) by lra. subst x.
      repeat split; auto; try lra.
      replace (Reqb x0 x0) with true by (symmetry; apply Reqb_true; reflexivity).
      destruct ys; reflexivity.
    - destruct ys as [|y1 ys]; simpl in Hl; try lia. destruct Hw as (W1 & W2).
      destruct (Rle_or_lt x1 x) as [Hx|Hx].
      + change (last (x0 :: x1 :: xs) x0) with (last (x1 :: xs) x0) in H1.
        rewrite (last_cons_indep xs x1 x0 x1) in H1.
        assert (Hl' : length xs = length ys) by (simpl in Hl; injection Hl; auto).
        destruct (IH ys x1 y1 x Hl' W2 Hx H1) as (j & Hj & A & B & C).
        exists (S j). split; [simpl; lia|]. split; [exact A|]. split.
        * destruct B as [B|B]; [left; simpl; lia|right; exact B].
        * simpl interp_go. rnum.
          replace (Rleb x1 x) with true by (symmetry; apply Rleb_true; auto). exact C.
      + exists 0%nat. split; [simpl; lia|]. split; [simpl; lra|]. split; [right; simpl; lra|].
        simpl. rnum. replace (Rleb x1 x) with false by (symmetry; apply Rleb_false; auto). reflexivity.
  Qed.

  (* at a stored time: the value of the last point carrying that time *)
  Theorem resample_at_stored_time_weak : forall xs ys i,
    length xs = length ys -> weakly_increasing xs -> (i < length xs)%nat ->
    exists j, (i <= j)%nat /\ (j < length xs)%nat /\ nth j xs 0 = nth i xs 0 /\
      (S j = length xs \/ nth i xs 0 < nth (S j) xs 0) /\
      interp xs ys (nth i xs 0) = nth j ys 0.
  Proof.
    intros xs ys i Hl Hw Hi. destruct xs as [|x0 xs]; simpl in Hi; try lia.
    destruct ys as [|y0 ys]; simpl in Hl; try lia. simpl in Hw.
    set (x := nth i (x0 :: xs) 0).
    assert (H0 : x0 <= x) by (apply weak_head_le_nth; auto; lia).
    assert (H1 : x <= last (x0 :: xs) x0) by (apply weak_nth_le_last; auto; lia).
    assert (Hl' : length xs = length ys) by (injection Hl; auto).
    destruct (interp_go_weak xs ys x0 y0 x Hl' Hw H0 H1) as (j & Hj & A & B & C).
    assert (Hij : (i <= j)%nat).
    { destruct (le_lt_dec i j); auto. exfalso. destruct B as [B|B]; [lia|].
      assert (nth (S j) (x0 :: xs) 0 <= x) by (apply weak_nth_mono; auto; lia). lra. }
    assert (E : nth j (x0 :: xs) 0 = x).
    { assert (x <= nth j (x0 :: xs) 0) by (apply weak_nth_mono; auto; lia). lra. }
    exists j. split; auto. split; [simpl; lia|]. split; auto. split.
    - destruct B as [B|B]; [left; simpl; lia|right; exact B].
    - unfold C02_Model.interp. rnum.
      replace (Rltb x x0) with false by (symmetry; apply Rltb_false; auto).
      replace (Rltb (last (x0 :: xs) x0) x) with false by (symmetry; apply Rltb_false; auto).
      rewrite C. replace (Reqb (nth j (x0 :: xs) 0) x) with true by (symmetry; apply Reqb_true; auto). reflexivity.
  Qed.

  (* strictly between two neighbouring stored times: the linear interpolation of the neighbouring values *)
  Theorem resample_between_weak : forall xs ys i x,
    length xs = length ys -> weakly_increasing xs -> (S i < length xs)%nat ->
    nth i xs 0 < x < nth (S i) xs 0 ->
    interp xs ys x =
      (nth (S i) ys 0 - nth i ys 0) / (nth (S i) xs 0 - nth i xs 0) * (x - nth i xs 0) + nth i ys 0.
  Proof.
    intros xs ys i x Hl Hw Hi Hx. destruct xs as [|x0 xs]; simpl in Hi; try lia.
    destruct ys as [|y0 ys]; simpl in Hl; try lia. simpl in Hw.
    assert (H0 : x0 <= x).
    { assert (x0 <= nth i (x0 :: xs) 0) by (apply weak_head_le_nth; auto; lia). lra. }
    assert (H1 : x <= last (x0 :: xs) x0).
    { assert (nth (S i) (x0 :: xs) 0 <= last (x0 :: xs) x0) by (apply weak_nth_le_last; auto; lia). lra. }
    assert (Hl' : length xs = length ys) by (injection Hl; auto).
    destruct (interp_go_weak xs ys x0 y0 x Hl' Hw H0 H1) as (j & Hj & A & B & C).
    assert (j = i).
    { destruct (lt_eq_lt_dec j i) as [[Hlt|Heq]|Hgt]; auto; exfalso.
      - destruct B as [B|B]; [lia|].
        assert (nth (S j) (x0 :: xs) 0 <= nth i (x0 :: xs) 0) by (apply weak_nth_mono; auto; lia). lra.
      - assert (nth (S i) (x0 :: xs) 0 <= nth j (x0 :: xs) 0) by (apply weak_nth_mono; auto; lia). lra. }
    subst j. unfold C02_Model.interp. rnum.
    replace (Rltb x x0) with false by (symmetry; apply Rltb_false; auto).
    replace (Rltb (last (x0 :: xs) x0) x) with false by (symmetry; apply Rltb_false; auto).
    rewrite C. replace (Reqb (nth i (x0 :: xs) 0) x) with false by (symmetry; apply Reqb_false; lra). reflexivity.
  Qed.
End InterpWeak.

(* a list whose neighbours are ordered under a key is weakly increasing under that key *)
Lemma weakly_increasing_map : forall (A : Type) (f : A -> R) (d : A) (l : list A),
  (forall i, (S i < length l)%nat -> f (nth i l d) <= f (nth (S i) l d)) -> weakly_increasing (map f l).
Proof.
  intros A f d l. destruct l as [|a l]; simpl; auto. revert a.
  induction l as [|b l IH]; intros a H; simpl; auto. split.
  - apply (H 0%nat). simpl; lia.
  - apply IH. intros i Hi. apply (H (S i)). simpl in *; lia.
Qed.

Example resample_weak_nonvacuous :
  weakly_increasing [0; 1; 1; 3] /\
  @C02_Model.interp RNum 7 [0; 1; 1; 3] [10; 20; 25; 65] 1 = 25 /\
  @C02_Model.interp RNum 7 [0; 1; 1; 3] [10; 20; 25; 65] 2 = 45.
Proof.
  split; [simpl; lra|]. split.
  - destruct (resample_at_stored_time_weak 7 [0; 1; 1; 3] [10; 20; 25; 65] 1%nat) as (j & A & B & C & D & E);
      simpl; auto; try lra; try lia.
    simpl in *. rewrite E. destruct j as [|[|[|[|j]]]]; simpl in *; try lia; try lra.
    destruct D as [D|D]; [lia|lra].
  - rewrite (resample_between_weak 7 [0; 1; 1; 3] [10; 20; 25; 65] 2%nat 2); simpl; auto; try lra; try lia.
Qed.

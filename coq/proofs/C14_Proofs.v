(* C14 — lemmas about the mission-query model.  Axiom-free. *)
From Coq Require Import ZArith List String Bool Lia Sorted Permutation.
From AV Require Import lib.Dates model.C14_Model.
Import ListNotations.
Open Scope Z_scope.

Ltac Zify.zify_post_hook ::= Z.to_euclidean_division_equations.

(* ------------------------------------------------------------------------- *)
(* sorting by departure time                                                  *)
(* ------------------------------------------------------------------------- *)

Definition dep_le (a b : row) : Prop := r_dep a <= r_dep b.

Lemma insert_perm : forall x l, Permutation (insert x l) (x :: l).
Proof.
  intros x l. induction l as [|y t IH]; simpl; [apply Permutation_refl|].
  destruct (r_dep x <=? r_dep y); [apply Permutation_refl|].
  eapply perm_trans; [apply perm_skip; exact IH | apply perm_swap].
Qed.

Lemma sort_perm : forall l, Permutation (sort_by_dep l) l.
Proof.
  induction l as [|x t IH]; simpl; [constructor|].
  eapply perm_trans; [apply insert_perm | apply perm_skip; exact IH].
Qed.

Lemma insert_sorted : forall x l, StronglySorted dep_le l -> StronglySorted dep_le (insert x l).
Proof.
  intros x l H. induction H as [|y t Hs IH Hf]; simpl.
  - constructor; constructor.
  - destruct (Z.leb_spec (r_dep x) (r_dep y)) as [Hle|Hgt].
    + constructor; [constructor; assumption|].
      constructor; [exact Hle|]. rewrite Forall_forall in *. intros z Hz. specialize (Hf z Hz).
      unfold dep_le in *. lia.
    + constructor; [exact IH|]. rewrite Forall_forall in *. intros z Hz.
      apply (Permutation_in _ (insert_perm x t)) in Hz. destruct Hz as [->|Hz].
      * unfold dep_le. lia.
      * apply Hf; exact Hz.
Qed.

Lemma sort_sorted : forall l, StronglySorted dep_le (sort_by_dep l).
Proof. induction l as [|x t IH]; simpl; [constructor | apply insert_sorted; exact IH]. Qed.

(* sorting an already sorted list changes nothing (the exported rows are in departure order) *)
Lemma insert_head : forall x l, Forall (dep_le x) l -> insert x l = x :: l.
Proof.
  intros x [|y t] H; simpl; [reflexivity|]. inversion H; subst. unfold dep_le in *.
  destruct (Z.leb_spec (r_dep x) (r_dep y)); [reflexivity | lia].
Qed.

Lemma sort_id_on_sorted : forall l, StronglySorted dep_le l -> sort_by_dep l = l.
Proof.
  intros l H. induction H as [|x t Hs IH Hf]; simpl; [reflexivity|]. rewrite IH. apply insert_head. exact Hf.
Qed.

(* ------------------------------------------------------------------------- *)
(* selection                                                                  *)
(* ------------------------------------------------------------------------- *)

Lemma firstn_incl : forall (A : Type) n (l : list A) x, In x (firstn n l) -> In x l.
Proof. intros A n l. revert n. induction l as [|y t IH]; intros [|n] x H; simpl in *; try tauto. destruct H; auto. right. eapply IH; eauto. Qed.
Lemma skipn_incl : forall (A : Type) n (l : list A) x, In x (skipn n l) -> In x l.
Proof. intros A n l. revert n. induction l as [|y t IH]; intros [|n] x H; simpl in *; try tauto. right. eapply IH; eauto. Qed.

Lemma firstn_sorted : forall (R : row -> row -> Prop) n l, StronglySorted R l -> StronglySorted R (firstn n l).
Proof.
  intros R n l. revert n. induction l as [|y t IH]; intros [|n] H; simpl; try constructor.
  - inversion H; subst. apply IH; assumption.
  - inversion H; subst. rewrite Forall_forall in *. intros z Hz. apply H3. eapply firstn_incl; eauto.
Qed.
Lemma skipn_sorted : forall (R : row -> row -> Prop) n l, StronglySorted R l -> StronglySorted R (skipn n l).
Proof.
  intros R n l. revert n. induction l as [|y t IH]; intros [|n] H; simpl; try assumption.
  inversion H; subst. apply IH; assumption.
Qed.


Section Sel.
  Variable coin : nat -> Z -> bool.
  Variable db : list row.

  Lemma selected_In : forall cs r, In r (selected coin db cs) <-> In r db /\ eval_conds coin db 0 cs r = true.
  Proof. intros. unfold selected. apply filter_In. Qed.

  Lemma exec_nolimit_perm : forall q cs, q_limit q = None ->
    Permutation (exec_query coin db q cs) (selected coin db cs).
  Proof. intros q cs H. unfold exec_query, window. rewrite H. apply sort_perm. Qed.

  Lemma exec_nolimit_sorted : forall q cs, q_limit q = None -> StronglySorted dep_le (exec_query coin db q cs).
  Proof. intros q cs H. unfold exec_query, window. rewrite H. apply sort_sorted. Qed.

  Lemma exec_nolimit_In : forall q cs r, q_limit q = None ->
    (In r (exec_query coin db q cs) <-> In r db /\ eval_conds coin db 0 cs r = true).
  Proof.
    intros q cs r H. rewrite <- selected_In. split; intros Hin.
    - eapply Permutation_in; [apply exec_nolimit_perm; exact H | exact Hin].
    - eapply Permutation_in; [apply Permutation_sym, exec_nolimit_perm; exact H | exact Hin].
  Qed.

  Lemma count_eq_length : forall q cs, q_limit q = None ->
    exec_count coin db cs = Z.of_nat (List.length (exec_query coin db q cs)).
  Proof.
    intros q cs H. unfold exec_count. f_equal. symmetry.
    apply Permutation_length. apply exec_nolimit_perm. exact H.
  Qed.

  (* limit / offset select a contiguous window of the ordered result *)
  Lemma window_spec : forall n o l,
    0 <= n -> 0 <= o ->
    exists pre post, l = pre ++ window (Some n) (Some o) l ++ post
      /\ List.length pre = Nat.min (Z.to_nat o) (List.length l)
      /\ List.length (window (Some n) (Some o) l) = Nat.min (Z.to_nat n) (List.length l - Z.to_nat o)%nat.
  Proof.
    intros n o l Hn Ho. unfold window.
    exists (firstn (Z.to_nat o) l), (skipn (Z.to_nat n) (skipn (Z.to_nat o) l)).
    repeat split.
    - rewrite firstn_skipn. rewrite firstn_skipn. reflexivity.
    - apply firstn_length.
    - rewrite firstn_length, skipn_length. reflexivity.
  Qed.

  Lemma exec_window : forall q cs,
    exec_query coin db q cs =
    match q_limit q with
    | None => sort_by_dep (selected coin db cs)
    | Some n => firstn (Z.to_nat n) (skipn (Z.to_nat (match q_offset q with Some o => o | None => 0 end))
                                            (sort_by_dep (selected coin db cs)))
    end.
  Proof. reflexivity. Qed.

  (* with a limit: still ordered, still only matching rows, never more than the limit *)
  Lemma exec_sound : forall q cs r, In r (exec_query coin db q cs) -> In r db /\ eval_conds coin db 0 cs r = true.
  Proof.
    intros q cs r H. apply selected_In. unfold exec_query, window in H.
    destruct (q_limit q) as [n|].
    - apply firstn_incl, skipn_incl in H. eapply Permutation_in; [apply sort_perm | exact H].
    - eapply Permutation_in; [apply sort_perm | exact H].
  Qed.

  Lemma exec_sorted : forall q cs, StronglySorted dep_le (exec_query coin db q cs).
  Proof.
    intros q cs. unfold exec_query, window. destruct (q_limit q) as [n|]; [|apply sort_sorted].
    apply firstn_sorted, skipn_sorted, sort_sorted.
  Qed.

  Lemma exec_limit_length : forall q cs n, q_limit q = Some n -> (List.length (exec_query coin db q cs) <= Z.to_nat n)%nat.
  Proof. intros q cs n H. unfold exec_query, window. rewrite H. rewrite firstn_length. lia. Qed.
End Sel.

(* sampling only ever removes rows *)
Lemma eval_conds_coin_mono : forall coin db cs i r,
  eval_conds coin db i cs r = true -> eval_conds no_coin db i cs r = true.
Proof.
  intros coin db cs. induction cs as [|c t IH]; intros i r H; simpl in *; [reflexivity|].
  apply andb_true_iff in H. destruct H as [H1 H2]. apply andb_true_iff. split; [|apply IH; exact H2].
  destruct c; simpl in *; auto.
Qed.

Lemma sample_subset : forall coin db cs r, In r (selected coin db cs) -> In r (selected no_coin db cs).
Proof.
  intros coin db cs r H. apply selected_In in H. apply selected_In. destruct H as [H1 H2].
  split; [exact H1 | eapply eval_conds_coin_mono; exact H2].
Qed.

(* ------------------------------------------------------------------------- *)
(* meaning of the filter's conjuncts                                          *)
(* ------------------------------------------------------------------------- *)

Lemma mem_In : forall s l, mem s l = true <-> In s l.
Proof.
  intros s l. unfold mem. rewrite existsb_exists. split.
  - intros [x [Hx He]]. apply String.eqb_eq in He. subst. exact Hx.
  - intros H. exists s. split; [exact H | apply String.eqb_refl].
Qed.

Lemma filter_matches_meaning : forall f r, filter_matches f r = true ->
  (forall m, f_mindist f = Some m -> m <= r_dist r) /\ (forall m, f_maxdist f = Some m -> r_dist r <= m)
  /\ (forall m, f_minseat f = Some m -> m <= r_seats r) /\ (forall m, f_maxseat f = Some m -> r_seats r <= m)
  /\ (forall l, f_service f = Some l -> l <> [] -> In (r_service r) l)
  /\ (forall l, f_actype f = Some l -> l <> [] -> In (r_actype r) l)
  /\ (forall l, f_ap f = Some l -> In (r_oap r) l \/ In (r_dap r) l)
  /\ (forall l, f_ap f = None -> f_oap f = Some l -> In (r_oap r) l)
  /\ (forall l, f_ap f = None -> f_dap f = Some l -> In (r_dap r) l)
  /\ (forall l, f_ctry f = Some l -> In (r_octry r) l \/ In (r_dctry r) l)
  /\ (forall l, f_ctry f = None -> f_octry f = Some l -> In (r_octry r) l)
  /\ (forall l, f_ctry f = None -> f_dctry f = Some l -> In (r_dctry r) l)
  /\ (forall l, f_cont f = Some l -> In (r_ocont r) l \/ In (r_dcont r) l)
  /\ (forall l, f_cont f = None -> f_ocont f = Some l -> In (r_ocont r) l)
  /\ (forall l, f_cont f = None -> f_dcont f = Some l -> In (r_dcont r) l)
  /\ (forall b, f_bb f = Some b -> in_box b (r_olat r) (r_olon r) = true \/ in_box b (r_dlat r) (r_dlon r) = true)
  /\ (forall b, f_bb f = None -> f_obb f = Some b -> in_box b (r_olat r) (r_olon r) = true)
  /\ (forall b, f_bb f = None -> f_dbb f = Some b -> in_box b (r_dlat r) (r_dlon r) = true).
Proof.
  intros f r H. unfold filter_matches in H. repeat rewrite andb_true_iff in H.
  destruct H as [[[[[[[[[H1 H2] H3] H4] H5] H6] H7] H8] H9] H10].
  repeat split.
  - intros m Hm. rewrite Hm in H1. simpl in H1. lia.
  - intros m Hm. rewrite Hm in H2. simpl in H2. lia.
  - intros m Hm. rewrite Hm in H3. simpl in H3. lia.
  - intros m Hm. rewrite Hm in H4. simpl in H4. lia.
  - intros l Hl Hne. rewrite Hl in H5. destruct l; [congruence|]. simpl list_cond in H5. apply mem_In. exact H5.
  - intros l Hl Hne. rewrite Hl in H6. destruct l; [congruence|]. simpl list_cond in H6. apply mem_In. exact H6.
  - intros l Hl. rewrite Hl in H7. simpl in H7. apply orb_true_iff in H7. rewrite !mem_In in H7. exact H7.
  - intros l Hn Hl. rewrite Hn, Hl in H7. simpl in H7. apply andb_true_iff in H7. apply mem_In. tauto.
  - intros l Hn Hl. rewrite Hn, Hl in H7. simpl in H7. apply andb_true_iff in H7. apply mem_In. tauto.
  - intros l Hl. rewrite Hl in H8. simpl in H8. apply orb_true_iff in H8. rewrite !mem_In in H8. exact H8.
  - intros l Hn Hl. rewrite Hn, Hl in H8. simpl in H8. apply andb_true_iff in H8. apply mem_In. tauto.
  - intros l Hn Hl. rewrite Hn, Hl in H8. simpl in H8. apply andb_true_iff in H8. apply mem_In. tauto.
  - intros l Hl. rewrite Hl in H9. simpl in H9. apply orb_true_iff in H9. rewrite !mem_In in H9. exact H9.
  - intros l Hn Hl. rewrite Hn, Hl in H9. simpl in H9. apply andb_true_iff in H9. apply mem_In. tauto.
  - intros l Hn Hl. rewrite Hn, Hl in H9. simpl in H9. apply andb_true_iff in H9. apply mem_In. tauto.
  - intros b Hb. rewrite Hb in H10. simpl in H10. apply orb_true_iff in H10. exact H10.
  - intros b Hn Hb. rewrite Hn, Hb in H10. simpl in H10. apply andb_true_iff in H10. tauto.
  - intros b Hn Hb. rewrite Hn, Hb in H10. simpl in H10. apply andb_true_iff in H10. tauto.
Qed.

Lemma in_box_spec : forall b lat lon,
  in_box b lat lon = true <-> (b_minlat b <= lat <= b_maxlat b /\ b_minlon b <= lon <= b_maxlon b).
Proof. intros b lat lon. unfold in_box. rewrite !andb_true_iff, !Z.leb_le. lia. Qed.


(* the filter, specified independently of [filter_matches]: the 18 clauses of the property text *)
Definition box_holds (b : bbox) (lat lon : Z) : Prop :=
  b_minlat b <= lat <= b_maxlat b /\ b_minlon b <= lon <= b_maxlon b.

Definition filter_spec (f : fspec) (r : row) : Prop :=
  (forall m, f_mindist f = Some m -> m <= r_dist r) /\ (forall m, f_maxdist f = Some m -> r_dist r <= m)
  /\ (forall m, f_minseat f = Some m -> m <= r_seats r) /\ (forall m, f_maxseat f = Some m -> r_seats r <= m)
  /\ (forall l, f_service f = Some l -> l <> [] -> In (r_service r) l)
  /\ (forall l, f_actype f = Some l -> l <> [] -> In (r_actype r) l)
  /\ (forall l, f_ap f = Some l -> In (r_oap r) l \/ In (r_dap r) l)
  /\ (forall l, f_ap f = None -> f_oap f = Some l -> In (r_oap r) l)
  /\ (forall l, f_ap f = None -> f_dap f = Some l -> In (r_dap r) l)
  /\ (forall l, f_ctry f = Some l -> In (r_octry r) l \/ In (r_dctry r) l)
  /\ (forall l, f_ctry f = None -> f_octry f = Some l -> In (r_octry r) l)
  /\ (forall l, f_ctry f = None -> f_dctry f = Some l -> In (r_dctry r) l)
  /\ (forall l, f_cont f = Some l -> In (r_ocont r) l \/ In (r_dcont r) l)
  /\ (forall l, f_cont f = None -> f_ocont f = Some l -> In (r_ocont r) l)
  /\ (forall l, f_cont f = None -> f_dcont f = Some l -> In (r_dcont r) l)
  /\ (forall b, f_bb f = Some b -> box_holds b (r_olat r) (r_olon r) \/ box_holds b (r_dlat r) (r_dlon r))
  /\ (forall b, f_bb f = None -> f_obb f = Some b -> box_holds b (r_olat r) (r_olon r))
  /\ (forall b, f_bb f = None -> f_dbb f = Some b -> box_holds b (r_dlat r) (r_dlon r)).

Lemma filter_spec_unfold :
  forall f r, filter_spec f r <->
  ((forall m, f_mindist f = Some m -> m <= r_dist r) /\ (forall m, f_maxdist f = Some m -> r_dist r <= m)
  /\ (forall m, f_minseat f = Some m -> m <= r_seats r) /\ (forall m, f_maxseat f = Some m -> r_seats r <= m)
  /\ (forall l, f_service f = Some l -> l <> [] -> In (r_service r) l)
  /\ (forall l, f_actype f = Some l -> l <> [] -> In (r_actype r) l)
  /\ (forall l, f_ap f = Some l -> In (r_oap r) l \/ In (r_dap r) l)
  /\ (forall l, f_ap f = None -> f_oap f = Some l -> In (r_oap r) l)
  /\ (forall l, f_ap f = None -> f_dap f = Some l -> In (r_dap r) l)
  /\ (forall l, f_ctry f = Some l -> In (r_octry r) l \/ In (r_dctry r) l)
  /\ (forall l, f_ctry f = None -> f_octry f = Some l -> In (r_octry r) l)
  /\ (forall l, f_ctry f = None -> f_dctry f = Some l -> In (r_dctry r) l)
  /\ (forall l, f_cont f = Some l -> In (r_ocont r) l \/ In (r_dcont r) l)
  /\ (forall l, f_cont f = None -> f_ocont f = Some l -> In (r_ocont r) l)
  /\ (forall l, f_cont f = None -> f_dcont f = Some l -> In (r_dcont r) l)
  /\ (forall b, f_bb f = Some b -> box_holds b (r_olat r) (r_olon r) \/ box_holds b (r_dlat r) (r_dlon r))
  /\ (forall b, f_bb f = None -> f_obb f = Some b -> box_holds b (r_olat r) (r_olon r))
  /\ (forall b, f_bb f = None -> f_dbb f = Some b -> box_holds b (r_dlat r) (r_dlon r))).
Proof. intros f r. apply iff_refl. Qed.

Lemma filter_spec_sound : forall f r, filter_matches f r = true -> filter_spec f r.
Proof.
  intros f r H. apply filter_matches_meaning in H.
  destruct H as [H1 [H2 [H3 [H4 [H5 [H6 [A1 [A2 [A3 [B1 [B2 [B3 [C1 [C2 [C3 [D1 [D2 D3]]]]]]]]]]]]]]]]].
  unfold filter_spec.
  assert (E1 : forall bx, f_bb f = Some bx ->
                 box_holds bx (r_olat r) (r_olon r) \/ box_holds bx (r_dlat r) (r_dlon r)).
  { intros bx Hb. specialize (D1 bx Hb). unfold box_holds. rewrite !in_box_spec in D1. exact D1. }
  assert (E2 : forall bx, f_bb f = None -> f_obb f = Some bx -> box_holds bx (r_olat r) (r_olon r)).
  { intros bx Hn Hb. unfold box_holds. apply in_box_spec. apply D2; assumption. }
  assert (E3 : forall bx, f_bb f = None -> f_dbb f = Some bx -> box_holds bx (r_dlat r) (r_dlon r)).
  { intros bx Hn Hb. unfold box_holds. apply in_box_spec. apply D3; assumption. }
  repeat (split; [assumption|]). assumption.
Qed.

Lemma filter_spec_complete : forall f r, filter_spec f r -> filter_matches f r = true.
Proof.
  intros f r H. unfold filter_spec in H.
  destruct H as [H1 [H2 [H3 [H4 [H5 [H6 [A1 [A2 [A3 [B1 [B2 [B3 [C1 [C2 [C3 [D1 [D2 D3]]]]]]]]]]]]]]]]].
  unfold filter_matches. repeat rewrite andb_true_iff. repeat split.
  - destruct (f_mindist f) as [m|]; simpl; [apply Z.leb_le; apply H1; reflexivity | reflexivity].
  - destruct (f_maxdist f) as [m|]; simpl; [apply Z.leb_le; apply H2; reflexivity | reflexivity].
  - destruct (f_minseat f) as [m|]; simpl; [apply Z.leb_le; apply H3; reflexivity | reflexivity].
  - destruct (f_maxseat f) as [m|]; simpl; [apply Z.leb_le; apply H4; reflexivity | reflexivity].
  - destruct (f_service f) as [[|x l]|]; cbn [list_cond]; try reflexivity.
    apply mem_In. apply (H5 (x :: l)); [reflexivity | discriminate].
  - destruct (f_actype f) as [[|x l]|]; cbn [list_cond]; try reflexivity.
    apply mem_In. apply (H6 (x :: l)); [reflexivity | discriminate].
  - unfold spatial_match. destruct (f_ap f) as [l|].
    + apply orb_true_iff. rewrite !mem_In. apply A1; reflexivity.
    + apply andb_true_iff. split.
      * destruct (f_oap f) as [l|]; cbn [opt_ok]; [apply mem_In; apply A2; reflexivity | reflexivity].
      * destruct (f_dap f) as [l|]; cbn [opt_ok]; [apply mem_In; apply A3; reflexivity | reflexivity].
  - unfold spatial_match. destruct (f_ctry f) as [l|].
    + apply orb_true_iff. rewrite !mem_In. apply B1; reflexivity.
    + apply andb_true_iff. split.
      * destruct (f_octry f) as [l|]; cbn [opt_ok]; [apply mem_In; apply B2; reflexivity | reflexivity].
      * destruct (f_dctry f) as [l|]; cbn [opt_ok]; [apply mem_In; apply B3; reflexivity | reflexivity].
  - unfold spatial_match. destruct (f_cont f) as [l|].
    + apply orb_true_iff. rewrite !mem_In. apply C1; reflexivity.
    + apply andb_true_iff. split.
      * destruct (f_ocont f) as [l|]; cbn [opt_ok]; [apply mem_In; apply C2; reflexivity | reflexivity].
      * destruct (f_dcont f) as [l|]; cbn [opt_ok]; [apply mem_In; apply C3; reflexivity | reflexivity].
  - unfold spatial_match. destruct (f_bb f) as [b|].
    + apply orb_true_iff. rewrite !in_box_spec. apply D1; reflexivity.
    + apply andb_true_iff. split.
      * destruct (f_obb f) as [b|]; cbn [opt_ok]; [apply in_box_spec; apply D2; reflexivity | reflexivity].
      * destruct (f_dbb f) as [b|]; cbn [opt_ok]; [apply in_box_spec; apply D3; reflexivity | reflexivity].
Qed.

(* the executable filter decides exactly the specified one *)
Lemma filter_matches_iff_spec : forall f r, filter_matches f r = true <-> filter_spec f r.
Proof. intros f r. split; [apply filter_spec_sound | apply filter_spec_complete]. Qed.

(* ------------------------------------------------------------------------- *)
(* meaning of one build of a valid, unsampled query                           *)
(* ------------------------------------------------------------------------- *)

Definition nth_base (db : list row) (q : query) : Z :=
  match q_start q with Some c => civil_day c | None => min_day db end.

Definition matches_spec (db : list row) (q : query) (r : row) : Prop :=
  (forall f, q_filter q = Some f -> filter_spec f r)
  /\ (forall c, q_start q = Some c -> civil_day c <= r_dep r / 86400)
  /\ (forall c, q_end q = Some c -> r_dep r / 86400 <= civil_day c)
  /\ (forall n, q_nth q = Some n -> 1 < n -> (n | r_day r - nth_base db q)).

Lemma forallb_app_cond : forall coin db a b i r,
  eval_conds coin db i (a ++ b) r = eval_conds coin db i a r && eval_conds coin db (i + List.length a) b r.
Proof.
  intros coin db a. induction a as [|c t IH]; intros b i r; simpl.
  - rewrite Nat.add_0_r. reflexivity.
  - rewrite IH. replace (S i + List.length t)%nat with (i + S (List.length t))%nat by lia.
    rewrite andb_assoc. reflexivity.
Qed.

Lemma start_cond : forall a t, (86400 * a <=? t) = true <-> a <= t / 86400.
Proof. intros a t. rewrite Z.leb_le. lia. Qed.

Lemma end_cond : forall a t, (t <? 86400 * (a + 1)) = true <-> t / 86400 <= a.
Proof. intros a t. rewrite Z.ltb_lt. lia. Qed.

Lemma date_part_spec : forall coin db q i r,
  eval_conds coin db i (date_part q) r = true <->
  ((forall c, q_start q = Some c -> civil_day c <= r_dep r / 86400)
   /\ (forall c, q_end q = Some c -> r_dep r / 86400 <= civil_day c)).
Proof.
  intros coin db q i r. unfold date_part.
  destruct (q_start q) as [cs|]; destruct (q_end q) as [ce|]; cbn [eval_conds eval_cond app];
    rewrite ?andb_true_r, ?andb_true_iff, ?start_cond, ?end_cond.
  - split.
    + intros [H1 H2]. split; intros c Hc; inversion Hc; subst; assumption.
    + intros [H1 H2]. split; [apply H1 | apply H2]; reflexivity.
  - split.
    + intros H1. split; intros c Hc; inversion Hc; subst; assumption.
    + intros [H1 _]. apply H1; reflexivity.
  - split.
    + intros H1. split; intros c Hc; inversion Hc; subst; assumption.
    + intros [_ H2]. apply H2; reflexivity.
  - split; [intros _; split; intros c Hc; discriminate | reflexivity].
Qed.

Lemma rem_zero_divide : forall a n, 1 < n -> (Z.rem a n =? 0) = true <-> (n | a).
Proof. intros a n Hn. rewrite Z.eqb_eq. apply Z.rem_divide. lia. Qed.

Lemma nth_part_spec : forall coin db q i r,
  eval_conds coin db i (nth_part q) r = true <->
  (forall n, q_nth q = Some n -> 1 < n -> (n | r_day r - nth_base db q)).
Proof.
  intros coin db q i r. unfold nth_part, nth_base.
  destruct (q_nth q) as [n|]; [|simpl; split; [intros _ n Hn; discriminate | reflexivity]].
  destruct (Z.ltb_spec 1 n) as [Hn|Hn].
  - destruct (q_start q) as [c|]; cbn [eval_conds eval_cond]; rewrite andb_true_r; rewrite rem_zero_divide by exact Hn.
    + split; [intros H m Hm _; inversion Hm; subst; exact H | intros H; apply (H n eq_refl Hn)].
    + split; [intros H m Hm _; inversion Hm; subst; exact H | intros H; apply (H n eq_refl Hn)].
  - simpl. split; [intros _ m Hm Hlt; inversion Hm; subst; lia | reflexivity].
Qed.


Lemma ite_nonneg : forall b : bool, 0 <= (if b then 1 else 0).
Proof. destruct b; lia. Qed.

Lemma spatial_conds_nonneg : forall (A : Type) (a b c : option A), 0 <= spatial_conds a b c.
Proof. intros A a b c. unfold spatial_conds. destruct (is_some a), (is_some b), (is_some c); lia. Qed.

Lemma spatial_conds_zero : forall (A : Type) (a b c : option A),
  spatial_conds a b c = 0 -> a = None /\ b = None /\ c = None.
Proof. intros A [x|] [y|] [z|]; unfold spatial_conds; simpl; intros H; try lia; auto. Qed.

Lemma is_some_zero : forall (A : Type) (a : option A), (if is_some a then 1 else 0) = 0 -> a = None.
Proof. intros A [x|]; simpl; intros H; [lia | reflexivity]. Qed.

Lemma some_nonempty_zero : forall a, (if some_nonempty a then 1 else 0) = 0 -> list_cond a = fun _ => true.
Proof. intros [[|x l]|]; simpl; intros H; try lia; reflexivity. Qed.

(* a filter that contributes no conjunct matches every row *)
Lemma no_conditions_matches_all : forall f r, n_conditions f = 0 -> filter_matches f r = true.
Proof.
  intros f r En. unfold n_conditions in En.
  pose proof (ite_nonneg (is_some (f_mindist f))) as N1. pose proof (ite_nonneg (is_some (f_maxdist f))) as N2.
  pose proof (ite_nonneg (is_some (f_minseat f))) as N3. pose proof (ite_nonneg (is_some (f_maxseat f))) as N4.
  pose proof (ite_nonneg (some_nonempty (f_service f))) as N5. pose proof (ite_nonneg (some_nonempty (f_actype f))) as N6.
  pose proof (spatial_conds_nonneg _ (f_ap f) (f_oap f) (f_dap f)) as N7.
  pose proof (spatial_conds_nonneg _ (f_ctry f) (f_octry f) (f_dctry f)) as N8.
  pose proof (spatial_conds_nonneg _ (f_cont f) (f_ocont f) (f_dcont f)) as N9.
  pose proof (spatial_conds_nonneg _ (f_bb f) (f_obb f) (f_dbb f)) as N10.
  assert (E1 : f_mindist f = None) by (apply is_some_zero; lia).
  assert (E2 : f_maxdist f = None) by (apply is_some_zero; lia).
  assert (E3 : f_minseat f = None) by (apply is_some_zero; lia).
  assert (E4 : f_maxseat f = None) by (apply is_some_zero; lia).
  assert (E5 : list_cond (f_service f) = fun _ => true) by (apply some_nonempty_zero; lia).
  assert (E6 : list_cond (f_actype f) = fun _ => true) by (apply some_nonempty_zero; lia).
  destruct (spatial_conds_zero _ (f_ap f) (f_oap f) (f_dap f)) as [A1 [A2 A3]]; [lia|].
  destruct (spatial_conds_zero _ (f_ctry f) (f_octry f) (f_dctry f)) as [B1 [B2 B3]]; [lia|].
  destruct (spatial_conds_zero _ (f_cont f) (f_ocont f) (f_dcont f)) as [C1 [C2 C3]]; [lia|].
  destruct (spatial_conds_zero _ (f_bb f) (f_obb f) (f_dbb f)) as [D1 [D2 D3]]; [lia|].
  unfold filter_matches. rewrite E1, E2, E3, E4, E5, E6, A1, A2, A3, B1, B2, B3, C1, C2, C3, D1, D2, D3.
  reflexivity.
Qed.

Lemma own_conds_meaning : forall coin db eo q cs r,
  own_conds eo q = Ok cs -> q_sample q = None ->
  (eval_conds coin db 0 cs r = true <-> matches_spec db q r).
Proof.
  intros coin db eo q cs r Hc Hs. unfold own_conds in Hc.
  destruct (negb (query_valid q)); [discriminate|].
  unfold sample_part in Hc. rewrite Hs in Hc. simpl app in Hc.
  unfold matches_spec.
  destruct (filter_part eo (q_filter q)) as [fc|e] eqn:Ef; [|discriminate].
  inversion Hc; subst cs; clear Hc.
  rewrite forallb_app_cond, forallb_app_cond, !andb_true_iff, date_part_spec, nth_part_spec.
  assert (Hf0 : eval_conds coin db 0 fc r = true <-> (forall f, q_filter q = Some f -> filter_matches f r = true)).
  { unfold filter_part in Ef. destruct (q_filter q) as [f|].
    - destruct (negb (filter_legal f)); [discriminate|].
      destruct (n_conditions f =? 0) eqn:En.
      + (* a filter without conditions matches every row *)
        assert (Hall : filter_matches f r = true) by (apply no_conditions_matches_all; apply Z.eqb_eq; exact En).
        destruct eo; [|discriminate]. inversion Ef; subst. simpl.
        split; [intros _ f' Hf'; inversion Hf'; subst; exact Hall | reflexivity].
      + inversion Ef; subst. simpl. rewrite andb_true_r.
        split; [intros H f' Hf'; inversion Hf'; subst; exact H | intros H; apply H; reflexivity].
    - inversion Ef; subst. simpl. split; [intros _ f' Hf'; discriminate | reflexivity]. }
  assert (Hf : eval_conds coin db 0 fc r = true <-> (forall f, q_filter q = Some f -> filter_spec f r)).
  { rewrite Hf0. split; intros H f Hq; apply filter_matches_iff_spec; apply H; exact Hq. }
  rewrite Hf. tauto.
Qed.

(* ------------------------------------------------------------------------- *)
(* building more than once                                                     *)
(* ------------------------------------------------------------------------- *)

Definition det_conds (cs : list cond) : Prop := forall c, In c cs -> c <> CSample.

Lemma eval_conds_det : forall coin db cs i j r, det_conds cs ->
  eval_conds coin db i cs r = eval_conds coin db j cs r.
Proof.
  intros coin db cs. induction cs as [|c t IH]; intros i j r H; simpl; [reflexivity|].
  rewrite (IH (S i) (S j)) by (intros c' Hc'; apply H; right; exact Hc').
  f_equal. destruct c; simpl; try reflexivity. exfalso. apply (H CSample); [left; reflexivity | reflexivity].
Qed.

Fixpoint copies {A} (k : nat) (l : list A) : list A :=
  match k with O => [] | S k' => l ++ copies k' l end.

Lemma build_times_noreset : forall eo q c k acc,
  own_conds eo q = Ok c -> build_times false eo q k acc = Ok (acc ++ copies k c).
Proof.
  intros eo q c k. induction k as [|k IH]; intros acc H; simpl.
  - rewrite app_nil_r. reflexivity.
  - unfold build. rewrite H. simpl. rewrite IH by exact H. rewrite <- app_assoc. reflexivity.
Qed.

Lemma build_times_reset : forall eo q c k acc,
  own_conds eo q = Ok c -> build_times true eo q (S k) acc = Ok c.
Proof.
  intros eo q c k. induction k as [|k IH]; intros acc H.
  - simpl. unfold build. rewrite H. reflexivity.
  - change (build_times true eo q (S (S k)) acc)
      with (match build true eo q acc with Err e => Err e | Ok acc' => build_times true eo q (S k) acc' end).
    unfold build at 1. rewrite H. simpl app. apply IH. exact H.
Qed.

Lemma build_times_err : forall rs eo q e k acc,
  own_conds eo q = Err e -> build_times rs eo q (S k) acc = Err e.
Proof. intros. simpl. unfold build. rewrite H. reflexivity. Qed.

Lemma det_copies : forall k (c : list cond), det_conds c -> det_conds (copies k c).
Proof.
  intros k c H. induction k as [|k IH]; simpl; intros x Hx; [destruct Hx|].
  apply in_app_or in Hx. destruct Hx; [apply H | apply IH]; assumption.
Qed.

Lemma eval_copies : forall coin db k c r, det_conds c ->
  eval_conds coin db 0 (copies (S k) c) r = eval_conds coin db 0 c r.
Proof.
  intros coin db k c r Hd. induction k as [|k IH].
  - simpl. rewrite app_nil_r. reflexivity.
  - change (copies (S (S k)) c) with (c ++ copies (S k) c).
    rewrite forallb_app_cond.
    rewrite (eval_conds_det coin db (copies (S k) c) _ 0%nat r) by (apply det_copies; exact Hd).
    rewrite IH. apply andb_diag.
Qed.

Lemma own_conds_det : forall eo q c, own_conds eo q = Ok c -> q_sample q = None -> det_conds c.
Proof.
  intros eo q c H Hs x Hx. unfold own_conds in H.
  destruct (negb (query_valid q)); [discriminate|].
  destruct (filter_part eo (q_filter q)) as [fc|] eqn:Ef; [|discriminate].
  inversion H; subst c; clear H.
  unfold sample_part in Hx. rewrite Hs in Hx. simpl app in Hx.
  apply in_app_or in Hx. destruct Hx as [Hx|Hx].
  - unfold filter_part in Ef. destruct (q_filter q) as [f|]; [|inversion Ef; subst; destruct Hx].
    destruct (negb (filter_legal f)); [discriminate|].
    destruct (n_conditions f =? 0); [destruct eo; [inversion Ef; subst; destruct Hx | discriminate]|].
    inversion Ef; subst. destruct Hx as [<-|[]]. discriminate.
  - apply in_app_or in Hx. destruct Hx as [Hx|Hx].
    + unfold date_part in Hx. destruct (q_start q); destruct (q_end q); simpl in Hx;
        repeat (destruct Hx as [<-|Hx]; [discriminate|]); destruct Hx.
    + unfold nth_part in Hx. destruct (q_nth q) as [n|]; [|destruct Hx].
      destruct (1 <? n); [|destruct Hx]. destruct (q_start q); simpl in Hx;
        (destruct Hx as [<-|[]]; discriminate).
Qed.

Lemma selected_ext : forall coin db cs cs',
  (forall r, eval_conds coin db 0 cs r = eval_conds coin db 0 cs' r) -> selected coin db cs = selected coin db cs'.
Proof. intros coin db cs cs' H. unfold selected. apply filter_ext. exact H. Qed.

(* as found (accumulating): executing after k >= 1 builds gives the answer of one build, for unsampled queries *)
Lemma rebuild_idempotent_noreset : forall coin db eo q k,
  q_sample q = None ->
  match build_times false eo q (S k) [], build_times false eo q 1 [] with
  | Ok csk, Ok cs1 => exec_query coin db q csk = exec_query coin db q cs1
                      /\ exec_count coin db csk = exec_count coin db cs1
                      /\ tally (selected coin db csk) = tally (selected coin db cs1)
  | Err e, Err e' => e = e'
  | _, _ => False
  end.
Proof.
  intros coin db eo q k Hs. destruct (own_conds eo q) as [c|e] eqn:Ec.
  - rewrite (build_times_noreset eo q c (S k) [] Ec), (build_times_noreset eo q c 1 [] Ec).
    simpl app. rewrite app_nil_r.
    assert (Hsel : selected coin db (c ++ copies k c) = selected coin db c).
    { apply selected_ext. intros r. apply (eval_copies coin db k c r). eapply own_conds_det; eassumption. }
    unfold exec_query, exec_count. rewrite Hsel. auto.
  - rewrite (build_times_err false eo q e k [] Ec), (build_times_err false eo q e 0 [] Ec). reflexivity.
Qed.

(* repaired (reset on build): the condition list itself is the same after any number of builds — all queries *)
Lemma rebuild_idempotent_reset : forall eo q k,
  build_times true eo q (S k) [] = build_times true eo q 1 [].
Proof.
  intros eo q k. destruct (own_conds eo q) as [c|e] eqn:Ec.
  - rewrite (build_times_reset eo q c k [] Ec), (build_times_reset eo q c 0 [] Ec). reflexivity.
  - rewrite (build_times_err true eo q e k [] Ec), (build_times_err true eo q e 0 [] Ec). reflexivity.
Qed.

(* ------------------------------------------------------------------------- *)
(* empty filters, illegal spatial mixes                                       *)
(* ------------------------------------------------------------------------- *)

Definition plain (fo : option fspec) : query := Query fo None None None None None None.

Lemma sorted_by_construction : forall db, sort_by_dep (filter (fun _ => true) db) = sort_by_dep db.
Proof. intros db. f_equal. induction db as [|x t IH]; simpl; [reflexivity | rewrite IH; reflexivity]. Qed.

Lemma no_condition_filter_selects_all : forall rs db f k,
  filter_legal f = true -> n_conditions f = 0 ->
  run_query rs true db (plain (Some f)) (S k) = Ok (map r_sid (sort_by_dep db))
  /\ run_count rs true db (plain (Some f)) (S k) = Ok (Z.of_nat (List.length db)).
Proof.
  intros rs db f k Hl Hn.
  assert (Hc : own_conds true (plain (Some f)) = Ok []).
  { unfold own_conds, plain, query_valid, filter_part. simpl. rewrite Hl. simpl. rewrite Hn. reflexivity. }
  assert (Hb : build_times rs true (plain (Some f)) (S k) [] = Ok []).
  { destruct rs; [apply (build_times_reset true _ [] k [] Hc)|].
    rewrite (build_times_noreset true _ [] (S k) [] Hc). simpl. f_equal.
    induction k as [|k IH]; simpl; auto. }
  unfold run_query, run_count. rewrite Hb. unfold exec_query, exec_count, selected, plain. simpl.
  split.
  - rewrite sorted_by_construction. reflexivity.
  - repeat f_equal. induction db as [|x t IH]; simpl; [reflexivity | rewrite IH; reflexivity].
Qed.

Lemma empty_filter_selects_all : forall rs db k,
  run_query rs true db (plain (Some empty_filter)) (S k) = Ok (map r_sid (sort_by_dep db))
  /\ run_count rs true db (plain (Some empty_filter)) (S k) = Ok (Z.of_nat (List.length db)).
Proof. intros. apply no_condition_filter_selects_all; reflexivity. Qed.

Lemma empty_filter_crashes_before_fix : forall rs db k,
  run_query rs false db (plain (Some empty_filter)) (S k) = Err EEmptyFilterCrash
  /\ run_count rs false db (plain (Some empty_filter)) (S k) = Err EEmptyFilterCrash.
Proof.
  intros rs db k.
  assert (Hc : own_conds false (plain (Some empty_filter)) = Err EEmptyFilterCrash) by reflexivity.
  unfold run_query, run_count. rewrite (build_times_err rs false _ _ k [] Hc). split; reflexivity.
Qed.

Lemma no_filter_selects_all : forall rs eo db k,
  run_query rs eo db (plain None) (S k) = Ok (map r_sid (sort_by_dep db)).
Proof.
  intros rs eo db k.
  assert (Hc : own_conds eo (plain None) = Ok []) by reflexivity.
  assert (Hb : build_times rs eo (plain None) (S k) [] = Ok []).
  { destruct rs; [apply (build_times_reset eo _ [] k [] Hc)|].
    rewrite (build_times_noreset eo _ [] (S k) [] Hc). simpl. f_equal. induction k as [|k IH]; simpl; auto. }
  unfold run_query. rewrite Hb. unfold exec_query, selected, plain. simpl.
  rewrite sorted_by_construction. reflexivity.
Qed.

Lemma filter_legal_spec : forall f,
  filter_legal f = true <->
  ((n_combined f = 1 /\ n_origin f = 0 /\ n_destination f = 0)
   \/ (n_combined f = 0 /\ n_origin f <= 1 /\ n_destination f <= 1)).
Proof.
  intros f. unfold filter_legal, spatial_ok.
  rewrite orb_true_iff, !andb_true_iff, !Z.eqb_eq, !Z.leb_le. tauto.
Qed.

Lemma illegal_mix_refused : forall rs eo q f k,
  q_filter q = Some f -> query_valid q = true -> filter_legal f = false ->
  build_times rs eo q (S k) [] = Err EIllegalSpatialMix.
Proof.
  intros rs eo q f k Hf Hv Hl. apply build_times_err.
  unfold own_conds. rewrite Hv. simpl. unfold filter_part. rewrite Hf, Hl. reflexivity.
Qed.

Lemma invalid_query_refused : forall rs eo q k,
  query_valid q = false -> build_times rs eo q (S k) [] = Err EInvalid.
Proof. intros rs eo q k Hv. apply build_times_err. unfold own_conds. rewrite Hv. reflexivity. Qed.

(* ------------------------------------------------------------------------- *)
(* frequent routes                                                            *)
(* ------------------------------------------------------------------------- *)

Fixpoint assoc (k : string) (l : list (string * Z)) : Z :=
  match l with [] => 0 | (k', c) :: t => if String.eqb k k' then c else assoc k t end.

Fixpoint occurrences (k : string) (rows : list row) : Z :=
  match rows with [] => 0 | r :: t => (if String.eqb k (r_od r) then 1 else 0) + occurrences k t end.

Lemma assoc_bump : forall k k' l, assoc k (bump k' l) = assoc k l + (if String.eqb k k' then 1 else 0).
Proof.
  intros k k' l. induction l as [|[k2 c] t IH]; simpl.
  - destruct (String.eqb k k'); lia.
  - destruct (String.eqb_spec k' k2) as [E|Hne]; simpl.
    + subst k2. destruct (String.eqb k k'); lia.
    + destruct (String.eqb_spec k k2) as [E2|Hne2].
      * subst k2. destruct (String.eqb_spec k k') as [E3|_]; [congruence | lia].
      * exact IH.
Qed.

Lemma bump_keys : forall k l x, In x (map fst (bump k l)) <-> x = k \/ In x (map fst l).
Proof.
  intros k l x. induction l as [|[k2 c] t IH]; simpl; [intuition|].
  destruct (String.eqb_spec k k2) as [->|Hne]; simpl; [intuition | rewrite IH; intuition].
Qed.

Lemma bump_nodup : forall k l, NoDup (map fst l) -> NoDup (map fst (bump k l)).
Proof.
  intros k l. induction l as [|[k2 c] t IH]; intros H; simpl.
  - constructor; [intros [] | constructor].
  - inversion H; subst. destruct (String.eqb_spec k k2) as [->|Hne]; simpl.
    + constructor; assumption.
    + constructor; [|apply IH; assumption]. rewrite bump_keys. intros [He|Hin]; [congruence | contradiction].
Qed.

Lemma bump_pos : forall k l, (forall x c, In (x, c) l -> 1 <= c) -> forall x c, In (x, c) (bump k l) -> 1 <= c.
Proof.
  intros k l. induction l as [|[k2 c2] t IH]; intros H x c Hin; simpl in Hin.
  - destruct Hin as [He|[]]. inversion He; subst. lia.
  - destruct (String.eqb k k2).
    + destruct Hin as [He|Hin].
      * pose proof (H k2 c2 (or_introl eq_refl)) as Hc. inversion He; subst. lia.
      * apply (H x c). right. exact Hin.
    + destruct Hin as [He|Hin].
      * apply (H x c). left. exact He.
      * apply IH with (x := x); [intros y d Hy; apply (H y d); right; exact Hy | exact Hin].
Qed.

Lemma tally_gen : forall rows acc,
  NoDup (map fst acc) -> (forall x c, In (x, c) acc -> 1 <= c) ->
  let res := fold_left (fun a r => bump (r_od r) a) rows acc in
  NoDup (map fst res) /\ (forall x c, In (x, c) res -> 1 <= c)
  /\ (forall k, assoc k res = assoc k acc + occurrences k rows).
Proof.
  induction rows as [|r t IH]; intros acc Hn Hp; simpl.
  - repeat split; auto. intros k. lia.
  - specialize (IH (bump (r_od r) acc) (bump_nodup _ _ Hn) (bump_pos _ _ Hp)).
    destruct IH as [H1 [H2 H3]]. repeat split; auto.
    intros k. rewrite H3, assoc_bump. lia.
Qed.

Lemma assoc_In : forall l k c, NoDup (map fst l) -> In (k, c) l -> assoc k l = c.
Proof.
  induction l as [|[k2 c2] t IH]; intros k c Hn Hin; [destruct Hin|].
  simpl in Hn. inversion Hn; subst. simpl. destruct Hin as [He|Hin].
  - inversion He; subst. rewrite String.eqb_refl. reflexivity.
  - destruct (String.eqb_spec k k2) as [->|Hne]; [|apply IH; assumption].
    exfalso. apply H1. change k2 with (fst (k2, c)). apply in_map. exact Hin.
Qed.

Lemma assoc_pos_In : forall l k, 0 < assoc k l -> In (k, assoc k l) l.
Proof.
  induction l as [|[k2 c2] t IH]; intros k H; simpl in *; [lia|].
  destruct (String.eqb_spec k k2) as [E|Hne]; [subst k2; left; reflexivity | right; apply IH; exact H].
Qed.

Lemma occurrences_nonneg : forall k rows, 0 <= occurrences k rows.
Proof. intros k rows. induction rows as [|r t IH]; simpl; [lia|]. destruct (String.eqb k (r_od r)); lia. Qed.

Lemma occurrences_pos : forall k rows, (exists r, In r rows /\ r_od r = k) -> 1 <= occurrences k rows.
Proof.
  intros k rows [r [Hin He]]. induction rows as [|x t IH]; [destruct Hin|]. simpl.
  pose proof (occurrences_nonneg k t). destruct Hin as [->|Hin].
  - subst k. rewrite String.eqb_refl. lia.
  - specialize (IH Hin). destruct (String.eqb k (r_od x)); lia.
Qed.

(* the tally: one entry per route that occurs, carrying the true number of its instances *)
Lemma tally_spec : forall rows,
  NoDup (map fst (tally rows))
  /\ (forall k c, In (k, c) (tally rows) -> c = occurrences k rows /\ 1 <= c)
  /\ (forall r, In r rows -> In (r_od r, occurrences (r_od r) rows) (tally rows)).
Proof.
  intros rows. unfold tally.
  destruct (tally_gen rows [] (NoDup_nil _) (fun x c H => match H with end)) as [H1 [H2 H3]].
  split; [exact H1|]. split.
  - intros k c Hin. split; [|eapply H2; exact Hin].
    rewrite <- (assoc_In _ _ _ H1 Hin). rewrite H3. simpl. lia.
  - intros r Hin. specialize (H3 (r_od r)). simpl in H3.
    assert (Hp : 1 <= occurrences (r_od r) rows) by (apply occurrences_pos; exists r; auto).
    rewrite <- H3. apply assoc_pos_In. lia.
Qed.

Definition count_ge (a b : string * Z) : Prop := snd b <= snd a.

Lemma insert_desc_perm : forall x l, Permutation (insert_desc x l) (x :: l).
Proof.
  intros x l. induction l as [|y t IH]; simpl; [apply Permutation_refl|].
  destruct (snd y <=? snd x); [apply Permutation_refl|].
  eapply perm_trans; [apply perm_skip; exact IH | apply perm_swap].
Qed.

Lemma sort_desc_perm : forall l, Permutation (sort_desc l) l.
Proof.
  induction l as [|x t IH]; simpl; [constructor|].
  eapply perm_trans; [apply insert_desc_perm | apply perm_skip; exact IH].
Qed.

Lemma insert_desc_sorted : forall x l, StronglySorted count_ge l -> StronglySorted count_ge (insert_desc x l).
Proof.
  intros x l H. induction H as [|y t Hs IH Hf]; simpl.
  - constructor; constructor.
  - destruct (Z.leb_spec (snd y) (snd x)) as [Hle|Hgt].
    + constructor; [constructor; assumption|].
      constructor; [exact Hle|]. rewrite Forall_forall in *. intros z Hz. specialize (Hf z Hz).
      unfold count_ge in *. lia.
    + constructor; [exact IH|]. rewrite Forall_forall in *. intros z Hz.
      apply (Permutation_in _ (insert_desc_perm x t)) in Hz. destruct Hz as [<-|Hz].
      * unfold count_ge. lia.
      * apply Hf; exact Hz.
Qed.

Lemma sort_desc_sorted : forall l, StronglySorted count_ge (sort_desc l).
Proof. induction l as [|x t IH]; simpl; [constructor | apply insert_desc_sorted; exact IH]. Qed.

Lemma firstn_sorted_gen : forall (A : Type) (R : A -> A -> Prop) n l, StronglySorted R l -> StronglySorted R (firstn n l).
Proof.
  intros A R n. induction n as [|n IH]; intros l H; simpl; [constructor|].
  destruct l as [|y t]; [constructor|].
  inversion H as [|? ? Hs Hf]; subst.
  apply SSorted_cons; [apply IH; exact Hs|].
  rewrite Forall_forall in *. intros z Hz. apply Hf. eapply firstn_incl; exact Hz.
Qed.

Lemma NoDup_app_l : forall (A : Type) (a b : list A), NoDup (a ++ b) -> NoDup a.
Proof.
  intros A a b. induction a as [|x t IH]; intros H; [constructor|].
  simpl in H. inversion H as [|? ? Hn Hd]; subst. constructor; [|apply IH; exact Hd].
  intros Hin. apply Hn. apply in_or_app. left. exact Hin.
Qed.

Lemma frequent_spec : forall coin db limit cs,
  let rows := selected coin db cs in
  let res := exec_frequent coin db limit cs in
  (forall k c, In (k, c) res -> c = occurrences k rows /\ 1 <= c)
  /\ StronglySorted count_ge res
  /\ NoDup (map fst res)
  /\ (List.length res <= Z.to_nat limit)%nat
  /\ (exists rest, sort_desc (tally rows) = res ++ rest
                   /\ forall x y, In x res -> In y rest -> snd y <= snd x)
  /\ (forall r, In r rows -> In (r_od r, occurrences (r_od r) rows) (sort_desc (tally rows))).
Proof.
  intros coin db limit cs rows res. unfold res, exec_frequent. fold rows.
  destruct (tally_spec rows) as [Hn [Hc Hall]].
  pose proof (sort_desc_perm (tally rows)) as Hp.
  pose proof (sort_desc_sorted (tally rows)) as Hs.
  repeat split.
  - apply Hc. eapply Permutation_in; [exact Hp|]. eapply firstn_incl; eauto.
  - apply (Hc k c). eapply Permutation_in; [exact Hp|]. eapply firstn_incl; eauto.
  - apply firstn_sorted_gen. exact Hs.
  - assert (Hnd : NoDup (map fst (sort_desc (tally rows)))).
    { eapply Permutation_NoDup; [apply Permutation_map, Permutation_sym; exact Hp | exact Hn]. }
    rewrite <- (firstn_skipn (Z.to_nat limit) (sort_desc (tally rows))) in Hnd.
    rewrite map_app in Hnd. apply NoDup_app_l in Hnd. exact Hnd.
  - rewrite firstn_length. lia.
  - exists (skipn (Z.to_nat limit) (sort_desc (tally rows))). split; [symmetry; apply firstn_skipn|].
    intros x y Hx Hy.
    rewrite <- (firstn_skipn (Z.to_nat limit) (sort_desc (tally rows))) in Hs.
    revert Hs Hx Hy. generalize (firstn (Z.to_nat limit) (sort_desc (tally rows))) as a.
    generalize (skipn (Z.to_nat limit) (sort_desc (tally rows))) as b.
    intros b a. induction a as [|h t IH]; intros Hs Hx Hy; [destruct Hx|].
    simpl in Hs. inversion Hs; subst. destruct Hx as [<-|Hx].
    + rewrite Forall_forall in H2. apply (H2 y). apply in_or_app. right. exact Hy.
    + apply IH; assumption.
  - intros r Hr. eapply Permutation_in; [apply Permutation_sym; exact Hp | apply Hall; exact Hr].
Qed.

(* the key under which the importer files a flight does not depend on its direction *)
Lemma od_key_sym : forall a b, od_key a b = od_key b a.
Proof.
  intros a b. unfold od_key, String.leb.
  rewrite (String.compare_antisym b a).
  destruct (String.compare a b) eqn:E; simpl; try reflexivity.
  apply String.compare_eq_iff in E. subst. reflexivity.
Qed.

(* ------------------------------------------------------------------------- *)
(* direction independence, connected to the stored key                        *)
(* ------------------------------------------------------------------------- *)

(* well-formedness of a database row: the stored route key is the direction-independent key of its two
   airports (what the importer writes: min + max of the codes; checked on every database by the harness) *)
Definition wf_row (r : row) : Prop := r_od r = od_key (r_oap r) (r_dap r).

Lemma reverse_routes_same_key : forall r1 r2, wf_row r1 -> wf_row r2 ->
  r_oap r1 = r_dap r2 -> r_dap r1 = r_oap r2 -> r_od r1 = r_od r2.
Proof. intros r1 r2 H1 H2 Ha Hb. unfold wf_row in *. rewrite H1, H2, Ha, Hb. apply od_key_sym. Qed.

Lemma occurrences_two : forall k rows r1 r2, In r1 rows -> In r2 rows -> r_sid r1 <> r_sid r2 ->
  r_od r1 = k -> r_od r2 = k -> 2 <= occurrences k rows.
Proof.
  intros k rows. induction rows as [|x t IH]; intros r1 r2 H1 H2 Hne E1 E2; [destruct H1|].
  simpl. pose proof (occurrences_nonneg k t) as Hn.
  destruct H1 as [->|H1]; destruct H2 as [->|H2].
  - congruence.
  - rewrite E1, String.eqb_refl. assert (1 <= occurrences k t) by (apply occurrences_pos; exists r2; auto). lia.
  - rewrite E2, String.eqb_refl. assert (1 <= occurrences k t) by (apply occurrences_pos; exists r1; auto). lia.
  - specialize (IH r1 r2 H1 H2 Hne E1 E2). destruct (String.eqb k (r_od x)); lia.
Qed.

(* both directions of a route are tallied together: one entry, under the common key, counting both *)
Lemma both_directions_tallied_together : forall coin db limit cs r1 r2,
  let rows := selected coin db cs in
  In r1 rows -> In r2 rows -> wf_row r1 -> wf_row r2 ->
  r_oap r1 = r_dap r2 -> r_dap r1 = r_oap r2 -> r_sid r1 <> r_sid r2 ->
  let key := od_key (r_oap r1) (r_dap r1) in
  r_od r1 = key /\ r_od r2 = key
  /\ In (key, occurrences key rows) (sort_desc (tally rows))
  /\ 2 <= occurrences key rows
  /\ (forall c, In (key, c) (exec_frequent coin db limit cs) -> c = occurrences key rows).
Proof.
  intros coin db limit cs r1 r2 rows H1 H2 W1 W2 Ha Hb Hne key.
  assert (E1 : r_od r1 = key) by exact W1.
  assert (E2 : r_od r2 = key) by (rewrite <- (reverse_routes_same_key r1 r2 W1 W2 Ha Hb); exact W1).
  destruct (frequent_spec coin db limit cs) as [Hc [_ [_ [_ [_ Hall]]]]]. fold rows in Hc, Hall.
  split; [exact E1|]. split; [exact E2|]. split.
  - specialize (Hall r1 H1). rewrite E1 in Hall. exact Hall.
  - split; [apply (occurrences_two key rows r1 r2); assumption|].
    intros c Hin. apply (Hc key c Hin).
Qed.


(* ------------------------------------------------------------------------- *)
(* witnesses                                                                  *)
(* ------------------------------------------------------------------------- *)

Definition w_row (sid dep : Z) : row :=
  Row sid dep (dep / 86400) 1 1000000000 100 "J" "738" "BOS" "US" "NA" 42364300 (-71005200)
      "LHR" "GB" "EU" 51470600 (-461941) "BOSLHR".
Definition w_db : list row := [w_row 1 1546400000; w_row 2 1546500000; w_row 3 1546600000].
Definition w_sampled : query := Query None None None None (Some (1, 2)) None None.
(* the first sampling conjunct keeps every row, every later one rejects every row *)
Definition w_coin : nat -> Z -> bool := fun i _ => Nat.eqb i 0.

Lemma sample_rebuild_witness :
  match build_times false true w_sampled 1 [], build_times false true w_sampled 2 [] with
  | Ok c1, Ok c2 => List.length (exec_query w_coin w_db w_sampled c1) = 3%nat
                    /\ List.length (exec_query w_coin w_db w_sampled c2) = 0%nat
  | _, _ => False
  end
  /\ build_times true true w_sampled 2 [] = build_times true true w_sampled 1 [].
Proof. split; [vm_compute; split; reflexivity | reflexivity]. Qed.

Definition w_illegal : fspec :=
  Filter None None None None (Some ["LHR"%string]) None None None (Some ["US"%string]) None None None None None None None None None.

Example witnesses_nonvacuous :
  filter_legal w_illegal = false
  /\ run_query false false w_db (plain (Some w_illegal)) 1 = Err EIllegalSpatialMix
  /\ run_query true true w_db (Query None (Some (2019, 1, 2)) (Some (2019, 1, 3)) None None None None) 3 = Ok [1; 2]
  /\ run_query false true w_db (Query None None None (Some 2) None (Some 5) (Some 0)) 2 = Ok [1; 3]
  /\ run_frequent true true w_db (plain None) 5 1 = Ok [("BOSLHR"%string, 3)].
Proof. repeat split; vm_compute; reflexivity. Qed.

(* C05 / FC04e — binary64 witness (kernel floats, vm_compute): the UNCLAMPED interpolated crossing latitude of the
   westward crossing segment (58.9 N, 177.3 W) -> (south pole, +180) is strictly below -pi/2, the latitude of its own
   end point; the clamped one is exactly that end latitude.  Inputs: corpus/C04/fc04e_crossing_segment_ending_on_a_pole.json *)
From Coq Require Import ZArith PrimFloat.
From AV Require Import lib.Num lib.FloatMath model.C04_Model.
Local Open Scope float_scope.

Definition w_lat0 : float := (0x1.076266ab437c3p+0).
Definition w_lon0 : float := (-0x1.8c2f07a7c85e6p+1).
Definition w_lat1 : float := (-0x1.921fb54442d18p+0).      (* -pi/2 *)
Definition w_lon1 : float := (0x1.921fb54442d18p+1).      (* +pi *)

Lemma crossing_lat_before_fix_overshoots_pole_binary64 :
  PrimFloat.ltb (@crossing_lat FNum true false 1%Z (w_lat0, w_lon0) (w_lat1, w_lon1)) w_lat1 = true.
Proof. vm_compute. reflexivity. Qed.

Lemma crossing_lat_clamped_is_end_latitude_binary64 :
  PrimFloat.eqb (@crossing_lat FNum true true 1%Z (w_lat0, w_lon0) (w_lat1, w_lon1)) w_lat1 = true.
Proof. vm_compute. reflexivity. Qed.

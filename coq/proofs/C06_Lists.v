(* C06 — list / order lemmas over the real instance of the model: sorted(unique()), drop_duplicates counts,
   the interval search of the grid interpolator. *)
From Coq Require Import List Reals Lra Lia Bool Arith.
From AV Require Import lib.Num model.C06_Model.
Import ListNotations.
Local Open Scope R_scope.

(* ---------- comparisons of RNum reflect the order of R ---------- *)
Lemma ltbR a b : @ltb RNum a b = Rltb a b. Proof. reflexivity. Qed.
Lemma lebR a b : @leb RNum a b = Rleb a b. Proof. reflexivity. Qed.
Lemma eqbR a b : @eqb RNum a b = Reqb a b. Proof. reflexivity. Qed.

Lemma Rltb_case a b : (Rltb a b = true /\ a < b) \/ (Rltb a b = false /\ b <= a).
Proof. destruct (Rltb a b) eqn:E; [left|right]; split; auto; [apply Rltb_true|apply Rltb_false]; auto. Qed.
Lemma Rleb_case a b : (Rleb a b = true /\ a <= b) \/ (Rleb a b = false /\ b < a).
Proof. destruct (Rleb a b) eqn:E; [left|right]; split; auto; [apply Rleb_true|apply Rleb_false]; auto. Qed.
Lemma Reqb_case a b : (Reqb a b = true /\ a = b) \/ (Reqb a b = false /\ a <> b).
Proof. destruct (Reqb a b) eqn:E; [left|right]; split; auto; [apply Reqb_true|apply Reqb_false]; auto. Qed.

Ltac rn := change (@ltb RNum) with Rltb in *; change (@leb RNum) with Rleb in *; change (@eqb RNum) with Reqb in *.
Ltac case_ltb a b := let H := fresh "Hcmp" in let E := fresh "Ecmp" in destruct (Rltb_case a b) as [[E H]|[E H]]; rewrite ?E in *.
Ltac case_leb a b := let H := fresh "Hcmp" in let E := fresh "Ecmp" in destruct (Rleb_case a b) as [[E H]|[E H]]; rewrite ?E in *.
Ltac case_eqb a b := let H := fresh "Hcmp" in let E := fresh "Ecmp" in destruct (Reqb_case a b) as [[E H]|[E H]]; rewrite ?E in *.

(* ---------- generic list facts ---------- *)
Lemma NoDup_app_intro {A} (l1 l2 : list A) :
  NoDup l1 -> NoDup l2 -> (forall x, In x l1 -> ~ In x l2) -> NoDup (l1 ++ l2).
Proof.
  induction l1 as [|a l1 IH]; cbn; intros H1 H2 Hd; auto.
  inversion H1; subst. constructor.
  - rewrite in_app_iff. intros [H|H]; [auto|]. apply (Hd a); auto.
  - apply IH; auto.
Qed.

Lemma NoDup_map_on {A B} (f : A -> B) (l : list A) :
  NoDup l -> (forall a b, In a l -> In b l -> f a = f b -> a = b) -> NoDup (map f l).
Proof.
  induction l as [|x l IH]; cbn; intros Hn Hi; [constructor|].
  inversion Hn; subst. constructor.
  - rewrite in_map_iff. intros [y [Hy Hin]]. assert (y = x) by (apply Hi; auto). subst; auto.
  - apply IH; auto.
Qed.

Lemma NoDup_map_eq {A B} (f : A -> B) (l : list A) a b :
  NoDup (map f l) -> In a l -> In b l -> f a = f b -> a = b.
Proof.
  induction l as [|x l IH]; cbn; [tauto|].
  intros Hn Ha Hb E. inversion Hn as [|? ? Hx Hl]; subst.
  destruct Ha as [Ha|Ha], Hb as [Hb|Hb]; subst; auto.
  - exfalso. apply Hx. rewrite E. apply in_map; auto.
  - exfalso. apply Hx. rewrite <- E. apply in_map; auto.
Qed.

Lemma NoDup_list_prod {A B} (l : list A) (l' : list B) : NoDup l -> NoDup l' -> NoDup (list_prod l l').
Proof.
  induction l as [|a l IH]; cbn; intros H1 H2; [constructor|].
  inversion H1; subst. apply NoDup_app_intro; auto.
  - apply NoDup_map_on; auto. intros x y _ _ E. now inversion E.
  - intros [x y] Hin. rewrite in_map_iff in Hin. destruct Hin as [z [Hz _]]. inversion Hz; subst.
    rewrite in_prod_iff. tauto.
Qed.

Lemma find_unique {A} (P : A -> bool) (l : list A) r :
  In r l -> P r = true -> (forall r', In r' l -> P r' = true -> r' = r) -> find P l = Some r.
Proof.
  induction l as [|x l IH]; cbn; [tauto|]. intros Hin Hp Hu.
  destruct (P x) eqn:E.
  - f_equal. apply Hu; auto.
  - destruct Hin as [->|Hin]; [congruence|]. apply IH; auto.
Qed.

Lemma length_le1_all_eq {A} (l : list A) a b : (length l <= 1)%nat -> In a l -> In b l -> a = b.
Proof.
  destruct l as [|x [|y l]]; cbn; try tauto; try lia.
  intros _ [->|[]] [->|[]]; auto.
Qed.

(* ---------- strictly ascending lists ---------- *)
Fixpoint ssorted (l : list R) : Prop :=
  match l with [] => True | a :: r => (forall b, In b r -> a < b) /\ ssorted r end.

Lemma ssorted_NoDup l : ssorted l -> NoDup l.
Proof.
  induction l as [|a l IH]; cbn; intros H; constructor.
  - intros Hin. destruct H as [H _]. specialize (H a Hin). lra.
  - apply IH, H.
Qed.

Section RN.
  Notation row := (row RNum).

  Lemma insert_u_In (x : R) l y : In y (@insert_u RNum x l) <-> y = x \/ In y l.
  Proof.
    induction l as [|a l IH]; cbn; [intuition|].
    rn. case_ltb x a; cbn; [intuition|].
    case_eqb x a; cbn; [subst; intuition | rewrite IH; intuition].
  Qed.

  Lemma insert_u_sorted (x : R) l : ssorted l -> ssorted (@insert_u RNum x l).
  Proof.
    induction l as [|a l IH]; cbn; [tauto|]. intros [Ha Hs].
    rn. case_ltb x a; cbn.
    - repeat split; auto. intros b [<-|Hb]; auto. specialize (Ha b Hb). lra.
    - case_eqb x a; cbn; [tauto|]. split; [|tauto].
      intros b Hb. apply insert_u_In in Hb as [->|Hb]; [lra|auto].
  Qed.

  Lemma uniq_sorted_In l y : In y (@uniq_sorted RNum l) <-> In y l.
  Proof.
    induction l as [|a l IH]; cbn; [tauto|].
    change (@fold_right (list R) R (@insert_u RNum) [] l) with (@uniq_sorted RNum l).
    rewrite insert_u_In, IH. intuition.
  Qed.

  Lemma uniq_sorted_sorted l : ssorted (@uniq_sorted RNum l).
  Proof.
    induction l as [|a l IH]; cbn; [tauto|]. apply insert_u_sorted, IH.
  Qed.

  Lemma uniq_sorted_NoDup l : NoDup (@uniq_sorted RNum l).
  Proof. apply ssorted_NoDup, uniq_sorted_sorted. Qed.

  Lemma uniq_sorted_nil l : @uniq_sorted RNum l = [] -> l = [].
  Proof.
    destruct l as [|a l]; auto. intros E. exfalso.
    assert (H : In a (@uniq_sorted RNum (a :: l))) by (apply uniq_sorted_In; cbn; auto).
    rewrite E in H. destruct H.
  Qed.

  (* ---------- drop_duplicates ---------- *)
  Lemma pair_eqb_true (a b : R * R) : @pair_eqb RNum a b = true <-> a = b.
  Proof.
    destruct a as [a1 a2], b as [b1 b2]. unfold pair_eqb; cbn. rn. rewrite andb_true_iff, !Reqb_true.
    split; [intros [-> ->]; auto | intros E; inversion E; auto].
  Qed.

  Lemma mem_pair_In (a : R * R) l : @mem_pair RNum a l = true <-> In a l.
  Proof.
    induction l as [|b l IH]; cbn; [intuition discriminate|].
    rewrite orb_true_iff, pair_eqb_true, IH. intuition.
  Qed.

  Lemma dedup_In (a : R * R) l : In a (@dedup_pairs RNum l) <-> In a l.
  Proof.
    induction l as [|b l IH]; cbn; [tauto|].
    destruct (@mem_pair RNum b l) eqn:E.
    - rewrite IH. split; auto. intros [<-|H]; auto. apply mem_pair_In; auto.
    - cbn. rewrite IH. tauto.
  Qed.

  Lemma dedup_NoDup l : NoDup (@dedup_pairs RNum l).
  Proof.
    induction l as [|b l IH]; cbn; [constructor|].
    destruct (@mem_pair RNum b l) eqn:E; auto. constructor; auto.
    rewrite dedup_In, <- mem_pair_In. congruence.
  Qed.

  Lemma dedup_length_le l : (length (@dedup_pairs RNum l) <= length l)%nat.
  Proof.
    induction l as [|b l IH]; [cbn; auto|]. cbn [dedup_pairs].
    destruct (@mem_pair RNum b l); cbn [length]; lia.
  Qed.

  Lemma dedup_full_NoDup l : length (@dedup_pairs RNum l) = length l -> NoDup l.
  Proof.
    induction l as [|b l IH]; [constructor|]. cbn [dedup_pairs].
    destruct (@mem_pair RNum b l) eqn:E; cbn [length]; intros H.
    - pose proof (dedup_length_le l). lia.
    - constructor; [rewrite <- mem_pair_In; congruence | apply IH; lia].
  Qed.

  Lemma NoDup_dedup_id l : NoDup l -> @dedup_pairs RNum l = l.
  Proof.
    induction l as [|b l IH]; cbn; auto. intros H. inversion H; subst.
    destruct (@mem_pair RNum b l) eqn:E; [apply mem_pair_In in E; tauto | f_equal; auto].
  Qed.

  (* ---------- the interval search ---------- *)
  Lemma bracket_spec xs (x a b y : R) :
    ssorted xs -> @bracket RNum xs x = Some (a, b, y) ->
    In a xs /\ In b xs /\ a <= x <= b /\
    ((a < b /\ y = (x - a) / (b - a)) \/ (a = b /\ y = 0)) /\
    (forall c, In c xs -> c <= a \/ b <= c).
  Proof.
    revert a b y. induction xs as [|a0 rest IH]; intros a b y Hs; cbn [bracket]; [discriminate|].
    rn. case_ltb x a0; [discriminate|].
    destruct rest as [|b0 rest'].
    - rn. case_leb x a0; [|discriminate]. intros E; inversion E; subst.
      cbn. repeat split; auto; try lra. intros c [<-|[]]; lra.
    - destruct Hs as [Ha Hs]. assert (Hab : a0 < b0) by (apply Ha; cbn; auto).
      rn. case_ltb x b0; cbn [orb].
      + intros E; inversion E; subst. cbn. repeat split; auto; try lra.
        intros c [<-|[<-|Hc]]; try lra. right. destruct Hs as [Hb _]. specialize (Hb c Hc). lra.
      + destruct rest' as [|c0 rest''].
        * rn. case_leb x b0.
          -- intros E; inversion E; subst. cbn. repeat split; auto; try lra.
             intros c [<-|[<-|[]]]; lra.
          -- intros E. apply IH in E; auto. destruct E as (Hia & Hib & Hx & _). cbn in Hia, Hib.
             destruct Hia as [<-|[]], Hib as [<-|[]]. lra.
        * intros E. apply IH in E; auto. destruct E as (Hia & Hib & Hx & Hy & Hadj).
          repeat split; try (right; assumption); try tauto.
          intros c [<-|Hc]; [|auto]. left.
          destruct Hia as [<-|Hia]; [lra|]. destruct Hs as [Hb _]. specialize (Hb a Hia). lra.
  Qed.

  Lemma bracket_none xs (x : R) :
    ssorted xs -> xs <> [] ->
    (@bracket RNum xs x = None <-> (forall c, In c xs -> x < c) \/ (forall c, In c xs -> c < x)).
  Proof.
    induction xs as [|a0 rest IH]; intros Hs Hne; [congruence|]. cbn [bracket].
    destruct Hs as [Ha Hs]. rn. case_ltb x a0.
    - split; auto. intros _. left. intros c [<-|Hc]; auto. specialize (Ha c Hc). lra.
    - destruct rest as [|b0 rest'].
      + rn. case_leb x a0.
        * split; [discriminate|]. intros [H|H]; specialize (H a0 (or_introl eq_refl)); lra.
        * split; auto. intros _. right. intros c [<-|[]]; auto.
      + assert (Hab : a0 < b0) by (apply Ha; cbn; auto).
        rn. case_ltb x b0; cbn [orb].
        * split; [discriminate|]. intros [H|H].
          -- specialize (H a0 (or_introl eq_refl)); lra.
          -- specialize (H b0 (or_intror (or_introl eq_refl))); lra.
        * assert (Hrec : @bracket RNum (b0 :: rest') x = None <->
                         (forall c, In c (a0 :: b0 :: rest') -> x < c) \/ (forall c, In c (a0 :: b0 :: rest') -> c < x)).
          { rewrite IH by (auto; discriminate). split.
            - intros [H|H]; [specialize (H b0 (or_introl eq_refl)); lra|].
              right. intros c [<-|Hc]; auto. specialize (H b0 (or_introl eq_refl)). lra.
            - intros [H|H]; [specialize (H a0 (or_introl eq_refl)); lra|].
              right. intros c Hc. apply H. right; auto. }
          destruct rest' as [|c0 rest'']; [|exact Hrec].
          rn. case_leb x b0; [|exact Hrec].
          split; [discriminate|]. intros [H|H].
          -- specialize (H a0 (or_introl eq_refl)); lra.
          -- specialize (H b0 (or_intror (or_introl eq_refl))); lra.
  Qed.

  Lemma bracket_node xs (f : R) :
    ssorted xs -> In f xs ->
    exists a b y, @bracket RNum xs f = Some (a, b, y) /\ ((a = f /\ y = 0) \/ (b = f /\ y = 1 /\ a < b)).
  Proof.
    induction xs as [|a0 rest IH]; intros Hs Hin; [destruct Hin|]. cbn [bracket].
    destruct Hs as [Ha Hs]. destruct Hin as [<-|Hin].
    - rn. case_ltb a0 a0; [lra|]. destruct rest as [|b0 rest'].
      + rn. case_leb a0 a0; [|lra]. exists a0, a0, 0. auto.
      + assert (Hab : a0 < b0) by (apply Ha; cbn; auto).
        rn. case_ltb a0 b0; [|lra]. cbn [orb].
        exists a0, b0, ((a0 - a0) / (b0 - a0)). split; auto. left. split; auto.
        change (T RNum) with R in *. field. lra.
    - assert (Haf : a0 < f) by auto. rn. case_ltb f a0; [lra|].
      destruct rest as [|b0 rest']; [destruct Hin|].
      assert (Hab : a0 < b0) by (apply Ha; cbn; auto).
      destruct Hin as [<-|Hin].
      + rn. case_ltb b0 b0; [lra|]. cbn [orb].
        destruct rest' as [|c0 rest''].
        * rn. case_leb b0 b0; [|lra].
          exists a0, b0, ((b0 - a0) / (b0 - a0)). split; auto. right. repeat split; auto. change (T RNum) with R in *. field. lra.
        * apply IH; cbn; auto.
      + destruct Hs as [Hb Hs']. assert (Hbf : b0 < f) by auto.
        rn. case_ltb f b0; [lra|]. cbn [orb].
        destruct rest' as [|c0 rest'']; [destruct Hin|].
        apply IH; cbn; auto.
  Qed.

  (* ---------- min / max by folding ---------- *)
  Lemma fold_nmin_spec (l : list R) x :
    let m := fold_left (@nmin RNum) l x in (m = x \/ In m l) /\ m <= x /\ (forall y, In y l -> m <= y).
  Proof.
    revert x. induction l as [|a l IH]; intros x; cbn; [repeat split; auto; try lra; tauto|].
    specialize (IH (@nmin RNum x a)). cbn in IH. destruct IH as (Hm & Hle & Hall).
    assert (Hn : (@nmin RNum x a = x /\ x <= a) \/ (@nmin RNum x a = a /\ a <= x)).
    { unfold nmin. rn. case_ltb a x; [right|left]; split; auto; lra. }
    destruct Hn as [[Hn Hxa]|[Hn Hxa]]; rewrite Hn in *;
      (split; [destruct Hm as [Hm|Hm]; [first [left; exact Hm | right; left; symmetry; exact Hm] | right; right; exact Hm]
              | split; [lra | intros y [<-|Hy]; [lra | auto]]]).
  Qed.

  Lemma fold_nmax_spec (l : list R) x :
    let m := fold_left (@nmax RNum) l x in (m = x \/ In m l) /\ x <= m /\ (forall y, In y l -> y <= m).
  Proof.
    revert x. induction l as [|a l IH]; intros x; cbn; [repeat split; auto; try lra; tauto|].
    specialize (IH (@nmax RNum x a)). cbn in IH. destruct IH as (Hm & Hle & Hall).
    assert (Hn : (@nmax RNum x a = x /\ a <= x) \/ (@nmax RNum x a = a /\ x <= a)).
    { unfold nmax. rn. case_ltb x a; [right|left]; split; auto; lra. }
    destruct Hn as [[Hn Hxa]|[Hn Hxa]]; rewrite Hn in *;
      (split; [destruct Hm as [Hm|Hm]; [first [left; exact Hm | right; left; symmetry; exact Hm] | right; right; exact Hm]
              | split; [lra | intros y [<-|Hy]; [lra | auto]]]).
  Qed.

End RN.

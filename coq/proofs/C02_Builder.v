(* C02 (b) — the legacy builder over the reals: bookkeeping invariants of every returned trajectory, for all
   performance / geodesic oracles that satisfy the stated hypotheses, all schedules, all step counts. *)
From Coq Require Import ZArith List Bool Lia Reals Lra Psatz.
From AV Require Import lib.Num model.C02_Model proofs.C02_Container.
Import ListNotations.
Local Open Scope R_scope.

Notation pt := (@C02_Model.pt RNum).
Notation pt0 := (@C02_Model.pt0 RNum).

(* ---- the order "q is not earlier than p along one flight" ---- *)
Definition le_pt (p q : pt) : Prop :=
  p_mass q - p_fuel q = p_mass p - p_fuel p /\ p_fuel q <= p_fuel p /\ p_mass q <= p_mass p /\
  p_time p <= p_time q /\ p_dist p <= p_dist q.

Lemma le_pt_refl : forall p, le_pt p p.
Proof. intros; unfold le_pt; repeat split; lra. Qed.
Lemma le_pt_trans : forall p q r, le_pt p q -> le_pt q r -> le_pt p r.
Proof. unfold le_pt; intros p q r (A1 & A2 & A3 & A4 & A5) (B1 & B2 & B3 & B4 & B5); repeat split; lra. Qed.

Fixpoint chain (p : pt) (l : list pt) : Prop :=
  match l with [] => True | q :: r => le_pt p q /\ chain q r end.

Lemma chain_weaken : forall l p p', le_pt p p' -> chain p' l -> chain p l.
Proof. destruct l; simpl; intros; auto. destruct H0; split; auto. eapply le_pt_trans; eauto. Qed.

Lemma last_indep : forall (l : list pt) a b, l <> [] -> last l a = last l b.
Proof.
  induction l as [|x l IH]; intros a b H; [congruence|].
  destruct l; [reflexivity|]. change (last (p :: l) a = last (p :: l) b). apply IH; congruence.
Qed.

Lemma chain_app : forall l1 p l2, chain p l1 -> chain (last l1 p) l2 -> chain p (l1 ++ l2).
Proof.
  induction l1 as [|q l1 IH]; intros p l2 H1 H2; simpl in *; auto.
  destruct H1 as (Hq & Hc). split; auto. apply IH; auto.
  destruct l1 as [|x l1]; auto.
  change (last (q :: x :: l1) p) with (last (x :: l1) p) in H2.
  rewrite (last_indep (x :: l1) q p) by congruence. exact H2.
Qed.

Lemma chain_nth : forall l p j, chain p l -> (j < length l)%nat -> le_pt p (nth j l pt0).
Proof.
  induction l as [|q l IH]; intros p j H Hj; simpl in *; try lia.
  destruct H as (Hq & Hc). destruct j; auto. eapply le_pt_trans; eauto. apply IH; auto; lia.
Qed.

Lemma chain_pairs : forall l p i j, chain p l -> (i <= j)%nat -> (j < length l)%nat ->
  le_pt (nth i l pt0) (nth j l pt0).
Proof.
  induction l as [|q l IH]; intros p i j H Hij Hj; simpl in Hj; try lia.
  destruct H as (Hq & Hc). destruct i as [|i].
  - destruct j as [|j]; [apply le_pt_refl|]. simpl. apply chain_nth; auto; lia.
  - destruct j as [|j]; try lia. simpl. apply (IH q); auto; lia.
Qed.

Lemma Forall_last : forall (P : pt -> Prop) l d, l <> [] -> Forall P l -> P (last l d).
Proof.
  induction l as [|x l IH]; intros d H HF; [congruence|]. inversion HF; subst.
  destruct l; auto. change (P (last (p :: l) d)). apply IH; auto; congruence.
Qed.

(* altitudes start + idx*delta, start + (idx+1)*delta, ... *)
Fixpoint alts (start delta : R) (l : list pt) (idx : R) : Prop :=
  match l with [] => True | q :: r => p_alt q = start + idx * delta /\ alts start delta r (idx + 1) end.

Lemma alts_nth : forall start delta l idx j, alts start delta l idx -> (j < length l)%nat ->
  p_alt (nth j l pt0) = start + (idx + INR j) * delta.
Proof.
  induction l as [|q l IH]; intros idx j H Hj; simpl in Hj; try lia.
  destruct H as (H0 & H1). destruct j as [|j].
  - simpl. rewrite H0. rnum. ring.
  - change (nth (S j) (q :: l) pt0) with (nth j l pt0). rewrite (IH (idx + 1) j) by (auto; lia).
    rewrite S_INR. rnum. ring.
Qed.

(* what the first point of a phase shares with the point the phase started from *)
Definition hd_same (p : pt) (l : list pt) : Prop :=
  match l with
  | q :: _ => p_mass q = p_mass p /\ p_fuel q = p_fuel p /\ p_time q = p_time p /\ p_dist q = p_dist p
  | [] => False
  end.

Lemma F2M_pos : 0 < @FEET_TO_METERS RNum.
Proof. unfold FEET_TO_METERS. rnum. lra. Qed.

Section BuilderProofs.
  Variable perf : nat -> rule -> R -> R -> option (R * R * R).
  Variable geo : nat -> R -> R * R * R.
  (* the envelope of the performance model: it answers only inside *)
  Variable inside : rule -> R -> R -> bool.
  Hypothesis perf_inside : forall k r a m v, perf k r a m = Some v -> inside r a m = true.
  (* what every valid table gives (PerformanceTable splits the rows by the sign of ROCD) *)
  Hypothesis climb_ok : forall k a m t r f, perf k Climb a m = Some (t, r, f) -> 0 < r /\ 0 < t.
  Hypothesis descend_ok : forall k a m t r f, perf k Descend a m = Some (t, r, f) -> r < 0 /\ 0 < t.
  Hypothesis cruise_ok : forall k a m t r f, perf k Cruise a m = Some (t, r, f) -> 0 < t /\ 0 <= f.

  Variable origin : R * R * R.          (* lon, lat, azimuth of ground_track[0] *)

  (* every stored position is the geodesic point at the stored ground distance *)
  Definition pos_ok (p : pt) : Prop :=
    (p_dist p = 0 /\ (p_lon p, p_lat p, p_az p) = origin) \/
    exists k, (p_lon p, p_lat p, p_az p) = geo k (p_dist p).

  Definition Plc (rl : rule) (q : pt) : Prop :=
    inside rl (p_alt q) (p_mass q) = true /\ 0 < p_tas q /\ pos_ok q.
  Definition Pcrz (q : pt) : Prop :=
    inside Cruise (p_alt q) (p_mass q) = true /\ pos_ok q.

  Lemma track_step_some : forall kg from step g,
    @track_step RNum geo kg from step = Some g -> 0 <= from /\ 0 <= step /\ g = geo kg (from + step).
  Proof.
    unfold track_step; intros kg from step g. rnum.
    destruct (Rltb from 0) eqn:E1; simpl; [discriminate|].
    destruct (Rltb step 0) eqn:E2; simpl; [discriminate|].
    apply Rltb_false in E1. apply Rltb_false in E2. intros H; inversion H; auto.
  Qed.

  (* ---------------- climb / descent ---------------- *)
  Section LC.
    Variable rl : rule.
    Variable lhv start delta : R.
    Hypothesis sgn : forall k a m t r f, perf k rl a m = Some (t, r, f) -> 0 <= delta / r /\ 0 < t.

    Lemma seg_fuel_nonneg : forall p a a_end, 0 <= @lc_seg_fuel RNum delta lhv p a a_end.
    Proof.
      intros p [[t r] f] [[t2 r2] f2]. unfold lc_seg_fuel, lc_seg_time. rnum.
      match goal with |- context [Rltb ?x 0] => destruct (Rltb x 0) eqn:E end.
      - lra.
      - apply Rltb_false in E. exact E.
    Qed.

    Lemma lc_inv : forall m idx p kp kg l kp' kg',
      pos_ok p ->
      @lc_loop RNum perf geo rl lhv start delta m idx p kp kg = Ok (l, kp', kg') ->
      chain p l /\ length l = S m /\ Forall (Plc rl) l /\ alts start delta l idx /\ hd_same p l.
    Proof.
      induction m as [|m IH]; intros idx p kp kg l kp' kg' Hpos H; simpl in H.
      - match type of H with context [perf kp rl ?xa ?xb] =>
          destruct (perf kp rl xa xb) as [[[t r] f]|] eqn:Ep; [|discriminate] end.
        inversion H; subst; clear H.
        destruct (sgn _ _ _ _ _ _ Ep) as (_ & Ht).
        split; [|split; [|split; [|split]]].
        + simpl. split; [|exact I]. unfold le_pt, lc_last; simpl; repeat split; lra.
        + reflexivity.
        + constructor; [|constructor]. unfold Plc, lc_last; simpl.
          split; [eapply perf_inside; eauto|split; [exact Ht|]].
          destruct Hpos as [(Hd & Ho)|(k & Hk)]; [left|right]; simpl; auto. exists k; auto.
        + simpl. split; [|exact I]. reflexivity.
        + unfold hd_same, lc_last; simpl; auto.
      - match type of H with context [perf kp rl ?xa ?xb] =>
          destruct (perf kp rl xa xb) as [a|] eqn:Ep; [|discriminate] end.
        match type of H with context [track_step ?xg ?xk ?xx ?xy] =>
          destruct (@track_step RNum xg xk xx xy) as [g0|] eqn:Eg; [|discriminate] end.
        match type of H with context [perf (S kp) rl ?xa ?xb] =>
          destruct (perf (S kp) rl xa xb) as [a_end|] eqn:Ep2; [|discriminate] end.
        match type of H with (match ?X with Ok _ => _ | Err _ => _ end) = _ =>
          destruct X as [[[l0 kp0] kg0]|e0] eqn:El; [|discriminate] end.
        inversion H; subst; clear H.
        apply track_step_some in Eg. destruct Eg as (Hfrom & Hd & Hg).
        destruct a as [[t r] f]. destruct g0 as [[lon lat] az].
        destruct (sgn _ _ _ _ _ _ Ep) as (Hst & Ht).
        pose proof (seg_fuel_nonneg p (t, r, f) a_end) as Hsf.
        assert (Hpos' : pos_ok (lc_next (@add RNum start (@mul RNum idx delta)) delta lhv p (t, r, f) (lon, lat, az) a_end)).
        { right. exists kg. exact Hg. }
        destruct (IH _ _ _ _ _ _ _ Hpos' El) as (Hc & Hl & HF & Ha & Hh).
        assert (Hle : le_pt (lc_q (@add RNum start (@mul RNum idx delta)) p (t, r, f))
                            (lc_next (@add RNum start (@mul RNum idx delta)) delta lhv p (t, r, f) (lon, lat, az) a_end)).
        { assert (Hst' : 0 <= @lc_seg_time RNum delta (t, r, f)) by exact Hst.
          assert (Hd' : 0 <= @lc_dist RNum delta (t, r, f)) by exact Hd.
          unfold le_pt, lc_q, lc_next.
          remember (@lc_dist RNum delta (t, r, f)) as dd. remember (@lc_seg_time RNum delta (t, r, f)) as st.
          remember (@lc_seg_fuel RNum delta lhv p (t, r, f) a_end) as sf.
          simpl. rnum. repeat split; lra. }
        split; [|split; [|split; [|split]]].
        + simpl. split.
          * unfold le_pt, lc_q; simpl; repeat split; lra.
          * eapply chain_weaken; eauto.
        + simpl; lia.
        + constructor; auto. unfold Plc, lc_q; simpl.
          split; [eapply perf_inside; eauto|split; [exact Ht|]].
          destruct Hpos as [(Hd0 & Ho)|(k & Hk)]; [left|right]; simpl; auto. exists k; auto.
        + simpl. split; [reflexivity|]. exact Ha.
        + unfold hd_same, lc_q; simpl; auto.
    Qed.
  End LC.

  (* ---------------- cruise ---------------- *)
  Lemma crz_inv : forall step m p kp kg l kp' kg',
    0 < p_tas p -> pos_ok p ->
    @crz_loop RNum perf geo step m p kp kg = Ok (l, kp', kg') ->
    chain p l /\ length l = m /\ Forall Pcrz l /\ Forall (fun q => p_alt q = p_alt p) l /\
    ((0 < m)%nat -> hd_same p l /\ 0 <= step).
  Proof.
    intros step. induction m as [|m IH]; intros p kp kg l kp' kg' Htas Hpos H; simpl in H.
    - inversion H; subst. simpl. repeat split; auto; lia.
    - match type of H with context [track_step ?xg ?xk ?xx ?xy] =>
        destruct (@track_step RNum xg xk xx xy) as [g0|] eqn:Eg; [|discriminate] end.
      match type of H with context [perf kp Cruise ?xa ?xb] =>
        destruct (perf kp Cruise xa xb) as [a|] eqn:Ep; [|discriminate] end.
      match type of H with (match ?X with Ok _ => _ | Err _ => _ end) = _ =>
        destruct X as [[[l0 kp0] kg0]|e0] eqn:El; [|discriminate] end.
      inversion H; subst; clear H.
      apply track_step_some in Eg. destruct Eg as (Hfrom & Hd & Hg).
      destruct a as [[t r] f]. destruct g0 as [[lon lat] az].
      destruct (cruise_ok _ _ _ _ _ _ Ep) as (Ht & Hf).
      assert (Hseg : 0 <= step / p_tas p).
      { unfold Rdiv. apply Rle_mult_inv_pos; auto. }
      assert (Hsf : 0 <= f * (step / p_tas p)) by (apply Rmult_le_pos; auto).
      assert (Htas' : 0 < p_tas (crz_next step p (lon, lat, az) (t, r, f))) by (simpl; auto).
      assert (Hpos' : pos_ok (crz_next step p (lon, lat, az) (t, r, f))).
      { right. exists kg. exact Hg. }
      destruct (IH _ _ _ _ _ _ Htas' Hpos' El) as (Hc & Hl & HF & Ha & Hh).
      assert (Hle : le_pt (crz_q p) (crz_next step p (lon, lat, az) (t, r, f))).
      { unfold le_pt, crz_q, crz_next. simpl. rnum. repeat split; lra. }
      split; [|split; [|split; [|split]]].
      + simpl. split; [unfold le_pt, crz_q; simpl; repeat split; lra|]. eapply chain_weaken; eauto.
      + simpl; lia.
      + constructor; auto. unfold Pcrz, crz_q; simpl. split; [eapply perf_inside; eauto|].
        destruct Hpos as [(Hd0 & Ho)|(k & Hk)]; [left|right]; simpl; auto. exists k; auto.
      + constructor; [reflexivity|]. eapply Forall_impl; [|exact Ha]. simpl. intros q Hq. rewrite Hq. reflexivity.
      + intros _. split; [unfold hd_same, crz_q; simpl; auto|exact Hd].
  Qed.

  (* a cruise leg of negative length (the mission is too short for climb + descent) is refused *)
  Lemma too_short_refused : forall step m p kp kg,
    step < 0 -> @crz_loop RNum perf geo step (S m) p kp kg = Err ETrack.
  Proof.
    intros step m p kp kg Hs. simpl. unfold track_step. rnum.
    replace (Rltb step 0) with true by (symmetry; apply Rltb_true; auto).
    rewrite orb_true_r. reflexivity.
  Qed.

  (* a state outside the envelope ends the flight with an error *)
  Lemma outside_envelope_refused_lc : forall rl lhv start delta m idx p kp kg,
    perf kp rl (start + idx * delta) (p_mass p) = None ->
    @lc_loop RNum perf geo rl lhv start delta m idx p kp kg = Err EPerf.
  Proof. intros. destruct m; simpl; rnum; rewrite H; reflexivity. Qed.

  Lemma outside_envelope_refused_crz : forall step m p kp kg,
    0 <= p_dist p -> 0 <= step -> perf kp Cruise (p_alt p) (p_mass p) = None ->
    @crz_loop RNum perf geo step (S m) p kp kg = Err EPerf.
  Proof.
    intros. simpl. unfold track_step. rnum.
    replace (Rltb (p_dist p) 0) with false by (symmetry; apply Rltb_false; auto).
    replace (Rltb step 0) with false by (symmetry; apply Rltb_false; auto).
    simpl. rewrite H1. reflexivity.
  Qed.
End BuilderProofs.

(* C02 (b) — the legacy builder over the reals: bookkeeping invariants of every returned trajectory, for all
   performance / geodesic oracles that satisfy the stated hypotheses, all schedules, all step counts. *)
From Coq Require Import ZArith List Bool Lia Reals Lra Psatz.
From AV Require Import lib.Num model.C02_Model proofs.C02_Container.
Import ListNotations.
Local Open Scope R_scope.

Notation pt := (@C02_Model.pt RNum).
Notation pt0 := (@C02_Model.pt0 RNum).

(* ---- the order "q is not earlier than p along one flight" ---- *)
Definition le_pt (p q : pt) : Prop :=
  p_mass q - p_fuel q = p_mass p - p_fuel p /\ p_fuel q <= p_fuel p /\ p_mass q <= p_mass p /\
  p_time p <= p_time q /\ p_dist p <= p_dist q.

Lemma le_pt_refl : forall p, le_pt p p.
Proof. intros; unfold le_pt; repeat split; lra. Qed.
Lemma le_pt_trans : forall p q r, le_pt p q -> le_pt q r -> le_pt p r.
Proof. unfold le_pt; intros p q r (A1 & A2 & A3 & A4 & A5) (B1 & B2 & B3 & B4 & B5); repeat split; lra. Qed.

Fixpoint chain (p : pt) (l : list pt) : Prop :=
  match l with [] => True | q :: r => le_pt p q /\ chain q r end.

Lemma chain_weaken : forall l p p', le_pt p p' -> chain p' l -> chain p l.
Proof. destruct l; simpl; intros; auto. destruct H0; split; auto. eapply le_pt_trans; eauto. Qed.

Lemma last_indep : forall (l : list pt) a b, l <> [] -> last l a = last l b.
Proof.
  induction l as [|x l IH]; intros a b H; [congruence|].
  destruct l; [reflexivity|]. change (last (p :: l) a = last (p :: l) b). apply IH; congruence.
Qed.

Lemma chain_app : forall l1 p l2, chain p l1 -> chain (last l1 p) l2 -> chain p (l1 ++ l2).
Proof.
  induction l1 as [|q l1 IH]; intros p l2 H1 H2; simpl in *; auto.
  destruct H1 as (Hq & Hc). split; auto. apply IH; auto.
  destruct l1 as [|x l1]; auto.
  change (last (q :: x :: l1) p) with (last (x :: l1) p) in H2.
  rewrite (last_indep (x :: l1) q p) by congruence. exact H2.
Qed.

Lemma chain_nth : forall l p j, chain p l -> (j < length l)%nat -> le_pt p (nth j l pt0).
Proof.
  induction l as [|q l IH]; intros p j H Hj; simpl in *; try lia.
  destruct H as (Hq & Hc). destruct j; auto. eapply le_pt_trans; eauto. apply IH; auto; lia.
Qed.

Lemma chain_pairs : forall l p i j, chain p l -> (i <= j)%nat -> (j < length l)%nat ->
  le_pt (nth i l pt0) (nth j l pt0).
Proof.
  induction l as [|q l IH]; intros p i j H Hij Hj; simpl in Hj; try lia.
  destruct H as (Hq & Hc). destruct i as [|i].
  - destruct j as [|j]; [apply le_pt_refl|]. simpl. apply chain_nth; auto; lia.
  - destruct j as [|j]; try lia. simpl. apply (IH q); auto; lia.
Qed.

Lemma In_last : forall (l : list pt) d, l <> [] -> In (last l d) l.
Proof.
  induction l as [|x l IH]; intros d H; [congruence|].
  destruct l as [|y l]; [left; reflexivity|]. right. change (In (last (y :: l) d) (y :: l)). apply IH; congruence.
Qed.

Lemma Forall_last : forall (P : pt -> Prop) l d, l <> [] -> Forall P l -> P (last l d).
Proof.
  induction l as [|x l IH]; intros d H HF; [congruence|]. inversion HF; subst.
  destruct l; auto. change (P (last (p :: l) d)). apply IH; auto; congruence.
Qed.

(* altitudes start + idx*delta, start + (idx+1)*delta, ... *)
Fixpoint alts (start delta : R) (l : list pt) (idx : R) : Prop :=
  match l with [] => True | q :: r => p_alt q = start + idx * delta /\ alts start delta r (idx + 1) end.

Lemma alts_nth : forall start delta l idx j, alts start delta l idx -> (j < length l)%nat ->
  p_alt (nth j l pt0) = start + (idx + INR j) * delta.
Proof.
  induction l as [|q l IH]; intros idx j H Hj; simpl in Hj; try lia.
  destruct H as (H0 & H1). destruct j as [|j].
  - simpl. rewrite H0. rnum. ring.
  - change (nth (S j) (q :: l) pt0) with (nth j l pt0). rewrite (IH (idx + 1) j) by (auto; lia).
    rewrite S_INR. rnum. ring.
Qed.

(* what the first point of a phase shares with the point the phase started from *)
Definition hd_same (p : pt) (l : list pt) : Prop :=
  match l with
  | q :: _ => p_mass q = p_mass p /\ p_fuel q = p_fuel p /\ p_time q = p_time p /\ p_dist q = p_dist p
  | [] => False
  end.

Lemma F2M_pos : 0 < @FEET_TO_METERS RNum.
Proof. unfold FEET_TO_METERS. rnum. lra. Qed.


(* ---------------- the altitude schedule of LegacyContext ---------------- *)
Definition ft3000 : R := @c3000 RNum * @FEET_TO_METERS RNum.
Definition ft7000 : R := @c7000 RNum * @FEET_TO_METERS RNum.

Lemma ft3000_val : ft3000 = 914.4.
Proof. unfold ft3000, c3000, FEET_TO_METERS. rnum. lra. Qed.
Lemma ft7000_val : ft7000 = 2133.6.
Proof. unfold ft7000, c7000, FEET_TO_METERS. rnum. lra. Qed.

Ltac case_bools H :=
  repeat match goal with
  | H' : context [if Rltb ?a ?b then _ else _] |- _ =>
      let E := fresh "E" in destruct (Rltb a b) eqn:E; [apply Rltb_true in E | apply Rltb_false in E]
  | H' : context [if Rleb ?a ?b then _ else _] |- _ =>
      let E := fresh "E" in destruct (Rleb a b) eqn:E; [apply Rleb_true in E | apply Rleb_false in E]
  end.

Lemma schedule_ok : forall o d mx s, @schedule RNum o d mx = Ok s ->
  s_clm s <= s_crz s /\ s_crz s <= mx /\ s_des_start s = s_crz s /\ s_des_end s <= s_crz s /\ 0 <= s_ddist s /\
  ((s_clm s = o + ft3000 /\ o + ft3000 < mx) \/ (s_clm s = o /\ mx <= o + ft3000)) /\
  ((s_des_end s = d + ft3000 /\ d + ft3000 < mx) \/ (s_des_end s = mx /\ mx <= d + ft3000)).
Proof.
  intros o d mx s H. unfold schedule in H.
  change (@c3000 RNum * @FEET_TO_METERS RNum)%num with ft3000 in H.
  change (@c7000 RNum * @FEET_TO_METERS RNum)%num with ft7000 in H.
  pose proof ft3000_val as V3. pose proof ft7000_val as V7.
  unfold c1823, c0 in H. rnum. cbv zeta in H.
  case_bools H; try discriminate; inversion H; subst; clear H; simpl;
    (split; [try lra|split; [try lra|split; [try lra|split; [try lra|split; [try lra|split]]]]]);
    try first [left; split; lra | right; split; lra].
Qed.

(* an airport above the ceiling, or a destination whose +3000 ft level is above the cruise level: refused *)
Lemma origin_above_ceiling_refused : forall o d mx, mx < o -> @schedule RNum o d mx = Err ESchedule.
Proof.
  intros o d mx Ho. destruct (@schedule RNum o d mx) as [s|e] eqn:E.
  - apply schedule_ok in E. pose proof ft3000_val. lra.
  - unfold schedule in E. destruct e; auto; exfalso;
      repeat match type of E with (if ?c then _ else _) = _ => destruct c end; discriminate.
Qed.

Lemma destination_above_cruise_refused : forall o d mx,
  o + ft3000 <= mx - ft7000 -> mx - ft7000 < d + ft3000 -> @schedule RNum o d mx = Err ESchedule.
Proof.
  intros o d mx Ho Hd. destruct (@schedule RNum o d mx) as [s|e] eqn:E.
  - exfalso. pose proof E as E0. apply schedule_ok in E. pose proof ft3000_val as V3. pose proof ft7000_val as V7.
    (* the cruise level of an ordinary origin is ceiling - 7000 ft *)
    assert (Hc : s_crz s = mx - ft7000).
    { unfold schedule in E0.
      change (@c3000 RNum * @FEET_TO_METERS RNum)%num with ft3000 in E0.
      change (@c7000 RNum * @FEET_TO_METERS RNum)%num with ft7000 in E0.
      unfold c1823, c0 in E0. rnum. cbv zeta in E0.
      case_bools E0; try discriminate; inversion E0; subst; simpl; lra. }
    lra.
  - unfold schedule in E. destruct e; auto; exfalso;
      repeat match type of E with (if ?c then _ else _) = _ => destruct c end; discriminate.
Qed.

Lemma div_nonneg_pos : forall a b, 0 <= a -> 0 < b -> 0 <= a / b.
Proof. intros. unfold Rdiv. apply Rle_mult_inv_pos; auto. Qed.
Lemma div_nonpos_neg : forall a b, a <= 0 -> b < 0 -> 0 <= a / b.
Proof. intros. replace (a / b) with ((- a) / (- b)) by (field; lra). apply div_nonneg_pos; lra. Qed.

Lemma div_nonpos_pos : forall a b, a <= 0 -> 0 < b -> a / b <= 0.
Proof.
  intros. replace (a / b) with (- ((- a) / b)) by (field; lra).
  assert (0 <= (- a) / b) by (apply div_nonneg_pos; lra). lra.
Qed.

Lemma div_nonneg_inv : forall e b, 0 < b -> 0 <= e / b -> 0 <= e.
Proof. intros e b Hb H. replace e with (e / b * b) by (field; lra). apply Rmult_le_pos; lra. Qed.

Lemma nm1_INR : forall n, @nm1 RNum n = INR (Nat.pred n).
Proof. intros. unfold nm1. rnum. rewrite INR_IZR_INZ. reflexivity. Qed.
Lemma nm1_pos : forall n, (2 <= n)%nat -> 0 < @nm1 RNum n.
Proof. intros. rewrite nm1_INR. apply lt_0_INR. lia. Qed.

(* an affine altitude profile from [s] to [e] in n - 1 equal steps *)
Lemma affine_up : forall s e n i j, (2 <= n)%nat -> s <= e -> (i <= j)%nat -> (j <= Nat.pred n)%nat ->
  let dl := (e - s) / INR (Nat.pred n) in
  s + (0 + INR i) * dl <= s + (0 + INR j) * dl /\ s <= s + (0 + INR i) * dl /\ s + (0 + INR j) * dl <= e.
Proof.
  intros s e n i j Hn Hse Hij Hj dl.
  assert (Hp : 0 < INR (Nat.pred n)) by (apply lt_0_INR; lia).
  assert (Hd : 0 <= dl) by (apply div_nonneg_pos; lra).
  assert (Hi : 0 <= INR i) by apply pos_INR.
  assert (Hij' : INR i <= INR j) by (apply le_INR; auto).
  assert (Hjn : INR j <= INR (Nat.pred n)) by (apply le_INR; auto).
  assert (He : INR (Nat.pred n) * dl = e - s) by (unfold dl; field; lra).
  repeat split; nra.
Qed.

Lemma affine_down : forall s e n i j, (2 <= n)%nat -> e <= s -> (i <= j)%nat -> (j <= Nat.pred n)%nat ->
  let dl := (e - s) / INR (Nat.pred n) in
  s + (0 + INR j) * dl <= s + (0 + INR i) * dl /\ s + (0 + INR i) * dl <= s /\ e <= s + (0 + INR j) * dl.
Proof.
  intros s e n i j Hn Hse Hij Hj dl.
  assert (Hp : 0 < INR (Nat.pred n)) by (apply lt_0_INR; lia).
  assert (Hd : dl <= 0).
  { unfold dl. replace ((e - s) / INR (Nat.pred n)) with (- ((s - e) / INR (Nat.pred n))) by (field; lra).
    assert (0 <= (s - e) / INR (Nat.pred n)) by (apply div_nonneg_pos; lra). lra. }
  assert (Hi : 0 <= INR i) by apply pos_INR.
  assert (Hij' : INR i <= INR j) by (apply le_INR; auto).
  assert (Hjn : INR j <= INR (Nat.pred n)) by (apply le_INR; auto).
  assert (He : INR (Nat.pred n) * dl = e - s) by (unfold dl; field; lra).
  repeat split; nra.
Qed.

Lemma affine_end : forall s e n, (2 <= n)%nat -> s + (0 + INR (Nat.pred n)) * ((e - s) / INR (Nat.pred n)) = e.
Proof. intros. assert (0 < INR (Nat.pred n)) by (apply lt_0_INR; lia). field. lra. Qed.

Section BuilderProofs.
  Variable perf : nat -> rule -> R -> R -> option (R * R * R).
  Variable geo : nat -> R -> R * R * R.
  (* the envelope of the performance model: it answers only inside *)
  Variable inside : rule -> R -> R -> bool.
  Hypothesis perf_inside : forall k r a m v, perf k r a m = Some v -> inside r a m = true.
  (* what every valid table gives (PerformanceTable splits the rows by the sign of ROCD) *)
  Hypothesis climb_ok : forall k a m t r f, perf k Climb a m = Some (t, r, f) -> 0 < r /\ 0 < t.
  Hypothesis descend_ok : forall k a m t r f, perf k Descend a m = Some (t, r, f) -> r < 0 /\ 0 < t.
  Hypothesis cruise_ok : forall k a m t r f, perf k Cruise a m = Some (t, r, f) -> 0 < t /\ 0 <= f.

  Variable origin : R * R * R.          (* lon, lat, azimuth of ground_track[0] *)
  (* ground speed under wind (C16's oracle): whatever it answers is positive *)
  Variable gsp : nat -> R -> option R.
  Variable use_wx : bool.
  Hypothesis wind_ok : forall k t g, gsp k t = Some g -> 0 < g.

  (* every stored position is the geodesic point at the stored ground distance *)
  Definition pos_ok (p : pt) : Prop :=
    (p_dist p = 0 /\ (p_lon p, p_lat p, p_az p) = origin) \/
    exists k, (p_lon p, p_lat p, p_az p) = geo k (p_dist p).

  Definition Plc (rl : rule) (q : pt) : Prop :=
    inside rl (p_alt q) (p_mass q) = true /\ 0 < p_tas q /\ pos_ok q.
  Definition Pcrz (q : pt) : Prop :=
    inside Cruise (p_alt q) (p_mass q) = true /\ pos_ok q.

  Lemma track_step_some : forall kg from step g,
    @track_step RNum geo kg from step = Some g -> 0 <= from /\ 0 <= step /\ g = geo kg (from + step).
  Proof.
    unfold track_step; intros kg from step g. rnum.
    destruct (Rltb from 0) eqn:E1; simpl; [discriminate|].
    destruct (Rltb step 0) eqn:E2; simpl; [discriminate|].
    apply Rltb_false in E1. apply Rltb_false in E2. intros H; inversion H; auto.
  Qed.

  Lemma ground_speed_ok : forall total kg dist tas g,
    @ground_speed RNum gsp use_wx total kg dist tas = Ok g -> (0 <= tas -> 0 <= g) /\ (0 < tas -> 0 < g).
  Proof.
    unfold ground_speed; intros total kg dist tas g H. destruct use_wx.
    - destruct ((dist <? zero)%num || (total <? dist)%num); [discriminate|].
      destruct (gsp kg tas) as [g0|] eqn:E; [|discriminate]. inversion H; subst.
      pose proof (wind_ok _ _ _ E). split; intros; lra.
    - inversion H; subst. auto.
  Qed.

  (* ---------------- climb / descent ---------------- *)
  Section LC.
    Variable rl : rule.
    Variable lhv start delta total : R.
    Hypothesis sgn : forall k a m t r f, perf k rl a m = Some (t, r, f) -> 0 <= delta / r /\ 0 < t.

    Lemma seg_fuel_nonneg : forall p a a_end, 0 <= @lc_seg_fuel RNum delta lhv p a a_end.
    Proof.
      intros p [[t r] f] [[t2 r2] f2]. unfold lc_seg_fuel, lc_seg_time. rnum.
      match goal with |- context [Rltb ?x 0] => destruct (Rltb x 0) eqn:E end.
      - lra.
      - apply Rltb_false in E. exact E.
    Qed.

    Lemma lc_inv : forall m idx p kp kg l kp' kg',
      pos_ok p ->
      @lc_loop RNum perf geo gsp use_wx rl lhv start delta total m idx p kp kg = Ok (l, kp', kg') ->
      chain p l /\ length l = S m /\ Forall (Plc rl) l /\ alts start delta l idx /\ hd_same p l.
    Proof.
      induction m as [|m IH]; intros idx p kp kg l kp' kg' Hpos H; simpl in H.
      - match type of H with context [perf kp rl ?xa ?xb] =>
          destruct (perf kp rl xa xb) as [[[t r] f]|] eqn:Ep; [|discriminate] end.
        inversion H; subst; clear H.
        destruct (sgn _ _ _ _ _ _ Ep) as (_ & Ht).
        split; [|split; [|split; [|split]]].
        + simpl. split; [|exact I]. unfold le_pt, lc_last; simpl; repeat split; lra.
        + reflexivity.
        + constructor; [|constructor]. unfold Plc, lc_last; simpl.
          split; [eapply perf_inside; eauto|split; [exact Ht|]].
          destruct Hpos as [(Hd & Ho)|(k & Hk)]; [left|right]; simpl; auto. exists k; auto.
        + simpl. split; [|exact I]. reflexivity.
        + unfold hd_same, lc_last; simpl; auto.
      - match type of H with context [perf kp rl ?xa ?xb] =>
          destruct (perf kp rl xa xb) as [a|] eqn:Ep; [|discriminate] end.
        match type of H with context [@ground_speed RNum gsp use_wx ?x1 ?x2 ?x3 ?x4] =>
          destruct (@ground_speed RNum gsp use_wx x1 x2 x3 x4) as [gs|eg] eqn:Egs; [|discriminate] end.
        match type of H with context [track_step ?xg ?xk ?xx ?xy] =>
          destruct (@track_step RNum xg xk xx xy) as [g0|] eqn:Eg; [|discriminate] end.
        match type of H with context [perf (S kp) rl ?xa ?xb] =>
          destruct (perf (S kp) rl xa xb) as [a_end|] eqn:Ep2; [|discriminate] end.
        match type of H with (match ?X with Ok _ => _ | Err _ => _ end) = _ =>
          destruct X as [[[l0 kp0] kg0]|e0] eqn:El; [|discriminate] end.
        inversion H; subst; clear H.
        apply track_step_some in Eg. destruct Eg as (Hfrom & Hd & Hg).
        destruct a as [[t r] f]. destruct g0 as [[lon lat] az].
        destruct (sgn _ _ _ _ _ _ Ep) as (Hst & Ht).
        pose proof (seg_fuel_nonneg p (t, r, f) a_end) as Hsf.
        assert (Hpos' : pos_ok (lc_next (@add RNum start (@mul RNum idx delta)) delta lhv p (t, r, f) gs (lon, lat, az) a_end)).
        { right. exists kg. exact Hg. }
        destruct (IH _ _ _ _ _ _ _ Hpos' El) as (Hc & Hl & HF & Ha & Hh).
        assert (Hle : le_pt (lc_q (@add RNum start (@mul RNum idx delta)) p (t, r, f) gs)
                            (lc_next (@add RNum start (@mul RNum idx delta)) delta lhv p (t, r, f) gs (lon, lat, az) a_end)).
        { assert (Hst' : 0 <= @lc_seg_time RNum delta (t, r, f)) by exact Hst.
          assert (Hd' : 0 <= @lc_dist RNum delta (t, r, f) gs) by exact Hd.
          unfold le_pt, lc_q, lc_next.
          remember (@lc_dist RNum delta (t, r, f) gs) as dd. remember (@lc_seg_time RNum delta (t, r, f)) as st.
          remember (@lc_seg_fuel RNum delta lhv p (t, r, f) a_end) as sf.
          simpl. rnum. repeat split; lra. }
        split; [|split; [|split; [|split]]].
        + simpl. split.
          * unfold le_pt, lc_q; simpl; repeat split; lra.
          * eapply chain_weaken; eauto.
        + simpl; lia.
        + constructor; auto. unfold Plc, lc_q; simpl.
          split; [eapply perf_inside; eauto|split; [exact Ht|]].
          destruct Hpos as [(Hd0 & Ho)|(k & Hk)]; [left|right]; simpl; auto. exists k; auto.
        + simpl. split; [reflexivity|]. exact Ha.
        + unfold hd_same, lc_q; simpl; auto.
    Qed.
  End LC.

  (* ---------------- cruise ---------------- *)
  Lemma crz_inv : forall (step total : R) m (p : pt) kp kg l kp' kg',
    0 < p_tas p -> pos_ok p ->
    @crz_loop RNum perf geo gsp use_wx step total m p kp kg = Ok (l, kp', kg') ->
    chain p l /\ length l = m /\ Forall Pcrz l /\ Forall (fun q => p_alt q = p_alt p) l /\
    ((0 < m)%nat -> hd_same p l /\ 0 <= step).
  Proof.
    intros step total. induction m as [|m IH]; intros p kp kg l kp' kg' Htas Hpos H; simpl in H.
    - inversion H; subst. simpl. repeat split; auto; lia.
    - match type of H with context [@ground_speed RNum gsp use_wx ?x1 ?x2 ?x3 ?x4] =>
        destruct (@ground_speed RNum gsp use_wx x1 x2 x3 x4) as [gs|eg] eqn:Egs; [|discriminate] end.
      destruct (ground_speed_ok _ _ _ _ _ Egs) as (_ & Hgs). specialize (Hgs Htas).
      match type of H with context [track_step ?xg ?xk ?xx ?xy] =>
        destruct (@track_step RNum xg xk xx xy) as [g0|] eqn:Eg; [|discriminate] end.
      match type of H with context [perf kp Cruise ?xa ?xb] =>
        destruct (perf kp Cruise xa xb) as [a|] eqn:Ep; [|discriminate] end.
      match type of H with (match ?X with Ok _ => _ | Err _ => _ end) = _ =>
        destruct X as [[[l0 kp0] kg0]|e0] eqn:El; [|discriminate] end.
      inversion H; subst; clear H.
      apply track_step_some in Eg. destruct Eg as (Hfrom & Hd & Hg).
      destruct a as [[t r] f]. destruct g0 as [[lon lat] az].
      destruct (cruise_ok _ _ _ _ _ _ Ep) as (Ht & Hf).
      assert (Hseg : 0 <= step / gs).
      { unfold Rdiv. apply Rle_mult_inv_pos; auto. }
      assert (Hsf : 0 <= f * (step / gs)) by (apply Rmult_le_pos; auto).
      assert (Htas' : 0 < p_tas (@crz_next RNum step p gs (lon, lat, az) (t, r, f))) by (simpl; auto).
      assert (Hpos' : pos_ok (@crz_next RNum step p gs (lon, lat, az) (t, r, f))).
      { right. exists kg. exact Hg. }
      destruct (IH _ _ _ _ _ _ Htas' Hpos' El) as (Hc & Hl & HF & Ha & Hh).
      assert (Hle : le_pt (crz_q p gs) (@crz_next RNum step p gs (lon, lat, az) (t, r, f))).
      { unfold le_pt, crz_q, crz_next. simpl. rnum. repeat split; lra. }
      split; [|split; [|split; [|split]]].
      + simpl. split; [unfold le_pt, crz_q; simpl; repeat split; lra|]. eapply chain_weaken; eauto.
      + simpl; lia.
      + constructor; auto. unfold Pcrz, crz_q; simpl. split; [eapply perf_inside; eauto|].
        destruct Hpos as [(Hd0 & Ho)|(k & Hk)]; [left|right]; simpl; auto. exists k; auto.
      + constructor; [reflexivity|]. eapply Forall_impl; [|exact Ha]. simpl. intros q Hq. rewrite Hq. reflexivity.
      + intros _. split; [unfold hd_same, crz_q; simpl; auto|exact Hd].
  Qed.

  (* a cruise leg of negative length (the mission is too short for climb + descent) is refused *)
  Lemma too_short_refused : forall (step total : R) m (p : pt) kp kg,
    step < 0 -> exists e, @crz_loop RNum perf geo gsp use_wx step total (S m) p kp kg = Err e.
  Proof.
    intros step total m p kp kg Hs. simpl.
    destruct (@ground_speed RNum gsp use_wx total kg (p_dist p) (p_tas p)) as [gs|e]; [|eexists; reflexivity].
    unfold track_step. rnum.
    replace (Rltb step 0) with true by (symmetry; apply Rltb_true; auto).
    rewrite orb_true_r. eexists; reflexivity.
  Qed.

  (* a state outside the envelope ends the flight with an error *)
  Lemma outside_envelope_refused_lc : forall rl (lhv start delta total : R) m (idx : R) (p : pt) kp kg,
    perf kp rl (start + idx * delta) (p_mass p) = None ->
    @lc_loop RNum perf geo gsp use_wx rl lhv start delta total m idx p kp kg = Err EPerf.
  Proof. intros. destruct m; simpl; rnum; rewrite H; reflexivity. Qed.

  Lemma outside_envelope_refused_crz : forall (step total : R) m (p : pt) kp kg,
    perf kp Cruise (p_alt p) (p_mass p) = None ->
    exists e, @crz_loop RNum perf geo gsp use_wx step total (S m) p kp kg = Err e.
  Proof.
    intros. simpl.
    destruct (@ground_speed RNum gsp use_wx total kg (p_dist p) (p_tas p)) as [gs|e]; [|eexists; reflexivity].
    destruct (@track_step RNum geo kg (p_dist p) step); [|eexists; reflexivity].
    rewrite H. eexists; reflexivity.
  Qed.

  (* ---------------- one whole flight iteration (hand-over = last point) ---------------- *)
  Notation flight := (@C02_Model.flight RNum).
  Notation sched := (@C02_Model.sched RNum).
  Notation traj := (@C02_Model.traj RNum).

  Definition sched_ok (s : sched) : Prop :=
    s_clm s <= s_crz s /\ s_des_end s <= s_des_start s /\ s_des_start s = s_crz s.

  Lemma hand_last : forall l : list pt, l <> [] -> @hand RNum true l = Ok (last l pt0).
  Proof. intros l H. unfold hand. rewrite (handover_takes_last_point pt pt0 l H). reflexivity. Qed.

  Lemma length_nonnil : forall (l : list pt) n, length l = S n -> l <> [].
  Proof. intros l n H E; subst; discriminate. Qed.

  Record flight_facts (f : flight) (s : sched) (sm tf : R) (t : traj) : Prop := mkfacts {
    ff_chain : chain (start_point f s sm tf) (points t);
    ff_hd : hd_same (start_point f s sm tf) (points t);
    ff_n1 : length (t_climb t) = f_n_clm f;
    ff_n2 : length (t_cruise t) = f_n_crz f;
    ff_n3 : length (t_descent t) = f_n_des f;
    ff_env1 : Forall (Plc Climb) (t_climb t);
    ff_env2 : Forall Pcrz (t_cruise t);
    ff_env3 : Forall (Plc Descend) (t_descent t);
    ff_alt1 : alts (s_clm s) ((s_crz s - s_clm s) / INR (Nat.pred (f_n_clm f))) (t_climb t) 0;
    ff_alt2 : Forall (fun q => p_alt q = s_crz s) (t_cruise t);
    ff_alt3 : alts (s_des_start s) ((s_des_end s - s_des_start s) / INR (Nat.pred (f_n_des f))) (t_descent t) 0;
    (* the cruise leg has non-negative length: climb and estimated descent fit into the route *)
    ff_long_enough : p_dist (last (t_climb t) pt0) <= f_total f - s_ddist s }.

  Theorem fly_iteration_facts : forall (f : flight) (s : sched) (sm tf : R) kp kg t r kp' kg',
    sched_ok s -> (2 <= f_n_clm f)%nat -> (2 <= f_n_crz f)%nat -> (2 <= f_n_des f)%nat ->
    origin = (f_o_lon f, f_o_lat f, f_az0 f) ->
    @fly_iteration RNum perf geo true gsp use_wx f s sm tf kp kg = Ok (t, r, kp', kg') ->
    flight_facts f s sm tf t /\ r = (tf - (sm - p_mass (last (points t) pt0))) / tf.
  Proof.
    intros f s sm tf kp kg t r kp' kg' (Hs1 & Hs2 & Hs3) Hn1 Hn2 Hn3 Ho H.
    unfold fly_iteration in H.
    set (p0 := start_point f s sm tf) in *.
    assert (Hp0 : pos_ok p0) by (left; split; [reflexivity|symmetry; exact Ho]).
    pose proof (nm1_pos _ Hn1) as Hm1. pose proof (nm1_pos _ Hn3) as Hm3.
    (* climb *)
    match type of H with (match ?X with Ok _ => _ | Err _ => _ end) = _ =>
      destruct X as [[[l1 kp1] kg1]|e0] eqn:E1; [|discriminate] end.
    apply lc_inv in E1; auto.
    2:{ intros k a m t0 r0 f0 Hp. destruct (climb_ok _ _ _ _ _ _ Hp) as (Hr & Ht). split; auto.
        apply div_nonneg_pos; auto. apply div_nonneg_pos; auto. rnum. lra. }
    destruct E1 as (C1 & L1 & F1 & A1 & H1).
    assert (N1 : l1 <> []) by (eapply length_nonnil; eauto).
    rewrite (hand_last l1 N1) in H.
    set (h1 := last l1 pt0) in *.
    assert (Hh1 : Plc Climb h1) by (apply Forall_last; auto).
    destruct Hh1 as (_ & Htas1 & Hpos1).
    (* cruise *)
    match type of H with (match ?X with Ok _ => _ | Err _ => _ end) = _ =>
      destruct X as [[[l2 kp2] kg2]|e0] eqn:E2; [|discriminate] end.
    apply crz_inv in E2; [|exact Htas1|].
    2:{ destruct Hpos1 as [(Hd0 & Ho1)|(k & Hk)]; [left|right]; simpl; auto. exists k; auto. }
    destruct E2 as (C2 & L2 & F2 & A2 & H2).
    assert (N12 : l1 ++ l2 <> []) by (destruct l1; [congruence|discriminate]).
    rewrite (hand_last _ N12) in H.
    set (h2 := last (l1 ++ l2) pt0) in *.
    (* descent *)
    match type of H with (match ?X with Ok _ => _ | Err _ => _ end) = _ =>
      destruct X as [[[l3 kp3] kg3]|e0] eqn:E3; [|discriminate] end.
    assert (Hh2 : pos_ok h2).
    { assert (HF : Forall pos_ok (l1 ++ l2)).
      { apply Forall_app; split.
        - eapply Forall_impl; [|exact F1]. intros q (_ & _ & Hq); exact Hq.
        - eapply Forall_impl; [|exact F2]. intros q (_ & Hq); exact Hq. }
      apply Forall_last; auto. }
    apply lc_inv in E3; auto.
    2:{ intros k a m t0 r0 f0 Hp. destruct (descend_ok _ _ _ _ _ _ Hp) as (Hr & Ht). split; auto.
        apply div_nonpos_neg; auto. apply div_nonpos_pos; auto. rnum. lra. }
    destruct E3 as (C3 & L3 & F3 & A3 & H3).
    inversion H; subst t r kp' kg'; clear H.
    split; [|reflexivity].
    (* the chain across the two hand-overs *)
    assert (Cc : chain h1 l2).
    { eapply chain_weaken; [|exact C2]. unfold le_pt, crz_entry; simpl; repeat split; lra. }
    assert (C12 : chain p0 (l1 ++ l2)).
    { apply chain_app; auto. rewrite (last_indep l1 p0 pt0 N1). exact Cc. }
    assert (C123 : chain p0 ((l1 ++ l2) ++ l3)).
    { apply chain_app; auto. rewrite (last_indep (l1 ++ l2) p0 pt0 N12). exact C3. }
    constructor; unfold points; simpl.
    - rewrite app_assoc. exact C123.
    - destruct l1; [congruence|]. exact H1.
    - rewrite L1. lia.
    - rewrite L2. reflexivity.
    - rewrite L3. lia.
    - exact F1.
    - exact F2.
    - exact F3.
    - rewrite <- nm1_INR. exact A1.
    - eapply Forall_impl; [|exact A2]. intros q Hq. rewrite Hq. reflexivity.
    - rewrite <- nm1_INR. exact A3.
    - destruct (H2 ltac:(lia)) as (_ & Hstep).
      assert (Hm2 : 0 < INR (Nat.pred (f_n_crz f))) by (apply lt_0_INR; lia).
      fold h1. rewrite nm1_INR in Hstep. unfold crz_entry in Hstep. cbn [p_dist] in Hstep.
      revert Hstep. rnum. intros Hstep.
      apply (div_nonneg_inv _ _ Hm2) in Hstep. lra.
  Qed.

  (* ---------------- what follows for the returned points ---------------- *)
  Section Consequences.
    Variables (f : flight) (s : sched) (sm tf : R) (t : traj).
    Hypothesis facts : flight_facts f s sm tf t.
    Hypothesis sok : sched_ok s.
    Hypothesis n1 : (2 <= f_n_clm f)%nat.
    Hypothesis n3 : (2 <= f_n_des f)%nat.

    Lemma start_le_all : forall q, In q (points t) -> le_pt (start_point f s sm tf) q.
    Proof.
      intros q Hq. destruct (In_nth _ _ pt0 Hq) as (j & Hj & <-).
      apply chain_nth; auto. apply (ff_chain _ _ _ _ _ facts).
    Qed.

    Theorem mass_minus_fuel_is_constant : forall q, In q (points t) -> p_mass q - p_fuel q = sm - tf.
    Proof. intros q Hq. destruct (start_le_all q Hq) as (H & _). exact H. Qed.

    Theorem bookkeeping_monotone : forall i j, (i <= j)%nat -> (j < length (points t))%nat ->
      let p := nth i (points t) pt0 in let q := nth j (points t) pt0 in
      p_fuel q <= p_fuel p /\ p_mass q <= p_mass p /\ p_time p <= p_time q /\ p_dist p <= p_dist q.
    Proof.
      intros i j Hij Hj p q.
      destruct (chain_pairs _ _ i j (ff_chain _ _ _ _ _ facts) Hij Hj) as (_ & H2 & H3 & H4 & H5). auto.
    Qed.

    Theorem first_point_is_the_start :
      let q := nth 0 (points t) pt0 in
      p_mass q = sm /\ p_fuel q = tf /\ p_time q = 0 /\ p_dist q = 0 /\ p_alt q = s_clm s.
    Proof.
      pose proof (ff_hd _ _ _ _ _ facts) as H. pose proof (ff_alt1 _ _ _ _ _ facts) as A.
      pose proof (ff_n1 _ _ _ _ _ facts) as L.
      unfold points in *. destruct (t_climb t) as [|q l]; simpl in L; [lia|].
      simpl in *. destruct H as (H1 & H2 & H3 & H4). destruct A as (A1 & _).
      repeat split; auto. rewrite A1. rnum. ring.
    Qed.

    Theorem positions_on_track : Forall pos_ok (points t).
    Proof.
      unfold points. apply Forall_app; split; [|apply Forall_app; split].
      - eapply Forall_impl; [|exact (ff_env1 _ _ _ _ _ facts)]. intros q (_ & _ & Hq); exact Hq.
      - eapply Forall_impl; [|exact (ff_env2 _ _ _ _ _ facts)]. intros q (_ & Hq); exact Hq.
      - eapply Forall_impl; [|exact (ff_env3 _ _ _ _ _ facts)]. intros q (_ & _ & Hq); exact Hq.
    Qed.

    Theorem points_inside_envelope :
      Forall (fun q : pt => inside Climb (p_alt q) (p_mass q) = true) (t_climb t) /\
      Forall (fun q : pt => inside Cruise (p_alt q) (p_mass q) = true) (t_cruise t) /\
      Forall (fun q : pt => inside Descend (p_alt q) (p_mass q) = true) (t_descent t).
    Proof.
      split; [|split].
      - eapply Forall_impl; [|exact (ff_env1 _ _ _ _ _ facts)]. intros q (Hq & _); exact Hq.
      - eapply Forall_impl; [|exact (ff_env2 _ _ _ _ _ facts)]. intros q (Hq & _); exact Hq.
      - eapply Forall_impl; [|exact (ff_env3 _ _ _ _ _ facts)]. intros q (Hq & _); exact Hq.
    Qed.

    Theorem climb_altitudes : forall i j, (i <= j)%nat -> (j < f_n_clm f)%nat ->
      let a k := p_alt (nth k (t_climb t) pt0) in
      a i <= a j /\ s_clm s <= a i /\ a j <= s_crz s /\ a 0%nat = s_clm s /\ a (Nat.pred (f_n_clm f)) = s_crz s.
    Proof.
      intros i j Hij Hj a. destruct sok as (S1 & S2 & S3).
      pose proof (ff_alt1 _ _ _ _ _ facts) as A. pose proof (ff_n1 _ _ _ _ _ facts) as L.
      unfold a. rewrite !(alts_nth _ _ _ _ _ A) by lia.
      destruct (affine_up (s_clm s) (s_crz s) (f_n_clm f) i j n1 S1 Hij ltac:(lia)) as (B1 & B2 & B3).
      repeat split; auto.
      - simpl. lra.
      - apply affine_end; auto.
    Qed.

    Theorem cruise_altitude : forall q : pt, In q (t_cruise t) -> p_alt q = s_crz s.
    Proof. intros q Hq. pose proof (ff_alt2 _ _ _ _ _ facts) as A. rewrite Forall_forall in A. auto. Qed.

    Theorem descent_altitudes : forall i j, (i <= j)%nat -> (j < f_n_des f)%nat ->
      let a k := p_alt (nth k (t_descent t) pt0) in
      a j <= a i /\ a i <= s_crz s /\ s_des_end s <= a j /\ a 0%nat = s_crz s /\ a (Nat.pred (f_n_des f)) = s_des_end s.
    Proof.
      intros i j Hij Hj a. destruct sok as (S1 & S2 & S3).
      pose proof (ff_alt3 _ _ _ _ _ facts) as A. pose proof (ff_n3 _ _ _ _ _ facts) as L.
      unfold a. rewrite !(alts_nth _ _ _ _ _ A) by lia.
      destruct (affine_down (s_des_start s) (s_des_end s) (f_n_des f) i j n3 S2 Hij ltac:(lia)) as (B1 & B2 & B3).
      rewrite <- S3. repeat split; auto.
      - simpl. lra.
      - apply affine_end; auto.
    Qed.
  End Consequences.

  (* ---------------- mass iteration ---------------- *)
  Lemma iterate_S : forall (f : flight) (s : sched) (reltol : R) k t r sm tf kp kg,
    @iterate RNum perf geo true gsp use_wx f s reltol (S k) t r sm tf kp kg =
    if Rltb (Rabs r) reltol then Ok (t, r, sm, tf, kp, kg)
    else match @fly_iteration RNum perf geo true gsp use_wx f s (sm - r * tf) (tf - r * tf) kp kg with
         | Err e => Err e
         | Ok (t', r', kp', kg') => @iterate RNum perf geo true gsp use_wx f s reltol k t' r' (sm - r * tf) (tf - r * tf) kp' kg'
         end.
  Proof. reflexivity. Qed.

  Theorem iterate_tolerance_or_error : forall (f : flight) (s : sched) (reltol : R) k t r sm tf kp kg,
    match @iterate RNum perf geo true gsp use_wx f s reltol k t r sm tf kp kg with
    | Ok (t', r', sm', tf', _, _) => Rabs r' < reltol
    | Err _ => True
    end.
  Proof.
    intros f s reltol. induction k as [|k IH]; intros t r sm tf kp kg; [simpl; auto|].
    rewrite iterate_S. destruct (Rltb (Rabs r) reltol) eqn:E.
    - apply Rltb_true in E. exact E.
    - destruct (@fly_iteration RNum perf geo true gsp use_wx f s (sm - r * tf) (tf - r * tf) kp kg)
        as [[[[t' r'] kp'] kg']|e0]; auto. apply IH.
  Qed.

  (* the starting mass and the fuel load are corrected by the same amount: the dry mass is untouched *)
  Theorem iterate_keeps_dry_mass : forall (f : flight) (s : sched) (reltol : R) k t r sm tf kp kg t' r' sm' tf' kp' kg',
    @iterate RNum perf geo true gsp use_wx f s reltol k t r sm tf kp kg = Ok (t', r', sm', tf', kp', kg') ->
    sm' - tf' = sm - tf.
  Proof.
    intros f s reltol. induction k as [|k IH]; intros t r sm tf kp kg t' r' sm' tf' kp' kg' H;
      [simpl in H; discriminate|].
    rewrite iterate_S in H. destruct (Rltb (Rabs r) reltol).
    - inversion H; subst; reflexivity.
    - destruct (@fly_iteration RNum perf geo true gsp use_wx f s (sm - r * tf) (tf - r * tf) kp kg)
        as [[[[t1 r1] kp1] kg1]|e0]; [|discriminate].
      apply IH in H. lra.
  Qed.

  (* the trajectory that [iterate] returns is the result of a whole flight iteration (or the one handed in) *)
  Theorem iterate_returns_flown : forall (f : flight) (s : sched) (reltol : R) k t r sm tf kp kg t' r' sm' tf' kp' kg',
    @iterate RNum perf geo true gsp use_wx f s reltol k t r sm tf kp kg = Ok (t', r', sm', tf', kp', kg') ->
    (t' = t /\ r' = r /\ sm' = sm /\ tf' = tf /\ kp' = kp /\ kg' = kg) \/
    exists kp0 kg0, @fly_iteration RNum perf geo true gsp use_wx f s sm' tf' kp0 kg0 = Ok (t', r', kp', kg').
  Proof.
    intros f s reltol. induction k as [|k IH]; intros t r sm tf kp kg t' r' sm' tf' kp' kg' H;
      [simpl in H; discriminate|].
    rewrite iterate_S in H. destruct (Rltb (Rabs r) reltol).
    - inversion H; subst; left; repeat split; auto.
    - destruct (@fly_iteration RNum perf geo true gsp use_wx f s (sm - r * tf) (tf - r * tf) kp kg)
        as [[[[t1 r1] kp1] kg1]|e0] eqn:E1; [|discriminate].
      destruct (IH _ _ _ _ _ _ _ _ _ _ _ _ H) as [(-> & -> & -> & -> & -> & ->)|(kp0 & kg0 & H0)].
      + right. exists kp, kg. exact E1.
      + right. exists kp0, kg0. exact H0.
  Qed.

  (* ---------------- Builder.fly ---------------- *)
  Notation result := (@C02_Model.result RNum).

  (* what happens after the starting mass and the fuel load are known *)
  Definition fly_tail (f : flight) (s : sched) (it : bool) (max_iters : nat) (reltol sm tf : R) : res result :=
    match @fly_iteration RNum perf geo true gsp use_wx f s sm tf 1 0 with
    | Err e => Err e
    | Ok (t, r, kp, kg) =>
      if it then
        match @iterate RNum perf geo true gsp use_wx f s reltol (Nat.pred max_iters) t r sm tf kp kg with
        | Err e => Err e
        | Ok (t', r', sm', tf', kp', kg') => Ok (mkresult t' r' sm' tf' kp' kg')
        end
      else Ok (mkresult t r sm tf kp kg)
    end.

  Lemma fly_tail_facts : forall (f : flight) (s : sched) it max_iters (reltol sm tf : R) (res : result),
    sched_ok s -> (2 <= f_n_clm f)%nat -> (2 <= f_n_crz f)%nat -> (2 <= f_n_des f)%nat ->
    origin = (f_o_lon f, f_o_lat f, f_az0 f) ->
    fly_tail f s it max_iters reltol sm tf = Ok res ->
    flight_facts f s (r_start_mass res) (r_total_fuel res) (r_traj res) /\
    r_residual res = (r_total_fuel res - (r_start_mass res - p_mass (last (points (r_traj res)) pt0))) / r_total_fuel res /\
    (it = true -> Rabs (r_residual res) < reltol) /\
    r_start_mass res - r_total_fuel res = sm - tf /\ (it = false -> r_start_mass res = sm).
  Proof.
    intros f s it max_iters reltol sm tf res Hs Hn1 Hn2 Hn3 Ho H. unfold fly_tail in H.
    destruct (@fly_iteration RNum perf geo true gsp use_wx f s sm tf 1 0) as [[[[t r] kp] kg]|e0] eqn:E0; [|discriminate].
    destruct it.
    - match type of H with (match ?X with Ok _ => _ | Err _ => _ end) = _ =>
        destruct X as [[[[[[t' r'] sm'] tf'] kp'] kg']|e0] eqn:Ei; [|discriminate] end.
      inversion H; subst res; clear H. simpl.
      pose proof (iterate_tolerance_or_error f s reltol (Nat.pred max_iters) t r sm tf kp kg) as Htol.
      rewrite Ei in Htol. simpl in Htol.
      pose proof (iterate_keeps_dry_mass _ _ _ _ _ _ _ _ _ _ _ _ _ _ _ _ Ei) as Hdry.
      destruct (iterate_returns_flown _ _ _ _ _ _ _ _ _ _ _ _ _ _ _ _ Ei) as [(-> & -> & -> & -> & -> & ->)|(kp0 & kg0 & H0)].
      + destruct (fly_iteration_facts _ _ _ _ _ _ _ _ _ _ Hs Hn1 Hn2 Hn3 Ho E0) as (F & Hr).
        split; [exact F|split; [exact Hr|split; [intros _; exact Htol|split; [exact Hdry|discriminate]]]].
      + destruct (fly_iteration_facts _ _ _ _ _ _ _ _ _ _ Hs Hn1 Hn2 Hn3 Ho H0) as (F & Hr).
        split; [exact F|split; [exact Hr|split; [intros _; exact Htol|split; [exact Hdry|discriminate]]]].
    - inversion H; subst res; clear H. simpl.
      destruct (fly_iteration_facts _ _ _ _ _ _ _ _ _ _ Hs Hn1 Hn2 Hn3 Ho E0) as (F & Hr).
      split; [exact F|split; [exact Hr|split; [discriminate|split; [reflexivity|reflexivity]]]].
  Qed.

  (* the residual that the iteration tests is the leftover trip fuel relative to the fuel load *)
  Theorem residual_is_leftover_fuel : forall (f : flight) (s : sched) (sm tf : R) (t : traj),
    flight_facts f s sm tf t -> (1 <= f_n_clm f)%nat ->
    (tf - (sm - p_mass (last (points t) pt0))) / tf = p_fuel (last (points t) pt0) / tf.
  Proof.
    intros f s sm tf t F Hn.
    assert (Hin : In (last (points t) pt0) (points t)).
    { apply In_last. pose proof (ff_n1 _ _ _ _ _ F) as L. unfold points.
      destruct (t_climb t); simpl in L; [lia|discriminate]. }
    pose proof (mass_minus_fuel_is_constant f s sm tf t F _ Hin) as Hc.
    f_equal. lra.
  Qed.

  Variable gfix : bool.

  Lemma fly_unfold : forall (f : flight) given it max_iters (reltol : R),
    @fly RNum perf geo true gsp use_wx gfix f given it max_iters reltol =
    match @schedule RNum (f_o_alt f) (f_d_alt f) (f_max_alt f) with
    | Err e => Err e
    | Ok s =>
      if (match given with Some _ => negb gfix | None => false end) then Err ENoFuelLoad
      else match @calc_starting_mass RNum perf 0 (s_crz s) (f_total f) (f_lf f) (f_max_payload f) (f_empty f) (f_max_mass f) with
           | Err e => Err e
           | Ok (sm0, tf) => fly_tail f s it max_iters reltol (match given with Some m => m | None => sm0 end) tf
           end
    end.
  Proof.
    intros. unfold fly, fly_tail. destruct (@schedule RNum _ _ _) as [s|e]; auto.
    destruct given as [m|]; destruct gfix; simpl; auto.
  Qed.

  Theorem fly_facts : forall (f : flight) given it max_iters (reltol : R) (res : result),
    (2 <= f_n_clm f)%nat -> (2 <= f_n_crz f)%nat -> (2 <= f_n_des f)%nat ->
    origin = (f_o_lon f, f_o_lat f, f_az0 f) ->
    @fly RNum perf geo true gsp use_wx gfix f given it max_iters reltol = Ok res ->
    exists s, @schedule RNum (f_o_alt f) (f_d_alt f) (f_max_alt f) = Ok s /\ sched_ok s /\
      flight_facts f s (r_start_mass res) (r_total_fuel res) (r_traj res) /\
      r_residual res = (r_total_fuel res - (r_start_mass res - p_mass (last (points (r_traj res)) pt0))) / r_total_fuel res /\
      (it = true -> Rabs (r_residual res) < reltol) /\
      (* a starting mass handed in is the one flown when the mass is not iterated *)
      (forall m, given = Some m -> it = false -> r_start_mass res = m).
  Proof.
    intros f given it max_iters reltol res Hn1 Hn2 Hn3 Ho H. rewrite fly_unfold in H.
    destruct (@schedule RNum (f_o_alt f) (f_d_alt f) (f_max_alt f)) as [s|e] eqn:Es; [|discriminate].
    exists s. split; auto.
    assert (Hs : sched_ok s).
    { apply schedule_ok in Es. destruct Es as (A1 & A2 & A3 & A4 & _). unfold sched_ok. rewrite A3. auto. }
    split; auto.
    destruct (match given with Some _ => negb gfix | None => false end); [discriminate|].
    destruct (@calc_starting_mass RNum perf 0 _ _ _ _ _ _) as [[sm0 tf]|e0]; [|discriminate].
    destruct (fly_tail_facts _ _ _ _ _ _ _ _ Hs Hn1 Hn2 Hn3 Ho H) as (F & Hr & Ht & _ & Hm).
    split; [exact F|split; [exact Hr|split; [exact Ht|]]].
    intros m -> Hit. apply Hm; auto.
  Qed.

  (* before the fix: a starting mass handed in never produces a trajectory *)
  Theorem given_mass_never_flies_before_fix : forall (f : flight) (m : R) it max_iters (reltol : R),
    exists e, @fly RNum perf geo true gsp use_wx false f (Some m) it max_iters reltol = Err e.
  Proof.
    intros f m it max_iters reltol. unfold fly.
    destruct (@schedule RNum (f_o_alt f) (f_d_alt f) (f_max_alt f)); eexists; reflexivity.
  Qed.

End BuilderProofs.

(* C12_MEEM — the whole per-point MEEM pipeline (meem_point = meem_emit . meem_thermo) over the reals:
   inside the guard region (non-negative pressure coefficient) every denominator and every base of a real power
   is positive, the three outputs are non-negative, and the method is linear in the certification mass / number
   indices; the points of finding FC12b lie in the complement of the guard. *)
From Coq Require Import ZArith Reals Lra Lia Bool List String.
From AV Require Import lib.Num lib.FloatMath model.C12_Base model.C12_Model proofs.C12_ISA proofs.C12_Proofs.
Import ListNotations.
Local Open Scope R_scope.
Local Open Scope string_scope.

Implicit Types k pr pc eta Ta P M hmax hp h F : R.

(* ------------------------------------------------------------------------------------------------ *)
(* guard region                                                                                       *)
(* ------------------------------------------------------------------------------------------------ *)
Lemma meem_guard_true hmax hp h : @meem_guard RNum hmax hp h = true <-> 0 <= @meem_pc RNum hmax hp h.
Proof. unfold meem_guard. rnum. apply Rleb_true. Qed.

Lemma meem_guard_ratio pr hmax hp h : 1 < pr -> @meem_guard RNum hmax hp h = true ->
  1 <= @meem_p3_ratio RNum pr hmax hp h.
Proof. intros Hpr Hg. apply meem_guard_true in Hg. unfold meem_p3_ratio.
  asR (@meem_pc RNum hmax hp h) c. rn.
  assert (0 <= c * (pr - 1 / 1)) by (apply Rmult_le_pos; lra). lra. Qed.

(* every point with a non-positive combustor pressure (finding FC12b) is outside the guard *)
Lemma meem_fc12b_outside_guard pr hmax hp h : 1 < pr -> @meem_p3_ratio RNum pr hmax hp h <= 0 ->
  @meem_guard RNum hmax hp h = false.
Proof. intros Hpr Hr. destruct (@meem_guard RNum hmax hp h) eqn:E; [ | reflexivity].
  pose proof (meem_guard_ratio pr hmax hp h Hpr E). lra. Qed.

(* the guard holds for every level / descending point and every climbing point at or above 3000 m *)
Lemma meem_guard_region hmax hp h : (h <= hp \/ 3000 <= h) -> h <= hmax -> @meem_guard RNum hmax hp h = true.
Proof. intros Hcase Hmax. apply meem_guard_true. unfold meem_pc, meem_pc_rate, meem_lin. rn.
  unfold Rltb at 1. destruct (Rlt_dec 0 (h - hp)) as [Hc | Hc].
  - assert (H3 : 3000 <= h) by (destruct Hcase; lra).
    set (d := if Rltb _ _ then _ else _).
    assert (Hd : 0 < d) by (unfold d, Rltb; destruct (Rlt_dec _ _); lra).
    assert (0 <= (h - 3000 / 1) / d) by (apply Rmult_le_pos; [lra | left; apply Rinv_0_lt_compat; assumption]).
    assert (0 <= (23 / 20 - 17 / 20) * ((h - 3000 / 1) / d)) by (apply Rmult_le_pos; lra). lra.
  - unfold Reqb. destruct (Req_EM_T _ _); lra. Qed.

Lemma meem_eta_cases hp h : @meem_eta RNum hp h = 22 / 25 \/ @meem_eta RNum hp h = 7 / 10.
Proof. unfold meem_eta, meem_eta_rate. rn. unfold Rleb. destruct (Rle_dec _ _); [left | right]; reflexivity. Qed.

(* the denominator max(1, hmax - 3000) of the altitude fraction never vanishes *)
Lemma meem_lin_denominator_pos hmax : 0 < @nmax RNum (@q RNum 1 1) (hmax - @q RNum 3000 1).
Proof. rn. unfold Rltb. destruct (Rlt_dec _ _); lra. Qed.

(* ------------------------------------------------------------------------------------------------ *)
(* thermodynamic chain: positivity of every base and denominator                                      *)
(* ------------------------------------------------------------------------------------------------ *)
Lemma kappa_facts : @c_kappa RNum = 7 / 5.
Proof. unfold c_kappa. rn. reflexivity. Qed.

Lemma meem_stag_ge1 M : 1 <= @meem_stag RNum M.
Proof. unfold meem_stag, c_kappa. rn. pose proof (Rle_0_sqr M) as H. unfold Rsqr in H.
  assert (0 <= (7 / 5 - 1 / 1) / (2 / 1) * (M * M)) by (apply Rmult_le_pos; lra). lra. Qed.

Lemma Rpower_ge1 x a : 1 <= x -> 0 <= a -> 1 <= Rpower x a.
Proof. intros Hx Ha. replace 1 with (Rpower 1 a) at 1.
  - apply Rle_Rpower_l; lra.
  - unfold Rpower. rewrite ln_1, Rmult_0_r. apply exp_0. Qed.

Lemma meem_Pt_pos P M : 0 < P -> 0 < @meem_Pt RNum P M.
Proof. intros. unfold meem_Pt. rnum. apply Rmult_lt_0_compat; [assumption | apply exp_pos]. Qed.

Lemma meem_Tt_pos Ta M : 0 < Ta -> 0 < @meem_Tt RNum Ta M.
Proof. intros. unfold meem_Tt. pose proof (meem_stag_ge1 M). asR (@meem_stag RNum M) s. rnum.
  apply Rmult_lt_0_compat; lra. Qed.

Lemma meem_P3_pos P M pc pr : 0 < P -> 0 <= pc -> 1 < pr -> 0 < @meem_P3 RNum P M pc pr.
Proof. intros HP Hpc Hpr. unfold meem_P3. pose proof (meem_Pt_pos P M HP). asR (@meem_Pt RNum P M) pt. rn.
  assert (0 <= pc * (pr - 1 / 1)) by (apply Rmult_le_pos; lra).
  apply Rmult_lt_0_compat; lra. Qed.

Lemma meem_P3_over_Pt P M pc pr : 0 < P -> @meem_P3 RNum P M pc pr / @meem_Pt RNum P M = 1 + pc * (pr - 1).
Proof. intros HP. unfold meem_P3. pose proof (meem_Pt_pos P M HP). asR (@meem_Pt RNum P M) pt. rn. field. lra. Qed.

Lemma meem_T3_pos Ta P M pc pr eta : 0 < Ta -> 0 < P -> 0 <= pc -> 1 < pr -> 0 < eta ->
  0 < @meem_T3 RNum Ta P M pc pr eta.
Proof. intros HT HP Hpc Hpr He. unfold meem_T3.
  pose proof (meem_Tt_pos Ta M HT) as Ht. pose proof (meem_P3_over_Pt P M pc pr HP) as Hr.
  asR (@meem_Tt RNum Ta M) tv. unfold c_kappa. rn.
  match type of Hr with ?t = _ => asR t r end.
  fold (Rpower r ((7 / 5 - 1 / 1) / (7 / 5))).
  assert (Hr1 : 1 <= r) by (subst r; assert (0 <= pc * (pr - 1)) by (apply Rmult_le_pos; lra); lra).
  pose proof (Rpower_ge1 r ((7 / 5 - 1 / 1) / (7 / 5)) Hr1 ltac:(lra)) as Hp.
  set (w := Rpower r _) in *.
  assert (0 <= 1 / 1 / eta * (w - 1 / 1)).
  { apply Rmult_le_pos; [ | lra]. apply Rmult_le_pos; [lra | left; apply Rinv_0_lt_compat; assumption]. }
  apply Rmult_lt_0_compat; lra. Qed.

Lemma meem_P3ref_base_pos T3 eta : 0 < T3 -> 0 < eta < 1 ->
  0 < 1 + eta * (T3 / @c_T0 RNum - 1).
Proof. intros HT [He0 He1]. pose proof c_T0_pos as H0. asR (@c_T0 RNum) t0.
  assert (0 < T3 / t0) by (apply Rdiv_lt_0_compat; assumption).
  assert (0 < eta * (T3 / t0)) by (apply Rmult_lt_0_compat; assumption).
  replace (1 + eta * (T3 / t0 - 1)) with ((1 - eta) + eta * (T3 / t0)) by ring. lra. Qed.

Lemma meem_P3ref_pos T3 eta : 0 < @meem_P3ref RNum T3 eta.
Proof. unfold meem_P3ref. pose proof c_p0_pos. asR (@c_p0 RNum) p. rnum.
  apply Rmult_lt_0_compat; [assumption | apply exp_pos]. Qed.

(* all denominators and all bases of real powers of the thermodynamic chain, at once *)
Lemma meem_thermo_wellformed pr pc eta Ta P M :
  1 < pr -> 0 <= pc -> (eta = 22 / 25 \/ eta = 7 / 10) -> 0 < Ta -> 0 < P ->
  let T3 := @meem_T3 RNum Ta P M pc pr eta in
  0 < @meem_stag RNum M /\ 0 < @meem_Pt RNum P M /\ eta <> 0 /\ 1 <= @meem_P3 RNum P M pc pr / @meem_Pt RNum P M /\
  0 < @meem_P3 RNum P M pc pr /\ 0 < T3 /\ @c_T0 RNum <> 0 /\ 0 < 1 + eta * (T3 / @c_T0 RNum - 1) /\
  0 < @meem_P3ref RNum T3 eta /\ @c_p0 RNum <> 0 /\ pr - 1 <> 0 /\
  0 < @meem_P3 RNum P M pc pr / @meem_P3ref RNum T3 eta.
Proof. intros Hpr Hpc Heta HT HP T3.
  assert (He : 0 < eta < 1) by (destruct Heta; lra).
  pose proof (meem_stag_ge1 M). pose proof (meem_Pt_pos P M HP). pose proof (meem_P3_pos P M pc pr HP Hpc Hpr) as H3.
  pose proof (meem_T3_pos Ta P M pc pr eta HT HP Hpc Hpr (proj1 He)) as HT3. fold T3 in HT3.
  pose proof (meem_P3ref_pos T3 eta) as Hp3r. pose proof c_T0_pos. pose proof c_p0_pos.
  pose proof (meem_P3_over_Pt P M pc pr HP) as Hr.
  assert (0 <= pc * (pr - 1)) by (apply Rmult_le_pos; lra).
  repeat split; try lra.
  - apply meem_P3ref_base_pos; assumption.
  - apply Rdiv_lt_0_compat; assumption. Qed.

(* ------------------------------------------------------------------------------------------------ *)
(* engine data                                                                                        *)
(* ------------------------------------------------------------------------------------------------ *)
Definition redb := @edb RNum.
Definition tpos0 (v : tm) : Prop := let '(a, b, c, d) := v in 0 <= a /\ 0 <= b /\ 0 <= c /\ 0 <= d.

(* positive certification data: valid smoke numbers; mass / number indices either given positive or marked missing
   (some negative entry) and reconstructed; positive maxima; bypass ratio >= 0, pressure ratio > 1 *)
Definition edb_ok (e : redb) : Prop :=
  0 <= @tmax RNum (e_SN e) /\ 0 <= e_bpr e /\ 1 < e_pr e /\
  (@tmin RNum (e_mass e) < 0 \/ tpos (e_mass e)) /\ 0 < e_mass_max e /\
  (@tmin RNum (e_num e) < 0 \/ tpos (e_num e)) /\ 0 < e_num_max e.

Lemma nmin_pos a b : 0 < a -> 0 < b -> 0 < @nmin RNum a b.
Proof. intros. rn. unfold Rltb. destruct (Rlt_dec b a); assumption. Qed.

Lemma tmin_pos (v : tm) : tpos v -> 0 < @tmin RNum v.
Proof. destruct v as [[[a b] c] d]. intros (Ha & Hb & Hc & Hd). unfold tmin. repeat apply nmin_pos; assumption. Qed.

Lemma tmin_branch_given (v : tm) : tpos v -> (@ltb RNum (@tmin RNum v) zero) = false.
Proof. intros H. apply tmin_pos in H. rnum. apply Rltb_false. lra. Qed.

Lemma tmin_branch_missing (v : tm) : @tmin RNum v < 0 -> (@ltb RNum (@tmin RNum v) zero) = true.
Proof. intros H. rnum. apply Rltb_true. assumption. Qed.

Lemma meem_recon_mass_pos sn m bp : 0 <= bp -> 0 < @meem_recon_mass RNum sn m bp.
Proof. intros Hbp. unfold meem_recon_mass.
  pose proof (scope11_cbc_pos sn) as Hc. pose proof (scope11_kslm_pos _ _ Hc Hbp) as Hk. pose proof (afr_pos m) as Ha.
  asR (@scope11_cbc RNum sn) cv. asR (@afr RNum m) av. asR (@scope11_kslm RNum cv bp) kv. rn.
  assert (0 <= 97 / 125 * av * (1 / 1 + bp)) by (apply Rmult_le_pos; [apply Rmult_le_pos | ]; lra).
  apply Rmult_lt_0_compat; [apply Rmult_lt_0_compat | ]; lra. Qed.

Lemma meem_recon_num_pos mv m : 0 < mv -> 0 < @meem_recon_num RNum mv m.
Proof. intros Hm. unfold meem_recon_num.
  assert (Hg : 0 < @gmd_mode RNum m) by (destruct m; unfold gmd_mode; rn; lra). asR (@gmd_mode RNum m) g.
  unfold c_pi, npow_nat. rn.
  apply Rdiv_lt_0_compat; [lra | ].
  apply Rmult_lt_0_compat; [ | apply exp_pos].
  assert (0 < g * (1 / 1000000000)) by (apply Rmult_lt_0_compat; lra).
  apply Rmult_lt_0_compat; [lra | ]. repeat (apply Rmult_lt_0_compat; try assumption). lra. Qed.

Lemma meem_recon_scales k mv m : @meem_recon_num RNum (k * mv) m = k * @meem_recon_num RNum mv m.
Proof. unfold meem_recon_num. rn. unfold Rdiv. ring. Qed.

Lemma meem_mass_modes_pos (e : redb) : 0 <= e_bpr e -> (@tmin RNum (e_mass e) < 0 \/ tpos (e_mass e)) ->
  tpos (@meem_mass_modes RNum e).
Proof. intros Hb [Hm | Hm]; unfold meem_mass_modes.
  - rewrite (tmin_branch_missing _ Hm).
    assert (Hbp : 0 <= (if String.eqb (e_type e) "MTF" then e_bpr e else @zero RNum)) by (destruct (String.eqb _ _); rnum; lra).
    unfold tpos. repeat split; apply meem_recon_mass_pos; assumption.
  - rewrite (tmin_branch_given _ Hm). exact Hm. Qed.

Lemma meem_num_modes_pos (e : redb) (mass : tm) : tpos mass -> (@tmin RNum (e_num e) < 0 \/ tpos (e_num e)) ->
  tpos (@meem_num_modes RNum e mass).
Proof. intros Hmass [Hn | Hn]; unfold meem_num_modes.
  - rewrite (tmin_branch_missing _ Hn).
    destruct mass as [[[a b] c] d]. destruct Hmass as (Ha & Hb & Hc & Hd).
    unfold tpos. repeat split; apply meem_recon_num_pos; simpl; assumption.
  - rewrite (tmin_branch_given _ Hn). exact Hn. Qed.

(* strict positivity of an interpolated value *)
Lemma exists_lower_bound (l : pts) : Forall (fun p => 0 < snd p) l -> exists b, 0 < b /\ ys_ge b l.
Proof. induction 1 as [ | p l Hp Hl [b [Hb Hge]]].
  - exists 1. split; [lra | constructor].
  - exists (Rmin (snd p) b). split; [apply Rmin_pos; assumption | ].
    constructor; [apply Rmin_l | ].
    eapply Forall_impl; [ | exact Hge]. intros a Ha. simpl in *. eapply Rle_trans; [apply Rmin_r | exact Ha]. Qed.

Lemma meem_reference_pos F (v : tm) vmax kind : tpos v -> 0 < vmax ->
  0 < @ninterp RNum F (@meem_grid RNum v vmax kind).
Proof. intros Hv Hm.
  assert (Hall : Forall (fun p => 0 < snd p) (@meem_grid RNum v vmax kind)).
  { destruct v as [[[a0 a1] a2] a3]. destruct Hv as (H0 & H1 & H2 & H3).
    destruct kind; simpl; repeat (apply Forall_cons; [simpl; assumption | ]); apply Forall_nil. }
  destruct (exists_lower_bound _ Hall) as [b [Hb Hge]].
  eapply Rlt_le_trans; [exact Hb | ]. apply ninterp_ge.
  - destruct v as [[[a0 a1] a2] a3]; destruct kind; discriminate.
  - apply meem_grid_sorted.
  - exact Hge. Qed.

Lemma gmd_reference_ge F : 20 <= @ninterp RNum F (@meem_grid RNum (@gmd_modes RNum) (@zero RNum) NoMax).
Proof. apply ninterp_ge; [discriminate | apply meem_grid_sorted | ].
  unfold gmd_modes, gmd_mode, ys_ge. simpl. rn. repeat (apply Forall_cons; [simpl; lra | ]). apply Forall_nil. Qed.

(* ------------------------------------------------------------------------------------------------ *)
(* emission step: non-negativity, non-vanishing denominator                                           *)
(* ------------------------------------------------------------------------------------------------ *)
Lemma meem_emit_nonneg (e : redb) (P3 P3ref F : R) : edb_ok e -> 0 < P3 -> 0 < P3ref ->
  let mass := @meem_mass_modes RNum e in
  let ref_mass := @ninterp RNum F (@meem_grid RNum mass (e_mass_max e) (e_mass_kind e)) in
  let '(gmd, ei_mass, ei_num) := @meem_emit RNum e (P3, P3ref, F) in
  @q RNum 1 1000 * ref_mass <> 0 /\ 20 <= gmd /\ 0 < ei_mass /\ 0 < ei_num.
Proof. intros (Hsn & Hb & Hpr & Hm & Hmm & Hn & Hnm) H3 H3r mass ref_mass. unfold meem_emit.
  pose proof (meem_mass_modes_pos e Hb Hm) as Hmass. fold mass in Hmass.
  pose proof (meem_num_modes_pos e mass Hmass Hn) as Hnum.
  pose proof (meem_reference_pos F mass (e_mass_max e) (e_mass_kind e) Hmass Hmm) as Hrm. fold mass. fold ref_mass in Hrm |- *.
  pose proof (meem_reference_pos F _ (e_num_max e) (e_num_kind e) Hnum Hnm) as Hrn.
  pose proof (gmd_reference_ge F) as Hg.
  pose proof (meem_adjust_pos ref_mass P3 P3ref Hrm) as Ha.
  replace (@ltb RNum (@tmax RNum (e_SN e)) zero) with false by (symmetry; rnum; apply Rltb_false; lra).
  replace (@ltb RNum (@meem_adjust RNum ref_mass P3 P3ref) zero) with false by (symmetry; rnum; apply Rltb_false; lra).
  unfold meem_number.
  asR (@meem_adjust RNum ref_mass P3 P3ref) av. asR ref_mass rm.
  match goal with H : 0 < @ninterp RNum F ?g |- context [@ninterp RNum F ?g] => asR (@ninterp RNum F g) rn' end.
  rn. repeat split; try lra.
  apply Rdiv_lt_0_compat; [apply Rmult_lt_0_compat; assumption | lra]. Qed.

(* ------------------------------------------------------------------------------------------------ *)
(* linearity in the certification indices                                                             *)
(* ------------------------------------------------------------------------------------------------ *)
Definition edb_scale_mass (k : R) (e : redb) : redb :=
  @Build_edb RNum (e_SN e) (tscale k (e_mass e)) (e_num e) (e_type e) (e_bpr e) (e_pr e)
             (k * e_mass_max e) (e_mass_kind e) (e_num_max e) (e_num_kind e).
Definition edb_scale_num (k : R) (e : redb) : redb :=
  @Build_edb RNum (e_SN e) (e_mass e) (tscale k (e_num e)) (e_type e) (e_bpr e) (e_pr e)
             (e_mass_max e) (e_mass_kind e) (k * e_num_max e) (e_num_kind e).

Lemma tpos_scale k (v : tm) : 0 < k -> tpos v -> tpos (tscale k v).
Proof. destruct v as [[[a b] c] d]. intros Hk (Ha & Hb & Hc & Hd). unfold tscale, tmap, tpos.
  repeat split; apply Rmult_lt_0_compat; assumption. Qed.

Lemma meem_emit_scales_mass k (e : redb) (P3 P3ref F : R) :
  0 < k -> tpos (e_mass e) -> 0 < e_mass_max e -> tpos (e_num e) ->
  let '(gmd, ei_mass, ei_num) := @meem_emit RNum e (P3, P3ref, F) in
  @meem_emit RNum (edb_scale_mass k e) (P3, P3ref, F) = (gmd, k * ei_mass, ei_num).
Proof. intros Hk Hm Hmm Hn. unfold meem_emit, meem_mass_modes, meem_num_modes, edb_scale_mass.
  cbn [e_SN e_mass e_num e_type e_bpr e_pr e_mass_max e_mass_kind e_num_max e_num_kind].
  rewrite (tmin_branch_given _ Hm), (tmin_branch_given _ (tpos_scale k _ Hk Hm)), (tmin_branch_given _ Hn).
  rewrite meem_grid_scales, ninterp_scales, meem_adjust_scales.
  pose proof (meem_reference_pos F _ (e_mass_max e) (e_mass_kind e) Hm Hmm) as Hrm.
  destruct (@ltb RNum (@tmax RNum (e_SN e)) zero); [rnum; tuple_eq; ring | ].
  set (rm := @ninterp RNum F _) in *. set (a := @meem_adjust RNum rm P3 P3ref).
  set (rnum' := @ninterp RNum F (@meem_grid RNum (e_num e) _ _)).
  assert (Hs : @ltb RNum (k * a) zero = @ltb RNum a zero).
  { rnum. unfold Rltb. destruct (Rlt_dec (k * a) 0) as [H1 | H1], (Rlt_dec a 0) as [H2 | H2]; try reflexivity; exfalso.
    - apply H2. apply (Rmult_lt_reg_l k); [assumption | ]. rewrite Rmult_0_r. assumption.
    - apply H1. rewrite <- (Rmult_0_r k). apply Rmult_lt_compat_l; assumption. }
  rewrite Hs. unfold meem_number.
  apply f_equal2; [apply f_equal2; [reflexivity | ] | ].
  - destruct (@ltb RNum a zero); rnum; ring.
  - asR rm r. asR a av. asR rnum' nv. rn. field. split; lra. Qed.

Lemma meem_emit_scales_num k (e : redb) (P3 P3ref F : R) :
  0 < k -> tpos (e_num e) ->
  let '(gmd, ei_mass, ei_num) := @meem_emit RNum e (P3, P3ref, F) in
  @meem_emit RNum (edb_scale_num k e) (P3, P3ref, F) = (gmd, ei_mass, k * ei_num).
Proof. intros Hk Hn. unfold meem_emit.
  change (@meem_mass_modes RNum (edb_scale_num k e)) with (@meem_mass_modes RNum e).
  set (mass := @meem_mass_modes RNum e).
  unfold meem_num_modes, edb_scale_num.
  cbn [e_SN e_mass e_num e_type e_bpr e_pr e_mass_max e_mass_kind e_num_max e_num_kind].
  rewrite (tmin_branch_given _ Hn), (tmin_branch_given _ (tpos_scale k _ Hk Hn)).
  rewrite meem_grid_scales, ninterp_scales.
  destruct (@ltb RNum (@tmax RNum (e_SN e)) zero); [rnum; tuple_eq; ring | ].
  apply f_equal2; [reflexivity | ]. unfold meem_number. rnum. unfold Rdiv. ring. Qed.

(* ------------------------------------------------------------------------------------------------ *)
(* the whole point function and whole trajectories                                                    *)
(* ------------------------------------------------------------------------------------------------ *)
Definition out_ok (o : R * R * R) : Prop := let '(gmd, m, n) := o in 20 <= gmd /\ 0 < m /\ 0 < n.

Lemma meem_point_nonneg (e : redb) hmax hp h Ta P M :
  edb_ok e -> @meem_guard RNum hmax hp h = true -> 0 < Ta -> 0 < P ->
  out_ok (@meem_point RNum e hmax hp h Ta P M).
Proof. intros He Hg HT HP. unfold meem_point, meem_thermo.
  assert (Hpr : 1 < e_pr e) by (destruct He as (_ & _ & H & _); exact H).
  apply meem_guard_true in Hg.
  pose proof (meem_P3_pos P M _ _ HP Hg Hpr) as H3.
  pose proof (meem_P3ref_pos (@meem_T3 RNum Ta P M (@meem_pc RNum hmax hp h) (e_pr e) (@meem_eta RNum hp h)) (@meem_eta RNum hp h)) as H3r.
  pose proof (meem_emit_nonneg e _ _ (@meem_F RNum (@meem_P3ref RNum (@meem_T3 RNum Ta P M (@meem_pc RNum hmax hp h) (e_pr e) (@meem_eta RNum hp h)) (@meem_eta RNum hp h)) (e_pr e)) He H3 H3r) as Hn.
  cbv zeta in Hn. destruct (@meem_emit RNum e _) as [[g m] n]. unfold out_ok. tauto. Qed.

Lemma meem_point_scales_mass k (e : redb) hmax hp h Ta P M :
  0 < k -> tpos (e_mass e) -> 0 < e_mass_max e -> tpos (e_num e) ->
  let '(gmd, ei_mass, ei_num) := @meem_point RNum e hmax hp h Ta P M in
  @meem_point RNum (edb_scale_mass k e) hmax hp h Ta P M = (gmd, k * ei_mass, ei_num).
Proof. intros. unfold meem_point. change (e_pr (edb_scale_mass k e)) with (e_pr e).
  destruct (@meem_thermo RNum _ _ _ Ta P M) as [[P3 P3r] F]. apply meem_emit_scales_mass; assumption. Qed.

Lemma meem_point_scales_num k (e : redb) hmax hp h Ta P M :
  0 < k -> tpos (e_num e) ->
  let '(gmd, ei_mass, ei_num) := @meem_point RNum e hmax hp h Ta P M in
  @meem_point RNum (edb_scale_num k e) hmax hp h Ta P M = (gmd, ei_mass, k * ei_num).
Proof. intros. unfold meem_point. change (e_pr (edb_scale_num k e)) with (e_pr e).
  destruct (@meem_thermo RNum _ _ _ Ta P M) as [[P3 P3r] F]. apply meem_emit_scales_num; assumption. Qed.

(* guards along a trajectory, parallel to meem_traj_from *)
Fixpoint guards_from (hmax hp : R) (l : list (R * R * R * R)) : list bool :=
  match l with
  | [] => []
  | (h, _, _, _) :: r => @meem_guard RNum hmax hp h :: guards_from hmax h r
  end.
Definition ambient_ok (l : list (R * R * R * R)) : Prop := Forall (fun p => let '(_, Ta, P, _) := p in 0 < Ta /\ 0 < P) l.

Lemma meem_trajectory_nonneg (e : redb) hmax hp (l : list (R * R * R * R)) :
  edb_ok e -> ambient_ok l ->
  Forall2 (fun g o => g = true -> out_ok o) (guards_from hmax hp l) (@meem_traj_from RNum e hmax hp l).
Proof. intros He. revert hp. induction l as [ | [[[h Ta] P] M] r IH]; intros hp Ha; simpl; [constructor | ].
  inversion Ha as [ | ? ? Hamb Hr]; subst. simpl in Hamb. destruct Hamb as [HT HP]. constructor.
  - intros Hg. apply meem_point_nonneg; assumption.
  - apply IH. assumption. Qed.

Lemma meem_whole_trajectory_nonneg (e : redb) (l : list (R * R * R * R)) :
  edb_ok e -> ambient_ok l ->
  match l with
  | [] => @meem RNum e l = []
  | (h0, _, _, _) :: r =>
      let hmax := @list_max RNum (map (fun p => let '(h, _, _, _) := p in h) r) h0 in
      Forall2 (fun g o => g = true -> out_ok o) (guards_from hmax h0 l) (@meem RNum e l)
  end.
Proof. intros He Ha. destruct l as [ | [[[h0 Ta] P] M] r]; [reflexivity | ].
  unfold meem. apply meem_trajectory_nonneg; assumption. Qed.

(* non-vacuity: a valid engine and a guarded climbing point *)
Definition ex_edb : redb :=
  @Build_edb RNum (10, 20, 25, 30) (5, 10, 40, 60) (1, 2, 3, 4) "MTF" 5 25 50 Max575 5 Max925.
Lemma ex_edb_ok : edb_ok ex_edb /\ tpos (e_mass ex_edb) /\ tpos (e_num ex_edb).
Proof. unfold edb_ok, ex_edb, tpos, tmax, tmin. simpl. rn. rsolve. repeat split; try lra.
  all: try (right; repeat split; lra). Qed.
Lemma ex_guard : @meem_guard RNum 11000 3000 6000 = true /\ @meem_guard RNum 2500 0 1000 = false.
Proof. unfold meem_guard, meem_pc, meem_pc_rate, meem_lin. rn. split; rsolve; reflexivity. Qed.

(* C01 — the balance laws of the inventory model, over the reals, for all inputs. *)
From Coq Require Import List Bool ZArith Reals Lra Lia Arith.
From AV Require Import lib.Num model.C11_Model model.C01_Model proofs.C01_Lists.
Import ListNotations.
Local Open Scope R_scope.

Notation inputsR := (@inputs RNum).
Notation tmvR := (@tmv RNum).

(* absent key = contributes nothing *)
Definition gl (o : option (list R)) : list R := match o with Some l => l | None => [] end.
Definition gtm (o : option tmvR) : tmvR := match o with Some v => v | None => (0, 0, 0, 0) end.
Definition gr (o : option R) : R := match o with Some v => v | None => 0 end.
Definition Rtm_sum : tmvR -> R := @tm_sum RNum.

Ltac dtm v := let a := fresh "vi" in let b := fresh "va" in let c := fresh "vc" in let d := fresh "vt" in
              destruct v as [[[a b] c] d].

(* ------------------------------------------------------------------------------------------- *)
(* enabled species of the hand table                                                             *)
(* ------------------------------------------------------------------------------------------- *)
Ltac cfg c := destruct c as [cdm co2 h2o sox nx hcm com pv pn apu gse lcy].

Lemma enabled_CO2 c : enabled c CO2 = co2_on c.
Proof. cfg c. destruct co2, h2o, sox, nx, hcm, com, pv, pn; reflexivity. Qed.
Lemma enabled_H2O c : enabled c H2O = h2o_on c.
Proof. cfg c. destruct co2, h2o, sox, nx, hcm, com, pv, pn; reflexivity. Qed.
Lemma enabled_SOx c : enabled c SOx = sox_on c.
Proof. cfg c. destruct co2, h2o, sox, nx, hcm, com, pv, pn; reflexivity. Qed.
Lemma enabled_SO2 c : enabled c SO2 = sox_on c.
Proof. cfg c. destruct co2, h2o, sox, nx, hcm, com, pv, pn; reflexivity. Qed.
Lemma enabled_SO4 c : enabled c SO4 = sox_on c.
Proof. cfg c. destruct co2, h2o, sox, nx, hcm, com, pv, pn; reflexivity. Qed.

Lemma const_has_CO2 c : const_has c CO2 = co2_on c.
Proof. unfold const_has. apply enabled_CO2. Qed.
Lemma const_has_H2O c : const_has c H2O = h2o_on c.
Proof. unfold const_has. apply enabled_H2O. Qed.
Lemma const_has_sox c s : s = SOx \/ s = SO2 \/ s = SO4 -> const_has c s = sox_on c.
Proof.
  intros [->|[->| ->]]; unfold const_has; rewrite ?enabled_SOx, ?enabled_SO2, ?enabled_SO4;
    destruct (sox_on c); reflexivity.
Qed.
Lemma const_has_nox c s : s = NOx \/ s = NO \/ s = NO2 \/ s = HONO -> const_has c s = false.
Proof. intros [->|[->|[->| ->]]]; reflexivity. Qed.

(* ------------------------------------------------------------------------------------------- *)
(* 1. total = sum of parts (+ life-cycle CO2)                                                     *)
(* ------------------------------------------------------------------------------------------- *)
Theorem total_eq_parts (x : inputsR) (s : species) :
  I_total x s =
    Rsum (gl (I_traj_em x s)) + Rtm_sum (gtm (I_lto_em x s)) + gr (I_apu_em x s) + gr (I_gse_em x s)
    + match s with CO2 => I_lifecycle x | _ => 0 end.
Proof.
  unfold I_total, sum_total, I_lifecycle, I_apu_em, I_apu, I_gse_em, Rtm_sum.
  destruct (I_traj_em x s) as [l|]; destruct (I_lto_em x s) as [v|]; try dtm v;
    destruct (apu_on (i_cfg x)); destruct (gse_on (i_cfg x)); destruct (i_apu x) as [a|];
    try destruct (apu_em _ _ _ _ a s); unfold gse_em;
    destruct (@gse_nominal RNum (i_class x)) as [[[[g1 g2] g3] g4] g5];
    destruct s; try destruct (lifecycle_applies x); cbn [gl gtm gr tm_sum]; rl.
Qed.

(* the life-cycle term is EI-like: intensity * (fuel mass drop * energy content); only when switched on *)
Lemma lifecycle_value (x : inputsR) lc :
  f_lifecycle (i_fuel x) = Some lc -> lifecycle_applies x = true ->
  I_lifecycle x = lc * ((hd 0 (i_fm x) - last (i_fm x) 0) * f_energy (i_fuel x)).
Proof. intros H1 H2. unfold I_lifecycle, lifecycle_adj. rewrite H1, H2. reflexivity. Qed.
Lemma lifecycle_off (x : inputsR) : lifecycle_applies x = false -> I_lifecycle x = 0.
Proof. intros H. unfold I_lifecycle. rewrite H. reflexivity. Qed.

(* ------------------------------------------------------------------------------------------- *)
(* 2. every per-segment amount = index * fuel burned in that segment                              *)
(* ------------------------------------------------------------------------------------------- *)
Definition aug_lengths (x : inputsR) : Prop :=
  forall s l, lookup s (I_orc x) = Some l -> length l = length (i_fm x).

(* the hypothesis on the raw inputs: every EI-method array, and the SLS fuel-flow array, has one entry per point *)
Definition oracle_lengths (x : inputsR) : Prop :=
  (forall s l, lookup s (i_orc_traj x) = Some l -> length l = length (i_fm x))
  /\ length (i_sls x) = length (i_fm x).

Notation Rpart := (@bffm2_part RNum).

Lemma species_eqb_eq a b : species_eqb a b = true -> a = b.
Proof. destruct a, b; cbn; intros H; try reflexivity; discriminate H. Qed.

Lemma lookup_strip (orc : list (species * list R)) s :
  lookup s (@strip_parts RNum orc) = if is_part s then None else lookup s orc.
Proof.
  induction orc as [|[k v] r IH]; [destruct (is_part s); reflexivity|].
  unfold strip_parts in *. cbn [filter fst]. destruct (is_part k) eqn:Ek; cbn [negb lookup].
  - rewrite IH. destruct (species_eqb s k) eqn:E; [|reflexivity].
    apply species_eqb_eq in E. subst. rewrite Ek. reflexivity.
  - rewrite IH. destruct (species_eqb s k) eqn:E; [|reflexivity].
    apply species_eqb_eq in E. subst. rewrite Ek. reflexivity.
Qed.

Lemma lookup_aug (ffc : tmvR) (sls : list R) (orc : list (species * list R)) s :
  lookup s (aug_orc ffc sls orc) =
  match s with
  | NO => option_map (fun nx => Rpart ffc sp_no nx sls) (lookup NOx orc)
  | NO2 => option_map (fun nx => Rpart ffc sp_no2 nx sls) (lookup NOx orc)
  | HONO => option_map (fun nx => Rpart ffc sp_hono nx sls) (lookup NOx orc)
  | _ => lookup s orc
  end.
Proof.
  unfold aug_orc. change (T RNum) with R.
  destruct (lookup NOx orc) as [nx|] eqn:E.
  - destruct s; cbn [lookup species_eqb option_map]; try reflexivity; rewrite lookup_strip; try reflexivity.
  - destruct s; cbn [option_map]; rewrite lookup_strip; reflexivity.
Qed.

Lemma part_length ffc sp (nx sls : list R) : length nx = length sls -> length (Rpart ffc sp nx sls) = length nx.
Proof. intros H. unfold bffm2_part. apply map2_length. rewrite map_length. exact H. Qed.

Lemma aug_lengths_of (x : inputsR) : oracle_lengths x -> aug_lengths x.
Proof.
  intros [HO HS] s l. unfold I_orc. rewrite lookup_aug.
  destruct s; try apply HO;
    (match goal with |- context [option_map _ ?q] => destruct q as [nx0|] eqn:E end; cbn [option_map]; intros K; [|discriminate K];
     inversion K; subst; rewrite part_length;
     match goal with E' : lookup NOx _ = Some ?n |- _ => pose proof (HO NOx n E') end; cbv [T RNum] in *; congruence).
Qed.

Lemma nth_map_lt {A} (f : A -> R) (l : list A) d i : (i < length l)%nat -> nth i (map f l) 0 = f (nth i l d).
Proof. intros H. rewrite (nth_indep _ 0 (f d)) by (rewrite map_length; exact H). apply map_nth. Qed.

(* per point, a BFFM2 part is NOx times the fraction of the point's thrust category *)
Lemma nth_part ffc sp (nx sls : list R) i : length nx = length sls ->
  nth i (Rpart ffc sp nx sls) 0 =
  if (i <? length nx)%nat then nth i nx 0 * tm_get (thrust_cat ffc (nth i sls 0)) sp else 0.
Proof.
  intros H. unfold bffm2_part. rewrite nth_map2_mul by (rewrite map_length; exact H).
  destruct (i <? length nx)%nat eqn:E.
  - apply Nat.ltb_lt in E. rewrite (nth_map_lt _ sls 0) by lia. reflexivity.
  - apply Nat.ltb_ge in E. rewrite (nth_overflow nx) by exact E. rl.
Qed.

Lemma traj_idx_raw_length (x : inputsR) s l : aug_lengths x ->
  traj_idx_raw (i_cfg x) (i_fuel x) (length (i_fm x)) (I_orc x) s = Some l -> length l = length (i_fm x).
Proof.
  intros HO. unfold traj_idx_raw.
  destruct (const_has _ s).
  - intros E; inversion E; subst. apply repeat_length.
  - destruct (traj_var_has _ s); [|discriminate]. apply HO.
Qed.

Theorem segment_eq_index_times_fuel (x : inputsR) (s : species) : aug_lengths x ->
  forall i, nth i (gl (I_traj_em x s)) 0 = nth i (gl (I_traj_idx x s)) 0 * nth i (Rfuel_burn (i_fm x)) 0.
Proof.
  intros HO i. unfold I_traj_em, I_traj_idx, traj_em, traj_idx, traj_em_raw.
  destruct (traj_idx_raw _ _ _ _ s) as [raw|] eqn:E; cbn [option_map gl].
  - pose proof (traj_idx_raw_length x s raw HO E) as L.
    rewrite !nth_zo. destruct (in_window _ _ i).
    + apply nth_map2_mul. rewrite fuel_burn_length. exact L.
    + rl.
  - destruct i; cbn; rl.
Qed.

(* amounts and indices carry the same keys, and both are zero outside the accounting window *)
Theorem traj_keys_agree (x : inputsR) s : I_traj_em x s = None <-> I_traj_idx x s = None.
Proof.
  unfold I_traj_em, I_traj_idx, traj_em, traj_idx, traj_em_raw.
  destruct (traj_idx_raw _ _ _ _ s); cbn; split; congruence.
Qed.

Theorem traj_zero_outside_window (x : inputsR) s i :
  in_window (win_start (i_cfg x) (length (i_fm x)) (i_ncl x)) (win_stop (i_cfg x) (length (i_fm x)) (i_nde x)) i = false ->
  nth i (gl (I_traj_em x s)) 0 = 0 /\ nth i (gl (I_traj_idx x s)) 0 = 0.
Proof.
  intros W. unfold I_traj_em, I_traj_idx, traj_em, traj_idx, traj_em_raw.
  destruct (traj_idx_raw _ _ _ _ s) as [raw|]; cbn [option_map gl].
  - rewrite !nth_zo, W. split; reflexivity.
  - destruct i; cbn; split; reflexivity.
Qed.

Theorem lto_amount_eq_index_times_fuel (x : inputsR) s :
  I_lto_em x s = option_map (fun v => tm_mul v (lto_fuel (i_cfg x) (i_lto x))) (I_lto_idx x s).
Proof. reflexivity. Qed.

Theorem apu_amount_eq_index_times_fuel (x : inputsR) s a : I_apu x = Some a ->
  I_apu_em x s = option_map (fun v => v * apu_fuel a) (I_apu_idx x s).
Proof. intros H. unfold I_apu_em, I_apu_idx. rewrite H. reflexivity. Qed.

(* ------------------------------------------------------------------------------------------- *)
(* 3. total fuel = fuel of exactly the components counted                                         *)
(* ------------------------------------------------------------------------------------------- *)
Theorem total_fuel_eq_components (x : inputsR) :
  I_total_fuel x = I_traj_fuel x + I_lto_fuel x + I_apu_fuel x + I_gse_fuel x.
Proof.
  unfold I_total_fuel, I_apu_fuel, I_gse_fuel.
  destruct (I_apu x); destruct (gse_on (i_cfg x)); rl.
Qed.

Lemma traj_fuel_is_window_sum (x : inputsR) :
  I_traj_fuel x = Rsum (Rslice (win_start (i_cfg x) (length (i_fm x)) (i_ncl x)) (win_stop (i_cfg x) (length (i_fm x)) (i_nde x))
                               (Rfuel_burn (i_fm x))).
Proof. reflexivity. Qed.

(* LTO fuel: time in mode * fuel flow, climb-out and approach only under lto accounting *)
Lemma lto_fuel_value (x : inputsR) :
  I_lto_fuel x =
    match cd (i_cfg x) with
    | CD_LTO => 1560 * tm_idle (l_ff (i_lto x)) + 240 * tm_approach (l_ff (i_lto x))
                + 132 * tm_climb (l_ff (i_lto x)) + 42 * tm_takeoff (l_ff (i_lto x))
    | CD_TRAJECTORY => 1560 * tm_idle (l_ff (i_lto x)) + 42 * tm_takeoff (l_ff (i_lto x))
    end.
Proof.
  unfold I_lto_fuel, lto_fuel. destruct (l_ff (i_lto x)) as [[[a b] c] d].
  destruct (cd (i_cfg x)); cbn; rl.
Qed.

(* ------------------------------------------------------------------------------------------- *)
(* 4. every kilogram counted once                                                                 *)
(* ------------------------------------------------------------------------------------------- *)
Lemma traj_const_sum (x : inputsR) s : const_has (i_cfg x) s = true ->
  Rsum (gl (I_traj_em x s)) = const_value (i_fuel x) s * I_traj_fuel x.
Proof.
  intros H. unfold I_traj_em, traj_em, traj_em_raw, traj_idx_raw. rewrite H. cbn [option_map gl].
  rewrite map2_repeat by apply fuel_burn_length.
  unfold zero_outside. rewrite zo_from_map_mul, Rsum_map_mul.
  change (Rzo_from 0) with Rzo. rewrite sum_zero_outside. reflexivity.
Qed.

Lemma lto_const_sum (x : inputsR) s : const_has (i_cfg x) s = true ->
  Rtm_sum (gtm (I_lto_em x s)) = const_value (i_fuel x) s * I_lto_fuel x.
Proof.
  intros H. unfold I_lto_em, lto_em, lto_idx, lto_idx_raw, I_lto_fuel, lto_fuel, Rtm_sum. rewrite H.
  cbn [option_map gtm]. destruct (l_ff (i_lto x)) as [[[a b] c] d].
  destruct (cd (i_cfg x)); cbn; rl.
Qed.

(* trajectory + LTO amount of a constant-EI species = EI * (trajectory fuel + LTO fuel): CO2, H2O *)
Theorem fuel_counted_once (x : inputsR) s : const_has (i_cfg x) s = true ->
  Rsum (gl (I_traj_em x s)) + Rtm_sum (gtm (I_lto_em x s))
  = const_value (i_fuel x) s * (I_traj_fuel x + I_lto_fuel x).
Proof. intros H. rewrite traj_const_sum, lto_const_sum by exact H. rl. Qed.

Theorem fuel_counted_once_CO2 (x : inputsR) : co2_on (i_cfg x) = true ->
  Rsum (gl (I_traj_em x CO2)) + Rtm_sum (gtm (I_lto_em x CO2)) = f_EI_CO2 (i_fuel x) * (I_traj_fuel x + I_lto_fuel x).
Proof. intros H. apply (fuel_counted_once x CO2). rewrite const_has_CO2. exact H. Qed.

Theorem fuel_counted_once_H2O (x : inputsR) : h2o_on (i_cfg x) = true ->
  Rsum (gl (I_traj_em x H2O)) + Rtm_sum (gtm (I_lto_em x H2O)) = f_EI_H2O (i_fuel x) * (I_traj_fuel x + I_lto_fuel x).
Proof. intros H. apply (fuel_counted_once x H2O). rewrite const_has_H2O. exact H. Qed.

(* trajectory accounting: the whole fuel-mass drop, first point to last, each segment once;
   LTO supplies taxi/idle and take-off only *)
Theorem fuel_counted_once_trajectory_mode (x : inputsR) : cd (i_cfg x) = CD_TRAJECTORY -> i_fm x <> [] ->
  I_traj_fuel x = hd 0 (i_fm x) - last (i_fm x) 0
  /\ I_lto_fuel x = 1560 * tm_idle (l_ff (i_lto x)) + 42 * tm_takeoff (l_ff (i_lto x)).
Proof.
  intros M NE. split.
  - rewrite traj_fuel_is_window_sum. unfold win_start, win_stop. rewrite M.
    destruct (i_fm x) as [|f0 r] eqn:E; [congruence|]. rewrite <- E.
    rewrite window_fuel_telescopes; rewrite E; cbn [length]; try lia.
    cbn [Nat.max Nat.pred hd nth]. rewrite <- (nth_last (f0 :: r) 0). cbn [length Nat.pred]. reflexivity.
  - rewrite lto_fuel_value, M. reflexivity.
Qed.

(* Python slice-bound normalisation stays inside the sequence, and is the identity on ordinary bounds *)
Lemma norm_bound_le n k : (norm_bound n k <= n)%nat.
Proof. unfold norm_bound. destruct (k <? 0)%Z eqn:E; [apply Z.ltb_lt in E|]; lia. Qed.
Lemma norm_bound_ordinary n k : (0 <= k <= Z.of_nat n)%Z -> norm_bound n k = Z.to_nat k.
Proof. intros H. unfold norm_bound. destruct (k <? 0)%Z eqn:E; [apply Z.ltb_lt in E|]; lia. Qed.

(* lto accounting, ANY integer phase counts: the trajectory contributes exactly the fuel-mass drop over the
   window [a, b) = the Python slice [n_climb : n - n_descent]; climb-out and approach come from the full LTO cycle *)
Theorem fuel_counted_once_lto_mode (x : inputsR) : cd (i_cfg x) = CD_LTO ->
  let n := length (i_fm x) in
  let a := norm_bound n (i_ncl x) in let b := norm_bound n (Z.of_nat n - i_nde x) in
  (a <= b)%nat -> (1 <= b)%nat ->
  I_traj_fuel x = nth (Nat.pred (Nat.max a 1)) (i_fm x) 0 - nth (Nat.pred b) (i_fm x) 0
  /\ I_lto_fuel x = 1560 * tm_idle (l_ff (i_lto x)) + 240 * tm_approach (l_ff (i_lto x))
                    + 132 * tm_climb (l_ff (i_lto x)) + 42 * tm_takeoff (l_ff (i_lto x)).
Proof.
  intros M n a b Hab Hb. split.
  - rewrite traj_fuel_is_window_sum. unfold win_start, win_stop. rewrite M.
    apply window_fuel_telescopes; subst n a b; try assumption. apply norm_bound_le.
  - rewrite lto_fuel_value, M. reflexivity.
Qed.

(* the ordinary case: 0 <= n_climb, 0 <= n_descent, n_climb + n_descent <= n *)
Corollary fuel_counted_once_lto_mode_ordinary (x : inputsR) : cd (i_cfg x) = CD_LTO ->
  let n := length (i_fm x) in
  (0 <= i_ncl x)%Z -> (0 <= i_nde x)%Z -> (i_ncl x + i_nde x <= Z.of_nat n)%Z -> (i_nde x < Z.of_nat n)%Z ->
  I_traj_fuel x = nth (Nat.pred (Nat.max (Z.to_nat (i_ncl x)) 1)) (i_fm x) 0
                  - nth (Nat.pred (n - Z.to_nat (i_nde x))) (i_fm x) 0.
Proof.
  intros M n H1 H2 H3 H4.
  destruct (fuel_counted_once_lto_mode x M) as [E _]; fold n.
  - rewrite !norm_bound_ordinary by lia. lia.
  - rewrite norm_bound_ordinary by lia. lia.
  - fold n in E. rewrite !norm_bound_ordinary in E by lia. rewrite E.
    replace (Z.to_nat (Z.of_nat n - i_nde x)) with (n - Z.to_nat (i_nde x))%nat by lia. reflexivity.
Qed.

Theorem lto_mode_empty_window (x : inputsR) : cd (i_cfg x) = CD_LTO ->
  let n := length (i_fm x) in
  (norm_bound n (Z.of_nat n - i_nde x) <= norm_bound n (i_ncl x))%nat -> I_traj_fuel x = 0.
Proof.
  intros M n H. rewrite traj_fuel_is_window_sum. unfold win_start, win_stop. rewrite M.
  apply empty_window_fuel. exact H.
Qed.

(* ------------------------------------------------------------------------------------------- *)
(* 5. NO + NO2 + HONO = NOx in every component                                                    *)
(* ------------------------------------------------------------------------------------------- *)
Definition tm_add3 (a b c : tmvR) : tmvR :=
  let '(a1, a2, a3, a4) := a in let '(b1, b2, b3, b4) := b in let '(c1, c2, c3, c4) := c in
  (a1 + b1 + c1, a2 + b2 + c2, a3 + b3 + c3, a4 + b4 + c4).
Definition tm_add2 (a b : tmvR) : tmvR :=
  let '(a1, a2, a3, a4) := a in let '(b1, b2, b3, b4) := b in (a1 + b1, a2 + b2, a3 + b3, a4 + b4).

(* the speciation fractions of the model sum to one in every thrust mode *)
Lemma speciation_sums_to_one :
  tm_add3 (@sp_no RNum) (@sp_no2 RNum) (@sp_hono RNum) = (1, 1, 1, 1).
Proof.
  unfold tm_add3, sp_no, sp_no2, sp_hono, noL, noA, noH, no2L, no2A, no2H, honoL, honoA, honoH, c100, c100i.
  rnum. repeat f_equal; field.
Qed.

Lemma tm4_eq (a b c d a' b' c' d' : R) : a = a' -> b = b' -> c = c' -> d = d' -> (a, b, c, d) = (a', b', c', d').
Proof. intros; subst; reflexivity. Qed.

Lemma speciation_components :
  let '(n1, n2, n3, n4) := @sp_no RNum in let '(m1, m2, m3, m4) := @sp_no2 RNum in
  let '(h1, h2, h3, h4) := @sp_hono RNum in
  n1 + m1 + h1 = 1 /\ n2 + m2 + h2 = 1 /\ n3 + m3 + h3 = 1 /\ n4 + m4 + h4 = 1.
Proof.
  pose proof speciation_sums_to_one as H. unfold tm_add3 in H.
  destruct (@sp_no RNum) as [[[n1 n2] n3] n4], (@sp_no2 RNum) as [[[m1 m2] m3] m4],
           (@sp_hono RNum) as [[[h1 h2] h3] h4].
  inversion H. repeat split; reflexivity.
Qed.

Theorem nox_speciation_lto_idx (x : inputsR) :
  tm_add3 (gtm (I_lto_idx x NO)) (gtm (I_lto_idx x NO2)) (gtm (I_lto_idx x HONO)) = gtm (I_lto_idx x NOx).
Proof.
  pose proof speciation_components as S.
  unfold I_lto_idx, lto_idx, lto_idx_raw. cbn [const_has lto_tab_has].
  destruct (@sp_no RNum) as [[[n1 n2] n3] n4], (@sp_no2 RNum) as [[[m1 m2] m3] m4],
           (@sp_hono RNum) as [[[h1 h2] h3] h4]. destruct S as (S1 & S2 & S3 & S4).
  destruct (switch_on (i_cfg x) S_nox); cbn [lto_var_has lto_zero_has option_map gtm].
  - destruct (l_nox (i_lto x)) as [[[a b] c] d].
    destruct (cd (i_cfg x)); cbn; apply tm4_eq; rnum; nra.
  - cbn. apply tm4_eq; rl.
Qed.

Theorem nox_speciation_lto_em (x : inputsR) :
  tm_add3 (gtm (I_lto_em x NO)) (gtm (I_lto_em x NO2)) (gtm (I_lto_em x HONO)) = gtm (I_lto_em x NOx).
Proof.
  pose proof (nox_speciation_lto_idx x) as H. unfold I_lto_em, lto_em. unfold I_lto_idx in H.
  destruct (@lto_fuel RNum (i_cfg x) (i_lto x)) as [[[f1 f2] f3] f4].
  destruct (lto_idx _ _ _ _ NO) as [[[[a1 a2] a3] a4]|], (lto_idx _ _ _ _ NO2) as [[[[b1 b2] b3] b4]|],
           (lto_idx _ _ _ _ HONO) as [[[[c1 c2] c3] c4]|], (lto_idx _ _ _ _ NOx) as [[[[d1 d2] d3] d4]|];
    cbn [option_map gtm tm_add3 tm_mul] in *;
    inversion H; subst; apply tm4_eq; rnum; nra.
Qed.

Theorem nox_speciation_apu (x : inputsR) :
  gr (I_apu_idx x NO) + gr (I_apu_idx x NO2) + gr (I_apu_idx x HONO) = gr (I_apu_idx x NOx)
  /\ gr (I_apu_em x NO) + gr (I_apu_em x NO2) + gr (I_apu_em x HONO) = gr (I_apu_em x NOx).
Proof.
  pose proof speciation_components as S.
  unfold I_apu_em, I_apu_idx, apu_em, apu_idx. destruct (I_apu x) as [a|]; [|cbn; split; rl].
  cbn [apu_has option_map gr].
  destruct (@sp_no RNum) as [[[n1 n2] n3] n4], (@sp_no2 RNum) as [[[m1 m2] m3] m4],
           (@sp_hono RNum) as [[[h1 h2] h3] h4]. destruct S as (S1 & S2 & S3 & S4).
  cbn [tm_takeoff]. split; rnum; nra.
Qed.

Lemma gse_split_sums_to_one : @gse_f_no RNum + @gse_f_no2 RNum + @gse_f_hono RNum = 1.
Proof. unfold gse_f_no, gse_f_no2, gse_f_hono. rnum. field. Qed.

Theorem nox_speciation_gse (x : inputsR) :
  gr (I_gse_em x NO) + gr (I_gse_em x NO2) + gr (I_gse_em x HONO) = gr (I_gse_em x NOx).
Proof.
  pose proof gse_split_sums_to_one as S.
  unfold I_gse_em, gse_em. destruct (gse_on (i_cfg x)); [|cbn; rl].
  destruct (@gse_nominal RNum (i_class x)) as [[[[co2 nox] hc] co] pm]. cbn [gr]. rnum. nra.
Qed.

(* trajectory: the EI method supplies NOx and its three parts per point (property C12); if they close
   per point, the windowed indices and the amounts close per point as well *)
Lemma traj_idx_raw_nox (x : inputsR) s : s = NOx \/ s = NO \/ s = NO2 \/ s = HONO ->
  traj_idx_raw (i_cfg x) (i_fuel x) (length (i_fm x)) (I_orc x) s
  = if traj_var_has (i_cfg x) NOx then lookup s (I_orc x) else None.
Proof. intros [->|[->|[->| ->]]]; reflexivity. Qed.

Theorem nox_speciation_traj (x : inputsR) nx no n2 ho : aug_lengths x ->
  lookup NOx (I_orc x) = Some nx -> lookup NO (I_orc x) = Some no ->
  lookup NO2 (I_orc x) = Some n2 -> lookup HONO (I_orc x) = Some ho ->
  (forall i, nth i no 0 + nth i n2 0 + nth i ho 0 = nth i nx 0) ->
  forall i,
    nth i (gl (I_traj_idx x NO)) 0 + nth i (gl (I_traj_idx x NO2)) 0 + nth i (gl (I_traj_idx x HONO)) 0
      = nth i (gl (I_traj_idx x NOx)) 0
    /\ nth i (gl (I_traj_em x NO)) 0 + nth i (gl (I_traj_em x NO2)) 0 + nth i (gl (I_traj_em x HONO)) 0
      = nth i (gl (I_traj_em x NOx)) 0.
Proof.
  intros HL E1 E2 E3 E4 HC i.
  assert (IDX : nth i (gl (I_traj_idx x NO)) 0 + nth i (gl (I_traj_idx x NO2)) 0 + nth i (gl (I_traj_idx x HONO)) 0
                = nth i (gl (I_traj_idx x NOx)) 0).
  { unfold I_traj_idx, traj_idx. rewrite !traj_idx_raw_nox by tauto. rewrite E1, E2, E3, E4.
    destruct (traj_var_has (i_cfg x) NOx); cbn [option_map gl].
    - rewrite !nth_zo. specialize (HC i). destruct (in_window _ _ i); rl.
    - destruct i; cbn; rl. }
  split; [exact IDX|].
  rewrite !(segment_eq_index_times_fuel x _ HL). rewrite <- IDX. rl.
Qed.

(* ------------------------------------------------------------------------------------------- *)
(* 6. SO2 + SO4 = SOx in every component                                                          *)
(* ------------------------------------------------------------------------------------------- *)
Lemma ei_sox_splits (f : @fuel RNum) : let '(sox, so2, so4) := ei_sox f in so2 + so4 = sox.
Proof. unfold ei_sox. reflexivity. Qed.

Lemma const_value_sox (f : @fuel RNum) : const_value f SO2 + const_value f SO4 = const_value f SOx.
Proof. unfold const_value, ei_sox. reflexivity. Qed.

Lemma nth_repeat_R (v : R) n i : nth i (repeat v n) 0 = if (i <? n)%nat then v else 0.
Proof.
  revert i; induction n as [|n IH]; intros i; cbn [repeat]; [destruct i; reflexivity|].
  destruct i; cbn [nth]; [reflexivity|]. rewrite IH. reflexivity.
Qed.

Theorem sox_split_traj (x : inputsR) i :
  nth i (gl (I_traj_idx x SO2)) 0 + nth i (gl (I_traj_idx x SO4)) 0 = nth i (gl (I_traj_idx x SOx)) 0
  /\ nth i (gl (I_traj_em x SO2)) 0 + nth i (gl (I_traj_em x SO4)) 0 = nth i (gl (I_traj_em x SOx)) 0.
Proof.
  assert (HL : forall s, s = SOx \/ s = SO2 \/ s = SO4 ->
             forall j, nth j (gl (I_traj_em x s)) 0 = nth j (gl (I_traj_idx x s)) 0 * nth j (Rfuel_burn (i_fm x)) 0).
  { intros s Hs j. unfold I_traj_em, I_traj_idx, traj_em, traj_idx, traj_em_raw, traj_idx_raw.
    rewrite (const_has_sox _ s Hs). destruct (sox_on (i_cfg x)).
    - cbn [option_map gl]. rewrite !nth_zo. destruct (in_window _ _ j); [|rl].
      apply nth_map2_mul. rewrite repeat_length, fuel_burn_length. reflexivity.
    - assert (traj_var_has (i_cfg x) s = false) as -> by (destruct Hs as [->|[->| ->]]; reflexivity).
      destruct j; cbn; rl. }
  assert (IDX : nth i (gl (I_traj_idx x SO2)) 0 + nth i (gl (I_traj_idx x SO4)) 0 = nth i (gl (I_traj_idx x SOx)) 0).
  { unfold I_traj_idx, traj_idx, traj_idx_raw.
    rewrite !const_has_sox by tauto. destruct (sox_on (i_cfg x)).
    - cbn [option_map gl]. rewrite !nth_zo, !nth_repeat_R.
      pose proof (const_value_sox (i_fuel x)).
      destruct (in_window _ _ i), (i <? length (i_fm x))%nat; rl.
    - cbn. destruct i; cbn; rl. }
  split; [exact IDX|]. rewrite !HL by tauto. rewrite <- IDX. rl.
Qed.

Theorem sox_split_lto (x : inputsR) :
  tm_add2 (gtm (I_lto_idx x SO2)) (gtm (I_lto_idx x SO4)) = gtm (I_lto_idx x SOx)
  /\ tm_add2 (gtm (I_lto_em x SO2)) (gtm (I_lto_em x SO4)) = gtm (I_lto_em x SOx).
Proof.
  pose proof (const_value_sox (i_fuel x)) as E.
  unfold I_lto_em, lto_em, I_lto_idx, lto_idx, lto_idx_raw. rewrite !const_has_sox by tauto.
  destruct (@lto_fuel RNum (i_cfg x) (i_lto x)) as [[[f1 f2] f3] f4].
  destruct (sox_on (i_cfg x)).
  - cbn [option_map gtm tm_const]. destruct (cd (i_cfg x)); cbn [tm_zero_ac tm_mul tm_add2];
      split; apply tm4_eq; rnum; nra.
  - cbn. split; apply tm4_eq; rl.
Qed.

Theorem sox_split_apu (x : inputsR) :
  gr (I_apu_idx x SO2) + gr (I_apu_idx x SO4) = gr (I_apu_idx x SOx)
  /\ gr (I_apu_em x SO2) + gr (I_apu_em x SO4) = gr (I_apu_em x SOx).
Proof.
  unfold I_apu_em, I_apu_idx, apu_em, apu_idx. destruct (I_apu x) as [a|]; [|cbn; split; rl].
  cbn [apu_has option_map gr]. split; rnum; nra.
Qed.

Theorem sox_split_gse (x : inputsR) : gr (I_gse_em x SO2) + gr (I_gse_em x SO4) = gr (I_gse_em x SOx).
Proof.
  unfold I_gse_em, gse_em. destruct (gse_on (i_cfg x)); [|cbn; rl].
  destruct (@gse_nominal RNum (i_class x)) as [[[[co2 nox] hc] co] pm]. cbn [gr]. rl.
Qed.

(* ------------------------------------------------------------------------------------------- *)
(* 7. non-negativity (over the reals; finiteness is a binary64 notion and is not a theorem)       *)
(* ------------------------------------------------------------------------------------------- *)
Definition tm_nonneg (v : tmvR) : Prop := let '(a, b, c, d) := v in 0 <= a /\ 0 <= b /\ 0 <= c /\ 0 <= d.

(* carbon balance of the APU CO2 index (apu.py): the carbon emitted as CO, HC and PM must not exceed the
   carbon in the fuel.  Stated on the APU data alone (PM10 is an upper bound of the PM actually split). *)
Definition carbon_ok (a : @apu_data RNum) : Prop :=
  (44 / 28) * a_co a + (44 / (82 / 5)) * a_hc a
  + ((44 / (55 / 4)) * (1 - 95 / 100) + (44 / 12) * (95 / 100) * (95 / 100)) * a_pm10 a <= 3160.

Record nonneg_inputs (x : inputsR) : Prop := {
  nn_fm : forall i, (S i < length (i_fm x))%nat -> nth (S i) (i_fm x) 0 <= nth i (i_fm x) 0;
  nn_len : oracle_lengths x;
  nn_orc : forall s l i, lookup s (i_orc_traj x) = Some l -> 0 <= nth i l 0;
  nn_orc_lto : forall s v, lookup s (i_orc_lto x) = Some v -> tm_nonneg v;
  nn_co2 : 0 < f_EI_CO2 (i_fuel x);
  nn_h2o : 0 <= f_EI_H2O (i_fuel x);
  nn_energy : 0 <= f_energy (i_fuel x);
  nn_sulfur : 0 <= f_sulfur (i_fuel x);
  nn_yield : 0 <= f_yield (i_fuel x) <= 1;
  nn_lc : forall lc, f_lifecycle (i_fuel x) = Some lc -> 0 <= lc;
  nn_ff : tm_nonneg (l_ff (i_lto x));
  nn_nox : tm_nonneg (l_nox (i_lto x));
  nn_hc : tm_nonneg (l_hc (i_lto x));
  nn_co : tm_nonneg (l_co (i_lto x));
  nn_apu : forall a, i_apu x = Some a ->
      0 <= a_fuel a /\ 0 <= a_nox a /\ 0 <= a_co a /\ 0 <= a_hc a /\ 0 <= a_pm10 a /\ carbon_ok a }.

Lemma const_value_nonneg (x : inputsR) s : nonneg_inputs x -> 0 <= const_value (i_fuel x) s.
Proof.
  intros H. pose proof (nn_co2 x H). pose proof (nn_h2o x H). pose proof (nn_sulfur x H).
  pose proof (nn_yield x H) as [Y0 Y1].
  assert (P1 : 0 <= f_sulfur (i_fuel x) * (1 - f_yield (i_fuel x))) by (apply Rmult_le_pos; lra).
  assert (P2 : 0 <= f_sulfur (i_fuel x) * f_yield (i_fuel x)) by (apply Rmult_le_pos; lra).
  destruct s; unfold const_value, ei_sox, MW_SO2, MW_SO4, MW_S; rnum; lra.
Qed.

Lemma speciation_nonneg :
  tm_nonneg (@sp_no RNum) /\ tm_nonneg (@sp_no2 RNum) /\ tm_nonneg (@sp_hono RNum).
Proof.
  unfold tm_nonneg, sp_no, sp_no2, sp_hono, noL, noA, noH, no2L, no2A, no2H, honoL, honoA, honoH, c100, c100i.
  rnum. repeat split; lra.
Qed.

Lemma tm_get_nonneg m (v : tmvR) : tm_nonneg v -> 0 <= tm_get m v.
Proof. dtm v. unfold tm_nonneg. intros (?&?&?&?). destruct m; cbn; assumption. Qed.

(* the derived NO / NO2 / HONO arrays inherit non-negativity from the NOx array *)
Lemma nn_orc_aug (x : inputsR) : nonneg_inputs x ->
  forall s l i, lookup s (I_orc x) = Some l -> 0 <= nth i l 0.
Proof.
  intros H s l i. destruct speciation_nonneg as (N1 & N2 & N3). destruct (nn_len x H) as [HO HS].
  unfold I_orc. rewrite lookup_aug.
  assert (P : forall sp nx, lookup NOx (i_orc_traj x) = Some nx -> tm_nonneg sp ->
                            0 <= nth i (Rpart (l_ff (i_lto x)) sp nx (i_sls x)) 0).
  { intros sp nx E Hsp. pose proof (HO NOx nx E) as Ln. pose proof (nn_orc x H NOx nx i E) as Pn.
    rewrite nth_part by (cbv [T RNum] in *; congruence).
    match goal with |- context [if ?b then _ else _] => destruct b end; [|rl].
    apply Rmult_le_pos; [exact Pn|apply tm_get_nonneg, Hsp]. }
  destruct s; try apply (nn_orc x H);
    (match goal with |- context [option_map _ ?q] => destruct q as [nx0|] eqn:E end; cbn [option_map]; intros K; [|discriminate K];
     inversion K; subst; eapply P; [exact E|assumption]).
Qed.

Lemma tm_nonneg_mul (a b : tmvR) : tm_nonneg a -> tm_nonneg b -> tm_nonneg (tm_mul a b).
Proof.
  dtm a; dtm b. unfold tm_nonneg, tm_mul. intros (?&?&?&?) (?&?&?&?). rnum.
  repeat split; apply Rmult_le_pos; assumption.
Qed.
Lemma tm_nonneg_zero_ac (a : tmvR) : tm_nonneg a -> tm_nonneg (tm_zero_ac a).
Proof. dtm a. unfold tm_nonneg, tm_zero_ac. intros (?&?&?&?). rnum. repeat split; lra. Qed.
Lemma tm_nonneg_const (v : R) : 0 <= v -> tm_nonneg (@tm_const RNum v).
Proof. unfold tm_nonneg, tm_const. tauto. Qed.
Lemma tm_nonneg_sum (a : tmvR) : tm_nonneg a -> 0 <= Rtm_sum a.
Proof. dtm a. unfold tm_nonneg, Rtm_sum, tm_sum. intros (?&?&?&?). rl. Qed.

Lemma lto_tims_nonneg : tm_nonneg (@lto_tims RNum).
Proof. unfold tm_nonneg, lto_tims, c_min2s. rnum. repeat split; lra. Qed.

Lemma lto_fuel_nonneg (x : inputsR) : nonneg_inputs x -> tm_nonneg (lto_fuel (i_cfg x) (i_lto x)).
Proof.
  intros H. unfold lto_fuel.
  assert (tm_nonneg (tm_mul lto_tims (l_ff (i_lto x)))) by (apply tm_nonneg_mul; [apply lto_tims_nonneg|apply (nn_ff x H)]).
  destruct (cd (i_cfg x)); [apply tm_nonneg_zero_ac|]; assumption.
Qed.

Lemma lto_idx_nonneg (x : inputsR) s : nonneg_inputs x -> tm_nonneg (gtm (I_lto_idx x s)).
Proof.
  intros H. destruct speciation_nonneg as (N1 & N2 & N3).
  assert (Z : tm_nonneg (0, 0, 0, 0)) by (unfold tm_nonneg; lra).
  unfold I_lto_idx, lto_idx, lto_idx_raw.
  assert (R : forall o : option tmvR, tm_nonneg (gtm o) ->
            tm_nonneg (gtm (option_map (fun v => match cd (i_cfg x) with CD_LTO => v | CD_TRAJECTORY => tm_zero_ac v end) o))).
  { intros [v|] Hv; cbn in *; [|exact Z]. destruct (cd (i_cfg x)); [apply tm_nonneg_zero_ac|]; exact Hv. }
  apply R.
  destruct (const_has (i_cfg x) s); [apply tm_nonneg_const, const_value_nonneg, H|].
  destruct (lto_tab_has (i_cfg x) s).
  { cbn [gtm]. destruct s; try apply tm_nonneg_mul; try apply (nn_nox x H); try apply (nn_hc x H);
      try apply (nn_co x H); try assumption; apply tm_nonneg_const; rl. }
  destruct (lto_var_has (i_cfg x) s).
  { destruct (lookup s (i_orc_lto x)) as [v|] eqn:E; [apply (nn_orc_lto x H s v E)|exact Z]. }
  destruct (lto_zero_has (i_cfg x) s); [apply tm_nonneg_const; rl|exact Z].
Qed.

Theorem lto_amounts_nonneg (x : inputsR) s : nonneg_inputs x -> tm_nonneg (gtm (I_lto_em x s)).
Proof.
  intros H. pose proof (lto_idx_nonneg x s H) as HI. unfold I_lto_em, lto_em. unfold I_lto_idx in HI.
  destruct (lto_idx _ _ _ _ s) as [v|]; cbn [option_map gtm] in *.
  - apply tm_nonneg_mul; [exact HI|apply lto_fuel_nonneg, H].
  - exact HI.
Qed.

Theorem traj_amounts_nonneg (x : inputsR) s i : nonneg_inputs x -> 0 <= nth i (gl (I_traj_em x s)) 0.
Proof.
  intros H. rewrite (segment_eq_index_times_fuel x s (aug_lengths_of x (nn_len x H))).
  apply Rmult_le_pos; [|apply fuel_burn_nonneg, (nn_fm x H)].
  unfold I_traj_idx, traj_idx, traj_idx_raw.
  destruct (const_has (i_cfg x) s).
  - cbn [option_map gl]. rewrite nth_zo, nth_repeat_R. pose proof (const_value_nonneg x s H).
    destruct (in_window _ _ i), (i <? length (i_fm x))%nat; rl.
  - destruct (traj_var_has (i_cfg x) s); [|destruct i; cbn; rl].
    destruct (lookup s (I_orc x)) as [l|] eqn:E; cbn [option_map gl]; [|destruct i; cbn; rl].
    rewrite nth_zo. pose proof (nn_orc_aug x H s l i E). destruct (in_window _ _ i); rl.
Qed.

Lemma apu_pm10_bounds (x : inputsR) a : nonneg_inputs x -> i_apu x = Some a ->
  0 <= apu_pm10 (i_cfg x) (i_fuel x) (i_lto x) (i_orc_lto x) a <= a_pm10 a
  /\ 0 <= apu_so (i_cfg x) (i_fuel x) (i_lto x) (i_orc_lto x) a SO2
  /\ 0 <= apu_so (i_cfg x) (i_fuel x) (i_lto x) (i_orc_lto x) a SO4.
Proof.
  intros H Ha. destruct (nn_apu x H a Ha) as (A1 & A2 & A3 & A4 & A5 & A6).
  assert (S : forall s, 0 <= apu_so (i_cfg x) (i_fuel x) (i_lto x) (i_orc_lto x) a s).
  { intros s. unfold apu_so. destruct (apu_running_b a); [|rl].
    pose proof (lto_idx_nonneg x s H) as HI. unfold I_lto_idx in HI.
    change (@getd_tm RNum) with gtm.
    destruct (gtm (lto_idx (i_cfg x) (i_fuel x) (i_lto x) (i_orc_lto x) s)) as [[[a1 a2] a3] a4].
    cbn [tm_idle]. destruct HI as (?&?&?&?). assumption. }
  split; [|split; apply S]. pose proof (S SO4) as S4. unfold apu_pm10, nmax. rnum.
  destruct (Rltb _ 0) eqn:E; [apply Rltb_true in E|apply Rltb_false in E]; lra.
Qed.

Theorem apu_amounts_nonneg (x : inputsR) s : nonneg_inputs x -> 0 <= gr (I_apu_em x s).
Proof.
  intros H. unfold I_apu_em. destruct (I_apu x) as [a|] eqn:Ea; [|cbn; rl].
  assert (Ha : i_apu x = Some a) by (unfold I_apu in Ea; destruct (apu_on (i_cfg x)); congruence).
  destruct (nn_apu x H a Ha) as (A1 & A2 & A3 & A4 & A5 & A6).
  destruct (apu_pm10_bounds x a H Ha) as ((P0 & P1) & S2 & S4).
  destruct speciation_nonneg as (N1 & N2 & N3).
  unfold apu_em, apu_idx. destruct (apu_has (i_cfg x) s); [|cbn; rl]. cbn [option_map gr].
  assert (F : 0 <= apu_fuel a) by (unfold apu_fuel, apu_time; rnum; nra).
  apply Rmult_le_pos; [|exact F].
  set (pm := apu_pm10 (i_cfg x) (i_fuel x) (i_lto x) (i_orc_lto x) a) in *.
  assert (Q1 : apu_pmnvol (i_cfg x) (i_fuel x) (i_lto x) (i_orc_lto x) a = pm * (95 / 100))
    by (unfold apu_pmnvol, apu_bc; rnum; reflexivity).
  assert (Q2 : apu_pmvol (i_cfg x) (i_fuel x) (i_lto x) (i_orc_lto x) a = pm - pm * (95 / 100))
    by (unfold apu_pmvol; rewrite Q1; rnum; reflexivity).
  destruct (@sp_no RNum) as [[[n1 n2] n3] n4], (@sp_no2 RNum) as [[[m1 m2] m3] m4],
           (@sp_hono RNum) as [[[h1 h2] h3] h4].
  destruct N1 as (?&?&?&?), N2 as (?&?&?&?), N3 as (?&?&?&?).
  pose proof (nn_h2o x H).
  destruct s; cbn [tm_takeoff]; rewrite ?Q1, ?Q2; try (rnum; nra).
  (* CO2 by carbon balance *)
  unfold apu_co2. rewrite Q1, Q2. destruct (apu_running_b a); [|rl].
  unfold carbon_ok in A6. rnum. nra.
Qed.

Lemma gse_constants :
  0 <= @gse_so4 RNum /\ 0 <= @gse_so2 RNum /\ @gse_so4 RNum <= 1 /\ 0 <= @gse_f_no RNum /\ 0 <= @gse_f_no2 RNum
  /\ 0 <= @gse_f_hono RNum /\ 0 <= @gse_half RNum.
Proof.
  unfold gse_so4, gse_so2, gse_fsc, gse_kg2g, gse_eps, gse_mw_so4, gse_mw_so2, gse_mw_o2, gse_f_no, gse_f_no2,
    gse_f_hono, gse_half. rnum. repeat split; lra.
Qed.

Lemma gse_nominal_bounds k :
  let '(co2, nox, hc, co, pm) := @gse_nominal RNum k in 0 < co2 /\ 0 <= nox /\ 0 <= hc /\ 0 <= co /\ 1 <= pm.
Proof. destruct k; cbn; rnum; repeat split; lra. Qed.

Lemma gse_fuel_nonneg (x : inputsR) : nonneg_inputs x -> 0 <= gse_fuel (i_fuel x) (i_class x).
Proof.
  intros H. pose proof (nn_co2 x H). pose proof (gse_nominal_bounds (i_class x)) as B. unfold gse_fuel.
  destruct (@gse_nominal RNum (i_class x)) as [[[[co2 nox] hc] co] pm]. destruct B as (B1&_).
  rnum. apply Rlt_le, Rdiv_lt_0_compat; assumption.
Qed.

Theorem gse_amounts_nonneg (x : inputsR) s : nonneg_inputs x -> 0 <= gr (I_gse_em x s).
Proof.
  intros H. pose proof (gse_fuel_nonneg x H) as F. pose proof (nn_h2o x H).
  destruct gse_constants as (C1&C2&C3&C4&C5&C6&C7).
  pose proof (gse_nominal_bounds (i_class x)) as B.
  unfold I_gse_em, gse_em, gse_fuel in *. destruct (gse_on (i_cfg x)); [|cbn; rl].
  destruct (@gse_nominal RNum (i_class x)) as [[[[co2 nox] hc] co] pm]. destruct B as (B1&B2&B3&B4&B5).
  cbn [gr]. destruct s; rnum; nra.
Qed.

Lemma traj_fuel_nonneg (x : inputsR) : nonneg_inputs x -> 0 <= I_traj_fuel x.
Proof.
  intros H. rewrite traj_fuel_is_window_sum, <- sum_zero_outside. apply Rsum_nonneg. intros i.
  rewrite nth_zo. pose proof (fuel_burn_nonneg (i_fm x) (nn_fm x H) i). destruct (in_window _ _ i); rl.
Qed.

Lemma fuel_drop_nonneg (x : inputsR) : nonneg_inputs x -> 0 <= hd 0 (i_fm x) - last (i_fm x) 0.
Proof.
  intros H. destruct (i_fm x) as [|f0 r] eqn:E; [cbn; rl|].
  pose proof (window_fuel_telescopes (f0 :: r) 0 (length (f0 :: r)) ltac:(lia) ltac:(cbn; lia) ltac:(lia)) as T.
  rewrite nth_last in T. change (Nat.pred (Nat.max 0 1)) with 0%nat in T. cbn [nth] in T. cbn [hd]. rewrite <- T.
  rewrite <- sum_zero_outside. apply Rsum_nonneg. intros i. rewrite nth_zo.
  assert (N : forall j, 0 <= nth j (Rfuel_burn (f0 :: r)) 0).
  { apply fuel_burn_nonneg. rewrite <- E. apply (nn_fm x H). }
  specialize (N i). destruct (in_window _ _ i); rl.
Qed.

Lemma lifecycle_nonneg (x : inputsR) : nonneg_inputs x -> 0 <= I_lifecycle x.
Proof.
  intros H. unfold I_lifecycle, lifecycle_adj. destruct (lifecycle_applies x); [|rl].
  destruct (f_lifecycle (i_fuel x)) as [lc|] eqn:E; [|rl].
  pose proof (nn_lc x H lc E). pose proof (nn_energy x H). pose proof (fuel_drop_nonneg x H).
  rnum. apply Rmult_le_pos; [assumption|]. apply Rmult_le_pos; assumption.
Qed.

Theorem totals_nonneg (x : inputsR) s : nonneg_inputs x -> 0 <= I_total x s.
Proof.
  intros H. rewrite total_eq_parts.
  assert (0 <= Rsum (gl (I_traj_em x s))) by (apply Rsum_nonneg; intros i; apply traj_amounts_nonneg, H).
  pose proof (tm_nonneg_sum _ (lto_amounts_nonneg x s H)).
  pose proof (apu_amounts_nonneg x s H). pose proof (gse_amounts_nonneg x s H).
  pose proof (lifecycle_nonneg x H). destruct s; rl.
Qed.

Theorem total_fuel_nonneg (x : inputsR) : nonneg_inputs x -> 0 <= I_total_fuel x.
Proof.
  intros H. rewrite total_fuel_eq_components.
  pose proof (traj_fuel_nonneg x H). pose proof (tm_nonneg_sum _ (lto_fuel_nonneg x H)) as L.
  change (Rtm_sum (lto_fuel (i_cfg x) (i_lto x))) with (I_lto_fuel x) in L.
  assert (0 <= I_apu_fuel x).
  { unfold I_apu_fuel. destruct (I_apu x) as [a|] eqn:Ea; [|rl].
    assert (Ha : i_apu x = Some a) by (unfold I_apu in Ea; destruct (apu_on (i_cfg x)); congruence).
    destruct (nn_apu x H a Ha) as (A1 & _). unfold apu_fuel, apu_time. rnum. nra. }
  assert (0 <= I_gse_fuel x) by (unfold I_gse_fuel; destruct (gse_on (i_cfg x)); [apply gse_fuel_nonneg, H|rl]).
  rl.
Qed.

(* all amounts together.  PARTIAL: (i) the APU carbon-balance hypothesis [carbon_ok] is an assumption on the
   APU data set (the harness reports whether the shipped APU_data.toml satisfies it); (ii) over the reals —
   finiteness / absence of overflow in binary64 is checked on the implementation only. *)
Theorem amounts_nonneg_partial (x : inputsR) : nonneg_inputs x ->
  (forall i, 0 <= nth i (Rfuel_burn (i_fm x)) 0)
  /\ (forall s i, 0 <= nth i (gl (I_traj_em x s)) 0)
  /\ (forall s, tm_nonneg (gtm (I_lto_em x s)))
  /\ (forall s, 0 <= gr (I_apu_em x s))
  /\ (forall s, 0 <= gr (I_gse_em x s))
  /\ (forall s, 0 <= I_total x s)
  /\ 0 <= I_total_fuel x.
Proof.
  intros H. repeat split.
  - apply fuel_burn_nonneg, (nn_fm x H).
  - intros; apply traj_amounts_nonneg, H.
  - intros; apply lto_amounts_nonneg, H.
  - intros; apply apu_amounts_nonneg, H.
  - intros; apply gse_amounts_nonneg, H.
  - intros; apply totals_nonneg, H.
  - apply total_fuel_nonneg, H.
Qed.

(* ------------------------------------------------------------------------------------------- *)
(* non-vacuity: a 6-point trajectory with a zero-burn segment, under either accounting mode       *)
(* ------------------------------------------------------------------------------------------- *)
Definition ex_cfg (m : cd_mode) : config :=
  mkConfig m true true true G_BFFM2 G_BFFM2 G_BFFM2 PV_FUEL_FLOW PN_NONE true true true.
Definition ex_fuel : @fuel RNum := @mkFuel RNum 3155.6 1233.3865 43.2 (Some 89) 600 0.02.
Definition ex_fm : list R := [2000; 1994; 1987.5; 1987.5; 1960; 1945].
Definition ex_orc : list (species * list R) :=
  [(NOx, [10; 10; 12; 12; 10; 8]); (HC, [1; 1; 1; 1; 1; 1]); (CO, [2; 2; 2; 2; 2; 2]);
   (PMvol, [0.1; 0.1; 0.1; 0.1; 0.1; 0.1]); (OCic, [0.1; 0.1; 0.1; 0.1; 0.1; 0.1])].
Definition ex_sls : list R := [0.1; 0.3; 0.6; 0.8; 0.4; 0.1].
Definition ex_lto : @lto_data RNum :=
  @mkLto RNum (0.25, 0.5, 0.9, 1.2) (8, 12, 32, 40) (4, 3, 1.5, 1) (20, 10, 3, 2).
Definition ex_apu : @apu_data RNum := @mkApu RNum 0.03 0.05 0.03 0.02 0.4.
Definition ex_inputs (m : cd_mode) : inputsR :=
  @mkInputs RNum (ex_cfg m) ex_fuel ex_fm 2%Z 2%Z ex_orc ex_sls ex_lto
            [(PMvol, (0.1, 0.1, 0.1, 0.1)); (OCic, (0.1, 0.1, 0.1, 0.1))] (Some ex_apu) AC_WIDE.

Lemma ex_lengths m : oracle_lengths (ex_inputs m).
Proof. split; [|reflexivity]. intros s l. destruct s; cbn; intros E; inversion E; reflexivity. Qed.

Lemma ex_nonneg m : nonneg_inputs (ex_inputs m).
Proof.
  constructor; cbn.
  - intros i Hi. do 6 (destruct i as [|i]; [cbn; lra|]). lia.
  - apply ex_lengths.
  - intros s l i. destruct s; cbn; intros E; inversion E; subst;
      do 6 (destruct i as [|i]; [cbn; lra|]); destruct i; cbn; lra.
  - intros s v. destruct s; cbn; intros E; inversion E; subst; cbn; lra.
  - lra.
  - lra.
  - lra.
  - lra.
  - lra.
  - intros lc E; inversion E; lra.
  - lra.
  - lra.
  - lra.
  - lra.
  - intros a E; inversion E; subst. unfold carbon_ok. cbn. lra.
Qed.

Lemma ex_nox_closes :
  forall i, nth i [9; 9; 10.8; 10.8; 9; 7.2] 0 + nth i [0.5; 0.5; 0.6; 0.6; 0.5; 0.4] 0
            + nth i [0.5; 0.5; 0.6; 0.6; 0.5; 0.4] 0 = nth i [10; 10; 12; 12; 10; 8] 0.
Proof. intros i. do 6 (destruct i as [|i]; [cbn; lra|]). destruct i; cbn; lra. Qed.

(* the zero-burn segment is really there, and the lto window is a proper one *)
Lemma ex_has_plateau : nth 3 (Rfuel_burn ex_fm) 0 = 0 /\ nth 4 (Rfuel_burn ex_fm) 0 = 27.5.
Proof. cbn. rnum. split; lra. Qed.
Lemma ex_lto_window_fuel : I_traj_fuel (ex_inputs CD_LTO) = 1994 - 1987.5.
Proof.
  destruct (fuel_counted_once_lto_mode (ex_inputs CD_LTO) eq_refl ltac:(cbn; lia) ltac:(cbn; lia)) as [E _].
  rewrite E. cbn. reflexivity.
Qed.


(* ------------------------------------------------------------------------------------------- *)
(* 5'. NO + NO2 + HONO = NOx along the trajectory, UNCONDITIONALLY (BFFM2 construction modelled)  *)
(* ------------------------------------------------------------------------------------------- *)
Lemma tm_get_speciation m : tm_get m (@sp_no RNum) + tm_get m (@sp_no2 RNum) + tm_get m (@sp_hono RNum) = 1.
Proof.
  pose proof speciation_components as S.
  destruct (@sp_no RNum) as [[[n1 n2] n3] n4], (@sp_no2 RNum) as [[[m1 m2] m3] m4],
           (@sp_hono RNum) as [[[h1 h2] h3] h4]. destruct S as (S1 & S2 & S3 & S4).
  destruct m; cbn; assumption.
Qed.

Lemma parts_close ffc (nx sls : list R) i : length nx = length sls ->
  nth i (Rpart ffc sp_no nx sls) 0 + nth i (Rpart ffc sp_no2 nx sls) 0 + nth i (Rpart ffc sp_hono nx sls) 0
  = nth i nx 0.
Proof.
  intros H. rewrite !nth_part by exact H. destruct (i <? length nx)%nat eqn:E.
  - pose proof (tm_get_speciation (thrust_cat ffc (nth i sls 0))) as S. rnum. nra.
  - apply Nat.ltb_ge in E. rewrite (nth_overflow nx) by exact E. rl.
Qed.

Lemma lookup_I_orc_parts (x : inputsR) (o : option (list R)) : lookup NOx (i_orc_traj x) = o ->
  lookup NOx (I_orc x) = o
  /\ lookup NO (I_orc x) = option_map (fun nx => Rpart (l_ff (i_lto x)) sp_no nx (i_sls x)) o
  /\ lookup NO2 (I_orc x) = option_map (fun nx => Rpart (l_ff (i_lto x)) sp_no2 nx (i_sls x)) o
  /\ lookup HONO (I_orc x) = option_map (fun nx => Rpart (l_ff (i_lto x)) sp_hono nx (i_sls x)) o.
Proof. intros E. unfold I_orc. rewrite !lookup_aug. subst o. repeat split; reflexivity. Qed.

Theorem nox_speciation_traj_unconditional (x : inputsR) : oracle_lengths x ->
  forall i,
    nth i (gl (I_traj_idx x NO)) 0 + nth i (gl (I_traj_idx x NO2)) 0 + nth i (gl (I_traj_idx x HONO)) 0
      = nth i (gl (I_traj_idx x NOx)) 0
    /\ nth i (gl (I_traj_em x NO)) 0 + nth i (gl (I_traj_em x NO2)) 0 + nth i (gl (I_traj_em x HONO)) 0
      = nth i (gl (I_traj_em x NOx)) 0.
Proof.
  intros HO i. pose proof (aug_lengths_of x HO) as HA. destruct HO as [HO HS].
  destruct (lookup NOx (i_orc_traj x)) as [nx|] eqn:E.
  - pose proof (HO NOx nx E) as Ln. destruct (lookup_I_orc_parts x _ E) as (L0 & L1 & L2 & L3).
    apply (nox_speciation_traj x nx _ _ _ HA L0 L1 L2 L3).
    intros j. apply parts_close. cbv [T RNum] in *. congruence.
  - destruct (lookup_I_orc_parts x _ E) as (L0 & L1 & L2 & L3). cbn [option_map] in *.
    assert (N : forall s, s = NOx \/ s = NO \/ s = NO2 \/ s = HONO -> lookup s (I_orc x) = None).
    { intros s [->|[->|[->| ->]]]; assumption. }
    assert (Z : forall s, s = NOx \/ s = NO \/ s = NO2 \/ s = HONO ->
                forall j, nth j (gl (I_traj_idx x s)) 0 = 0 /\ nth j (gl (I_traj_em x s)) 0 = 0).
    { intros s Hs j. unfold I_traj_em, I_traj_idx, traj_em, traj_idx, traj_em_raw.
      rewrite (traj_idx_raw_nox x s Hs), (N s Hs).
      destruct (traj_var_has (i_cfg x) NOx); cbn; destruct j; cbn; split; reflexivity. }
    destruct (Z NOx (or_introl eq_refl) i) as [A1 A2], (Z NO (or_intror (or_introl eq_refl)) i) as [B1 B2],
             (Z NO2 (or_intror (or_intror (or_introl eq_refl))) i) as [C1 C2],
             (Z HONO (or_intror (or_intror (or_intror eq_refl))) i) as [D1 D2].
    rewrite A1, A2, B1, B2, C1, C2, D1, D2. split; rl.
Qed.

(* ------------------------------------------------------------------------------------------- *)
(* PM splits of the ground components                                                             *)
(* ------------------------------------------------------------------------------------------- *)
Theorem apu_pm_split (x : inputsR) a : I_apu x = Some a ->
  gr (I_apu_idx x PMvol) + gr (I_apu_idx x PMnvol) = apu_pm10 (i_cfg x) (i_fuel x) (i_lto x) (i_orc_lto x) a
  /\ gr (I_apu_idx x PMnvol) = (95 / 100) * apu_pm10 (i_cfg x) (i_fuel x) (i_lto x) (i_orc_lto x) a.
Proof.
  intros H. unfold I_apu_idx. rewrite H. unfold apu_idx. cbn [apu_has gr]. unfold apu_pmvol, apu_pmnvol, apu_bc.
  rnum. split; lra.
Qed.

Theorem gse_pm_split (x : inputsR) : gse_on (i_cfg x) = true ->
  let '(_, _, _, _, pm) := @gse_nominal RNum (i_class x) in
  gr (I_gse_em x PMvol) + gr (I_gse_em x PMnvol) = pm - gr (I_gse_em x SO4).
Proof.
  intros H. unfold I_gse_em, gse_em. rewrite H.
  destruct (@gse_nominal RNum (i_class x)) as [[[[co2 nox] hc] co] pm]. cbn [gr]. unfold gse_half. rnum. lra.
Qed.

Theorem segment_eq_index_times_fuel_raw (x : inputsR) (s : species) : oracle_lengths x ->
  forall i, nth i (gl (I_traj_em x s)) 0 = nth i (gl (I_traj_idx x s)) 0 * nth i (Rfuel_burn (i_fm x)) 0.
Proof. intros H. exact (segment_eq_index_times_fuel x s (aug_lengths_of x H)). Qed.

(* ------------------------------------------------------------------------------------------- *)
(* "exactly those components": a component contributes amounts iff it contributes fuel            *)
(* (non-definitional content next to the read-backs total_eq_parts / total_fuel_eq_components)    *)
(* ------------------------------------------------------------------------------------------- *)
Theorem apu_absent_contributes_nothing (x : inputsR) : apu_on (i_cfg x) = false \/ i_apu x = None ->
  (forall s, I_apu_em x s = None /\ I_apu_idx x s = None) /\ I_apu_fuel x = 0.
Proof.
  intros H. assert (E : I_apu x = None).
  { unfold I_apu. destruct H as [H|H]; [rewrite H; reflexivity|rewrite H; destruct (apu_on (i_cfg x)); reflexivity]. }
  unfold I_apu_em, I_apu_idx, I_apu_fuel. rewrite E. split; [intros s; split; reflexivity|reflexivity].
Qed.

Theorem apu_present_contributes_every_written_species (x : inputsR) a : I_apu x = Some a ->
  (forall s, apu_has (i_cfg x) s = true -> exists v, I_apu_em x s = Some v) /\ I_apu_fuel x = a_fuel a * 900.
Proof.
  intros E. unfold I_apu_em, I_apu_fuel. rewrite E. split.
  - intros s Hs. unfold apu_em, apu_idx. rewrite Hs. cbn [option_map]. eexists. reflexivity.
  - unfold apu_fuel, apu_time. rnum. lra.
Qed.

Theorem apu_fuel_counted_only_with_amounts (x : inputsR) : I_apu_fuel x <> 0 ->
  exists v, I_apu_em x CO2 = Some v.
Proof.
  intros H. destruct (I_apu x) as [a|] eqn:E.
  - destruct (apu_present_contributes_every_written_species x a E) as [P _]. apply P. reflexivity.
  - exfalso. apply H. unfold I_apu_fuel. rewrite E. reflexivity.
Qed.

Theorem gse_off_contributes_nothing (x : inputsR) : gse_on (i_cfg x) = false ->
  (forall s, I_gse_em x s = None) /\ I_gse_fuel x = 0.
Proof. intros H. unfold I_gse_em, I_gse_fuel. rewrite H. split; [intros s|]; reflexivity. Qed.

Theorem gse_on_contributes_every_species (x : inputsR) : gse_on (i_cfg x) = true ->
  forall s, exists v, I_gse_em x s = Some v.
Proof.
  intros H s. unfold I_gse_em, gse_em. rewrite H.
  destruct (@gse_nominal RNum (i_class x)) as [[[[co2 nox] hc] co] pm]. eexists. reflexivity.
Qed.

Theorem gse_fuel_counted_only_with_amounts (x : inputsR) : I_gse_fuel x <> 0 -> forall s, exists v, I_gse_em x s = Some v.
Proof.
  intros H. apply gse_on_contributes_every_species. destruct (gse_on (i_cfg x)) eqn:E; [reflexivity|].
  exfalso. apply H. unfold I_gse_fuel. rewrite E. reflexivity.
Qed.

(* trajectory accounting: climb-out and approach contribute neither fuel nor any amount nor any index from the LTO side *)
Theorem lto_climb_approach_excluded_in_trajectory_mode (x : inputsR) : cd (i_cfg x) = CD_TRAJECTORY ->
  tm_approach (lto_fuel (i_cfg x) (i_lto x)) = 0 /\ tm_climb (lto_fuel (i_cfg x) (i_lto x)) = 0
  /\ forall s, tm_approach (gtm (I_lto_em x s)) = 0 /\ tm_climb (gtm (I_lto_em x s)) = 0
               /\ tm_approach (gtm (I_lto_idx x s)) = 0 /\ tm_climb (gtm (I_lto_idx x s)) = 0.
Proof.
  intros M. unfold I_lto_em, lto_em, I_lto_idx, lto_idx, lto_fuel. rewrite M.
  destruct (tm_mul lto_tims (l_ff (i_lto x))) as [[[f1 f2] f3] f4]. cbn [tm_zero_ac tm_approach tm_climb].
  split; [reflexivity|]. split; [reflexivity|]. intros s.
  destruct (lto_idx_raw _ _ _ _ s) as [[[[a b] c] d]|]; cbn; rnum; repeat split; lra.
Qed.

(* lto accounting: all four modes are counted, each as time in mode x fuel flow *)
Theorem lto_all_modes_counted_in_lto_mode (x : inputsR) : cd (i_cfg x) = CD_LTO ->
  lto_fuel (i_cfg x) (i_lto x) = tm_mul lto_tims (l_ff (i_lto x)).
Proof. intros M. unfold lto_fuel. rewrite M. reflexivity. Qed.

(* ---- non-vacuity of the trajectory NOx closure: a point where NO is non-zero ---- *)
Lemma ex_NO_at_2 : nth 2 (gl (I_traj_idx (ex_inputs CD_LTO) NO)) 0 = 12 * tm_approach (@sp_no RNum).
Proof.
  unfold I_traj_idx, traj_idx, traj_idx_raw, I_orc. cbn [ex_inputs i_cfg i_fuel i_fm i_ncl i_nde i_orc_traj i_sls i_lto].
  change (const_has (ex_cfg CD_LTO) NO) with false. change (traj_var_has (ex_cfg CD_LTO) NO) with true. cbv iota.
  rewrite lookup_aug. cbn [lookup species_eqb ex_orc option_map gl].
  rewrite nth_zo. change (in_window _ _ 2) with true. cbv iota.
  rewrite nth_part by reflexivity. cbn [length Nat.ltb Nat.leb nth ex_sls ex_lto l_ff].
  unfold thrust_cat. cbn [tm_idle tm_approach tm_climb]. rnum.
  destruct (Rleb 0.6 ((0.25 + 0.5) / (2 / 1))) eqn:E1; [apply Rleb_true in E1; lra|].
  destruct (Rltb ((0.5 + 0.9) / (2 / 1)) 0.6) eqn:E2; [apply Rltb_true in E2; lra|].
  cbn [tm_get]. reflexivity.
Qed.

Lemma ex_NO_at_2_nonzero : nth 2 (gl (I_traj_idx (ex_inputs CD_LTO) NO)) 0 <> 0.
Proof.
  rewrite ex_NO_at_2. unfold sp_no, noA, no2A, honoA, c100, c100i. cbn [tm_approach]. rnum. lra.
Qed.

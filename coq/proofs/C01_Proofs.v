(* C01 — the balance laws of the inventory model, over the reals, for all inputs. *)
From Coq Require Import List Bool ZArith Reals Lra Lia Arith.
From AV Require Import lib.Num model.C11_Model model.C01_Model proofs.C01_Lists.
Import ListNotations.
Local Open Scope R_scope.

Notation inputsR := (@inputs RNum).
Notation tmvR := (@tmv RNum).

(* absent key = contributes nothing *)
Definition gl (o : option (list R)) : list R := match o with Some l => l | None => [] end.
Definition gtm (o : option tmvR) : tmvR := match o with Some v => v | None => (0, 0, 0, 0) end.
Definition gr (o : option R) : R := match o with Some v => v | None => 0 end.
Definition Rtm_sum : tmvR -> R := @tm_sum RNum.

Ltac dtm v := let a := fresh "vi" in let b := fresh "va" in let c := fresh "vc" in let d := fresh "vt" in
              destruct v as [[[a b] c] d].

(* ------------------------------------------------------------------------------------------- *)
(* enabled species of the hand table                                                             *)
(* ------------------------------------------------------------------------------------------- *)
Ltac cfg c := destruct c as [cdm co2 h2o sox nx hcm com pv pn apu gse lcy].

Lemma enabled_CO2 c : enabled c CO2 = co2_on c.
Proof. cfg c. destruct co2, h2o, sox, nx, hcm, com, pv, pn; reflexivity. Qed.
Lemma enabled_H2O c : enabled c H2O = h2o_on c.
Proof. cfg c. destruct co2, h2o, sox, nx, hcm, com, pv, pn; reflexivity. Qed.
Lemma enabled_SOx c : enabled c SOx = sox_on c.
Proof. cfg c. destruct co2, h2o, sox, nx, hcm, com, pv, pn; reflexivity. Qed.
Lemma enabled_SO2 c : enabled c SO2 = sox_on c.
Proof. cfg c. destruct co2, h2o, sox, nx, hcm, com, pv, pn; reflexivity. Qed.
Lemma enabled_SO4 c : enabled c SO4 = sox_on c.
Proof. cfg c. destruct co2, h2o, sox, nx, hcm, com, pv, pn; reflexivity. Qed.

Lemma const_has_CO2 c : const_has c CO2 = co2_on c.
Proof. unfold const_has. apply enabled_CO2. Qed.
Lemma const_has_H2O c : const_has c H2O = h2o_on c.
Proof. unfold const_has. apply enabled_H2O. Qed.
Lemma const_has_sox c s : s = SOx \/ s = SO2 \/ s = SO4 -> const_has c s = sox_on c.
Proof.
  intros [->|[->| ->]]; unfold const_has; rewrite ?enabled_SOx, ?enabled_SO2, ?enabled_SO4;
    destruct (sox_on c); reflexivity.
Qed.
Lemma const_has_nox c s : s = NOx \/ s = NO \/ s = NO2 \/ s = HONO -> const_has c s = false.
Proof. intros [->|[->|[->| ->]]]; reflexivity. Qed.

(* ------------------------------------------------------------------------------------------- *)
(* 1. total = sum of parts (+ life-cycle CO2)                                                     *)
(* ------------------------------------------------------------------------------------------- *)
Theorem total_eq_parts (x : inputsR) (s : species) :
  I_total x s =
    Rsum (gl (I_traj_em x s)) + Rtm_sum (gtm (I_lto_em x s)) + gr (I_apu_em x s) + gr (I_gse_em x s)
    + match s with CO2 => I_lifecycle x | _ => 0 end.
Proof.
  unfold I_total, sum_total, I_lifecycle, I_apu_em, I_apu, I_gse_em, Rtm_sum.
  destruct (I_traj_em x s) as [l|]; destruct (I_lto_em x s) as [v|]; try dtm v;
    destruct (apu_on (i_cfg x)); destruct (gse_on (i_cfg x)); destruct (i_apu x) as [a|];
    try destruct (apu_em _ _ _ _ a s); unfold gse_em;
    destruct (@gse_nominal RNum (i_class x)) as [[[[g1 g2] g3] g4] g5];
    destruct s; try destruct (lifecycle_applies x); cbn [gl gtm gr tm_sum]; rl.
Qed.

(* the life-cycle term is EI-like: intensity * (fuel mass drop * energy content); only when switched on *)
Lemma lifecycle_value (x : inputsR) lc :
  f_lifecycle (i_fuel x) = Some lc -> lifecycle_applies x = true ->
  I_lifecycle x = lc * ((hd 0 (i_fm x) - last (i_fm x) 0) * f_energy (i_fuel x)).
Proof. intros H1 H2. unfold I_lifecycle, lifecycle_adj. rewrite H1, H2. reflexivity. Qed.
Lemma lifecycle_off (x : inputsR) : lifecycle_applies x = false -> I_lifecycle x = 0.
Proof. intros H. unfold I_lifecycle. rewrite H. reflexivity. Qed.

(* ------------------------------------------------------------------------------------------- *)
(* 2. every per-segment amount = index * fuel burned in that segment                              *)
(* ------------------------------------------------------------------------------------------- *)
Definition oracle_lengths (x : inputsR) : Prop :=
  forall s l, lookup s (i_orc_traj x) = Some l -> length l = length (i_fm x).

Lemma traj_idx_raw_length (x : inputsR) s l : oracle_lengths x ->
  traj_idx_raw (i_cfg x) (i_fuel x) (length (i_fm x)) (i_orc_traj x) s = Some l -> length l = length (i_fm x).
Proof.
  intros HO. unfold traj_idx_raw.
  destruct (const_has _ s).
  - intros E; inversion E; subst. apply repeat_length.
  - destruct (traj_var_has _ s); [|discriminate]. apply HO.
Qed.

Theorem segment_eq_index_times_fuel (x : inputsR) (s : species) : oracle_lengths x ->
  forall i, nth i (gl (I_traj_em x s)) 0 = nth i (gl (I_traj_idx x s)) 0 * nth i (Rfuel_burn (i_fm x)) 0.
Proof.
  intros HO i. unfold I_traj_em, I_traj_idx, traj_em, traj_idx, traj_em_raw.
  destruct (traj_idx_raw _ _ _ _ s) as [raw|] eqn:E; cbn [option_map gl].
  - pose proof (traj_idx_raw_length x s raw HO E) as L.
    rewrite !nth_zo. destruct (in_window _ _ i).
    + apply nth_map2_mul. rewrite fuel_burn_length. exact L.
    + rl.
  - destruct i; cbn; rl.
Qed.

(* amounts and indices carry the same keys, and both are zero outside the accounting window *)
Theorem traj_keys_agree (x : inputsR) s : I_traj_em x s = None <-> I_traj_idx x s = None.
Proof.
  unfold I_traj_em, I_traj_idx, traj_em, traj_idx, traj_em_raw.
  destruct (traj_idx_raw _ _ _ _ s); cbn; split; congruence.
Qed.

Theorem traj_zero_outside_window (x : inputsR) s i :
  in_window (win_start (i_cfg x) (i_ncl x)) (win_stop (i_cfg x) (length (i_fm x)) (i_nde x)) i = false ->
  nth i (gl (I_traj_em x s)) 0 = 0 /\ nth i (gl (I_traj_idx x s)) 0 = 0.
Proof.
  intros W. unfold I_traj_em, I_traj_idx, traj_em, traj_idx, traj_em_raw.
  destruct (traj_idx_raw _ _ _ _ s) as [raw|]; cbn [option_map gl].
  - rewrite !nth_zo, W. split; reflexivity.
  - destruct i; cbn; split; reflexivity.
Qed.

Theorem lto_amount_eq_index_times_fuel (x : inputsR) s :
  I_lto_em x s = option_map (fun v => tm_mul v (lto_fuel (i_cfg x) (i_lto x))) (I_lto_idx x s).
Proof. reflexivity. Qed.

Theorem apu_amount_eq_index_times_fuel (x : inputsR) s a : I_apu x = Some a ->
  I_apu_em x s = option_map (fun v => v * apu_fuel a) (I_apu_idx x s).
Proof. intros H. unfold I_apu_em, I_apu_idx. rewrite H. reflexivity. Qed.

(* ------------------------------------------------------------------------------------------- *)
(* 3. total fuel = fuel of exactly the components counted                                         *)
(* ------------------------------------------------------------------------------------------- *)
Theorem total_fuel_eq_components (x : inputsR) :
  I_total_fuel x = I_traj_fuel x + I_lto_fuel x + I_apu_fuel x + I_gse_fuel x.
Proof.
  unfold I_total_fuel, I_apu_fuel, I_gse_fuel.
  destruct (I_apu x); destruct (gse_on (i_cfg x)); rl.
Qed.

Lemma traj_fuel_is_window_sum (x : inputsR) :
  I_traj_fuel x = Rsum (Rslice (win_start (i_cfg x) (i_ncl x)) (win_stop (i_cfg x) (length (i_fm x)) (i_nde x))
                               (Rfuel_burn (i_fm x))).
Proof. reflexivity. Qed.

(* LTO fuel: time in mode * fuel flow, climb-out and approach only under lto accounting *)
Lemma lto_fuel_value (x : inputsR) :
  I_lto_fuel x =
    match cd (i_cfg x) with
    | CD_LTO => 1560 * tm_idle (l_ff (i_lto x)) + 240 * tm_approach (l_ff (i_lto x))
                + 132 * tm_climb (l_ff (i_lto x)) + 42 * tm_takeoff (l_ff (i_lto x))
    | CD_TRAJECTORY => 1560 * tm_idle (l_ff (i_lto x)) + 42 * tm_takeoff (l_ff (i_lto x))
    end.
Proof.
  unfold I_lto_fuel, lto_fuel. destruct (l_ff (i_lto x)) as [[[a b] c] d].
  destruct (cd (i_cfg x)); cbn; rl.
Qed.

(* ------------------------------------------------------------------------------------------- *)
(* 4. every kilogram counted once                                                                 *)
(* ------------------------------------------------------------------------------------------- *)
Lemma traj_const_sum (x : inputsR) s : const_has (i_cfg x) s = true ->
  Rsum (gl (I_traj_em x s)) = const_value (i_fuel x) s * I_traj_fuel x.
Proof.
  intros H. unfold I_traj_em, traj_em, traj_em_raw, traj_idx_raw. rewrite H. cbn [option_map gl].
  rewrite map2_repeat by apply fuel_burn_length.
  unfold zero_outside. rewrite zo_from_map_mul, Rsum_map_mul.
  change (Rzo_from 0) with Rzo. rewrite sum_zero_outside. reflexivity.
Qed.

Lemma lto_const_sum (x : inputsR) s : const_has (i_cfg x) s = true ->
  Rtm_sum (gtm (I_lto_em x s)) = const_value (i_fuel x) s * I_lto_fuel x.
Proof.
  intros H. unfold I_lto_em, lto_em, lto_idx, lto_idx_raw, I_lto_fuel, lto_fuel, Rtm_sum. rewrite H.
  cbn [option_map gtm]. destruct (l_ff (i_lto x)) as [[[a b] c] d].
  destruct (cd (i_cfg x)); cbn; rl.
Qed.

(* trajectory + LTO amount of a constant-EI species = EI * (trajectory fuel + LTO fuel): CO2, H2O *)
Theorem fuel_counted_once (x : inputsR) s : const_has (i_cfg x) s = true ->
  Rsum (gl (I_traj_em x s)) + Rtm_sum (gtm (I_lto_em x s))
  = const_value (i_fuel x) s * (I_traj_fuel x + I_lto_fuel x).
Proof. intros H. rewrite traj_const_sum, lto_const_sum by exact H. rl. Qed.

Theorem fuel_counted_once_CO2 (x : inputsR) : co2_on (i_cfg x) = true ->
  Rsum (gl (I_traj_em x CO2)) + Rtm_sum (gtm (I_lto_em x CO2)) = f_EI_CO2 (i_fuel x) * (I_traj_fuel x + I_lto_fuel x).
Proof. intros H. apply (fuel_counted_once x CO2). rewrite const_has_CO2. exact H. Qed.

Theorem fuel_counted_once_H2O (x : inputsR) : h2o_on (i_cfg x) = true ->
  Rsum (gl (I_traj_em x H2O)) + Rtm_sum (gtm (I_lto_em x H2O)) = f_EI_H2O (i_fuel x) * (I_traj_fuel x + I_lto_fuel x).
Proof. intros H. apply (fuel_counted_once x H2O). rewrite const_has_H2O. exact H. Qed.

(* trajectory accounting: the whole fuel-mass drop, first point to last, each segment once;
   LTO supplies taxi/idle and take-off only *)
Theorem fuel_counted_once_trajectory_mode (x : inputsR) : cd (i_cfg x) = CD_TRAJECTORY -> i_fm x <> [] ->
  I_traj_fuel x = hd 0 (i_fm x) - last (i_fm x) 0
  /\ I_lto_fuel x = 1560 * tm_idle (l_ff (i_lto x)) + 42 * tm_takeoff (l_ff (i_lto x)).
Proof.
  intros M NE. split.
  - rewrite traj_fuel_is_window_sum. unfold win_start, win_stop. rewrite M.
    destruct (i_fm x) as [|f0 r] eqn:E; [congruence|]. rewrite <- E.
    rewrite window_fuel_telescopes; rewrite E; cbn [length]; try lia.
    cbn [Nat.max Nat.pred hd nth]. rewrite <- (nth_last (f0 :: r) 0). cbn [length Nat.pred]. reflexivity.
  - rewrite lto_fuel_value, M. reflexivity.
Qed.

(* lto accounting: the trajectory contributes exactly the fuel-mass drop over the window
   [n_climb, n - n_descent); climb-out and approach come from the full LTO cycle *)
Theorem fuel_counted_once_lto_mode (x : inputsR) : cd (i_cfg x) = CD_LTO ->
  let n := length (i_fm x) in let a := i_ncl x in let b := (n - i_nde x)%nat in
  (a <= b)%nat -> (1 <= b)%nat ->
  I_traj_fuel x = nth (Nat.pred (Nat.max a 1)) (i_fm x) 0 - nth (Nat.pred b) (i_fm x) 0
  /\ I_lto_fuel x = 1560 * tm_idle (l_ff (i_lto x)) + 240 * tm_approach (l_ff (i_lto x))
                    + 132 * tm_climb (l_ff (i_lto x)) + 42 * tm_takeoff (l_ff (i_lto x)).
Proof.
  intros M n a b Hab Hb. split.
  - rewrite traj_fuel_is_window_sum. unfold win_start, win_stop. rewrite M.
    apply window_fuel_telescopes; subst n a b; lia.
  - rewrite lto_fuel_value, M. reflexivity.
Qed.

Theorem lto_mode_empty_window (x : inputsR) : cd (i_cfg x) = CD_LTO ->
  (length (i_fm x) - i_nde x <= i_ncl x)%nat -> I_traj_fuel x = 0.
Proof.
  intros M H. rewrite traj_fuel_is_window_sum. unfold win_start, win_stop. rewrite M.
  apply empty_window_fuel. exact H.
Qed.

(* ------------------------------------------------------------------------------------------- *)
(* 5. NO + NO2 + HONO = NOx in every component                                                    *)
(* ------------------------------------------------------------------------------------------- *)
Definition tm_add3 (a b c : tmvR) : tmvR :=
  let '(a1, a2, a3, a4) := a in let '(b1, b2, b3, b4) := b in let '(c1, c2, c3, c4) := c in
  (a1 + b1 + c1, a2 + b2 + c2, a3 + b3 + c3, a4 + b4 + c4).
Definition tm_add2 (a b : tmvR) : tmvR :=
  let '(a1, a2, a3, a4) := a in let '(b1, b2, b3, b4) := b in (a1 + b1, a2 + b2, a3 + b3, a4 + b4).

(* the speciation fractions of the model sum to one in every thrust mode *)
Lemma speciation_sums_to_one :
  tm_add3 (@sp_no RNum) (@sp_no2 RNum) (@sp_hono RNum) = (1, 1, 1, 1).
Proof.
  unfold tm_add3, sp_no, sp_no2, sp_hono, noL, noA, noH, no2L, no2A, no2H, honoL, honoA, honoH, c100, c100i.
  rnum. repeat f_equal; field.
Qed.

Lemma tm4_eq (a b c d a' b' c' d' : R) : a = a' -> b = b' -> c = c' -> d = d' -> (a, b, c, d) = (a', b', c', d').
Proof. intros; subst; reflexivity. Qed.

Lemma speciation_components :
  let '(n1, n2, n3, n4) := @sp_no RNum in let '(m1, m2, m3, m4) := @sp_no2 RNum in
  let '(h1, h2, h3, h4) := @sp_hono RNum in
  n1 + m1 + h1 = 1 /\ n2 + m2 + h2 = 1 /\ n3 + m3 + h3 = 1 /\ n4 + m4 + h4 = 1.
Proof.
  pose proof speciation_sums_to_one as H. unfold tm_add3 in H.
  destruct (@sp_no RNum) as [[[n1 n2] n3] n4], (@sp_no2 RNum) as [[[m1 m2] m3] m4],
           (@sp_hono RNum) as [[[h1 h2] h3] h4].
  inversion H. repeat split; reflexivity.
Qed.

Theorem nox_speciation_lto_idx (x : inputsR) :
  tm_add3 (gtm (I_lto_idx x NO)) (gtm (I_lto_idx x NO2)) (gtm (I_lto_idx x HONO)) = gtm (I_lto_idx x NOx).
Proof.
  pose proof speciation_components as S.
  unfold I_lto_idx, lto_idx, lto_idx_raw. cbn [const_has lto_tab_has].
  destruct (@sp_no RNum) as [[[n1 n2] n3] n4], (@sp_no2 RNum) as [[[m1 m2] m3] m4],
           (@sp_hono RNum) as [[[h1 h2] h3] h4]. destruct S as (S1 & S2 & S3 & S4).
  destruct (switch_on (i_cfg x) S_nox); cbn [lto_var_has lto_zero_has option_map gtm].
  - destruct (l_nox (i_lto x)) as [[[a b] c] d].
    destruct (cd (i_cfg x)); cbn; apply tm4_eq; rnum; nra.
  - cbn. apply tm4_eq; rl.
Qed.

Theorem nox_speciation_lto_em (x : inputsR) :
  tm_add3 (gtm (I_lto_em x NO)) (gtm (I_lto_em x NO2)) (gtm (I_lto_em x HONO)) = gtm (I_lto_em x NOx).
Proof.
  pose proof (nox_speciation_lto_idx x) as H. unfold I_lto_em, lto_em. unfold I_lto_idx in H.
  destruct (@lto_fuel RNum (i_cfg x) (i_lto x)) as [[[f1 f2] f3] f4].
  destruct (lto_idx _ _ _ _ NO) as [[[[a1 a2] a3] a4]|], (lto_idx _ _ _ _ NO2) as [[[[b1 b2] b3] b4]|],
           (lto_idx _ _ _ _ HONO) as [[[[c1 c2] c3] c4]|], (lto_idx _ _ _ _ NOx) as [[[[d1 d2] d3] d4]|];
    cbn [option_map gtm tm_add3 tm_mul] in *;
    inversion H; subst; apply tm4_eq; rnum; nra.
Qed.

Theorem nox_speciation_apu (x : inputsR) :
  gr (I_apu_idx x NO) + gr (I_apu_idx x NO2) + gr (I_apu_idx x HONO) = gr (I_apu_idx x NOx)
  /\ gr (I_apu_em x NO) + gr (I_apu_em x NO2) + gr (I_apu_em x HONO) = gr (I_apu_em x NOx).
Proof.
  pose proof speciation_components as S.
  unfold I_apu_em, I_apu_idx, apu_em, apu_idx. destruct (I_apu x) as [a|]; [|cbn; split; rl].
  cbn [apu_has option_map gr].
  destruct (@sp_no RNum) as [[[n1 n2] n3] n4], (@sp_no2 RNum) as [[[m1 m2] m3] m4],
           (@sp_hono RNum) as [[[h1 h2] h3] h4]. destruct S as (S1 & S2 & S3 & S4).
  cbn [tm_takeoff]. split; rnum; nra.
Qed.

Lemma gse_split_sums_to_one : @gse_f_no RNum + @gse_f_no2 RNum + @gse_f_hono RNum = 1.
Proof. unfold gse_f_no, gse_f_no2, gse_f_hono. rnum. field. Qed.

Theorem nox_speciation_gse (x : inputsR) :
  gr (I_gse_em x NO) + gr (I_gse_em x NO2) + gr (I_gse_em x HONO) = gr (I_gse_em x NOx).
Proof.
  pose proof gse_split_sums_to_one as S.
  unfold I_gse_em, gse_em. destruct (gse_on (i_cfg x)); [|cbn; rl].
  destruct (@gse_nominal RNum (i_class x)) as [[[[co2 nox] hc] co] pm]. cbn [gr]. rnum. nra.
Qed.


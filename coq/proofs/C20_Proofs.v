(* C20 — proofs.  Invariant of the locked guard under every schedule; the atomic guard; the race of
   the guard as coded. *)
From Coq Require Import List Bool Arith Lia.
From AV Require Import model.C20_Model.
Import ListNotations.

(* ------------------------------------------------------------------------------------------- *)
(* generic facts                                                                                 *)
(* ------------------------------------------------------------------------------------------- *)

Lemma upd_same : forall f t x, upd f t x t = x.
Proof. intros; unfold upd; now rewrite Nat.eqb_refl. Qed.

Lemma upd_other : forall f t x u, u <> t -> upd f t x u = f u.
Proof. intros f t x u H; unfold upd. apply Nat.eqb_neq in H. now rewrite H. Qed.

Lemma run_app : forall prog s1 s2 st, run prog (s1 ++ s2) st = run prog s2 (run prog s1 st).
Proof. induction s1; simpl; intros; auto. Qed.

(* ------------------------------------------------------------------------------------------- *)
(* the locked guard: local control points of one thread                                          *)
(* ------------------------------------------------------------------------------------------- *)

Definition body : list gstmt := [GIfNone [GSet] [GIfNeq [GRaise]]].

Inductive lpc := Pidle | P0 | P1 | P2 | P3 | P4 | P5 | P6.

Definition shape (p : lpc) : list frame * bool :=
  match p with
  | Pidle => ([], false)
  | P0 => ([FStmt (GWith body)], false)                                     (* about to acquire *)
  | P1 => ([FStmt (GIfNone [GSet] [GIfNeq [GRaise]]); FRelease], false)     (* holds the lock *)
  | P2 => ([FStmt GSet; FRelease], false)                                   (* saw None *)
  | P3 => ([FStmt (GIfNeq [GRaise]); FRelease], false)                      (* saw an owner *)
  | P4 => ([FStmt GRaise; FRelease], false)                                 (* owner is another thread *)
  | P5 => ([FRelease], false)                                               (* will succeed *)
  | P6 => ([FRelease], true)                                                (* will be refused *)
  end.

Definition at_pc (ts : tstate) (p : lpc) : Prop :=
  t_cont ts = fst (shape p) /\ t_raising ts = snd (shape p).

Definition holds (p : lpc) : bool := match p with Pidle | P0 => false | _ => true end.

Definition facts (o : option tid) (t : tid) (p : lpc) : Prop :=
  match p with
  | P2 => o = None
  | P3 => o <> None
  | P4 | P6 => exists x, o = Some x /\ x <> t
  | P5 => o = Some t
  | _ => True
  end.

Definition ok_local (st : gstate) (t : tid) (p : lpc) : Prop :=
  at_pc (thr st t) p /\ (holds p = true <-> lockh st = Some t) /\ facts (owner st) t p.

Record Inv (st : gstate) : Prop := {
  inv_local : forall t, exists p, ok_local st t p;
  inv_ok : forall t, In (EvOk t) (log st) -> owner st = Some t;
  inv_first : log st = [] -> owner st = None \/ exists h, owner st = Some h /\ at_pc (thr st h) P5;
  inv_last : log st <> [] -> exists t, last (log st) (EvRefused 0) = EvOk t
}.

Lemma fresh_pc : forall n, at_pc (fresh guard_locked n) Pidle \/ at_pc (fresh guard_locked n) P0.
Proof. destruct n; [left | right]; split; reflexivity. Qed.

Lemma at_pc_inj : forall ts p q, at_pc ts p -> at_pc ts q -> p = q.
Proof.
  intros ts p q [Hc Hr] [Hc' Hr']. rewrite Hc in Hc'. rewrite Hr in Hr'.
  destruct p, q; simpl in *; try reflexivity; try discriminate.
Qed.

Lemma holder_unique : forall st t u p q,
  ok_local st t p -> ok_local st u q -> holds p = true -> holds q = true -> t = u.
Proof.
  intros st t u p q (_ & Hp & _) (_ & Hq & _) H1 H2.
  apply Hp in H1. apply Hq in H2. congruence.
Qed.

Lemma init_inv : forall calls, Inv (init guard_locked calls).
Proof.
  intro calls. constructor; simpl.
  - intro t. destruct (fresh_pc (calls t)) as [H | H]; [exists Pidle | exists P0];
      (split; [exact H | split; [split; intro; discriminate | exact I]]).
  - intros t [].
  - intros _. now left.
  - intro H; now elim H.
Qed.

(* a thread other than the stepping one keeps its local facts when the shared variables change in
   one of the four ways a step of the locked guard changes them *)
Lemma other_kept : forall st st' t u q,
  u <> t -> thr st' u = thr st u -> ok_local st u q ->
  ( (lockh st' = lockh st /\ owner st' = owner st)
    \/ (lockh st = None /\ lockh st' = Some t /\ owner st' = owner st)
    \/ (lockh st = Some t /\ lockh st' = None /\ owner st' = owner st)
    \/ (lockh st = Some t /\ lockh st' = Some t) ) ->
  ok_local st' u q.
Proof.
  intros st st' t u q Hne Hthr (Hat & Hlk & Hf) Hch.
  unfold ok_local. rewrite Hthr.
  destruct Hch as [[Hl Ho] | [(Hl & Hl' & Ho) | [(Hl & Hl' & Ho) | (Hl & Hl')]]].
  - rewrite Hl, Ho. auto.
  - assert (Hq : holds q = false).
    { destruct (holds q) eqn:E; auto. destruct Hlk as [Hlk _]. specialize (Hlk eq_refl). congruence. }
    split; [exact Hat | split].
    + rewrite Hq, Hl'. split; intro H; [discriminate | congruence].
    + rewrite Ho. exact Hf.
  - assert (Hq : holds q = false).
    { destruct (holds q) eqn:E; auto. destruct Hlk as [Hlk _]. specialize (Hlk eq_refl). congruence. }
    split; [exact Hat | split].
    + rewrite Hq, Hl'. split; intro H; discriminate.
    + rewrite Ho. exact Hf.
  - assert (Hq : holds q = false).
    { destruct (holds q) eqn:E; auto. destruct Hlk as [Hlk _]. specialize (Hlk eq_refl). congruence. }
    split; [exact Hat | split].
    + rewrite Hq, Hl'. split; intro H; [discriminate | congruence].
    + destruct q; simpl in Hq; try discriminate; exact I.
Qed.

Ltac step_at Hc Hr :=
  unfold step; simpl in Hc, Hr; rewrite Hc; try rewrite Hr; simpl.

(* the stepping thread's new local state, for each control point *)
Lemma step_inv : forall t st, Inv st -> Inv (fst (step guard_locked t st)).
Proof.
  intros t st HI.
  destruct (inv_local st HI t) as [p Hp].
  pose proof Hp as (Hat & Hlk & Hf). destruct Hat as [Hc Hr].
  assert (Hothers : forall st', (forall u, u <> t -> thr st' u = thr st u) ->
            ( (lockh st' = lockh st /\ owner st' = owner st)
              \/ (lockh st = None /\ lockh st' = Some t /\ owner st' = owner st)
              \/ (lockh st = Some t /\ lockh st' = None /\ owner st' = owner st)
              \/ (lockh st = Some t /\ lockh st' = Some t) ) ->
            forall u, u <> t -> exists q, ok_local st' u q).
  { intros st' Hthr Hch u Hu. destruct (inv_local st HI u) as [q Hq]. exists q.
    apply other_kept with (st := st) (t := t); [exact Hu | apply Hthr; exact Hu | exact Hq | exact Hch]. }
  destruct p; simpl in Hc, Hr.
  - (* idle: nothing happens *)
    unfold step. rewrite Hc. simpl. exact HI.
  - (* P0: acquire or blocked *)
    unfold step. rewrite Hc. destruct (lockh st) as [h |] eqn:Hl; simpl; [exact HI |].
    constructor; simpl.
    + intro u. destruct (Nat.eq_dec u t) as [-> | Hu].
      * exists P1. unfold ok_local; simpl. rewrite upd_same. simpl. rewrite Hr.
        repeat split; auto.
      * apply Hothers; [simpl; intros v Hv; now rewrite upd_other | simpl; right; left; auto | exact Hu].
    + (intros u0 Hin0; try rewrite <- Ho; exact (inv_ok st HI u0 Hin0)).
    + intro Hlg. destruct (inv_first st HI Hlg) as [Ho | (h & Ho & Hh)]; [now left |].
      right. exists h. split; [congruence |].
      destruct (Nat.eq_dec h t) as [-> | Hh'].
      * exfalso. destruct Hh as [Hh _]. rewrite Hc in Hh. discriminate.
      * (simpl; rewrite upd_other by auto; exact Hh).
    + exact (inv_last st HI).
  - (* P1: test for None *)
    assert (Hl : lockh st = Some t) by (apply Hlk; reflexivity).
    unfold step. rewrite Hc. destruct (owner st) as [o |] eqn:Ho; simpl.
    + constructor; simpl.
      * intro u. destruct (Nat.eq_dec u t) as [-> | Hu].
        -- exists P3. unfold ok_local; simpl. rewrite upd_same. simpl. rewrite ?Hr, ?Ho, ?Hl.
           repeat split; auto. discriminate.
        -- apply Hothers; [simpl; intros v Hv; now rewrite upd_other | simpl; left; auto | exact Hu].
      * (intros u0 Hin0; try rewrite <- Ho; exact (inv_ok st HI u0 Hin0)).
      * intro Hlg. destruct (inv_first st HI Hlg) as [Ho' | (h & Ho' & Hh)]; [congruence |].
        right. exists h. split; [congruence |].
        destruct (Nat.eq_dec h t) as [-> | Hh'].
        -- exfalso. destruct Hh as [Hh _]. rewrite Hc in Hh. discriminate.
        -- (simpl; rewrite upd_other by auto; exact Hh).
      * exact (inv_last st HI).
    + constructor; simpl.
      * intro u. destruct (Nat.eq_dec u t) as [-> | Hu].
        -- exists P2. unfold ok_local; simpl. rewrite upd_same. simpl. rewrite ?Hr, ?Ho, ?Hl.
           repeat split; auto.
        -- apply Hothers; [simpl; intros v Hv; now rewrite upd_other | simpl; left; auto | exact Hu].
      * (intros u0 Hin0; try rewrite <- Ho; exact (inv_ok st HI u0 Hin0)).
      * intros _. left. reflexivity.
      * exact (inv_last st HI).
  - (* P2: set *)
    assert (Hl : lockh st = Some t) by (apply Hlk; reflexivity).
    simpl in Hf.
    unfold step. rewrite Hc. simpl.
    constructor; simpl.
    + intro u. destruct (Nat.eq_dec u t) as [-> | Hu].
      * exists P5. unfold ok_local; simpl. rewrite upd_same. simpl. rewrite ?Hr, ?Hl.
        repeat split; auto.
      * apply Hothers; [simpl; intros v Hv; now rewrite upd_other | simpl; right; right; right; auto | exact Hu].
    + intros u Hin. apply (inv_ok st HI) in Hin. congruence.
    + intros _. right. exists t. split; auto. rewrite upd_same. split; simpl; auto.
    + exact (inv_last st HI).
  - (* P3: compare with own id *)
    assert (Hl : lockh st = Some t) by (apply Hlk; reflexivity).
    simpl in Hf.
    unfold step. rewrite Hc. simpl.
    destruct (owner st) as [o |] eqn:Ho; [| now elim Hf].
    simpl. destruct (Nat.eqb o t) eqn:Eo; simpl.
    + apply Nat.eqb_eq in Eo. subst o.
      constructor; simpl.
      * intro u. destruct (Nat.eq_dec u t) as [-> | Hu].
        -- exists P5. unfold ok_local; simpl. rewrite upd_same. simpl. rewrite ?Hr, ?Ho, ?Hl.
           repeat split; auto.
        -- apply Hothers; [simpl; intros v Hv; now rewrite upd_other | simpl; left; auto | exact Hu].
      * (intros u0 Hin0; try rewrite <- Ho; exact (inv_ok st HI u0 Hin0)).
      * intros _. right. exists t. split; auto. rewrite upd_same. split; simpl; auto.
      * exact (inv_last st HI).
    + apply Nat.eqb_neq in Eo.
      constructor; simpl.
      * intro u. destruct (Nat.eq_dec u t) as [-> | Hu].
        -- exists P4. unfold ok_local; simpl. rewrite upd_same. simpl. rewrite ?Hr, ?Ho, ?Hl.
           repeat split; auto. exists o. auto.
        -- apply Hothers; [simpl; intros v Hv; now rewrite upd_other | simpl; left; auto | exact Hu].
      * (intros u0 Hin0; try rewrite <- Ho; exact (inv_ok st HI u0 Hin0)).
      * intro Hlg. destruct (inv_first st HI Hlg) as [Ho' | (h & Ho' & Hh)]; [congruence |].
        right. exists h. split; [congruence |].
        destruct (Nat.eq_dec h t) as [-> | Hh'].
        -- exfalso. destruct Hh as [Hh _]. rewrite Hc in Hh. discriminate.
        -- (simpl; rewrite upd_other by auto; exact Hh).
      * exact (inv_last st HI).
  - (* P4: raise *)
    assert (Hl : lockh st = Some t) by (apply Hlk; reflexivity).
    simpl in Hf. destruct Hf as (o & Ho & Hot).
    unfold step. rewrite Hc. simpl.
    constructor; simpl.
    + intro u. destruct (Nat.eq_dec u t) as [-> | Hu].
      * exists P6. unfold ok_local; simpl. rewrite upd_same. simpl. rewrite ?Ho, ?Hl.
        repeat split; auto. exists o. auto.
      * apply Hothers; [simpl; intros v Hv; now rewrite upd_other | simpl; left; auto | exact Hu].
    + (intros u0 Hin0; try rewrite <- Ho; exact (inv_ok st HI u0 Hin0)).
    + intro Hlg. destruct (inv_first st HI Hlg) as [Ho' | (h & Ho' & Hh)]; [congruence |].
      right. exists h. split; [congruence |].
      destruct (Nat.eq_dec h t) as [-> | Hh'].
      * exfalso. destruct Hh as [Hh _]. rewrite Hc in Hh. discriminate.
      * (simpl; rewrite upd_other by auto; exact Hh).
    + exact (inv_last st HI).
  - (* P5: release, the call succeeds *)
    assert (Hl : lockh st = Some t) by (apply Hlk; reflexivity).
    simpl in Hf.
    unfold step. rewrite Hc, Hr. simpl.
    constructor; simpl.
    + intro u. destruct (Nat.eq_dec u t) as [-> | Hu].
      * destruct (fresh_pc (t_left (thr st t))) as [H | H]; [exists Pidle | exists P0];
          (unfold ok_local; simpl; rewrite upd_same;
           split; [exact H | split; [split; intro; discriminate | exact I]]).
      * apply Hothers; [simpl; intros v Hv; now rewrite upd_other | simpl; right; right; left; auto | exact Hu].
    + intros u [Hu | Hin]; [congruence | exact (inv_ok st HI u Hin)].
    + intro; discriminate.
    + intros _. destruct (log st) as [| e l] eqn:Hlg.
      * exists t. reflexivity.
      * change (exists t0, last (e :: l) (EvRefused 0) = EvOk t0).
        rewrite <- Hlg. apply (inv_last st HI). rewrite Hlg. discriminate.
  - (* P6: release, the call is refused *)
    assert (Hl : lockh st = Some t) by (apply Hlk; reflexivity).
    simpl in Hf. destruct Hf as (o & Ho & Hot).
    unfold step. rewrite Hc, Hr. simpl.
    constructor; simpl.
    + intro u. destruct (Nat.eq_dec u t) as [-> | Hu].
      * destruct (fresh_pc (t_left (thr st t))) as [H | H]; [exists Pidle | exists P0];
          (unfold ok_local; simpl; rewrite upd_same;
           split; [exact H | split; [split; intro; discriminate | exact I]]).
      * apply Hothers; [simpl; intros v Hv; now rewrite upd_other | simpl; right; right; left; auto | exact Hu].
    + intros u [Hu | Hin]; [discriminate | exact (inv_ok st HI u Hin)].
    + intro; discriminate.
    + intros _. destruct (log st) as [| e l] eqn:Hlg.
      * (* the first call to finish cannot be a refusal: the owner it lost against is still inside *)
        exfalso. destruct (inv_first st HI Hlg) as [Ho' | (h & Ho' & Hh)]; [congruence |].
        destruct (inv_local st HI h) as [q Hq].
        assert (q = P5) by (destruct Hq as (Hq & _); eapply at_pc_inj; eauto). subst q.
        assert (h = t) by (eapply holder_unique; [exact Hq | exact Hp | reflexivity | reflexivity]).
        subst h. destruct Hh as [_ Hh]. rewrite Hr in Hh. discriminate.
      * change (exists t0, last (e :: l) (EvRefused 0) = EvOk t0).
        rewrite <- Hlg. apply (inv_last st HI). rewrite Hlg. discriminate.
Qed.

Lemma run_inv : forall sched st, Inv st -> Inv (run guard_locked sched st).
Proof. induction sched; simpl; intros; auto. apply IHsched. now apply step_inv. Qed.

Lemma reachable_inv : forall calls sched, Inv (run guard_locked sched (init guard_locked calls)).
Proof. intros. apply run_inv, init_inv. Qed.

(* ---- the owner, once set, never changes ---- *)
Lemma step_owner_stable : forall t st o, Inv st -> owner st = Some o ->
  owner (fst (step guard_locked t st)) = Some o.
Proof.
  intros t st o HI Ho.
  destruct (inv_local st HI t) as [p ((Hc & Hr) & Hlk & Hf)].
  destruct p; simpl in Hc, Hr, Hf; unfold step; rewrite Hc; simpl; auto;
    try (destruct (lockh st); simpl; auto; fail);
    try (rewrite Ho; simpl; auto; destruct (Nat.eqb o t); simpl; auto; fail);
    try congruence;
    try (rewrite Hr; simpl; auto; fail).
Qed.

Lemma run_owner_stable : forall sched st o, Inv st -> owner st = Some o ->
  owner (run guard_locked sched st) = Some o.
Proof.
  induction sched; simpl; intros; auto.
  apply IHsched; [now apply step_inv | now apply step_owner_stable].
Qed.

(* ---- the log only grows ---- *)
Lemma step_log_grows : forall prog t st e, In e (log st) -> In e (log (fst (step prog t st))).
Proof.
  intros prog t st e Hin. unfold step.
  destruct (t_cont (thr st t)) as [| f k]; simpl; auto.
  destruct f as [s |].
  - destruct s; simpl.
    + unfold finish. destruct (_ ++ k); simpl; auto.
    + unfold finish. destruct (_ ++ k); simpl; auto.
    + unfold finish. destruct k; simpl; auto.
    + unfold finish. destruct (filter is_release k); simpl; auto.
    + destruct (lockh st); simpl; auto. unfold finish. destruct (frames body0 ++ FRelease :: k); simpl; auto.
  - unfold finish. destruct k; simpl; auto.
Qed.

Lemma run_log_grows : forall prog sched st e, In e (log st) -> In e (log (run prog sched st)).
Proof. induction sched; simpl; intros; auto. apply IHsched. now apply step_log_grows. Qed.

(* ------------------------------------------------------------------------------------------- *)
(* main statements for the locked guard                                                          *)
(* ------------------------------------------------------------------------------------------- *)

Theorem locked_single_owner : forall calls sched t1 t2,
  let st := run guard_locked sched (init guard_locked calls) in
  In (EvOk t1) (log st) -> In (EvOk t2) (log st) -> t1 = t2.
Proof.
  intros calls sched t1 t2 st H1 H2.
  pose proof (reachable_inv calls sched) as HI. fold st in HI.
  apply (inv_ok st HI) in H1. apply (inv_ok st HI) in H2. congruence.
Qed.

Theorem locked_success_implies_owner : forall calls sched t,
  let st := run guard_locked sched (init guard_locked calls) in
  In (EvOk t) (log st) -> owner st = Some t.
Proof. intros calls sched t st H. exact (inv_ok st (reachable_inv calls sched) t H). Qed.

Theorem locked_owner_never_changes : forall calls s1 s2 o,
  owner (run guard_locked s1 (init guard_locked calls)) = Some o ->
  owner (run guard_locked (s1 ++ s2) (init guard_locked calls)) = Some o.
Proof.
  intros. rewrite run_app. apply run_owner_stable; auto. apply reachable_inv.
Qed.

(* once a thread owns the stores, no guard of any other thread ever succeeds, however the rest of
   the execution is scheduled *)
Theorem locked_other_threads_refused : forall calls s1 s2 o t,
  owner (run guard_locked s1 (init guard_locked calls)) = Some o ->
  In (EvOk t) (log (run guard_locked (s1 ++ s2) (init guard_locked calls))) -> t = o.
Proof.
  intros calls s1 s2 o t Ho Hin.
  pose proof (locked_owner_never_changes calls s1 s2 o Ho) as Ho'.
  apply locked_success_implies_owner in Hin. congruence.
Qed.

(* mutual exclusion: at most one thread is between acquire and release *)
Theorem locked_mutual_exclusion : forall calls sched t u,
  let st := run guard_locked sched (init guard_locked calls) in
  In FRelease (t_cont (thr st t)) -> In FRelease (t_cont (thr st u)) -> t = u.
Proof.
  intros calls sched t u st Ht Hu.
  pose proof (reachable_inv calls sched) as HI. fold st in HI.
  destruct (inv_local st HI t) as [p Hp]. destruct (inv_local st HI u) as [q Hq].
  assert (holds p = true).
  { destruct Hp as ((Hc & _) & _). rewrite Hc in Ht. destruct p; simpl in *; auto; intuition discriminate. }
  assert (holds q = true).
  { destruct Hq as ((Hc & _) & _). rewrite Hc in Hu. destruct q; simpl in *; auto; intuition discriminate. }
  eapply holder_unique; eauto.
Qed.

(* no deadlock: whoever holds the lock can always take a step that is not blocked *)
Theorem locked_holder_not_blocked : forall calls sched h,
  let st := run guard_locked sched (init guard_locked calls) in
  lockh st = Some h -> snd (step guard_locked h st) <> LbBlocked /\ snd (step guard_locked h st) <> LbIdle.
Proof.
  intros calls sched h st Hl.
  pose proof (reachable_inv calls sched) as HI. fold st in HI.
  destruct (inv_local st HI h) as [p ((Hc & Hr) & Hlk & _)].
  assert (Hh : holds p = true) by (apply Hlk; exact Hl).
  destruct p; simpl in Hh; try discriminate; simpl in Hc; unfold step; rewrite Hc; simpl;
    split; discriminate.
Qed.

(* and a thread is blocked only while another one holds the lock *)
Theorem locked_blocked_only_by_holder : forall calls sched t,
  let st := run guard_locked sched (init guard_locked calls) in
  snd (step guard_locked t st) = LbBlocked -> exists h, lockh st = Some h /\ h <> t.
Proof.
  intros calls sched t st Hb.
  pose proof (reachable_inv calls sched) as HI. fold st in HI.
  destruct (inv_local st HI t) as [p ((Hc & Hr) & Hlk & _)].
  destruct p; simpl in Hc; unfold step in Hb; rewrite Hc in Hb; simpl in Hb; try discriminate.
  destruct (lockh st) as [h |] eqn:Hl; simpl in Hb; try discriminate.
  exists h. split; auto. intro; subst h.
  destruct Hlk as [_ Hlk]. specialize (Hlk eq_refl). discriminate.
Qed.

(* the guard does not simply refuse everybody: the first call to finish succeeds *)
Theorem locked_first_finished_call_succeeds : forall calls sched,
  let st := run guard_locked sched (init guard_locked calls) in
  log st <> [] -> exists t, last (log st) (EvRefused 0) = EvOk t.
Proof. intros calls sched st. exact (inv_last st (reachable_inv calls sched)). Qed.

(* ------------------------------------------------------------------------------------------- *)
(* the guard made atomic (the property's specification), on the statements as coded             *)
(* ------------------------------------------------------------------------------------------- *)

Record AInv (st : gstate) : Prop := {
  a_quiet : forall t, t_cont (thr st t) = [] \/
                      (t_cont (thr st t) = frames guard_as_coded /\ t_raising (thr st t) = false);
  a_ok : forall t, In (EvOk t) (log st) -> owner st = Some t
}.

Lemma fresh_coded : forall n, t_cont (fresh guard_as_coded n) = [] \/
  (t_cont (fresh guard_as_coded n) = frames guard_as_coded /\ t_raising (fresh guard_as_coded n) = false).
Proof. destruct n; simpl; auto. Qed.

Lemma ainit : forall calls, AInv (init guard_as_coded calls).
Proof.
  intro calls; constructor; simpl.
  - intro t. apply fresh_coded.
  - intros t [].
Qed.

Lemma succ_eqb_false : forall n, Nat.eqb (S n) n = false.
Proof. intro n. apply Nat.eqb_neq. lia. Qed.

(* the statements as coded, run without interruption from a quiet state, are exactly the
   check-and-set the property describes *)
Lemma call_atomic_coded : forall fuel t st, 4 <= fuel ->
  t_cont (thr st t) = frames guard_as_coded -> t_raising (thr st t) = false ->
  let st' := call_atomic guard_as_coded fuel t (length (log st)) st in
  lockh st' = lockh st /\ (forall u, u <> t -> thr st' u = thr st u) /\
  thr st' t = fresh guard_as_coded (t_left (thr st t)) /\
  match owner st with
  | None => owner st' = Some t /\ log st' = EvOk t :: log st
  | Some o => owner st' = Some o /\
              log st' = (if Nat.eqb o t then EvOk t else EvRefused t) :: log st
  end.
Proof.
  intros fuel t st Hfuel Hq Hr.
  do 4 (destruct fuel as [| fuel]; [lia |]). clear Hfuel.
  cbv zeta. cbn [call_atomic]. rewrite Nat.eqb_refl.
  destruct (owner st) as [o |] eqn:Ho.
  - (* an owner exists *)
    set (s1 := fst (step guard_as_coded t st)).
    assert (H1 : s1 = {| owner := Some o; lockh := lockh st;
                         thr := upd (thr st) t {| t_cont := [FStmt (GIfNeq [GRaise])];
                                                  t_raising := false; t_left := t_left (thr st t) |};
                         log := log st |}).
    { unfold s1, step. rewrite Hq. simpl. rewrite Ho, Hr. reflexivity. }
    assert (L1 : log s1 = log st) by (rewrite H1; reflexivity).
    rewrite L1, Nat.eqb_refl.
    destruct (Nat.eqb o t) eqn:Eo.
    + (* the same thread: success *)
      set (s2 := fst (step guard_as_coded t s1)).
      assert (H2 : s2 = {| owner := Some o; lockh := lockh st;
                           thr := upd (thr s1) t (fresh guard_as_coded (t_left (thr st t)));
                           log := EvOk t :: log st |}).
      { unfold s2, step. rewrite H1. simpl. rewrite upd_same. simpl. rewrite Eo. reflexivity. }
      assert (L2 : log s2 = EvOk t :: log st) by (rewrite H2; reflexivity).
      rewrite L2. simpl length. rewrite succ_eqb_false.
      rewrite H2. simpl. rewrite upd_same. repeat split; auto.
      intros u Hu. rewrite upd_other by auto. rewrite H1. simpl. now rewrite upd_other.
    + (* another thread: raise *)
      set (s2 := fst (step guard_as_coded t s1)).
      assert (H2 : s2 = {| owner := Some o; lockh := lockh st;
                           thr := upd (thr s1) t {| t_cont := [FStmt GRaise]; t_raising := false;
                                                    t_left := t_left (thr st t) |};
                           log := log st |}).
      { unfold s2, step. rewrite H1. simpl. rewrite upd_same. simpl. rewrite Eo. reflexivity. }
      assert (L2 : log s2 = log st) by (rewrite H2; reflexivity).
      rewrite L2, Nat.eqb_refl.
      set (s3 := fst (step guard_as_coded t s2)).
      assert (H3 : s3 = {| owner := Some o; lockh := lockh st;
                           thr := upd (thr s2) t (fresh guard_as_coded (t_left (thr st t)));
                           log := EvRefused t :: log st |}).
      { unfold s3, step. rewrite H2. simpl. rewrite upd_same. simpl. reflexivity. }
      assert (L3 : log s3 = EvRefused t :: log st) by (rewrite H3; reflexivity).
      rewrite L3. simpl length. rewrite succ_eqb_false.
      rewrite H3. simpl. rewrite upd_same. repeat split; auto.
      intros u Hu. rewrite upd_other by auto. rewrite H2. simpl. rewrite upd_other by auto.
      rewrite H1. simpl. now rewrite upd_other.
  - (* no owner yet: set *)
    set (s1 := fst (step guard_as_coded t st)).
    assert (H1 : s1 = {| owner := None; lockh := lockh st;
                         thr := upd (thr st) t {| t_cont := [FStmt GSet];
                                                  t_raising := false; t_left := t_left (thr st t) |};
                         log := log st |}).
    { unfold s1, step. rewrite Hq. simpl. rewrite Ho, Hr. reflexivity. }
    assert (L1 : log s1 = log st) by (rewrite H1; reflexivity).
    rewrite L1, Nat.eqb_refl.
    set (s2 := fst (step guard_as_coded t s1)).
    assert (H2 : s2 = {| owner := Some t; lockh := lockh st;
                         thr := upd (thr s1) t (fresh guard_as_coded (t_left (thr st t)));
                         log := EvOk t :: log st |}).
    { unfold s2, step. rewrite H1. simpl. rewrite upd_same. simpl. reflexivity. }
    assert (L2 : log s2 = EvOk t :: log st) by (rewrite H2; reflexivity).
    rewrite L2. simpl length. rewrite succ_eqb_false.
    rewrite H2. simpl. rewrite upd_same. repeat split; auto.
    intros u Hu. rewrite upd_other by auto. rewrite H1. simpl. now rewrite upd_other.
Qed.

Lemma step_atomic_inv : forall fuel t st, 4 <= fuel -> AInv st ->
  AInv (step_atomic guard_as_coded fuel t st).
Proof.
  intros fuel t st Hfuel HI. unfold step_atomic.
  destruct (a_quiet st HI t) as [Hq | [Hq Hr]]; rewrite Hq; [exact HI |].
  change (AInv (call_atomic guard_as_coded fuel t (length (log st)) st)).
  destruct (call_atomic_coded fuel t st Hfuel Hq Hr) as (Hl & Hoth & Hme & Hown).
  set (st' := call_atomic guard_as_coded fuel t (length (log st)) st) in *.
  constructor.
  - intro u. destruct (Nat.eq_dec u t) as [-> | Hu].
    + rewrite Hme. apply fresh_coded.
    + rewrite Hoth by auto. apply (a_quiet st HI).
  - intros u Hin. destruct (owner st) as [o |] eqn:Ho.
    + destruct Hown as [Ho' Hlg]. rewrite Hlg in Hin. rewrite Ho'.
      destruct Hin as [He | Hin].
      * destruct (Nat.eqb o t) eqn:Eo; [| discriminate].
        apply Nat.eqb_eq in Eo. congruence.
      * rewrite <- Ho. exact (a_ok st HI u Hin).
    + destruct Hown as [Ho' Hlg]. rewrite Hlg in Hin. rewrite Ho'.
      destruct Hin as [He | Hin]; [congruence |].
      apply (a_ok st HI) in Hin. congruence.
Qed.

Lemma run_atomic_inv : forall fuel sched st, 4 <= fuel -> AInv st ->
  AInv (run_atomic guard_as_coded fuel sched st).
Proof. induction sched; simpl; intros; auto. apply IHsched; auto. now apply step_atomic_inv. Qed.

Theorem atomic_single_owner : forall fuel calls sched t1 t2, 4 <= fuel ->
  let st := run_atomic guard_as_coded fuel sched (init guard_as_coded calls) in
  In (EvOk t1) (log st) -> In (EvOk t2) (log st) -> t1 = t2.
Proof.
  intros fuel calls sched t1 t2 Hf st H1 H2.
  assert (HI : AInv st) by (apply run_atomic_inv; auto; apply ainit).
  apply (a_ok st HI) in H1. apply (a_ok st HI) in H2. congruence.
Qed.

(* ------------------------------------------------------------------------------------------- *)
(* the guard as coded: the race                                                                  *)
(* ------------------------------------------------------------------------------------------- *)

Definition two_first_calls : tid -> nat := fun t => if Nat.leb t 1 then 1 else 0.

Lemma race_two_owners : exists sched,
  let st := run guard_as_coded sched (init guard_as_coded two_first_calls) in
  In (EvOk 0) (log st) /\ In (EvOk 1) (log st).
Proof. exists [0; 1; 0; 1]. vm_compute. split; [right; left | left]; reflexivity. Qed.

Lemma owner_changes_as_coded : exists s1 s2,
  owner (run guard_as_coded s1 (init guard_as_coded two_first_calls)) = Some 0 /\
  owner (run guard_as_coded (s1 ++ s2) (init guard_as_coded two_first_calls)) = Some 1.
Proof. exists [0; 1; 0], [1]. vm_compute. split; reflexivity. Qed.

(* the same schedule is harmless for the locked guard: thread 1 is refused *)
Lemma race_schedule_locked :
  let st := run guard_locked [0; 1; 0; 1; 0; 0; 1; 1; 1; 1; 1] (init guard_locked two_first_calls) in
  log st = [EvRefused 1; EvOk 0] /\ owner st = Some 0.
Proof. vm_compute. split; reflexivity. Qed.

(* ------------------------------------------------------------------------------------------- *)
(* why one statement per step loses nothing                                                     *)
(* ------------------------------------------------------------------------------------------- *)
(* Every micro-step of the semantics executes the head of exactly one statement, and the head of a statement
   reads or writes the shared attribute at most once.  A finer interleaving (between the bytecodes of one
   statement head) can therefore only reorder thread-local work around that single access: it has the same
   effect on the shared state as the statement-level step that contains the access.  (The translator checks
   the syntactic counterpart: active_in_thread occurs exactly once in the head of each guard statement.) *)
Lemma statement_heads_access_once : forall s, head_accesses s <= 1.
Proof. destruct s; simpl; auto. Qed.

Lemma step_changes_owner_only_by_set : forall prog t st,
  owner (fst (step prog t st)) <> owner st ->
  exists k, t_cont (thr st t) = FStmt GSet :: k.
Proof.
  intros prog t st H. unfold step in H.
  destruct (t_cont (thr st t)) as [| f k] eqn:E; simpl in H; [now elim H |].
  destruct f as [s |].
  - destruct s; simpl in H;
      try (unfold finish in H; match type of H with context [match ?x with _ => _ end] => destruct x end; simpl in H; now elim H).
    + eauto.
    + destruct (lockh st); simpl in H; [now elim H |].
      unfold finish in H. destruct (frames body0 ++ FRelease :: k); simpl in H; now elim H.
  - unfold finish in H. destruct k; simpl in H; now elim H.
Qed.

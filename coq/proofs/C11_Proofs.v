(* C11 — every configuration of the complete 41 472-element product either balances or is refused by name.
   The domain is finite: the sweeps below are computed by the kernel's VM over the WHOLE product and lifted to
   universally quantified statements with forallb_forall + completeness of the enumeration. *)
From Coq Require Import List Bool String ZArith Lia.
From AV Require Import model.C11_Model.
Import ListNotations.
Open Scope string_scope.

(* ---- the enumeration is complete ---- *)
Lemma in_all_bool b : In b all_bool.
Proof. destruct b; cbn; auto. Qed.
Lemma in_all_cd m : In m all_cd.
Proof. destruct m; cbn; auto. Qed.
Lemma in_all_gas m : In m all_gas.
Proof. destruct m; cbn; auto. Qed.
Lemma in_all_pmvol m : In m all_pmvol.
Proof. destruct m; cbn; auto. Qed.
Lemma in_all_pmnvol m : In m all_pmnvol.
Proof. destruct m; cbn; auto 6. Qed.

Lemma all_configs_complete : forall c, In c all_configs.
Proof.
  intros [a b c d e f g h i j k l]. unfold all_configs.
  repeat (apply in_flat_map; eexists; split;
          [first [apply in_all_bool | apply in_all_cd | apply in_all_gas | apply in_all_pmvol | apply in_all_pmnvol]|]).
  left. reflexivity.
Qed.

Lemma all_envs_complete : forall e, In e all_envs.
Proof.
  intros [a b c]. unfold all_envs.
  repeat (apply in_flat_map; eexists; split; [apply in_all_bool|]). left. reflexivity.
Qed.

Lemma config_count : Z.of_nat (List.length all_configs) = 41472%Z.
Proof. vm_compute. reflexivity. Qed.

(* ---- the enabled-species table and its functional reading agree ---- *)
Lemma enabled_table_correct : forall c s, enabled_gen enabled_table c s = enabled c s.
Proof.
  intros [a b c d e f g h i j k l] s.
  destruct s; cbn; destruct b, c, d, e, f, g, h, i; reflexivity.
Qed.

(* ---- lifting a sweep ---- *)
Definition sweep (p : config -> env -> bool) : bool :=
  forallb (fun c => forallb (p c) all_envs) all_configs.

Lemma sweep_forall p : sweep p = true -> forall c e, p c e = true.
Proof.
  unfold sweep. intros H c e. rewrite forallb_forall in H.
  specialize (H c (all_configs_complete c)). rewrite forallb_forall in H. apply H, all_envs_complete.
Qed.

(* ---- the repaired code: every configuration is ok ---- *)
Lemma sweep_repaired : sweep (fun c e => ok c e (outcome_of repaired e c)) = true.
Proof. vm_compute. reflexivity. Qed.

Theorem all_configs_ok : forall c e, ok c e (outcome_of repaired e c) = true.
Proof. exact (sweep_forall _ sweep_repaired). Qed.

Definition is_internal (o : outcome) : bool := match o with Internal _ => true | _ => false end.

Theorem never_internal : forall c e, is_internal (outcome_of repaired e c) = false.
Proof.
  intros c e. pose proof (all_configs_ok c e) as H. destruct (outcome_of repaired e c); cbn in *; congruence.
Qed.

Theorem refusals_name_the_method : forall c e n, outcome_of repaired e c = Refused n ->
  names_configured c e n = true.
Proof. intros c e n H. pose proof (all_configs_ok c e) as K. rewrite H in K. exact K. Qed.

(* exactly which configurations are refused, and with which name *)
Lemma sweep_refusal_characterised :
  sweep (fun c e =>
    match outcome_of repaired e c with
    | Refused n =>
        match pmnvol_m c with
        | PN_FOA3 => String.eqb n "foa3"
        | _ => String.eqb n "lifecycle" && co2_on c && lifecycle_on c && negb (lifecycle_data e)
        end
    | Balanced _ _ _ _ lc =>
        match pmnvol_m c with PN_FOA3 => false | _ => true end
        && (negb (co2_on c && lifecycle_on c) || lifecycle_data e) && Bool.eqb lc (co2_on c && lifecycle_on c)
    | Internal _ => false
    end) = true.
Proof. vm_compute. reflexivity. Qed.

Theorem refused_iff_foa3_or_no_lifecycle_datum : forall c e,
  match outcome_of repaired e c with
  | Refused n => (pmnvol_m c = PN_FOA3 /\ n = "foa3")
                 \/ (pmnvol_m c <> PN_FOA3 /\ n = "lifecycle" /\ co2_on c = true /\ lifecycle_on c = true
                     /\ lifecycle_data e = false)
  | Balanced _ _ _ _ lc => pmnvol_m c <> PN_FOA3 /\ lc = (co2_on c && lifecycle_on c)
  | Internal _ => False
  end.
Proof.
  intros c e. pose proof (sweep_forall _ sweep_refusal_characterised c e) as H. cbv beta in H.
  destruct (outcome_of repaired e c) as [tr lt ap gs lc|n|w].
  - destruct (pmnvol_m c); try discriminate;
      (split; [discriminate|]);
      apply andb_prop in H; destruct H as [_ H]; apply Bool.eqb_prop in H; exact H.
  - destruct (pmnvol_m c) eqn:E;
      try (right; split; [discriminate|];
           repeat (apply andb_prop in H; destruct H as [H ?]); apply String.eqb_eq in H;
           repeat split; try assumption; destruct (lifecycle_data e); [discriminate|reflexivity]).
    left. split; [reflexivity|]. apply String.eqb_eq in H. exact H.
  - discriminate.
Qed.

(* a species whose documented switch is off is absent from the trajectory part, and absent or identically
   zero in the LTO part *)
Theorem switched_off_species_absent_or_zero : forall c e tr lt ap gs lc s,
  outcome_of repaired e c = Balanced tr lt ap gs lc -> governing_on c s = false ->
  mem s tr = false /\ (mem s lt = false \/ lto_zero_has c s = true).
Proof.
  intros c e tr lt ap gs lc s H G. pose proof (all_configs_ok c e) as K. rewrite H in K. cbn [ok] in K.
  rewrite forallb_forall in K.
  assert (I : In s all_species) by (destruct s; cbn; auto 20).
  specialize (K s I). rewrite G in K. cbn [orb] in K. apply andb_prop in K. destruct K as [K1 K2].
  split; [destruct (mem s tr); [discriminate|reflexivity]|].
  apply orb_prop in K2. destruct K2 as [K2|K2]; [left; destruct (mem s lt); [discriminate|reflexivity]|right; exact K2].
Qed.

(* ---- the code as found ---- *)
Theorem apu_reads_missing_sox_refuted :
  exists e c, outcome_of as_found e c = Internal "KeyError:SO2" /\ ok c e (outcome_of as_found e c) = false.
Proof.
  exists (mkEnv true true true).
  exists (mkConfig CD_TRAJECTORY true true false G_BFFM2 G_BFFM2 G_BFFM2 PV_FUEL_FLOW PN_MEEM true true true).
  vm_compute. split; reflexivity.
Qed.

Theorem pmvol_foa3_internal_error_refuted :
  exists e c, outcome_of as_found e c = Internal "AttributeError:thrust_percentage"
              /\ ok c e (outcome_of as_found e c) = false.
Proof.
  exists (mkEnv true true true).
  exists (mkConfig CD_TRAJECTORY true true true G_BFFM2 G_BFFM2 G_BFFM2 PV_FOA3 PN_MEEM true true true).
  vm_compute. split; reflexivity.
Qed.

(* and these are the only two: every configuration that is not ok on the tree as found has pmvol_method = foa3,
   or has SOx off with a running APU; with each repair alone the other class remains *)
Lemma sweep_as_found :
  sweep (fun c e => ok c e (outcome_of as_found e c)
                    || match pmvol_m c with PV_FOA3 => true | _ => false end
                    || (negb (sox_on c) && apu_on c && apu_present e && apu_running e)) = true.
Proof. vm_compute. reflexivity. Qed.

Theorem as_found_failures_characterised : forall c e, ok c e (outcome_of as_found e c) = false ->
  pmvol_m c = PV_FOA3 \/ (sox_on c = false /\ apu_on c = true /\ apu_present e = true /\ apu_running e = true).
Proof.
  intros c e H. pose proof (sweep_forall _ sweep_as_found c e) as K. cbv beta in K. rewrite H in K. cbn [orb] in K.
  apply orb_prop in K. destruct K as [K|K].
  - left. destruct (pmvol_m c); try discriminate. reflexivity.
  - right. repeat (apply andb_prop in K; destruct K as [K ?]). repeat split; try assumption.
    destruct (sox_on c); [discriminate|reflexivity].
Qed.

Lemma sweep_only_f9_fixed :
  sweep (fun c e => ok c e (outcome_of (mkTree true false) e c)
                    || match pmvol_m c with PV_FOA3 => true | _ => false end) = true.
Proof. vm_compute. reflexivity. Qed.
Lemma sweep_only_foa3_fixed :
  sweep (fun c e => ok c e (outcome_of (mkTree false true) e c)
                    || (negb (sox_on c) && apu_on c && apu_present e && apu_running e)) = true.
Proof. vm_compute. reflexivity. Qed.

(* how many of the 41 472 x 8 (configuration, environment) pairs fail as found *)
Definition count_bad (t : tree) : Z :=
  Z.of_nat (List.length (filter (fun ce => negb (ok (fst ce) (snd ce) (outcome_of t (snd ce) (fst ce))))
                           (list_prod all_configs all_envs))).

(* C02 (a) — the growable point buffer: reads give back the appended points, in order, for every
   append history; make_point with a Python index relative to the valid prefix returns the indexed point
   (so a hand-over with -1 takes the last point); relative to the capacity it does not. *)
From Coq Require Import ZArith List Bool Lia Arith.
From AV Require Import lib.Num model.C02_Model.
Import ListNotations.

Section ContainerProofs.
  Variable A : Type.
  Variable d : A.

  Lemma set_nth_length : forall (l : list A) i x, length (set_nth l i x) = length l.
  Proof. induction l; destruct i; simpl; intros; auto. Qed.

  Lemma nth_set_nth_eq : forall (l : list A) i x, i < length l -> nth i (set_nth l i x) d = x.
  Proof. induction l; destruct i; simpl; intros; try lia; auto. apply IHl; lia. Qed.

  Lemma nth_set_nth_neq : forall (l : list A) i j x, i <> j -> nth j (set_nth l i x) d = nth j l d.
  Proof. induction l; destruct i; destruct j; simpl; intros; try lia; auto. Qed.

  Lemma np_resize_length : forall (l : list A) n, length (np_resize d l n) = n.
  Proof. intros; unfold np_resize; rewrite map_length, seq_length; reflexivity. Qed.

  Lemma nth_map_seq : forall (f : nat -> A) n i, i < n -> nth i (map f (seq 0 n)) d = f i.
  Proof.
    intros f n i Hi.
    rewrite (nth_indep (map f (seq 0 n)) d (f 0)) by (rewrite map_length, seq_length; auto).
    rewrite (map_nth f (seq 0 n) 0 i). rewrite seq_nth; auto.
  Qed.

  Lemma nth_np_resize : forall (l : list A) n i, i < n -> nth i (np_resize d l n) d = nth (i mod length l) l d.
  Proof. intros l n i Hi. unfold np_resize. rewrite nth_map_seq; auto. Qed.

  (* the representation invariant: the first [length l] cells of the buffer are the appended points *)
  Definition Inv (c : cont A) (l : list A) : Prop :=
    c_size c = length l /\ length l <= cap c /\
    forall i, i < length l -> nth i (c_buf c) d = nth i l d.

  Lemma inv_empty : Inv (empty_cont d) [].
  Proof. unfold Inv, empty_cont, cap; simpl; repeat split; try lia. Qed.

  Lemma inv_append : forall c l x, Inv c l -> Inv (append d c x) (l ++ [x]).
  Proof.
    intros c l x (Hs & Hc & Hn). unfold Inv, append, cap in *. simpl.
    rewrite app_length; simpl.
    set (buf := if Nat.eqb (c_size c) (length (c_buf c)) then np_resize d (c_buf c) (length (c_buf c) + EXPAND)
                else c_buf c).
    assert (Hlen : length l < length buf).
    { subst buf. destruct (Nat.eqb (c_size c) (length (c_buf c))) eqn:E.
      - rewrite np_resize_length. unfold EXPAND. lia.
      - apply Nat.eqb_neq in E. lia. }
    assert (Hbuf : forall i, i < length l -> nth i buf d = nth i l d).
    { intros i Hi. subst buf. destruct (Nat.eqb (c_size c) (length (c_buf c))) eqn:E; auto.
      rewrite nth_np_resize by (unfold EXPAND; lia).
      rewrite Nat.mod_small by lia. auto. }
    rewrite set_nth_length. repeat split; try lia.
    intros i Hi. rewrite Hs.
    destruct (Nat.eq_dec i (length l)) as [->|Hne].
    - rewrite nth_set_nth_eq by lia. rewrite app_nth2 by lia. rewrite Nat.sub_diag. reflexivity.
    - rewrite nth_set_nth_neq by lia. rewrite app_nth1 by lia. apply Hbuf; lia.
  Qed.

  Lemma inv_fold : forall l c l0, Inv c l0 -> Inv (fold_left (append d) l c) (l0 ++ l).
  Proof.
    induction l; intros c l0 H; simpl.
    - rewrite app_nil_r; auto.
    - replace (l0 ++ a :: l) with ((l0 ++ [a]) ++ l) by (rewrite <- app_assoc; reflexivity).
      apply IHl. apply inv_append; auto.
  Qed.

  Lemma inv_appends : forall l, Inv (appends d l) l.
  Proof. intros; unfold appends. apply (inv_fold l (empty_cont d) []). apply inv_empty. Qed.

  Lemma firstn_nth_ext : forall (l buf : list A),
    length l <= length buf -> (forall i, i < length l -> nth i buf d = nth i l d) -> firstn (length l) buf = l.
  Proof.
    induction l; intros buf Hl Hn; simpl; auto.
    destruct buf as [|b buf]; simpl in *; try lia.
    f_equal.
    - apply (Hn 0); lia.
    - apply IHl; try lia. intros i Hi. apply (Hn (S i)); lia.
  Qed.

  Lemma inv_read : forall c l, Inv c l -> read c = l.
  Proof. intros c l (Hs & Hc & Hn). unfold read. rewrite Hs. apply firstn_nth_ext; auto. Qed.

  (* reading a field after any append history gives the appended values, in order *)
  Theorem read_appends : forall l, read (appends d l) = l.
  Proof. intros; apply inv_read, inv_appends. Qed.

  Theorem size_appends : forall l, c_size (appends d l) = length l.
  Proof. intros; destruct (inv_appends l) as (H & _); auto. Qed.

  (* Python indexing of a list *)
  Definition py_index (l : list A) (idx : Z) : option A :=
    if (idx <? - Z.of_nat (length l))%Z || (idx >=? Z.of_nat (length l))%Z then None
    else Some (nth (Z.to_nat (if (idx <? 0)%Z then idx + Z.of_nat (length l) else idx)%Z) l d).

  (* make_point with the index taken relative to the valid prefix is Python indexing of the appended list *)
  Theorem make_point_is_python_index : forall l idx, make_point d true (appends d l) idx = py_index l idx.
  Proof.
    intros l idx. destruct (inv_appends l) as (Hs & Hc & Hn).
    unfold make_point, py_index. rewrite Hs.
    destruct ((idx <? - Z.of_nat (length l))%Z || (idx >=? Z.of_nat (length l))%Z) eqn:E; auto.
    apply orb_false_iff in E. destruct E as (E1 & E2).
    apply Z.ltb_ge in E1. rewrite Z.geb_leb in E2. apply Z.leb_gt in E2.
    f_equal. apply Hn.
    destruct (idx <? 0)%Z eqn:E3; [apply Z.ltb_lt in E3 | apply Z.ltb_ge in E3]; lia.
  Qed.

  Lemma nth_pred_last : forall (l : list A), l <> [] -> nth (length l - 1) l d = last l d.
  Proof.
    induction l as [|a l IH]; intros H; [congruence|].
    destruct l as [|b l]; [reflexivity|].
    replace (length (a :: b :: l) - 1) with (S (length (b :: l) - 1)) by (simpl; lia).
    change (nth (S (length (b :: l) - 1)) (a :: b :: l) d) with (nth (length (b :: l) - 1) (b :: l) d).
    rewrite IH by congruence. reflexivity.
  Qed.

  (* for ALL append histories, handing over with make_point(-1) takes the last appended point *)
  Theorem handover_takes_last_point : forall l, l <> [] -> handover d true l = Some (last l d).
  Proof.
    intros l Hl. unfold handover. rewrite make_point_is_python_index. unfold py_index.
    assert (0 < length l) by (destruct l; simpl; [congruence|lia]).
    replace ((-1 <? - Z.of_nat (length l))%Z) with false by (symmetry; apply Z.ltb_ge; lia).
    replace ((-1 >=? Z.of_nat (length l))%Z) with false
      by (symmetry; rewrite Z.geb_leb; apply Z.leb_gt; lia).
    simpl orb. cbv iota.
    replace (-1 <? 0)%Z with true by reflexivity.
    replace (Z.to_nat (-1 + Z.of_nat (length l))) with (length l - 1) by lia.
    rewrite nth_pred_last; auto.
  Qed.

  (* out-of-range indices are refused, whichever way the index is resolved *)
  Theorem make_point_out_of_range : forall fixed l idx,
    (idx < - Z.of_nat (length l) \/ idx >= Z.of_nat (length l))%Z -> make_point d fixed (appends d l) idx = None.
  Proof.
    intros fixed l idx H. unfold make_point. rewrite size_appends.
    replace ((idx <? - Z.of_nat (length l))%Z || (idx >=? Z.of_nat (length l))%Z) with true; auto.
    symmetry. apply orb_true_iff. destruct H; [left; apply Z.ltb_lt; lia | right; rewrite Z.geb_leb; apply Z.leb_le; lia].
  Qed.

  (* why the default step size hides the defect: when the container is full both readings agree *)
  Theorem as_coded_agrees_when_full : forall (c : cont A) idx,
    c_size c = cap c -> make_point d false c idx = make_point d true c idx.
  Proof. intros c idx H. unfold make_point. rewrite H. reflexivity. Qed.
End ContainerProofs.

(* the code as it stands (index relative to the capacity): 51 appends, the hand-over point is not the last *)
Theorem handover_as_coded_refuted :
  exists l : list Z, l <> [] /\ handover 0%Z false l <> Some (last l 0%Z).
Proof.
  exists (map Z.of_nat (seq 1 51)). split.
  - vm_compute; discriminate.
  - vm_compute. discriminate.
Qed.

(* ... it is the point stored 50 places earlier (cyclic refill of np.resize) *)
Example handover_as_coded_witness :
  handover 0%Z false (map Z.of_nat (seq 1 51)) = Some 50%Z /\
  handover 0%Z false (map Z.of_nat (seq 1 80)) = Some 50%Z /\
  handover 0%Z false (map Z.of_nat (seq 1 30)) = Some 0%Z /\
  handover 0%Z false (map Z.of_nat (seq 1 100)) = Some 100%Z /\
  handover 0%Z true (map Z.of_nat (seq 1 80)) = Some 80%Z.
Proof. vm_compute. repeat split. Qed.

(* C12_Model — executable Gallina models (over Num) of the emission-index and atmosphere methods,
   written from the cited equations:
     ISA / BADA-4 atmosphere (troposphere lapse rate, isothermal layer above 11 km),
     DuBois & Paynter 2006 (SAE 2006-01-1987): Fuel Flow Method 2 Eq. 40, NOx humidity correction Eq. 44-45,
       log-log NOx regression line, bilinear HC/CO fit with the SAGE v1.5 clamping rules,
     ACRP 02-25 low-thrust correction, fuel-sulfur stoichiometry, FOA3 (Wayson et al. 2009),
     SCOPE11 (Agarwal et al. 2019), MEEM (Ahrens et al. 2022), midpoint thrust categories.
   Definitions only.  Theorems: proofs/C12_*.v ; tie to /repo: link/C12_Link.v + harness/c12.py. *)
From Coq Require Import ZArith Reals PrimFloat List Bool String.
From AV Require Import lib.Num lib.FloatMath model.C12_Base.
Import ListNotations.
Local Open Scope string_scope.

Section M.
  Context {N : Num}.
  Local Open Scope num_scope.
  Local Open Scope bool_scope.

  (* ------------------------------------------------------------------ *)
  (* International Standard Atmosphere, two layers                      *)
  (* ------------------------------------------------------------------ *)
  Section ISA.
    Variables (T0 p0 g0 R beta htrop : T N).
    Definition isa_Ttrop_g : T N := T0 + beta * htrop.
    Definition isa_temperature_g (h : T N) : T N :=
      if h <=? htrop then T0 + beta * h else T0 + beta * htrop.
    Definition isa_ptrop_g : T N := p0 * npow ((T0 + beta * htrop) / T0) ((- g0) / (beta * R)).
    Definition isa_pressure_g (h : T N) : T N :=
      if h <=? htrop then p0 * npow (isa_temperature_g h / T0) ((- g0) / (beta * R))
      else isa_ptrop_g * nexp ((- g0) / (R * (T0 + beta * htrop)) * (h - htrop)).
    Definition isa_altitude_g (p : T N) : T N :=
      if isa_ptrop_g <=? p
      then T0 / beta * (npow (p / p0) ((- beta) * R / g0) - q 1 1)
      else htrop - R * (T0 + beta * htrop) / g0 * nln (p / isa_ptrop_g).
  End ISA.

  Definition c_T0 : T N := q 5763 20.            (* 288.15 K *)
  Definition c_p0 : T N := q 101325 1.           (* Pa *)
  Definition c_g0 : T N := q 196133 20000.       (* 9.80665 m/s2 *)
  Definition c_R : T N := q 28705287 100000.     (* 287.05287 J/kg/K *)
  Definition c_beta : T N := - q 13 2000.        (* -0.0065 K/m *)
  Definition c_htrop : T N := q 11000 1.         (* m *)
  Definition c_kappa : T N := q 7 5.             (* 1.4 *)

  Definition isa_temperature := isa_temperature_g c_T0 c_beta c_htrop.
  Definition isa_ptrop := isa_ptrop_g c_T0 c_p0 c_g0 c_R c_beta c_htrop.
  Definition isa_pressure := isa_pressure_g c_T0 c_p0 c_g0 c_R c_beta c_htrop.
  Definition isa_altitude := isa_altitude_g c_T0 c_p0 c_g0 c_R c_beta c_htrop.

  (* per-point atmospheric state used by the EI models: ISA T and p, Mach = TAS / sqrt(kappa R T) *)
  Definition atmos_state (h tas : T N) : T N * T N * T N :=
    (isa_temperature h, isa_pressure h, tas / nsqrt (c_kappa * c_R * isa_temperature h)).

  (* ------------------------------------------------------------------ *)
  (* Fuel Flow Method 2, Eq. 40: sea-level-static equivalent fuel flow   *)
  (* ------------------------------------------------------------------ *)
  Definition ffm2 (ff P Ta M z P_SL T_SL n_eng : T N) : T N :=
    (ff / n_eng) * npow (Ta / T_SL) z / (P / P_SL) * nexp (q 1 5 * (M * M)).
  Definition ffm2_std (ff P Ta M n_eng : T N) : T N := ffm2 ff P Ta M (q 19 5) c_p0 c_T0 n_eng.

  (* ------------------------------------------------------------------ *)
  (* thrust categories by midpoints of the calibration fuel flows        *)
  (* ------------------------------------------------------------------ *)
  Definition low_limit (cal : tmv) : T N := (tget cal Idle + tget cal Approach) / q 2 1.
  Definition approach_limit (cal : tmv) : T N := (tget cal Approach + tget cal Climb) / q 2 1.
  Definition thrust_cat (ff : T N) (cal : tmv) : mode :=
    if ff <=? low_limit cal then Idle
    else if approach_limit cal <? ff then Climb
    else Approach.

  (* ------------------------------------------------------------------ *)
  (* BFFM2 NOx                                                            *)
  (* ------------------------------------------------------------------ *)
  Definition clamp_ff (x : T N) : T N := if x <=? zero then q 1 100 else x.

  Definition mean4 (v : tmv) : T N := let '(a, b, c, d) := v in (a + b + c + d) / q 4 1.

  Definition isclose0 (x : T N) : bool := nabs x <=? q 1 100000000.   (* numpy.isclose(x, 0.0): |x| <= 1e-8 *)
  Definition tmin (v : tmv) : T N := let '(a, b, c, d) := v in nmin (nmin (nmin a b) c) d.
  Definition tmax (v : tmv) : T N := let '(a, b, c, d) := v in nmax (nmax (nmax a b) c) d.

  (* least-squares line through four points: (slope, intercept); abscissae not all equal *)
  Definition ls_fit (x y : tmv) : T N * T N :=
    let xb := mean4 x in
    let yb := mean4 y in
    let '(x1, x2, x3, x4) := x in
    let '(y1, y2, y3, y4) := y in
    let sxy := (x1 - xb) * (y1 - yb) + (x2 - xb) * (y2 - yb) + (x3 - xb) * (y3 - yb) + (x4 - xb) * (y4 - yb) in
    let sxx := (x1 - xb) * (x1 - xb) + (x2 - xb) * (x2 - xb) + (x3 - xb) * (x3 - xb) + (x4 - xb) * (x4 - xb) in
    let s := sxy / sxx in
    (s, yb - s * xb).

  (* What happens when all four abscissae coincide (the regression line is then not unique):
       DegFlat    : the horizontal line through the mean ordinate (the specification; the repaired code);
       DegMinNorm : numpy.polyfit's minimum-norm solution of the rank-deficient, column-scaled system,
                    slope = ybar / (2 x), intercept = ybar / 2   (the code before fix FC12a). *)
  Inductive degfit := DegFlat | DegMinNorm.
  Definition ls_fit_v (d : degfit) (x y : tmv) : T N * T N :=
    let '(x1, x2, x3, x4) := x in
    match d with
    | DegFlat => if isclose0 (tmax x - tmin x) then (zero, mean4 y) else ls_fit x y
    | DegMinNorm => if (x1 =? x2) && (x2 =? x3) && (x3 =? x4)
                    then (mean4 y / (q 2 1 * x1), mean4 y / q 2 1) else ls_fit x y
    end.

  (* log10 of the sea-level NOx index at log10 fuel flow [xe] *)
  Definition nox_line_log_v (d : degfit) (xe : T N) (xc yc : tmv) : T N :=
    let '(s, i) := ls_fit_v d xc yc in xe * s + i.
  Definition nox_line_log := nox_line_log_v DegFlat.

  (* Eq. 44: saturation vapour pressure exponent; T in kelvin (T + 0.01 = t_C + 273.16) *)
  Definition sat_beta (Ta : T N) : T N :=
    let Tc := Ta + q 1 100 in
    q 395149 50000 * (q 1 1 - q 9329 25 / Tc) + q 300571 100000
    + q 62851 12500 * log10 (q 9329 25 / Tc)
    + q 1727 12500000000 * (q 1 1 - pow10 (q 1418 125 * (q 1 1 - Tc / q 9329 25)))
    + q 5083 625000 * (pow10 (q 349149 100000 * (q 1 1 - q 9329 25 / Tc)) - q 1 1).

  (* specific humidity at 60 % relative humidity; P in Pa *)
  Definition humidity_omega (Ta P : T N) : T N :=
    let P_psia := P / c_p0 * q 1837 125 in
    let Pv := q 1813 125000 * pow10 (sat_beta Ta) in
    let phi := q 3 5 in
    q 31099 50000 * phi * Pv / (P_psia - phi * Pv).

  (* Eq. 45: EI(alt) = EI(SL) * exp(H) * (delta^1.02 / theta^3.3)^0.5 *)
  Definition nox_ambient_factor (Ta P : T N) : T N :=
    let theta := Ta / c_T0 in
    let delta := P / c_p0 in
    let H := (- q 19 1) * (humidity_omega Ta P - q 63 10000) in
    nexp H * npow (npow delta (q 51 50) / npow theta (q 33 10)) (q 1 2).

  (* NO / NO2 / HONO fractions of NOx per thrust category (L = idle, A = approach, H = climb & take-off) *)
  Definition speciation (m : mode) : T N * T N * T N :=
    let '(hono, no2r) :=
      match m with
      | Idle => (q 9 2, q 173 2)            (* HONO 4.5 %, NO2/(NOy-HONO) 86.5 % *)
      | Approach => (q 9 2, q 16 1)         (* 4.5 %, 16 % *)
      | Climb | Takeoff => (q 3 4, q 15 2)  (* 0.75 %, 7.5 % *)
      end in
    let no2 := no2r * (q 100 1 - hono) / q 100 1 in
    let no := q 100 1 - hono - no2 in
    (no / q 100 1, no2 / q 100 1, hono / q 100 1).

  Definition bffm2_nox_sl_v (d : degfit) (ff : T N) (ei_cal ff_cal : tmv) : T N :=
    pow10 (nox_line_log_v d (log10 (clamp_ff ff)) (tmap (fun f => log10 (clamp_ff f)) ff_cal) (tmap log10 ei_cal)).

  Definition bffm2_nox_v (d : degfit) (ff : T N) (ei_cal ff_cal : tmv) (Ta P : T N)
    : T N * T N * T N * T N * T N * T N * T N :=
    let nox := bffm2_nox_sl_v d ff ei_cal ff_cal * nox_ambient_factor Ta P in
    let '(pno, pno2, phono) := speciation (thrust_cat ff ff_cal) in
    (nox, nox * pno, nox * pno2, nox * phono, pno, pno2, phono).
  Definition bffm2_nox_sl := bffm2_nox_sl_v DegFlat.
  Definition bffm2_nox := bffm2_nox_v DegFlat.

  (* ------------------------------------------------------------------ *)
  (* BFFM2 HC / CO bilinear fit                                           *)
  (* ------------------------------------------------------------------ *)
  (* the fit in log10 space: (slope, base log fuel, base log EI, horizontal level, breakpoint).
     lEI, lff = log10 of the four certification indices / fuel flows. *)
  Definition hcco_fit_raw (lEI lff : tmv) : T N * T N * T N :=     (* slope, horizontal level, raw intercept *)
    let '(eI, eA, eC, eT) := lEI in
    let '(fI, fA, fC, fT) := lff in
    let slope_den := fA - fI in
    let slope := if isclose0 slope_den then zero else (eA - eI) / slope_den in
    let horz := q 1 2 * (eC + eT) in
    let xint := if isclose0 slope then fA
                else (q 2 1 * fI * slope + eC + eT - q 2 1 * eI) / (q 2 1 * slope) in
    (slope, horz, xint).

  Inductive hcco_rule := RuleClampHigh | RuleNegSlopeLow | RuleFlat | RuleNone.

  Definition hcco_rule_of (lEI lff : tmv) : hcco_rule :=
    let '(slope, horz, xint) := hcco_fit_raw lEI lff in
    let '(fI, fA, fC, fT) := lff in
    if fC <? xint then RuleClampHigh
    else if (xint <? fA) && (slope <? zero) then RuleNegSlopeLow
    else if zero <=? slope then RuleFlat
    else RuleNone.

  Definition hcco_fit_log (lEI lff : tmv) : T N * T N * T N * T N * T N :=
    let '(slope, horz, xint) := hcco_fit_raw lEI lff in
    let '(eI, eA, eC, eT) := lEI in
    let '(fI, fA, fC, fT) := lff in
    match hcco_rule_of lEI lff with
    | RuleClampHigh => (slope, fI, eI, horz, fC)          (* (a) breakpoint not above the climb-out flow *)
    | RuleNegSlopeLow => (slope, fI, eI, eA, fA)          (* (b) level = approach index, breakpoint = approach flow *)
    | RuleFlat => (zero, zero, horz, horz, fA)            (* (c) non-negative slope: horizontal everywhere *)
    | RuleNone => (slope, fI, eI, horz, xint)
    end.

  (* sea-level index at fuel flow ff from a fit *)
  Definition hcco_eval (fit : T N * T N * T N * T N * T N) (ff : T N) : T N :=
    let '(slope, blf, ble, horz, xint) := fit in
    let pos := zero <? ff in
    let lf := if pos then log10 ff else zero in
    if xint <=? lf then pow10 horz
    else if pos then pow10 (slope * (lf - blf) + ble)
    else zero.

  Definition acrp_factor (ff ff_idle : T N) : T N :=
    if ff <? ff_idle then q 1 1 + (- q 52 1) * (ff - ff_idle) else q 1 1.

  Definition hcco_cruise (Ta P : T N) : T N :=
    npow (Ta / c_T0) (q 33 10) / npow (P / c_p0) (q 51 50).

  Definition hcco_sl (ff : T N) (x_EI ff_cal : tmv) : T N :=
    hcco_eval (hcco_fit_log (tmap log10 x_EI) (tmap log10 ff_cal)) ff.

  Definition hcco (ff : T N) (x_EI ff_cal : tmv) (Ta P : T N) : T N :=
    let sl := hcco_sl ff x_EI ff_cal in
    let fI := tget ff_cal Idle in
    let low := if ff <? fI then sl * (q 1 1 + (- q 52 1) * (ff - fI)) else sl in
    low * hcco_cruise Ta P.

  (* ------------------------------------------------------------------ *)
  (* SOx from fuel sulfur                                                 *)
  (* ------------------------------------------------------------------ *)
  Definition mw_S : T N := q 32 1.
  Definition mw_SO2 : T N := q 64 1.
  Definition mw_SO4 : T N := q 96 1.
  (* fsc in ppm by mass, eps = fraction of sulfur emitted as sulfate; result g/kg fuel: (SOx, SO2, SO4) *)
  Definition sox (fsc eps : T N) : T N * T N * T N :=
    let s := fsc / q 1000000 1 in
    let so2 := s * (q 1 1 - eps) * mw_SO2 / mw_S * q 1000 1 in
    let so4 := s * eps * mw_SO4 / mw_S * q 1000 1 in
    (so2 + so4, so2, so4).

  (* ------------------------------------------------------------------ *)
  (* volatile PM                                                           *)
  (* ------------------------------------------------------------------ *)
  Definition pmvol_fuelflow (m : mode) : T N * T N :=
    let oc := q 1 50 in
    let lube := if mode_eqb m Idle then q 3 20 else q 1 2 in
    (oc / (q 1 1 - lube), oc).

  Definition foa3_nodes : list (T N * T N) :=
    [(q 7 1, q 617 100); (q 30 1, q 225 4); (q 85 1, q 76 1); (q 100 1, q 115 1)].
  Definition pmvol_foa3 (thrust hcei : T N) : T N * T N :=
    let v := ninterp thrust foa3_nodes * hcei / q 1000 1 in (v, v).

  (* ------------------------------------------------------------------ *)
  (* SCOPE11 non-volatile PM mass at one LTO mode                          *)
  (* ------------------------------------------------------------------ *)
  Definition afr (m : mode) : T N :=
    match m with Idle => q 106 1 | Approach => q 83 1 | Climb => q 51 1 | Takeoff => q 45 1 end.
  Definition scope11_cbc (sn : T N) : T N :=
    q 1621 2500 * nexp (q 383 5000 * sn) / (q 1 1 + nexp ((- q 549 500) * (sn - q 383 125))).
  Definition scope11_kslm (cbc bp : T N) : T N :=
    nln ((q 3219 1000 * cbc * (q 1 1 + bp) * q 1000 1 + q 625 2) / (cbc * (q 1 1 + bp) * q 1000 1 + q 213 5)).
  Definition scope11_Q (m : mode) (bpr : T N) (etype : string) : T N :=
    if String.eqb etype "MTF" then q 97 125 * afr m * (q 1 1 + bpr) + q 767 1000
    else if String.eqb etype "TF" then q 97 125 * afr m + q 767 1000
    else zero.
  Definition scope11_mode (sn : T N) (m : mode) (bpr : T N) (etype : string) : T N :=
    if (sn =? - q 1 1) || (sn =? zero) then zero else
    let sn' := nmin sn (q 40 1) in
    let cbc := scope11_cbc sn' in
    let bp := if String.eqb etype "MTF" then bpr else zero in
    scope11_kslm cbc bp * cbc * scope11_Q m bpr etype / q 1000 1.
  Definition scope11 (sn : tmv) (bpr : T N) (etype : string) : tmv :=
    let '(a, b, c, d) := sn in
    (scope11_mode a Idle bpr etype, scope11_mode b Approach bpr etype,
     scope11_mode c Climb bpr etype, scope11_mode d Takeoff bpr etype).

  (* ------------------------------------------------------------------ *)
  (* MEEM non-volatile PM along a trajectory                               *)
  (* ------------------------------------------------------------------ *)
  Inductive maxkind := NoMax | Max575 | Max925.

  Record edb := {
    e_SN : @tmv N; e_mass : @tmv N; e_num : @tmv N; e_type : string; e_bpr : T N; e_pr : T N;
    e_mass_max : T N; e_mass_kind : maxkind; e_num_max : T N; e_num_kind : maxkind }.

  Definition gmd_mode (m : mode) : T N := match m with Idle | Approach => q 20 1 | _ => q 40 1 end.
  Definition c_pi : T N := q 3141592653589793 1000000000000000.

  (* reconstruction of missing mode indices from the smoke number (mass, mg/kg) and from the mass (number) *)
  Definition meem_recon_mass (sn : T N) (m : mode) (bp : T N) : T N :=
    let ci := scope11_cbc sn in
    let Q := q 97 125 * afr m * (q 1 1 + bp) + q 767 1000 in
    ci * Q * scope11_kslm ci bp.
  Definition meem_recon_num (mass_m : T N) (m : mode) : T N :=
    q 6 1 * mass_m /
    (c_pi * q 1000000000 1 * npow_nat (gmd_mode m * q 1 1000000000) 3 * nexp (q 9 2 * npow_nat (nln (q 9 5)) 2)).

  Definition meem_mass_modes (e : edb) : tmv :=
    if tmin (e_mass e) <? zero then
      let bp := if String.eqb (e_type e) "MTF" then e_bpr e else zero in
      let f (m : mode) := meem_recon_mass (tget (e_SN e) m) m bp in
      (f Idle, f Approach, f Climb, f Takeoff)
    else e_mass e.

  Definition meem_num_modes (e : edb) (mass : tmv) : tmv :=
    if tmin (e_num e) <? zero then
      let f (m : mode) := meem_recon_num (tget mass m) m in
      (f Idle, f Approach, f Climb, f Takeoff)
    else e_num e.

  Definition meem_grid (v : tmv) (vmax : T N) (k : maxkind) : list (T N * T N) :=
    let '(a0, a1, a2, a3) := v in
    match k with
    | NoMax => [(- q 10 1, a0); (q 7 100, a0); (q 3 10, a1); (q 17 20, a2); (q 1 1, a3); (q 100 1, a3)]
    | Max575 => [(- q 10 1, a0); (q 7 100, a0); (q 3 10, a1); (q 23 40, vmax); (q 17 20, a2); (q 1 1, a3); (q 100 1, a3)]
    | Max925 => [(- q 10 1, a0); (q 7 100, a0); (q 3 10, a1); (q 17 20, a2); (q 37 40, vmax); (q 1 1, a3); (q 100 1, a3)]
    end.

  (* compressor efficiency and pressure coefficient of a point from its altitude rate (h - previous h):
     climbing -> 0.85 ... 1.15 linearly in the altitude between 3000 and the top of the trajectory
     (extrapolated outside, as coded), level -> 0.95, descending -> 0.12 *)
  Definition meem_eta_rate (rate : T N) : T N := if zero <=? rate then q 22 25 else q 7 10.
  Definition meem_lin (hmax h : T N) : T N := (h - q 3000 1) / nmax (q 1 1) (hmax - q 3000 1).
  Definition meem_pc_rate (rate lin : T N) : T N :=
    if zero <? rate then q 17 20 + (q 23 20 - q 17 20) * lin
    else if rate =? zero then q 19 20 else q 3 25.
  Definition meem_pc (hmax hp h : T N) : T N := meem_pc_rate (h - hp) (meem_lin hmax h).
  Definition meem_eta (hp h : T N) : T N := meem_eta_rate (h - hp).
  (* P3 / Pt : combustor inlet total pressure over ambient total pressure *)
  Definition meem_p3_ratio (pr hmax hp h : T N) : T N := q 1 1 + meem_pc hmax hp h * (pr - q 1 1).
  (* the region where the method is well defined: non-negative pressure coefficient.
     Its complement contains every point of finding FC12b (P3 <= 0). *)
  Definition meem_guard (hmax hp h : T N) : bool := zero <=? meem_pc hmax hp h.

  (* thermodynamic chain: ambient static -> total -> combustor inlet (P3, T3) -> sea-level reference P3 -> thrust *)
  Definition meem_stag (M : T N) : T N := q 1 1 + (c_kappa - q 1 1) / q 2 1 * (M * M).
  Definition meem_Tt (Ta M : T N) : T N := Ta * meem_stag M.
  Definition meem_Pt (P M : T N) : T N := P * npow (meem_stag M) (c_kappa / (c_kappa - q 1 1)).
  Definition meem_P3 (P M pc pr : T N) : T N := meem_Pt P M * (q 1 1 + pc * (pr - q 1 1)).
  Definition meem_T3 (Ta P M pc pr eta : T N) : T N :=
    meem_Tt Ta M * (q 1 1 + (q 1 1 / eta) * (npow (meem_P3 P M pc pr / meem_Pt P M) ((c_kappa - q 1 1) / c_kappa) - q 1 1)).
  Definition meem_P3ref (T3 eta : T N) : T N :=
    c_p0 * npow (q 1 1 + eta * (T3 / c_T0 - q 1 1)) (c_kappa / (c_kappa - q 1 1)).
  Definition meem_F (P3ref pr : T N) : T N := (P3ref / c_p0 - q 1 1) / (pr - q 1 1).
  Definition meem_thermo (pr pc eta Ta P M : T N) : T N * T N * T N :=     (* (P3, P3ref, F/F00) *)
    let P3ref := meem_P3ref (meem_T3 Ta P M pc pr eta) eta in
    (meem_P3 P M pc pr, P3ref, meem_F P3ref pr).

  (* altitude adjustment of a reference index: EI = 1e-3 * EI_ref * (P3 / P3_ref)^1.35 * 1.1^2.5 *)
  Definition meem_adjust (ref_mass P3 P3ref : T N) : T N :=
    q 1 1000 * ref_mass * npow (P3 / P3ref) (q 27 20) * npow (q 11 10) (q 5 2).
  Definition meem_number (ref_num ei_mass ref_mass : T N) : T N := ref_num * ei_mass / (q 1 1000 * ref_mass).

  (* emission indices from the engine data and the thermodynamic state: (GMD, EI mass g/kg, EI number #/kg) *)
  Definition gmd_modes : tmv := (gmd_mode Idle, gmd_mode Approach, gmd_mode Climb, gmd_mode Takeoff).
  Definition meem_emit (e : edb) (st : T N * T N * T N) : T N * T N * T N :=
    let '(P3, P3ref, F) := st in
    let mass := meem_mass_modes e in
    let num := meem_num_modes e mass in
    let ref_mass := ninterp F (meem_grid mass (e_mass_max e) (e_mass_kind e)) in
    let ref_num := ninterp F (meem_grid num (e_num_max e) (e_num_kind e)) in
    let gmd := ninterp F (meem_grid gmd_modes zero NoMax) in
    let ei_mass := meem_adjust ref_mass P3 P3ref in
    let ei_num := meem_number ref_num ei_mass ref_mass in
    if tmax (e_SN e) <? zero then (zero, zero, zero)
    else (gmd, (if ei_mass <? zero then zero else ei_mass), ei_num).

  (* one trajectory point: altitude h, altitude of the previous point hp (first point: itself),
     highest altitude of the trajectory hmax, ambient T / P, Mach *)
  Definition meem_point (e : edb) (hmax hp h Ta P M : T N) : T N * T N * T N :=
    meem_emit e (meem_thermo (e_pr e) (meem_pc hmax hp h) (meem_eta hp h) Ta P M).

  Fixpoint meem_traj_from (e : edb) (hmax hp : T N) (pts : list (T N * T N * T N * T N))
    : list (T N * T N * T N) :=
    match pts with
    | [] => []
    | (h, Ta, P, M) :: r => meem_point e hmax hp h Ta P M :: meem_traj_from e hmax h r
    end.
  Definition list_max (l : list (T N)) (d : T N) : T N := fold_left nmax l d.
  Definition meem (e : edb) (pts : list (T N * T N * T N * T N)) : list (T N * T N * T N) :=
    match pts with
    | [] => []
    | (h0, _, _, _) :: r =>
        let hmax := list_max (map (fun p => let '(h, _, _, _) := p in h) r) h0 in
        meem_traj_from e hmax h0 pts
    end.
End M.

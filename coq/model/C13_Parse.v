(* C13 — the CSV conventions of oag.py:CSVEntry.from_csv_row, in front of the importer model.
   Discrete, axiom-free.  A raw row is the tuple of the strings the importer reads; parsing either
   fails (the source catches the exception and drops the row: [RMalformed]) or yields the validity
   record, the stated distance and the schedule that model/C13_Model.v works on.

   Python's int(): surrounding whitespace is stripped, an optional sign, then decimal digits
   (underscore separators and non-ASCII digits are not modelled; the generators never emit them). *)
From Coq Require Import ZArith List String Bool Ascii.
From AV Require Import lib.Dates model.C13_Model.
Import ListNotations.
Open Scope Z_scope.

Definition is_digit (c : ascii) : bool :=
  let n := nat_of_ascii c in (Nat.leb 48 n) && (Nat.leb n 57).
Definition digit_val (c : ascii) : Z := Z.of_nat (nat_of_ascii c) - 48.
Definition is_space (c : ascii) : bool :=
  let n := nat_of_ascii c in (Nat.eqb n 32) || ((Nat.leb 9 n) && (Nat.leb n 13)).

Fixpoint digits_val (acc : Z) (s : string) : option Z :=
  match s with
  | EmptyString => Some acc
  | String c r => if is_digit c then digits_val (acc * 10 + digit_val c) r else None
  end.

Definition nonempty_digits (s : string) : option Z :=
  match s with EmptyString => None | _ => digits_val 0 s end.

Fixpoint lstrip (s : string) : string :=
  match s with
  | EmptyString => EmptyString
  | String c r => if is_space c then lstrip r else s
  end.
Fixpoint rstrip (s : string) : string :=
  match s with
  | EmptyString => EmptyString
  | String c r => match rstrip r with
                  | EmptyString => if is_space c then EmptyString else String c EmptyString
                  | r' => String c r'
                  end
  end.

Definition py_int (s : string) : option Z :=
  match rstrip (lstrip s) with
  | EmptyString => None
  | String c r =>
      if Ascii.eqb c "+"%char then nonempty_digits r
      else if Ascii.eqb c "-"%char then option_map Z.opp (nonempty_digits r)
      else nonempty_digits (String c r)
  end.

(* make_date: the two markers mean "indeterminate"; otherwise YYYYMMDD through date(), which refuses
   impossible dates *)
Definition parse_date_gen (markers : list string) (k1 k2 : Z) (t : string) : option (option (Z * Z * Z)) :=
  if str_in t markers then Some None
  else match py_int t with
       | None => None
       | Some n =>
           let y := n / k1 in let m := n mod k1 / k2 in let d := n mod k2 in
           if valid_date y m d && (1 <=? y) && (y <=? 9999) then Some (Some (y, m, d)) else None
       end.
Definition parse_date := parse_date_gen ["00000000"; "99999999"]%string 10000 100.

(* make_time: hhmm -> minutes after local midnight (TimeOfDay(hour, minute), then hour*60 + minute) *)
Definition parse_time_gen (k : Z) (t : string) : option Z :=
  match py_int t with None => None | Some n => Some (n / k * 60 + n mod k) end.
Definition parse_time := parse_time_gen 100.

(* convert_arrday *)
Definition parse_arrday_gen (prev : string) (prev_val : Z) (blanks : list string) (blank_val : Z) (t : string) : option Z :=
  if String.eqb t prev then Some prev_val
  else if str_in t blanks then Some blank_val
  else py_int t.
Definition parse_arrday := parse_arrday_gen "P" (-1) [" "; ""]%string 0.

(* days of operation: weekday k operates iff the digit k occurs in the field *)
Fixpoint has_char (c : ascii) (s : string) : bool :=
  match s with EmptyString => false | String c' r => Ascii.eqb c c' || has_char c r end.
Definition digit_char (k : Z) : ascii := ascii_of_nat (Z.to_nat (48 + k)).
Definition parse_days_gen (lo hi : Z) (s : string) : list Z :=
  filter (fun k => has_char (digit_char k) s) (zrange lo (hi - 1)).
Definition parse_days := parse_days_gen 1 8.

Record rawrow := RawRow {
  w_carrier : string; w_service : string; w_stops : string; w_operating : string; w_genacft : string;
  w_fltno : string; w_deptim : string; w_arrtim : string; w_arrday : string; w_days : string;
  w_distance : string; w_seats : string; w_efffrom : string; w_effto : string }.

Inductive parsed :=
  | PMalformed
  | PSkipped (k : skip)
  | POk (r : csvrow) (fltno miles seats : Z) (s : sched).

Definition parse_fltno (t : string) : option Z := if String.eqb t "" then Some 0 else py_int t.

Definition parse_raw (excl : list string) (w : rawrow) : parsed :=
  match py_int (w_stops w) with
  | None => PMalformed
  | Some st =>
    let r := CsvRow (w_carrier w) (w_service w) st (w_operating w) (w_genacft w) in
    match row_skip_reason excl r with
    | Some k => PSkipped k
    | None =>
      match parse_fltno (w_fltno w), parse_time (w_deptim w), parse_time (w_arrtim w), parse_arrday (w_arrday w) with
      | Some fl, Some dep, Some arr, Some ad =>
        match py_int (w_distance w), py_int (w_seats w), parse_date (w_efffrom w), parse_date (w_effto w) with
        | Some mi, Some se, Some ef, Some et =>
            POk r fl mi se (Sched ef et (parse_days (w_days w)) dep arr ad)
        | _, _, _, _ => PMalformed
        end
      | _, _, _, _ => PMalformed
      end
    end
  end.

Inductive raw_outcome := RMalformed | ROutcome (fltno seats : Z) (o : outcome).

Section ImportRaw.
  Variable offO offD : Z -> Z.
  Variable geod : Z -> Z -> Z -> Z -> option Z.

  Definition import_raw (fl : flags) (excl : list string) (year : Z) (w : rawrow)
             (known_o known_d : bool) (o d : Z * Z) : raw_outcome :=
    match parse_raw excl w with
    | PMalformed => RMalformed
    | PSkipped k => ROutcome 0 0 (Skipped k)
    | POk r fltno miles seats s =>
        ROutcome fltno seats (import_row offO offD geod fl excl year r known_o known_d o d miles s)
    end.
End ImportRaw.

Definition run_raw (fl : flags) (excl : list string) (year : Z) (w : rawrow) (known_o known_d : bool)
           (o d : Z * Z)
           (tzO0 : Z) (tzO : list (Z * Z)) (tzD0 : Z) (tzD : list (Z * Z))
           (gt : list ((Z * Z * Z * Z) * option Z)) : raw_outcome :=
  import_raw (tz_lookup tzO0 tzO) (tz_lookup tzD0 tzD) (geod_lookup gt) fl excl year w known_o known_d o d.

(* a row in the plain grammar: every numeric field a non-empty string of decimal digits, flight number
   possibly blank, day offset one of the codes or digits, dates a marker or a possible calendar date *)
Definition all_digits (s : string) : bool :=
  match nonempty_digits s with Some _ => true | None => false end.
Definition date_ok (t : string) : bool :=
  match parse_date t with Some _ => true | None => false end.
Definition plain_row (w : rawrow) : bool :=
  all_digits (w_stops w) && (String.eqb (w_fltno w) "" || all_digits (w_fltno w))
  && all_digits (w_deptim w) && all_digits (w_arrtim w)
  && (String.eqb (w_arrday w) "P" || str_in (w_arrday w) [" "; ""]%string || all_digits (w_arrday w))
  && all_digits (w_distance w) && all_digits (w_seats w)
  && date_ok (w_efffrom w) && date_ok (w_effto w).

(* C04 / C05 — trajectory gridding (src/AEIC/gridding/grid.py), executable model over [Num].

   The code works on NaN-padded matrices (one row per trajectory segment); a row's non-NaN
   entries are exactly the lists computed here, so the model is the per-row algorithm of
   [_trajectory_intersection_points_and_cells_horizontal] and of
   [_cell_idxs_touched_by_trajectory_with_state_and_integrated_vars], plus the antimeridian
   split of [_grid_trajectory_with_dateline_crossing].

   Four boolean switches select the behaviour of the tree under check (the harness detects them
   on the real code on every run):
     clamp  (F20)   : false = as coded, [searchsorted - 1] may be -1 and wraps to the last grid value;
                      true  = repaired, the index is clamped at 0.
     fix3   (F3)    : false = as coded, a zero-length segment gets fraction 0 (value lost);
                      true  = repaired, its value is shared equally among its pieces.
     fixdl  (FC05a) : false = as coded, the antimeridian is met at the start point's latitude;
                      true  = repaired, at the latitude of the straight map line.
     fixe   (FC04e) : false = the interpolated crossing latitude unclamped; true = clamped between the end latitudes.
     fixz   (FC04a) : false = as coded, a zero-length crossing segment splits its value by 0/0;
                      true  = repaired, the first part keeps the value.
   Geodesic lengths are external (pyproj): they enter through the function argument [dist].  Once FC04c is
   repaired (latitudes handed to the geodesic are clipped to +-pi/2) [dist] stands for pyproj after that clip —
   still a pseudo-metric, so nothing changes on this side; the harness mirrors the clip (switch clipd).
   The numeric kernels below (line_*, lon_at_lat, lat_at_lon, mid, frac, piece_value, cell_index, crossing,
   crossing_lat, exit_lon, entry_lon, split_val) are proved equal to the text regenerated from grid.py on every
   run in coq/link/C04_Link.v and coq/link/C05_Link.v. *)
From Coq Require Import ZArith List Bool PrimFloat.
From AV Require Import lib.Num.
Import ListNotations.

Section M.
  Context {N : Num}.
  Local Open Scope num_scope.
  Notation T := (T N).

  Definition point := (T * T)%type.          (* (latitude, longitude), radians *)

  (* ---------- numpy idioms ---------- *)

  (* np.searchsorted(g, x) (side='left') on an ascending array: number of leading elements < x *)
  Fixpoint ss_left (g : list T) (x : T) : Z :=
    match g with
    | [] => 0%Z
    | a :: r => if a <? x then (1 + ss_left r x)%Z else 0%Z
    end.

  Definition cell_index (clamp : bool) (g : list T) (x : T) : Z :=
    let i := (ss_left g x - 1)%Z in if clamp then Z.max i 0 else i.

  (* a[i] with Python's negative indices *)
  Definition py_nth (g : list T) (i : Z) : T :=
    let n := Z.of_nat (length g) in
    let j := if (i <? 0)%Z then (n + i)%Z else i in
    if (j <? 0)%Z then zero else nth (Z.to_nat j) g zero.

  Definition nsign (x : T) : Z := if x <? zero then (-1)%Z else if zero <? x then 1%Z else 0%Z.

  (* np.repeat(xs, counts) *)
  Fixpoint repeat_by {A : Type} (xs : list A) (cs : list nat) : list A :=
    match xs, cs with
    | x :: xr, c :: cr => repeat x c ++ repeat_by xr cr
    | _, _ => []
    end.

  Fixpoint map2 {A B C : Type} (f : A -> B -> C) (xs : list A) (ys : list B) : list C :=
    match xs, ys with
    | x :: xr, y :: yr => f x y :: map2 f xr yr
    | _, _ => []
    end.

  (* ndarray.sort (ascending) *)
  Fixpoint insert (x : T) (l : list T) : list T :=
    match l with
    | [] => [x]
    | y :: r => if x <=? y then x :: l else y :: insert x r
    end.
  Definition sort (l : list T) : list T := fold_right insert [] l.

  (* rows with change sign -1 are negated, sorted, negated back *)
  Definition sort_dir (sg : Z) (l : list T) : list T :=
    if (sg =? -1)%Z then map opp (sort (map opp l)) else sort l.

  (* consecutive pairs of a list *)
  Fixpoint pairs {A : Type} (l : list A) : list (A * A) :=
    match l with
    | a :: (b :: _) as r => (a, b) :: pairs r
    | _ => []
    end.

  Definition two : T := one + one.

  (* ---------- one segment ---------- *)

  (* indices of the grid lines met when the cell index goes from s to s + d *)
  Definition crossed (s d : Z) : list Z :=
    if (d <? 0)%Z then map (fun j => (s - Z.of_nat j)%Z) (seq 0 (Z.to_nat (- d)))
    else map (fun j => (s + 1 + Z.of_nat j)%Z) (seq 0 (Z.to_nat d)).

  Definition mid (a b : T) : T := (a + b) / two.
  Definition midpoint (ab : point * point) : point :=
    let '((la, lo), (lb, lob)) := ab in (mid la lb, mid lo lob).

  (* the numeric kernels of calculate_line_parameters and of the intersection coordinates; the text
     regenerated from grid.py on every run (Gen.C04_Extracted) is proved equal to these in link/C04_Link.v *)
  Definition line_vertical (x0 x1 : T) : bool := (x1 - x0) =? zero.          (* slope = inf in the code *)
  Definition line_slope (x0 y0 x1 y1 : T) : T := (y1 - y0) / (x1 - x0).
  Definition line_intercept (x0 y0 slope : T) : T := y0 - slope * x0.
  Definition lon_at_lat (slope icpt y : T) : T := slope * y + icpt.
  Definition lat_at_lon (vertical : bool) (lat0 slope icpt x : T) : T :=
    if vertical then lat0 else (x - icpt) / slope.

  (* (cells, chain): cells = (lat index, lon index) per piece, chain = piece end points *)
  Definition seg_geometry (clamp : bool) (glat glon : list T) (p0 p1 : point)
    : list (Z * Z) * list point :=
    let '(lat0, lon0) := p0 in
    let '(lat1, lon1) := p1 in
    let dlat := lat1 - lat0 in
    let dlon := lon1 - lon0 in
    let vertical := line_vertical lat0 lat1 in
    let slope := line_slope lat0 lon0 lat1 lon1 in
    let icpt := line_intercept lat0 lon0 slope in
    let a0 := cell_index clamp glat lat0 in
    let a1 := cell_index clamp glat lat1 in
    let b0 := cell_index clamp glon lon0 in
    let b1 := cell_index clamp glon lon1 in
    let da := (a1 - a0)%Z in
    let db := (b1 - b0)%Z in
    let latlines := map (py_nth glat) (crossed a0 da) in
    let lonlines := map (py_nth glon) (crossed b0 db) in
    let lons_for_lat := map (lon_at_lat slope icpt) latlines in
    let lats_for_lon := map (lat_at_lon vertical lat0 slope icpt) lonlines in
    let ilats := sort_dir (nsign dlat) (latlines ++ lats_for_lon) in
    let ilons := sort_dir (nsign dlon) (lonlines ++ lons_for_lat) in
    let pts := combine ilats ilons in
    let midcells := map (fun m => (cell_index clamp glat (fst m), cell_index clamp glon (snd m)))
                        (map midpoint (pairs pts)) in
    let k := (Z.abs da + Z.abs db)%Z in
    let cells := (a0, b0) :: midcells ++ (if (k =? 0)%Z then [] else [(a1, b1)]) in
    (cells, p0 :: pts ++ [p1]).

  (* ---------- one trajectory part (no antimeridian crossing inside) ---------- *)

  Definition part_geometry (clamp : bool) (glat glon : list T) (pts : list point) :=
    map (fun s => seg_geometry clamp glat glon (fst s) (snd s)) (pairs pts).

  Definition counts (geom : list (list (Z * Z) * list point)) : list nat :=
    map (fun g => length (fst g)) geom.

  Definition all_cells (geom : list (list (Z * Z) * list point)) : list (Z * Z) :=
    concat (map fst geom).

  (* index of the segment's start point on a vertical / time axis, repeated per piece *)
  Definition axis_indices (clamp : bool) (g : list T) (vals : list T) (cs : list nat) : list Z :=
    repeat_by (removelast (map (cell_index clamp g) vals)) cs.

  Definition state_values (var : list T) (cs : list nat) : list T :=
    repeat_by (removelast var) cs.

  (* ---------- integrated variables ---------- *)

  (* fraction of a segment of length D carried by a piece of length d (cnt pieces in the segment) *)
  Definition frac (fix3 : bool) (cnt : nat) (D d : T) : T :=
    if D =? zero then (if fix3 then one / of_Z (Z.of_nat cnt) else zero) else d / D.

  Definition piece_value (fix3 : bool) (v : T) (cnt : nat) (D d : T) : T := v * frac fix3 cnt D d.

  Definition seg_values (fix3 : bool) (v D : T) (ds : list T) : list T :=
    map (piece_value fix3 v (length ds) D) ds.

  (* dd: per segment (segment length, piece lengths) *)
  Definition part_values (fix3 : bool) (var : list T) (dd : list (T * list T)) : list T :=
    concat (map2 (fun v x => seg_values fix3 v (fst x) (snd x)) var dd).

  Definition attach_dists (dist : point -> point -> T) (geom : list (list (Z * Z) * list point))
    : list (T * list T) :=
    map (fun g => let ch := snd g in
                  (dist (hd (zero, zero) ch) (last ch (zero, zero)),
                   map (fun ab => dist (fst ab) (snd ab)) (pairs ch))) geom.

  (* ---------- antimeridian ---------- *)

  Definition pi : T := lit 3141592653589793 1000000000000000 0x1.921fb54442d18p+1%float.

  Definition crossing (lon1 lon2 : T) : Z :=
    let d := lon2 - lon1 in if pi <? nabs d then nsign d else 0%Z.

  Definition crossings (lons : list T) : list Z :=
    map (fun ab => crossing (fst ab) (snd ab)) (pairs lons).

  Fixpoint first_nonzero (l : list Z) (i : nat) : nat :=
    match l with
    | [] => i
    | x :: r => if (x =? 0)%Z then first_nonzero r (S i) else i
    end.

  Definition count_nonzero (l : list Z) : nat := length (filter (fun x => negb (x =? 0)%Z) l).

  (* latitude at which the split segment meets the antimeridian *)
  (* min(max(v, min(lo, hi)), max(lo, hi)) with Python's builtins *)
  Definition clamp_between (lo hi v : T) : T := nmin (nmax v (nmin lo hi)) (nmax lo hi).

  (* fixe (FC04e): false = the interpolated latitude as it is (in binary64 it can overshoot an end latitude — a
     pole — by one rounding error); true = repaired, clamped between the two end latitudes *)
  Definition crossing_lat (fixdl fixe : bool) (sg : Z) (p0 p1 : point) : T :=
    let '(lat0, lon0) := p0 in
    let '(lat1, lon1) := p1 in
    if fixdl then
      let lon_cross := if (sg =? -1)%Z then pi else - pi in
      let lon_end := if (sg =? -1)%Z then lon1 + two * pi else lon1 - two * pi in
      if lon_end =? lon0 then lat0            (* both end points on the antimeridian *)
      else
        let v := lat0 + (lon_cross - lon0) / (lon_end - lon0) * (lat1 - lat0) in
        if fixe then clamp_between lat0 lat1 v else v
    else lat0.

  Definition exit_lon (sg : Z) : T := if (sg =? -1)%Z then pi else - pi.
  Definition entry_lon (sg : Z) : T := if (sg =? -1)%Z then - pi else pi.

  (* per-point list: first part keeps [0..i] and appends x; second part is x followed by [i+1..] *)
  Definition first_part {A : Type} (l : list A) (i : nat) (x : A) : list A := firstn (S i) l ++ [x].
  Definition second_part {A : Type} (l : list A) (i : nat) (x : A) : list A := x :: skipn (S i) l.

  (* per-segment (integrated) list.  The crossing segment's value is split in proportion to the two part
     lengths; [fixz] (FC04a): false = as coded, a crossing segment of total length 0 (the same point given
     as -pi and as +pi) divides 0 by 0; true = repaired, the first part keeps the value. *)
  Definition split_val (fixz first : bool) (v len total : T) : T :=
    if fixz && (total =? zero) then (if first then v else zero) else v * len / total.
  Definition first_vals (fixz : bool) (var : list T) (i : nat) (len1 total : T) : list T :=
    firstn i var ++ [split_val fixz true (nth i var zero) len1 total].
  Definition second_vals (fixz : bool) (var : list T) (i : nat) (len2 total : T) : list T :=
    split_val fixz false (nth i var zero) len2 total :: skipn (S i) var.

  (* ---------- whole call: Gridder.grid_trajectory ---------- *)

  (* result of the geometric phase, per part:
       lat / lon index per piece, altitude / time index per piece (if given), state values per piece,
       and per segment its chain of piece end points *)
  Definition part_result : Type :=
    (list Z * list Z * option (list Z) * option (list Z) * list (list T)
     * list (list (Z * Z) * list point))%type.

  Definition part_run (clamp : bool) (glat glon galt gtime : list T) (pts : list point)
             (alts times : option (list T)) (states : list (list T)) : part_result :=
    let geom := part_geometry clamp glat glon pts in
    let cs := counts geom in
    let cells := all_cells geom in
    (map fst cells, map snd cells,
     option_map (fun a => axis_indices clamp galt a cs) alts,
     option_map (fun t => axis_indices clamp gtime t cs) times,
     map (fun v => state_values v cs) states,
     geom).

  (* status 0: no crossing (one part); 1: one crossing (two parts); 2: more than one (empty result) *)
  Definition geometry (clamp fixdl fixe : bool) (glat glon galt gtime : list T) (pts : list point)
             (alts times : option (list T)) (states : list (list T))
    : Z * nat * list part_result :=
    let cr := crossings (map snd pts) in
    match count_nonzero cr with
    | O => (0%Z, O, [part_run clamp glat glon galt gtime pts alts times states])
    | S O =>
        let i := first_nonzero cr O in
        let sg := nth i cr 0%Z in
        let p0 := nth i pts (zero, zero) in
        let p1 := nth (S i) pts (zero, zero) in
        let latx := crossing_lat fixdl fixe sg p0 p1 in
        let dup {A} (l : list A) (d : A) := nth i l d in
        (1%Z, i,
         [ part_run clamp glat glon galt gtime
             (first_part pts i (latx, exit_lon sg))
             (option_map (fun a => first_part a i (dup a zero)) alts)
             (option_map (fun t => first_part t i (dup t zero)) times)
             (map (fun v => first_part v i (dup v zero)) states);
           part_run clamp glat glon galt gtime
             (second_part pts i (latx, entry_lon sg))
             (option_map (fun a => second_part a i (dup a zero)) alts)
             (option_map (fun t => second_part t i (dup t zero)) times)
             (map (fun v => second_part v i (dup v zero)) states) ])
    | _ => (2%Z, O, [])
    end.

  (* values phase: [dds] = for each part, per segment (segment length, piece lengths) *)
  Definition values (fix3 fixz : bool) (status : Z) (i : nat) (vars : list (list T))
             (dds : list (list (T * list T))) : list (list T) :=
    match status, dds with
    | 0%Z, [dd] => map (fun var => part_values fix3 var dd) vars
    | 1%Z, [dd1; dd2] =>
        let len1 := fst (last dd1 (zero, [])) in
        let len2 := fst (hd (zero, []) dd2) in
        let total := len1 + len2 in
        map (fun var => part_values fix3 (first_vals fixz var i len1 total) dd1
                        ++ part_values fix3 (second_vals fixz var i len2 total) dd2) vars
    | _, _ => map (fun _ => []) vars
    end.

  (* the composition the theorems speak about: lengths supplied by [dist] *)
  Definition grid_integrated (dist : point -> point -> T) (clamp fix3 fixdl fixe fixz : bool)
             (glat glon : list T) (pts : list point) (vars : list (list T)) : list (list T) :=
    let '(status, i, parts) := geometry clamp fixdl fixe glat glon [] [] pts None None [] in
    values fix3 fixz status i vars
           (map (fun p : part_result => attach_dists dist (snd p)) parts).

  (* cell coordinates reported to the caller: grid[index] with Python indexing *)
  Definition lookup (g : list T) (idx : list Z) : list T := map (py_nth g) idx.

End M.

(* ---------- what the harness evaluates (vm_compute on FNum) ---------- *)
Section Report.
  Context {N : Num}.
  Notation T := (T N).

  (* cell coordinates as returned to the caller + the raw indices + per segment (cells, chain) *)
  Definition part_report (glat glon galt gtime : list T) (p : @part_result N) :=
    let '(la, lo, al, ti, st, geom) := p in
    (lookup glat la, lookup glon lo, option_map (lookup galt) al, option_map (lookup gtime) ti, st,
     (la, lo, al, ti), geom).

  Definition run_geometry (clamp fixdl fixe : bool) (glat glon galt gtime : list T) (pts : list point)
             (alts times : option (list T)) (states : list (list T)) :=
    let '(status, i, parts) := geometry clamp fixdl fixe glat glon galt gtime pts alts times states in
    (status, i, map (part_report glat glon galt gtime) parts).
End Report.

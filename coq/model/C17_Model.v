(* C17 — each flight is independent of the builder's history and failures.  Discrete model, axiom-free.

   Builder       : trajectories/builders/base.py:Builder  — options, own attribute dictionary, transient `ctx`
   getattr/setattr: the attribute redirection of __getattr__ / __setattr__
   fly           : try: ctx = CONTEXT_CLASS(...); [calc_starting_mass]; [_iterate_mass | _fly_iteration]
                   finally: del self.ctx            (guarded = false: as coded; true: delete only if present)
   The flight physics is an oracle (Section variables): the context constructor, calc_starting_mass,
   one _fly_iteration, the convergence test and the mass correction.  They see the builder only through
   attribute reads ([view]).  Values are opaque tokens (Z); None is Python's None. *)
From Coq Require Import ZArith List String Bool.
Import ListNotations.
Open Scope string_scope.

Definition value := option Z.                       (* None = Python None *)
Definition dict := list (string * value).

Fixpoint lookup (k : string) (d : dict) : option value :=
  match d with
  | [] => None
  | (k', v) :: r => if String.eqb k k' then Some v else lookup k r
  end.
Fixpoint update (k : string) (v : value) (d : dict) : dict :=
  match d with
  | [] => [(k, v)]
  | (k', v') :: r => if String.eqb k k' then (k, v) :: r else (k', v') :: update k v r
  end.
Definition has (k : string) (d : dict) : bool := match lookup k d with Some _ => true | None => false end.

(* exceptions: an original reason (token), or the AttributeError of `del self.ctx` on a builder without ctx *)
Inductive exn := Reason (r : Z) | AttrCtx.
Inductive outcome :=
  | Flown (traj : Z) (start_mass total_fuel : value)     (* trajectory token + the two metadata values *)
  | Raised (e : exn).

Record options := mkopts { o_optimize : bool; o_iterate : bool; o_max_iters : nat; o_rest : Z }.

(* own: attributes stored on the builder object itself beyond `options` and the constructor's constants *)
Record builder := mkb { b_opts : options; b_own : dict; b_ctx : option dict }.
Definition fresh (o : options) : builder := mkb o [] None.

Record mission := mkmission { m_id : Z; m_given_mass : value }.

(* normal lookup first (own dictionary), then __getattr__: the context, if there is one and it has the name *)
Definition getattr (b : builder) (a : string) : option value :=
  match lookup a (b_own b) with
  | Some v => Some v
  | None => match b_ctx b with Some c => lookup a c | None => None end
  end.
(* __setattr__: existing context attributes are set on the context, everything else on the builder *)
Definition setattr (b : builder) (a : string) (v : value) : builder :=
  match b_ctx b with
  | Some c => if has a c then mkb (b_opts b) (b_own b) (Some (update a v c))
              else mkb (b_opts b) (update a v (b_own b)) (b_ctx b)
  | None => mkb (b_opts b) (update a v (b_own b)) (b_ctx b)
  end.
Definition view (b : builder) : string -> option value := getattr b.

Definition NOT_IMPLEMENTED : Z := (-1)%Z.          (* optimize_traj *)
Definition NO_CONVERGENCE : Z := (-2)%Z.           (* RuntimeError of _iterate_mass *)

Inductive op := Fly (m : mission) | SetOptions (o : options).

Section Fly.
  (* ---- oracles ---- *)
  (* the context constructor: the fixed information of the flight (a dictionary of attributes) or a reason *)
  (* it is handed the builder (`builder=self`): it may read it, through the same attribute view as everything else *)
  Variable ctor : options -> (string -> option value) -> mission -> dict + Z.
  Variable calc : options -> (string -> option value) -> (Z * Z) + Z.     (* (starting mass, fuel load) or a reason *)
  Variable iter_once : options -> (string -> option value) -> (Z * Z) + Z. (* (trajectory, residual) or a reason *)
  Variable small : options -> Z -> bool.                                  (* abs(residual) < mass_iter_reltol *)
  Variable adjust : (string -> option value) -> Z -> Z * Z.               (* corrected (starting mass, fuel load) *)
  Variable guarded : bool.                                                (* finally deletes ctx only if present *)
  (* a starting mass handed in by the caller: true = calc_starting_mass still runs for the fuel load (after
     fixes/FC17a.diff), false = it is skipped and total_fuel_mass stays None (the code before that fix) *)
  Variable gfix : bool.

  (* Builder._fly_iteration: records current_mass on the builder (the context has no such attribute) *)
  Definition fly_iteration (b : builder) : builder * ((Z * Z) + Z) :=
    let b1 := match getattr b "starting_mass" with Some v => setattr b "current_mass" v | None => b end in
    (b1, iter_once (b_opts b1) (view b1)).

  (* Builder._iterate_mass; k = max_mass_iters - 1 *)
  Fixpoint iterate (k : nat) (b : builder) (t r : Z) : builder * (Z + Z) :=
    match k with
    | O => (b, inr NO_CONVERGENCE)
    | S k' =>
      if small (b_opts b) r then (b, inl t)
      else
        let '(sm, tf) := adjust (view b) r in
        let b1 := setattr (setattr b "starting_mass" (Some sm)) "total_fuel_mass" (Some tf) in
        match fly_iteration b1 with
        | (b2, inl (t', r')) => iterate k' b2 t' r'
        | (b2, inr e) => (b2, inr e)
        end
    end.

  (* starting mass and fuel load, after the context has been stored *)
  Definition prepare (b : builder) : builder + Z :=
    match getattr b "starting_mass" with
    | Some None =>
        match calc (b_opts b) (view b) with
        | inl (sm, tf) => inl (setattr (setattr b "total_fuel_mass" (Some tf)) "starting_mass" (Some sm))
        | inr e => inr e
        end
    | Some (Some _) =>
        if gfix then
          match calc (b_opts b) (view b) with
          | inl (_, tf) => inl (setattr b "total_fuel_mass" (Some tf))
          | inr e => inr e
          end
        else inl b
    | None => inl b
    end.

  (* the body of the try block, after the context has been stored *)
  Definition body_after (b1 : builder) : builder * outcome :=
    if o_optimize (b_opts b1) then (b1, Raised (Reason NOT_IMPLEMENTED))
    else
      match fly_iteration b1 with
      | (b2, inr e) => (b2, Raised (Reason e))
      | (b2, inl (t, r)) =>
        let finish (b3 : builder) (t3 : Z) :=
          (b3, Flown t3 (match getattr b3 "starting_mass" with Some v => v | None => None end)
                        (match getattr b3 "total_fuel_mass" with Some v => v | None => None end)) in
        if o_iterate (b_opts b2) then
          match iterate (Nat.pred (o_max_iters (b_opts b2))) b2 t r with
          | (b3, inl t3) => finish b3 t3
          | (b3, inr e) => (b3, Raised (Reason e))
          end
        else finish b2 t
      end.

  Definition body (b : builder) : builder * outcome :=
    match prepare b with
    | inr e => (b, Raised (Reason e))          (* calc_starting_mass itself refused (state outside the envelope) *)
    | inl b1 => body_after b1
    end.

  (* `del self.ctx` *)
  Definition del_ctx (b : builder) : builder := mkb (b_opts b) (b_own b) None.

  (* Builder.fly *)
  Definition fly (b : builder) (m : mission) : builder * outcome :=
    match ctor (b_opts b) (view b) m with
    | inr r =>
        (* the constructor raised: self.ctx was never assigned; the finally clause runs *)
        match b_ctx b with
        | Some _ => (del_ctx b, Raised (Reason r))
        | None => if guarded then (b, Raised (Reason r)) else (b, Raised AttrCtx)
        end
    | inl c =>
        let c' := update "total_fuel_mass" None (update "starting_mass" (m_given_mass m) c) in
        let '(b', out) := body (mkb (b_opts b) (b_own b) (Some c')) in
        (del_ctx b', out)
    end.

  Fixpoint run (b : builder) (ms : list mission) : builder * list outcome :=
    match ms with
    | [] => (b, [])
    | m :: r => let '(b1, o) := fly b m in let '(b2, os) := run b1 r in (b2, o :: os)
    end.

  (* between flights the caller may also replace the builder's options (`builder.options = ...`) *)
  Definition set_options (b : builder) (o : options) : builder := mkb o (b_own b) (b_ctx b).
  Fixpoint run_ops (b : builder) (ops : list op) : builder * list outcome :=
    match ops with
    | [] => (b, [])
    | Fly m :: r => let '(b1, o) := fly b m in let '(b2, os) := run_ops b1 r in (b2, o :: os)
    | SetOptions o :: r => run_ops (set_options b o) r
    end.
End Fly.

(* ------------------------------------------------------------------------------------------------ *)
(* Execution against recorded behaviour: each mission carries the answers the oracles gave for it      *)
(* ------------------------------------------------------------------------------------------------ *)
Record script := mkscript {
  s_ctor : option Z;                 (* Some r: the context constructor refuses with reason r *)
  s_calc : option Z;                 (* Some r: calc_starting_mass refuses with reason r *)
  s_iters : list ((Z * bool) + Z) }. (* per _fly_iteration: (trajectory token, residual small?) or a reason *)

(* the replaying oracles read the iteration number from the context attribute "iter" that the replayed
   constructor plants and the replayed [adjust] does not touch; to stay inside the model the iteration
   counter is carried in the starting-mass token instead: token = mission id * 1000 + iteration number *)
Definition replay_ctor (ss : list script) (_ : options) (_ : string -> option value) (m : mission) : dict + Z :=
  match s_ctor (nth (Z.to_nat (m_id m)) ss (mkscript None None [])) with
  | Some r => inr r
  | None => inl [("mission", Some (m_id m)); ("starting_mass", None); ("total_fuel_mass", None)]
  end.
Definition mission_of_view (v : string -> option value) : Z :=
  match v "mission" with Some (Some i) => i | _ => 0%Z end.
Definition iter_of_view (v : string -> option value) : Z :=
  match v "starting_mass" with Some (Some i) => (i mod 1000)%Z | _ => 0%Z end.
Definition replay_calc (ss : list script) (_ : options) (v : string -> option value) : (Z * Z) + Z :=
  match s_calc (nth (Z.to_nat (mission_of_view v)) ss (mkscript None None [])) with
  | Some r => inr r
  | None => inl ((mission_of_view v * 1000)%Z, (mission_of_view v * 1000)%Z)
  end.
Definition replay_iter (ss : list script) (_ : options) (v : string -> option value) : (Z * Z) + Z :=
  let s := nth (Z.to_nat (mission_of_view v)) ss (mkscript None None []) in
  match nth (Z.to_nat (iter_of_view v)) (s_iters s) (inr (-99)%Z) with
  | inl (t, sm) => inl (t, if sm then 1%Z else 0%Z)
  | inr e => inr e
  end.
Definition replay_small (_ : options) (r : Z) : bool := Z.eqb r 1.
Definition replay_adjust (v : string -> option value) (_ : Z) : Z * Z :=
  ((mission_of_view v * 1000 + iter_of_view v + 1)%Z, (mission_of_view v * 1000 + iter_of_view v + 1)%Z).

Inductive shown := SFlown (traj : Z) (iterations : Z) | SReason (r : Z) | SAttrCtx.

Definition show (o : outcome) : shown :=
  match o with
  | Flown t (Some sm) _ => SFlown t ((sm mod 1000) + 1)%Z
  | Flown t None _ => SFlown t 0%Z
  | Raised (Reason r) => SReason r
  | Raised AttrCtx => SAttrCtx
  end.

(* a history on one builder: before flight i the options are set to os[i]; outcomes, whether the context is gone
   afterwards, the leftover own attributes *)
Definition run_history (guarded gfix : bool) (os : list options) (ss : list script) (ids : list Z) (given : list value)
  : list shown * bool * list string :=
  let ms := map (fun p => mkmission (fst p) (snd p)) (combine ids given) in
  let ops := flat_map (fun p => [SetOptions (fst p); Fly (snd p)]) (combine os ms) in
  let '(b, outs) := run_ops (replay_ctor ss) (replay_calc ss) (replay_iter ss) replay_small replay_adjust guarded gfix
                            (fresh (nth 0 os (mkopts false false 0 0))) ops in
  (map show outs, match b_ctx b with None => true | Some _ => false end, map fst (b_own b)).

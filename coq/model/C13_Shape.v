(* C13 — the statements of writable_database.py:_add_schedule and the importer's state, as the model
   (model/C13_Model.v: expand / instance / ordered / schedule / import_row) was written from them.  The text
   regenerated from the source on every run must equal these constants (link/C13_Link.v); the behaviour is
   tied by the correspondence.  A line break of the source is written " | ". *)
From Coq Require Import List String Bool.
Import ListNotations.

Definition expected_sched_params : string := "self, cur, line, flight_id, origin, destination, effective_from, effective_to, days, departure_time, arrival_time, arrival_day_offset"%string.
(* pandas date_range with both ends and no `inclusive=`: every day from..to  ~  [expand from to] *)
Definition expected_sched_range : string := "pd.date_range(effective_from, effective_to, tz='UTC')"%string.
(* ~ [in_days] *)
Definition expected_sched_weekday_skip : string := "DayOfWeek.from_pandas(flight_date) not in days"%string.
(* wall-clock time first, then localised: d*1440 + dep minutes read in the origin zone  ~  [instance] *)
Definition expected_sched_dep_local : string := "dep_time = (flight_date + timedelta(hours=departure_time.hour, minutes=departure_time.minute)).replace(tzinfo=ZoneInfo(origin.timezone))"%string.
(* the arrival day offset is added to the date before localising in the destination zone *)
Definition expected_sched_arr_local : string := "arr_time = (flight_date + timedelta(days=arrival_day_offset, hours=arrival_time.hour, minutes=arrival_time.minute)).replace(tzinfo=ZoneInfo(destination.timezone))"%string.
Definition expected_sched_dep_utc : string := "dep_timestamp = int(dep_time.timestamp())"%string.
Definition expected_sched_arr_utc : string := "arr_timestamp = int(arr_time.timestamp())"%string.
(* ~ [ordered] : kept iff dep <= arr *)
Definition expected_sched_drop_test : string := "arr_timestamp < dep_timestamp"%string.
(* UTC day number of the departure instant  ~  dep / 86400 *)
Definition expected_sched_day : string := "day = int((dep_time - EPOCH).days)"%string.
Definition expected_sched_append : string := "data.append((dep_timestamp, arr_timestamp, day, flight_id))"%string.
Definition expected_sched_insert_guard : string := "len(data) > 0"%string.
Definition expected_sched_insert_sql : string := "INSERT INTO schedules ( departure_timestamp, arrival_timestamp, day, flight_id ) VALUES (?, ?, ?, ?)"%string.
(* the recorded count is the number of kept instances, not cursor state *)
Definition expected_sched_return : string := "return len(data)"%string.
Definition expected_sched_epoch : string := "pd.Timestamp('1970-01-01T00:00:00Z')"%string.
(* no per-session state beyond the caches, the warning log and the lazily built timezone finder *)
Definition expected_importer_state : list string := ["_airport_cache"%string; "_country_cache"%string; "_timezonefinder"%string; "unknown_airports"%string; "warnings"%string].
(* _distance_check reads its arguments, the geodesic and the warning types only *)
Definition expected_distance_check_names : list string := ["GEOD"%string; "Warning"%string].
(* ~ [od_pair] *)
Definition expected_od_pair_expr : string := "min(origin.airport.iata_code, destination.airport.iata_code) + max(origin.airport.iata_code, destination.airport.iata_code)"%string.

(* ---- which airports are known (utils/airports.py:AirportsData) ----
   An airport row is (iata_code, type).  A code is KNOWN iff some row of the main file or of the patch file
   carries it — every row with a non-empty code counts, whatever its `type` (the patch file exists to keep
   closed and otherwise historical airports known). *)
Definition airport_row := (string * string)%type.
Definition row_kept (r : airport_row) : bool := negb (String.eqb (fst r) "").
Definition known_airport (main patch : list airport_row) (code : string) : bool :=
  existsb (fun r => row_kept r && String.eqb (fst r) code) (main ++ patch).

(* reading of the row filter found in _read_file's comprehension (None: a filter the model has no reading for) *)
Definition row_filter_of_src (flt : string) : option (airport_row -> bool) :=
  if String.eqb flt "row['iata_code']" then Some row_kept else None.
Definition known_of_src (key flt : string) (main patch : list airport_row) (code : string) : option bool :=
  if negb (String.eqb key "row['iata_code']") then None
  else match row_filter_of_src flt with
       | None => None
       | Some f => Some (existsb (fun r => f r && String.eqb (fst r) code) (main ++ patch))
       end.

Definition expected_airport_sources : list string :=
  ["self._airports = self._read_file(_data_file('airports'))";
   "self._airports.update(self._read_file(config.data_file_location('airports/airports-patch.csv')))"]%string.
Definition expected_airport_lookup : string := "return self._airports.get(code)".

Lemma closed_airport_is_known :
  known_airport [("LHR", "large_airport")]%string [("TXL", "closed"); ("", "heliport")]%string "TXL" = true
  /\ known_airport [("LHR", "large_airport")]%string [("TXL", "closed"); ("", "heliport")]%string "" = false
  /\ known_airport [("LHR", "large_airport")]%string [("TXL", "closed")]%string "QQQ" = false.
Proof. repeat split; reflexivity. Qed.

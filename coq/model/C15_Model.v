(* C15 — ground tracks and mission distances.
   trajectories/ground_track.py:GroundTrack (cumulative index, bisect_left lookup, location, _overstep,
   step, azimuth normalisation) and missions/mission.py:Mission.gc_distance, over [Num].

   The geodesic computations themselves are pyproj's.  The model therefore
     * takes the answers of the inverse problem for the legs (azimuth, distance per leg — the finite table
       GroundTrack.__init__ asks for) as data, and
     * returns small ORACLE SCRIPTS for everything that depends on intermediate results
       ([PFwd k az d] = GEOD.fwd from waypoint k with azimuth az over distance d, [AInvFrom p j] = forward
       azimuth of GEOD.inv from p to waypoint j, ...).  The harness evaluates the scripts with pyproj and
       compares with the implementation; proofs interpret them over Section oracles (proofs/C15_Proofs.v). *)
From Coq Require Import ZArith PrimFloat List Bool Arith.
From AV Require Import lib.Num.
Import ListNotations.

Section M.
Context {N : Num}.
Local Open Scope num_scope.
Local Open Scope bool_scope.

Record track := { legs : list (T N * T N);     (* (forward azimuth, distance) of each leg, as GEOD.inv returns them *)
                  allow : bool }.              (* allow_overstep *)

Definition c_360 : T N := lit 360 1 0x1.68p+8.

(* itertools.accumulate([0.0] + distances): running left-to-right sums *)
Fixpoint accumulate (acc : T N) (ds : list (T N)) : list (T N) :=
  match ds with
  | [] => [acc]
  | d :: r => acc :: accumulate (acc + d) r
  end.

Definition dists (g : track) : list (T N) := map snd (legs g).
Definition index (g : track) : list (T N) := accumulate zero (dists g).
Definition nlegs (g : track) : nat := length (legs g).
Definition total (g : track) : T N := last (index g) zero.
Definition idx (g : track) (i : nat) : T N := nth i (index g) zero.
Definition leg_az (g : track) (i : nat) : T N := nth i (map fst (legs g)) zero.

(* __contains__ *)
Definition contains (g : track) (d : T N) : bool := (idx g 0 <=? d) && (d <=? total g).

(* bisect.bisect_left on a non-decreasing list: first position whose element is >= d *)
Fixpoint bisect_left (xs : list (T N)) (d : T N) : nat :=
  match xs with
  | [] => O
  | x :: r => if x <? d then S (bisect_left r d) else O
  end.

(* oracle scripts *)
Inductive pexp := PWp (i : nat) | PFwd (i : nat) (az d : T N).
Inductive aexp := ALeg (i : nat) | AInvFrom (p : pexp) (j : nat) | AInvTo (j : nat) (p : pexp).
Inductive reason := RRange | RNeg | RCross | ROutside.
Inductive res := Refuse (why : reason) | At (p : pexp) (a : aexp).

Definition location (g : track) (d : T N) : res :=
  if negb (contains g d) then Refuse RRange else
  match bisect_left (index g) d with
  | O => At (PWp 0) (ALeg 0)
  | S k =>
      if total g <=? d then At (PWp (nlegs g)) (ALeg (nlegs g - 1))
      else let p := PFwd k (leg_az g k) (d - idx g k) in At p (AInvFrom p (S k))
  end.

Definition overstep (g : track) (d : T N) : res :=
  let k := (nlegs g - 1)%nat in
  let p := PFwd k (leg_az g k) (d - idx g k) in At p (AInvTo (nlegs g) p).

Definition step (g : track) (a b : T N) : res :=
  if (a <? zero) || (b <? zero) then Refuse RNeg else
  if contains g a && contains g (a + b) then
    let bp := bisect_left (index g) a in
    let ap := bisect_left (index g) (a + b) in
    if negb (allow g) && negb (Nat.eqb bp ap) && (a <? idx g bp) then Refuse RCross
    else location g (a + b)
  else if negb (allow g) then Refuse ROutside
  else overstep g (a + b).

(* GroundTrack.Point.__post_init__: azimuth % 360.0, for the raw range pyproj reports ([-180, 180]);
   for raw values in [-360, 360) this is what Python's float modulo computes. *)
Definition norm360 (a : T N) : T N := if a <? zero then a + c_360 else a.

(* Mission.gc_distance: the four positional arguments handed to GEOD.inv (pyproj expects lon, lat, lon, lat) *)
Inductive dexp := DInv (x1 y1 x2 y2 : T N).
Definition gc_distance (exchanged : bool) (olon olat dlon dlat : T N) : dexp :=
  if exchanged then DInv olat olon dlat dlon else DInv olon olat dlon dlat.
(* length of GroundTrack.great_circle(origin, destination): the one leg's inverse problem *)
Definition great_circle_leg (olon olat dlon dlat : T N) : dexp := DInv olon olat dlon dlat.

End M.

Arguments track : clear implicits.
Arguments pexp : clear implicits.
Arguments aexp : clear implicits.
Arguments res : clear implicits.
Arguments dexp : clear implicits.

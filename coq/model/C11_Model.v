(* C11 — every documented emissions option combination works or is refused by name.
   Discrete model, axiom-free.  Also the shared vocabulary (species, config, enabled species, which
   species each component writes) of the numeric bookkeeping model C01_Model.v.

   Source read: config/emissions.py (EmissionsConfig, enabled_species), emissions/emission.py
   (compute_emissions, sum_total_emissions), emissions/trajectory.py, emissions/lto.py, emissions/apu.py,
   emissions/gse.py, emissions/utils.py (constant_species_values). *)
From Coq Require Import List Bool String ZArith.
Import ListNotations.
Open Scope string_scope.

(* ---- species (types/species.py:Species, in enum order) ---- *)
Inductive species :=
  | CO2 | H2O | HC | CO | NOx | NO | NO2 | HONO | PMnvol | PMnvolGMD | PMvol | OCic | SOx | SO2 | SO4 | PMnvolN.

Definition all_species : list species :=
  [CO2; H2O; HC; CO; NOx; NO; NO2; HONO; PMnvol; PMnvolGMD; PMvol; OCic; SOx; SO2; SO4; PMnvolN].

Definition sp_idx (s : species) : nat :=
  match s with
  | CO2 => 1 | H2O => 2 | HC => 3 | CO => 4 | NOx => 5 | NO => 6 | NO2 => 7 | HONO => 8 | PMnvol => 9
  | PMnvolGMD => 10 | PMvol => 11 | OCic => 12 | SOx => 13 | SO2 => 14 | SO4 => 15 | PMnvolN => 16
  end.
Definition species_eqb (a b : species) : bool :=
  match a, b with
  | CO2, CO2
  | H2O, H2O
  | HC, HC
  | CO, CO
  | NOx, NOx
  | NO, NO
  | NO2, NO2
  | HONO, HONO
  | PMnvol, PMnvol
  | PMnvolGMD, PMnvolGMD
  | PMvol, PMvol
  | OCic, OCic
  | SOx, SOx
  | SO2, SO2
  | SO4, SO4
  | PMnvolN, PMnvolN => true
  | _, _ => false
  end.
Definition mem (s : species) (l : list species) : bool := existsb (species_eqb s) l.

(* ---- the 13 documented options (config/emissions.py, data/default_config.toml) ---- *)
Inductive cd_mode := CD_TRAJECTORY | CD_LTO.
Inductive gas_method := G_BFFM2 | G_P3T3 | G_NONE.                    (* EINOxMethod: nox / hc / co *)
Inductive pmvol_method := PV_FUEL_FLOW | PV_FOA3 | PV_NONE.
Inductive pmnvol_method := PN_MEEM | PN_SCOPE11 | PN_FOA3 | PN_NONE.

Record config := mkConfig {
  cd : cd_mode;
  co2_on : bool; h2o_on : bool; sox_on : bool;
  nox_m : gas_method; hc_m : gas_method; co_m : gas_method;
  pmvol_m : pmvol_method; pmnvol_m : pmnvol_method;
  apu_on : bool; gse_on : bool; lifecycle_on : bool }.

Definition all_bool := [true; false].
Definition all_cd := [CD_TRAJECTORY; CD_LTO].
Definition all_gas := [G_BFFM2; G_P3T3; G_NONE].
Definition all_pmvol := [PV_FUEL_FLOW; PV_FOA3; PV_NONE].
Definition all_pmnvol := [PN_MEEM; PN_SCOPE11; PN_FOA3; PN_NONE].

(* the complete Cartesian product: 2 * 2^3 * 3^3 * 3 * 4 * 2^3 = 41472 configurations *)
Definition all_configs : list config :=
  flat_map (fun a => flat_map (fun b => flat_map (fun c => flat_map (fun d =>
  flat_map (fun e => flat_map (fun f => flat_map (fun g => flat_map (fun h =>
  flat_map (fun i => flat_map (fun j => flat_map (fun k => flat_map (fun l =>
    [mkConfig a b c d e f g h i j k l])
  all_bool) all_bool) all_bool) all_pmnvol) all_pmvol) all_gas) all_gas) all_gas)
  all_bool) all_bool) all_bool) all_cd.

(* ---- the *_enabled properties of EmissionsConfig ---- *)
Inductive switch := S_co2 | S_h2o | S_hc | S_co | S_nox | S_pmvol | S_pmnvol | S_sox.

Definition gas_enabled (m : gas_method) : bool := match m with G_NONE => false | _ => true end.
Definition pmvol_enabled (c : config) : bool := match pmvol_m c with PV_NONE => false | _ => true end.
Definition pmnvol_enabled (c : config) : bool := match pmnvol_m c with PN_NONE => false | _ => true end.

Definition switch_on (c : config) (w : switch) : bool :=
  match w with
  | S_co2 => co2_on c | S_h2o => h2o_on c | S_sox => sox_on c
  | S_nox => gas_enabled (nox_m c) | S_hc => gas_enabled (hc_m c) | S_co => gas_enabled (co_m c)
  | S_pmvol => pmvol_enabled c | S_pmnvol => pmnvol_enabled c
  end.

Definition pmnvol_eqb (a b : pmnvol_method) : bool :=
  match a, b with
  | PN_MEEM, PN_MEEM | PN_SCOPE11, PN_SCOPE11 | PN_FOA3, PN_FOA3 | PN_NONE, PN_NONE => true
  | _, _ => false
  end.

(* one `add(...)` call of EmissionsConfig.enabled_species: an optional guard on pmnvol_method
   (`if self.pmnvol_method in (...)`), the *_enabled label consulted, the species added *)
Definition add_call := (option (list pmnvol_method) * switch * list species)%type.

Definition enabled_gen (table : list add_call) (c : config) (s : species) : bool :=
  existsb (fun '(g, w, ss) =>
             match g with None => true | Some ms => existsb (pmnvol_eqb (pmnvol_m c)) ms end
             && switch_on c w && mem s ss) table.

(* hand transcription of the table built by enabled_species; link/C11_Link.v proves the table regenerated
   from config/emissions.py on every run equal to this one *)
Definition enabled_table : list add_call :=
  [ (None, S_co2, [CO2]); (None, S_h2o, [H2O]); (None, S_hc, [HC]); (None, S_co, [CO]);
    (None, S_nox, [NOx; NO; NO2; HONO]); (None, S_pmvol, [PMvol; OCic]);
    (None, S_pmnvol, [PMnvol; PMnvolGMD]);
    (Some [PN_SCOPE11; PN_MEEM], S_pmnvol, [PMnvolN]);
    (None, S_sox, [SOx; SO2; SO4]) ].

(* the same set as a direct function of the species (proved equal to [enabled_gen enabled_table] in
   proofs/C11_Proofs.v:enabled_table_correct); this is what the rest of the model consults *)
Definition enabled (c : config) (s : species) : bool :=
  match s with
  | CO2 => co2_on c
  | H2O => h2o_on c
  | HC => gas_enabled (hc_m c)
  | CO => gas_enabled (co_m c)
  | NOx | NO | NO2 | HONO => gas_enabled (nox_m c)
  | PMvol | OCic => pmvol_enabled c
  | PMnvol | PMnvolGMD => pmnvol_enabled c
  | PMnvolN => match pmnvol_m c with PN_SCOPE11 | PN_MEEM => true | _ => false end
  | SOx | SO2 | SO4 => sox_on c
  end.

(* ---- which species each component WRITES ---- *)

(* utils.py:constant_species_values, filtered by `species in enabled_species` at both call sites *)
Definition const_has (c : config) (s : species) : bool :=
  match s with
  | CO2 => enabled c CO2
  | H2O => enabled c H2O
  | SOx | SO2 | SO4 => (enabled c SO2 || enabled c SO4) && enabled c s
  | _ => false
  end.

(* trajectory.py:get_trajectory_emissions — species whose per-point index comes from an EI method *)
Definition traj_var_has (c : config) (s : species) : bool :=
  match s with
  | NOx | NO | NO2 | HONO =>
      enabled c NOx && match nox_m c with G_BFFM2 => true | _ => false end   (* P3T3: prints, writes nothing *)
  | HC => enabled c HC
  | CO => enabled c CO
  | PMvol | OCic => pmvol_enabled c      (* pmvol_enabled /\ method <> NONE; FUEL_FLOW and FOA3 both write *)
  | PMnvol | PMnvolGMD =>
      pmnvol_enabled c && match pmnvol_m c with PN_MEEM | PN_SCOPE11 => true | _ => false end
  | PMnvolN =>       (* MEEM writes it when enabled; SCOPE11 only with a number profile, which is always None *)
      pmnvol_enabled c && match pmnvol_m c with PN_MEEM => enabled c PMnvolN | _ => false end
  | _ => false
  end.
Definition traj_has (c : config) (s : species) : bool := const_has c s || traj_var_has c s.

(* lto.py:get_LTO_emissions.  [lto_var_has]: index comes from an EI method (fed as an oracle to C01). *)
Definition lto_var_has (c : config) (s : species) : bool :=
  match s with
  | PMvol | OCic => enabled c PMvol
  | PMnvol => enabled c PMnvol && match pmnvol_m c with PN_SCOPE11 => true | _ => false end
  | _ => false
  end.
(* written as the literal 0 whatever the data *)
Definition lto_zero_has (c : config) (s : species) : bool :=
  match s with
  | PMnvol => enabled c PMnvol && match pmnvol_m c with PN_SCOPE11 => false | _ => true end
  | PMnvolGMD => true
  | _ => false
  end.
Definition lto_tab_has (c : config) (s : species) : bool :=
  match s with
  | NOx | NO | NO2 | HONO => switch_on c S_nox     (* _lto_nox consults nox_enabled / nox_method directly *)
  | HC => enabled c HC
  | CO => enabled c CO
  | _ => false
  end.
Definition lto_has (c : config) (s : species) : bool :=
  const_has c s || lto_tab_has c s || lto_var_has c s || lto_zero_has c s.

(* apu.py:get_APU_emissions writes every species, PMnvolN only under SCOPE11/MEEM *)
Definition apu_has (c : config) (s : species) : bool :=
  match s with
  | PMnvolN => match pmnvol_m c with PN_SCOPE11 | PN_MEEM => true | _ => false end
  | _ => true
  end.
(* gse.py:get_GSE_emissions writes every species *)
Definition gse_has (c : config) (s : species) : bool := true.

Definition keys (has : species -> bool) : list species := filter has all_species.

(* ---- the outcome of compute_emissions ---- *)
(* what the configuration cannot decide: the performance model's APU and the fuel's life-cycle datum *)
Record env := mkEnv { apu_present : bool; apu_running : bool; lifecycle_data : bool }.
Definition all_envs : list env :=
  flat_map (fun a => flat_map (fun b => flat_map (fun c => [mkEnv a b c]) all_bool) all_bool) all_bool.

Inductive outcome :=
  | Balanced (traj lto apu gse : list species) (lifecycle_applied : bool)
  | Refused (name : string)
  | Internal (what : string).

Definition pmnvol_name (m : pmnvol_method) : string :=
  match m with PN_MEEM => "meem" | PN_SCOPE11 => "scope11" | PN_FOA3 => "foa3" | PN_NONE => "none" end.

(* method dispatch (trajectory.py:compute_EI_NOx, _calculate_EI_PMvol, _calculate_EI_PMnvol; lto.py:_lto_pmvol,
   _lto_pmnvol): the members each dispatcher handles without raising; any other member reaches the
   `case _` / `else` branch, which raises NotImplementedError naming the configured value.
   link/C11_Link.v proves the lists regenerated from the source equal to these. *)
Definition nox_traj_handled (m : gas_method) : bool := true.              (* NONE, BFFM2, P3T3 (prints) *)
Definition pmvol_traj_handled (m : pmvol_method) : bool := true.          (* NONE, FUEL_FLOW, FOA3 *)
Definition pmnvol_traj_handled (m : pmnvol_method) : bool :=
  match m with PN_FOA3 => false | _ => true end.                          (* NONE, MEEM, SCOPE11 *)
Definition pmvol_lto_handled (m : pmvol_method) : bool := true.
Definition pmnvol_lto_handled (m : pmnvol_method) : bool := true.         (* FOA3|MEEM placeholder, SCOPE11, NONE *)

Definition gas_name (m : gas_method) : string :=
  match m with G_BFFM2 => "bffm2" | G_P3T3 => "p3t3" | G_NONE => "none" end.
Definition pmvol_name (m : pmvol_method) : string :=
  match m with PV_FUEL_FLOW => "fuel_flow" | PV_FOA3 => "foa3" | PV_NONE => "none" end.

(* the state of the tree with respect to the two defects found (see design.d/C11.md):
   F9    apu.py reads lto_indices[SO2]/[SO4] although SOx may be switched off        -> KeyError
   FC11a trajectory.py:_thrust_percentages_from_categories iterates numpy strings     -> AttributeError
   [true] = repaired. *)
Record tree := mkTree { fixed_f9 : bool; fixed_foa3 : bool }.
Definition repaired : tree := mkTree true true.
Definition as_found : tree := mkTree false false.

(* get_trajectory_emissions, in the order of the source: NOx, (HC, CO), PMvol, PMnvol *)
Definition traj_failure (t : tree) (c : config) : option outcome :=
  if enabled c NOx && negb (nox_traj_handled (nox_m c)) then Some (Refused (gas_name (nox_m c)))
  else if pmvol_enabled c && negb (pmvol_traj_handled (pmvol_m c)) then Some (Refused (pmvol_name (pmvol_m c)))
  else if pmvol_enabled c && negb (fixed_foa3 t) && match pmvol_m c with PV_FOA3 => true | _ => false end
       then Some (Internal "AttributeError:thrust_percentage")
  else if pmnvol_enabled c && negb (pmnvol_traj_handled (pmnvol_m c)) then Some (Refused (pmnvol_name (pmnvol_m c)))
  else None.

(* get_LTO_emissions: unreachable refusals today (every member is handled), kept for faithfulness *)
Definition lto_failure (c : config) : option outcome :=
  if enabled c PMvol && negb (pmvol_lto_handled (pmvol_m c)) then Some (Refused (pmvol_name (pmvol_m c)))
  else if enabled c PMnvol && negb (pmnvol_lto_handled (pmnvol_m c)) then Some (Refused (pmnvol_name (pmnvol_m c)))
  else None.

(* apu.py reads lto_indices[SO2][IDLE] and lto_indices[SO4][IDLE] when the APU burns fuel; the repaired
   code reads an absent index as 0 *)
Definition apu_read_failure (t : tree) (e : env) (c : config) : option outcome :=
  if apu_on c && apu_present e && apu_running e && negb (fixed_f9 t) then
    if negb (lto_has c SO2) then Some (Internal "KeyError:SO2")
    else if negb (lto_has c SO4) then Some (Internal "KeyError:SO4") else None
  else None.

Definition apu_runs (e : env) (c : config) : bool := apu_on c && apu_present e.

Definition outcome_of (t : tree) (e : env) (c : config) : outcome :=
  match traj_failure t c with
  | Some o => o
  | None =>
  match lto_failure c with
  | Some o => o
  | None =>
    match apu_read_failure t e c with
    | Some o => o
    | None =>
      let lc := enabled c CO2 && lifecycle_on c in
      if lc && negb (lifecycle_data e) then Refused "lifecycle"
      else Balanced (keys (traj_has c)) (keys (lto_has c))
                    (if apu_runs e c then keys (apu_has c) else [])
                    (if gse_on c then keys (gse_has c) else []) lc
    end
  end
  end.

(* ---- the property, as a decidable predicate on outcomes ---- *)
(* the documented switch governing each species (docstrings of EmissionsConfig / default_config.toml);
   written independently of [enabled_table] *)
Definition governing_on (c : config) (s : species) : bool :=
  match s with
  | CO2 => co2_on c
  | H2O => h2o_on c
  | SOx | SO2 | SO4 => sox_on c
  | NOx | NO | NO2 | HONO => match nox_m c with G_NONE => false | _ => true end
  | HC => match hc_m c with G_NONE => false | _ => true end
  | CO => match co_m c with G_NONE => false | _ => true end
  | PMvol | OCic => match pmvol_m c with PV_NONE => false | _ => true end
  | PMnvol | PMnvolGMD | PMnvolN => match pmnvol_m c with PN_NONE => false | _ => true end
  end.

(* a refusal must name the value configured for one of the method options, and that method must really be
   one the code does not implement; or be the missing life-cycle datum of the fuel *)
Definition names_configured (c : config) (e : env) (n : string) : bool :=
  (String.eqb n (gas_name (nox_m c)) && negb (nox_traj_handled (nox_m c)))
  || (String.eqb n (pmvol_name (pmvol_m c)) && negb (pmvol_traj_handled (pmvol_m c) && pmvol_lto_handled (pmvol_m c)))
  || (String.eqb n (pmnvol_name (pmnvol_m c)) && negb (pmnvol_traj_handled (pmnvol_m c) && pmnvol_lto_handled (pmnvol_m c)))
  || (String.eqb n "lifecycle" && lifecycle_on c && negb (lifecycle_data e)).

Definition ok (c : config) (e : env) (o : outcome) : bool :=
  match o with
  | Internal _ => false
  | Refused n => names_configured c e n
  | Balanced tr lt _ _ _ =>
      forallb (fun s => governing_on c s
                        || (negb (mem s tr) && (negb (mem s lt) || lto_zero_has c s))) all_species
  end.

Definition default_config : config :=
  mkConfig CD_TRAJECTORY true true true G_BFFM2 G_BFFM2 G_BFFM2 PV_FUEL_FLOW PN_MEEM true true true.

(* C16 — ground speed = | airspeed vector + wind vector |.
   One model text over [Num]: theorems at [RNum], execution at [FNum].

   Conventions of the property: heading h in degrees clockwise from north; wind (u, v) =
   (eastward, northward).  An air vector of length tas along heading h therefore has
   east = tas * sin h, north = tas * cos h.

   [air exchanged] carries both readings:
     exchanged = false : the SPECIFICATION  (east = tas sin h, north = tas cos h)
     exchanged = true  : weather.py:Weather.get_ground_speed AS CODED
                         (u_air = tas cos h, v_air = tas sin h)                      -- finding F14
   [coded_exchanged] says which one the current /repo tree has (flip to [false] once repaired). *)
From Coq Require Import ZArith PrimFloat List Bool.
From AV Require Import lib.Num.
Import ListNotations.

Definition coded_exchanged : bool := true.

Section M.
Context {N : Num}.
Local Open Scope num_scope.
Local Open Scope bool_scope.

(* ---- constants (constants.py, utils/standard_atmosphere.py) ---- *)
Definition c_p0 : T N := lit 101325 1 0x1.8bcd000000000p+16.
Definition c_T0 : T N := lit 5763 20 0x1.2026666666666p+8.
Definition c_g0 : T N := lit 196133 20000 0x1.39d013a92a305p+3.
Definition c_R_air : T N := lit 28705287 100000 0x1.1f0d88e368f08p+8.
Definition c_beta : T N := - (lit 13 2000 0x1.a9fbe76c8b439p-8).
Definition c_h_tropo : T N := lit 11000 1 0x1.57c0000000000p+13.
Definition c_alt_max : T N := lit 25000 1 0x1.86a0000000000p+14.
Definition c_100 : T N := lit 100 1 0x1.9000000000000p+6.
Definition c_pi : T N := lit 3141592653589793 1000000000000000 0x1.921fb54442d18p+1.
Definition c_180 : T N := lit 180 1 0x1.6800000000000p+7.

(* ---- ISA (BADA-4 form) temperature and pressure ---- *)
Definition isa_temperature (alt : T N) : T N :=
  if alt <=? c_h_tropo then c_T0 + c_beta * alt else c_T0 + c_beta * c_h_tropo.

Definition isa_pressure (alt : T N) : T N :=
  let p_tropo := c_p0 * npow ((c_T0 + c_beta * c_h_tropo) / c_T0) ((- c_g0) / (c_beta * c_R_air)) in
  if alt <=? c_h_tropo
  then c_p0 * npow (isa_temperature alt / c_T0) ((- c_g0) / (c_beta * c_R_air))
  else p_tropo * nexp ((- c_g0) / (c_R_air * (c_T0 + c_beta * c_h_tropo)) * (alt - c_h_tropo)).

(* pressure level in hPa handed to the interpolation *)
Definition level (alt : T N) : T N := isa_pressure alt / c_100.
Definition alt_out_of_range (alt : T N) : bool := c_alt_max <? alt.

(* ---- multilinear interpolation on a rectilinear grid, refused outside ---- *)
(* first cell [xs_i, xs_{i+1}] (axis ascending) that contains q *)
Fixpoint bracket (xs : list (T N)) (q : T N) : option (nat * T N * T N) :=
  match xs with
  | a :: ((b :: _) as r) =>
      if (a <=? q) && (q <=? b) then Some (O, a, b)
      else match bracket r q with
           | Some (i, x0, x1) => Some (S i, x0, x1)
           | None => None
           end
  | _ => None
  end.

Definition lerp (x0 x1 q f0 f1 : T N) : T N := f0 + (f1 - f0) / (x1 - x0) * (q - x0).

Definition interp_axis (xs : list (T N)) (q : T N) (f : nat -> option (T N)) : option (T N) :=
  match bracket xs q with
  | Some (i, x0, x1) =>
      match f i, f (S i) with
      | Some f0, Some f1 => Some (lerp x0 x1 q f0 f1)
      | _, _ => None
      end
  | None => None
  end.

Definition table := list (list (list (T N))).     (* [level][latitude][longitude], axes ascending *)

Definition node (tb : table) (i j k : nat) : option (T N) :=
  match nth_error tb i with
  | Some pl => match nth_error pl j with
               | Some row => nth_error row k
               | None => None
               end
  | None => None
  end.

Definition interp3 (ps las los : list (T N)) (tb : table) (p la lo : T N) : option (T N) :=
  interp_axis ps p (fun i =>
    interp_axis las la (fun j =>
      interp_axis los lo (fun k => node tb i j k))).

(* ---- heading decomposition and magnitude ---- *)
Definition deg2rad (h : T N) : T N := h * (c_pi / c_180).
Definition hypot (a b : T N) : T N := nsqrt (a * a + b * b).

(* (eastward, northward) components of the air vector; th in radians *)
Definition air (exchanged : bool) (tas th : T N) : T N * T N :=
  if exchanged then (tas * ncos th, tas * nsin th) else (tas * nsin th, tas * ncos th).

Definition gs_rad (exchanged : bool) (tas th u v : T N) : T N :=
  let a := air exchanged tas th in hypot (fst a + u) (snd a + v).

Definition gs (exchanged : bool) (tas h u v : T N) : T N := gs_rad exchanged tas (deg2rad h) u v.

(* clockwise rotation by phi of a vector given by (east, north) components *)
Definition rot_cw (phi u v : T N) : T N * T N :=
  (u * ncos phi + v * nsin phi, v * ncos phi - u * nsin phi).

(* ---- the whole query ---- *)
Inductive result := GsOk (x : T N) | GsOutside | GsAltRange.

Record scene := { sc_levels : list (T N); sc_lats : list (T N); sc_lons : list (T N);
                  sc_u : list table; sc_v : list table }.   (* one table per time slice (one if no time axis) *)

Definition ground_speed (exchanged : bool) (sc : scene) (slice : nat)
           (alt lat lon tas h : T N) : result :=
  if alt_out_of_range alt then GsAltRange else
  match nth_error (sc_u sc) slice, nth_error (sc_v sc) slice with
  | Some tu, Some tv =>
      match interp3 (sc_levels sc) (sc_lats sc) (sc_lons sc) tu (level alt) lat lon,
            interp3 (sc_levels sc) (sc_lats sc) (sc_lons sc) tv (level alt) lat lon with
      | Some u, Some v => GsOk (gs exchanged tas h u v)
      | _, _ => GsOutside
      end
  | _, _ => GsOutside
  end.

(* interpolated wind alone, for the harness *)
Definition wind (sc : scene) (slice : nat) (alt lat lon : T N) : option (T N * T N) :=
  match nth_error (sc_u sc) slice, nth_error (sc_v sc) slice with
  | Some tu, Some tv =>
      match interp3 (sc_levels sc) (sc_lats sc) (sc_lons sc) tu (level alt) lat lon,
            interp3 (sc_levels sc) (sc_lats sc) (sc_lons sc) tv (level alt) lat lon with
      | Some u, Some v => Some (u, v)
      | _, _ => None
      end
  | _, _ => None
  end.

End M.

Arguments result : clear implicits.
Arguments scene : clear implicits.
Arguments table : clear implicits.

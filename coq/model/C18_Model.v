(* C18 — exactly one immutable configuration.  Discrete model, axiom-free.
   [du] is the reference reading of config/core.py:deep_update; the text regenerated from the
   source on every run (Gen.C18_Extracted) is proved equal to it in link/C18_Link.v. *)
From Coq Require Import ZArith List String Bool.
From AV Require Import lib.Tree.
Import ListNotations.
Open Scope string_scope.

(* deep_update, parametrised by which of the three guards the `if` of the source contains:
   g_in   : `key in base`
   g_bd   : `isinstance(base[key], dict)`
   g_vd   : `isinstance(value, dict)`                                                        *)
Fixpoint du_gen (g_in g_bd g_vd : bool) (base ov : tree) {struct ov} : tree :=
  match ov with
  | Leaf _ => ov
  | Node okids =>
    match base with
    | Leaf _ => ov
    | Node bkids =>
      Node ((fix go (bk : list kv) (ok : list kv) {struct ok} : list kv :=
               match ok with
               | [] => bk
               | (k, v) :: rest =>
                   let present := match lookup k bk with Some _ => true | None => false end in
                   let bdict := match lookup k bk with Some b => is_node b | None => false end in
                   let cond := (if g_in then present else true) &&
                               (if g_bd then bdict else true) &&
                               (if g_vd then is_node v else true) in
                   let bk' :=
                     if cond then
                       match lookup k bk with
                       | Some b => set k (du_gen g_in g_bd g_vd b v) bk
                       | None => set k v bk          (* unreachable with g_in; Python would raise KeyError *)
                       end
                     else set k v bk in
                   go bk' rest
               end) bkids okids)
    end
  end.

Definition du := du_gen true true true.

(* ---- the singleton state machine ---- *)
Inductive fail_kind := FkNone | FkOpen | FkField | FkPath.
Inductive op :=
  | Load (file kwargs : tree) (fk : fail_kind)
  | Reset
  | Get
  | Read (p : list string)
  | Mutate (p : list string).
Inductive out :=
  | OkUnit | OkVal (v : option tree)
  | ErrNotSet | ErrAlready | ErrOpen | ErrField | ErrPath | ErrFrozen.

Definition state := option tree.

Definition effective (defaults file kwargs : tree) : tree := du defaults (du file kwargs).

Section Machine.
  Variable defaults : tree.
  (* [late] = true: the singleton is registered after the last validator (repaired code, and the
     specification); false: registered between field validation and path resolution (code before
     the fix, kept to document the finding). *)
  Variable late : bool.

  Definition step (s : state) (o : op) : state * out :=
    match o with
    | Load file kwargs fk =>
        match fk with
        | FkOpen => (s, ErrOpen)                       (* config file unreadable: before validation *)
        | FkField => (s, ErrField)                     (* field validation precedes the singleton test *)
        | FkPath =>
            match s with
            | Some _ => (s, ErrAlready)
            | None => if late then (None, ErrPath)
                      else (Some (effective defaults file kwargs), ErrPath)
            end
        | FkNone =>
            match s with
            | Some _ => (s, ErrAlready)
            | None => (Some (effective defaults file kwargs), OkUnit)
            end
        end
    | Reset => (None, OkUnit)
    | Get => match s with Some _ => (s, OkUnit) | None => (s, ErrNotSet) end
    | Read p => match s with Some c => (s, OkVal (get p c)) | None => (s, ErrNotSet) end
    | Mutate _ => match s with Some _ => (s, ErrFrozen) | None => (s, ErrNotSet) end
    end.

  Fixpoint run (s : state) (ops : list op) : state * list out :=
    match ops with
    | [] => (s, [])
    | o :: r => let (s1, x) := step s o in let (s2, xs) := run s1 r in (s2, x :: xs)
    end.
End Machine.

(* The three-state reference machine of the property text (Unset / Set c), written independently:
   a load succeeds iff nothing is active and nothing fails; any failed load leaves the state as it was
   (Unset stays Unset, an active configuration stays active). *)
Definition spec_step (defaults : tree) (s : state) (o : op) : state * out :=
  match o, s with
  | Load _ _ FkOpen, _ => (s, ErrOpen)
  | Load _ _ FkField, _ => (s, ErrField)
  | Load _ _ _, Some _ => (s, ErrAlready)
  | Load _ _ FkPath, None => (None, ErrPath)
  | Load f k FkNone, None => (Some (effective defaults f k), OkUnit)
  | Reset, _ => (None, OkUnit)
  | Get, Some _ => (s, OkUnit)
  | Get, None => (s, ErrNotSet)
  | Read p, Some c => (s, OkVal (get p c))
  | Read _, None => (s, ErrNotSet)
  | Mutate _, Some _ => (s, ErrFrozen)
  | Mutate _, None => (s, ErrNotSet)
  end.

Fixpoint spec_run (defaults : tree) (s : state) (ops : list op) : state * list out :=
  match ops with
  | [] => (s, [])
  | o :: r => let (s1, x) := spec_step defaults s o in
              let (s2, xs) := spec_run defaults s1 r in (s2, x :: xs)
  end.

(* ------------------------------------------------------------------------------------------
   Generalised machine (round 2 of the C18 development, after an independent audit):
   * the after-validators of Config are DATA (a list of stages regenerated from the source), so
     that "the singleton is registered late" is a derived fact about that list, not a switch;
   * whether the model owning a setting is frozen is DATA too (a predicate on the owner's path),
     and a mutation of an unfrozen owner really changes the active configuration.
   ------------------------------------------------------------------------------------------ *)
Inductive vstage :=
  | VRefuseIfActive      (* if _config is not None: raise RuntimeError *)
  | VResolve             (* a validator that may raise (missing data file) *)
  | VRegister.           (* _config = self *)

Fixpoint run_validators (vs : list vstage) (path_fails : bool) (s : state) (c : tree) : state * out :=
  match vs with
  | [] => (s, OkUnit)
  | VRefuseIfActive :: r =>
      match s with Some _ => (s, ErrAlready) | None => run_validators r path_fails s c end
  | VResolve :: r => if path_fails then (s, ErrPath) else run_validators r path_fails s c
  | VRegister :: r => run_validators r path_fails (Some c) c
  end.

Definition found_stages    : list vstage := [VRefuseIfActive; VRegister; VResolve].
Definition repaired_stages : list vstage := [VRefuseIfActive; VResolve; VRefuseIfActive; VRegister].

(* no stage that can raise comes after a registration *)
Fixpoint nothing_fails_after_register (vs : list vstage) (registered : bool) : bool :=
  match vs with
  | [] => true
  | VRegister :: r => nothing_fails_after_register r true
  | VResolve :: r => negb registered && nothing_fails_after_register r registered
  | VRefuseIfActive :: r => negb registered && nothing_fails_after_register r registered
  end.

Fixpoint set_path (p : list string) (v : tree) (t : tree) : tree :=
  match p with
  | [] => v
  | k :: r => match t with
              | Node kids => match lookup k kids with
                             | Some c => Node (set k (set_path r v c) kids)
                             | None => Node (set k (set_path r v (Node [])) kids)
                             end
              | Leaf _ => t
              end
  end.

Inductive opg :=
  | LoadG (file kwargs : tree) (fk : fail_kind)
  | ResetG | GetG | ReadG (p : list string)
  | MutateG (p : list string) (v : Z).

Section General.
  Variable defaults : tree.
  Variable stages : list vstage.
  Variable frozen : list string -> bool.     (* is the model owning the setting at this path frozen? *)

  Definition owner (p : list string) : list string := removelast p.

  Definition step_g (s : state) (o : opg) : state * out :=
    match o with
    | LoadG file kwargs fk =>
        match fk with
        | FkOpen => (s, ErrOpen)
        | FkField => (s, ErrField)
        | FkPath => run_validators stages true s (effective defaults file kwargs)
        | FkNone => run_validators stages false s (effective defaults file kwargs)
        end
    | ResetG => (None, OkUnit)
    | GetG => match s with Some _ => (s, OkUnit) | None => (s, ErrNotSet) end
    | ReadG p => match s with Some c => (s, OkVal (get p c)) | None => (s, ErrNotSet) end
    | MutateG p v =>
        match s with
        | None => (s, ErrNotSet)
        | Some c => if frozen (owner p) then (s, ErrFrozen)
                    else (Some (set_path p (Leaf v) c), OkUnit)
        end
    end.

  Fixpoint run_g (s : state) (ops : list opg) : state * list out :=
    match ops with
    | [] => (s, [])
    | o :: r => let (s1, x) := step_g s o in let (s2, xs) := run_g s1 r in (s2, x :: xs)
    end.
End General.

Definition forget (o : opg) : op :=
  match o with
  | LoadG f k fk => Load f k fk | ResetG => Reset | GetG => Get | ReadG p => Read p | MutateG p _ => Mutate p
  end.

(* C03 — what is stored in a trajectory store is what is read back.  Discrete model, axiom-free.

   A NetCDF file is a finite map from index tuples (field set, field, trajectory, species slot,
   thrust-mode slot) to cells; a cell that was never written reads back as the library's fill value
   (numeric fill constant, empty string, empty variable-length array).  [write_field] / [read_field]
   follow trajectories/store.py:_write_to_nc_var / _read_from_nc_var for the six dimension shapes,
   in two versions selected by [fixed]:

     fixed = false   the code before the repair of F2: species written at their position in the
                     Species enumeration, read at their position in the file's species dimension,
                     fill values not recognised on read;
     fixed = true    the repaired code: written and read at the position in the file's species
                     dimension, unwritten entries skipped, species without a place refused.

   Per-point arrays are opaque tokens (length, identity): the model never looks inside an array,
   only at its length (the netCDF4 library is trusted to return the elements it was given; the
   harness compares the elements themselves). Floats are carried as their IEEE bit patterns. *)
From Coq Require Import ZArith List String Bool Arith.
Import ListNotations.
Local Open Scope list_scope.

(* ---- values ------------------------------------------------------------------------------- *)
Inductive dtype := I8 | I16 | I32 | I64 | U8 | U16 | U32 | U64 | F32 | F64 | Str.
Inductive scalar := VInt (z : Z) | VFlt (bits : Z) | VStr (s : string).
Inductive arr := Arr (len id : Z).
Definition alen (a : arr) : Z := let 'Arr n _ := a in n.
Definition aid (a : arr) : Z := let 'Arr _ i := a in i.
Inductive shape := ShT | ShTP | ShTS | ShTSP | ShTM | ShTSM.
Record fmeta := { fm_shape : shape; fm_dtype : dtype; fm_req : bool }.

Inductive fval :=
  | FNone                                  (* unset *)
  | FScal (s : scalar)                     (* T   : per-trajectory scalar or string *)
  | FArr (a : arr)                         (* TP  : per-point array *)
  | FSp (m : list (nat * scalar))          (* TS  : species -> scalar *)
  | FSpArr (m : list (nat * arr))          (* TSP : species -> per-point array *)
  | FTm (l : list scalar)                  (* TM  : the four thrust-mode values *)
  | FSpTm (m : list (nat * list scalar)).  (* TSM : species -> four thrust-mode values *)

Definition scalar_eqb (a b : scalar) : bool :=
  match a, b with
  | VInt x, VInt y => Z.eqb x y
  | VFlt x, VFlt y => Z.eqb x y
  | VStr x, VStr y => String.eqb x y
  | _, _ => false
  end.

(* netCDF4.default_fillvals (i1 i2 i4 i8 u1 u2 u4 u8; f4, f8 as bit patterns); an unwritten string reads "" *)
Definition fill_of (d : dtype) : scalar :=
  match d with
  | I8 => VInt (-127)
  | I16 => VInt (-32767)
  | I32 => VInt (-2147483647)
  | I64 => VInt (-9223372036854775806)
  | U8 => VInt 255
  | U16 => VInt 65535
  | U32 => VInt 4294967295
  | U64 => VInt 18446744073709551614
  | F32 => VFlt 2096103424             (* 0x7cf00000 *)
  | F64 => VFlt 5160562223013167104    (* 0x479e000000000000 *)
  | Str => VStr ""%string
  end.

(* ThrustModeValues.__getitem__ of a missing mode *)
Definition zero_of (d : dtype) : scalar :=
  match d with F32 | F64 => VFlt 0 | Str => VStr ""%string | _ => VInt 0 end.

Definition empty_arr : arr := Arr 0 0.

Definition has_point (s : shape) : bool := match s with ShTP | ShTSP => true | _ => false end.
Definition has_species (s : shape) : bool := match s with ShTS | ShTSP | ShTSM => true | _ => false end.

(* ---- files --------------------------------------------------------------------------------- *)
Inductive cell := CScal (s : scalar) | CArr (a : arr).
Definition prefix := (nat * nat * nat)%type.            (* field set, field, trajectory index *)
Definition key := (prefix * nat * nat)%type.            (* ... species slot, thrust-mode slot *)

Definition prefix_eqb (p q : prefix) : bool :=
  let '(a, b, c) := p in let '(a', b', c') := q in Nat.eqb a a' && Nat.eqb b b' && Nat.eqb c c'.
Definition key_eqb (k l : key) : bool :=
  let '(p, s, m) := k in let '(p', s', m') := l in prefix_eqb p p' && Nat.eqb s s' && Nat.eqb m m'.

Definition cells := list (key * cell).
Fixpoint get (k : key) (c : cells) : option cell :=
  match c with
  | [] => None
  | (l, v) :: r => if key_eqb k l then Some v else get k r
  end.
Definition put (k : key) (v : cell) (c : cells) : cells := (k, v) :: c.

(* A store, for the purposes of this property: which species dimension the file holding each field set
   has, and the cells of all its files together.  (A field set lives in exactly one file and the field
   set is part of every key, so the files of a store never share a key; what distinguishes the
   layouts is only which species dimension a field set's file gets.) *)
Record store := { s_species : list (nat * list nat);
                  s_cells : cells }.

Inductive err := EIndexBound | EValue | EType | EAssert | EAttr | EStopIter | EHdf | EIndex | EOther.
Definition res (A : Type) := (A + err)%type.

(* ---- writing one field --------------------------------------------------------------------- *)
Definition patch := (nat * nat * cell)%type.             (* species slot, thrust-mode slot, cell *)

Fixpoint enum_from {A} (k : nat) (l : list A) : list (nat * A) :=
  match l with [] => [] | x :: r => (k, x) :: enum_from (S k) r end.

Fixpoint lookup {A} (sp : nat) (m : list (nat * A)) : option A :=
  match m with [] => None | (k, v) :: r => if Nat.eqb sp k then Some v else lookup sp r end.

Definition memb (x : nat) (l : list nat) : bool := existsb (Nat.eqb x) l.

(* (slot, species) pairs in the order the code visits them *)
Definition slots (fixed : bool) (fsp : list nat) : list (nat * nat) :=
  if fixed then enum_from 0 fsp else map (fun e => (e, e)) (seq 0 16).

Fixpoint sp_patches {A} (mk : nat -> A -> list patch) (bound : nat) (sl : list (nat * nat))
         (m : list (nat * A)) : res (list patch) :=
  match sl with
  | [] => inl []
  | (slot, sp) :: r =>
      match lookup sp m with
      | None => sp_patches mk bound r m
      | Some x =>
          if Nat.ltb slot bound
          then match sp_patches mk bound r m with
               | inl ps => inl (mk slot x ++ ps)
               | inr e => inr e
               end
          else inr EIndexBound                  (* NetCDF: Index exceeds dimension bound *)
      end
  end.

Definition mode_patches (slot : nat) (l : list scalar) : list patch :=
  map (fun p => (slot, fst p, CScal (snd p))) (enum_from 0 l).

Definition unknown_species {A} (fsp : list nat) (m : list (nat * A)) : bool :=
  existsb (fun p => negb (memb (fst p) fsp)) m.

Definition field_patches (fixed : bool) (fsp : list nat) (m : fmeta) (v : fval) : res (list patch) :=
  match v with
  | FNone => if fm_req m then inr EValue else inl []
  | FScal s => match fm_shape m with ShT => inl [(0, 0, CScal s)] | _ => inr EOther end
  | FArr a =>
      match fm_shape m, fm_dtype m with
      | ShTP, Str => inr EAttr                 (* F-C03c: netCDF4 cannot take an array for a string variable *)
      | ShTP, _ => inl [(0, 0, CArr a)]
      | _, _ => inr EOther
      end
  | FSp mp =>
      match fm_shape m with
      | ShTS => if fixed && unknown_species fsp mp then inr EValue
                else sp_patches (fun slot s => [(slot, 0, CScal s)]) (List.length fsp) (slots fixed fsp) mp
      | _ => inr EOther
      end
  | FSpArr mp =>
      match fm_shape m with
      | ShTSP => if fixed && unknown_species fsp mp then inr EValue
                 else sp_patches (fun slot a => [(slot, 0, CArr a)]) (List.length fsp) (slots fixed fsp) mp
      | _ => inr EOther
      end
  | FTm l => match fm_shape m with ShTM => inl (mode_patches 0 l) | _ => inr EOther end
  | FSpTm mp =>
      match fm_shape m with
      | ShTSM => if fixed && unknown_species fsp mp then inr EValue
                 else sp_patches mode_patches (List.length fsp) (slots fixed fsp) mp
      | _ => inr EOther
      end
  end.

Definition apply_patches (p : prefix) (ps : list patch) (c : cells) : cells :=
  fold_left (fun acc q => put (p, fst (fst q), snd (fst q)) (snd q) acc) ps c.

Definition write_field (fixed : bool) (fsp : list nat) (p : prefix) (m : fmeta) (v : fval) (c : cells)
  : res cells :=
  match field_patches fixed fsp m v with
  | inl ps => inl (apply_patches p ps c)
  | inr e => inr e
  end.

(* ---- reading one field --------------------------------------------------------------------- *)
Definition fill_cell (m : fmeta) : cell :=
  if has_point (fm_shape m) then CArr empty_arr else CScal (fill_of (fm_dtype m)).

(* what netCDF4 hands back for var[index, slot, mode] *)
Definition rd (c : cells) (m : fmeta) (p : prefix) (slot mode : nat) : cell :=
  match get (p, slot, mode) c with Some x => x | None => fill_cell m end.

Definition cell_scalar (c : cell) : scalar := match c with CScal s => s | CArr _ => VStr ""%string end.
Definition cell_arr (c : cell) : arr := match c with CArr a => a | CScal _ => empty_arr end.

(* the repaired reader's test "this entry was written" *)
Definition written (d : dtype) (c : cell) : bool :=
  match c with
  | CScal s => negb (scalar_eqb s (fill_of d))
  | CArr a => negb (Z.eqb (alen a) 0)
  end.

(* `var[index] == var.get_fill_value()` of the scalar case: strings have no fill value *)
Definition scalar_missing (d : dtype) (s : scalar) : bool :=
  match d with Str => false | _ => scalar_eqb s (fill_of d) end.

Definition read_modes (fixed : bool) (d : dtype) (g : nat -> cell) : list scalar :=
  map (fun ti => let c := g ti in
                 if fixed then (if written d c then cell_scalar c else zero_of d) else cell_scalar c)
      (seq 0 4).

Definition any_written (d : dtype) (g : nat -> cell) : bool :=
  existsb (fun ti => written d (g ti)) (seq 0 4).

Definition opt_none (m : fmeta) (is_empty : bool) (v : fval) : fval :=
  if is_empty && negb (fm_req m) then FNone else v.

Definition is_nil {A} (l : list A) : bool := match l with [] => true | _ => false end.

Definition read_field (fixed : bool) (fsp : list nat) (m : fmeta) (g : nat -> nat -> cell) : fval :=
  let d := fm_dtype m in
  match fm_shape m with
  | ShT => let s := cell_scalar (g 0 0) in if scalar_missing d s then FNone else FScal s
  | ShTP => let a := cell_arr (g 0 0) in if Z.eqb (alen a) 0 then FNone else FArr a
  | ShTS =>
      let all := enum_from 0 fsp in
      if fixed then
        let l := flat_map (fun p => let c := g (fst p) 0 in
                                    if written d c then [(snd p, cell_scalar c)] else []) all in
        opt_none m (is_nil l) (FSp l)
      else FSp (map (fun p => (snd p, cell_scalar (g (fst p) 0))) all)
  | ShTSP =>
      let all := enum_from 0 fsp in
      if fixed then
        let l := flat_map (fun p => let c := g (fst p) 0 in
                                    if written d c then [(snd p, cell_arr c)] else []) all in
        opt_none m (is_nil l) (FSpArr l)
      else FSpArr (map (fun p => (snd p, cell_arr (g (fst p) 0))) all)
  | ShTM =>
      if fixed then opt_none m (negb (any_written d (g 0))) (FTm (read_modes true d (g 0)))
      else FTm (read_modes false d (g 0))
  | ShTSM =>
      let all := enum_from 0 fsp in
      if fixed then
        let l := flat_map (fun p => if any_written d (g (fst p))
                                    then [(snd p, read_modes true d (g (fst p)))] else []) all in
        opt_none m (is_nil l) (FSpTm l)
      else FSpTm (map (fun p => (snd p, read_modes false d (g (fst p)))) all)
  end.

(* ---- Trajectory construction on the read side: the point count and Container.__setattr__ ---- *)
Definition npoints_of (fixed : bool) (m : fmeta) (v : fval) : option (res Z) :=
  (* None: this field does not decide the point count *)
  if has_point (fm_shape m) then
    match v with
    | FArr a => Some (inl (alen a))
    | FSpArr ((_, a) :: _) => Some (inl (alen a))
    | FSpArr [] => if fixed then None else Some (inr EStopIter)
    | FNone => if fixed then None else Some (inr EType)        (* len(None) *)
    | _ => Some (inr EOther)
    end
  else None.

(* first loop of _load_trajectory: read every field (a read may fail inside the library), the first
   per-point field that can decides the number of points *)
Fixpoint scan (fixed : bool) (np : option Z) (l : list (fmeta * res fval)) : res (Z * list (fmeta * fval)) :=
  match l with
  | [] => match np with
          | Some n => inl (n, [])
          | None => inr EAssert                                 (* assert npoints is not None *)
          end
  | (m, inr e) :: _ => inr e
  | (m, inl v) :: r =>
      let next (np' : option Z) :=
          match scan fixed np' r with
          | inl (n, vs) => inl (n, (m, v) :: vs)
          | inr e => inr e
          end in
      match np with
      | Some _ => next np
      | None => match npoints_of fixed m v with
                | Some (inr e) => inr e
                | Some (inl n) => next (Some n)
                | None => next None
                end
      end
  end.

Definition convert_in (n : Z) (m : fmeta) (v : fval) : res fval :=
  match v with
  | FNone => if fm_req m then inr EType else inl FNone
  | FArr a => if Z.eqb (alen a) n then inl v else inr EValue
  | FSpArr mp => if forallb (fun p => Z.eqb (alen (snd p)) n) mp then inl v else inr EValue
  | _ => inl v
  end.

Fixpoint convert_all (n : Z) (l : list (fmeta * fval)) : res (list fval) :=
  match l with
  | [] => inl []
  | (m, v) :: r =>
      match convert_in n m v with
      | inr e => inr e
      | inl v' => match convert_all n r with inr e => inr e | inl vs => inl (v' :: vs) end
      end
  end.

(* ---- stores --------------------------------------------------------------------------------- *)
Definition fieldset := list fmeta.
Definition schema := list fieldset.                     (* field set id = position; 0 = "base" *)
Definition traj := list (list fval).                    (* per field set, per field *)

Fixpoint ins (x : nat) (l : list nat) : list nat :=
  match l with
  | [] => [x]
  | y :: r => if Nat.ltb x y then x :: l else if Nat.eqb x y then l else y :: ins x r
  end.

Definition keys_of (v : fval) : list nat :=
  match v with
  | FSp m => map fst m | FSpArr m => map fst m | FSpTm m => map fst m | _ => []
  end.

(* Container.species / the loop at the top of create_associated, over the listed field sets *)
Definition species_union (sets : list nat) (t : traj) : list nat :=
  fold_left (fun acc fs => fold_left (fun acc' v => fold_left (fun a k => ins k a) (keys_of v) acc')
                                     (nth fs t []) acc) sets [].

(* before the repair an unset optional species-indexed field of the FIRST trajectory breaks the
   computation of the species list (assert in Container.species / AttributeError in create_associated) *)
Definition unset_species_field (sc : schema) (sets : list nat) (t : traj) : bool :=
  existsb (fun fs => existsb (fun mv => has_species (fm_shape (fst mv)) &&
                                        match snd mv with FNone => true | _ => false end)
                             (combine (nth fs sc []) (nth fs t []))) sets.

Fixpoint write_fields (fixed : bool) (fsp : list nat) (fs i fld : nat) (ms : list fmeta) (vs : list fval)
         (c : cells) : res cells :=
  match ms, vs with
  | m :: ms', v :: vs' =>
      match write_field fixed fsp (fs, fld, i) m v c with
      | inr e => inr e
      | inl c' => write_fields fixed fsp fs i (S fld) ms' vs' c'
      end
  | [], _ => inl c
  | _ :: _, [] => inr EOther
  end.

(* _write_data: every listed field set into the file that holds it *)
Fixpoint write_traj (fixed : bool) (sc : schema) (order : list nat) (i : nat) (t : traj) (st : store)
  : res store :=
  match order with
  | [] => inl st
  | fs :: rest =>
      match lookup fs (s_species st) with
      | None => inr EOther
      | Some fsp =>
          match write_fields fixed fsp fs i 0 (nth fs sc []) (nth fs t []) (s_cells st) with
          | inr e => inr e
          | inl c' => write_traj fixed sc rest i t {| s_species := s_species st; s_cells := c' |}
          end
      end
  end.

(* netCDF4/HDF5: a variable-length string variable of shape (trajectory, species) is chunked by
   rows; reading a row that was never written while a LATER row of the same variable was fails
   with "NetCDF: HDF error" (an unallocated chunk inside the extent of the variable) *)
Definition row_written (fs fld i : nat) (c : cells) : bool :=
  existsb (fun kv => prefix_eqb (fst (fst (fst kv))) (fs, fld, i)) c.
Definition later_row_written (fs fld i : nat) (c : cells) : bool :=
  existsb (fun kv => let '(a, b, j) := fst (fst (fst kv)) in Nat.eqb a fs && Nat.eqb b fld && Nat.ltb i j) c.
Definition str_hole (m : fmeta) (fs fld i : nat) (c : cells) : bool :=
  match fm_shape m, fm_dtype m with
  | ShTS, Str => negb (row_written fs fld i c) && later_row_written fs fld i c
  | _, _ => false
  end.

Fixpoint read_fields (fixed : bool) (fsp : list nat) (c : cells) (fs i fld : nat) (ms : list fmeta)
  : list (fmeta * res fval) :=
  match ms with
  | [] => []
  | m :: ms' => (m, if str_hole m fs fld i c then inr EHdf
                    else inl (read_field fixed fsp m (rd c m (fs, fld, i))))
                :: read_fields fixed fsp c fs i (S fld) ms'
  end.

Fixpoint read_raw (fixed : bool) (sc : schema) (order : list nat) (i : nat) (st : store)
  : res (list (fmeta * res fval)) :=
  match order with
  | [] => inl []
  | fs :: rest =>
      match lookup fs (s_species st) with
      | None => inr EOther
      | Some fsp =>
          match read_raw fixed sc rest i st with
          | inr e => inr e
          | inl l => inl (read_fields fixed fsp (s_cells st) fs i 0 (nth fs sc []) ++ l)
          end
      end
  end.

(* _load_trajectory: values of all fields, in the order of [order] (field sets) and of declaration (fields) *)
Definition load_traj (fixed : bool) (sc : schema) (order : list nat) (i : nat) (st : store) : res (list fval) :=
  match read_raw fixed sc order i st with
  | inr e => inr e
  | inl l => match scan fixed None l with
             | inr e => inr e
             | inl (n, vs) => convert_all n vs
             end
  end.

(* ---- the three layouts ------------------------------------------------------------------------ *)
Inductive layout :=
  | Single                         (* every field set in one file *)
  | Assoc (a : list nat)           (* CREATE with associated_files=[(path, a)] *)
  | Mapped (a : list nat)          (* base store first, then create_associated(path, a, fn) *)
  | AssocMany (parts : list (list nat)).   (* CREATE with several associated files, one per part *)

Definition all_sets (sc : schema) : list nat := seq 0 (List.length sc).
Definition minus (l a : list nat) : list nat := filter (fun x => negb (memb x a)) l.

Definition with_species (sets sp : list nat) : list (nat * list nat) := map (fun fs => (fs, sp)) sets.

Definition phase1_sets (sc : schema) (ly : layout) : list nat :=
  match ly with Mapped a => minus (all_sets sc) a | _ => all_sets sc end.

(* files as they are created when the first trajectory [t0] is added: in CREATE mode the base file and the
   associated files all get the species of the whole first trajectory *)
Definition create_store (sc : schema) (ly : layout) (t0 : traj) : store :=
  {| s_species := with_species (phase1_sets sc ly) (species_union (phase1_sets sc ly) t0);
     s_cells := [] |}.

(* create_associated: a further file for the mapped field sets, with the species of the first mapped result *)
Definition add_mapped_file (a : list nat) (t0 : traj) (st : store) : store :=
  {| s_species := s_species st ++ with_species a (species_union a t0); s_cells := s_cells st |}.

Fixpoint add_all (fixed : bool) (sc : schema) (order : list nat) (i : nat) (ts : list traj) (st : store)
  : store * option (nat * err) :=
  match ts with
  | [] => (st, None)
  | t :: r =>
      match write_traj fixed sc order i t st with
      | inr e => (st, Some (i, e))                    (* the harness stops using the store here *)
      | inl st' => add_all fixed sc order (S i) r st'
      end
  end.

(* create_associated: trajectory i is read back from the base store, mapped, and the result written *)
Fixpoint map_all (fixed : bool) (sc : schema) (rorder1 morder : list nat) (i : nat) (ts : list traj)
         (st : store) : store * option (nat * err) :=
  match ts with
  | [] => (st, None)
  | t :: r =>
      match load_traj fixed sc rorder1 i st with
      | inr e => (st, Some (i, e))
      | inl _ =>
          match write_traj fixed sc morder i t st with
          | inr e => (st, Some (i, e))
          | inl st' => map_all fixed sc rorder1 morder (S i) r st'
          end
      end
  end.

Inductive outcome :=
  | Added (reads : list (res (list fval)))
  | Refused (phase n : nat) (e : err).     (* phase 1: add; phase 2: create_associated; n: trajectory index *)

Fixpoint read_all (fixed : bool) (sc : schema) (order : list nat) (i n : nat) (st : store)
  : list (res (list fval)) :=
  match n with
  | O => []
  | S n' => load_traj fixed sc order i st :: read_all fixed sc order (S i) n' st
  end.

(* one whole case on the merged view of the store (all files as one cell map); [run_case] below does the
   same on separate files and is proved equal in proofs/C03_Files.v: create, add every trajectory, close,
   (map), reopen, read all.
   [worder] / [rorder1] / [morder] / [rorder] are the iteration orders of the store's (hash-ordered)
   field-set dictionary in the writing session, in the session that maps over the base store, of the
   mapped field sets, and in the final reading session — observed on the implementation. *)
Definition run_case_merged (fixed : bool) (sc : schema) (ly : layout) (worder rorder1 morder rorder : list nat)
           (ts : list traj) : outcome :=
  match ts with
  | [] => Added []
  | t0 :: _ =>
      if negb fixed && unset_species_field sc (phase1_sets sc ly) t0 then Refused 1 0 EAssert
      else
        match add_all fixed sc worder 0 ts (create_store sc ly t0) with
        | (_, Some (k, e)) => Refused 1 k e
        | (st, None) =>
            match ly with
            | Mapped a =>
                match load_traj fixed sc rorder1 0 st with
                | inr e => Refused 2 0 e
                | inl _ =>
                    if negb fixed && unset_species_field sc a t0 then Refused 2 0 EAttr
                    else match map_all fixed sc rorder1 morder 0 ts (add_mapped_file a t0 st) with
                         | (_, Some (k, e)) => Refused 2 k e
                         | (st', None) => Added (read_all fixed sc rorder 0 (List.length ts) st')
                         end
                end
            | _ => Added (read_all fixed sc rorder 0 (List.length ts) st)
            end
        end
  end.

(* ---- the files of a store, separately ----------------------------------------------------------- *)
(* Each NetCDF file has its own species dimension and its own variables.  This is the model the
   correspondence runs; the merged [store] above is its abstraction (proofs/C03_Files.v). *)
Record ncfile := { f_sets : list nat;        (* field sets (groups) in the file *)
                   f_species : list nat;     (* the file's species dimension *)
                   f_cells : cells;          (* its data variables *)
                   f_len : nat }.            (* length of its (unlimited) trajectory dimension = largest index written
                                                to ANY variable of the file, the trajectory coordinate included, + 1 *)
Definition cstore := list ncfile.
Definition no_file : ncfile := {| f_sets := []; f_species := []; f_cells := []; f_len := 0 |}.

(* self._nc[fs_name]: the file that holds a field set *)
Fixpoint file_index (fs : nat) (st : cstore) : option nat :=
  match st with
  | [] => None
  | f :: r => if memb fs (f_sets f) then Some O
              else match file_index fs r with Some k => Some (S k) | None => None end
  end.

Fixpoint update_nth {A} (k : nat) (x : A) (l : list A) : list A :=
  match l, k with
  | [], _ => []
  | _ :: r, O => x :: r
  | y :: r, S k' => y :: update_nth k' x r
  end.

(* _write_data for one field set at index i: the data variables get their new cells, and after every variable
   the trajectory coordinate of THE SAME FILE is written at i (`nc_file.traj_var[0][index] = index`), which
   extends that file's trajectory dimension to i + 1 even if every field of the field set was unset *)
Definition wrote (f : ncfile) (c : cells) (i : nat) : ncfile :=
  {| f_sets := f_sets f; f_species := f_species f; f_cells := c; f_len := Nat.max (f_len f) (S i) |}.

Fixpoint write_traj_c (fixed : bool) (sc : schema) (order : list nat) (i : nat) (t : traj) (st : cstore)
  : res cstore :=
  match order with
  | [] => inl st
  | fs :: rest =>
      match file_index fs st with
      | None => inr EOther
      | Some k =>
          let f := nth k st no_file in
          match write_fields fixed (f_species f) fs i 0 (nth fs sc []) (nth fs t []) (f_cells f) with
          | inr e => inr e
          | inl c' => write_traj_c fixed sc rest i t (update_nth k (wrote f c' i) st)
          end
      end
  end.

Fixpoint read_raw_c (fixed : bool) (sc : schema) (order : list nat) (i : nat) (st : cstore)
  : res (list (fmeta * res fval)) :=
  match order with
  | [] => inl []
  | fs :: rest =>
      match file_index fs st with
      | None => inr EOther
      | Some k =>
          let f := nth k st no_file in
          match read_raw_c fixed sc rest i st with
          | inr e => inr e
          | inl l => inl (read_fields fixed (f_species f) (f_cells f) fs i 0 (nth fs sc []) ++ l)
          end
      end
  end.

Definition load_traj_c (fixed : bool) (sc : schema) (order : list nat) (i : nat) (st : cstore) : res (list fval) :=
  match read_raw_c fixed sc order i st with
  | inr e => inr e
  | inl l => match scan fixed None l with
             | inr e => inr e
             | inl (n, vs) => convert_all n vs
             end
  end.

Definition new_file (sets sp : list nat) : ncfile := {| f_sets := sets; f_species := sp; f_cells := []; f_len := 0 |}.

(* CREATE: the base file, and the associated file if one was asked for, both with the species of the
   whole first trajectory (store.py:_create); for a store that is mapped later, the base file only *)
Definition create_files (sc : schema) (ly : layout) (t0 : traj) : cstore :=
  match ly with
  | Single => [new_file (all_sets sc) (species_union (all_sets sc) t0)]
  | Assoc a => [new_file (minus (all_sets sc) a) (species_union (all_sets sc) t0);
                new_file a (species_union (all_sets sc) t0)]
  | Mapped a => [new_file (minus (all_sets sc) a) (species_union (minus (all_sets sc) a) t0)]
  | AssocMany parts =>
      new_file (minus (all_sets sc) (List.concat parts)) (species_union (all_sets sc) t0)
      :: map (fun a => new_file a (species_union (all_sets sc) t0)) parts
  end.

(* create_associated: one more file, with the species of the first mapped result *)
Definition add_mapped_file_c (a : list nat) (t0 : traj) (st : cstore) : cstore :=
  st ++ [new_file a (species_union a t0)].

Fixpoint add_all_c (fixed : bool) (sc : schema) (order : list nat) (i : nat) (ts : list traj) (st : cstore)
  : cstore * option (nat * err) :=
  match ts with
  | [] => (st, None)
  | t :: r =>
      match write_traj_c fixed sc order i t st with
      | inr e => (st, Some (i, e))
      | inl st' => add_all_c fixed sc order (S i) r st'
      end
  end.

Fixpoint map_all_c (fixed : bool) (sc : schema) (rorder1 morder : list nat) (i : nat) (ts : list traj)
         (st : cstore) : cstore * option (nat * err) :=
  match ts with
  | [] => (st, None)
  | t :: r =>
      match load_traj_c fixed sc rorder1 i st with
      | inr e => (st, Some (i, e))
      | inl _ =>
          match write_traj_c fixed sc morder i t st with
          | inr e => (st, Some (i, e))
          | inl st' => map_all_c fixed sc rorder1 morder (S i) r st'
          end
      end
  end.

(* Reading with the trajectory dimensions taken into account: `var[index]` beyond the current length of the file's
   trajectory dimension is an IndexError ("index exceeds dimension bounds") — the case of a record that was never
   written in THAT file. *)
Fixpoint read_raw_b (fixed : bool) (sc : schema) (order : list nat) (i : nat) (st : cstore)
  : res (list (fmeta * res fval)) :=
  match order with
  | [] => inl []
  | fs :: rest =>
      match file_index fs st with
      | None => inr EOther
      | Some k =>
          let f := nth k st no_file in
          match read_raw_b fixed sc rest i st with
          | inr e => inr e
          | inl l => if Nat.ltb i (f_len f)
                     then inl (read_fields fixed (f_species f) (f_cells f) fs i 0 (nth fs sc []) ++ l)
                     else inl (map (fun m => (m, inr EIndex)) (nth fs sc []) ++ l)
          end
      end
  end.

Definition load_traj_b (fixed : bool) (sc : schema) (order : list nat) (i : nat) (st : cstore) : res (list fval) :=
  match read_raw_b fixed sc order i st with
  | inr e => inr e
  | inl l => match scan fixed None l with
             | inr e => inr e
             | inl (n, vs) => convert_all n vs
             end
  end.

Fixpoint map_all_b (fixed : bool) (sc : schema) (rorder1 morder : list nat) (i : nat) (ts : list traj)
         (st : cstore) : cstore * option (nat * err) :=
  match ts with
  | [] => (st, None)
  | t :: r =>
      match load_traj_b fixed sc rorder1 i st with
      | inr e => (st, Some (i, e))
      | inl _ =>
          match write_traj_c fixed sc morder i t st with
          | inr e => (st, Some (i, e))
          | inl st' => map_all_b fixed sc rorder1 morder (S i) r st'
          end
      end
  end.

Fixpoint read_all_b (fixed : bool) (sc : schema) (order : list nat) (i n : nat) (st : cstore)
  : list (res (list fval)) :=
  match n with
  | O => []
  | S n' => load_traj_b fixed sc order i st :: read_all_b fixed sc order (S i) n' st
  end.

Fixpoint read_all_c (fixed : bool) (sc : schema) (order : list nat) (i n : nat) (st : cstore)
  : list (res (list fval)) :=
  match n with
  | O => []
  | S n' => load_traj_c fixed sc order i st :: read_all_c fixed sc order (S i) n' st
  end.

(* the same without looking at the trajectory dimensions (proved equal to [run_case] when every field set that is
   read was also written, proofs/C03_Files.v): create, add every trajectory, close, (map),
   reopen, read all.  [worder] / [rorder1] / [morder] / [rorder] are the iteration orders of the store's
   (hash-ordered) field-set dictionary in the writing session, in the session that maps over the base
   store, of the mapped field sets, and in the final reading session — observed on the implementation. *)
Definition run_case_unbounded (fixed : bool) (sc : schema) (ly : layout) (worder rorder1 morder rorder : list nat)
           (ts : list traj) : outcome :=
  match ts with
  | [] => Added []
  | t0 :: _ =>
      if negb fixed && unset_species_field sc (phase1_sets sc ly) t0 then Refused 1 0 EAssert
      else
        match add_all_c fixed sc worder 0 ts (create_files sc ly t0) with
        | (_, Some (k, e)) => Refused 1 k e
        | (st, None) =>
            match ly with
            | Mapped a =>
                match load_traj_c fixed sc rorder1 0 st with
                | inr e => Refused 2 0 e
                | inl _ =>
                    if negb fixed && unset_species_field sc a t0 then Refused 2 0 EAttr
                    else match map_all_c fixed sc rorder1 morder 0 ts (add_mapped_file_c a t0 st) with
                         | (_, Some (k, e)) => Refused 2 k e
                         | (st', None) => Added (read_all_c fixed sc rorder 0 (List.length ts) st')
                         end
                end
            | _ => Added (read_all_c fixed sc rorder 0 (List.length ts) st)
            end
        end
  end.


(* one whole case of the correspondence, on separate files: create, add every trajectory, close, (map),
   reopen, read all.  [worder] / [rorder1] / [morder] / [rorder] are the iteration orders of the store's
   (hash-ordered) field-set dictionary in the writing session, in the session that maps over the base
   store, of the mapped field sets, and in the final reading session — observed on the implementation. *)
Definition run_case (fixed : bool) (sc : schema) (ly : layout) (worder rorder1 morder rorder : list nat)
           (ts : list traj) : outcome :=
  match ts with
  | [] => Added []
  | t0 :: _ =>
      if negb fixed && unset_species_field sc (phase1_sets sc ly) t0 then Refused 1 0 EAssert
      else
        match add_all_c fixed sc worder 0 ts (create_files sc ly t0) with
        | (_, Some (k, e)) => Refused 1 k e
        | (st, None) =>
            match ly with
            | Mapped a =>
                match load_traj_b fixed sc rorder1 0 st with
                | inr e => Refused 2 0 e
                | inl _ =>
                    if negb fixed && unset_species_field sc a t0 then Refused 2 0 EAttr
                    else match map_all_b fixed sc rorder1 morder 0 ts (add_mapped_file_c a t0 st) with
                         | (_, Some (k, e)) => Refused 2 k e
                         | (st', None) => Added (read_all_b fixed sc rorder 0 (List.length ts) st')
                         end
                end
            | _ => Added (read_all_b fixed sc rorder 0 (List.length ts) st)
            end
        end
  end.

(* ---- the facts about store.py the model embodies --------------------------------------------------- *)
(* translator/c03_extract.py regenerates a value of this record from the source on every run
   (Gen.C03_Extracted.facts); link/C03_Link.v proves it equal to [facts_of true] (the repaired code) or
   [facts_of false]; proofs/C03_Facts.v ties each field to the model function it governs. *)
Inductive seq_src :=
  | OverFileSpecies        (* enumerate(species): the species dimension of the file that holds the variable *)
  | OverSpeciesEnum        (* enumerate(Species): every member of the enumeration *)
  | OverThrustModes.       (* enumerate(ThrustMode) *)

Inductive wcase :=         (* body of one case of the writer's match (has_sp, has_tm) *)
  | WPlain                             (* var[index] = val *)
  | WModes (m : seq_src)               (* for ti, tm in enumerate(m): var[index, ti] = val[tm] *)
  | WSpecies (s : seq_src)             (* for si, sp in enumerate(s): if sp in val: var[index, si] = val[sp] *)
  | WSpeciesModes (s m : seq_src).     (* nested; if sp in val and tm in val[sp]: var[index, si, ti] = val[sp][tm] *)

Inductive rcase :=         (* body of one case of the reader's match (species, thrust mode, point) *)
  | RScalarFillNone                    (* fill value -> None, else var[index] *)
  | RArrayEmptyNone                    (* all(var[index] == fill) (= empty array) -> None, else var[index] *)
  | RSpecies (s : seq_src) (skip : bool)            (* {sp: var[index, si]}, skipping unwritten entries or not *)
  | RModes (m : seq_src) (skip : bool)
  | RSpeciesModes (s m : seq_src) (skip : bool).

Record code_facts := {
  cf_write : list (bool * bool * wcase);             (* dispatch table of _write_to_nc_var *)
  cf_write_refuses_unknown_species : bool;           (* the `not in species` guard before the match *)
  cf_write_none : bool * bool;                       (* val is None: (required -> ValueError, optional -> nothing written) *)
  cf_writer_gets_species_of_its_file : bool;         (* _write_data passes nc_file.species *)
  cf_read : list (bool * bool * bool * rcase);       (* dispatch table of _read_from_nc_var *)
  cf_written_test : bool * bool;                     (* written(v): (no fill -> len(v) > 0, fill -> v != fill); fill is
                                                        None for per-point and string variables *)
  cf_read_empty_optional_is_none : bool;             (* `if len(val) == 0 and not field.required: return None` *)
  cf_reader_gets_species_of_its_file : bool;         (* _load_trajectory passes nc_files.species of the field set's file *)
  cf_npoints_skips_unset : bool;                     (* the point count is taken from the first field that has one *)
  cf_species_dim_from_argument : bool;               (* _create_dimensions: the species dimension is the `species` argument *)
  cf_modes_dim_from_enum : bool;                     (* ... the thrust-mode dimension is the whole enumeration *)
  cf_create_species_of_first_trajectory : bool;      (* _create: proto.species for the base and every associated file *)
  cf_mapped_species_of_first_result : bool;          (* create_associated: sorted(species of the first mapped result) *)
  cf_species_skip_unset_fields : bool;               (* Container.species / create_associated skip None fields *)
  cf_coordinate_written_with_every_variable : bool   (* _write_data: nc_file.traj_var[0][index] = index inside the
                                                        per-variable loop, for the file of the field set being written *)
}.

Definition facts_of (fixed : bool) : code_facts :=
  let s := if fixed then OverFileSpecies else OverSpeciesEnum in
  {| cf_write := [(false, false, WPlain); (false, true, WModes OverThrustModes);
                  (true, false, WSpecies s); (true, true, WSpeciesModes s OverThrustModes)];
     cf_write_refuses_unknown_species := fixed;
     cf_write_none := (true, true);
     cf_writer_gets_species_of_its_file := fixed;
     cf_read := [(false, false, false, RScalarFillNone); (false, false, true, RArrayEmptyNone);
                 (true, false, false, RSpecies OverFileSpecies fixed); (true, false, true, RSpecies OverFileSpecies fixed);
                 (false, true, false, RModes OverThrustModes fixed);
                 (true, true, false, RSpeciesModes OverFileSpecies OverThrustModes fixed)];
     cf_written_test := (fixed, fixed);
     cf_read_empty_optional_is_none := fixed;
     cf_reader_gets_species_of_its_file := true;
     cf_npoints_skips_unset := fixed;
     cf_species_dim_from_argument := true;
     cf_modes_dim_from_enum := true;
     cf_create_species_of_first_trajectory := true;
     cf_mapped_species_of_first_result := true;
     cf_species_skip_unset_fields := fixed;
     cf_coordinate_written_with_every_variable := true |}.

(* the (has_sp, has_tm[, has_point]) coordinates of a shape *)
Definition has_mode (s : shape) : bool := match s with ShTM | ShTSM => true | _ => false end.

Definition wcase_of (cf : code_facts) (s : shape) : option wcase :=
  option_map snd (find (fun e => Bool.eqb (fst (fst e)) (has_species s) && Bool.eqb (snd (fst e)) (has_mode s)) (cf_write cf)).
Definition rcase_of (cf : code_facts) (s : shape) : option rcase :=
  option_map snd (find (fun e => Bool.eqb (fst (fst (fst e))) (has_species s) && Bool.eqb (snd (fst (fst e))) (has_mode s)
                                 && Bool.eqb (snd (fst e)) (has_point s)) (cf_read cf)).

(* which (slot, species) pairs a loop over a sequence visits *)
Definition slots_of (src : seq_src) (fsp : list nat) : list (nat * nat) :=
  match src with
  | OverFileSpecies => enum_from 0 fsp
  | OverSpeciesEnum => map (fun e => (e, e)) (seq 0 16)
  | OverThrustModes => map (fun e => (e, e)) (seq 0 4)
  end.

(* C14 — the SQL-level shape of missions/query.py and of the condition builders of missions/filter.py,
   as the model reads them.  [shape] is the part with a semantic interpretation: [conds_of_shape] turns the
   operators / bounds / branches found in QueryBase._common_conditions and Query.to_sql into the model's
   conjunct list; for the expected shape it is [own_conds] (proofs/C14_SqlProofs.v).  The remaining
   [expected_*] constants are the statement shapes and SQL templates the model was written from; the text
   regenerated from the source on every run (Gen.C14_Extracted) must equal them (link/C14_Link.v).
   In the rendered strings a line break of the source is written " | ". *)
From Coq Require Import ZArith List String Bool.
From AV Require Import lib.Dates model.C14_Model.
Import ListNotations.
Open Scope Z_scope.

Record shape := Shape {
  sh_start_op : string;        (* s.departure_timestamp <op> midnight UTC of start_date *)
  sh_end_op : string;          (* s.departure_timestamp <op> midnight UTC of end_date + sh_end_plus_days *)
  sh_end_plus_days : Z;
  sh_nth_guard : string;       (* when the every-n-th-day conjunct is emitted *)
  sh_nth_anchored : bool }.    (* true: anchored at start_date when one is given, else at MIN(day) *)

Definition expected_shape : shape :=
  Shape ">=" "<" 1 "self.every_nth is not None and self.every_nth > 1" true.

Definition start_of_shape (sh : shape) (q : query) : option (list cond) :=
  match q_start q with
  | None => Some []
  | Some c => if String.eqb (sh_start_op sh) ">=" then Some [CStart (86400 * civil_day c)] else None
  end.

Definition end_of_shape (sh : shape) (q : query) : option (list cond) :=
  match q_end q with
  | None => Some []
  | Some c => if String.eqb (sh_end_op sh) "<" then Some [CEnd (86400 * (civil_day c + sh_end_plus_days sh))] else None
  end.

Definition nth_of_shape (sh : shape) (q : query) : option (list cond) :=
  if negb (String.eqb (sh_nth_guard sh) "self.every_nth is not None and self.every_nth > 1") then None
  else Some match q_nth q with
            | Some n => if 1 <? n then
                          (if sh_nth_anchored sh then
                             match q_start q with None => [CNthMin n] | Some c => [CNthBase (civil_day c) n] end
                           else [CNthMin n])
                        else []
            | None => []
            end.

(* the conjuncts of one build, read off the extracted shape (None: a shape the model has no reading for) *)
Definition conds_of_shape (sh : shape) (empty_ok : bool) (q : query) : option (result (list cond)) :=
  match start_of_shape sh q, end_of_shape sh q, nth_of_shape sh q with
  | Some a, Some b, Some n =>
      Some (if negb (query_valid q) then Err EInvalid
            else match filter_part empty_ok (q_filter q) with
                 | Err e => Err e
                 | Ok fc => Ok (fc ++ (a ++ b) ++ sample_part q ++ n)
                 end)
  | _, _, _ => None
  end.

Definition expected_range_guard : string := "value is not None"%string.
Definition expected_airport_subselect : string := "(SELECT id FROM airports WHERE iata_code IN ({', '.join('?' * len(airports))}))"%string.
Definition expected_airport_branches : list string := ["if self.airport is not None => sub_select=sub_select_for(self.airport); return ({table}origin IN {sub_select} OR {table}destination IN {sub_select}) @ self.airport + self.airport"%string; "conds = []"%string; "if self.origin_airport is not None => append {table}origin IN {sub_select_for(self.origin_airport)} @ self.origin_airport"%string; "if self.destination_airport is not None => append {table}destination IN {sub_select_for(self.destination_airport)} @ self.destination_airport"%string; "return conds"%string].
Definition expected_country_subselect : string := "(SELECT id FROM airports WHERE country IN ({', '.join('?' * len(countries))}))"%string.
Definition expected_country_branches : list string := ["if self.country is not None => sub_select=sub_select_for(self.country); return ({table}origin IN {sub_select} OR {table}destination IN {sub_select}) @ self.country + self.country"%string; "conds = []"%string; "if self.origin_country is not None => append {table}origin IN {sub_select_for(self.origin_country)} @ self.origin_country"%string; "if self.destination_country is not None => append {table}destination IN {sub_select_for(self.destination_country)} @ self.destination_country"%string; "return conds"%string].
Definition expected_continent_subselect : string := "(SELECT id FROM airports WHERE country IN (SELECT code FROM countries WHERE continent IN ({', '.join('?' * len(continents))})))"%string.
Definition expected_continent_branches : list string := ["if self.continent is not None => sub_select=sub_select_for(self.continent); return ({table}origin IN {sub_select} OR {table}destination IN {sub_select}) @ self.continent + self.continent"%string; "conds = []"%string; "if self.origin_continent is not None => append {table}origin IN {sub_select_for(self.origin_continent)} @ self.origin_continent"%string; "if self.destination_continent is not None => append {table}destination IN {sub_select_for(self.destination_continent)} @ self.destination_continent"%string; "return conds"%string].
Definition expected_bounding_box_subselect : string := "(SELECT id FROM airport_location_idx WHERE min_latitude >= ? AND max_latitude <= ? AND min_longitude >= ? AND max_longitude <= ?)"%string.
Definition expected_bounding_box_branches : list string := ["if self.bounding_box is not None => return ({table}origin IN {sub_select} OR {table}destination IN {sub_select}) @ [self.bounding_box.min_latitude, self.bounding_box.max_latitude, self.bounding_box.min_longitude, self.bounding_box.max_longitude, self.bounding_box.min_latitude, self.bounding_box.max_latitude, self.bounding_box.min_longitude, self.bounding_box.max_longitude]"%string; "conds = []"%string; "if self.origin_bounding_box is not None => append {table}origin IN {sub_select} @ [self.origin_bounding_box.min_latitude, self.origin_bounding_box.max_latitude, self.origin_bounding_box.min_longitude, self.origin_bounding_box.max_longitude]"%string; "if self.destination_bounding_box is not None => append {table}destination IN {sub_select} @ [self.destination_bounding_box.min_latitude, self.destination_bounding_box.max_latitude, self.destination_bounding_box.min_longitude, self.destination_bounding_box.max_longitude]"%string; "return conds"%string].
Definition expected_where_clause : string := "return ' WHERE ' + ' AND '.join(self._conditions) if self._conditions else ''"%string.
Definition expected_validations : list string := ["self.sample is not None and (not 0.0 < self.sample <= 1.0)"%string; "self.every_nth is not None and self.every_nth < 1"%string; "self.limit is not None and self.limit < 1"%string; "self.offset is not None and self.offset < 0"%string; "self.offset is not None and self.limit is None"%string].
Definition expected_sample : string * string := ("(random() + 9223372036854775808) / 18446744073709551615.0 < ?"%string, "[self.sample]"%string).
Definition expected_nth_min : string * string := ("(s.day - (SELECT MIN(day) FROM schedules)) % ? = 0"%string, "[self.every_nth]"%string).
Definition expected_nth_base : string * string := ("(s.day - ?) % ? = 0"%string, "[(self.start_date - date(1970, 1, 1)).days, self.every_nth]"%string).
Definition expected_query_sql : string := "SELECT s.departure_timestamp, s.arrival_timestamp, s.id as id, f.id as flight_id, f.carrier, f.flight_number, ao.iata_code AS origin, ao.country AS origin_country, ad.iata_code AS destination, ad.country AS destination_country, f.service_type, f.aircraft_type, f.engine_type, f.distance, f.seat_capacity FROM schedules s JOIN flights f ON f.id = s.flight_id JOIN airports ao ON f.origin = ao.id JOIN airports ad ON f.destination = ad.id{self._where_clause()} ORDER BY s.departure_timestamp"%string.
Definition expected_limit_offset : string := "if self.limit is not None: |     sql += f' LIMIT {self.limit}' |     if self.offset is not None: |         sql += f' OFFSET {self.offset}'"%string.
Definition expected_result_fields : list string := ["departure=pd.Timestamp.utcfromtimestamp(row[0])"%string; "arrival=pd.Timestamp.utcfromtimestamp(row[1])"%string; "carrier=row[4]"%string; "flight_number=row[5]"%string; "origin=row[6]"%string; "origin_country=row[7]"%string; "destination=row[8]"%string; "destination_country=row[9]"%string; "service_type=row[10]"%string; "aircraft_type=row[11]"%string; "engine_type=row[12]"%string; "distance=row[13]"%string; "seat_capacity=row[14]"%string; "flight_id=row[3]"%string; "id=row[2]"%string].
Definition expected_count : list string := ["self._common_conditions()"%string; "sql = 'SELECT COUNT(s.id) FROM schedules s'"%string; "if len(self._conditions) > 0: |     sql += f' JOIN flights f ON f.id = s.flight_id JOIN airports ao ON f.origin = ao.id JOIN airports ad ON f.destination = ad.id{self._where_clause()}'"%string; "return (sql, self._params)"%string; "lambda _, gen: next(gen)[0]"%string].
Definition expected_frequent : list string := ["self.limit < 1"%string; "WITH counts AS (SELECT COUNT(s.id) AS nflights, f.od_pair AS od_pair FROM schedules s JOIN flights f ON s.flight_id = f.id{self._where_clause()} GROUP BY od_pair) SELECT substring(od_pair, 1, 3) AS airport1, substring(od_pair, 4) AS airport2, nflights FROM counts ORDER BY nflights DESC LIMIT {self.limit}"%string; "return cls(airport1=row[0], airport2=row[1], number_of_flights=row[2])"%string].

(* Database.__call__: the SQL is built once per call and run on a cursor of its own, so result generators of
   different queries do not share cursor state; the object keeps only the connection and its finalizer *)
Definition expected_database_call : list string := ["sql, params = query.to_sql()"%string; "cur = self._conn.cursor()"%string; "if query.PROCESS_RESULT is not None: |     return query.PROCESS_RESULT(cur.execute(sql, params)) | else: |     return self._yield_results(cur, sql, params, query.RESULT_TYPE)"%string].
Definition expected_yield_results : list string := ["for row in cur.execute(sql, params): |     yield result_type.from_row(row)"%string].
Definition expected_database_state : list string := ["_conn"%string; "_finalizer"%string].

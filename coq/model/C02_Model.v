(* C02 — simulated trajectories obey mass / time / distance / route / altitude bookkeeping.
   Executable definitions only.

   (a) Container : storage/container.py  (growable per-point buffers, slice-to-size reads, make_point)
   (b) Builder   : trajectories/builders/{base,legacy}.py  (LegacyContext altitude schedule, calc_starting_mass,
                   climb / cruise / descent loops, mass iteration) over [Num], with the performance model and the
                   geodesic as call-indexed oracles (Section variables)
   (c) Interp    : trajectories/trajectory.py:interpolate_time  (np.interp, left = right = nan)

   The switch [fixed] selects how a negative index of make_point is resolved:
     false : relative to the capacity-long buffer (the code before fixes/F1.diff)
     true  : relative to the valid prefix          (the specification, and the code after the fix). *)
From Coq Require Import ZArith List Bool PrimFloat.
From AV Require Import lib.Num.
Import ListNotations.

(* ------------------------------------------------------------------------------------------ *)
(* (a) Container                                                                              *)
(* ------------------------------------------------------------------------------------------ *)
Section Container.
  Variable A : Type.
  Variable d : A.                               (* the np.zeros fill of a fresh buffer *)

  Definition START_CAP : nat := 50.             (* Container.STARTING_CAPACITY *)
  Definition EXPAND : nat := 50.                (* Container.CAPACITY_EXPANSION *)

  (* capacity = length of the buffer *)
  Record cont := mkcont { c_buf : list A; c_size : nat }.
  Definition cap (c : cont) : nat := length (c_buf c).
  Definition empty_cont : cont := mkcont (repeat d START_CAP) 0.

  (* np.resize(a, n): cyclic refill from the old contents *)
  Definition np_resize (l : list A) (n : nat) : list A :=
    map (fun i => nth (i mod length l) l d) (seq 0 n).

  Fixpoint set_nth (l : list A) (i : nat) (x : A) : list A :=
    match l, i with
    | [], _ => []
    | _ :: r, O => x :: r
    | y :: r, S k => y :: set_nth r k x
    end.

  (* _append_from_dict: grow when size == capacity, write at [size], bump size *)
  Definition append (c : cont) (x : A) : cont :=
    let buf := if Nat.eqb (c_size c) (cap c) then np_resize (c_buf c) (cap c + EXPAND) else c_buf c in
    mkcont (set_nth buf (c_size c) x) (S (c_size c)).

  (* __getattr__: slice to the current size *)
  Definition read (c : cont) : list A := firstn (c_size c) (c_buf c).

  Definition appends (l : list A) : cont := fold_left append l empty_cont.

  (* make_point(idx): range check against size; the element is then taken from the buffer with a Python
     index: a negative index counts from the end of the buffer ([fixed] = false) or of the valid prefix. *)
  Definition make_point (fixed : bool) (c : cont) (idx : Z) : option A :=
    if (idx <? - Z.of_nat (c_size c))%Z || (idx >=? Z.of_nat (c_size c))%Z then None
    else
      let len := if fixed then c_size c else cap c in
      let j := if (idx <? 0)%Z then (idx + Z.of_nat len)%Z else idx in
      Some (nth (Z.to_nat j) (c_buf c) d).

  (* what a phase starts from when it hands over with make_point(-1) after the points [l] were appended *)
  Definition handover (fixed : bool) (l : list A) : option A := make_point fixed (appends l) (-1).
End Container.

Arguments mkcont {A}. Arguments c_buf {A}. Arguments c_size {A}. Arguments cap {A}.
Arguments empty_cont {A}. Arguments np_resize {A}. Arguments set_nth {A}. Arguments append {A}.
Arguments read {A}. Arguments appends {A}. Arguments make_point {A}. Arguments handover {A}.

(* ------------------------------------------------------------------------------------------ *)
(* (b) The legacy builder                                                                     *)
(* ------------------------------------------------------------------------------------------ *)
Inductive rule := Climb | Cruise | Descend.
Inductive err :=
  | ESchedule      (* ValueError raised by LegacyContext.__init__ *)
  | EPerf          (* the performance model refuses the state (outside its envelope) *)
  | ETrack         (* GroundTrack.Exception: negative distance / step *)
  | ENoConv        (* RuntimeError: mass iteration failed to converge *)
  | ENoFuelLoad    (* TypeError: starting mass given, so no fuel load was ever computed *)
  | EHandover      (* IndexError of make_point *)
  | EWeather.      (* ValueError of Weather.get_ground_speed: outside the weather data domain *)
Inductive res (A : Type) := Ok (a : A) | Err (e : err).
Arguments Ok {A}. Arguments Err {A}.

Section Builder.
  Context {N : Num}.
  Local Open Scope num_scope.
  Notation R := (T N).

  (* units.py (re-extracted on every run and proved equal in link/C02_Link.v) *)
  Definition FEET_TO_METERS : R := lit (381)%Z (1250)%Z (0x1.381d7dbf487fdp-2)%float.
  Definition METERS_TO_FEET : R := lit (82021)%Z (25000)%Z (0x1.a3f290abb44e5p+1)%float.
  Definition METERS_TO_FL : R := METERS_TO_FEET / lit (100)%Z (1)%Z (0x1.9p+6)%float.
  Definition NAUTICAL_MILES_TO_METERS : R := lit (1852)%Z (1)%Z (0x1.cfp+10)%float.
  Definition MINUTES_TO_SECONDS : R := lit (60)%Z (1)%Z (0x1.ep+5)%float.

  (* literals of builders/legacy.py *)
  Definition c3000 : R := lit (3000)%Z (1)%Z (0x1.77p+11)%float.
  Definition c7000 : R := lit (7000)%Z (1)%Z (0x1.b58p+12)%float.
  Definition c1823 : R := lit (1823)%Z (100)%Z (0x1.23ae147ae147bp+4)%float.
  Definition c005 : R := lit (1)%Z (20)%Z (0x1.999999999999ap-5)%float.
  Definition c015 : R := lit (3)%Z (20)%Z (0x1.3333333333333p-3)%float.
  Definition c05 : R := lit (1)%Z (2)%Z (0x1p-1)%float.
  Definition c180 : R := lit (180)%Z (1)%Z (0x1.68p+7)%float.
  Definition c200 : R := lit (200)%Z (1)%Z (0x1.9p+7)%float.
  Definition c100 : R := lit (100)%Z (1)%Z (0x1.9p+6)%float.
  Definition c30 : R := lit (30)%Z (1)%Z (0x1.ep+4)%float.
  Definition c45 : R := lit (45)%Z (1)%Z (0x1.68p+5)%float.
  Definition c0 : R := lit (0)%Z (1)%Z (0x0p+0)%float.

  (* one trajectory point: the 14 pointwise base fields *)
  Record pt := mkpt {
    p_alt : R; p_fl : R; p_tas : R; p_rocd : R; p_mass : R; p_fuel : R; p_dist : R; p_time : R;
    p_gs : R; p_ff : R; p_lon : R; p_lat : R; p_az : R; p_head : R }.
  Definition pt0 : pt := mkpt zero zero zero zero zero zero zero zero zero zero zero zero zero zero.

  (* ---- LegacyContext.__init__ : the altitude schedule ---- *)
  Record sched := mksched { s_clm : R; s_crz : R; s_des_start : R; s_des_end : R; s_ddist : R }.

  Definition schedule (o_alt d_alt max_alt : R) : res sched :=
    let clm0 := o_alt + c3000 * FEET_TO_METERS in
    let clm := if max_alt <=? clm0 then o_alt else clm0 in
    let crz0 := max_alt - c7000 * FEET_TO_METERS in
    let crz1 := if crz0 <? clm then clm else crz0 in
    let crz := if max_alt <? crz1 then max_alt else crz1 in
    let des_start := crz in
    let de0 := d_alt + c3000 * FEET_TO_METERS in
    let de := if max_alt <=? de0 then max_alt else de0 in
    if crz <? clm then Err ESchedule
    else if des_start <? de then Err ESchedule
    else
      let dd := c1823 * (des_start - de) in
      if dd <? c0 then Err ESchedule else Ok (mksched clm crz des_start de dd).

  (* ---- oracles ---- *)
  (* perf k rule altitude mass : the k-th performance evaluation of the flight; None = refused *)
  Variable perf : nat -> rule -> R -> R -> option (R * R * R).       (* tas, rocd, fuel flow *)
  (* geo k s : the k-th geodesic evaluation: position and azimuth at distance s from the origin *)
  Variable geo : nat -> R -> R * R * R.                              (* lon, lat, azimuth *)
  Variable fixed : bool.
  (* gsp k tas : ground speed under wind returned by the weather module (C16) for the segment whose track step
     is geodesic evaluation k; None = refused (outside the weather data domain) *)
  Variable gsp : nat -> R -> option R.
  Variable use_wx : bool.                       (* Options.use_weather *)
  (* a starting mass handed in by the caller: true = the fuel load is still derived (after fixes/FC17a.diff),
     false = it stays None and the first point cannot be stored (the code before that fix) *)
  Variable gfix : bool.

  (* GroundTrack.step: negative arguments are refused, otherwise the point at from + step *)
  Definition track_step (kg : nat) (from step : R) : option (R * R * R) :=
    if (from <? zero) || (step <? zero) then None else Some (geo kg (from + step)).

  (* ground speed of a segment that starts at ground distance [dist] with (forward) airspeed [tas]:
     without weather the airspeed itself; with weather GroundTrack.location(dist) must exist (no overstep
     there) and the weather module answers *)
  Definition ground_speed (total : R) (kg : nat) (dist tas : R) : res R :=
    if use_wx then
      if (dist <? zero) || (total <? dist) then Err ETrack
      else match gsp kg tas with Some g => Ok g | None => Err EWeather end
    else Ok tas.

  (* ---- calc_starting_mass ---- *)
  (* the arithmetic (re-extracted from the source on every run and proved equal in link/C02_Link.v);
     returns (starting mass, non-reserve fuel load) *)
  Definition calc_formula (tas ff total_dist lf max_payload empty_mass max_mass : R) : R * R :=
    let payload := max_payload * lf in
    let approx_time := total_dist / tas in
    let fuel_mass := approx_time * ff in
    let reserve := fuel_mass * c005 in
    let '(divert_dist, hold_time) :=
      if (c180 * MINUTES_TO_SECONDS) <? approx_time
      then (c200 * NAUTICAL_MILES_TO_METERS, c30 * MINUTES_TO_SECONDS)
      else (c100 * NAUTICAL_MILES_TO_METERS, c45 * MINUTES_TO_SECONDS) in
    let divert := divert_dist / tas * ff in
    let hold := hold_time * ff in
    let sm := empty_mass + payload + fuel_mass + reserve + divert + hold in
    let sm := if max_mass <? sm then max_mass else sm in
    (sm, fuel_mass).

  Definition calc_starting_mass (kp : nat) (crz total_dist lf max_payload empty_mass max_mass : R)
    : res (R * R) :=
    match perf kp Cruise crz max_mass with
    | None => Err EPerf
    | Some (tas, _, ff) => Ok (calc_formula tas ff total_dist lf max_payload empty_mass max_mass)
    end.

  (* ---- _fly_level_change: climb and descent ---- *)
  (* the last point of the phase: appended with the ground speed / heading of the previous segment *)
  Definition lc_last (alt : R) (p : pt) (a : R * R * R) : pt :=
    let '(tas, rocd, ff) := a in
    mkpt alt (alt * METERS_TO_FL) tas rocd (p_mass p) (p_fuel p) (p_dist p) (p_time p)
         (p_gs p) ff (p_lon p) (p_lat p) (p_az p) (p_head p).

  Definition fwd_tas (a : R * R * R) : R := let '(tas, rocd, _) := a in nsqrt (tas * tas - rocd * rocd).
  Definition lc_seg_time (delta : R) (a : R * R * R) : R := let '(_, rocd, _) := a in delta / rocd.
  Definition lc_dist (delta : R) (a : R * R * R) (gs : R) : R := gs * lc_seg_time delta a.

  (* the point appended at the start of a segment *)
  Definition lc_q (alt : R) (p : pt) (a : R * R * R) (gs : R) : pt :=
    let '(tas, rocd, ff) := a in
    mkpt alt (alt * METERS_TO_FL) tas rocd (p_mass p) (p_fuel p) (p_dist p) (p_time p)
         gs ff (p_lon p) (p_lat p) (p_az p) (p_az p).

  (* segment fuel: burn + acceleration term, clamped at zero *)
  Definition lc_seg_fuel (delta lhv : R) (p : pt) (a a_end : R * R * R) : R :=
    let '(tas, _, ff) := a in
    let '(tas_end, _, _) := a_end in
    let seg_fuel0 := ff * lc_seg_time delta a in
    let ke := c05 * p_mass p * (tas_end * tas_end - tas * tas) in
    let accel := ke / lhv / c015 in
    let seg_fuel1 := seg_fuel0 + accel in
    if seg_fuel1 <? zero then zero else seg_fuel1.

  (* the state at the end of the segment *)
  Definition lc_next (alt delta lhv : R) (p : pt) (a : R * R * R) (gs : R) (g : R * R * R) (a_end : R * R * R) : pt :=
    let '(tas, rocd, ff) := a in
    let '(lon, lat, az) := g in
    let sf := lc_seg_fuel delta lhv p a a_end in
    mkpt alt (alt * METERS_TO_FL) tas rocd (p_mass p - sf) (p_fuel p - sf)
         (p_dist p + lc_dist delta a gs) (p_time p + lc_seg_time delta a) gs ff lon lat az (p_az p).

  Section LevelChange.
    Variable rl : rule.
    Variable lhv : R.
    Variable start_alt delta : R.
    Variable total : R.

    (* m = segments still to fly, idx = index of the current point (as a number) *)
    Fixpoint lc_loop (m : nat) (idx : R) (p : pt) (kp kg : nat) : res (list pt * nat * nat) :=
      let alt := start_alt + idx * delta in
      match perf kp rl alt (p_mass p) with
      | None => Err EPerf
      | Some a =>
        match m with
        | O => Ok ([lc_last alt p a], S kp, kg)
        | S m' =>
          match ground_speed total kg (p_dist p) (fwd_tas a) with
          | Err e => Err e
          | Ok gs =>
            match track_step kg (p_dist p) (lc_dist delta a gs) with
            | None => Err ETrack
            | Some g =>
              match perf (S kp) rl (alt + delta) (p_mass p) with
              | None => Err EPerf
              | Some a_end =>
                match lc_loop m' (idx + one) (lc_next alt delta lhv p a gs g a_end) (S (S kp)) (S kg) with
                | Err e => Err e
                | Ok (l, kp', kg') => Ok (lc_q alt p a gs :: l, kp', kg')
                end
              end
            end
          end
        end
      end.
  End LevelChange.

  (* ---- fly_cruise ---- *)
  Definition crz_q (p : pt) (gs : R) : pt :=
    mkpt (p_alt p) (p_fl p) (p_tas p) (p_rocd p) (p_mass p) (p_fuel p) (p_dist p) (p_time p)
         gs (p_ff p) (p_lon p) (p_lat p) (p_az p) (p_az p).
  Definition crz_next (step : R) (p : pt) (gs : R) (g : R * R * R) (a : R * R * R) : pt :=
    let '(tas, rocd, ff) := a in
    let '(lon, lat, az) := g in
    let seg_time := step / gs in
    let seg_fuel := ff * seg_time in
    mkpt (p_alt p) (p_fl p) tas rocd (p_mass p - seg_fuel) (p_fuel p - seg_fuel)
         (p_dist p + step) (p_time p + seg_time) gs ff lon lat az (p_az p).

  Section CruiseLoop.
    Variable step : R.
    Variable total : R.
    Fixpoint crz_loop (m : nat) (p : pt) (kp kg : nat) : res (list pt * nat * nat) :=
      match m with
      | O => Ok ([], kp, kg)
      | S m' =>
        match ground_speed total kg (p_dist p) (p_tas p) with
        | Err e => Err e
        | Ok gs =>
          match track_step kg (p_dist p) step with
          | None => Err ETrack
          | Some g =>
            match perf kp Cruise (p_alt p) (p_mass p) with
            | None => Err EPerf
            | Some a =>
              match crz_loop m' (crz_next step p gs g a) (S kp) (S kg) with
              | Err e => Err e
              | Ok (l, kp', kg') => Ok (crz_q p gs :: l, kp', kg')
              end
            end
          end
        end
      end.
  End CruiseLoop.

  (* number n - 1 as used in the step sizes *)
  Definition nm1 (n : nat) : R := of_Z (Z.of_nat (Nat.pred n)).

  (* everything fixed for one flight *)
  Record flight := mkflight {
    f_o_alt : R; f_d_alt : R; f_max_alt : R;              (* airport elevations, ceiling (m) *)
    f_o_lon : R; f_o_lat : R; f_az0 : R;                  (* ground_track[0] *)
    f_total : R;                                          (* ground_track.total_distance *)
    f_lf : R; f_max_payload : R; f_empty : R; f_max_mass : R;
    f_lhv : R;
    f_n_clm : nat; f_n_crz : nat; f_n_des : nat }.        (* int(1/frac), int(1/frac), int(1/frac + 1) *)

  Record traj := mktraj { t_climb : list pt; t_cruise : list pt; t_descent : list pt }.
  Definition points (t : traj) : list pt := t_climb t ++ t_cruise t ++ t_descent t.

  Definition hand (l : list pt) : res pt :=
    match handover pt0 fixed l with Some p => Ok p | None => Err EHandover end.

  (* the cruise phase starts from the handed-over point at the cruise level with rate of climb 0 *)
  Definition crz_entry (alt : R) (h : pt) : pt :=
    mkpt alt (alt * METERS_TO_FL) (p_tas h) zero (p_mass h) (p_fuel h) (p_dist h) (p_time h)
         (p_gs h) (p_ff h) (p_lon h) (p_lat h) (p_az h) (p_head h).
  Definition start_point (f : flight) (s : sched) (sm tf : R) : pt :=
    mkpt (s_clm s) zero zero zero sm tf zero zero zero zero (f_o_lon f) (f_o_lat f) (f_az0 f) zero.

  (* ---- Builder._fly_iteration (climb, cruise, descent; then the fuel residual) ---- *)
  Definition fly_iteration (f : flight) (s : sched) (sm tf : R) (kp kg : nat) : res (traj * R * nat * nat) :=
    let p0 := start_point f s sm tf in
    let d_clm := (s_crz s - s_clm s) / nm1 (f_n_clm f) in
    match lc_loop Climb (f_lhv f) (s_clm s) d_clm (f_total f) (Nat.pred (f_n_clm f)) zero p0 kp kg with
    | Err e => Err e
    | Ok (l1, kp1, kg1) =>
      match hand l1 with
      | Err e => Err e
      | Ok h1 =>
        let c0 := crz_entry (s_crz s) h1 in
        let end_dist := f_total f - s_ddist s in
        let step := (end_dist - p_dist h1) / nm1 (f_n_crz f) in
        match crz_loop step (f_total f) (f_n_crz f) c0 kp1 kg1 with
        | Err e => Err e
        | Ok (l2, kp2, kg2) =>
          match hand (l1 ++ l2) with
          | Err e => Err e
          | Ok h2 =>
            let d_des := (s_des_end s - s_des_start s) / nm1 (f_n_des f) in
            match lc_loop Descend (f_lhv f) (s_des_start s) d_des (f_total f) (Nat.pred (f_n_des f)) zero h2 kp2 kg2 with
            | Err e => Err e
            | Ok (l3, kp3, kg3) =>
              let t := mktraj l1 l2 l3 in
              let burned := sm - p_mass (last (points t) pt0) in
              Ok (t, (tf - burned) / tf, kp3, kg3)
            end
          end
        end
      end
    end.

  (* ---- Builder._iterate_mass ----
     k = max_mass_iters - 1 = how often the loop body can still run *)
  Fixpoint iterate (f : flight) (s : sched) (reltol : R) (k : nat) (t : traj) (r sm tf : R) (kp kg : nat)
    : res (traj * R * R * R * nat * nat) :=
    match k with
    | O => Err ENoConv
    | S k' =>
      if nabs r <? reltol then Ok (t, r, sm, tf, kp, kg)
      else
        let sm' := sm - r * tf in
        let tf' := tf - r * tf in
        match fly_iteration f s sm' tf' kp kg with
        | Err e => Err e
        | Ok (t', r', kp', kg') => iterate f s reltol k' t' r' sm' tf' kp' kg'
        end
    end.

  Record result := mkresult {
    r_traj : traj; r_residual : R; r_start_mass : R; r_total_fuel : R; r_kp : nat; r_kg : nat }.

  (* ---- Builder.fly ---- *)
  Definition fly (f : flight) (given_mass : option R) (iterate_mass : bool) (max_iters : nat) (reltol : R)
    : res result :=
    match schedule (f_o_alt f) (f_d_alt f) (f_max_alt f) with
    | Err e => Err e
    | Ok s =>
      match given_mass, gfix with
      | Some _, false => Err ENoFuelLoad      (* total_fuel_mass stays None: _start_point cannot store it *)
      | _, _ =>
        match calc_starting_mass 0 (s_crz s) (f_total f) (f_lf f) (f_max_payload f) (f_empty f) (f_max_mass f) with
        | Err e => Err e
        | Ok (sm0, tf) =>
          let sm := match given_mass with Some m => m | None => sm0 end in
          match fly_iteration f s sm tf 1 0 with
          | Err e => Err e
          | Ok (t, r, kp, kg) =>
            if iterate_mass then
              match iterate f s reltol (Nat.pred max_iters) t r sm tf kp kg with
              | Err e => Err e
              | Ok (t', r', sm', tf', kp', kg') => Ok (mkresult t' r' sm' tf' kp' kg')
              end
            else Ok (mkresult t r sm tf kp kg)
          end
        end
      end
    end.
End Builder.

(* ------------------------------------------------------------------------------------------ *)
(* (c) np.interp(x, xp, fp, left = nan, right = nan) for one x                                *)
(* ------------------------------------------------------------------------------------------ *)
Section Interp.
  Context {N : Num}.
  Local Open Scope num_scope.
  Notation R := (T N).
  Variable nan : R.

  (* scan for the last j with xp[j] <= x  (what numpy's binary search returns on sorted xp);
     (x0, y0) is the current candidate *)
  Fixpoint interp_go (x0 y0 : R) (xs ys : list R) (x : R) : R :=
    match xs, ys with
    | x1 :: xs', y1 :: ys' =>
        if x1 <=? x then interp_go x1 y1 xs' ys' x
        else if x0 =? x then y0
        else (y1 - y0) / (x1 - x0) * (x - x0) + y0
    | _, _ => y0
    end.

  Definition interp (xs ys : list R) (x : R) : R :=
    match xs, ys with
    | x0 :: xs', y0 :: ys' =>
        if x <? x0 then nan
        else if last xs x0 <? x then nan
        else interp_go x0 y0 xs' ys' x
    | _, _ => nan
    end.
End Interp.

(* ------------------------------------------------------------------------------------------ *)
(* Execution helpers (binary64): replay of recorded oracle answers, flattening of the result  *)
(* ------------------------------------------------------------------------------------------ *)
From Coq Require Import PrimFloat.
From AV Require Import lib.FloatMath.

Definition perf_replay (l : list (option (float * float * float))) (k : nat) (_ : rule) (_ _ : float)
  : option (float * float * float) := nth k l None.
Definition geo_replay (l : list (float * float * float)) (k : nat) (_ : float) : float * float * float :=
  nth k l (nan, nan, nan).

Definition row (p : @pt FNum) : list float :=
  [p_alt p; p_fl p; p_tas p; p_rocd p; p_mass p; p_fuel p; p_dist p; p_time p;
   p_gs p; p_ff p; p_lon p; p_lat p; p_az p; p_head p].

Inductive outcome :=
  | Flown (n_climb n_cruise n_descent : Z) (start_mass total_fuel residual : float) (kp kg : Z)
          (rows : list (list float))
  | Refused (e : err).

Definition gsp_replay (l : list (option float)) (k : nat) (_ : float) : option float := nth k l None.

Definition run_flight (fixed gfix : bool) (pl : list (option (float * float * float))) (gl : list (float * float * float))
    (use_wx : bool) (wl : list (option float))
    (f : @flight FNum) (given : option float) (it : bool) (max_iters : nat) (reltol : float) : outcome :=
  match @fly FNum (perf_replay pl) (geo_replay gl) fixed (gsp_replay wl) use_wx gfix f given it max_iters reltol with
  | Err e => Refused e
  | Ok r =>
    let t := r_traj r in
    Flown (Z.of_nat (length (t_climb t))) (Z.of_nat (length (t_cruise t))) (Z.of_nat (length (t_descent t)) - 1)
          (r_start_mass r) (r_total_fuel r) (r_residual r) (Z.of_nat (r_kp r)) (Z.of_nat (r_kg r))
          (map row (points t))
  end.

(* container runs for the correspondence of (a): append the numbers 1..n, then report size, capacity,
   the valid prefix and make_point idx *)
Definition cont_run (fixed : bool) (n : nat) (idx : Z) : Z * Z * list Z * option Z :=
  let c := appends 0%Z (map Z.of_nat (seq 1 n)) in
  (Z.of_nat (c_size c), Z.of_nat (cap c), read c, make_point 0%Z fixed c idx).

Definition interp_run (xs ys : list float) (qs : list float) : list float :=
  map (@interp FNum nan xs ys) qs.

(* C01 — the bookkeeping of emissions/emission.py:compute_emissions over an abstract number domain.
   The per-point emission-index METHODS (BFFM2, HC/CO, PMvol, PMnvol; property C12) are an opaque oracle:
   their index arrays are inputs ([orc_traj], [orc_lto]).  Everything else — fuel burn from fuel-mass
   differences, constant-EI species, windowing for either climb/descent accounting mode, LTO time-in-mode
   fuel and mode zeroing, NOx speciation of the LTO row, APU, GSE, totals, life-cycle CO2, total fuel —
   is modelled here, once, and instantiated at RNum (theorems) and FNum (execution against the code).

   Species maps are functions [species -> option X] (None = key absent).  The vocabulary (species,
   config, enabled, which keys each component writes) is model/C11_Model.v. *)
From Coq Require Import List Bool ZArith PrimFloat.
From AV Require Import lib.Num model.C11_Model.
Import ListNotations.

Inductive acclass := AC_WIDE | AC_NARROW | AC_SMALL | AC_FREIGHT.

Section M.
Context {N : Num}.
Local Open Scope num_scope.
Local Notation num := (T N).

(* ---- ThrustModeValues: idle, approach, climb, takeoff ---- *)
Definition tmv := (num * num * num * num)%type.
Definition tm_idle (v : tmv) := let '(i, _, _, _) := v in i.
Definition tm_approach (v : tmv) := let '(_, a, _, _) := v in a.
Definition tm_climb (v : tmv) := let '(_, _, c, _) := v in c.
Definition tm_takeoff (v : tmv) := let '(_, _, _, t) := v in t.
Definition tm_const (x : num) : tmv := (x, x, x, x).
Definition tm_mul (a b : tmv) : tmv :=
  let '(a1, a2, a3, a4) := a in let '(b1, b2, b3, b4) := b in (a1 * b1, a2 * b2, a3 * b3, a4 * b4).
Definition tm_zero_ac (a : tmv) : tmv := let '(i, _, _, t) := a in (i, zero, zero, t).   (* approach, climb := 0 *)
Definition tm_sum (a : tmv) : num := let '(i, ap, c, t) := a in zero + i + ap + c + t.   (* python sum() *)

(* ---- inputs ---- *)
Record fuel := mkFuel {
  f_EI_CO2 : num; f_EI_H2O : num; f_energy : num; f_lifecycle : option num;
  f_sulfur : num; f_yield : num }.
Record lto_data := mkLto { l_ff : tmv; l_nox : tmv; l_hc : tmv; l_co : tmv }.
Record apu_data := mkApu { a_fuel : num; a_nox : num; a_co : num; a_hc : num; a_pm10 : num }.

(* ---- constants (each is re-extracted from the source and proved equal in link/C01_Link.v) ---- *)
Definition c_min2s : num := lit 60 1 0x1.ep+5.
(* lto.py:_LTO_TIMS *)
Definition lto_tims : tmv :=
  (lit 26 1 0x1.ap+4 * c_min2s, lit 4 1 0x1p+2 * c_min2s,
   lit 22 10 0x1.199999999999ap+1 * c_min2s, lit 7 10 0x1.6666666666666p-1 * c_min2s).

(* ei/nox.py:NOx_speciation *)
Definition c100 : num := lit 100 1 0x1.9p+6.
Definition honoH : num := lit 75 100 0x1.8p-1.
Definition honoL : num := lit 45 10 0x1.2p+2.
Definition honoA : num := lit 45 10 0x1.2p+2.
Definition no2H : num := lit 75 10 0x1.ep+2 * (c100 - honoH) / c100.
Definition no2L : num := lit 865 10 0x1.5ap+6 * (c100 - honoL) / c100.
Definition no2A : num := lit 16 1 0x1p+4 * (c100 - honoA) / c100.
Definition noH : num := c100 - honoH - no2H.
Definition noL : num := c100 - honoL - no2L.
Definition noA : num := c100 - honoA - no2A.
Definition c100i : num := lit 100 1 0x1.9p+6.
Definition sp_no : tmv := (noL / c100i, noA / c100i, noH / c100i, noH / c100i).
Definition sp_no2 : tmv := (no2L / c100i, no2A / c100i, no2H / c100i, no2H / c100i).
Definition sp_hono : tmv := (honoL / c100i, honoA / c100i, honoH / c100i, honoH / c100i).

(* ei/sox.py:EI_SOx -> (SOx, SO2, SO4) *)
Definition MW_SO2 : num := lit 64 1 0x1p+6.
Definition MW_SO4 : num := lit 96 1 0x1.8p+6.
Definition MW_S : num := lit 32 1 0x1p+5.
Definition ei_sox (f : fuel) : num * num * num :=
  let frac := f_sulfur f / lit 1000000 1 0x1.e848p+19 in
  let so2 := frac * (one - f_yield f) * MW_SO2 / MW_S * lit 1000 1 0x1.f4p+9 in
  let so4 := frac * f_yield f * MW_SO4 / MW_S * lit 1000 1 0x1.f4p+9 in
  (so2 + so4, so2, so4).

(* ---- list helpers ---- *)
Fixpoint map2 (f : num -> num -> num) (a b : list num) : list num :=
  match a, b with x :: a', y :: b' => f x y :: map2 f a' b' | _, _ => [] end.

(* fuel_burn_per_segment = zeros_like(fuel_mass); [1:] = fuel_mass[:-1] - fuel_mass[1:] *)
Fixpoint diffs (prev : num) (l : list num) : list num :=
  match l with [] => [] | y :: r => (prev - y) :: diffs y r end.
Definition fuel_burn (fm : list num) : list num :=
  match fm with [] => [] | x :: r => zero :: diffs x r end.

(* Python / numpy slice-bound normalisation for a sequence of length n: a negative bound counts from the end,
   everything is clamped to [0, n].  `arr[:k] = 0` clears [0, norm k); `arr[k:] = 0` clears [norm k, n);
   `arr[a:b]` is [norm a, norm b) (empty when norm b <= norm a). *)
Definition norm_bound (n : nat) (k : Z) : nat :=
  if (k <? 0)%Z then Z.to_nat (Z.max 0 (Z.of_nat n + k)) else Nat.min (Z.to_nat k) n.
(* trajectory.py:_trajectory_slice: slice(traj.n_climb, len(traj) - traj.n_descent) under lto accounting, for ANY
   integer phase counts (the builders only produce 0 <= counts with sum <= len; hand-made / stored trajectories
   can carry anything) *)
Definition win_start (c : config) (n : nat) (n_climb : Z) : nat :=
  match cd c with CD_TRAJECTORY => 0%nat | CD_LTO => norm_bound n n_climb end.
Definition win_stop (c : config) (n : nat) (n_descent : Z) : nat :=
  match cd c with CD_TRAJECTORY => n | CD_LTO => norm_bound n (Z.of_nat n - n_descent) end.
Definition in_window (start stop i : nat) : bool := (start <=? i)%nat && (i <? stop)%nat.
(* arr[:start] = 0; arr[stop:] = 0 *)
Fixpoint zero_outside_from (i start stop : nat) (l : list num) : list num :=
  match l with
  | [] => []
  | x :: r => (if in_window start stop i then x else zero) :: zero_outside_from (S i) start stop r
  end.
Definition zero_outside := zero_outside_from 0.
(* arr[start:stop] *)
Definition slice (start stop : nat) (l : list num) : list num := firstn (stop - start)%nat (skipn start l).

Fixpoint lookup {X} (s : species) (l : list (species * X)) : option X :=
  match l with [] => None | (k, v) :: r => if species_eqb s k then Some v else lookup s r end.

(* ---- BFFM2 speciation along the trajectory (ei/nox.py:BFFM2_EINOx steps 3-5, utils.py:get_thrust_cat_cruise) ----
   NOx itself (log-log fit, humidity correction) and the SLS-equivalent fuel flow are the EI method's (oracle);
   how NO / NO2 / HONO are cut out of NOx is bookkeeping and is modelled. *)
Inductive tmode := TM_IDLE | TM_APPROACH | TM_CLIMB | TM_TAKEOFF.
Definition tm_get (m : tmode) (v : tmv) : num :=
  match m with TM_IDLE => tm_idle v | TM_APPROACH => tm_approach v | TM_CLIMB => tm_climb v | TM_TAKEOFF => tm_takeoff v end.
(* np.select([ff <= lowLimit, ff > approachLimit], [IDLE, CLIMB], default=APPROACH) *)
Definition thrust_cat (ff_cal : tmv) (ff : num) : tmode :=
  let low := (tm_idle ff_cal + tm_approach ff_cal) / lit 2 1 0x1p+1 in
  let app := (tm_approach ff_cal + tm_climb ff_cal) / lit 2 1 0x1p+1 in
  if ff <=? low then TM_IDLE else if app <? ff then TM_CLIMB else TM_APPROACH.
Definition bffm2_part (ff_cal : tmv) (sp : tmv) (nx sls : list num) : list num :=
  map2 mul nx (map (fun ff => tm_get (thrust_cat ff_cal ff) sp) sls).
(* the per-point index arrays the trajectory component works with: the EI methods' arrays, plus NO / NO2 / HONO
   derived from the NOx array *)
Definition is_part (s : species) : bool := match s with NO | NO2 | HONO => true | _ => false end.
Definition strip_parts (orc : list (species * list num)) : list (species * list num) :=
  filter (fun p => negb (is_part (fst p))) orc.
Definition aug_orc (ff_cal : tmv) (sls : list num) (orc : list (species * list num)) : list (species * list num) :=
  match lookup NOx orc with
  | Some nx => (NO, bffm2_part ff_cal sp_no nx sls) :: (NO2, bffm2_part ff_cal sp_no2 nx sls)
               :: (HONO, bffm2_part ff_cal sp_hono nx sls) :: strip_parts orc
  | None => strip_parts orc
  end.

(* ---- trajectory component ---- *)
Definition const_value (f : fuel) (s : species) : num :=
  match s with
  | CO2 => f_EI_CO2 f
  | H2O => f_EI_H2O f
  | SOx => let '(x, _, _) := ei_sox f in x
  | SO2 => let '(_, x, _) := ei_sox f in x
  | SO4 => let '(_, _, x) := ei_sox f in x
  | _ => zero
  end.

Definition traj_idx_raw (c : config) (f : fuel) (n : nat) (orc : list (species * list num)) (s : species)
  : option (list num) :=
  if const_has c s then Some (repeat (const_value f s) n)
  else if traj_var_has c s then lookup s orc else None.

Definition traj_em_raw (c : config) (f : fuel) (fm : list num) (orc : list (species * list num)) (s : species)
  : option (list num) :=
  option_map (fun idx => map2 mul idx (fuel_burn fm)) (traj_idx_raw c f (length fm) orc s).

Definition traj_idx c f (fm : list num) (ncl nde : Z) orc (s : species) : option (list num) :=
  option_map (zero_outside (win_start c (length fm) ncl) (win_stop c (length fm) nde)) (traj_idx_raw c f (length fm) orc s).
Definition traj_em c f (fm : list num) (ncl nde : Z) orc (s : species) : option (list num) :=
  option_map (zero_outside (win_start c (length fm) ncl) (win_stop c (length fm) nde)) (traj_em_raw c f fm orc s).
Definition traj_fuel c (fm : list num) (ncl nde : Z) : num :=
  nsum (slice (win_start c (length fm) ncl) (win_stop c (length fm) nde) (fuel_burn fm)).

(* ---- LTO component ---- *)
Definition lto_fuel (c : config) (l : lto_data) : tmv :=
  let fb := tm_mul lto_tims (l_ff l) in
  match cd c with CD_LTO => fb | CD_TRAJECTORY => tm_zero_ac fb end.

Definition lto_idx_raw (c : config) (f : fuel) (l : lto_data) (orc : list (species * tmv)) (s : species)
  : option tmv :=
  if const_has c s then Some (tm_const (const_value f s))
  else if lto_tab_has c s then
    Some (match s with
          | NOx => l_nox l
          | NO => tm_mul (l_nox l) sp_no
          | NO2 => tm_mul (l_nox l) sp_no2
          | HONO => tm_mul (l_nox l) sp_hono
          | HC => l_hc l
          | CO => l_co l
          | _ => tm_const zero
          end)
  else if lto_var_has c s then lookup s orc
  else if lto_zero_has c s then Some (tm_const zero)
  else None.

Definition lto_idx c f l orc (s : species) : option tmv :=
  option_map (fun v => match cd c with CD_LTO => v | CD_TRAJECTORY => tm_zero_ac v end) (lto_idx_raw c f l orc s).
Definition lto_em c f l orc (s : species) : option tmv :=
  option_map (fun v => tm_mul v (lto_fuel c l)) (lto_idx c f l orc s).

(* ---- APU component (apu.py:get_APU_emissions) ---- *)
Definition apu_time : num := lit 900 1 0x1.c2p+9.
Definition apu_bc : num := lit 95 100 0x1.e666666666666p-1.
Definition apu_running_b (a : apu_data) : bool := negb (a_fuel a =? zero).
Definition apu_fuel (a : apu_data) : num := a_fuel a * apu_time.

Definition getd_tm (o : option tmv) : tmv := match o with Some v => v | None => tm_const zero end.

Definition apu_so (c : config) f l orc (a : apu_data) (s : species) : num :=
  if apu_running_b a then tm_idle (getd_tm (lto_idx c f l orc s)) else zero.
Definition apu_pm10 c f l orc (a : apu_data) : num := nmax (a_pm10 a - apu_so c f l orc a SO4) zero.
Definition apu_pmnvol c f l orc a : num := apu_pm10 c f l orc a * apu_bc.
Definition apu_pmvol c f l orc a : num := apu_pm10 c f l orc a - apu_pmnvol c f l orc a.
Definition apu_co2 c f l orc (a : apu_data) : num :=
  if apu_running_b a then
    lit 3160 1 0x1.8bp+11
    - (lit 44 1 0x1.6p+5 / lit 28 1 0x1.cp+4) * a_co a
    - (lit 44 1 0x1.6p+5 / (lit 82 1 0x1.48p+6 / lit 5 1 0x1.4p+2)) * a_hc a
    - (lit 44 1 0x1.6p+5 / (lit 55 1 0x1.b8p+5 / lit 4 1 0x1p+2)) * apu_pmvol c f l orc a
    - (lit 44 1 0x1.6p+5 / lit 12 1 0x1.8p+3) * lit 95 100 0x1.e666666666666p-1 * apu_pmnvol c f l orc a
  else zero.

Definition apu_idx (c : config) (f : fuel) l orc (a : apu_data) (s : species) : option num :=
  if apu_has c s then
    Some (match s with
          | SO2 => apu_so c f l orc a SO2
          | SO4 => apu_so c f l orc a SO4
          | SOx => apu_so c f l orc a SO2 + apu_so c f l orc a SO4
          | PMnvol => apu_pmnvol c f l orc a
          | PMvol => apu_pmvol c f l orc a
          | PMnvolN | PMnvolGMD | OCic => zero
          | NO => a_nox a * tm_takeoff sp_no
          | NO2 => a_nox a * tm_takeoff sp_no2
          | HONO => a_nox a * tm_takeoff sp_hono
          | NOx => a_nox a
          | HC => a_hc a
          | CO => a_co a
          | H2O => f_EI_H2O f
          | CO2 => apu_co2 c f l orc a
          end)
  else None.
Definition apu_em c f l orc a (s : species) : option num :=
  option_map (fun x => x * apu_fuel a) (apu_idx c f l orc a s).

(* ---- GSE component (gse.py) ---- *)
(* nominal per-cycle emissions: CO2, NOx, HC, CO, PM10 core *)
Definition gse_nominal (k : acclass) : num * num * num * num * num :=
  match k with
  | AC_WIDE | AC_FREIGHT =>
      (lit 58000 1 0x1.c52p+15, lit 900 1 0x1.c2p+9, lit 70 1 0x1.18p+6, lit 300 1 0x1.2cp+8, lit 55 1 0x1.b8p+5)
  | AC_NARROW =>
      (lit 18000 1 0x1.194p+14, lit 400 1 0x1.9p+8, lit 40 1 0x1.4p+5, lit 150 1 0x1.2cp+7, lit 25 1 0x1.9p+4)
  | AC_SMALL =>
      (lit 10000 1 0x1.388p+13, lit 300 1 0x1.2cp+8, lit 30 1 0x1.ep+4, lit 100 1 0x1.9p+6, lit 20 1 0x1.4p+4)
  end.
Definition gse_fsc : num := lit 5 1 0x1.4p+2 * lit 1 1000000 0x1.0c6f7a0b5ed8dp-20.
Definition gse_eps : num := lit 2 100 0x1.47ae147ae147bp-6.
Definition gse_kg2g : num := lit 1000 1 0x1.f4p+9.
Definition gse_mw_o2 : num := lit 16 1 0x1p+4 * lit 2 1 0x1p+1.
Definition gse_mw_so2 : num := lit 32 1 0x1p+5 + lit 16 1 0x1p+4 * lit 2 1 0x1p+1.
Definition gse_mw_so4 : num := lit 32 1 0x1p+5 + lit 16 1 0x1p+4 * lit 4 1 0x1p+2.
Definition gse_so4 : num := gse_fsc * gse_kg2g * gse_eps * (gse_mw_so4 / gse_mw_o2).
Definition gse_so2 : num := gse_fsc * gse_kg2g * (one - gse_eps) * (gse_mw_so2 / gse_mw_o2).
Definition gse_f_no : num := lit 90 100 0x1.ccccccccccccdp-1.
Definition gse_f_no2 : num := lit 9 100 0x1.70a3d70a3d70ap-4.
Definition gse_f_hono : num := lit 1 100 0x1.47ae147ae147bp-7.
Definition gse_half : num := lit 5 10 0x1p-1.

Definition gse_fuel (f : fuel) (k : acclass) : num :=
  let '(co2, _, _, _, _) := gse_nominal k in co2 / f_EI_CO2 f.
Definition gse_em (f : fuel) (k : acclass) (s : species) : option num :=
  let '(co2, nox, hc, co, pm) := gse_nominal k in
  Some (match s with
        | CO2 => co2 | NOx => nox | HC => hc | CO => co
        | H2O => f_EI_H2O f * gse_fuel f k
        | NO => nox * gse_f_no | NO2 => nox * gse_f_no2 | HONO => nox * gse_f_hono
        | SO4 => gse_so4 | SO2 => gse_so2 | SOx => gse_so4 + gse_so2
        | PMvol => (pm - gse_so4) * gse_half
        | PMnvol => (pm - gse_so4) * gse_half
        | PMnvolN | PMnvolGMD | OCic => zero
        end).

(* ---- whole inventory ---- *)
Record inputs := mkInputs {
  i_cfg : config; i_fuel : fuel; i_fm : list num; i_ncl : Z; i_nde : Z;
  i_orc_traj : list (species * list num);      (* EI-method arrays: NOx, HC, CO, PMvol, OCic, PMnvol, PMnvolGMD, PMnvolN *)
  i_sls : list num;                            (* SLS-equivalent fuel flow per point (EI method, FFM2 Eq. 40) *)
  i_lto : lto_data; i_orc_lto : list (species * tmv);
  i_apu : option apu_data; i_class : acclass }.

Definition I_orc (x : inputs) := aug_orc (l_ff (i_lto x)) (i_sls x) (i_orc_traj x).
Definition I_traj_idx (x : inputs) := traj_idx (i_cfg x) (i_fuel x) (i_fm x) (i_ncl x) (i_nde x) (I_orc x).
Definition I_traj_em (x : inputs) := traj_em (i_cfg x) (i_fuel x) (i_fm x) (i_ncl x) (i_nde x) (I_orc x).
Definition I_traj_fuel (x : inputs) := traj_fuel (i_cfg x) (i_fm x) (i_ncl x) (i_nde x).
Definition I_lto_idx (x : inputs) := lto_idx (i_cfg x) (i_fuel x) (i_lto x) (i_orc_lto x).
Definition I_lto_em (x : inputs) := lto_em (i_cfg x) (i_fuel x) (i_lto x) (i_orc_lto x).
Definition I_lto_fuel (x : inputs) : num := tm_sum (lto_fuel (i_cfg x) (i_lto x)).
(* `config.emissions.apu_enabled and pm.apu is not None` *)
Definition I_apu (x : inputs) : option apu_data := if apu_on (i_cfg x) then i_apu x else None.
Definition I_apu_idx (x : inputs) (s : species) : option num :=
  match I_apu x with Some a => apu_idx (i_cfg x) (i_fuel x) (i_lto x) (i_orc_lto x) a s | None => None end.
Definition I_apu_em (x : inputs) (s : species) : option num :=
  match I_apu x with Some a => apu_em (i_cfg x) (i_fuel x) (i_lto x) (i_orc_lto x) a s | None => None end.
Definition I_apu_fuel (x : inputs) : num := match I_apu x with Some a => apu_fuel a | None => zero end.
Definition I_gse_em (x : inputs) (s : species) : option num :=
  if gse_on (i_cfg x) then gse_em (i_fuel x) (i_class x) s else None.
Definition I_gse_fuel (x : inputs) : num :=
  if gse_on (i_cfg x) then gse_fuel (i_fuel x) (i_class x) else zero.

Definition lifecycle_applies (x : inputs) : bool := enabled (i_cfg x) CO2 && lifecycle_on (i_cfg x).
(* emission.py:get_lifecycle_emissions; a fuel without the datum is refused (C11), 0 here *)
Definition lifecycle_adj (x : inputs) : num :=
  match f_lifecycle (i_fuel x) with
  | Some lc => lc * ((hd zero (i_fm x) - last (i_fm x) zero) * f_energy (i_fuel x))
  | None => zero
  end.
Definition I_lifecycle (x : inputs) : num := if lifecycle_applies x then lifecycle_adj x else zero.

(* emission.py:sum_total_emissions, one species; then the life-cycle adjustment on CO2 *)
Definition sum_total (x : inputs) (s : species) : num :=
  let t := zero in
  let t := match I_traj_em x s with Some l => t + nsum l | None => t end in
  let t := match I_lto_em x s with Some v => t + tm_sum v | None => t end in
  let t := if apu_on (i_cfg x) then match I_apu_em x s with Some v => t + v | None => t end else t in
  let t := if gse_on (i_cfg x) then match I_gse_em x s with Some v => t + v | None => t end else t in
  t.
Definition I_total (x : inputs) (s : species) : num :=
  match s with
  | CO2 => if lifecycle_applies x then sum_total x s + lifecycle_adj x else sum_total x s
  | _ => sum_total x s
  end.
(* total_fuel_burn: trajectory, += LTO, += APU (when it runs), += GSE (when enabled) *)
Definition I_total_fuel (x : inputs) : num :=
  let t := I_traj_fuel x + I_lto_fuel x in
  let t := match I_apu x with Some a => t + apu_fuel a | None => t end in
  if gse_on (i_cfg x) then t + gse_fuel (i_fuel x) (i_class x) else t.

(* ---- printable result for the correspondence ---- *)
Definition dump {X} (f : species -> option X) : list (species * X) :=
  flat_map (fun s => match f s with Some v => [(s, v)] | None => [] end) all_species.

Definition run_case (x : inputs) :=
  (fuel_burn (i_fm x),
   (dump (I_traj_idx x), dump (I_traj_em x)),
   (dump (I_lto_idx x), dump (I_lto_em x)),
   (dump (I_apu_idx x), dump (I_apu_em x)),
   dump (I_gse_em x),
   dump (fun s => Some (I_total x s)),
   (I_total_fuel x, I_lifecycle x)).

End M.

(* C20 — trajectory stores are confined to one thread under every interleaving.
   Discrete model, axiom-free.

   The guard at the top of TrajectoryStore.__init__ is a tiny program over one shared variable
   ([owner] = TrajectoryStore.active_in_thread) and, after the repair, one shared lock.  The program
   text ([gstmt]) is regenerated from the source on every run (Gen.C20_Extracted.guard) and is linked
   to [guard_as_coded] / [guard_locked] in link/C20_Link.v.  Its semantics is a small-step
   interpreter in which ONE STATEMENT of one thread is one micro-step (= one pause of the
   line-level scheduler of harness/c20.py); a schedule is a list of thread ids. *)
From Coq Require Import List Bool Arith.
Import ListNotations.

Definition tid := nat.

(* ---- the guard language --------------------------------------------------------------- *)
Inductive gstmt :=
  | GIfNone (th el : list gstmt)   (* if active_in_thread is None: th  else: el   (one read + test) *)
  | GIfNeq (th : list gstmt)       (* if active_in_thread != get_ident(): th      (one read + compare) *)
  | GSet                           (* active_in_thread = get_ident()              (one write) *)
  | GRaise                         (* raise RuntimeError(...) *)
  | GWith (body : list gstmt).     (* with <class-level lock>: body               (acquire ... release) *)

(* how often executing the HEAD of a statement (its test, its assignment, its lock operation — not its
   sub-blocks, which are statements of their own) touches the shared attribute active_in_thread *)
Definition head_accesses (s : gstmt) : nat :=
  match s with
  | GIfNone _ _ => 1      (* one read *)
  | GIfNeq _ => 1         (* one read *)
  | GSet => 1             (* one write *)
  | GRaise => 0
  | GWith _ => 0          (* lock acquire / release only *)
  end.

(* src/AEIC/trajectories/store.py as it stands before the repair of F19 *)
Definition guard_as_coded : list gstmt := [GIfNone [GSet] [GIfNeq [GRaise]]].
(* the repaired constructor: the same statements under a class-level lock *)
Definition guard_locked : list gstmt := [GWith [GIfNone [GSet] [GIfNeq [GRaise]]]].

(* ---- small-step semantics ---------------------------------------------------------------- *)
Inductive frame := FStmt (s : gstmt) | FRelease.
Inductive event := EvOk (t : tid) | EvRefused (t : tid).
(* what the scheduler sees a step do *)
Inductive label := LbTestNone | LbTestNeq | LbSet | LbRaise | LbAcquire | LbBlocked | LbRelease | LbIdle.

Record tstate := { t_cont : list frame;   (* what is left of the current constructor call *)
                   t_raising : bool;      (* an exception is propagating *)
                   t_left : nat }.        (* constructor calls still to be started after this one *)

Record gstate := { owner : option tid;    (* TrajectoryStore.active_in_thread *)
                   lockh : option tid;    (* holder of the class-level lock *)
                   thr : tid -> tstate;
                   log : list event }.    (* ghost: outcome of every finished constructor guard, newest first *)

Definition upd (f : tid -> tstate) (t : tid) (x : tstate) : tid -> tstate :=
  fun u => if Nat.eqb u t then x else f u.

Definition frames (p : list gstmt) : list frame := map FStmt p.

Definition is_release (f : frame) : bool := match f with FRelease => true | FStmt _ => false end.

Definition owner_is (o : option tid) (t : tid) : bool :=
  match o with Some u => Nat.eqb u t | None => false end.

Section Sem.
  Variable prog : list gstmt.

  (* a thread that has calls left starts its next call with the whole guard in front of it *)
  Definition fresh (left : nat) : tstate :=
    match left with
    | O => {| t_cont := []; t_raising := false; t_left := O |}
    | S n => {| t_cont := frames prog; t_raising := false; t_left := n |}
    end.

  (* close the step of thread t: if its call is finished, record the outcome and start the next call *)
  Definition finish (t : tid) (o : option tid) (l : option tid) (thr0 : tid -> tstate)
             (lg : list event) (k : list frame) (raising : bool) (left : nat) : gstate :=
    match k with
    | [] => {| owner := o; lockh := l; thr := upd thr0 t (fresh left);
               log := (if raising then EvRefused t else EvOk t) :: lg |}
    | _ => {| owner := o; lockh := l;
              thr := upd thr0 t {| t_cont := k; t_raising := raising; t_left := left |}; log := lg |}
    end.

  Definition step (t : tid) (st : gstate) : gstate * label :=
    let ts := thr st t in
    match t_cont ts with
    | [] => (st, LbIdle)
    | FStmt (GIfNone th el) :: k =>
        let k' := (match owner st with None => frames th | Some _ => frames el end) ++ k in
        (finish t (owner st) (lockh st) (thr st) (log st) k' (t_raising ts) (t_left ts), LbTestNone)
    | FStmt (GIfNeq th) :: k =>
        let k' := (if owner_is (owner st) t then [] else frames th) ++ k in
        (finish t (owner st) (lockh st) (thr st) (log st) k' (t_raising ts) (t_left ts), LbTestNeq)
    | FStmt GSet :: k =>
        (finish t (Some t) (lockh st) (thr st) (log st) k (t_raising ts) (t_left ts), LbSet)
    | FStmt GRaise :: k =>
        (finish t (owner st) (lockh st) (thr st) (log st) (filter is_release k) true (t_left ts), LbRaise)
    | FStmt (GWith body) :: k =>
        match lockh st with
        | None => (finish t (owner st) (Some t) (thr st) (log st) (frames body ++ FRelease :: k)
                          (t_raising ts) (t_left ts), LbAcquire)
        | Some _ => (st, LbBlocked)
        end
    | FRelease :: k =>
        (finish t (owner st) None (thr st) (log st) k (t_raising ts) (t_left ts), LbRelease)
    end.

  Fixpoint run (sched : list tid) (st : gstate) : gstate :=
    match sched with
    | [] => st
    | t :: rest => run rest (fst (step t st))
    end.

  Fixpoint run_trace (sched : list tid) (st : gstate) : gstate * list label :=
    match sched with
    | [] => (st, [])
    | t :: rest => let (st1, lb) := step t st in
                   let (st2, lbs) := run_trace rest st1 in (st2, lb :: lbs)
    end.

  Definition init (calls : tid -> nat) : gstate :=
    {| owner := None; lockh := None; thr := fun t => fresh (calls t); log := [] |}.

  (* the guard made atomic, as the property specifies it: a whole constructor guard of one thread
     runs without any other thread in between (fuel bounds the statements of one guard) *)
  Fixpoint call_atomic (fuel : nat) (t : tid) (n : nat) (st : gstate) : gstate :=
    match fuel with
    | O => st
    | S f => if Nat.eqb (length (log st)) n then call_atomic f t n (fst (step t st)) else st
    end.
  Definition step_atomic (fuel : nat) (t : tid) (st : gstate) : gstate :=
    match t_cont (thr st t) with
    | [] => st
    | _ => call_atomic fuel t (length (log st)) st
    end.
  Fixpoint run_atomic (fuel : nat) (sched : list tid) (st : gstate) : gstate :=
    match sched with
    | [] => st
    | t :: rest => run_atomic fuel rest (step_atomic fuel t st)
    end.
End Sem.

(* ---- observations used by the correspondence ---------------------------------------------- *)
Definition calls_of (l : list (tid * nat)) : tid -> nat :=
  fun t => match find (fun p => Nat.eqb (fst p) t) l with Some p => snd p | None => O end.

Fixpoint oks_of (t : tid) (lg : list event) : nat :=
  match lg with
  | [] => O
  | EvOk u :: r => (if Nat.eqb u t then 1 else 0) + oks_of t r
  | EvRefused _ :: r => oks_of t r
  end.
Fixpoint refusals_of (t : tid) (lg : list event) : nat :=
  match lg with
  | [] => O
  | EvRefused u :: r => (if Nat.eqb u t then 1 else 0) + refusals_of t r
  | EvOk _ :: r => refusals_of t r
  end.

(* run a schedule, then let every listed thread finish (round robin, bounded fuel) *)
Fixpoint drain (prog : list gstmt) (fuel : nat) (ts : list tid) (st : gstate) : gstate :=
  match fuel with
  | O => st
  | S f => drain prog f ts (run prog ts st)
  end.

(* (labels of the scheduled steps, per listed thread (successes, refusals), final owner) *)
Definition observe (prog : list gstmt) (calls : list (tid * nat)) (sched : list tid)
  : list label * list (nat * nat) * option tid :=
  let (st, lbs) := run_trace prog sched (init prog (calls_of calls)) in
  let st' := drain prog 40 (map fst calls) st in
  (lbs, map (fun p => (oks_of (fst p) (log st'), refusals_of (fst p) (log st'))) calls, owner st').

(* Store_Model — shared executable model of src/AEIC/trajectories/store.py for C07 C08 C09 C10.
   Discrete, axiom-free (nat / Z / list / option only).

   What is modelled
   ----------------
   * a file system: path -> NetCDF store file | merged-store directory;
   * one live TrajectoryStore handle: access mode, _next_index, the LRU cache (as a finite map; eviction
     is NOT computed by the model: an [Evict keep] operation may drop any entries at any moment, so
     the theorems hold for every cache size and every replacement policy), the size_index snapshot
     taken when a file is opened, indexable / index_stale / _file_creation_pending;
   * operations create / create-in-memory / open / append / add / [] / len / iter / sync / close /
     get_flight / merge, the latter decomposed into its file-system calls so that a failure can be
     injected in front of any of them;
   * a trajectory is reduced to a payload tag, an optional flight id, the identity of its field sets
     ([t_sig]) and whether a required per-trajectory value is missing.

   [cfg] selects, defect by defect, the behaviour of the code as it was found (false) or the repaired
   behaviour (true).  All theorems are about [fixed_cfg]; the as-found behaviours are kept so that the
   correspondence harness can follow whichever tree it is run against, and so that each finding has a
   [..._refuted] witness.  *)
From Coq Require Import ZArith List Bool Arith.
Import ListNotations.

(* ------------------------------------------------------------------------------------------- *)
(* paths                                                                                       *)
(* ------------------------------------------------------------------------------------------- *)
Inductive ext := XNc | XStore | XOther.          (* ".nc" | ".aeic-store" | anything else *)
Definition ext_eqb (a b : ext) : bool :=
  match a, b with XNc, XNc | XStore, XStore | XOther, XOther => true | _, _ => false end.
Record path := mkPath { pdir : nat; pbase : nat; pext : ext }.
Definition path_eqb (a b : path) : bool :=
  Nat.eqb (pdir a) (pdir b) && Nat.eqb (pbase a) (pbase b) && ext_eqb (pext a) (pext b).

Section Assoc.
  Context {K V : Type}.
  Variable keq : K -> K -> bool.
  Fixpoint alookup (p : K) (l : list (K * V)) : option V :=
    match l with [] => None | (q, v) :: r => if keq p q then Some v else alookup p r end.
  Fixpoint aupd (p : K) (v : V) (l : list (K * V)) : list (K * V) :=
    match l with
    | [] => [(p, v)]
    | (q, x) :: r => if keq p q then (p, v) :: r else (q, x) :: aupd p v r
    end.
  Fixpoint aremove (p : K) (l : list (K * V)) : list (K * V) :=
    match l with [] => [] | (q, x) :: r => if keq p q then aremove p r else (q, x) :: aremove p r end.
End Assoc.

(* ------------------------------------------------------------------------------------------- *)
(* configuration: as found (false) / repaired (true), finding by finding                        *)
(* ------------------------------------------------------------------------------------------- *)
Record cfg := mkCfg {
  fix_F5 : bool;     (* no size_index snapshot for a single file                                    *)
  fix_F6 : bool;     (* required values checked before add() mutates anything                       *)
  fix_F7 : bool;     (* merge validates its inputs before creating the output directory             *)
  fix_F8 : bool;     (* get_flight / close work on an in-memory identified store                    *)
  fix_C08a : bool;   (* opening a file without an index group marks the store as not identified     *)
  fix_C09a : bool;   (* merge refuses inputs that share a file name                                 *)
  fix_C10a : bool;   (* add() compares field sets with the open files, not with a cached item       *)
  fix_C07a : bool;   (* a stored trajectory larger than the whole cache is returned uncached, not refused *)
  fix_C07b : bool    (* a file-backed store writes a trajectory larger than its cache without caching it  *)
}.
Definition fixed_cfg := mkCfg true true true true true true true true true.
Definition coded_cfg := mkCfg false false false false false false false false false.

(* ------------------------------------------------------------------------------------------- *)
(* stored data                                                                                 *)
(* ------------------------------------------------------------------------------------------- *)
Record item := mkItem { tag : Z; fid : option Z; whole : bool; isize : nat }.
   (* isize: what the LRU cache is charged for the trajectory (Trajectory.nbytes) *)
   (* whole = false: a record whose pointwise variables were written but whose required
      per-trajectory value was not (only the as-found add() produces these) *)

Inductive tkind := TOk | TMissingReq.
Record traj := mkTraj { t_tag : Z; t_fid : option Z; t_sig : Z; t_kind : tkind; t_size : nat }.
   (* t_size: Trajectory.nbytes, what the LRU cache charges for it *)
Definition has_id (t : traj) : bool := match t_fid t with Some _ => true | None => false end.

Record ncfile := mkNc {
  f_items : list item;
  f_sig : Z;                        (* identity of the field sets stored in the file *)
  f_hasidx : bool;                  (* the file has an "_index" group                *)
  f_table : list (Z * nat)          (* (flight_id, trajectory_index), as last written by _reindex *)
}.
Inductive idxstate := IxAbsent | IxEmpty | IxFull (t : list (Z * nat)).
Inductive metastate := MtAbsent | MtEmpty | MtFull (stores : list (nat * nat)).  (* (file name, length) *)
Record mdir := mkDir { d_members : list (nat * ncfile); d_index : idxstate; d_meta : metastate }.
Inductive node := NFile (f : ncfile) | NDir (d : mdir).
Definition fsys := list (path * node).

Definition flookup := @alookup path node path_eqb.
Definition fupd := @aupd path node path_eqb.
Definition fremove := @aremove path node path_eqb.
Definition mlookup := @alookup nat ncfile Nat.eqb.
Definition mupd := @aupd nat ncfile Nat.eqb.

(* ------------------------------------------------------------------------------------------- *)
(* the flight-id table: sorted (id, index) pairs; lookup by "first entry not below" (bisect_left) *)
(* ------------------------------------------------------------------------------------------- *)
Fixpoint tinsert (x : Z * nat) (l : list (Z * nat)) : list (Z * nat) :=
  match l with
  | [] => [x]
  | y :: r => if (fst x <=? fst y)%Z then x :: l else y :: tinsert x r
  end.
Definition isort (l : list (Z * nat)) : list (Z * nat) := fold_right tinsert [] l.

Fixpoint id_pairs_from (k : nat) (l : list item) : list (Z * nat) :=
  match l with
  | [] => []
  | it :: r => match fid it with
               | Some i => (i, k) :: id_pairs_from (S k) r
               | None => id_pairs_from (S k) r
               end
  end.
Definition mk_table (l : list item) : list (Z * nat) := isort (id_pairs_from 0 l).

Fixpoint first_ge (x : Z) (t : list (Z * nat)) : option (Z * nat) :=
  match t with [] => None | y :: r => if (x <=? fst y)%Z then Some y else first_ge x r end.
Definition table_lookup (x : Z) (t : list (Z * nat)) : option nat :=
  match first_ge x t with
  | Some (k, idx) => if (k =? x)%Z then Some idx else None
  | None => None
  end.

(* ------------------------------------------------------------------------------------------- *)
(* locating an index: _load_trajectory                                                          *)
(* ------------------------------------------------------------------------------------------- *)
Fixpoint bisect_left (l : list nat) (v : nat) : nat :=
  match l with [] => 0 | x :: r => if v <=? x then 0 else S (bisect_left r v) end.
Fixpoint cum_from (acc : nat) (l : list nat) : list nat :=
  match l with [] => [] | x :: r => (acc + x) :: cum_from (acc + x) r end.
Definition cum (l : list nat) := cum_from 0 l.

(* a netCDF variable read at a Python index: negative indices count from the current end *)
Definition nc_read (items : list item) (g : Z) : option item :=
  let L := Z.of_nat (length items) in
  let pos := if (g <? 0)%Z then (L + g)%Z else g in
  if (pos <? 0)%Z then None else nth_error items (Z.to_nat pos).

Definition nc_load (parts : list (list item)) (snap : option (list nat)) (i : nat) : option item :=
  match snap with
  | None => nc_read (hd [] parts) (Z.of_nat i)
  | Some cm =>
      let k := bisect_left cm (S i) in
      match nth_error cm k, nth_error parts k with
      | Some c, Some part => nc_read part (Z.of_nat i - Z.of_nat c)
      | _, _ => None
      end
  end.

(* ------------------------------------------------------------------------------------------- *)
(* handles, worlds, operations, outputs                                                         *)
(* ------------------------------------------------------------------------------------------- *)
Inductive mode := MRead | MCreate | MAppend.
Inductive source := SrcMem (cap : nat) | SrcFile (p : path) | SrcMerged (p : path).

Record handle := mkH {
  h_src : source;
  h_mode : mode;
  h_next : nat;
  h_cache : list (nat * item);      (* file-backed stores: the LRU cache                        *)
  h_mem : list item;                (* in-memory store: the trajectories themselves (never evicted) *)
  h_snap : option (list nat);       (* NcFiles.size_index                                       *)
  h_indexable : option bool;
  h_stale : bool;
  h_pending : bool;                 (* _file_creation_pending                                   *)
  h_msig : option Z;                (* field sets of the prototype item of an in-memory store    *)
  h_cap : option nat;               (* file-backed stores: capacity of the LRU cache (None: never reached) *)
  h_used : nat;                     (* in-memory store: sum of the sizes of the trajectories held *)
  h_iters : list (nat * nat)        (* live iterators of this store: (iterator, cursor) — each has its OWN cursor *)
}.

Record world := mkW { w_fs : fsys; w_h : option handle }.

Inductive op :=
  | Create (p : path) (cap : option nat)
  | CreateMem (cap : nat)
  | OpenR (p : path) (cap : option nat)
  | OpenA (p : path) (cap : option nat)
  | Add (t : traj)
  | Get (i : nat)
  | Len
  | Iter (keeps : list (list nat))
  | Sync
  | Close
  | GetFlight (id : Z)
  | Evict (keep : list nat)
  | Merge (out : path) (ins : list path) (fault : option nat)
  (* associated stores.  [Inject p vals]: a closed store file holding one non-base field set with the records
     [vals] appears at p (written by a create session with associated_files elsewhere; how it is written is C03's
     subject).  [GetA i assocs]: __getitem__ on a store opened together with the merged associated stores
     [assocs]: the base payload and, per associated store, the record located through THAT store's own
     cumulative size table.  (Merged directories cannot change while a handle is open, so the tables the real
     handle computed when it was opened are the ones recomputed here.) *)
  | Inject (p : path) (vals : list Z)
  | GetA (i : nat) (assocs : list path)
  (* iterators: iter(store) creates (or restarts) iterator k with its own cursor; next(it) advances only that one *)
  | IterNew (k : nat)
  | IterNext (k : nat).

Inductive err :=
  | ENoHandle | EBusy | EExists | EMissing | ENotWritable | EIndex | EFull | ETooLarge
  | ESchema | EIdUse | ERequired | EReject
  | ENotIndexable | ECorrupt | EKeyBase | EAssert
  | ENotNc | EBadExt | EDupNames | EFieldsets | EIdMix | EMergedAppend | EOpenFail | ENoMeta | EBadMeta
  | ECrash.

Inductive out :=
  | OUnit
  | OIdx (n : nat)
  | OItem (t : Z)
  | OItems (l : list Z) (e : option err)
  | OLen (n : nat)
  | ONone
  | OErr (e : err)
  | OItemA (t : Z) (vs : list Z)
  | OStop.                           (* StopIteration *)

(* the property does not say WHICH error a rejected trajectory / refused merge is reported with *)
Definition coarse (o : out) : out :=
  match o with
  | OErr ESchema | OErr EIdUse | OErr ERequired => OErr EReject
  | _ => o
  end.

(* ------------------------------------------------------------------------------------------- *)
(* cache                                                                                       *)
(* ------------------------------------------------------------------------------------------- *)
Definition cache_get (c : list (nat * item)) (i : nat) : option item := @alookup nat item Nat.eqb i c.
Definition evict (keep : list nat) (c : list (nat * item)) : list (nat * item) :=
  filter (fun e => existsb (Nat.eqb (fst e)) keep) c.

Definition set_cache (h : handle) (c : list (nat * item)) : handle :=
  mkH (h_src h) (h_mode h) (h_next h) c (h_mem h) (h_snap h) (h_indexable h) (h_stale h) (h_pending h) (h_msig h) (h_cap h) (h_used h) (h_iters h).
Definition set_stale (h : handle) (b : bool) : handle :=
  mkH (h_src h) (h_mode h) (h_next h) (h_cache h) (h_mem h) (h_snap h) (h_indexable h) b (h_pending h) (h_msig h) (h_cap h) (h_used h) (h_iters h).

(* the member files of a merged directory, in the order listed by metadata.json *)
Fixpoint listed_members (d : mdir) (stores : list (nat * nat)) : option (list ncfile) :=
  match stores with
  | [] => Some []
  | (nm, _) :: r =>
      match mlookup nm (d_members d), listed_members d r with
      | Some f, Some fs => Some (f :: fs)
      | _, _ => None
      end
  end.

Definition merged_parts (fs : fsys) (p : path) : option (list ncfile) :=
  match flookup p fs with
  | Some (NDir d) => match d_meta d with MtFull st => listed_members d st | _ => None end
  | _ => None
  end.

Definition sum_len (l : list ncfile) : nat := fold_right (fun f a => length (f_items f) + a) 0 l.

(* ------------------------------------------------------------------------------------------- *)
(* reads                                                                                       *)
(* ------------------------------------------------------------------------------------------- *)
Definition store_len (fs : fsys) (h : handle) : nat :=
  match h_src h with
  | SrcMem _ => length (h_mem h)
  | SrcFile p =>
      if h_pending h then length (h_cache h)
      else match flookup p fs with Some (NFile f) => length (f_items f) | _ => 0 end
  | SrcMerged p => match merged_parts fs p with Some l => sum_len l | None => 0 end
  end.

(* __getitem__: the payload, or the error; the cache is updated on a miss that loads *)
(* does a value of this size fit the LRU cache of a file-backed handle at all? *)
Definition fits (h : handle) (sz : nat) : bool :=
  match h_cap h with Some cp => sz <=? cp | None => true end.

(* a trajectory just loaded from the files: cached if it fits; if it is larger than the whole cache the repaired code
   hands it back uncached, the code as found lets cachetools raise "value too large" *)
Definition loaded (c : cfg) (h : handle) (i : nat) (x : item) : handle * (Z + err) :=
  if whole x then
    if fits h (isize x) then (set_cache h ((i, x) :: h_cache h), inl (tag x))
    else if fix_C07a c then (h, inl (tag x)) else (h, inr ETooLarge)
  else (h, inr ECorrupt).

Definition get_item (c : cfg) (fs : fsys) (h : handle) (i : nat) : handle * (Z + err) :=
  match h_src h with
  | SrcMem _ =>
      match nth_error (h_mem h) i with Some x => (h, inl (tag x)) | None => (h, inr EIndex) end
  | SrcFile p =>
      match cache_get (h_cache h) i with
      | Some x => (h, inl (tag x))
      | None =>
          if h_pending h then (h, inr EIndex)
          else match flookup p fs with
               | Some (NFile f) =>
                   match nc_load [f_items f] (h_snap h) i with
                   | Some x => loaded c h i x
                   | None => (h, inr EIndex)
                   end
               | _ => (h, inr EAssert)
               end
      end
  | SrcMerged p =>
      match cache_get (h_cache h) i with
      | Some x => (h, inl (tag x))
      | None =>
          match merged_parts fs p with
          | Some l =>
              match nc_load (map f_items l) (h_snap h) i with
              | Some x => loaded c h i x
              | None => (h, inr EIndex)
              end
          | None => (h, inr EAssert)
          end
      end
  end.

Definition do_evict (keep : list nat) (h : handle) : handle :=
  match h_src h with SrcMem _ => h | _ => set_cache h (evict keep (h_cache h)) end.

Fixpoint iter_go (c : cfg) (fs : fsys) (h : handle) (idxs : list nat) (keeps : list (list nat)) (acc : list Z)
  : handle * out :=
  match idxs with
  | [] => (h, OItems (rev acc) None)
  | i :: r =>
      match get_item c fs h i with
      | (h1, inl x) =>
          let h2 := match keeps with k :: _ => do_evict k h1 | [] => h1 end in
          iter_go c fs h2 r (tl keeps) (x :: acc)
      | (h1, inr e) => (h1, OItems (rev acc) (Some e))
      end
  end.

(* ------------------------------------------------------------------------------------------- *)
(* _reindex                                                                                    *)
(* ------------------------------------------------------------------------------------------- *)
Definition reindex (c : cfg) (fs : fsys) (h : handle) : (fsys * handle) + err :=
  match h_indexable h, h_stale h with
  | Some true, true =>
      match h_src h with
      | SrcMem _ => if fix_F8 c then inl (fs, h) else inr EKeyBase
      | SrcFile p =>
          match flookup p fs with
          | Some (NFile f) =>
              if f_hasidx f
              then inl (fupd p (NFile (mkNc (f_items f) (f_sig f) true (mk_table (f_items f)))) fs,
                        set_stale h false)
              else inr EAssert
          | _ => inr EAssert
          end
      | SrcMerged _ => inr EAssert
      end
  | _, _ => inl (fs, h)
  end.

(* ------------------------------------------------------------------------------------------- *)
(* add                                                                                         *)
(* ------------------------------------------------------------------------------------------- *)
Definition store_sig (fs : fsys) (h : handle) : option Z :=
  match h_src h with
  | SrcMem _ => h_msig h
  | SrcFile p => if h_pending h then None
                 else match flookup p fs with Some (NFile f) => Some (f_sig f) | _ => None end
  | SrcMerged _ => None
  end.

Definition holds_items (h : handle) : bool :=
  match h_src h with SrcMem _ => negb (Nat.eqb (length (h_mem h)) 0) | _ => negb (Nat.eqb (length (h_cache h)) 0) end.

Definition item_of (t : traj) (ok : bool) : item :=
  mkItem (t_tag t) (if ok then t_fid t else None) ok (t_size t).

(* the state change of an insertion: counter, cache / memory, file creation, file write *)
Definition insert (fs : fsys) (h : handle) (t : traj) (ok : bool) : fsys * handle :=
  let idx := h_next h in
  let ix := match h_indexable h with Some b => b | None => has_id t end in
  let stale := if ok then (if ix then true else h_stale h) else h_stale h in
  match h_src h with
  | SrcMem cap =>
      (fs, mkH (h_src h) (h_mode h) (S idx) (h_cache h) (h_mem h ++ [mkItem (t_tag t) (t_fid t) ok (t_size t)])
               (h_snap h) (Some ix) stale (h_pending h)
               (match h_msig h with Some s => Some s | None => Some (t_sig t) end) (h_cap h) (h_used h + t_size t) (h_iters h))
  | SrcFile p =>
      let f0 := if h_pending h then mkNc [] (t_sig t) ix []
                else match flookup p fs with Some (NFile f) => f | _ => mkNc [] (t_sig t) ix [] end in
      let f1 := mkNc (f_items f0 ++ [item_of t ok]) (f_sig f0) (f_hasidx f0) (f_table f0) in
      (fupd p (NFile f1) fs,
       mkH (h_src h) (h_mode h) (S idx)
           (if fits h (t_size t) then (idx, mkItem (t_tag t) (t_fid t) ok (t_size t)) :: h_cache h else h_cache h) (h_mem h)
           (h_snap h) (Some ix) stale false (h_msig h) (h_cap h) (h_used h) (h_iters h))
  | SrcMerged _ => (fs, h)
  end.

Definition set_indexable (h : handle) (b : option bool) : handle :=
  mkH (h_src h) (h_mode h) (h_next h) (h_cache h) (h_mem h) (h_snap h) b (h_stale h) (h_pending h) (h_msig h) (h_cap h) (h_used h) (h_iters h).

Definition cache_cap (h : handle) : option nat :=
  match h_src h with SrcMem cap => Some cap | _ => h_cap h end.

Definition set_iters (h : handle) (its : list (nat * nat)) : handle :=
  mkH (h_src h) (h_mode h) (h_next h) (h_cache h) (h_mem h) (h_snap h) (h_indexable h) (h_stale h) (h_pending h) (h_msig h)
      (h_cap h) (h_used h) its.

Definition add (c : cfg) (fs : fsys) (h : handle) (t : traj) : fsys * handle * out :=
  match h_mode h with
  | MRead => (fs, h, OErr ENotWritable)
  | _ =>
      (* field sets: repaired code compares with the open files (or the in-memory prototype);
         as found, only when some item happens to be cached *)
      let schema_checked := if fix_C10a c then true else holds_items h in
      let schema_bad := match store_sig fs h with
                        | Some s => schema_checked && negb (Z.eqb s (t_sig t))
                        | None => false
                        end in
      if schema_bad then (fs, h, OErr ESchema)
      else
        let id_bad := match h_indexable h with Some b => negb (Bool.eqb b (has_id t)) | None => false end in
        if id_bad then (fs, h, OErr EIdUse)
        else
          (* the cache insertion: cachetools refuses a value larger than the whole cache ("value too large"),
             then an in-memory store refuses to evict *)
          let toolarge := match h_src h with
                          | SrcMem cap => cap <? t_size t
                          | _ => if fix_C07b c then false
                                 else match h_cap h with Some cp => cp <? t_size t | None => false end
                          end in
          let full := match h_src h with SrcMem cap => cap <? h_used h + t_size t | _ => false end in
          match t_kind t with
          | TMissingReq =>
              if fix_F6 c then (fs, h, OErr ERequired)
              else
                (* as found: the indexability decision is already taken, the item is cached and
                   counted, the file is created and partly written, then the check raises *)
                let h0 := match h_indexable h with Some _ => h | None => set_indexable h (Some (has_id t)) end in
                if toolarge then (fs, h0, OErr ETooLarge)
                else if full then (fs, h0, OErr EFull)
                else match h_src h with
                     | SrcMem _ =>
                         (* an in-memory store writes nothing, so nothing ever checks: accepted *)
                         let '(fs1, h1) := insert fs h0 t true in (fs1, h1, OIdx (h_next h))
                     | _ => let '(fs1, h1) := insert fs h0 t false in (fs1, h1, OErr ERequired)
                     end
          | TOk =>
              if toolarge then
                (fs, (if fix_F6 c then h
                      else match h_indexable h with Some _ => h | None => set_indexable h (Some (has_id t)) end),
                 OErr ETooLarge)
              else if full then
                (fs, (if fix_F6 c then h
                      else match h_indexable h with Some _ => h | None => set_indexable h (Some (has_id t)) end),
                 OErr EFull)
              else let '(fs1, h1) := insert fs h t true in (fs1, h1, OIdx (h_next h))
          end
  end.

(* ------------------------------------------------------------------------------------------- *)
(* get_flight                                                                                  *)
(* ------------------------------------------------------------------------------------------- *)
Fixpoint mem_find (id : Z) (l : list item) : option Z :=
  match l with
  | [] => None
  | x :: r => match fid x with
              | Some i => if (i =? id)%Z then Some (tag x) else mem_find id r
              | None => mem_find id r
              end
  end.

Definition get_flight (c : cfg) (fs : fsys) (h : handle) (id : Z) : fsys * handle * out :=
  match h_indexable h with
  | Some true =>
      match reindex c fs h with
      | inr e => (fs, h, OErr e)
      | inl (fs1, h1) =>
          match h_src h1 with
          | SrcMem _ =>
              if fix_F8 c then
                (fs1, h1, match mem_find id (h_mem h1) with Some t => OItem t | None => ONone end)
              else (fs1, h1, OErr EAssert)
          | SrcFile p =>
              match flookup p fs1 with
              | Some (NFile f) =>
                  if f_hasidx f then
                    match table_lookup id (f_table f) with
                    | Some idx => let '(h2, r) := get_item c fs1 h1 idx in
                                  (fs1, h2, match r with inl t => OItem t | inr e => OErr e end)
                    | None => (fs1, h1, ONone)
                    end
                  else (fs1, h1, OErr EAssert)
              | _ => (fs1, h1, OErr EAssert)
              end
          | SrcMerged p =>
              match flookup p fs1 with
              | Some (NDir d) =>
                  match d_index d with
                  | IxFull tb =>
                      match table_lookup id tb with
                      | Some idx => let '(h2, r) := get_item c fs1 h1 idx in
                                    (fs1, h2, match r with inl t => OItem t | inr e => OErr e end)
                      | None => (fs1, h1, ONone)
                      end
                  | _ => (fs1, h1, OErr EAssert)
                  end
              | _ => (fs1, h1, OErr EAssert)
              end
          end
      end
  | _ => (fs, h, OErr ENotIndexable)
  end.

(* ------------------------------------------------------------------------------------------- *)
(* opening                                                                                     *)
(* ------------------------------------------------------------------------------------------- *)
Definition open_file (c : cfg) (p : path) (f : ncfile) (m : mode) (cap : option nat) : handle :=
  mkH (SrcFile p) m
      (match m with MAppend => length (f_items f) | _ => 0 end)
      [] []
      (if fix_F5 c then None else Some [length (f_items f)])
      (if f_hasidx f then Some true else if fix_C08a c then Some false else None)
      false false None cap 0 [].

Definition open_merged (fs : fsys) (p : path) (d : mdir) (cap : option nat) : handle + err :=
  match pext p with
  | XStore =>
      match d_meta d with
      | MtAbsent => inr ENoMeta
      | MtEmpty => inr EBadMeta
      | MtFull st =>
          match st with
          | [] => inr EBadMeta
          | _ =>
            match listed_members d st with
            | None => inr EOpenFail
            | Some l =>
                match d_index d with
                | IxEmpty => inr EOpenFail
                | ix =>
                    inl (mkH (SrcMerged p) MRead 0 [] []
                             (Some (cum (map (fun f => length (f_items f)) l)))
                             (match ix with IxFull _ => Some true | _ => None end)
                             false false None cap 0 [])
                end
            end
          end
      end
  | _ => inr EBadExt
  end.

(* ------------------------------------------------------------------------------------------- *)
(* merge, call by call                                                                         *)
(* ------------------------------------------------------------------------------------------- *)
Inductive mstep :=
  | SCheckArgs | SMkdir | SOpen (j : nat) | SIdCheck | SRename (j : nat)
  | SIndexCreate | SIndexRead (j : nat) | SIndexFill | SMetaOpen | SMetaDump.

(* steps that are calls the harness can make fail (os.mkdir, nc4.Dataset, os.rename, open, json.dump) *)
Definition is_call (s : mstep) : bool :=
  match s with SCheckArgs | SIdCheck | SIndexFill => false | _ => true end.

Definition in_file (fs : fsys) (p : path) : option ncfile :=
  match flookup p fs with Some (NFile f) => Some f | _ => None end.

Definition all_indexed (fs0 : fsys) (ins : list path) : bool :=
  forallb (fun p => match in_file fs0 p with Some f => f_hasidx f | None => false end) ins.
Definition any_indexed (fs0 : fsys) (ins : list path) : bool :=
  existsb (fun p => match in_file fs0 p with Some f => f_hasidx f | None => false end) ins.

Fixpoint nodup_nat (l : list nat) : bool :=
  match l with [] => true | x :: r => negb (existsb (Nat.eqb x) r) && nodup_nat r end.

Fixpoint check_inputs (fs : fsys) (ins : list path) : option err :=
  match ins with
  | [] => None
  | p :: r => match flookup p fs with
              | None => Some EMissing
              | Some _ => match pext p with XNc => check_inputs fs r | _ => Some ENotNc end
              end
  end.

Definition check_args (c : cfg) (fs : fsys) (outp : path) (ins : list path) : option err :=
  match check_inputs fs ins with
  | Some e => Some e
  | None =>
      match pext outp with
      | XStore =>
          match flookup outp fs with
          | Some _ => Some EExists
          | None => if fix_C09a c && negb (nodup_nat (map pbase ins)) then Some EDupNames else None
          end
      | _ => Some EBadExt
      end
  end.

Definition seqn (n : nat) : list nat := seq 0 n.

Definition merge_plan (c : cfg) (fs0 : fsys) (ins : list path) : list mstep :=
  let n := length ins in
  let validate := map SOpen (seqn n) ++ [SIdCheck] in
  let head := if fix_F7 c then [SCheckArgs] ++ validate ++ [SMkdir]
              else [SCheckArgs; SMkdir] ++ validate in
  head ++ map SRename (seqn n)
       ++ (if all_indexed fs0 ins then [SIndexCreate] ++ map SIndexRead (seqn n) ++ [SIndexFill] else [])
       ++ [SMetaOpen; SMetaDump].

Definition empty_dir := mkDir [] IxAbsent MtAbsent.

Definition with_dir (fs : fsys) (outp : path) (k : mdir -> mdir + err) : fsys + err :=
  match flookup outp fs with
  | Some (NDir d) => match k d with inl d' => inl (fupd outp (NDir d') fs) | inr e => inr e end
  | _ => inr EMissing
  end.

(* the merged index: every input's own table, shifted by the lengths of the inputs before it *)
Fixpoint merged_pairs (off : nat) (l : list ncfile) : list (Z * nat) :=
  match l with
  | [] => []
  | f :: r => map (fun e => (fst e, snd e + off)) (f_table f) ++ merged_pairs (off + length (f_items f)) r
  end.

Fixpoint members_of (d : mdir) (names : list nat) : option (list ncfile) :=
  match names with
  | [] => Some []
  | nm :: r => match mlookup nm (d_members d), members_of d r with
               | Some f, Some l => Some (f :: l)
               | _, _ => None
               end
  end.

Definition exec_step (c : cfg) (fs0 : fsys) (outp : path) (ins : list path) (fs : fsys) (s : mstep)
  : fsys + err :=
  match s with
  | SCheckArgs => match check_args c fs outp ins with Some e => inr e | None => inl fs end
  | SMkdir => match flookup outp fs with Some _ => inr EExists | None => inl (fupd outp (NDir empty_dir) fs) end
  | SOpen j =>
      match nth_error ins j with
      | None => inr EAssert
      | Some p =>
          match flookup p fs with
          | None => inr EMissing
          | Some (NDir _) => inr EOpenFail
          | Some (NFile f) =>
              match nth_error ins 0 with
              | Some p0 => match in_file fs0 p0 with
                           | Some f0 => if Z.eqb (f_sig f0) (f_sig f) then inl fs else inr EFieldsets
                           | None => inl fs
                           end
              | None => inl fs
              end
          end
      end
  | SIdCheck => if Bool.eqb (all_indexed fs0 ins) (any_indexed fs0 ins) then inl fs else inr EIdMix
  | SRename j =>
      match nth_error ins j with
      | None => inr EAssert
      | Some p =>
          match flookup p fs with
          | Some (NFile f) =>
              match with_dir fs outp (fun d => inl (mkDir (mupd (pbase p) f (d_members d)) (d_index d) (d_meta d))) with
              | inl fs1 => inl (fremove p fs1)
              | inr e => inr e
              end
          | _ => inr EMissing
          end
      end
  | SIndexCreate => with_dir fs outp (fun d => inl (mkDir (d_members d) IxEmpty (d_meta d)))
  | SIndexRead j =>
      match nth_error ins j with
      | None => inr EAssert
      | Some p => with_dir fs outp (fun d => match mlookup (pbase p) (d_members d) with
                                            | Some _ => inl d | None => inr EMissing end)
      end
  | SIndexFill =>
      with_dir fs outp (fun d => match members_of d (map pbase ins) with
                                | Some l => inl (mkDir (d_members d) (IxFull (isort (merged_pairs 0 l))) (d_meta d))
                                | None => inr EMissing
                                end)
  | SMetaOpen => with_dir fs outp (fun d => inl (mkDir (d_members d) (d_index d) MtEmpty))
  | SMetaDump =>
      with_dir fs outp (fun d =>
        inl (mkDir (d_members d) (d_index d)
                   (MtFull (map (fun p => (pbase p, match in_file fs0 p with
                                                    | Some f => length (f_items f) | None => 0 end)) ins))))
  end.

(* [budget] = Some k: the (k+1)-th call raises before taking effect *)
Fixpoint run_steps (c : cfg) (fs0 : fsys) (outp : path) (ins : list path) (steps : list mstep) (fs : fsys)
                   (budget : option nat) : fsys * out :=
  match steps with
  | [] => (fs, OUnit)
  | s :: r =>
      let go b := match exec_step c fs0 outp ins fs s with
                  | inl fs1 => run_steps c fs0 outp ins r fs1 b
                  | inr e => (fs, OErr e)
                  end in
      if is_call s then
        match budget with
        | Some 0 => (fs, OErr ECrash)
        | Some (S b) => go (Some b)
        | None => go None
        end
      else go budget
  end.

Definition merge_run (c : cfg) (fs : fsys) (outp : path) (ins : list path) (fault : option nat) : fsys * out :=
  run_steps c fs outp ins (merge_plan c fs ins) fs fault.

(* ------------------------------------------------------------------------------------------- *)
(* associated merged stores: every field set is located through its own store's size table       *)
(* ------------------------------------------------------------------------------------------- *)
Definition col_value (fs : fsys) (p : path) (i : nat) : option Z :=
  match merged_parts fs p with
  | Some l => option_map tag (nc_load (map f_items l) (Some (cum (map (fun f => length (f_items f)) l))) i)
  | None => None
  end.

Fixpoint col_values (fs : fsys) (ps : list path) (i : nat) : option (list Z) :=
  match ps with
  | [] => Some []
  | p :: r => match col_value fs p i, col_values fs r i with
              | Some v, Some vs => Some (v :: vs)
              | _, _ => None
              end
  end.

Definition assoc_sig : Z := 2.

(* ------------------------------------------------------------------------------------------- *)
(* the step function of the world                                                              *)
(* ------------------------------------------------------------------------------------------- *)
Definition new_file_handle (p : path) (cap : option nat) : handle :=
  mkH (SrcFile p) MCreate 0 [] [] None None false true None cap 0 [].
Definition new_mem_handle (cap : nat) : handle :=
  mkH (SrcMem cap) MCreate 0 [] [] None None false false None None 0 [].

Definition step (c : cfg) (w : world) (o : op) : world * out :=
  let fs := w_fs w in
  match o, w_h w with
  | Create p cap, None =>
      match flookup p fs with
      | Some _ => (w, OErr EExists)
      | None => (mkW fs (Some (new_file_handle p cap)), OUnit)
      end
  | CreateMem cap, None => (mkW fs (Some (new_mem_handle cap)), OUnit)
  | OpenR p cap, None =>
      match flookup p fs with
      | None => (w, OErr EMissing)
      | Some (NFile f) => (mkW fs (Some (open_file c p f MRead cap)), OUnit)
      | Some (NDir d) => match open_merged fs p d cap with
                         | inl h => (mkW fs (Some h), OUnit)
                         | inr e => (w, OErr e)
                         end
      end
  | OpenA p cap, None =>
      match flookup p fs with
      | None => (w, OErr EMissing)
      | Some (NFile f) => (mkW fs (Some (open_file c p f MAppend cap)), OUnit)
      | Some (NDir _) => (w, OErr EMergedAppend)
      end
  | Merge outp ins fault, None =>
      let '(fs1, r) := merge_run c fs outp ins fault in (mkW fs1 None, r)
  | Inject p vals, None =>
      match flookup p fs with
      | Some _ => (w, OErr EExists)
      | None => (mkW (fupd p (NFile (mkNc (map (fun v => mkItem v None true 1) vals) assoc_sig false [])) fs) None, OUnit)
      end
  | (Create _ _ | CreateMem _ | OpenR _ _ | OpenA _ _ | Merge _ _ _ | Inject _ _), Some _ => (w, OErr EBusy)
  | _, None => (w, OErr ENoHandle)
  | IterNew k, Some h => (mkW fs (Some (set_iters h (@aupd nat nat Nat.eqb k 0 (h_iters h)))), OUnit)
  | IterNext k, Some h =>
      match @alookup nat nat Nat.eqb k (h_iters h) with
      | None => (w, OErr ENoHandle)
      | Some cur =>
          if cur <? store_len fs h then
            let '(h1, r) := get_item c fs h cur in
            match r with
            | inl t => (mkW fs (Some (set_iters h1 (@aupd nat nat Nat.eqb k (S cur) (h_iters h1)))), OItem t)
            | inr e => (mkW fs (Some h1), OErr e)
            end
          else (w, OStop)
      end
  | GetA i ps, Some h =>
      let '(h1, r) := get_item c fs h i in
      (mkW fs (Some h1),
       match r with
       | inl t => match col_values fs ps i with Some vs => OItemA t vs | None => OErr EIndex end
       | inr e => OErr e
       end)
  | Add t, Some h => let '(fs1, h1, r) := add c fs h t in (mkW fs1 (Some h1), r)
  | Get i, Some h =>
      let '(h1, r) := get_item c fs h i in
      (mkW fs (Some h1), match r with inl t => OItem t | inr e => OErr e end)
  | Len, Some h => (w, OLen (store_len fs h))
  | Iter keeps, Some h =>
      let '(h1, r) := iter_go c fs h (seqn (store_len fs h)) keeps [] in (mkW fs (Some h1), r)
  | Sync, Some h =>
      match h_mode h with
      | MRead => (w, OErr ENotWritable)
      | _ => match reindex c fs h with
             | inl (fs1, h1) => (mkW fs1 (Some h1), OUnit)
             | inr e => (w, OErr e)
             end
      end
  | Close, Some h =>
      match reindex c fs h with
      | inl (fs1, _) => (mkW fs1 None, OUnit)
      | inr e => (w, OErr e)
      end
  | GetFlight id, Some h => let '(fs1, h1, r) := get_flight c fs h id in (mkW fs1 (Some h1), r)
  | Evict keep, Some h => (mkW fs (Some (do_evict keep h)), OUnit)
  end.

Fixpoint run (c : cfg) (w : world) (ops : list op) : world * list out :=
  match ops with
  | [] => (w, [])
  | o :: r => let '(w1, x) := step c w o in let '(w2, xs) := run c w1 r in (w2, x :: xs)
  end.

Definition empty_world := mkW [] None.

(* ------------------------------------------------------------------------------------------- *)
(* the specification: per path an append-only list, lookup = first item carrying the identifier *)
(* ------------------------------------------------------------------------------------------- *)
Definition sitem := (Z * option Z)%type.                    (* payload tag, flight id *)
Record sstore := mkS { ss_items : list sitem; ss_sig : Z; ss_ident : bool }.
Inductive sloc := SLMem (items : list sitem) (cap : nat) (def : option (Z * bool)) (used : nat) | SLFile (p : path).
Record shandle := mkSH { sh_loc : sloc; sh_mode : mode; sh_cap : option nat; sh_iters : list (nat * nat) }.
Record sworld := mkSW { s_fs : list (path * sstore); s_h : option shandle }.

Definition slookup := @alookup path sstore path_eqb.
Definition supd := @aupd path sstore path_eqb.

Fixpoint sfind (id : Z) (l : list sitem) : option Z :=
  match l with
  | [] => None
  | (t, Some i) :: r => if (i =? id)%Z then Some t else sfind id r
  | (_, None) :: r => sfind id r
  end.

Definition s_items (s : sworld) (h : shandle) : list sitem :=
  match sh_loc h with
  | SLMem items _ _ _ => items
  | SLFile p => match slookup p (s_fs s) with Some st => ss_items st | None => [] end
  end.

Definition s_def (s : sworld) (h : shandle) : option (Z * bool) :=
  match sh_loc h with
  | SLMem _ _ def _ => def
  | SLFile p => match slookup p (s_fs s) with Some st => Some (ss_sig st, ss_ident st) | None => None end
  end.

Definition acceptable (def : option (Z * bool)) (t : traj) : bool :=
  match t_kind t with
  | TMissingReq => false
  | TOk => match def with
           | Some (sg, ident) => Z.eqb sg (t_sig t) && Bool.eqb ident (has_id t)
           | None => true
           end
  end.

Definition spec_step (s : sworld) (o : op) : sworld * out :=
  match o, s_h s with
  | Create p cap, None =>
      match slookup p (s_fs s) with
      | Some _ => (s, OErr EExists)
      | None => (mkSW (s_fs s) (Some (mkSH (SLFile p) MCreate cap [])), OUnit)
      end
  | CreateMem cap, None => (mkSW (s_fs s) (Some (mkSH (SLMem [] cap None 0) MCreate None [])), OUnit)
  | OpenR p cap, None =>
      match slookup p (s_fs s) with
      | None => (s, OErr EMissing)
      | Some _ => (mkSW (s_fs s) (Some (mkSH (SLFile p) MRead cap [])), OUnit)
      end
  | OpenA p cap, None =>
      match slookup p (s_fs s) with
      | None => (s, OErr EMissing)
      | Some _ => (mkSW (s_fs s) (Some (mkSH (SLFile p) MAppend cap [])), OUnit)
      end
  | Merge _ _ _, None => (s, OUnit)       (* merges are specified separately (C09 / C10) *)
  | Inject _ _, None => (s, OUnit)        (* so are associated stores (C09) *)
  | (Create _ _ | CreateMem _ | OpenR _ _ | OpenA _ _ | Merge _ _ _ | Inject _ _), Some _ => (s, OErr EBusy)
  | _, None => (s, OErr ENoHandle)
  | GetA _ _, Some _ => (s, OUnit)
  | IterNew k, Some h =>
      (mkSW (s_fs s) (Some (mkSH (sh_loc h) (sh_mode h) (sh_cap h) (@aupd nat nat Nat.eqb k 0 (sh_iters h)))), OUnit)
  | IterNext k, Some h =>
      match @alookup nat nat Nat.eqb k (sh_iters h) with
      | None => (s, OErr ENoHandle)
      | Some cur =>
          (* every iterator walks the list with its own cursor, whatever the other iterators do *)
          match nth_error (s_items s h) cur with
          | Some (t, _) =>
              (mkSW (s_fs s) (Some (mkSH (sh_loc h) (sh_mode h) (sh_cap h) (@aupd nat nat Nat.eqb k (S cur) (sh_iters h)))),
               OItem t)
          | None => (s, OStop)
          end
      end
  | Add t, Some h =>
      match sh_mode h with
      | MRead => (s, OErr ENotWritable)
      | m =>
          if acceptable (s_def s h) t then
            match sh_loc h with
            | SLMem items cap def used =>
                (* a trajectory larger than the whole store, or one that does not fit any more, is refused *)
                if cap <? t_size t then (s, OErr ETooLarge)
                else if cap <? used + t_size t then (s, OErr EFull)
                else (mkSW (s_fs s)
                           (Some (mkSH (SLMem (items ++ [(t_tag t, t_fid t)]) cap
                                              (match def with Some d => Some d | None => Some (t_sig t, has_id t) end)
                                              (used + t_size t)) m (sh_cap h) (sh_iters h))),
                      OIdx (length items))
            | SLFile p =>
                let st := match slookup p (s_fs s) with
                          | Some st => st
                          | None => mkS [] (t_sig t) (has_id t)
                          end in
                (mkSW (supd p (mkS (ss_items st ++ [(t_tag t, t_fid t)]) (ss_sig st) (ss_ident st)) (s_fs s))
                      (Some h),
                 OIdx (length (ss_items st)))
            end
          else (s, OErr EReject)
      end
  | Get i, Some h =>
      (s, match nth_error (s_items s h) i with Some (t, _) => OItem t | None => OErr EIndex end)
  | Len, Some h => (s, OLen (length (s_items s h)))
  | Iter _, Some h => (s, OItems (map fst (s_items s h)) None)
  | Sync, Some h => (s, match sh_mode h with MRead => OErr ENotWritable | _ => OUnit end)
  | Close, Some _ => (mkSW (s_fs s) None, OUnit)
  | GetFlight id, Some h =>
      (s, match s_def s h with
          | Some (_, true) => match sfind id (s_items s h) with Some t => OItem t | None => ONone end
          | _ => OErr ENotIndexable
          end)
  | Evict _, Some _ => (s, OUnit)
  end.

Fixpoint spec_run (s : sworld) (ops : list op) : sworld * list out :=
  match ops with
  | [] => (s, [])
  | o :: r => let '(s1, x) := spec_step s o in let '(s2, xs) := spec_run s1 r in (s2, x :: xs)
  end.

(* ------------------------------------------------------------------------------------------- *)
(* observation of a file system (for the crash / refusal correspondence)                        *)
(* ------------------------------------------------------------------------------------------- *)
Definition ext_code (e : ext) : Z := match e with XNc => 0 | XStore => 1 | XOther => 2 end.
Inductive nview :=
  | VFile (tags : list Z)
  | VDir (members : list (nat * list Z)) (index : Z) (meta : option (list (nat * nat))) (meta_code : Z).
Definition view_node (n : node) : nview :=
  match n with
  | NFile f => VFile (map tag (f_items f))
  | NDir d => VDir (map (fun m => (fst m, map tag (f_items (snd m)))) (d_members d))
                   (match d_index d with IxAbsent => 0 | IxEmpty => 1 | IxFull _ => 2 end)
                   (match d_meta d with MtFull st => Some st | _ => None end)
                   (match d_meta d with MtAbsent => 0 | MtEmpty => 1 | MtFull _ => 2 end)
  end.
Definition view (fs : fsys) : list (nat * nat * Z * nview) :=
  map (fun e => (pdir (fst e), pbase (fst e), ext_code (pext (fst e)), view_node (snd e))) fs.

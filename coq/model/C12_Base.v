(* C12_Base — vocabulary shared by the hand model (C12_Model) and by the text regenerated from
   /repo (Gen.C12_Extracted): thrust modes, decimal literals, log10 / 10^x, numpy's 1-D interp. *)
From Coq Require Import ZArith Reals PrimFloat List Bool String.
From AV Require Import lib.Num lib.FloatMath.
Import ListNotations.

Inductive mode := Idle | Approach | Climb | Takeoff.

Definition mode_eqb (a b : mode) : bool :=
  match a, b with
  | Idle, Idle | Approach, Approach | Climb, Climb | Takeoff, Takeoff => true
  | _, _ => false
  end.

(* position in the ICAO ordering idle < approach < climb-out < take-off *)
Definition mode_rank (m : mode) : Z :=
  match m with Idle => 0 | Approach => 1 | Climb => 2 | Takeoff => 3 end.

Definition all_modes : list mode := [Idle; Approach; Climb; Takeoff].

Section Base.
  Context {N : Num}.
  Local Open Scope num_scope.

  (* the decimal literal n/d: exact rational for R, correctly rounded quotient for binary64
     (n and d below 2^53, so the IEEE quotient is the double nearest to n/d, i.e. what Python parses) *)
  Definition q (n d : Z) : T N := lit n d (PrimFloat.div (z2f n) (z2f d)).

  Definition ten : T N := q 10 1.
  Definition log10 (x : T N) : T N := nln x / nln ten.
  Definition pow10 (y : T N) : T N := npow ten y.

  Definition tmv : Type := (T N * T N * T N * T N)%type.
  Definition tget (v : tmv) (m : mode) : T N :=
    let '(a, b, c, d) := v in
    match m with Idle => a | Approach => b | Climb => c | Takeoff => d end.
  Definition tmap (f : T N -> T N) (v : tmv) : tmv :=
    let '(a, b, c, d) := v in (f a, f b, f c, f d).

  (* numpy.interp(x, xp, fp) for increasing xp: constant outside, linear inside,
     value slope*(x - xp[j]) + fp[j] on [xp[j], xp[j+1]) *)
  Fixpoint interp_from (x x0 y0 : T N) (rest : list (T N * T N)) : T N :=
    match rest with
    | [] => y0
    | (x1, y1) :: r =>
        if x <? x1 then (y1 - y0) / (x1 - x0) * (x - x0) + y0
        else interp_from x x1 y1 r
    end.
  Definition ninterp (x : T N) (pts : list (T N * T N)) : T N :=
    match pts with
    | [] => zero
    | (x0, y0) :: r =>
        if x =? x then (if x <=? x0 then y0 else interp_from x x0 y0 r)
        else x                                   (* binary64 only: a NaN abscissa gives NaN, as numpy does *)
    end.
End Base.

(* C19 — BADA-3 fuel-burn model (BADA/model.py, BADA/fuel_burn_base.py) over [Num].

   Part 1 (point-wise physics: ISA, engine models per engine type, drag polar, total-energy thrust with
   limiting and descent substitution) has the same text as what translator/c19_extract.py regenerates from
   the source on every run; link/C19_Link.v proves the regenerated text equal to it, definition by definition.
   Part 2 (specific ground range, cumulative-trapezoid mass updates, the four iteration drivers) is the
   hand-written reading of the vectorised numpy code, tied by correspondence.

   Switches for the two repairs proposed for this property (the harness detects which form the tree has):
     shift  : fuel-dependent drivers install the new initial mass by shifting the whole vector (repaired, F18)
              instead of overwriting mass[0] only (as coded);
     bwrev  : the backward update pairs reversed integrand with reversed segment lengths (repaired, FC19a)
              instead of the lengths in forward order (as coded). *)
From Coq Require Import ZArith PrimFloat List Bool.
From AV Require Import lib.Num.
Import ListNotations.

Inductive engine := Jet | Turboprop | Piston.

Record params (N : Num) := {
  p_c_f1 : T N; p_c_f2 : T N; p_c_fcr : T N; p_c_d0cr : T N; p_c_d2cr : T N; p_S_ref : T N;
  p_c_tc1 : T N; p_c_tc2 : T N; p_c_tc3 : T N; p_c_tc4 : T N; p_c_tc5 : T N; p_c_tcr : T N;
  p_c_tdes_low : T N; p_c_tdes_high : T N; p_h_p_des : T N }.
Arguments p_c_f1 {N}. Arguments p_c_f2 {N}. Arguments p_c_fcr {N}. Arguments p_c_d0cr {N}. Arguments p_c_d2cr {N}.
Arguments p_S_ref {N}. Arguments p_c_tc1 {N}. Arguments p_c_tc2 {N}. Arguments p_c_tc3 {N}. Arguments p_c_tc4 {N}.
Arguments p_c_tc5 {N}. Arguments p_c_tcr {N}. Arguments p_c_tdes_low {N}. Arguments p_c_tdes_high {N}.
Arguments p_h_p_des {N}.

(* one point of the flight profile *)
Record point (N : Num) := {
  t_temp : T N; t_alt : T N; t_vtas : T N; t_rocd : T N; t_acc : T N; t_cruise : bool; t_gs : T N }.
Arguments t_temp {N}. Arguments t_alt {N}. Arguments t_vtas {N}. Arguments t_rocd {N}. Arguments t_acc {N}.
Arguments t_cruise {N}. Arguments t_gs {N}.

Section M.
Context {N : Num}.
Local Open Scope num_scope.
Local Open Scope bool_scope.

(* ------------------------------------------------------------------------------------------ *)
(* Part 1 — point-wise physics                                                                 *)
(* ------------------------------------------------------------------------------------------ *)

Definition k_p0 : T N := (lit (101325)%Z (1)%Z (0x1.8bcd000000000p+16)%float).

Definition k_T0 : T N := (lit (5763)%Z (20)%Z (0x1.2026666666666p+8)%float).

Definition k_g0 : T N := (lit (196133)%Z (20000)%Z (0x1.39d013a92a305p+3)%float).

Definition k_R_air : T N := (lit (28705287)%Z (100000)%Z (0x1.1f0d88e368f08p+8)%float).

Definition k_METERS_TO_FEET : T N := (lit (82021)%Z (25000)%Z (0x1.a3f290abb44e5p+1)%float).

Definition k_KNOTS_TO_MPS : T N := (lit (128611)%Z (250000)%Z (0x1.076534373f317p-1)%float).

Definition k_MPS_TO_KNOTS : T N := ((lit (1)%Z (1)%Z (0x1.0000000000000p+0)%float) / k_KNOTS_TO_MPS).

Definition k_beta_tropo : T N := (- (lit (13)%Z (2000)%Z (0x1.a9fbe76c8b439p-8)%float)).

Definition k_h_p_tropo : T N := (lit (11000)%Z (1)%Z (0x1.57c0000000000p+13)%float).

Definition isa_temperature (v_altitude : T N) :=
  let altitude_1 := v_altitude in
  let temperature_2 := (if (leb altitude_1 k_h_p_tropo) then (k_T0 + (k_beta_tropo * altitude_1)) else (k_T0 + (k_beta_tropo * k_h_p_tropo))) in
  temperature_2.

Definition isa_pressure (v_altitude : T N) :=
  let altitude_3 := v_altitude in
  let temperature_4 := (isa_temperature altitude_3) in
  let p_tropo_5 := (k_p0 * (npow ((k_T0 + (k_beta_tropo * k_h_p_tropo)) / k_T0) ((- k_g0) / (k_beta_tropo * k_R_air)))) in
  let pressure_6 := (if (leb altitude_3 k_h_p_tropo) then (k_p0 * (npow (temperature_4 / k_T0) ((- k_g0) / (k_beta_tropo * k_R_air)))) else (p_tropo_5 * (nexp (((- k_g0) / (k_R_air * (k_T0 + (k_beta_tropo * k_h_p_tropo)))) * (altitude_3 - k_h_p_tropo))))) in
  pressure_6.

Definition air_density (v_pressure : T N) (v_temperature : T N) :=
  let pressure_7 := v_pressure in
  let temperature_8 := v_temperature in
  (pressure_7 / (k_R_air * temperature_8)).

Definition jet_sfc (P : params N) (v_v_tas : T N) :=
  (((p_c_f1 P) * ((lit (1)%Z (1)%Z (0x1.0000000000000p+0)%float) + ((v_v_tas * k_MPS_TO_KNOTS) / (p_c_f2 P)))) / ((lit (60)%Z (1)%Z (0x1.e000000000000p+5)%float) * (lit (1000)%Z (1)%Z (0x1.f400000000000p+9)%float))).

Definition jet_nominal_fuel_flow (P : params N) (v_thrust : T N) (v_v_tas : T N) :=
  ((jet_sfc P v_v_tas) * v_thrust).

Definition jet_cruise_fuel_flow (P : params N) (v_thrust : T N) (v_v_tas : T N) :=
  (((jet_sfc P v_v_tas) * v_thrust) * (p_c_fcr P)).

Definition jet_max_climb_thrust_isa (P : params N) (v_altitude : T N) (v_v_tas : T N) :=
  let altitude_ft_9 := (v_altitude * k_METERS_TO_FEET) in
  ((p_c_tc1 P) * (((lit (1)%Z (1)%Z (0x1.0000000000000p+0)%float) - (altitude_ft_9 / (p_c_tc2 P))) + ((p_c_tc3 P) * (npow_nat altitude_ft_9 2%nat)))).

Definition tp_sfc (P : params N) (v_v_tas : T N) :=
  ((((p_c_f1 P) * ((lit (1)%Z (1)%Z (0x1.0000000000000p+0)%float) - ((v_v_tas * k_MPS_TO_KNOTS) / (p_c_f2 P)))) * ((v_v_tas * k_MPS_TO_KNOTS) / (lit (1000)%Z (1)%Z (0x1.f400000000000p+9)%float))) / ((lit (60)%Z (1)%Z (0x1.e000000000000p+5)%float) * (lit (1000)%Z (1)%Z (0x1.f400000000000p+9)%float))).

Definition tp_nominal_fuel_flow (P : params N) (v_thrust : T N) (v_v_tas : T N) :=
  ((tp_sfc P v_v_tas) * v_thrust).

Definition tp_cruise_fuel_flow (P : params N) (v_thrust : T N) (v_v_tas : T N) :=
  (((tp_sfc P v_v_tas) * v_thrust) * (p_c_fcr P)).

Definition tp_max_climb_thrust_isa (P : params N) (v_altitude : T N) (v_v_tas : T N) :=
  let altitude_ft_10 := (v_altitude * k_METERS_TO_FEET) in
  let v_tas_kts_11 := (v_v_tas * k_MPS_TO_KNOTS) in
  ((((p_c_tc1 P) / v_tas_kts_11) * ((lit (1)%Z (1)%Z (0x1.0000000000000p+0)%float) - (altitude_ft_10 / (p_c_tc2 P)))) + (p_c_tc3 P)).

(* psec = false: C_f1 (kg/min in BADA OPF files) used as it is — AS CODED before the repair FC19b;
   psec = true : converted to kg/s like the jet and turboprop flows (repaired) *)
Definition piston_nominal_fuel_flow (psec : bool) (P : params N) (v_thrust : T N) (v_v_tas : T N) :=
  if psec then ((p_c_f1 P) / (lit (60)%Z (1)%Z (0x1.e000000000000p+5)%float)) else (p_c_f1 P).

Definition piston_cruise_fuel_flow (psec : bool) (P : params N) (v_thrust : T N) (v_v_tas : T N) :=
  if psec then (((p_c_f1 P) / (lit (60)%Z (1)%Z (0x1.e000000000000p+5)%float)) * (p_c_fcr P))
  else ((p_c_f1 P) * (p_c_fcr P)).

Definition piston_max_climb_thrust_isa (P : params N) (v_altitude : T N) (v_v_tas : T N) :=
  let altitude_ft_12 := (v_altitude * k_METERS_TO_FEET) in
  let v_tas_kts_13 := (v_v_tas * k_MPS_TO_KNOTS) in
  (((p_c_tc1 P) * ((lit (1)%Z (1)%Z (0x1.0000000000000p+0)%float) - (altitude_ft_12 / (p_c_tc2 P)))) + ((p_c_tc3 P) / v_tas_kts_13)).

Definition nominal_fuel_flow (psec : bool) (E : engine) (P : params N) (v_thrust v_v_tas : T N) : T N :=
  match E with Jet => jet_nominal_fuel_flow P v_thrust v_v_tas | Turboprop => tp_nominal_fuel_flow P v_thrust v_v_tas
             | Piston => piston_nominal_fuel_flow psec P v_thrust v_v_tas end.

Definition cruise_fuel_flow (psec : bool) (E : engine) (P : params N) (v_thrust v_v_tas : T N) : T N :=
  match E with Jet => jet_cruise_fuel_flow P v_thrust v_v_tas | Turboprop => tp_cruise_fuel_flow P v_thrust v_v_tas
             | Piston => piston_cruise_fuel_flow psec P v_thrust v_v_tas end.

Definition max_climb_thrust_isa (E : engine) (P : params N) (v_altitude v_v_tas : T N) : T N :=
  match E with Jet => jet_max_climb_thrust_isa P v_altitude v_v_tas
             | Turboprop => tp_max_climb_thrust_isa P v_altitude v_v_tas
             | Piston => piston_max_climb_thrust_isa P v_altitude v_v_tas end.

Definition max_climb_thrust (E : engine) (P : params N) (v_altitude : T N) (v_v_tas : T N) (v_temperature : T N) :=
  let delta_temperature_14 := (v_temperature - (isa_temperature v_altitude)) in
  let delta_temperature_eff_15 := (delta_temperature_14 - (p_c_tc4 P)) in
  ((max_climb_thrust_isa E P v_altitude v_v_tas) * ((lit (1)%Z (1)%Z (0x1.0000000000000p+0)%float) - (nmin (nmax (delta_temperature_eff_15 * (nmax (lit (0)%Z (1)%Z (0x0.0p+0)%float) (p_c_tc5 P))) (lit (0)%Z (1)%Z (0x0.0p+0)%float)) (lit (2)%Z (5)%Z (0x1.999999999999ap-2)%float)))).

Definition max_cruise_thrust (E : engine) (P : params N) (v_altitude : T N) (v_v_tas : T N) (v_temperature : T N) :=
  ((max_climb_thrust E P v_altitude v_v_tas v_temperature) * (p_c_tcr P)).

Definition descent_thrust_high (E : engine) (P : params N) (v_altitude : T N) (v_v_tas : T N) (v_temperature : T N) :=
  ((p_c_tdes_high P) * (max_climb_thrust E P v_altitude v_v_tas v_temperature)).

Definition descent_thrust_low (E : engine) (P : params N) (v_altitude : T N) (v_v_tas : T N) (v_temperature : T N) :=
  ((p_c_tdes_low P) * (max_climb_thrust E P v_altitude v_v_tas v_temperature)).

Definition calc_cl (P : params N) (v_mass : T N) (v_rho : T N) (v_v_tas : T N) :=
  ((((lit (2)%Z (1)%Z (0x1.0000000000000p+1)%float) * v_mass) * k_g0) / ((v_rho * (p_S_ref P)) * (npow_nat v_v_tas 2%nat))).

Definition calc_cd (P : params N) (v_cl : T N) :=
  ((p_c_d0cr P) + ((p_c_d2cr P) * (npow_nat v_cl 2%nat))).

Definition calc_drag (P : params N) (v_cd : T N) (v_rho : T N) (v_v_tas : T N) :=
  (((((lit (1)%Z (2)%Z (0x1.0000000000000p-1)%float) * v_rho) * (p_S_ref P)) * (npow_nat v_v_tas 2%nat)) * v_cd).

Definition thrust_total_energy (P : params N) (v_drag : T N) (v_mass : T N) (v_v_tas : T N) (v_rocd : T N) (v_acceleration : T N) :=
  (v_drag + (v_mass * (((k_g0 * ((lit (1)%Z (1)%Z (0x1.0000000000000p+0)%float) / v_v_tas)) * v_rocd) + v_acceleration))).

Definition calc_thrust (E : engine) (P : params N) (v_mass : T N) (v_temperature : T N) (v_altitude : T N) (v_v_tas : T N) (v_rocd : T N) (v_acceleration : T N) (in_cruise : bool) :=
  let pressure_16 := (isa_pressure v_altitude) in
  let rho_17 := (air_density pressure_16 v_temperature) in
  let cl_18 := (calc_cl P v_mass rho_17 v_v_tas) in
  let cd_19 := (calc_cd P cl_18) in
  let drag_20 := (calc_drag P cd_19 rho_17 v_v_tas) in
  let thrust_21 := (thrust_total_energy P drag_20 v_mass v_v_tas v_rocd v_acceleration) in
  let max_climb_thrust_22 := (max_climb_thrust E P v_altitude v_v_tas v_temperature) in
  let max_cruise_thrust_23 := (max_cruise_thrust E P v_altitude v_v_tas v_temperature) in
  let max_thrust_24 := (if in_cruise then max_cruise_thrust_23 else max_climb_thrust_22) in
  let thrust_25 := (if (ltb max_thrust_24 thrust_21) then max_thrust_24 else thrust_21) in
  let descent_thrust_high_26 := (descent_thrust_high E P v_altitude v_v_tas v_temperature) in
  let descent_thrust_low_27 := (descent_thrust_low E P v_altitude v_v_tas v_temperature) in
  let descent_thrust_28 := (if (ltb (p_h_p_des P) (v_altitude * k_METERS_TO_FEET)) then descent_thrust_high_26 else descent_thrust_low_27) in
  let thrust_29 := (if (ltb thrust_25 (lit (0)%Z (1)%Z (0x0.0p+0)%float)) then descent_thrust_28 else thrust_25) in
  thrust_29.

(* ------------------------------------------------------------------------------------------ *)
(* Part 2 — specific ground range, mass updates, iteration drivers                             *)
(* ------------------------------------------------------------------------------------------ *)

(* calculate_thrust, read as: total-energy thrust, limited above, replaced by descent thrust when negative *)
Definition c_zero_lit : T N := lit 0 1 0x0p+0.
Definition limit_thrust (te maxT desc : T N) : T N :=
  let t1 := if maxT <? te then maxT else te in
  if t1 <? c_zero_lit then desc else t1.
Definition max_thrust_at (E : engine) (P : params N) (alt v temp : T N) (cr : bool) : T N :=
  if cr then max_cruise_thrust E P alt v temp else max_climb_thrust E P alt v temp.
Definition descent_thrust_at (E : engine) (P : params N) (alt v temp : T N) : T N :=
  if p_h_p_des P <? alt * k_METERS_TO_FEET then descent_thrust_high E P alt v temp
  else descent_thrust_low E P alt v temp.
Definition total_energy_at (P : params N) (m temp alt v rocd acc : T N) : T N :=
  let rho := air_density (isa_pressure alt) temp in
  thrust_total_energy P (calc_drag P (calc_cd P (calc_cl P m rho v)) rho v) m v rocd acc.

Definition c_two : T N := lit 2 1 0x1p+1.
Definition c_hundred : T N := lit 100 1 0x1.9p+6.
Definition c_001 : T N := lit 1 100 0x1.47ae147ae147bp-7.

(* fuel flow at one profile point, for the aircraft mass there *)
Definition point_thrust (E : engine) (P : params N) (pt : point N) (mass : T N) : T N :=
  calc_thrust E P mass (t_temp pt) (t_alt pt) (t_vtas pt) (t_rocd pt) (t_acc pt) (t_cruise pt).

Definition fuel_flow (psec : bool) (E : engine) (P : params N) (pt : point N) (mass : T N) : T N :=
  let thrust := point_thrust E P pt mass in
  if t_cruise pt then cruise_fuel_flow psec E P thrust (t_vtas pt) else nominal_fuel_flow psec E P thrust (t_vtas pt).

(* np.divide(groundspeed, fuel_flow, out=zeros, where=fuel_flow != 0) *)
Definition sgr_point (psec : bool) (E : engine) (P : params N) (pt : point N) (mass : T N) : T N :=
  let ff := fuel_flow psec E P pt mass in
  if ff =? zero then zero else t_gs pt / ff.

Definition bada_sgr (psec : bool) (E : engine) (P : params N) (pts : list (point N)) (masses : list (T N)) : list (T N) :=
  map (fun pm => sgr_point psec E P (fst pm) (snd pm)) (combine pts masses).

(* 1 / np.where(sgr < 1, inf, sgr): fuel burnt per metre of ground distance *)
Definition burn_rate (sgr : T N) : T N := if sgr <? one then zero else one / sgr.

(* scipy cumulative_trapezoid(y, dx=d) with a leading [acc]: acc, acc + d0 (y1 + y0)/2, ...
   [ds]: one length per segment (a scalar dx is the constant list) *)
Fixpoint cumtrap (acc : T N) (ds ys : list (T N)) {struct ys} : list (T N) :=
  match ys with
  | y0 :: ((y1 :: _) as r) =>
      match ds with
      | d :: dr => acc :: cumtrap (acc + d * (y1 + y0) / c_two) dr r
      | [] => [acc]
      end
  | _ => [acc]
  end.

(* update_mass_vector: mass[1:] = mass[0] - cumulative_trapezoid(1 / sgr_corrected, dx) *)
Definition update_forward (mass sgr ds : list (T N)) : list (T N) :=
  let m0 := hd zero mass in
  map (fun c => m0 - c) (cumtrap zero ds (map burn_rate sgr)).

(* update_mass_vector_backward: mass[:-1] = mass[-1] + cumulative_trapezoid(1 / sgr_corrected[::-1], dx)[::-1]
   bwrev = false: [dx] is used in forward order against the reversed integrand (as coded);
   bwrev = true : reversed together with it *)
Definition update_backward (bwrev : bool) (mass sgr ds : list (T N)) : list (T N) :=
  let ml := last mass zero in
  rev (map (fun c => ml + c) (cumtrap zero (if bwrev then rev ds else ds) (rev (map burn_rate sgr)))).

Definition pct_change (new old : T N) : T N := nabs (new - old) / old * c_hundred.

Section Drivers.
  Variable sgr_of : list (T N) -> list (T N).      (* masses -> specific ground range at every point *)
  Variable ds : list (T N).

  (* iterate_flight_simulation_constant_initial_mass *)
  Fixpoint loop_ci (mass : list (T N)) (old_final : T N) (fuel : nat) : list (T N) :=
    match fuel with
    | O => mass
    | S k =>
        let mass' := update_forward mass (sgr_of mass) ds in
        if pct_change (last mass' zero) old_final <? c_001 then mass'
        else loop_ci mass' (last mass' zero) k
    end.
  Definition iterate_ci (n : nat) (m0 : T N) (n_iter : nat) : list (T N) :=
    let mass0 := repeat m0 n in
    let mass1 := update_forward mass0 (sgr_of mass0) ds in
    loop_ci mass1 (last mass1 zero) (n_iter - 1).

  (* iterate_flight_simulation_constant_final_mass *)
  Variable bwrev : bool.
  Fixpoint loop_cf (mass : list (T N)) (old_initial : T N) (fuel : nat) : list (T N) :=
    match fuel with
    | O => mass
    | S k =>
        let mass' := update_backward bwrev mass (sgr_of mass) ds in
        if pct_change (hd zero mass') old_initial <? c_001 then mass'
        else loop_cf mass' (hd zero mass') k
    end.
  Definition iterate_cf (n : nat) (mf : T N) (n_iter : nat) : list (T N) :=
    let mass0 := repeat mf n in
    let mass1 := update_backward bwrev mass0 (sgr_of mass0) ds in
    loop_cf mass1 (hd zero mass1) (n_iter - 1).

  (* the two fuel-burn-dependent drivers *)
  Variable shift : bool.
  Variable new_initial : T N -> T N.        (* fuel burn -> new initial mass (already capped at MTOW) *)
  Definition install (init : T N) (mass : list (T N)) : list (T N) :=
    match mass with
    | [] => []
    | m0 :: r => init :: (if shift then map (fun x => x + (init - m0)) r else r)
    end.
  Fixpoint loop_fd (mass : list (T N)) (old_final : T N) (fuel : nat) : list (T N) :=
    match fuel with
    | O => mass
    | S k =>
        let mass' := update_forward mass (sgr_of mass) ds in
        let fuel_burn := hd zero mass' - last mass' zero in
        let mass'' := install (new_initial fuel_burn) mass' in
        if pct_change (last mass'' zero) old_final <? c_001 then mass''
        else loop_fd mass'' (last mass'' zero) k
    end.
  Definition iterate_fd (n : nat) (estimate : T N) (n_iter : nat) : list (T N) :=
    let mass0 := repeat estimate n in
    let mass1 := update_forward mass0 (sgr_of mass0) ds in
    loop_fd mass1 (last mass1 zero) n_iter.
End Drivers.

(* np.min((a, b)) *)
Definition np_min2 (a b : T N) : T N := if b <? a then b else a.
(* oew + mpl * load_factor + fuel_burn * (1 + reserve_fuel_fraction), capped *)
Definition new_initial_fraction (mtow oew mpl lf rff fuel_burn : T N) : T N :=
  np_min2 (oew + mpl * lf + fuel_burn * (one + rff)) mtow.
(* oew + mpl * load_factor + fuel_burn + reserve_fuel, capped *)
Definition new_initial_value (mtow oew mpl lf rf fuel_burn : T N) : T N :=
  np_min2 (oew + mpl * lf + fuel_burn + rf) mtow.

End M.

(* C06 — the table-based (legacy) performance model.  Executable definitions only, written once over [Num].

   Reading of  src/AEIC/performance/models/legacy.py  (PerformanceTable.__post_init__ / subset / interpolate,
   Interpolator.__init__ / __call__ with scipy.interpolate.interpn(method='linear', bounds_error=True)),
   of  commands/make_performance_model.py:build_performance_table  and of the row conversions of
   parsers/ptf_reader.py:PTFData.load.

   Two boolean switches select between the behaviour of the code as first found and the repaired behaviour
   (findings FC06b, FC06c); the altitude -> flight-level conversion (finding F4) is a parameter [conv], which the
   harness instantiates with the text regenerated from the source (Gen.C06_Extracted.alt_to_fl).

     sw_sort = false : the single-mass (descent) interpolator pairs the sorted flight levels with the values
                       in *row order* (df.tas.values);   true : values are looked up by flight level.
     sw_set  = false : "full coverage" is the count test  #FL * #mass = #rows  only;
                       true : additionally the (FL, mass) pairs of the rows must be pairwise distinct. *)
From Coq Require Import ZArith List Bool PrimFloat.
From AV Require Import lib.Num.
Import ListNotations.

Inductive phase := Climb | Cruise | Descent.
Inductive var := VTas | VFf | VRocd.
Inductive err :=
  | EMassCount                       (* "... has wrong number of mass values" *)
  | ECoverage (p : phase)            (* "Performance data at <p> ROC does not have full coverage" *)
  | EFlOnly (v : var) (p : phase)    (* "<v> at <p> ROC depends on variables other than FL" *)
  | EBounds (dim : nat).             (* interpn: "One of the requested xi is out of bounds in dimension <dim>" *)

Record switches := mkSw { sw_sort : bool; sw_set : bool }.

Section M.
  Context {N : Num}.
  Local Open Scope num_scope.
  Local Open Scope bool_scope.

  Record row := mkRow { r_fl : T N; r_mass : T N; r_tas : T N; r_rocd : T N; r_ff : T N }.
  Inductive massq := MMin | MMax | MVal (m : T N).
  Inductive result := Ok (tas rocd ff : T N) | Rej (e : err).

  (* PerformanceTable.ZERO_ROCD_TOL = 1.0e-6 (link: equal to the regenerated constant) *)
  Definition tol : T N := lit 1 1000000 0x1.0c6f7a0b5ed8dp-20.

  Definition sel (v : var) (r : row) : T N :=
    match v with VTas => r_tas r | VFf => r_ff r | VRocd => r_rocd r end.

  (* ---- phase sub-tables (PerformanceTable.subset and the three masks of __post_init__) ---- *)
  Definition in_phase (p : phase) (r : row) : bool :=
    match p with
    | Climb => tol <? r_rocd r
    | Cruise => (- tol <=? r_rocd r) && (r_rocd r <=? tol)
    | Descent => r_rocd r <? - tol
    end.
  Definition subset (p : phase) (rows : list row) : list row := filter (in_phase p) rows.

  (* sorted(x.unique()) *)
  Fixpoint insert_u (x : T N) (l : list (T N)) : list (T N) :=
    match l with
    | [] => [x]
    | y :: r => if x <? y then x :: l else if x =? y then l else y :: insert_u x r
    end.
  Definition uniq_sorted (l : list (T N)) : list (T N) := fold_right insert_u [] l.
  Definition fls (rows : list row) : list (T N) := uniq_sorted (map r_fl rows).
  Definition masses (rows : list row) : list (T N) := uniq_sorted (map r_mass rows).

  (* len(df.drop_duplicates(subset=[a, b])) *)
  Definition pair_eqb (a b : T N * T N) : bool := (fst a =? fst b) && (snd a =? snd b).
  Fixpoint mem_pair (a : T N * T N) (l : list (T N * T N)) : bool :=
    match l with [] => false | b :: r => pair_eqb a b || mem_pair a r end.
  Fixpoint dedup_pairs (l : list (T N * T N)) : list (T N * T N) :=
    match l with [] => [] | a :: r => if mem_pair a r then dedup_pairs r else a :: dedup_pairs r end.

  Definition key (r : row) : T N * T N := (r_fl r, r_mass r).

  (* ---- validation: PerformanceTable.__post_init__ ---- *)
  Definition required_masses (rows : list row) : nat :=
    if forallb (fun r => tol <? r_rocd r) rows then 3%nat
    else if forallb (fun r => nabs (r_rocd r) <=? tol) rows then 3%nat
    else if forallb (fun r => r_rocd r <? - tol) rows then 1%nat
    else 3%nat.

  Definition coverage_ok (sw : switches) (sub : list row) : bool :=
    Nat.eqb (length (fls sub) * length (masses sub)) (length sub)
    && (if sw_set sw then Nat.eqb (length (dedup_pairs (map key sub))) (length sub) else true).

  Definition fl_only_ok (v : var) (sub : list row) : bool :=
    Nat.eqb (length (dedup_pairs (map (fun r => (r_fl r, sel v r)) sub))) (length (fls sub)).

  Definition validate (sw : switches) (rows : list row) : option err :=
    if negb (Nat.eqb (length (masses rows)) (required_masses rows)) then Some EMassCount
    else if negb (coverage_ok sw (subset Cruise rows)) then Some (ECoverage Cruise)
    else if negb (coverage_ok sw (subset Climb rows)) then Some (ECoverage Climb)
    else if negb (coverage_ok sw (subset Descent rows)) then Some (ECoverage Descent)
    else if negb (fl_only_ok VTas (subset Cruise rows)) then Some (EFlOnly VTas Cruise)
    else if negb (fl_only_ok VTas (subset Climb rows)) then Some (EFlOnly VTas Climb)
    else if negb (fl_only_ok VFf (subset Climb rows)) then Some (EFlOnly VFf Climb)
    else if negb (fl_only_ok VTas (subset Descent rows)) then Some (EFlOnly VTas Descent)
    else if negb (fl_only_ok VFf (subset Descent rows)) then Some (EFlOnly VFf Descent)
    else if negb (fl_only_ok VRocd (subset Descent rows)) then Some (EFlOnly VRocd Descent)
    else None.

  (* what PerformanceModel.from_data / load does with the table *)
  Definition load (sw : switches) (rows : list row) : option err := validate sw rows.

  (* ---- interval search of scipy's RegularGridInterpolator with bounds_error=True ----
     [bracket xs x = Some (a, b, y)]: a, b adjacent grid values with a <= x <= b, y = (x-a)/(b-a);
     the last grid value belongs to the last interval (y = 1); a one-point axis gives (a, a, 0);
     [None]: x < xs[0] or x > xs[-1]. *)
  Fixpoint bracket (xs : list (T N)) (x : T N) : option (T N * T N * T N) :=
    match xs with
    | [] => None
    | a :: rest =>
      if x <? a then None else
      match rest with
      | [] => if x <=? a then Some (a, a, zero) else None
      | b :: rest' =>
        if (x <? b) || (match rest' with [] => x <=? b | _ => false end)
        then Some (a, b, (x - a) / (b - a))
        else bracket rest x
      end
    end.

  (* Interpolator.__init__, several masses: zero-initialised array, one assignment per row (last wins) *)
  Definition node_val (v : var) (sub : list row) (f m : T N) : T N :=
    match find (fun r => (r_fl r =? f) && (r_mass r =? m)) (rev sub) with
    | Some r => sel v r
    | None => zero
    end.

  (* Interpolator.__init__, one mass *)
  Definition node_val1 (sw : switches) (v : var) (sub : list row) (f : T N) : T N :=
    if sw_sort sw then
      match find (fun r => r_fl r =? f) sub with Some r => sel v r | None => zero end
    else
      match find (fun p => fst p =? f) (combine (fls sub) sub) with Some (_, r) => sel v r | None => zero end.

  (* RegularGridInterpolator._evaluate_linear, in its order of operations *)
  Definition bil (V : T N -> T N -> T N) (bf bm : T N * T N * T N) : T N :=
    let '(f0, f1, yf) := bf in
    let '(m0, m1, ym) := bm in
    zero + V f0 m0 * ((one * (one - yf)) * (one - ym))
         + V f0 m1 * ((one * (one - yf)) * ym)
         + V f1 m0 * ((one * yf) * (one - ym))
         + V f1 m1 * ((one * yf) * ym).

  Definition lin (V : T N -> T N) (bf : T N * T N * T N) : T N :=
    let '(f0, f1, yf) := bf in
    zero + V f0 * (one * (one - yf)) + V f1 * (one * yf).

  (* Interpolator.__call__ *)
  Definition interp_phase (sw : switches) (sub : list row) (fl mass : T N) : result :=
    let xs := fls sub in
    let ms := masses sub in
    if Nat.ltb 1 (length ms) then
      match bracket xs fl with
      | None => Rej (EBounds 0)
      | Some bf =>
        match bracket ms mass with
        | None => Rej (EBounds 1)
        | Some bm => Ok (bil (node_val VTas sub) bf bm) (bil (node_val VRocd sub) bf bm)
                        (bil (node_val VFf sub) bf bm)
        end
      end
    else
      match bracket xs fl with
      | None => Rej (EBounds 0)
      | Some bf => Ok (lin (node_val1 sw VTas sub) bf) (lin (node_val1 sw VRocd sub) bf)
                      (lin (node_val1 sw VFf sub) bf)
      end.

  (* min(self.mass) / max(self.mass) of the whole table *)
  Definition list_min (l : list (T N)) : T N := match l with [] => zero | x :: r => fold_left nmin r x end.
  Definition list_max (l : list (T N)) : T N := match l with [] => zero | x :: r => fold_left nmax r x end.
  Definition resolve_mass (rows : list row) (q : massq) : T N :=
    match q with MMin => list_min (masses rows) | MMax => list_max (masses rows) | MVal m => m end.

  (* LegacyPerformanceModel.evaluate_impl -> PerformanceTable.interpolate; [conv] = altitude [m] -> flight level.
     The sub-table is itself a PerformanceTable, so __post_init__ runs on it before the interpolator is built. *)
  Definition evaluate (sw : switches) (conv : T N -> T N) (rows : list row) (p : phase)
             (alt : T N) (q : massq) : result :=
    let fl := conv alt in
    let m := resolve_mass rows q in
    let sub := subset p rows in
    match validate sw sub with
    | Some e => Rej e
    | None => interp_phase sw sub fl m
    end.

  (* the two candidate conversions (finding F4) *)
  Definition alt_to_fl_mul (meters_to_fl : T N) (alt : T N) : T N := alt * meters_to_fl.
  Definition alt_to_fl_div (fl_to_meters : T N) (alt : T N) : T N := alt / fl_to_meters.

  (* ---- PTF rows -> table rows: ptf_reader.PTFData.load (conversions) + build_performance_table ---- *)
  Record pclimb := mkPC { pc_fl : T N; pc_tas : T N; pc_lo : T N; pc_nom : T N; pc_hi : T N; pc_ff : T N }.
  Record pcruise := mkPR { pr_fl : T N; pr_tas : T N; pr_lo : T N; pr_nom : T N; pr_hi : T N }.
  Record pdesc := mkPD { pd_fl : T N; pd_tas : T N; pd_rocd : T N; pd_ff : T N }.
  Record ptf := mkPTF { p_low : T N; p_nom : T N; p_high : T N;
                        p_climb : list pclimb; p_cruise : list pcruise; p_descent : list pdesc }.

  Section Build.
    Variables (KN FPM M2S : T N).     (* KNOTS_TO_MPS, FPM_TO_MPS, MINUTES_TO_SECONDS *)

    Definition climb_rows (lo nom hi : T N) (r : pclimb) : list row :=
      [ mkRow (pc_fl r) lo  (pc_tas r * KN) (pc_lo r * FPM)  (pc_ff r / M2S);
        mkRow (pc_fl r) nom (pc_tas r * KN) (pc_nom r * FPM) (pc_ff r / M2S);
        mkRow (pc_fl r) hi  (pc_tas r * KN) (pc_hi r * FPM)  (pc_ff r / M2S) ].
    Definition cruise_rows (lo nom hi : T N) (r : pcruise) : list row :=
      [ mkRow (pr_fl r) lo  (pr_tas r * KN) zero (pr_lo r / M2S);
        mkRow (pr_fl r) nom (pr_tas r * KN) zero (pr_nom r / M2S);
        mkRow (pr_fl r) hi  (pr_tas r * KN) zero (pr_hi r / M2S) ].
    Definition descent_row (nom : T N) (r : pdesc) : row :=
      mkRow (pd_fl r) nom (pd_tas r * KN) ((- pd_rocd r) * FPM) (pd_ff r / M2S).

    Definition build_rows (p : ptf) : list row :=
      flat_map (climb_rows (p_low p) (p_nom p) (p_high p)) (p_climb p)
      ++ flat_map (cruise_rows (p_low p) (p_nom p) (p_high p)) (p_cruise p)
      ++ map (descent_row (p_nom p)) (p_descent p).

    (* sorted(data, key=lambda x: (x[1], x[0], -x[3])) : stable *)
    Definition key_le (a b : row) : bool :=
      (r_mass a <? r_mass b)
      || ((r_mass a =? r_mass b)
          && ((r_fl a <? r_fl b)
              || ((r_fl a =? r_fl b) && (- r_rocd a <=? - r_rocd b)))).
    Fixpoint insert_row (x : row) (l : list row) : list row :=
      match l with [] => [x] | y :: r => if key_le x y then x :: l else y :: insert_row x r end.
    Definition sort_rows (l : list row) : list row := fold_right insert_row [] l.

    Definition build_table (p : ptf) : list row := sort_rows (build_rows p).

    (* well-formed PTF content (parsed rows): three increasing masses, no level twice in a block, at least one row,
       every rate of climb / descent beyond the ROCD tolerance after conversion *)
    Fixpoint distinct (l : list (T N)) : bool :=
      match l with [] => true | a :: r => negb (existsb (fun b => a =? b) r) && distinct r end.
    Definition nonempty {A} (l : list A) : bool := match l with [] => false | _ => true end.
    Definition ptf_shape (p : ptf) : bool :=
      (p_low p <? p_nom p) && (p_nom p <? p_high p)
      && distinct (map pc_fl (p_climb p)) && distinct (map pr_fl (p_cruise p)) && distinct (map pd_fl (p_descent p))
      && (nonempty (p_climb p) || nonempty (p_cruise p) || nonempty (p_descent p)).
    Definition wf_ptf (p : ptf) : bool :=
      ptf_shape p
      && forallb (fun c => (tol <? pc_lo c * FPM) && (tol <? pc_nom c * FPM) && (tol <? pc_hi c * FPM)) (p_climb p)
      && forallb (fun d => (- pd_rocd d) * FPM <? - tol) (p_descent p).
    (* what BADA writes and PTFData.load reads: rates are non-negative numbers, 0 fpm allowed in the climb block *)
    Definition bada_ptf (p : ptf) : bool :=
      ptf_shape p
      && forallb (fun c => (zero <=? pc_lo c) && (zero <=? pc_nom c) && (zero <=? pc_hi c)) (p_climb p)
      && forallb (fun d => zero <? pd_rocd d) (p_descent p).
  End Build.

  (* ---- case runner for the correspondence ---- *)
  Inductive query := Q (direct : bool) (p : phase) (alt : T N) (m : massq).
  Definition run_query (sw : switches) (conv : T N -> T N) (rows : list row) (q : query) : result :=
    match q with Q direct p alt m => evaluate sw (if direct then (fun x => x) else conv) rows p alt m end.
  Definition run_case (sw : switches) (conv : T N -> T N) (rows : list row) (qs : list query)
    : option err * list result :=
    match load sw rows with
    | Some e => (Some e, [])
    | None => (None, map (run_query sw conv rows) qs)
    end.
End M.

Arguments row : clear implicits.
Arguments massq : clear implicits.
Arguments result : clear implicits.
Arguments query : clear implicits.
Arguments ptf : clear implicits.
Arguments pclimb : clear implicits.
Arguments pcruise : clear implicits.
Arguments pdesc : clear implicits.

(* C16 — the dataset / hour-slice cache of weather.py:Weather (_require_main_ds, _require_data) as a state machine.
   Discrete model (Z, option), axiom-free.

   A query time is (day, hour, rest): `_nc_path` depends on the day only, `time.hour` on the hour, and two
   timestamps are equal iff all three agree.  The configuration [cfg] says what the source does (regenerated
   from the source on every run by translator/c16_extract.py):
     key_on_path  : the open daily Dataset is keyed on the file path (true) or on the full timestamp (false)
     reset_slice  : `self._ds = None` when another file is opened
     reset_idx    : `self._ds_time_idx = None` when another file is opened
   [taxis d] : does the file of day d have a `valid_time` dimension. *)
From Coq Require Import ZArith List Bool.
Import ListNotations.
Local Open Scope Z_scope.

Record time := mkT { t_day : Z; t_hour : Z; t_rest : Z }.
Definition time_eqb (a b : time) : bool :=
  (t_day a =? t_day b) && (t_hour a =? t_hour b) && (t_rest a =? t_rest b).

Record cfg := mkCfg { key_on_path : bool; reset_slice : bool; reset_idx : bool }.

Inductive key := KTime (t : time) | KDay (d : Z).

(* c_ds = Some (d, sl): `self._ds` was cut from the file of day d; sl = Some h: isel(valid_time=h), None: whole file *)
Record cache := mkC { c_main : option Z; c_key : option key; c_ds : option (Z * option Z); c_idx : option Z }.
Definition empty : cache := mkC None None None None.

Definition key_hits (k : key) (t : time) : bool :=
  match k with KTime t0 => time_eqb t0 t | KDay d => d =? t_day t end.

Definition require_main (c : cfg) (s : cache) (t : time) : cache :=
  let hit := match c_main s, c_key s with Some _, Some k => key_hits k t | _, _ => false end in
  if hit then s
  else mkC (Some (t_day t)) (Some (if key_on_path c then KDay (t_day t) else KTime t))
           (if reset_slice c then None else c_ds s) (if reset_idx c then None else c_idx s).

Definition require_data (c : cfg) (taxis : Z -> bool) (s : cache) (t : time) : cache :=
  let s1 := require_main c s t in
  let hit := match c_ds s1, c_idx s1 with Some _, Some h => h =? t_hour t | _, _ => false end in
  if hit then s1
  else match c_main s1 with
       | Some d => if taxis d then mkC (c_main s1) (c_key s1) (Some (d, Some (t_hour t))) (Some (t_hour t))
                   else mkC (c_main s1) (c_key s1) (Some (d, None)) None
       | None => s1
       end.

(* what a query at time t must read *)
Definition wanted (taxis : Z -> bool) (t : time) : option (Z * option Z) :=
  Some (t_day t, if taxis (t_day t) then Some (t_hour t) else None).

(* run a sequence of queries on one Weather object; report what each one read *)
Fixpoint run (c : cfg) (taxis : Z -> bool) (s : cache) (ts : list time) : list (option (Z * option Z)) :=
  match ts with
  | [] => []
  | t :: r => let s' := require_data c taxis s t in c_ds s' :: run c taxis s' r
  end.

Definition cfg_ok (c : cfg) : bool := reset_slice c || reset_idx c.

(* association list day -> has time axis, for execution *)
Fixpoint lookup_taxis (l : list (Z * bool)) (d : Z) : bool :=
  match l with [] => false | (k, b) :: r => if k =? d then b else lookup_taxis r d end.

(* C13 — schedule import creates exactly the flight instances the schedule row implies.
   Discrete model (Z / list / option / string), axiom-free.

   Units: day numbers since 1970-01-01 (lib/Dates.v); local wall-clock time in minutes since the epoch
   (day*1440 + minute of day); UTC instants in seconds since the epoch; distances in millimetres
   (so that miles * 1.609344 km and the thresholds 1 km / 50 km / 10 % are exact integers);
   coordinates in micro-degrees.

   External behaviour enters as Section variables: the tz database as [offO]/[offD] (UTC offset in
   seconds of the origin / destination zone at a local wall-clock minute) and the WGS-84 inverse
   geodesic problem as [geod x1 y1 x2 y2] (distance in mm, None = NaN).

   Two switches describe the code before / after the proposed repairs:
     fl_swap_latlon = true : _distance_check calls GEOD.inv(lat, lon, lat, lon)        (F10, as found)
     fl_raw_dates   = true : OAGDatabase.add hands the raw efffrom/effto to _add_schedule (F11, as found)
   The specification is the model with both switches false. *)
From Coq Require Import ZArith List String Bool Ascii.
From AV Require Import lib.Dates.
Import ListNotations.
Open Scope Z_scope.

(* ---- row validity (reference reading of oag.py:CSVEntry.is_row_valid) ---- *)
Record csvrow := CsvRow {
  c_carrier : string; c_service : string; c_stops : Z; c_operating : string; c_genacft : string }.

Inductive skip :=
  | SkipEOF | SkipService | SkipStops | SkipOperating | SkipEquipment
  | SkipUnknownAirport | SkipZeroDistance | SkipSuspiciousDistance.

Definition str_in (s : string) (l : list string) : bool := existsb (String.eqb s) l.

Definition eof_marker : string := String (ascii_of_nat 26) EmptyString.

Definition row_skip_reason (excl : list string) (r : csvrow) : option skip :=
  if String.eqb (c_carrier r) eof_marker then Some SkipEOF
  else if str_in (c_service r) ["V"; "U"]%string then Some SkipService
  else if negb (c_stops r =? 0) then Some SkipStops
  else if String.eqb (c_operating r) "N" then Some SkipOperating
  else if str_in (c_genacft r) excl then Some SkipEquipment
  else None.

(* ---- distance plausibility (reference reading of _distance_check's decision part) ---- *)
Inductive dverdict := DPlausible | DZero | DSuspicious.

Definition miles_to_mm : Z := 1609344.

Definition distance_verdict_gen (zero_thr abs_thr rel_num rel_den pct : Z) (gc : option Z) (given : Z) : dverdict :=
  match gc with
  | None => DPlausible                      (* NaN: every comparison is false *)
  | Some g =>
      if g <? zero_thr then DZero
      else if (0 <? given) && ((abs_thr <? Z.abs (given - g)) && (rel_num * g <? pct * Z.abs (given - g) * rel_den))
           then DSuspicious else DPlausible
  end.

(* 1 km, 50 km, 10 / 1 percent, percent scale 100 *)
Definition distance_verdict : option Z -> Z -> dverdict := distance_verdict_gen 1000000 50000000 10 1 100.

(* ---- weekday mask ---- *)
Definition dow_mask_gen (base off : Z) (days : list Z) : Z :=
  fold_right Z.add 0 (map (fun day => Z.shiftl base (day - off)) days).
Definition dow_mask : list Z -> Z := dow_mask_gen 1 1.

(* ---- expansion of an effective range by weekday ---- *)
Definition in_days (days : list Z) (d : Z) : bool := existsb (Z.eqb (weekday d)) days.

Fixpoint expand_from (d : Z) (n : nat) (days : list Z) : list Z :=
  match n with
  | O => []
  | S k => (if in_days days d then [d] else []) ++ expand_from (d + 1) k days
  end.

Definition expand (from to : Z) (days : list Z) : list Z :=
  expand_from from (Z.to_nat (to - from + 1)) days.

(* ---- tz tables for execution: piecewise-constant offset over local wall-clock minutes ---- *)
Fixpoint tz_lookup (cur : Z) (t : list (Z * Z)) (lm : Z) : Z :=
  match t with
  | [] => cur
  | (start, off) :: r => if lm <? start then cur else tz_lookup off r lm
  end.

(* ---- geodesic table for execution ---- *)
Fixpoint geod_lookup (t : list ((Z * Z * Z * Z) * option Z)) (a b c d : Z) : option Z :=
  match t with
  | [] => None
  | ((a', b', c', d'), v) :: r =>
      if (a =? a') && (b =? b') && (c =? c') && (d =? d') then v else geod_lookup r a b c d
  end.

Record sched := Sched {
  s_from : option (Z * Z * Z); s_to : option (Z * Z * Z); s_days : list Z;
  s_dep : Z; s_arr : Z; s_arrday : Z }.

Record flags := Flags { fl_swap_latlon : bool; fl_raw_dates : bool }.
Definition spec_flags : flags := Flags false false.
Definition found_flags : flags := Flags true true.

Definition instance_t := (Z * Z * Z)%type.      (* departure UTC s, arrival UTC s, UTC day of departure *)
Definition flight_t := (Z * Z * Z * Z * (Z * Z * Z) * (Z * Z * Z) * Z)%type.
  (* weekday mask, departure minute, arrival minute, arrival day offset, effective from, to, count *)

Inductive outcome :=
  | Skipped (r : skip)
  | Crashed
  | Imported (f : flight_t) (insts : list instance_t) (misorder_warning : bool).

Definition civil_day (c : Z * Z * Z) : Z := let '(y, m, d) := c in days_from_civil y m d.

Definition effective_from (year : Z) (s : sched) : Z :=
  match s_from s with Some c => civil_day c | None => jan1 year end.
Definition effective_to (year : Z) (s : sched) : Z :=
  match s_to s with Some c => civil_day c | None => dec31 year end.

Definition is_none {A} (o : option A) : bool := match o with None => true | Some _ => false end.

Section Import.
  Variable offO offD : Z -> Z.                       (* tz database: offset (s) at a local minute *)
  Variable geod : Z -> Z -> Z -> Z -> option Z.      (* inverse geodesic: x1 y1 x2 y2 -> mm *)

  Definition utc_of (off : Z -> Z) (lm : Z) : Z := lm * 60 - off lm.

  Definition instance (s : sched) (d : Z) : instance_t :=
    let dep := utc_of offO (d * 1440 + s_dep s) in
    let arr := utc_of offD ((d + s_arrday s) * 1440 + s_arr s) in
    (dep, arr, dep / 86400).

  Definition ordered (i : instance_t) : bool := let '(dep, arr, _) := i in dep <=? arr.

  Definition all_instances (year : Z) (s : sched) : list instance_t :=
    map (instance s) (expand (effective_from year s) (effective_to year s) (s_days s)).

  Definition schedule (year : Z) (s : sched) : list instance_t := filter ordered (all_instances year s).
  Definition misordered (year : Z) (s : sched) : bool := existsb (fun i => negb (ordered i)) (all_instances year s).

  (* coordinates: (lat, lon) in micro-degrees *)
  Definition gc_distance (fl : flags) (o d : Z * Z) : option Z :=
    let '(olat, olon) := o in let '(dlat, dlon) := d in
    if fl_swap_latlon fl then geod olat olon dlat dlon else geod olon olat dlon dlat.

  Definition import_row (fl : flags) (excl : list string) (year : Z) (r : csvrow)
             (known_o known_d : bool) (o d : Z * Z) (miles : Z) (s : sched) : outcome :=
    match row_skip_reason excl r with
    | Some k => Skipped k
    | None =>
      if negb (known_o && known_d) then Skipped SkipUnknownAirport
      else match distance_verdict (gc_distance fl o d) (miles * miles_to_mm) with
           | DZero => Skipped SkipZeroDistance
           | DSuspicious => Skipped SkipSuspiciousDistance
           | DPlausible =>
             if fl_raw_dates fl && (is_none (s_from s) || is_none (s_to s)) then Crashed
             else
               let kept := schedule year s in
               Imported (dow_mask (s_days s), s_dep s, s_arr s, s_arrday s,
                         civil_from_days (effective_from year s), civil_from_days (effective_to year s),
                         Z.of_nat (List.length kept))
                        kept (misordered year s)
           end
    end.
End Import.

(* entry point used by the correspondence: oracle tables instead of functions *)
Definition run_case (fl : flags) (excl : list string) (year : Z) (r : csvrow) (known_o known_d : bool)
           (o d : Z * Z) (miles : Z) (s : sched)
           (tzO0 : Z) (tzO : list (Z * Z)) (tzD0 : Z) (tzD : list (Z * Z))
           (gt : list ((Z * Z * Z * Z) * option Z)) : outcome :=
  import_row (tz_lookup tzO0 tzO) (tz_lookup tzD0 tzD) (geod_lookup gt) fl excl year r known_o known_d o d miles s.

(* direction-independent origin/destination key, as stored in flights.od_pair *)
Definition od_pair (o d : string) : string := if String.leb o d then (o ++ d)%string else (d ++ o)%string.

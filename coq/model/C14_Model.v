(* C14 — mission queries return exactly the flight instances matching the filter.
   Discrete model (Z / list / option / string), axiom-free.

   A database is the list of joined rows (schedule instance + its flight + origin and destination
   airport + their countries' continents).  Distances in micro-kilometres, coordinates in micro-degrees,
   timestamps in seconds since the epoch, dates as civil triples converted by lib/Dates.v.

   The query object carries its accumulated condition list exactly as missions/query.py does
   (QueryBase._conditions/_params are appended to by every to_sql call).  Switches:
     reset_on_build = false : conditions accumulate across builds (as found; FC14a)
     empty_ok       = false : a filter that produces no condition crashes in Filter.to_sql (as found; F12)
   The specification is the model with both switches true.

   SQLite's random() enters as the Section variable [coin]: the i-th sampling conjunct of the condition
   list keeps row r iff [coin i (r_sid r) = true]. *)
From Coq Require Import ZArith List String Bool.
From AV Require Import lib.Dates.
Import ListNotations.
Open Scope Z_scope.

Record row := Row {
  r_sid : Z; r_dep : Z; r_day : Z; r_fid : Z;
  r_dist : Z; r_seats : Z; r_service : string; r_actype : string;
  r_oap : string; r_octry : string; r_ocont : string; r_olat : Z; r_olon : Z;
  r_dap : string; r_dctry : string; r_dcont : string; r_dlat : Z; r_dlon : Z;
  r_od : string }.

Record bbox := BBox { b_minlat : Z; b_maxlat : Z; b_minlon : Z; b_maxlon : Z }.

Record fspec := Filter {
  f_mindist : option Z; f_maxdist : option Z; f_minseat : option Z; f_maxseat : option Z;
  f_ap : option (list string); f_oap : option (list string); f_dap : option (list string);
  f_ctry : option (list string); f_octry : option (list string); f_dctry : option (list string);
  f_cont : option (list string); f_ocont : option (list string); f_dcont : option (list string);
  f_bb : option bbox; f_obb : option bbox; f_dbb : option bbox;
  f_service : option (list string); f_actype : option (list string) }.

Definition empty_filter : fspec :=
  Filter None None None None None None None None None None None None None None None None None None.

Definition mem (s : string) (l : list string) : bool := existsb (String.eqb s) l.

(* ---- spatial compatibility rule (reference reading of Filter._normalize / _spatial) ---- *)
Definition set_list (o : option (list string)) : Z :=
  match o with Some (_ :: _) => 1 | _ => 0 end.                  (* lists count only when non-empty *)
Definition set_box (o : option bbox) : Z := match o with Some _ => 1 | None => 0 end.

Definition n_combined (f : fspec) : Z := set_list (f_ap f) + set_list (f_ctry f) + set_list (f_cont f) + set_box (f_bb f).
Definition n_origin (f : fspec) : Z := set_list (f_oap f) + set_list (f_octry f) + set_list (f_ocont f) + set_box (f_obb f).
Definition n_destination (f : fspec) : Z := set_list (f_dap f) + set_list (f_dctry f) + set_list (f_dcont f) + set_box (f_dbb f).

Definition spatial_ok (combined origin destination : Z) : bool :=
  ((combined =? 1) && (origin =? 0) && (destination =? 0))
  || ((combined =? 0) && (origin <=? 1) && (destination <=? 1)).

Definition filter_legal (f : fspec) : bool := spatial_ok (n_combined f) (n_origin f) (n_destination f).

(* ---- conditions a filter contributes (presence), as Filter.to_sql builds them ---- *)
Definition some_nonempty (o : option (list string)) : bool := match o with Some (_ :: _) => true | _ => false end.
Definition is_some {A} (o : option A) : bool := match o with Some _ => true | None => false end.

(* number of conjuncts Filter.to_sql emits *)
Definition spatial_conds {A} (both o d : option A) : Z :=
  if is_some both then 1 else (if is_some o then 1 else 0) + (if is_some d then 1 else 0).

Definition n_conditions (f : fspec) : Z :=
  (if is_some (f_mindist f) then 1 else 0) + (if is_some (f_maxdist f) then 1 else 0)
  + (if is_some (f_minseat f) then 1 else 0) + (if is_some (f_maxseat f) then 1 else 0)
  + (if some_nonempty (f_service f) then 1 else 0) + (if some_nonempty (f_actype f) then 1 else 0)
  + spatial_conds (f_ap f) (f_oap f) (f_dap f) + spatial_conds (f_ctry f) (f_octry f) (f_dctry f)
  + spatial_conds (f_cont f) (f_ocont f) (f_dcont f) + spatial_conds (f_bb f) (f_obb f) (f_dbb f).

(* ---- meaning of the conjuncts on a joined row ---- *)
Definition opt_ok {A} (o : option A) (p : A -> bool) : bool := match o with None => true | Some x => p x end.

Definition in_box (b : bbox) (lat lon : Z) : bool :=
  (b_minlat b <=? lat) && (lat <=? b_maxlat b) && (b_minlon b <=? lon) && (lon <=? b_maxlon b).

(* combined condition if given (then the origin/destination ones are not consulted), else the two ends *)
Definition spatial_match {A} (both o d : option A) (po pd : A -> bool) : bool :=
  match both with
  | Some x => po x || pd x
  | None => opt_ok o po && opt_ok d pd
  end.

Definition list_cond (o : option (list string)) (v : string) : bool :=
  match o with Some (x :: l) => mem v (x :: l) | _ => true end.       (* empty list: no condition *)

Definition filter_matches (f : fspec) (r : row) : bool :=
  opt_ok (f_mindist f) (fun m => m <=? r_dist r) && opt_ok (f_maxdist f) (fun m => r_dist r <=? m)
  && opt_ok (f_minseat f) (fun m => m <=? r_seats r) && opt_ok (f_maxseat f) (fun m => r_seats r <=? m)
  && list_cond (f_service f) (r_service r) && list_cond (f_actype f) (r_actype r)
  && spatial_match (f_ap f) (f_oap f) (f_dap f) (mem (r_oap r)) (mem (r_dap r))
  && spatial_match (f_ctry f) (f_octry f) (f_dctry f) (mem (r_octry r)) (mem (r_dctry r))
  && spatial_match (f_cont f) (f_ocont f) (f_dcont f) (mem (r_ocont r)) (mem (r_dcont r))
  && spatial_match (f_bb f) (f_obb f) (f_dbb f) (fun b => in_box b (r_olat r) (r_olon r))
                   (fun b => in_box b (r_dlat r) (r_dlon r)).

(* ---- queries ---- *)
Record query := Query {
  q_filter : option fspec;
  q_start : option (Z * Z * Z); q_end : option (Z * Z * Z);
  q_nth : option Z;
  q_sample : option (Z * Z);            (* sampling fraction num/den, den > 0 *)
  q_limit : option Z; q_offset : option Z }.

Inductive cond :=
  | CFilter (f : fspec)
  | CStart (ts : Z)                 (* departure_timestamp >= ts *)
  | CEnd (ts : Z)                   (* departure_timestamp <  ts *)
  | CSample                         (* random() conjunct *)
  | CNthMin (n : Z)                 (* (day - MIN(day)) % n = 0 *)
  | CNthBase (base n : Z).          (* (day - base) % n = 0 *)

Inductive error := EInvalid | EIllegalSpatialMix | EEmptyFilterCrash.
Inductive result (A : Type) := Ok (a : A) | Err (e : error).
Arguments Ok {A} a. Arguments Err {A} e.

Definition civil_day (c : Z * Z * Z) : Z := let '(y, m, d) := c in days_from_civil y m d.

Definition query_valid (q : query) : bool :=
  opt_ok (q_sample q) (fun s => (0 <? fst s) && (fst s <=? snd s))
  && opt_ok (q_nth q) (fun n => 1 <=? n)
  && opt_ok (q_limit q) (fun n => 1 <=? n)
  && opt_ok (q_offset q) (fun n => 0 <=? n)
  && (negb (is_some (q_offset q)) || is_some (q_limit q)).

Definition filter_part (empty_ok : bool) (fo : option fspec) : result (list cond) :=
  match fo with
  | None => Ok []
  | Some f =>
      if negb (filter_legal f) then Err EIllegalSpatialMix
      else if n_conditions f =? 0 then (if empty_ok then Ok [] else Err EEmptyFilterCrash)
      else Ok [CFilter f]
  end.

Definition date_part (q : query) : list cond :=
  (match q_start q with Some c => [CStart (86400 * civil_day c)] | None => [] end)
  ++ (match q_end q with Some c => [CEnd (86400 * (civil_day c + 1))] | None => [] end).

Definition nth_part (q : query) : list cond :=
  match q_nth q with
  | Some n => if 1 <? n then
                match q_start q with
                | None => [CNthMin n]
                | Some c => [CNthBase (civil_day c) n]
                end
              else []
  | None => []
  end.

Definition sample_part (q : query) : list cond :=
  match q_sample q with Some _ => [CSample] | None => [] end.

(* the conjuncts one to_sql call contributes, in the order of the source *)
Definition own_conds (empty_ok : bool) (q : query) : result (list cond) :=
  if negb (query_valid q) then Err EInvalid
  else match filter_part empty_ok (q_filter q) with
       | Err e => Err e
       | Ok fc => Ok (fc ++ date_part q ++ sample_part q ++ nth_part q)
       end.

(* one to_sql call on a query object whose accumulated list is [acc] *)
Definition build (reset_on_build empty_ok : bool) (q : query) (acc : list cond) : result (list cond) :=
  match own_conds empty_ok q with
  | Err e => Err e
  | Ok c => Ok ((if reset_on_build then [] else acc) ++ c)
  end.

Fixpoint build_times (reset_on_build empty_ok : bool) (q : query) (k : nat) (acc : list cond) : result (list cond) :=
  match k with
  | O => Ok acc
  | S k' => match build reset_on_build empty_ok q acc with
            | Err e => Err e
            | Ok acc' => build_times reset_on_build empty_ok q k' acc'
            end
  end.

(* ---- evaluation ---- *)
Fixpoint min_day_from (m : Z) (db : list row) : Z :=
  match db with [] => m | r :: t => min_day_from (Z.min m (r_day r)) t end.
Definition min_day (db : list row) : Z := match db with [] => 0 | r :: t => min_day_from (r_day r) t end.

Section Eval.
  Variable coin : nat -> Z -> bool.
  Variable db : list row.

  Definition eval_cond (i : nat) (c : cond) (r : row) : bool :=
    match c with
    | CFilter f => filter_matches f r
    | CStart ts => ts <=? r_dep r
    | CEnd ts => r_dep r <? ts
    | CSample => coin i (r_sid r)
    | CNthMin n => Z.rem (r_day r - min_day db) n =? 0
    | CNthBase base n => Z.rem (r_day r - base) n =? 0
    end.

  Fixpoint eval_conds (i : nat) (cs : list cond) (r : row) : bool :=
    match cs with
    | [] => true
    | c :: t => eval_cond i c r && eval_conds (S i) t r
    end.

  Fixpoint insert (x : row) (l : list row) : list row :=
    match l with
    | [] => [x]
    | y :: t => if r_dep x <=? r_dep y then x :: l else y :: insert x t
    end.
  Definition sort_by_dep (l : list row) : list row := fold_right insert [] l.

  Definition selected (cs : list cond) : list row := filter (eval_conds 0 cs) db.

  Definition window (limit offset : option Z) (l : list row) : list row :=
    match limit with
    | None => l
    | Some n => firstn (Z.to_nat n) (skipn (Z.to_nat (match offset with Some o => o | None => 0 end)) l)
    end.

  (* Database.__call__ on a Query whose condition list is cs *)
  Definition exec_query (q : query) (cs : list cond) : list row :=
    window (q_limit q) (q_offset q) (sort_by_dep (selected cs)).

  Definition exec_count (cs : list cond) : Z := Z.of_nat (List.length (selected cs)).

  (* frequent routes: GROUP BY od_pair, COUNT, ORDER BY count DESC, LIMIT *)
  Fixpoint bump (k : string) (l : list (string * Z)) : list (string * Z) :=
    match l with
    | [] => [(k, 1)]
    | (k', c) :: t => if String.eqb k k' then (k', c + 1) :: t else (k', c) :: bump k t
    end.
  Definition tally (rows : list row) : list (string * Z) :=
    fold_left (fun acc r => bump (r_od r) acc) rows [].
  Fixpoint insert_desc (x : string * Z) (l : list (string * Z)) : list (string * Z) :=
    match l with
    | [] => [x]
    | y :: t => if snd y <=? snd x then x :: l else y :: insert_desc x t
    end.
  Definition sort_desc (l : list (string * Z)) : list (string * Z) := fold_right insert_desc [] l.
  Definition exec_frequent (limit : Z) (cs : list cond) : list (string * Z) :=
    firstn (Z.to_nat limit) (sort_desc (tally (selected cs))).
End Eval.

(* ---- entry points used by the correspondence: run the object k >= 1 times ---- *)
Definition no_coin : nat -> Z -> bool := fun _ _ => true.

Definition run_query (reset_on_build empty_ok : bool) (db : list row) (q : query) (k : nat) : result (list Z) :=
  match build_times reset_on_build empty_ok q k [] with
  | Err e => Err e
  | Ok cs => Ok (map r_sid (exec_query no_coin db q cs))
  end.

(* count queries have no sampling / nth / limit fields *)
Definition run_count (reset_on_build empty_ok : bool) (db : list row) (q : query) (k : nat) : result Z :=
  match build_times reset_on_build empty_ok q k [] with
  | Err e => Err e
  | Ok cs => Ok (exec_count no_coin db cs)
  end.

Definition run_frequent (reset_on_build empty_ok : bool) (db : list row) (q : query) (limit : Z) (k : nat)
  : result (list (string * Z)) :=
  if limit <? 1 then Err EInvalid else
  match build_times reset_on_build empty_ok q k [] with
  | Err e => Err e
  | Ok cs => Ok (sort_desc (tally (selected no_coin db cs)))      (* full ranking; the harness applies the limit *)
  end.

(* the state the property names: how many conjuncts the object holds after k builds *)
Definition run_ncond (reset_on_build empty_ok : bool) (q : query) (k : nat) : result Z :=
  match build_times reset_on_build empty_ok q k [] with
  | Err e => Err e
  | Ok cs => Ok (Z.of_nat (List.length cs))
  end.

(* direction-independent origin/destination key, as the importer stores it *)
Definition od_key (o d : string) : string := if String.leb o d then (o ++ d)%string else (d ++ o)%string.
